(* StrSearchProofs.v -- relational SMT-LIB 2.6 specifications of str.++, str.len, str.at, str.substr,
   str.prefixof, str.suffixof, str.contains, str.indexof, str.replace, str.replace_all over
   [word = list N] and [Z], and the proofs that the model of StrSearch.v satisfies them for all words
   and all integer arguments.  Each specification is also proved to determine its result uniquely
   ([*_fun]), which is what makes "equal to the model" the oracle of the correspondence check. *)
Require Import Base StrSearch.
Open Scope Z_scope.

(* ------------------------------------------------------------------------------------------ *)
(** * Specifications (independent of the code)                                                  *)

Definition zlen (w : word) : Z := Z.of_nat (length w).

(* type invariant of SmtString: it can only be built by SmtString::make *)
Definition wfw (w : word) : Prop := zlen w <= MAX_LENGTH.
Definition i32 (z : Z) : Prop := -2147483648 <= z <= 2147483647.

(* v occurs in w at position n:  w = x.v.y with |x| = n *)
Definition occurs_at (v w : word) (n : nat) : Prop :=
  exists x y, w = x ++ v ++ y /\ length x = n.

Definition PrefixOf (v w : word) : Prop := exists x, w = v ++ x.
Definition SuffixOf (v w : word) : Prop := exists x, w = x ++ v.
Definition Contains (w v : word) : Prop := exists x y, w = x ++ v ++ y.

(* str.at(w, n): the one-character string at position n if 0 <= n < |w|, else "" *)
Definition At (w : word) (n : Z) (r : word) : Prop :=
  (0 <= n < zlen w /\ exists x c y, w = x ++ c :: y /\ zlen x = n /\ r = [c]) \/
  (~ (0 <= n < zlen w) /\ r = []).

(* str.substr(w, m, n): the longest substring of w of length at most n starting at position m
   if 0 <= m < |w| and 0 < n, else "" *)
Definition Substr (w : word) (m n : Z) (r : word) : Prop :=
  ((0 <= m < zlen w /\ 0 < n) /\
   (exists x y, w = x ++ r ++ y /\ zlen x = m /\ zlen r <= n) /\
   (forall x' r' y', w = x' ++ r' ++ y' -> zlen x' = m -> zlen r' <= n ->
                     (length r' <= length r)%nat)) \/
  (~ (0 <= m < zlen w /\ 0 < n) /\ r = []).

(* str.indexof(w, v, i): -1 if i < 0 or i > |w| or v does not occur in w at or after i; else the
   smallest n >= i such that w = x.v.y with |x| = n *)
Definition IndexOf (w v : word) (i n : Z) : Prop :=
  (exists k, n = Z.of_nat k /\ 0 <= i <= n /\ occurs_at v w k /\
             forall k', i <= Z.of_nat k' -> occurs_at v w k' -> (k <= k')%nat) \/
  (n = -1 /\ (i < 0 \/ i > zlen w \/ forall k, i <= Z.of_nat k -> ~ occurs_at v w k)).

(* str.replace(w, w1, w2): w if w1 does not occur in w; else u1.w2.u2 where w = u1.w1.u2 and u1 is
   the shortest such prefix *)
Definition Replace (w w1 w2 r : word) : Prop :=
  (~ Contains w w1 /\ r = w) \/
  (exists u1 u2, w = u1 ++ w1 ++ u2 /\
                 (forall u1' u2', w = u1' ++ w1 ++ u2' -> (length u1 <= length u1')%nat) /\
                 r = u1 ++ w2 ++ u2).

(* str.replace_all(w, w1, w2): w if w1 = "" or w1 does not occur in w; else
   u1.w2.replace_all(u2, w1, w2) where w = u1.w1.u2 and u1 is the shortest such prefix *)
Inductive ReplaceAll : word -> word -> word -> word -> Prop :=
| RA_empty : forall w w2, ReplaceAll w [] w2 w
| RA_none : forall w w1 w2, w1 <> [] -> ~ Contains w w1 -> ReplaceAll w w1 w2 w
| RA_step : forall w w1 w2 u1 u2 r,
    w1 <> [] -> w = u1 ++ w1 ++ u2 ->
    (forall u1' u2', w = u1' ++ w1 ++ u2' -> (length u1 <= length u1')%nat) ->
    ReplaceAll u2 w1 w2 r ->
    ReplaceAll w w1 w2 (u1 ++ w2 ++ r).

(* what naive_search(p, s, k) promises *)
Definition search_post (p s : word) (k : nat) (res : sresult) : Prop :=
  match res with
  | SFound i j => (k <= i)%nat /\ j = (i + length p)%nat /\ occurs_at p s i /\
                  forall i', (k <= i')%nat -> occurs_at p s i' -> (i <= i')%nat
  | SNotFound => forall i', (k <= i')%nat -> ~ occurs_at p s i'
  end.

(* ------------------------------------------------------------------------------------------ *)
(** * Lists                                                                                     *)

Lemma app_eq_len : forall (x x' a a' : word),
  x ++ a = x' ++ a' -> length x = length x' -> x = x' /\ a = a'.
Proof.
  induction x as [|c x IH]; destruct x' as [|c' x']; cbn [app length]; intros a a' E L;
    try discriminate; auto.
  injection E as E1 E2. destruct (IH x' a a' E2) as [H1 H2]; [lia|]. subst. auto.
Qed.

Lemma firstn_length_app : forall (x y : word), firstn (length x) (x ++ y) = x.
Proof. induction x as [|c x IH]; intros y; cbn [length app firstn]; [destruct y|rewrite IH]; reflexivity. Qed.

Lemma skipn_length_app : forall (x y : word), skipn (length x) (x ++ y) = y.
Proof. induction x as [|c x IH]; intros y; cbn [length app skipn]; auto. Qed.

Lemma In_firstn n (l : word) c : In c (firstn n l) -> In c l.
Proof. intros H. rewrite <- (firstn_skipn n l). apply in_or_app. left. exact H. Qed.

Lemma In_skipn n (l : word) c : In c (skipn n l) -> In c l.
Proof. intros H. rewrite <- (firstn_skipn n l). apply in_or_app. right. exact H. Qed.

Lemma occurs_at_bound v w n : occurs_at v w n -> (n + length v <= length w)%nat.
Proof. intros [x [y [E L]]]. subst w. rewrite !app_length. lia. Qed.

Lemma occurs_at_contains v w n : occurs_at v w n -> Contains w v.
Proof. intros [x [y [E _]]]. exists x, y. exact E. Qed.

Lemma contains_occurs_at v w : Contains w v -> exists n, occurs_at v w n.
Proof. intros [x [y E]]. exists (length x), x, y. auto. Qed.

Lemma occurs_at_nil w k : (k <= length w)%nat -> occurs_at [] w k.
Proof.
  intros H. exists (firstn k w), (skipn k w). split.
  - cbn [app]. symmetry. apply firstn_skipn.
  - apply firstn_length_le. exact H.
Qed.

(* an occurrence in the suffix from position i is an occurrence in the whole word *)
Lemma occurs_at_skipn v w i n : (i <= length w)%nat ->
  occurs_at v (skipn i w) n -> occurs_at v w (i + n).
Proof.
  intros Hi [x [y [E L]]]. exists (firstn i w ++ x), y. split.
  - rewrite <- app_assoc, <- E. symmetry. apply firstn_skipn.
  - rewrite app_length, firstn_length_le by exact Hi. lia.
Qed.

Lemma occurs_at_skipn_inv v w i n : (i <= n)%nat ->
  occurs_at v w n -> occurs_at v (skipn i w) (n - i).
Proof.
  intros Hi [x [y [E L]]]. exists (skipn i x), y. split.
  - subst w. rewrite skipn_app. replace (i - length x)%nat with 0%nat by lia. reflexivity.
  - rewrite skipn_length. lia.
Qed.

Lemma vec_slice_app : forall (s a b c : word) i j,
  s = a ++ b ++ c -> i = length a -> j = (length a + length b)%nat -> vec_slice s i j = Some b.
Proof.
  intros s a b c i j Hs Hi Hj. unfold vec_slice.
  assert (Hl : length s = (length a + length b + length c)%nat) by (subst s; rewrite !app_length; lia).
  replace (i <=? j)%nat with true by (symmetry; apply Nat.leb_le; lia).
  replace (j <=? length s)%nat with true by (symmetry; apply Nat.leb_le; lia).
  cbn [andb]. f_equal. subst s i j. rewrite skipn_length_app.
  replace (length a + length b - length a)%nat with (length b) by lia.
  apply firstn_length_app.
Qed.

(* ------------------------------------------------------------------------------------------ *)
(** * Casts and SmtString::make                                                                 *)

Lemma i32_of_usize_small n : Z.of_nat n <= MAX_LENGTH -> i32_of_usize n = Z.of_nat n.
Proof.
  unfold MAX_LENGTH, i32_of_usize. intros H. rewrite Z.mod_small by lia.
  destruct (Z.ltb_spec (Z.of_nat n) 2147483648); lia.
Qed.

Lemma usize_of_i32_nonneg i : 0 <= i <= MAX_LENGTH -> usize_of_i32 i = i.
Proof. unfold MAX_LENGTH, usize_of_i32. intros H. apply Z.mod_small. lia. Qed.

Lemma smt_make_small a : zlen a <= MAX_LENGTH -> smt_make a = Some a.
Proof.
  unfold smt_make, zlen. intros H. destruct (Z.gtb_spec (Z.of_nat (length a)) MAX_LENGTH); [lia|reflexivity].
Qed.

Lemma smt_make_some a r : smt_make a = Some r -> r = a /\ wfw r.
Proof.
  unfold smt_make, wfw, zlen. destruct (Z.gtb_spec (Z.of_nat (length a)) MAX_LENGTH); [discriminate|].
  intros E. injection E as E. subst. auto.
Qed.

Lemma smt_make_none a : smt_make a = None <-> zlen a > MAX_LENGTH.
Proof.
  unfold smt_make, zlen. destruct (Z.gtb_spec (Z.of_nat (length a)) MAX_LENGTH); split; intros; try discriminate; try lia; auto.
Qed.

Lemma smt_make_spec a : (zlen a <= MAX_LENGTH -> smt_make a = Some a) /\
                         (smt_make a = None <-> zlen a > MAX_LENGTH).
Proof. split; [apply smt_make_small|apply smt_make_none]. Qed.

(* ------------------------------------------------------------------------------------------ *)
(** * The comparison loop and naive_search                                                      *)

Lemma cmp_loop_spec : forall p t, (length p <= length t)%nat ->
  exists b, vec_cmp_loop p t = Some b /\ (b = true <-> exists y, t = p ++ y).
Proof.
  induction p as [|a p IH]; intros t H.
  - exists true. split; [reflexivity|]. split; [intros _; exists t; reflexivity|reflexivity].
  - destruct t as [|c t]; cbn [length] in H; [lia|]. cbn [vec_cmp_loop].
    destruct (N.eqb_spec a c) as [E|E].
    + subst c. destruct (IH t) as [b [Eb I]]; [lia|]. exists b. split; [exact Eb|].
      rewrite I. split; intros [y Hy]; exists y.
      * cbn [app]. f_equal. exact Hy.
      * cbn [app] in Hy. injection Hy as Hy. exact Hy.
    + exists false. split; [reflexivity|]. split; [discriminate|].
      intros [y Hy]. cbn [app] in Hy. injection Hy as H1 H2. congruence.
Qed.

Lemma search_loop_eq p n t i :
  search_loop p n t i =
  if (i + length p <=? n)%nat then
    match vec_cmp_loop p t with
    | None => None
    | Some true => Some (SFound i (i + length p))
    | Some false => match t with [] => None | _ :: t' => search_loop p n t' (S i) end
    end
  else Some SNotFound.
Proof. destruct t; reflexivity. Qed.

Lemma search_loop_spec p s : forall t pre, s = pre ++ t ->
  exists res, search_loop p (length s) t (length pre) = Some res /\ search_post p s (length pre) res.
Proof.
  induction t as [|c t IH]; intros pre Hs; rewrite search_loop_eq;
    destruct (Nat.leb_spec (length pre + length p) (length s)) as [Hle|Hgt].
  - (* t = [] , room for p: p = [] *)
    assert (Hp : p = []).
    { subst s. rewrite app_length in Hle. cbn [length] in Hle. destruct p; [reflexivity|cbn [length] in Hle; lia]. }
    subst p. cbn [vec_cmp_loop length]. eexists. split; [reflexivity|].
    cbn [search_post length]. repeat split; try lia.
    exists pre, []. split; [cbn [app]; rewrite app_nil_r in Hs; rewrite app_nil_r; exact Hs|reflexivity].
  - eexists. split; [reflexivity|]. intros i' Hi Ho. apply occurs_at_bound in Ho. lia.
  - assert (Hpt : (length p <= length (c :: t))%nat) by (subst s; rewrite app_length in Hle; lia).
    destruct (cmp_loop_spec p (c :: t) Hpt) as [b [Eb Ib]]. rewrite Eb. destruct b.
    + destruct (proj1 Ib eq_refl) as [y Hy]. eexists. split; [reflexivity|].
      cbn [search_post]. repeat split; try lia.
      exists pre, y. split; [rewrite <- Hy; exact Hs|reflexivity].
    + assert (Hno : ~ occurs_at p s (length pre)).
      { intros [x [y [E L]]]. rewrite Hs in E. destruct (app_eq_len _ _ _ _ E (eq_sym L)) as [_ E2].
        assert (false = true) by (apply Ib; exists y; exact E2). discriminate. }
      destruct (IH (pre ++ [c])) as [res [Er Pr]]; [rewrite <- app_assoc; exact Hs|].
      rewrite app_length in Er, Pr. cbn [length] in Er, Pr.
      replace (length pre + 1)%nat with (S (length pre)) in Er, Pr by lia.
      exists res. split; [exact Er|]. destruct res as [i j|]; cbn [search_post] in *.
      * destruct Pr as [P1 [P2 [P3 P4]]]. repeat split; try lia; auto.
        intros i' Hi Ho. destruct (Nat.eq_dec i' (length pre)) as [->|Hne]; [contradiction|].
        apply P4; [lia|exact Ho].
      * intros i' Hi Ho. destruct (Nat.eq_dec i' (length pre)) as [->|Hne]; [contradiction|].
        apply (Pr i'); [lia|exact Ho].
  - eexists. split; [reflexivity|]. intros i' Hi Ho. apply occurs_at_bound in Ho. lia.
Qed.

(* key lemma: naive_search never panics and returns the least occurrence at or after k *)
Lemma naive_search_least : forall p s k,
  exists res, naive_search p s k = Some res /\ search_post p s k res.
Proof.
  intros p s k. unfold naive_search. destruct (le_lt_dec k (length s)) as [H|H].
  - destruct (search_loop_spec p s (skipn k s) (firstn k s)) as [res [E P]].
    + symmetry. apply firstn_skipn.
    + rewrite firstn_length_le in E, P by exact H. exists res. auto.
  - rewrite skipn_all2 by lia. rewrite search_loop_eq.
    destruct (Nat.leb_spec (k + length p) (length s)); [lia|].
    eexists. split; [reflexivity|]. intros i' Hi Ho. apply occurs_at_bound in Ho. lia.
Qed.

Lemma find_sub_vector_least : forall p s k,
  exists res, find_sub_vector p s k = Some res /\ search_post p s k res.
Proof. exact naive_search_least. Qed.

(* ------------------------------------------------------------------------------------------ *)
(** * str.++ and str.len                                                                        *)

Lemma vector_concat_app v w : vector_concat v w = v ++ w.
Proof. reflexivity. Qed.

(* the result is v.w; the call panics exactly when that is longer than MAX_LENGTH (documented) *)
Lemma concat_spec : forall s1 s2,
  (zlen (s1 ++ s2) <= MAX_LENGTH -> str_concat s1 s2 = Some (s1 ++ s2)) /\
  (zlen (s1 ++ s2) > MAX_LENGTH -> str_concat s1 s2 = None) /\
  (forall r, str_concat s1 s2 = Some r -> r = s1 ++ s2).
Proof.
  intros s1 s2. unfold str_concat. change (vector_concat s1 s2) with (s1 ++ s2). split; [|split].
  - apply smt_make_small.
  - apply smt_make_none.
  - intros r E. apply smt_make_some in E. tauto.
Qed.

Lemma len_spec : forall s, wfw s -> str_len s = Z.of_nat (length s).
Proof. intros s H. unfold str_len. apply i32_of_usize_small. exact H. Qed.

Lemma len_nonneg_i32 : forall s, wfw s -> 0 <= str_len s /\ i32 (str_len s).
Proof. intros s H. rewrite len_spec by exact H. unfold wfw, zlen, MAX_LENGTH, i32 in *. lia. Qed.

(* ------------------------------------------------------------------------------------------ *)
(** * str.at                                                                                    *)

Lemma at_spec : forall w n, wfw w -> goodw w -> exists r, str_at w n = Some r /\ At w n r.
Proof.
  intros w n Hw Hg. unfold str_at. rewrite i32_of_usize_small by exact Hw.
  fold (zlen w). rewrite Z.geb_leb.
  destruct (Z.ltb_spec n 0) as [H0|H0]; cbn [orb].
  { exists []. split; [reflexivity|]. right. split; [lia|reflexivity]. }
  destruct (Z.leb_spec (zlen w) n) as [H1|H1].
  { exists []. split; [reflexivity|]. right. split; [lia|reflexivity]. }
  unfold wfw in Hw. rewrite usize_of_i32_nonneg by lia. unfold usize_idx.
  destruct (nth_error w (Z.to_nat n)) as [c|] eqn:E.
  - destruct (nth_error_split _ _ E) as [x [y [Ew Lx]]].
    assert (Hc : good c).
    { unfold goodw in Hg. rewrite Forall_forall in Hg. apply Hg. eapply nth_error_In. exact E. }
    cbn [bind]. unfold smt_from_u32. apply goodb_iff in Hc. unfold goodb in Hc. rewrite Hc.
    exists [c]. split; [reflexivity|]. left. split; [lia|].
    exists x, c, y. split; [exact Ew|]. split; [unfold zlen; lia|reflexivity].
  - apply nth_error_None in E. unfold zlen in H1. lia.
Qed.

(* without the goodness hypothesis: From<u32> replaces a character above MAX_CHAR by REPLACEMENT_CHAR *)
Lemma at_spec_any : forall w n, wfw w ->
  exists r, str_at w n = Some r /\
            At (map (fun c => if (c <=? MAXC)%N then c else REPLC) w) n r.
Proof.
  intros w n Hw. unfold str_at. rewrite i32_of_usize_small by exact Hw.
  set (f := fun c : N => if (c <=? MAXC)%N then c else REPLC).
  assert (Hz : zlen (map f w) = zlen w) by (unfold zlen; rewrite map_length; reflexivity).
  fold (zlen w). rewrite Z.geb_leb.
  destruct (Z.ltb_spec n 0) as [H0|H0]; cbn [orb].
  { exists []. split; [reflexivity|]. right. split; [lia|reflexivity]. }
  destruct (Z.leb_spec (zlen w) n) as [H1|H1].
  { exists []. split; [reflexivity|]. right. split; [lia|reflexivity]. }
  unfold wfw in Hw. rewrite usize_of_i32_nonneg by lia. unfold usize_idx.
  destruct (nth_error w (Z.to_nat n)) as [c|] eqn:E.
  - destruct (nth_error_split _ _ E) as [x [y [Ew Lx]]].
    cbn [bind]. unfold smt_from_u32. fold (f c).
    exists [f c]. split; [reflexivity|]. left. split; [lia|].
    exists (map f x), (f c), (map f y). split; [rewrite Ew, map_app; reflexivity|].
    split; [unfold zlen; rewrite map_length; lia|reflexivity].
  - apply nth_error_None in E. unfold zlen in H1. lia.
Qed.

Lemma At_fun : forall w n r1 r2, At w n r1 -> At w n r2 -> r1 = r2.
Proof.
  intros w n r1 r2 [[H1 [x1 [c1 [y1 [E1 [L1 R1]]]]]]|[H1 R1]] [[H2 [x2 [c2 [y2 [E2 [L2 R2]]]]]]|[H2 R2]];
    try contradiction; try congruence.
  rewrite E1 in E2. destruct (app_eq_len _ _ _ _ E2) as [_ E]; [unfold zlen in *; lia|].
  injection E as E _. subst. reflexivity.
Qed.

(* ------------------------------------------------------------------------------------------ *)
(** * str.substr                                                                                *)

Lemma substr_spec : forall w m n, wfw w -> i32 n ->
  exists r, str_substr w m n = Some r /\ Substr w m n r.
Proof.
  intros w m n Hw Hn. unfold str_substr. rewrite i32_of_usize_small by exact Hw.
  fold (zlen w). rewrite Z.geb_leb.
  destruct (Z.ltb_spec m 0) as [H0|H0]; cbn [orb].
  { exists []. split; [reflexivity|]. right. split; [lia|reflexivity]. }
  destruct (Z.leb_spec (zlen w) m) as [H1|H1]; cbn [orb].
  { exists []. split; [reflexivity|]. right. split; [lia|reflexivity]. }
  destruct (Z.leb_spec n 0) as [H2|H2].
  { exists []. split; [reflexivity|]. right. split; [lia|reflexivity]. }
  unfold wfw in Hw. unfold i32 in Hn. unfold MAX_LENGTH in *.
  rewrite !usize_of_i32_nonneg by (unfold MAX_LENGTH; lia). unfold usize_idx.
  fold (zlen w).
  set (i := Z.to_nat m). set (j := Z.to_nat (Z.min (m + n) (zlen w))).
  assert (Hi : (i < length w)%nat) by (unfold i, zlen in *; lia).
  assert (Hij : (i < j)%nat) by (unfold i, j, zlen in *; lia).
  assert (Hj : (j <= length w)%nat) by (unfold j, zlen in *; lia).
  assert (Hjn : Z.of_nat (j - i) <= n) by (unfold i, j, zlen in *; lia).
  assert (Hjmax : Z.of_nat (j - i) = Z.min n (zlen w - m)) by (unfold i, j, zlen in *; lia).
  unfold vec_slice.
  replace (i <=? j)%nat with true by (symmetry; apply Nat.leb_le; lia).
  replace (j <=? length w)%nat with true by (symmetry; apply Nat.leb_le; lia).
  cbn [andb bind].
  set (r := firstn (j - i) (skipn i w)).
  assert (Lr : length r = (j - i)%nat).
  { unfold r. rewrite firstn_length, skipn_length. lia. }
  rewrite smt_make_small by (unfold zlen, MAX_LENGTH; lia).
  exists r. split; [reflexivity|]. left. split; [lia|]. split.
  - exists (firstn i w), (skipn (j - i) (skipn i w)). split; [|split].
    + unfold r. rewrite firstn_skipn. symmetry. apply firstn_skipn.
    + unfold zlen. rewrite firstn_length_le by lia. unfold i. lia.
    + unfold zlen. rewrite Lr. exact Hjn.
  - intros x' r' y' E Lx Lr'. rewrite Lr.
    assert (Hl : length w = (length x' + length r' + length y')%nat) by (rewrite E, !app_length; lia).
    unfold zlen in *. lia.
Qed.

Lemma Substr_fun : forall w m n r1 r2, Substr w m n r1 -> Substr w m n r2 -> r1 = r2.
Proof.
  intros w m n r1 r2 [[C1 [[x1 [y1 [E1 [L1 N1]]]] M1]]|[C1 R1]] [[C2 [[x2 [y2 [E2 [L2 N2]]]] M2]]|[C2 R2]];
    try contradiction; try congruence.
  assert (H12 : (length r2 <= length r1)%nat) by (eapply M1; eauto).
  assert (H21 : (length r1 <= length r2)%nat) by (eapply M2; eauto).
  rewrite E1 in E2. destruct (app_eq_len _ _ _ _ E2) as [_ E]; [unfold zlen in *; lia|].
  destruct (app_eq_len _ _ _ _ E) as [E' _]; [lia|]. exact E'.
Qed.

(* closed form: the window has length min(n, |w| - m) *)
Lemma Substr_length : forall w m n r, Substr w m n r -> 0 <= m < zlen w -> 0 < n ->
  zlen r = Z.min n (zlen w - m).
Proof.
  intros w m n r [[_ [[x [y [E [L N]]]] M]]|[C _]] Hm Hn; [|exfalso; apply C; lia].
  assert (Hl : length w = (length x + length r + length y)%nat) by (rewrite E, !app_length; lia).
  set (k := Z.to_nat (Z.min n (zlen w - m))).
  assert (Hk : (length (firstn k (skipn (length x) w)) <= length r)%nat).
  { apply (M (firstn (length x) w) _ (skipn k (skipn (length x) w))).
    - rewrite firstn_skipn. symmetry. apply firstn_skipn.
    - unfold zlen in *. rewrite firstn_length_le by lia. lia.
    - unfold zlen. rewrite firstn_length, skipn_length. unfold k, zlen in *. lia. }
  rewrite firstn_length, skipn_length in Hk. unfold k, zlen in *. lia.
Qed.

(* ------------------------------------------------------------------------------------------ *)
(** * str.prefixof, str.suffixof, str.contains                                                  *)

Lemma prefixof_spec : forall s1 s2,
  exists b, str_prefixof s1 s2 = Some b /\ (b = true <-> PrefixOf s1 s2).
Proof.
  intros v w. unfold str_prefixof, vector_prefix, PrefixOf.
  destruct (Nat.leb_spec (length v) (length w)) as [H|H].
  - apply cmp_loop_spec. exact H.
  - exists false. split; [reflexivity|]. split; [discriminate|].
    intros [x E]. subst w. rewrite app_length in H. lia.
Qed.

Lemma suffixof_spec : forall s1 s2,
  exists b, str_suffixof s1 s2 = Some b /\ (b = true <-> SuffixOf s1 s2).
Proof.
  intros v w. unfold str_suffixof, vector_suffix, SuffixOf.
  destruct (Nat.leb_spec (length v) (length w)) as [H|H].
  - destruct (cmp_loop_spec v (skipn (length w - length v) w)) as [b [E I]].
    { rewrite skipn_length. lia. }
    exists b. split; [exact E|]. rewrite I. split.
    + intros [y Hy]. exists (firstn (length w - length v) w).
      assert (Hl : length (skipn (length w - length v) w) = length (v ++ y)) by (rewrite Hy; reflexivity).
      rewrite skipn_length, app_length in Hl.
      assert (y = []) by (destruct y; [reflexivity|cbn [length] in Hl; lia]). subst y.
      rewrite app_nil_r in Hy. pose proof (firstn_skipn (length w - length v) w) as F.
      rewrite Hy in F. symmetry. exact F.
    + intros [x Hx]. exists []. rewrite app_nil_r. subst w. rewrite app_length.
      replace (length x + length v - length v)%nat with (length x) by lia.
      apply skipn_length_app.
  - exists false. split; [reflexivity|]. split; [discriminate|].
    intros [x E]. subst w. rewrite app_length in H. lia.
Qed.

(* str_contains(s1, s2): s2 is a substring of s1 *)
Lemma contains_spec : forall s1 s2,
  exists b, str_contains s1 s2 = Some b /\ (b = true <-> Contains s1 s2).
Proof.
  intros w v. unfold str_contains. destruct (find_sub_vector_least v w 0) as [res [E P]].
  rewrite E. cbn [bind]. destruct res as [i j|]; cbn [search_post] in P.
  - exists true. split; [reflexivity|]. split; [intros _|reflexivity].
    destruct P as [_ [_ [P _]]]. eapply occurs_at_contains. exact P.
  - exists false. split; [reflexivity|]. split; [discriminate|].
    intros C. destruct (contains_occurs_at _ _ C) as [n Hn]. exfalso. apply (P n); [lia|exact Hn].
Qed.

(* ------------------------------------------------------------------------------------------ *)
(** * str.indexof                                                                               *)

Lemma indexof_spec : forall w v i, wfw w ->
  exists n, str_indexof w v i = Some n /\ IndexOf w v i n.
Proof.
  intros w v i Hw. unfold str_indexof. rewrite i32_of_usize_small by exact Hw. fold (zlen w).
  destruct (Z.ltb_spec i 0) as [H0|H0]; cbn [orb].
  { exists (-1). split; [reflexivity|]. right. split; [reflexivity|]. left. exact H0. }
  destruct (Z.gtb_spec i (zlen w)) as [H1|H1].
  { exists (-1). split; [reflexivity|]. right. split; [reflexivity|]. right. left. lia. }
  unfold wfw in Hw. rewrite usize_of_i32_nonneg by lia. unfold usize_idx.
  destruct (find_sub_vector_least v w (Z.to_nat i)) as [res [E P]]. rewrite E. cbn [bind].
  destruct res as [k j|]; cbn [search_post] in P.
  - destruct P as [P1 [P2 [P3 P4]]]. pose proof (occurs_at_bound _ _ _ P3) as Hb.
    rewrite i32_of_usize_small by (unfold zlen in *; lia).
    exists (Z.of_nat k). split; [reflexivity|]. left. exists k. split; [reflexivity|].
    split; [lia|]. split; [exact P3|]. intros k' Hk' Ho. apply P4; [lia|exact Ho].
  - exists (-1). split; [reflexivity|]. right. split; [reflexivity|]. right. right.
    intros k Hk Ho. apply (P k); [lia|exact Ho].
Qed.

Lemma IndexOf_fun : forall w v i n1 n2, IndexOf w v i n1 -> IndexOf w v i n2 -> n1 = n2.
Proof.
  intros w v i n1 n2 [[k1 [E1 [R1 [O1 M1]]]]|[E1 D1]] [[k2 [E2 [R2 [O2 M2]]]]|[E2 D2]].
  - assert (k1 <= k2)%nat by (apply M1; [lia|exact O2]).
    assert (k2 <= k1)%nat by (apply M2; [lia|exact O1]). lia.
  - exfalso. pose proof (occurs_at_bound _ _ _ O1) as Hb. unfold zlen in D2.
    destruct D2 as [D|[D|D]]; [lia|lia|]. apply (D k1); [lia|exact O1].
  - exfalso. pose proof (occurs_at_bound _ _ _ O2) as Hb. unfold zlen in D1.
    destruct D1 as [D|[D|D]]; [lia|lia|]. apply (D k2); [lia|exact O2].
  - congruence.
Qed.

(* the empty pattern is found at the start index itself, including at i = |w| (defect D3) *)
Lemma indexof_empty_pattern : forall w i, wfw w -> 0 <= i <= zlen w -> str_indexof w [] i = Some i.
Proof.
  intros w i Hw Hi. destruct (indexof_spec w [] i Hw) as [n [E S]]. rewrite E. f_equal.
  apply (IndexOf_fun w [] i); [exact S|]. left. exists (Z.to_nat i).
  split; [lia|]. split; [lia|]. split.
  - apply occurs_at_nil. unfold zlen in Hi. lia.
  - intros k' Hk' _. lia.
Qed.

(* a non-empty pattern is never found from the end: the repaired guard does not over-accept *)
Lemma indexof_at_end_nonempty : forall w v, wfw w -> v <> [] -> str_indexof w v (zlen w) = Some (-1).
Proof.
  intros w v Hw Hv. destruct (indexof_spec w v (zlen w) Hw) as [n [E S]]. rewrite E. f_equal.
  destruct S as [[k [En [R [O _]]]]|[S _]]; [|exact S].
  exfalso. apply occurs_at_bound in O. destruct v; [congruence|]. cbn [length] in O. unfold zlen in R. lia.
Qed.

(* ------------------------------------------------------------------------------------------ *)
(** * str.replace                                                                               *)

(* the result is the SMT-LIB value x; the call panics exactly when x is longer than MAX_LENGTH *)
Lemma replace_spec : forall s p r,
  exists x, Replace s p r x /\ str_replace s p r = smt_make x.
Proof.
  intros s p r. unfold str_replace. destruct (find_sub_vector_least p s 0) as [res [E P]].
  rewrite E. cbn [bind]. destruct res as [i j|]; cbn [search_post] in P.
  - destruct P as [_ [Pj [[u [v [Es Lu]]] Pm]]].
    rewrite (vec_slice_app s [] u (p ++ v) 0 i) by (cbn [length app]; auto).
    rewrite (vec_slice_app s (u ++ p) v [] j (length s)).
    + cbn [bind app]. exists (u ++ r ++ v). split; [|reflexivity]. right.
      exists u, v. split; [exact Es|]. split; [|reflexivity].
      intros u1' u2' E'. rewrite Lu. apply Pm; [lia|]. exists u1', u2'. auto.
    + rewrite app_nil_r, <- app_assoc. exact Es.
    + rewrite app_length. lia.
    + rewrite Es, !app_length. lia.
  - exists s. split; [|reflexivity]. left. split; [|reflexivity].
    intros C. destruct (contains_occurs_at _ _ C) as [n Hn]. apply (P n); [lia|exact Hn].
Qed.

Lemma Replace_fun : forall w w1 w2 r1 r2, Replace w w1 w2 r1 -> Replace w w1 w2 r2 -> r1 = r2.
Proof.
  intros w w1 w2 r1 r2 [[C1 R1]|[u1 [v1 [E1 [M1 R1]]]]] [[C2 R2]|[u2 [v2 [E2 [M2 R2]]]]].
  - congruence.
  - exfalso. apply C1. exists u2, v2. exact E2.
  - exfalso. apply C2. exists u1, v1. exact E1.
  - assert (length u1 <= length u2)%nat by (eapply M1; exact E2).
    assert (length u2 <= length u1)%nat by (eapply M2; exact E1).
    rewrite E1 in E2. destruct (app_eq_len _ _ _ _ E2) as [Eu E]; [lia|].
    apply app_inv_head in E. subst. reflexivity.
Qed.

(* the empty pattern occurs at position 0: the replacement is prepended *)
Lemma replace_empty_pattern : forall s r, str_replace s [] r = smt_make (r ++ s).
Proof.
  intros s r. destruct (replace_spec s [] r) as [x [S E]]. rewrite E. f_equal.
  apply (Replace_fun s [] r); [exact S|]. right. exists [], s. split; [reflexivity|].
  split; [intros; cbn [length]; lia|reflexivity].
Qed.

(* ------------------------------------------------------------------------------------------ *)
(** * str.replace_all                                                                           *)

Lemma replace_all_loop_spec p s r : p <> [] ->
  forall fuel i x, (i <= length s)%nat -> (length s - i < fuel)%nat ->
  exists y, ReplaceAll (skipn i s) p r y /\ replace_all_loop fuel p s r x i = smt_make (x ++ y).
Proof.
  intros Hp. induction fuel as [|fuel IH]; intros i x Hi Hf; [lia|].
  cbn [replace_all_loop]. destruct (find_sub_vector_least p s i) as [res [E P]].
  rewrite E. cbn [bind]. destruct res as [j k|]; cbn [search_post] in P.
  - destruct P as [Pij [Pk [Po Pm]]]. pose proof (occurs_at_bound _ _ _ Po) as Hb.
    assert (Hlp : (1 <= length p)%nat) by (destruct p; [congruence|cbn [length]; lia]).
    destruct Po as [u [v [Es Lu]]].
    set (u1 := skipn i u).
    assert (Hsk : skipn i s = u1 ++ p ++ v).
    { rewrite Es, skipn_app. replace (i - length u)%nat with 0%nat by lia. reflexivity. }
    rewrite (vec_slice_app s (firstn i s) u1 (p ++ v) i j).
    + cbn [bind]. destruct (IH k (x ++ u1 ++ r)) as [y [Ry Ey]]; [lia|lia|].
      exists (u1 ++ r ++ y). split.
      * rewrite Hsk. apply RA_step with (u2 := v); [exact Hp|reflexivity| |].
        -- intros u1' u2' E'.
           assert (Ho : occurs_at p s (i + length u1')).
           { apply occurs_at_skipn; [exact Hi|]. exists u1', u2'. rewrite <- E', Hsk. auto. }
           apply Pm in Ho; [|lia]. unfold u1. rewrite skipn_length. lia.
        -- replace v with (skipn k s); [exact Ry|].
           rewrite Es, app_assoc. replace k with (length (u ++ p)) by (rewrite app_length; lia).
           apply skipn_length_app.
      * rewrite Ey. rewrite <- !app_assoc. reflexivity.
    + rewrite <- Hsk. symmetry. apply firstn_skipn.
    + rewrite firstn_length_le by exact Hi. reflexivity.
    + rewrite firstn_length_le by exact Hi. unfold u1. rewrite skipn_length. lia.
  - rewrite (vec_slice_app s (firstn i s) (skipn i s) [] i (length s)).
    + cbn [bind]. exists (skipn i s). split; [|reflexivity]. apply RA_none; [exact Hp|].
      intros C. destruct (contains_occurs_at _ _ C) as [n Hn].
      apply (P (i + n)%nat); [lia|]. apply occurs_at_skipn; assumption.
    + rewrite app_nil_r. symmetry. apply firstn_skipn.
    + rewrite firstn_length_le by exact Hi. reflexivity.
    + rewrite firstn_length_le by exact Hi. rewrite skipn_length. lia.
Qed.

(* the result is the SMT-LIB value x (never out of fuel); the call panics exactly when x is longer
   than MAX_LENGTH *)
Lemma replace_all_spec : forall s p r,
  exists x, ReplaceAll s p r x /\ str_replace_all s p r = smt_make x.
Proof.
  intros s p r. unfold str_replace_all. destruct p as [|c p].
  - exists s. split; [apply RA_empty|reflexivity].
  - destruct (replace_all_loop_spec (c :: p) s r) with (fuel := S (length s)) (i := 0%nat) (x := @nil N)
      as [y [Ry Ey]]; [discriminate|lia|lia|].
    exists y. split; [exact Ry|exact Ey].
Qed.

Lemma ReplaceAll_fun : forall w w1 w2 r1, ReplaceAll w w1 w2 r1 -> forall r2, ReplaceAll w w1 w2 r2 -> r1 = r2.
Proof.
  induction 1 as [w w2|w w1 w2 Hne Hc|w w1 w2 u1 u2 r Hne Ew Hm Hr IH]; intros r2 H2.
  - inversion H2; subst; try reflexivity; congruence.
  - inversion H2; subst; try reflexivity. exfalso. apply Hc. eexists _, _. reflexivity.
  - inversion H2 as [| ? ? ? Hne' Hc' | ? ? ? u1' u2' r' Hne' Ew' Hm' Hr']; subst.
    + congruence.
    + exfalso. apply Hc'. exists u1, u2. reflexivity.
    + assert (length u1 <= length u1')%nat by (eapply Hm; exact Ew').
      assert (length u1' <= length u1)%nat by (eapply Hm'; reflexivity).
      destruct (app_eq_len _ _ _ _ Ew') as [Eu E]; [lia|].
      apply app_inv_head in E. subst. f_equal. f_equal. apply IH. exact Hr'.
Qed.

(* ------------------------------------------------------------------------------------------ *)
(** * Results stay good (for C17)                                                               *)

Lemma ss_goodw_app a b : goodw (a ++ b) <-> goodw a /\ goodw b.
Proof. unfold goodw. apply Forall_app. Qed.

Lemma str_concat_good : forall s1 s2 r, goodw s1 -> goodw s2 -> str_concat s1 s2 = Some r -> goodw r.
Proof.
  intros s1 s2 r H1 H2 E. apply concat_spec in E. subst r. apply ss_goodw_app. auto.
Qed.

(* holds for every input: From<u32> clamps *)
Lemma str_at_good_any : forall s i r, str_at s i = Some r -> goodw r.
Proof.
  intros s i r. unfold str_at.
  destruct ((i <? 0) || (i >=? i32_of_usize (length s))).
  - intros E. injection E as E. subst r. constructor.
  - destruct (nth_error s (usize_idx (usize_of_i32 i))) as [c|]; cbn [bind]; [|discriminate].
    unfold smt_from_u32. intros E. apply smt_make_some in E. destruct E as [E _]. subst r.
    constructor; [|constructor]. destruct (N.leb_spec c MAXC) as [H|H]; unfold good; [exact H|].
    unfold REPLC, MAXC. lia.
Qed.

Lemma str_at_good : forall s i r, goodw s -> str_at s i = Some r -> goodw r.
Proof. intros s i r _. apply str_at_good_any. Qed.

Lemma Substr_good : forall w m n r, goodw w -> Substr w m n r -> goodw r.
Proof.
  intros w m n r Hg [[_ [[x [y [E _]]] _]]|[_ E]].
  - subst w. apply ss_goodw_app in Hg. destruct Hg as [_ Hg]. apply ss_goodw_app in Hg. tauto.
  - subst r. constructor.
Qed.

Lemma str_substr_good : forall s i n r, goodw s -> str_substr s i n = Some r -> goodw r.
Proof.
  intros s i n r Hg. unfold str_substr.
  destruct ((i <? 0) || (i >=? i32_of_usize (length s)) || (n <=? 0)).
  - intros E. injection E as E. subst r. constructor.
  - cbv zeta. unfold vec_slice.
    destruct ((usize_idx (usize_of_i32 i) <=? usize_idx (Z.min (usize_of_i32 i + usize_of_i32 n) (Z.of_nat (length s))))%nat &&
              (usize_idx (Z.min (usize_of_i32 i + usize_of_i32 n) (Z.of_nat (length s))) <=? length s)%nat);
      cbn [bind]; [|discriminate].
    intros E. apply smt_make_some in E. destruct E as [E _]. subst r.
    unfold goodw in *. rewrite Forall_forall in *. intros c Hc. apply Hg.
    apply In_firstn in Hc. eapply In_skipn. exact Hc.
Qed.

Lemma Replace_good : forall w w1 w2 r, goodw w -> goodw w2 -> Replace w w1 w2 r -> goodw r.
Proof.
  intros w w1 w2 r Hw H2 [[_ E]|[u1 [u2 [E [_ R]]]]]; subst; [exact Hw|].
  apply ss_goodw_app in Hw. destruct Hw as [Hu1 Hw]. apply ss_goodw_app in Hw. destruct Hw as [_ Hu2].
  apply ss_goodw_app. split; [exact Hu1|]. apply ss_goodw_app. auto.
Qed.

Lemma str_replace_good : forall s p r x, goodw s -> goodw r -> str_replace s p r = Some x -> goodw x.
Proof.
  intros s p r x Hs Hr E. destruct (replace_spec s p r) as [y [S Ey]]. rewrite Ey in E.
  apply smt_make_some in E. destruct E as [E _]. subst x. exact (Replace_good s p r y Hs Hr S).
Qed.

Lemma ReplaceAll_good : forall w w1 w2 r, ReplaceAll w w1 w2 r -> goodw w -> goodw w2 -> goodw r.
Proof.
  induction 1 as [w w2|w w1 w2 Hne Hc|w w1 w2 u1 u2 r Hne Ew Hm Hr IH]; intros Hw H2; auto.
  subst w. apply ss_goodw_app in Hw. destruct Hw as [Hu1 Hw]. apply ss_goodw_app in Hw. destruct Hw as [_ Hu2].
  apply ss_goodw_app. split; [exact Hu1|]. apply ss_goodw_app. auto.
Qed.

Lemma str_replace_all_good : forall s p r x, goodw s -> goodw r -> str_replace_all s p r = Some x -> goodw x.
Proof.
  intros s p r x Hs Hr E. destruct (replace_all_spec s p r) as [y [S Ey]]. rewrite Ey in E.
  apply smt_make_some in E. destruct E as [E _]. subst x. exact (ReplaceAll_good s p r y S Hs Hr).
Qed.

(* ------------------------------------------------------------------------------------------ *)
(** * Results respect the length invariant, so the functions compose                            *)

Lemma str_result_wfw : forall a r, smt_make a = Some r -> wfw r.
Proof. intros a r E. apply smt_make_some in E. tauto. Qed.
