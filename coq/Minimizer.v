(* Minimizer.v -- executable model of partitions.rs, fast_sets.rs, minimizer.rs and
   Automaton::minimize (no proofs here): BasePartition/Partition with the in-place refine_block
   swaps, FastSet (insertion order + swap-remove), SplitterList with num_active, SplitterSet with
   active_block, pred_classes, Hopcroft refine loop, StateMapping::from_partition + remap_nodes.
   take_list mirrors repair D10 (a block that never received a splitter has an empty list).
   Arrays are lists; indices that the Rust code guarantees in range use nth with a default
   (this layer is validated per run against the crate and by the verified oracle, not proved). *)
Require Import Base CharSet Partition Automaton.
Open Scope nat_scope.

(* ================= partitions (partitions.rs) ================= *)
Record bpart := { bp_block : list (nat * nat); bp_seg : list nat }.
Definition bp_new (n : nat) : bpart :=
  {| bp_block := if Nat.eqb n 0 then [(0,0)] else [(0,0); (0,n)]; bp_seg := seq 0 n |}.
Definition bp_num_blocks (p : bpart) := length (bp_block p).
Definition bp_block_size (p : bpart) (i : nat) := let '(s, e) := nth i (bp_block p) (0,0) in e - s.
Definition bp_elements (p : bpart) (i : nat) : list nat := let '(s, e) := nth i (bp_block p) (0,0) in firstn (e - s) (skipn s (bp_seg p)).
Fixpoint refine_scan (pr : nat -> bool) (seg : list nat) (start : nat) (len : nat) (k j : nat) : list nat * nat :=
  (* k runs over 0..len; models the swap loop *)
  match len with
  | O => (seg, j)
  | S l => let x := nth (start + k) seg 0 in
           if pr x then
             let seg' := if Nat.ltb j k then swap 0 seg (start + k) (start + j) else seg in
             refine_scan pr seg' start l (S k) (S j)
           else refine_scan pr seg start l (S k) j
  end.
Definition bp_refine (p : bpart) (i : nat) (pr : nat -> bool) : bpart * (nat * nat) :=
  let '(s, e) := nth i (bp_block p) (0,0) in
  let '(seg, j) := refine_scan pr (bp_seg p) s (e - s) 0 0 in
  if Nat.eqb j 0 then ({| bp_block := bp_block p; bp_seg := seg |}, (0, i))
  else if Nat.eqb j (e - s) then ({| bp_block := bp_block p; bp_seg := seg |}, (i, 0))
  else let k := length (bp_block p) in
       ({| bp_block := upd (bp_block p) i (s, s + j) ++ [(s + j, e)]; bp_seg := seg |}, (i, k)).
Record fpart := { fp_base : bpart; fp_bid : list nat }.
Definition fp_new (n : nat) := {| fp_base := bp_new n; fp_bid := repeat 1 n |}.
Definition fp_block_id (p : fpart) (x : nat) := nth x (fp_bid p) 0.
Definition fp_refine (p : fpart) (i : nat) (pr : nat -> bool) : fpart * (nat * nat) :=
  let '(b, (b1, b2)) := bp_refine (fp_base p) i pr in
  if negb (Nat.eqb b1 0) && negb (Nat.eqb b2 0) then
    ({| fp_base := b; fp_bid := fold_left (fun acc x => upd acc x b2) (bp_elements b b2) (fp_bid p) |}, (b1, b2))
  else ({| fp_base := b; fp_bid := fp_bid p |}, (b1, b2)).

(* ================= minimizer ================= *)
Record slist := { sl_active : nat; sl_list : list (nat * nat) }.   (* (char, class) *)
Definition sl_empty := {| sl_active := 0; sl_list := [] |}.
Definition sl_add (l : slist) (c cls : nat) (active : bool) : slist :=
  let i := length (sl_list l) in
  let lst := sl_list l ++ [(c, cls)] in
  if active then {| sl_active := S (sl_active l);
                    sl_list := if Nat.ltb (sl_active l) i then swap (0,0) lst (sl_active l) i else lst |}
  else {| sl_active := sl_active l; sl_list := lst |}.
Record mini := { mn_main : fpart; mn_pred : list bpart; mn_split : list slist; mn_active_block : nat }.
Definition add_splitter (sp : list slist) (b c cls : nat) (active : bool) : list slist :=
  let sp := if Nat.leb (length sp) b then sp ++ repeat sl_empty (S b - length sp) else sp in
  upd sp b (sl_add (nth b sp sl_empty) c cls active).

Section Minimizer.
  Context (delta : nat -> nat -> nat) (is_final : nat -> bool).

  Definition update_splitters (m : mini) (i j : nat) : mini :=
    let old := nth i (mn_split m) sl_empty in
    let sp0 := upd (mn_split m) i sl_empty in
    let items := combine (seq 0 (length (sl_list old))) (sl_list old) in
    let '(pred, sp) :=
      fold_left (fun (ps : list bpart * list slist) (it : nat * (nat * nat)) =>
                   let '(idx, (c, cls)) := it in
                   let active := Nat.ltb idx (sl_active old) in
                   let p := nth c (fst ps) (bp_new 0) in
                   let '(p', (class1, class2)) :=
                     bp_refine p cls (fun x => Nat.eqb (fp_block_id (mn_main m) (delta x c)) i) in
                   let '(a1, a2) := if active then (true, true)
                                    else if Nat.leb (bp_block_size p' class1) (bp_block_size p' class2) then (true, false)
                                    else (false, true) in
                   let sp1 := if Nat.eqb class1 0 then snd ps else add_splitter (snd ps) i c class1 a1 in
                   let sp2 := if Nat.eqb class2 0 then sp1 else add_splitter sp1 j c class2 a2 in
                   (upd (fst ps) c p', sp2))
                items (mn_pred m, sp0) in
    {| mn_main := mn_main m; mn_pred := pred; mn_split := sp; mn_active_block := mn_active_block m |}.

  Definition mini_new (n alpha : nat) : mini :=
    let sp := fold_left (fun sp c => add_splitter sp 1 c 1 false) (seq 0 alpha) [] in
    let m := {| mn_main := fp_new n; mn_pred := repeat (bp_new n) alpha; mn_split := sp; mn_active_block := 0 |} in
    let '(main', (i, j)) := fp_refine (mn_main m) 1 is_final in
    let m := {| mn_main := main'; mn_pred := mn_pred m; mn_split := mn_split m; mn_active_block := 0 |} in
    if negb (Nat.eqb i 0) && negb (Nat.eqb j 0) then update_splitters m i j else m.

  (* FastSet as insertion-ordered list with swap-remove *)
  Definition fs_insert (s : list nat) (x : nat) := if existsb (Nat.eqb x) s then s else s ++ [x].
  Fixpoint index_of (x : nat) (l : list nat) (k : nat) : option nat :=
    match l with [] => None | y :: t => if Nat.eqb x y then Some k else index_of x t (S k) end.
  Definition fs_remove (s : list nat) (x : nat) : list nat :=
    match index_of x s 0 with
    | None => s
    | Some i => let last := nth (length s - 1) s 0 in removelast (upd s i last)
    end.

  Definition refine_block_with_splitter (m : mini) (schar sblock b : nat) : mini :=
    let main := mn_main m in
    let '(main', (i, j)) := fp_refine main b (fun y => Nat.eqb (fp_block_id main (delta y schar)) sblock) in
    let m' := {| mn_main := main'; mn_pred := mn_pred m; mn_split := mn_split m; mn_active_block := mn_active_block m |} in
    if Nat.eqb j 0 then m' else update_splitters m' i j.

  Definition refine_with_splitter (m : mini) (sblock schar sclass : nat) : mini :=
    let p := nth schar (mn_pred m) (bp_new 0) in
    let set := fold_left (fun s x => let b := fp_block_id (mn_main m) x in
                                      if Nat.ltb 1 (bp_block_size (fp_base (mn_main m)) b) then fs_insert s b else s)
                         (bp_elements p sclass) [] in
    let self_refine := existsb (Nat.eqb sblock) set in
    let set := if self_refine then fs_remove set sblock else set in
    let m := fold_left (fun m b => refine_block_with_splitter m schar sblock b) set m in
    if self_refine then refine_block_with_splitter m schar sblock sblock else m.

  Definition pick_splitter (m : mini) : option (mini * (nat * nat * nat)) :=
    let l := mn_split m in
    let has b := Nat.ltb 0 (sl_active (nth b l sl_empty)) in
    let ob := if has (mn_active_block m) then Some (mn_active_block m)
              else (fix scan (bs : list nat) := match bs with [] => None | b :: t => if has b then Some b else scan t end)
                     (seq 0 (length l)) in
    match ob with
    | None => None
    | Some b =>
      let sl := nth b l sl_empty in
      let na := sl_active sl - 1 in
      let '(c, cls) := nth na (sl_list sl) (0,0) in
      Some ({| mn_main := mn_main m; mn_pred := mn_pred m;
               mn_split := upd l b {| sl_active := na; sl_list := sl_list sl |}; mn_active_block := b |},
            (b, c, cls))
    end.

  Fixpoint refine (fuel : nat) (n : nat) (m : mini) : option mini :=
    match fuel with
    | O => None
    | S f =>
      if Nat.ltb (bp_num_blocks (fp_base (mn_main m)) - 1) n then
        match pick_splitter m with
        | Some (m', (b, c, cls)) => refine f n (refine_with_splitter m' b c cls)
        | None => Some m
        end
      else Some m
    end.
End Minimizer.

Definition minimize (a : automaton) : option automaton :=
  match compile_successors a with
  | None => None
  | Some t =>
    let n := num_states a in let alpha := ct_alpha t in
    let delta := ct_eval t in
    let isf := fun i => a_final (a_state a i) in
    match refine delta (4 * n * alpha + 16) n (mini_new delta isf n alpha) with
    | None => None
    | Some m =>
      let p := mn_main m in
      let idx := bp_num_blocks (fp_base p) - 1 in
      if Nat.ltb idx n then
        let new_id := map (fun s => fp_block_id p s - 1) (seq 0 n) in
        let old_id := map (fun b => nth (fst (nth b (bp_block (fp_base p)) (0,0))) (bp_seg (fp_base p)) 0) (seq 1 idx) in
        Some (remap_nodes a new_id old_id)
      else Some a
    end
  end.
