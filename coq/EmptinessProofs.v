(* EmptinessProofs.v -- C05 (emptiness test and witness generation are exact) and C18 (start_char /
   start_class are exact), proved about the executable model Explore.v.
   Contents
     cd_step                   cached_deriv_correct with the two premises discharged
     push_all_sem              one DerivativeIterator::next step: what it adds to queue / seen, semantically
     sinv                      the semantic BFS invariant (every seen term is owned and is a quotient of e
                               by a good word; every seen term is pending or done and closed)
     closed_words              a closed set of terms contains every iterated quotient
     iter_dwf, iter_owned, iter_ids_desc, iter_inj_ids, iter_cls_ok
                               bridges: the premises of ExploreProofs' theorems hold of every completed
                               run that starts from an owned term of a dwf manager
     iter_sem_sound / iter_sem_complete / iter_sem_closed
                               semantics of the enumerated closure
     empty_go_sem, is_empty_iff
                               the LAZY run: only "is_empty_re returns Some" is assumed
     gs_go_none / gs_go_some / dpath_sem / get_string_*
                               get_string: again only "get_string returns Some" is assumed
     start_char_iff, start_class_spec
   Termination of the worklist loops (finiteness of the derivative closure) is NOT proved here: every
   theorem is stated for a call that returns (model: Some), as in ExploreProofs / C19. *)
Require Import Base CharSet Partition PartitionSpec LoopRange Regex Inclusion Constructors Deriv Explore Denote Sem.
Require Import Lang PartitionProofs MergeProofs LoopRangeProofs ManagerProofs ConstructorProofs RunProofs.
Require Import DerivProofs ExploreProofs.
Open Scope N_scope.

(* ------------------------------------------------------------------------------------------ *)
(** * 0. One class derivative, premises discharged *)

(* d is the left quotient of r by every character of class cid *)
Definition cquot (r : re) (cid : classid) (d : re) : Prop :=
  forall c, good c -> in_class (rcls r) c cid -> lang_eq (L d) (fun w => L r (c :: w)).
(* x is the left quotient of e by some well-formed word *)
Definition reach_of (e x : re) : Prop :=
  exists u, goodw u /\ lang_eq (L x) (fun w => L e (u ++ w)).
(* every quotient of x by one character is (the language of) a term of s *)
Definition closed_in (s : list re) (x : re) : Prop :=
  forall c, good c -> exists d, In d s /\ lang_eq (L d) (fun w => L x (c :: w)).

Lemma cd_step r m cid m1 d :
  dwf m -> owned m r -> pvalid (rcls r) cid = true -> cached_deriv r m cid = Some (m1, d) ->
  dwf m1 /\ ext m m1 /\ owned m1 d /\ cquot r cid d.
Proof.
  intros [W Z] Or Hv H.
  destruct (cached_deriv_correct merge_ok_holds inclusion_sound_holds r m cid m1 d W Z Or Hv H)
    as (D1 & X & Od & Q).
  split; [exact D1|]. split; [exact X|]. split; [exact Od|exact Q].
Qed.

Lemma pwf_owned m e : dwf m -> owned m e -> pwf (rcls e).
Proof. intros [W _] Oe. exact (cls_wf_owned merge_ok_holds m e W Oe). Qed.

Lemma class_nonempty m r cid : dwf m -> owned m r -> pvalid (rcls r) cid = true ->
  exists c, good c /\ in_class (rcls r) c cid.
Proof. intros D Or Hv. apply (pvalid_iff (rcls r) cid (pwf_owned m r D Or)). exact Hv. Qed.

Lemma reach_step e r cid d m : dwf m -> owned m r -> pvalid (rcls r) cid = true ->
  reach_of e r -> cquot r cid d -> reach_of e d.
Proof.
  intros D Or Hv (u & Hu & Q) Hq. destruct (class_nonempty m r cid D Or Hv) as (c & Hc & Hin).
  exists (u ++ [c]). split; [apply goodw_app; split; [exact Hu|apply goodw_cons; split; [exact Hc|apply goodw_nil]]|].
  intros w Hw. rewrite (Hq c Hc Hin w Hw). rewrite <- app_assoc. cbn [app]. apply Q.
  apply goodw_cons. split; assumption.
Qed.

(* ------------------------------------------------------------------------------------------ *)
(** * 1. One step of the iterator *)

Lemma existsb_re_eqb_owned m d s : owned m d -> (forall x, In x s -> owned m x) ->
  existsb (re_eqb d) s = true -> In d s.
Proof.
  intros Od Hs H. apply existsb_exists in H. destruct H as (x & Hx & E).
  rewrite (re_eqb_owned m d x Od (Hs x Hx) E). exact Hx.
Qed.

Lemma push_all_sem r : forall cids m q s m1 q1 s1,
  dwf m -> owned m r -> (forall x, In x s -> owned m x) ->
  (forall cid, In cid cids -> pvalid (rcls r) cid = true) ->
  push_all_derivs m r cids q s = Some (m1, q1, s1) ->
  dwf m1 /\ ext m m1 /\ (forall x, In x s1 -> owned m1 x) /\
  (forall x, In x s -> In x s1) /\
  (forall x, In x q -> In x q1) /\
  (forall x, In x q1 -> In x q \/ (In x s1 /\ exists cid, In cid cids /\ cquot r cid x)) /\
  (forall x, In x s1 -> In x s \/ In x q1) /\
  (forall cid, In cid cids -> exists d, In d s1 /\ cquot r cid d).
Proof.
  induction cids as [|cid t IH]; intros m q s m1 q1 s1 D Or Hs Hv H; cbn [push_all_derivs] in H.
  - inversion H; subst m1 q1 s1. split; [exact D|]. split; [apply ext_refl|]. split; [exact Hs|].
    split; [auto|]. split; [auto|]. split; [auto|]. split; [auto|]. intros cid [].
  - destruct (cached_deriv r m cid) as [[m2 d]|] eqn:Ed; cbn [bind] in H; [|discriminate].
    destruct (cd_step r m cid m2 d D Or (Hv cid (or_introl eq_refl)) Ed) as (D2 & X2 & Od & Qd).
    assert (Or2 : owned m2 r) by (eapply ext_owned; eauto).
    assert (Hs2 : forall x, In x s -> owned m2 x) by (intros x Hx; eapply ext_owned; eauto).
    assert (Hv2 : forall c, In c t -> pvalid (rcls r) c = true) by (intros c Hc; apply Hv; right; exact Hc).
    destruct (existsb (re_eqb d) s) eqn:Ex.
    + pose proof (existsb_re_eqb_owned m2 d s Od Hs2 Ex) as Hd.
      destruct (IH m2 q s m1 q1 s1 D2 Or2 Hs2 Hv2 H) as (D1 & X1 & O1 & A & B & C & E & F).
      split; [exact D1|]. split; [eapply ext_trans; eauto|]. split; [exact O1|].
      split; [exact A|]. split; [exact B|]. split.
      { intros x Hx. destruct (C x Hx) as [Hq|(Hx1 & c & Hc & Q)]; [left; exact Hq|].
        right. split; [exact Hx1|]. exists c. split; [right; exact Hc|exact Q]. }
      split; [exact E|].
      intros c [<-|Hc]; [exists d; split; [apply A; exact Hd|exact Qd]|apply F; exact Hc].
    + assert (Hs3 : forall x, In x (d :: s) -> owned m2 x).
      { intros x [<-|Hx]; [exact Od|apply Hs2; exact Hx]. }
      destruct (IH m2 (q ++ [d]) (d :: s) m1 q1 s1 D2 Or2 Hs3 Hv2 H) as (D1 & X1 & O1 & A & B & C & E & F).
      split; [exact D1|]. split; [eapply ext_trans; eauto|]. split; [exact O1|].
      split; [intros x Hx; apply A; right; exact Hx|].
      split; [intros x Hx; apply B; apply in_or_app; left; exact Hx|]. split.
      { intros x Hx. destruct (C x Hx) as [Hq|(Hx1 & c & Hc & Q)].
        - apply in_app_or in Hq. destruct Hq as [Hq|[<-|[]]]; [left; exact Hq|].
          right. split; [apply A; left; reflexivity|]. exists cid. split; [left; reflexivity|exact Qd].
        - right. split; [exact Hx1|]. exists c. split; [right; exact Hc|exact Q]. }
      split.
      { intros x Hx. destruct (E x Hx) as [[<-|Hx1]|Hx1]; [|left; exact Hx1|right; exact Hx1].
        right. apply B. apply in_or_app. right. left. reflexivity. }
      intros c [<-|Hc]; [exists d; split; [apply A; left; reflexivity|exact Qd]|apply F; exact Hc].
Qed.

(* ------------------------------------------------------------------------------------------ *)
(** * 2. The semantic invariant of the three worklist loops
   [P] is what the loop knows about the terms it has popped and kept going (is_empty_re / get_string:
   they are not nullable; iter_derivatives: nothing). *)

Definition sinv (P : re -> Prop) (e : re) (m : mgr) (q s : list re) : Prop :=
  dwf m /\ In e s /\
  (forall x, In x s -> owned m x /\ reach_of e x) /\
  (forall x, In x q -> In x s) /\
  (forall x, In x s -> In x q \/ (P x /\ closed_in s x)).

Lemma reach_refl e : reach_of e e.
Proof. exists []. split; [apply goodw_nil|]. intros w _. cbn [app]. tauto. Qed.

Lemma sinv_init P e m : dwf m -> owned m e -> sinv P e m [e] [e].
Proof.
  intros D Oe. split; [exact D|]. split; [left; reflexivity|].
  split; [intros x [<-|[]]; split; [exact Oe|apply reach_refl]|].
  split; [auto|]. intros x Hx. left. exact Hx.
Qed.

Lemma closed_in_mono s s' x : (forall y, In y s -> In y s') -> closed_in s x -> closed_in s' x.
Proof. intros Hs H c Hc. destruct (H c Hc) as (d & Hd & Q). exists d. split; [apply Hs; exact Hd|exact Q]. Qed.

Lemma sinv_step P e m r q s m1 q1 s1 :
  sinv P e m (r :: q) s -> P r ->
  push_all_derivs m r (pclass_ids (rcls r)) q s = Some (m1, q1, s1) ->
  sinv P e m1 q1 s1 /\ ext m m1 /\
  (forall x, In x s -> In x s1) /\ (forall x, In x q -> In x q1) /\ (forall x, In x s1 -> In x s \/ In x q1).
Proof.
  intros (D & He & Hs & Hq & Hd) Pr H.
  assert (Hrs : In r s) by (apply Hq; left; reflexivity).
  destruct (Hs r Hrs) as [Or Rr].
  assert (Hv : forall cid, In cid (pclass_ids (rcls r)) -> pvalid (rcls r) cid = true).
  { intros cid Hc. apply pclass_ids_in. exact Hc. }
  destruct (push_all_sem r _ m q s m1 q1 s1 D Or (fun x Hx => proj1 (Hs x Hx)) Hv H)
    as (D1 & X1 & O1 & A & B & C & E & F).
  split; [|split; [exact X1|split; [exact A|split; [exact B|exact E]]]].
  split; [exact D1|]. split; [apply A; exact He|]. split; [|split].
  - intros x Hx. split; [apply O1; exact Hx|].
    destruct (E x Hx) as [Hx0|Hx1]; [apply Hs; exact Hx0|].
    destruct (C x Hx1) as [Hx0|(_ & cid & Hc & Q)]; [apply Hs; apply Hq; right; exact Hx0|].
    exact (reach_step e r cid x m D Or (Hv cid Hc) Rr Q).
  - intros x Hx. destruct (C x Hx) as [Hx0|[Hx1 _]]; [apply A; apply Hq; right; exact Hx0|exact Hx1].
  - intros x Hx. destruct (E x Hx) as [Hx0|Hx1]; [|left; exact Hx1].
    destruct (Hd x Hx0) as [[<-|Hxq]|[Px Cx]].
    + right. split; [exact Pr|]. intros c Hc.
      destruct (class_ids_cover merge_ok_holds m r c (proj1 D) Or Hc) as (cid & Hcid & Hin & _).
      destruct (F cid Hcid) as (d & Hd1 & Q). exists d. split; [exact Hd1|exact (Q c Hc Hin)].
    + left. apply B. exact Hxq.
    + right. split; [exact Px|exact (closed_in_mono s s1 x A Cx)].
Qed.

(* a closed set of terms contains every iterated quotient of its members *)
Lemma closed_words s : (forall x, In x s -> closed_in s x) ->
  forall u, goodw u -> forall x, In x s -> exists d, In d s /\ lang_eq (L d) (fun w => L x (u ++ w)).
Proof.
  intros Hc. induction u as [|c u IH]; intros Hu x Hx.
  - exists x. split; [exact Hx|]. intros w _. cbn [app]. tauto.
  - apply goodw_cons in Hu as [Hgc Hgu]. destruct (Hc x Hx c Hgc) as (d1 & Hd1 & Q1).
    destruct (IH Hgu d1 Hd1) as (d & Hd & Q). exists d. split; [exact Hd|].
    intros w Hw. rewrite (Q w Hw). cbn [app]. apply Q1. apply goodw_app. split; assumption.
Qed.

(* ------------------------------------------------------------------------------------------ *)
(** * 3. Bridges: iter_derivatives from an owned term of a dwf manager *)

Lemma iter_go_sem e f : forall m q s out m' l,
  iter_go f m q s out = Some (m', l) -> sinv (fun _ => True) e m q s ->
  (forall x, In x out -> In x s) -> (forall x, In x s -> In x out \/ In x q) ->
  dwf m' /\ ext m m' /\ In e l /\
  forall x, In x l -> owned m' x /\ reach_of e x /\ closed_in l x.
Proof.
  induction f as [|f IH]; intros m q s out m' l H I Ho Hso; [discriminate|].
  cbn [iter_go] in H. destruct q as [|r q].
  - inversion H; subst m' l. destruct I as (D & He & Hs & _ & Hd).
    assert (Hsub : forall x, In x s -> In x out) by (intros x Hx; destruct (Hso x Hx) as [Hx1|[]]; exact Hx1).
    split; [exact D|]. split; [apply ext_refl|]. split; [apply Hsub; exact He|].
    intros x Hx. pose proof (Ho x Hx) as Hxs. destruct (Hs x Hxs) as [Ox Rx].
    split; [exact Ox|]. split; [exact Rx|]. destruct (Hd x Hxs) as [[]|[_ Cx]].
    exact (closed_in_mono s out x Hsub Cx).
  - destruct (push_all_derivs m r (pclass_ids (rcls r)) q s) as [[[m1 q1] s1]|] eqn:Ep; cbn [bind] in H; [|discriminate].
    destruct (sinv_step _ e m r q s m1 q1 s1 I Logic.I Ep) as (I1 & X1 & A & B & E).
    assert (Ho1 : forall x, In x (out ++ [r]) -> In x s1).
    { intros x Hx. apply A. apply in_app_or in Hx. destruct Hx as [Hx|[<-|[]]]; [apply Ho; exact Hx|].
      destruct I as (_ & _ & _ & Hq & _). apply Hq. left. reflexivity. }
    assert (Hso1 : forall x, In x s1 -> In x (out ++ [r]) \/ In x q1).
    { intros x Hx. destruct (E x Hx) as [Hx0|Hx1]; [|right; exact Hx1].
      destruct (Hso x Hx0) as [Hxo|[<-|Hxq]].
      - left. apply in_or_app. left. exact Hxo.
      - left. apply in_or_app. right. left. reflexivity.
      - right. apply B. exact Hxq. }
    destruct (IH m1 q1 s1 (out ++ [r]) m' l H I1 Ho1 Hso1) as (D' & X' & He' & Hl).
    split; [exact D'|]. split; [eapply ext_trans; eauto|]. split; [exact He'|exact Hl].
Qed.

Lemma iter_sem fuel m e m' l :
  dwf m -> owned m e -> iter_derivatives fuel m e = Some (m', l) ->
  dwf m' /\ ext m m' /\ In e l /\ forall x, In x l -> owned m' x /\ reach_of e x /\ closed_in l x.
Proof.
  intros D Oe H. unfold iter_derivatives in H.
  apply (iter_go_sem e fuel m [e] [e] [] m' l H (sinv_init _ e m D Oe)).
  - intros x [].
  - intros x Hx. right. exact Hx.
Qed.

(* the final manager satisfies the invariant and extends the initial one *)
Theorem iter_dwf fuel m e m' l :
  dwf m -> owned m e -> iter_derivatives fuel m e = Some (m', l) -> dwf m' /\ ext m m'.
Proof. intros D Oe H. destruct (iter_sem fuel m e m' l D Oe H) as (D' & X & _). split; assumption. Qed.

(* every yielded term is owned by the final manager *)
Theorem iter_owned fuel m e m' l :
  dwf m -> owned m e -> iter_derivatives fuel m e = Some (m', l) -> Forall (owned m') l.
Proof.
  intros D Oe H. destruct (iter_sem fuel m e m' l D Oe H) as (_ & _ & _ & Hl).
  rewrite Forall_forall. intros x Hx. apply Hl. exact Hx.
Qed.

(* the three premises of ExploreProofs' theorems *)
Lemma owned_ids_desc m x : wf m -> owned m x -> ids_desc x.
Proof.
  intros W. apply (ids_desc_of_child_lt (owned m)). intros e c Oe Hc. exact (wf_child m W e c Oe Hc).
Qed.

Theorem iter_ids_desc fuel m e m' l :
  dwf m -> owned m e -> iter_derivatives fuel m e = Some (m', l) -> Forall ids_desc l.
Proof.
  intros D Oe H. pose proof (iter_owned fuel m e m' l D Oe H) as Ho.
  destruct (iter_dwf fuel m e m' l D Oe H) as [[W' _] _].
  rewrite Forall_forall in *. intros x Hx. apply (owned_ids_desc m' x W'). apply Ho. exact Hx.
Qed.

Theorem iter_inj_ids fuel m e m' l :
  dwf m -> owned m e -> iter_derivatives fuel m e = Some (m', l) -> inj_ids (l ++ map snd (cache m')).
Proof.
  intros D Oe H. pose proof (iter_owned fuel m e m' l D Oe H) as Ho.
  destruct (iter_dwf fuel m e m' l D Oe H) as [[W' _] _].
  apply (owned_inj m'). rewrite Forall_forall in *. intros x Hx. apply in_app_or in Hx.
  destruct Hx as [Hx|Hx]; [exact (Ho x Hx)|].
  apply in_map_iff in Hx. destruct Hx as ([[i cid] d] & E & Hin). cbn [snd] in E. subst d.
  destruct (cache_invariant m' i cid x W' Hin) as (_ & _ & _ & _ & Ox & _). exact Ox.
Qed.

Theorem iter_cls_ok fuel m e m' l :
  dwf m -> owned m e -> iter_derivatives fuel m e = Some (m', l) -> cls_ok l.
Proof.
  intros D Oe H. pose proof (iter_owned fuel m e m' l D Oe H) as Ho.
  destruct (iter_dwf fuel m e m' l D Oe H) as [D' _].
  unfold cls_ok. rewrite Forall_forall in *. intros x Hx. exact (pwf_owned m' x D' (Ho x Hx)).
Qed.

(* the three together: what every *_partial theorem of C19 asks for *)
Theorem iter_premises fuel m e m' l :
  dwf m -> owned m e -> iter_derivatives fuel m e = Some (m', l) ->
  Forall ids_desc l /\ cls_ok l /\ inj_ids (l ++ map snd (cache m')).
Proof.
  intros D Oe H. split; [exact (iter_ids_desc _ _ _ _ _ D Oe H)|].
  split; [exact (iter_cls_ok _ _ _ _ _ D Oe H)|exact (iter_inj_ids _ _ _ _ _ D Oe H)].
Qed.

(* ExploreProofs' string-level theorems with all premises discharged *)
Theorem iter_reachable_str_dwf fuel m e m' l :
  dwf m -> owned m e -> iter_derivatives fuel m e = Some (m', l) ->
  forall r, In r l -> exists u, goodw u /\ str_derivative m' e u = Some (m', r).
Proof.
  intros D Oe H.
  exact (iter_reachable_str fuel m e m' l H (iter_ids_desc _ _ _ _ _ D Oe H) (iter_cls_ok _ _ _ _ _ D Oe H)
           (iter_inj_ids _ _ _ _ _ D Oe H)).
Qed.

Theorem iter_complete_str_dwf fuel m e m' l :
  dwf m -> owned m e -> iter_derivatives fuel m e = Some (m', l) ->
  forall u, goodw u -> exists d, str_derivative m' e u = Some (m', d) /\ In d l.
Proof.
  intros D Oe H.
  exact (iter_complete_str fuel m e m' l H (iter_ids_desc _ _ _ _ _ D Oe H) (iter_cls_ok _ _ _ _ _ D Oe H)
           (iter_inj_ids _ _ _ _ _ D Oe H)).
Qed.

Theorem iter_closed_char_dwf fuel m e m' l :
  dwf m -> owned m e -> iter_derivatives fuel m e = Some (m', l) ->
  forall r c, In r l -> good c -> exists d, char_derivative m' r c = Some (m', d) /\ In d l.
Proof.
  intros D Oe H.
  exact (iter_closed_char_in fuel m e m' l H (iter_ids_desc _ _ _ _ _ D Oe H) (iter_cls_ok _ _ _ _ _ D Oe H)
           (iter_inj_ids _ _ _ _ _ D Oe H)).
Qed.

(* ------------------------------------------------------------------------------------------ *)
(** * 4. Semantics of the enumerated closure *)

(* every yielded term is the left quotient of e by a well-formed word *)
Theorem iter_sem_sound fuel m e m' l :
  dwf m -> owned m e -> iter_derivatives fuel m e = Some (m', l) ->
  forall r, In r l -> exists u, goodw u /\ lang_eq (L r) (fun w => L e (u ++ w)).
Proof. intros D Oe H r Hr. destruct (iter_sem fuel m e m' l D Oe H) as (_ & _ & _ & Hl). apply Hl. exact Hr. Qed.

(* the yielded set is closed under the quotient by every character *)
Theorem iter_sem_closed fuel m e m' l :
  dwf m -> owned m e -> iter_derivatives fuel m e = Some (m', l) ->
  forall r c, In r l -> good c -> exists d, In d l /\ lang_eq (L d) (fun w => L r (c :: w)).
Proof.
  intros D Oe H r c Hr Hc. destruct (iter_sem fuel m e m' l D Oe H) as (_ & _ & _ & Hl).
  destruct (Hl r Hr) as (_ & _ & Cr). exact (Cr c Hc).
Qed.

(* every left quotient of e by a well-formed word is the language of a yielded term *)
Theorem iter_sem_complete fuel m e m' l :
  dwf m -> owned m e -> iter_derivatives fuel m e = Some (m', l) ->
  forall u, goodw u -> exists d, In d l /\ lang_eq (L d) (fun w => L e (u ++ w)).
Proof.
  intros D Oe H u Hu. destruct (iter_sem fuel m e m' l D Oe H) as (_ & _ & He & Hl).
  apply (closed_words l); [|exact Hu|exact He]. intros x Hx. apply Hl. exact Hx.
Qed.

(* ... and that term is the iterated derivative the final manager computes (cache hit) *)
Theorem iter_complete_quotient fuel m e m' l :
  dwf m -> owned m e -> iter_derivatives fuel m e = Some (m', l) ->
  forall u, goodw u -> exists d, str_derivative m' e u = Some (m', d) /\ In d l /\
    lang_eq (L d) (fun w => L e (u ++ w)).
Proof.
  intros D Oe H u Hu. destruct (iter_complete_str_dwf fuel m e m' l D Oe H u Hu) as (d & Hd & Hin).
  destruct (iter_dwf fuel m e m' l D Oe H) as [D' X].
  destruct (str_derivative_quotient merge_ok_holds inclusion_sound_holds u m' e m' d D'
              (ext_owned m m' e X Oe) Hu Hd) as (_ & _ & _ & Q).
  exists d. split; [exact Hd|]. split; [exact Hin|exact Q].
Qed.

(* ------------------------------------------------------------------------------------------ *)
(** * 5. is_empty_re (the lazy run; no completion of the full enumeration is assumed) *)

Definition nonnul (x : re) : Prop := rnul x = false.

Lemma sinv_empty P e m s : sinv P e m [] s ->
  forall u, goodw u -> exists d, In d s /\ P d /\ lang_eq (L d) (fun w => L e (u ++ w)).
Proof.
  intros (D & He & Hs & _ & Hd) u Hu.
  assert (Hall : forall x, In x s -> P x /\ closed_in s x).
  { intros x Hx. destruct (Hd x Hx) as [[]|H]. exact H. }
  destruct (closed_words s (fun x Hx => proj2 (Hall x Hx)) u Hu e He) as (d & Hin & Q).
  exists d. split; [exact Hin|]. split; [apply Hall; exact Hin|exact Q].
Qed.

Lemma empty_go_sem e f : forall m q s m' b,
  empty_go f m q s = Some (m', b) -> sinv nonnul e m q s ->
  (dwf m' /\ ext m m') /\
  (b = true -> forall w, goodw w -> ~ L e w) /\
  (b = false -> exists w, goodw w /\ L e w).
Proof.
  induction f as [|f IH]; intros m q s m' b H I; [discriminate|].
  cbn [empty_go] in H. destruct q as [|r q].
  - inversion H; subst m' b. split; [split; [apply I|apply ext_refl]|]. split; [|discriminate].
    intros _ w Hw Hl. destruct (sinv_empty _ e m s I w Hw) as (d & Hd & Pd & Q).
    destruct I as (D & _ & Hs & _). destruct (Hs d Hd) as [Od _].
    assert (Hn : rnul d = true).
    { apply (nullable_owned m d (proj1 D) Od). apply (Q [] goodw_nil). rewrite app_nil_r. exact Hl. }
    unfold nonnul in Pd. congruence.
  - destruct (push_all_derivs m r (pclass_ids (rcls r)) q s) as [[[m1 q1] s1]|] eqn:Ep; cbn [bind] in H; [|discriminate].
    destruct (rnul r) eqn:Er.
    + inversion H; subst m' b.
      destruct I as (D & He & Hs & Hq & Hd).
      assert (Hrs : In r s) by (apply Hq; left; reflexivity).
      destruct (Hs r Hrs) as [Or (u & Hu & Q)].
      assert (Hv : forall cid, In cid (pclass_ids (rcls r)) -> pvalid (rcls r) cid = true).
      { intros cid Hc. apply pclass_ids_in. exact Hc. }
      destruct (push_all_sem r _ m q s m1 q1 s1 D Or (fun x Hx => proj1 (Hs x Hx)) Hv Ep) as (D1 & X1 & _).
      split; [split; assumption|]. split; [discriminate|]. intros _. exists u. split; [exact Hu|].
      apply (nullable_owned m r (proj1 D) Or) in Er. apply (Q [] goodw_nil) in Er.
      rewrite app_nil_r in Er. exact Er.
    + destruct (sinv_step nonnul e m r q s m1 q1 s1 I Er Ep) as (I1 & X1 & _).
      destruct (IH m1 q1 s1 m' b H I1) as ([D' X'] & R).
      split; [split; [exact D'|eapply ext_trans; eauto]|exact R].
Qed.

(* C05, first clause.  The only completion hypothesis is that is_empty_re itself returns. *)
Theorem is_empty_sem fuel m e m' b :
  dwf m -> owned m e -> is_empty_re fuel m e = Some (m', b) ->
  (dwf m' /\ ext m m') /\
  (b = true -> forall w, goodw w -> ~ L e w) /\
  (b = false -> exists w, goodw w /\ L e w).
Proof. intros D Oe H. exact (empty_go_sem e fuel m [e] [e] m' b H (sinv_init _ e m D Oe)). Qed.

Theorem is_empty_iff fuel m e m' b :
  dwf m -> owned m e -> is_empty_re fuel m e = Some (m', b) ->
  (dwf m' /\ ext m m') /\ (b = true <-> forall w, goodw w -> ~ L e w).
Proof.
  intros D Oe H. destruct (is_empty_sem fuel m e m' b D Oe H) as (R & Ht & Hf).
  split; [exact R|]. split; [exact Ht|]. intros Hall. destruct b; [reflexivity|].
  destruct (Hf eq_refl) as (w & Hw & Hl). exfalso. exact (Hall w Hw Hl).
Qed.

(* ------------------------------------------------------------------------------------------ *)
(** * 6. get_string *)

(* a run of the LabeledQueue loop that finds nothing is a run of is_empty_re answering true *)
Lemma gs_go_none f : forall m q mp s m',
  map fst mp = rev s -> gs_go f m q mp = Some (m', None) -> empty_go f m q s = Some (m', true).
Proof.
  induction f as [|f IH]; intros m q mp s m' Hk H; [discriminate|].
  cbn [gs_go] in H. cbn [empty_go]. destruct q as [|r q]; [inversion H; reflexivity|].
  destruct (rnul r) eqn:Er.
  - destruct (lq_find (rid r) mp) as [edge|]; cbn [bind] in H; [|discriminate].
    destruct (path_go (S (length mp)) mp edge []); cbn [bind] in H; discriminate.
  - pose proof (gs_push_push r (pclass_ids (rcls r)) m q s mp Hk) as G.
    destruct (push_all_derivs m r (pclass_ids (rcls r)) q s) as [[[m1 q1] s1]|].
    + destruct G as (mp1 & G1 & G2). rewrite G1 in H. cbn [bind] in H |- *.
      exact (IH m1 q1 mp1 s1 m' G2 H).
    + rewrite G in H. cbn [bind] in H. discriminate.
Qed.

(* a returned path is a cache-answered derivative path from e to a nullable term *)
Lemma gs_go_some e f : forall m q mp s m' p,
  gs_go f m q mp = Some (m', Some p) -> map fst mp = rev s ->
  dwf m -> lq_ok m e mp -> (forall x, In x s -> owned m x) -> (forall x, In x q -> In x s) ->
  dwf m' /\ ext m m' /\ exists x, dpath m' e p x /\ rnul x = true.
Proof.
  induction f as [|f IH]; intros m q mp s m' p H Hk D Hok Hs Hq; [discriminate|].
  cbn [gs_go] in H. destruct q as [|r q]; [discriminate|].
  assert (Hrs : In r s) by (apply Hq; left; reflexivity).
  assert (Hr : In r (map fst mp)) by (rewrite Hk; apply in_rev; rewrite rev_involutive; exact Hrs).
  destruct (rnul r) eqn:Er.
  - apply in_map_iff in Hr. destruct Hr as ([r' edge] & E' & Hr). cbn [fst] in E'. subst r'.
    rewrite (lq_ok_find _ _ _ Hok _ _ Hr) in H. cbn [bind] in H.
    destruct (path_go_ok m e mp r edge Hok Hr) as (p0 & P1 & P2 & _). rewrite P1 in H. cbn [bind] in H.
    inversion H; subst m' p. split; [exact D|]. split; [apply ext_refl|]. exists r. split; assumption.
  - pose proof (gs_push_push r (pclass_ids (rcls r)) m q s mp Hk) as G.
    destruct (push_all_derivs m r (pclass_ids (rcls r)) q s) as [[[m1 q1] s1]|] eqn:Ep.
    + destruct G as (mp1 & G1 & G2). rewrite G1 in H. cbn [bind] in H.
      assert (Hv : forall cid, In cid (pclass_ids (rcls r)) -> pvalid (rcls r) cid = true).
      { intros cid Hc. apply pclass_ids_in. exact Hc. }
      destruct (push_all_sem r _ m q s m1 q1 s1 D (Hs r Hrs) Hs Hv Ep) as (D1 & X1 & O1 & A & B & C & _).
      destruct (gs_push_ok e r (owned_ids_desc m r (proj1 D) (Hs r Hrs)) _ _ _ _ _ _ _ G1 (fun c h => h) Hr Hok)
        as [Hok1 _].
      assert (Hq1 : forall x, In x q1 -> In x s1).
      { intros x Hx. destruct (C x Hx) as [Hx0|[Hx1 _]]; [apply A; apply Hq; right; exact Hx0|exact Hx1]. }
      destruct (IH m1 q1 mp1 s1 m' p H G2 D1 Hok1 O1 Hq1) as (D' & X' & R).
      split; [exact D'|]. split; [eapply ext_trans; eauto|exact R].
    + rewrite G in H. cbn [bind] in H. discriminate.
Qed.

(* the picks along a derivative path spell a word by which the end point is the quotient *)
Lemma dpath_sem m : dwf m -> forall r p x, dpath m r p x -> owned m r ->
  forall w0, pick_all p = Some w0 ->
  goodw w0 /\ owned m x /\ lang_eq (L x) (fun w => L r (w0 ++ w)).
Proof.
  intros D r p x H. induction H as [r|r cid d p x Hc Hd _ IH]; intros Or w0 Hp.
  - cbn [pick_all] in Hp. inversion Hp; subst w0. split; [apply goodw_nil|]. split; [exact Or|].
    intros w _. cbn [app]. tauto.
  - cbn [pick_all] in Hp.
    destruct (ppick (rcls r) cid) as [c|] eqn:Ec; cbn [bind] in Hp; [|discriminate].
    destruct (pick_all p) as [rest|] eqn:Er; cbn [bind] in Hp; [|discriminate].
    inversion Hp; subst w0.
    destruct (ppick_in_class (rcls r) cid c (pwf_owned m r D Or) Ec) as (Hv & Hgc & Hin).
    destruct (cd_step r m cid m d D Or Hv (cderiv_cached m r cid d Hd)) as (_ & _ & Od & Q).
    destruct (IH Od rest eq_refl) as (Hg & Ox & Qx).
    split; [apply goodw_cons; split; assumption|]. split; [exact Ox|].
    intros w Hw. rewrite (Qx w Hw). cbn [app]. apply (Q c Hgc Hin). apply goodw_app. split; assumption.
Qed.

Lemma get_string_unfold fuel m e :
  get_string fuel m e =
  match gs_go fuel m [e] [(e, None)] with
  | None => None
  | Some (m1, None) => Some (m1, None)
  | Some (m1, Some p) =>
      match pick_all p with
      | None => None
      | Some w => Some (m1, Some (map (fun c => if c <=? MAXC then c else REPLC) w))
      end
  end.
Proof.
  unfold get_string. destruct (gs_go fuel m [e] [(e, None)]) as [[m1 [p|]]|]; cbn [bind]; try reflexivity.
Qed.

(* C05: a returned string is a well-formed SMT string and a member of the language *)
Theorem get_string_member fuel m e m' s :
  dwf m -> owned m e -> get_string fuel m e = Some (m', Some s) ->
  (dwf m' /\ ext m m') /\ goodw s /\ L e s.
Proof.
  intros D Oe H. rewrite get_string_unfold in H.
  destruct (gs_go fuel m [e] [(e, None)]) as [[m1 [p|]]|] eqn:G; try discriminate.
  destruct (pick_all p) as [w|] eqn:Ew; [|discriminate]. inversion H; subst m' s.
  assert (Hs : forall x, In x [e] -> owned m x) by (intros x [<-|[]]; exact Oe).
  destruct (gs_go_some e fuel m [e] [(e, None)] [e] m1 p G eq_refl D (lq_root m e) Hs (fun x h => h))
    as (D1 & X1 & x & Hp & Hn).
  destruct (dpath_sem m1 D1 e p x Hp (ext_owned m m1 e X1 Oe) w Ew) as (Hg & Ox & Q).
  rewrite (clamp_id w Hg). split; [split; assumption|]. split; [exact Hg|].
  apply (nullable_owned m1 x (proj1 D1) Ox) in Hn. apply (Q [] goodw_nil) in Hn.
  rewrite app_nil_r in Hn. exact Hn.
Qed.

(* get_string answering None is is_empty_re answering true on the same fuel and manager *)
Theorem get_string_none_is_empty fuel m e m' :
  get_string fuel m e = Some (m', None) -> is_empty_re fuel m e = Some (m', true).
Proof.
  intros H. rewrite get_string_unfold in H.
  destruct (gs_go fuel m [e] [(e, None)]) as [[m1 [p|]]|] eqn:G; try discriminate.
  - destruct (pick_all p); discriminate.
  - inversion H; subst m'. exact (gs_go_none fuel m [e] [(e, None)] [e] m1 eq_refl G).
Qed.

Theorem get_string_none_empty fuel m e m' :
  dwf m -> owned m e -> get_string fuel m e = Some (m', None) ->
  (dwf m' /\ ext m m') /\ forall w, goodw w -> ~ L e w.
Proof.
  intros D Oe H. destruct (is_empty_sem fuel m e m' true D Oe (get_string_none_is_empty _ _ _ _ H)) as (R & Ht & _).
  split; [exact R|exact (Ht eq_refl)].
Qed.

(* C05: None exactly when the language is empty *)
Theorem get_string_none_iff_empty fuel m e m' res :
  dwf m -> owned m e -> get_string fuel m e = Some (m', res) ->
  (dwf m' /\ ext m m') /\ (res = None <-> forall w, goodw w -> ~ L e w).
Proof.
  intros D Oe H. destruct res as [s|].
  - destruct (get_string_member fuel m e m' s D Oe H) as (R & Hg & Hl). split; [exact R|].
    split; [discriminate|]. intros Hall. exfalso. exact (Hall s Hg Hl).
  - destruct (get_string_none_empty fuel m e m' D Oe H) as (R & Hall). split; [exact R|].
    split; [intros _; exact Hall|reflexivity].
Qed.

(* the returned string passes the membership test (whenever that test is run afterwards) *)
Theorem get_string_accepted fuel m e m' s m2 b :
  dwf m -> owned m e -> get_string fuel m e = Some (m', Some s) ->
  str_in_re m' s e = Some (m2, b) -> b = true.
Proof.
  intros D Oe H T. destruct (get_string_member fuel m e m' s D Oe H) as ([D' X] & Hg & Hl).
  destruct (str_in_re_correct merge_ok_holds inclusion_sound_holds m' s e m2 b D' (ext_owned m m' e X Oe) Hg T)
    as (_ & _ & Hb). apply Hb. exact Hl.
Qed.

(* is_empty_re and get_string agree *)
Theorem get_string_vs_is_empty fuel fuel' m e m1 b m2 res :
  dwf m -> owned m e -> is_empty_re fuel m e = Some (m1, b) -> get_string fuel' m e = Some (m2, res) ->
  (b = true <-> res = None).
Proof.
  intros D Oe H1 H2. destruct (is_empty_iff fuel m e m1 b D Oe H1) as (_ & Hb).
  destruct (get_string_none_iff_empty fuel' m e m2 res D Oe H2) as (_ & Hr). rewrite Hb, Hr. tauto.
Qed.

(* ------------------------------------------------------------------------------------------ *)
(** * 7. start_char *)

(* some well-formed member of L(e) begins with c *)
Definition starts_with (e : re) (c : N) : Prop := exists w, goodw w /\ L e (c :: w).

Definition sc_list (fuel : nat) (c : N) : list re -> mgr -> option (mgr * bool) :=
  fix go (l : list re) (m : mgr) : option (mgr * bool) :=
    match l with
    | [] => Some (m, false)
    | x :: t => do (m1, b) <- start_char fuel x m c; if b then Some (m1, true) else go t m1
    end.
Definition sc_deriv (fuel : nat) (e : re) (m : mgr) (c : N) : option (mgr * bool) :=
  do (m1, d) <- deriv m e c; do (m2, b) <- is_empty_re fuel m1 d; Some (m2, negb b).

Lemma start_char_unfold fuel e m c :
  start_char fuel e m c =
  match rnode e with
  | NEmpty | NEps => Some (m, false)
  | NRange s => Some (m, cs_contains s c)
  | NLoop x _ => start_char fuel x m c
  | NUnion l => sc_list fuel c l m
  | _ => sc_deriv fuel e m c
  end.
Proof. destruct e as [i n cl k]. destruct k; reflexivity. Qed.

Lemma sc_list_cons fuel c x t m :
  sc_list fuel c (x :: t) m =
  do (m1, b) <- start_char fuel x m c; if b then Some (m1, true) else sc_list fuel c t m1.
Proof. reflexivity. Qed.

Definition sc_spec (e : re) : Prop := forall fuel m c m' b,
  dwf m -> owned m e -> good c -> start_char fuel e m c = Some (m', b) ->
  (dwf m' /\ ext m m') /\ (b = true <-> starts_with e c).

(* Concat / Inter / Complement: the derivative is the quotient, is_empty_re decides it *)
Lemma sc_deriv_correct fuel e m c m' b :
  dwf m -> owned m e -> good c -> sc_deriv fuel e m c = Some (m', b) ->
  (dwf m' /\ ext m m') /\ (b = true <-> starts_with e c).
Proof.
  intros D Oe Hc H. unfold sc_deriv in H.
  destruct (deriv m e c) as [[m1 d]|] eqn:Ed; cbn [bind] in H; [|discriminate].
  destruct (is_empty_re fuel m1 d) as [[m2 b0]|] eqn:Ee; cbn [bind] in H; [|discriminate].
  inversion H; subst m' b.
  destruct (char_derivative_quotient merge_ok_holds inclusion_sound_holds m e c m1 d D Oe Hc Ed)
    as (D1 & X1 & Od & Q).
  destruct (is_empty_sem fuel m1 d m2 b0 D1 Od Ee) as ([D2 X2] & Ht & Hf).
  split; [split; [exact D2|eapply ext_trans; eauto]|]. unfold starts_with. destruct b0; cbn [negb].
  - split; [discriminate|]. intros (w & Hw & Hl). exfalso. apply (Ht eq_refl w Hw). apply (Q w Hw). exact Hl.
  - split; [|reflexivity]. intros _. destruct (Hf eq_refl) as (w & Hw & Hl).
    exists w. split; [exact Hw|]. apply (Q w Hw). exact Hl.
Qed.

Lemma sc_list_correct fuel c : good c -> forall l, (forall x, In x l -> sc_spec x) ->
  forall m m' b, dwf m -> (forall x, In x l -> owned m x) -> sc_list fuel c l m = Some (m', b) ->
  (dwf m' /\ ext m m') /\ (b = true <-> exists x, In x l /\ starts_with x c).
Proof.
  intros Hc. induction l as [|x t IH]; intros Hsp m m' b D Ho H.
  - cbn [sc_list] in H. inversion H; subst m' b. split; [split; [exact D|apply ext_refl]|].
    split; [discriminate|]. intros (x & [] & _).
  - rewrite sc_list_cons in H.
    destruct (start_char fuel x m c) as [[m1 b1]|] eqn:E1; cbn [bind] in H; [|discriminate].
    destruct (Hsp x (or_introl eq_refl) fuel m c m1 b1 D (Ho x (or_introl eq_refl)) Hc E1) as ([D1 X1] & B1).
    destruct b1.
    + inversion H; subst m' b. split; [split; assumption|]. split; [|reflexivity].
      intros _. exists x. split; [left; reflexivity|]. apply B1. reflexivity.
    + assert (Ho1 : forall y, In y t -> owned m1 y).
      { intros y Hy. apply (ext_owned m m1 y X1). apply Ho. right. exact Hy. }
      destruct (IH (fun y Hy => Hsp y (or_intror Hy)) m1 m' b D1 Ho1 H) as ([D' X'] & B').
      split; [split; [exact D'|eapply ext_trans; eauto]|]. rewrite B'. split.
      * intros (y & Hy & Sy). exists y. split; [right; exact Hy|exact Sy].
      * intros (y & [<-|Hy] & Sy); [|exists y; split; assumption].
        apply B1 in Sy. discriminate.
Qed.

(* a loop range other than [0,0] allows some positive number of iterations *)
Lemma lr_pos_iter r : lr_valid r -> lr_is_zero r = false -> exists n, in_lr (S n) r.
Proof.
  intros Hv Hz. exists (N.to_nat (N.max (lr_start r) 1) - 1)%nat.
  assert (E : N.of_nat (S (N.to_nat (N.max (lr_start r) 1) - 1)) = N.max (lr_start r) 1) by lia.
  unfold in_lr. rewrite E. destruct r as [a [b|]]; cbn [lr_valid inr lr_start] in *.
  - pose proof (is_zero_false a b Hz (proj1 Hv)). lia.
  - lia.
Qed.

Lemma pow_repeat (A : lang) v : A v -> forall n, l_pow A n (List.concat (repeat v n)).
Proof.
  intros Hv. induction n as [|n IH]; cbn [repeat List.concat l_pow]; [reflexivity|].
  exists v, (List.concat (repeat v n)). auto.
Qed.

Lemma goodw_repeat v n : goodw v -> goodw (List.concat (repeat v n)).
Proof.
  intros Hv. induction n as [|n IH]; cbn [repeat List.concat]; [apply goodw_nil|].
  apply goodw_app. split; assumption.
Qed.

(* some member of a loop (range other than [0,0]) starts with c iff some member of its body does *)
Lemma loop_starts (A : lang) r c : good c -> lr_valid r -> lr_is_zero r = false ->
  ((exists w, goodw w /\ exists n, in_lr n r /\ l_pow A n (c :: w)) <-> (exists w, goodw w /\ A (c :: w))).
Proof.
  intros Hc Hv Hz. split.
  - intros (w & Hw & n & _ & Hp). destruct (pow_first A c n w Hp) as (u & v & k & -> & Hcu & _).
    exists u. split; [|exact Hcu]. apply goodw_app in Hw. apply Hw.
  - intros (w & Hw & Ha). destruct (lr_pos_iter r Hv Hz) as (n & Hn).
    exists (w ++ List.concat (repeat (c :: w) n)). split.
    + apply goodw_app. split; [exact Hw|]. apply goodw_repeat.
      apply goodw_cons. split; assumption.
    + exists (S n). split; [exact Hn|]. exact (pow_repeat A (c :: w) Ha (S n)).
Qed.

(* C18: start_char is exact *)
Theorem start_char_spec : forall e, sc_spec e.
Proof.
  apply re_induction. intros e IH fuel m c m' b D Oe Hc H.
  pose proof (wf_terms m (proj1 D) e Oe) as We. apply wf_term_iff in We. destruct We as (_ & _ & Hnode & _).
  assert (Hch : forall x, In x (children (rnode e)) -> owned m x).
  { intros x Hx. apply (wf_child m (proj1 D) e x Oe Hx). }
  rewrite start_char_unfold in H. unfold starts_with.
  destruct (rnode e) as [| |s|a1 a2|a rg|a|l|l] eqn:Ek.
  - inversion H; subst m' b. split; [split; [exact D|apply ext_refl]|]. split; [discriminate|].
    intros (w & _ & Hl). apply (L_rnode e _ _ Ek) in Hl. cbn in Hl. contradiction.
  - inversion H; subst m' b. split; [split; [exact D|apply ext_refl]|]. split; [discriminate|].
    intros (w & _ & Hl). apply (L_rnode e _ _ Ek) in Hl. cbn in Hl. discriminate.
  - inversion H; subst m' b. split; [split; [exact D|apply ext_refl]|]. rewrite cs_contains_iff. split.
    + intros Hm. exists []. split; [apply goodw_nil|]. apply (L_rnode e _ _ Ek). cbn. exists c. auto.
    + intros (w & _ & Hl). apply (L_rnode e _ _ Ek) in Hl. cbn in Hl. destruct Hl as (x & E & Hm).
      inversion E; subst. exact Hm.
  - exact (sc_deriv_correct fuel e m c m' b D Oe Hc H).
  - cbn [children] in Hch, IH. cbn [node_ok] in Hnode.
    destruct (IH a (or_introl eq_refl) fuel m c m' b D (Hch a (or_introl eq_refl)) Hc H) as (R & B).
    split; [exact R|]. rewrite B. unfold starts_with.
    pose proof (owned_loop_nz m e a rg (proj2 D) Oe Ek) as Hz.
    rewrite <- (loop_starts (L a) rg c Hc Hnode Hz). split.
    + intros (w & Hw & Hl). exists w. split; [exact Hw|]. apply (L_rnode e _ _ Ek). exact Hl.
    + intros (w & Hw & Hl). exists w. split; [exact Hw|]. apply (L_rnode e _ _ Ek) in Hl. exact Hl.
  - exact (sc_deriv_correct fuel e m c m' b D Oe Hc H).
  - cbn [children] in Hch, IH.
    destruct (sc_list_correct fuel c Hc l IH m m' b D Hch H) as (R & B). split; [exact R|]. rewrite B.
    destruct e as [i n cl k]. cbn [rnode] in Ek. subst k. split.
    + intros (x & Hx & w & Hw & Hl). exists w. split; [exact Hw|]. apply L_union. exists x. auto.
    + intros (w & Hw & Hl). apply L_union in Hl. destruct Hl as (x & Hx & Hl). exists x. split; [exact Hx|].
      exists w. auto.
  - exact (sc_deriv_correct fuel e m c m' b D Oe Hc H).
Qed.

Theorem start_char_iff fuel e m c m' b :
  dwf m -> owned m e -> good c -> start_char fuel e m c = Some (m', b) ->
  (dwf m' /\ ext m m') /\ (b = true <-> exists w, goodw w /\ L e (c :: w)).
Proof. exact (start_char_spec e fuel m c m' b). Qed.

(* ------------------------------------------------------------------------------------------ *)
(** * 8. start_class *)

Theorem start_class_spec fuel m e cid :
  dwf m -> owned m e ->
  (pvalid (rcls e) cid = false -> start_class fuel m e cid = Some (m, SErr BadClassId)) /\
  (pvalid (rcls e) cid = true -> forall m' res, start_class fuel m e cid = Some (m', res) ->
     exists b, res = SOk b /\ (dwf m' /\ ext m m') /\
       forall c, good c -> in_class (rcls e) c cid -> (b = true <-> exists w, goodw w /\ L e (c :: w))).
Proof.
  intros D Oe. unfold start_class. split; intros Hv; rewrite Hv; [reflexivity|].
  intros m' res H.
  destruct (ppick_spec (rcls e) cid (pwf_owned m e D Oe) Hv) as (x & Ex & Hx & Hin).
  rewrite Ex in H. cbn [bind] in H.
  destruct (start_char fuel e m x) as [[m1 b]|] eqn:Es; cbn [bind] in H; [|discriminate].
  inversion H; subst m' res. exists b. split; [reflexivity|].
  destruct (start_char_iff fuel e m x m1 b D Oe Hx Es) as (R & B). split; [exact R|].
  intros c Hc Hinc. rewrite B.
  pose proof (in_class_uniform merge_ok_holds e (wf_terms m (proj1 D) e Oe) cid x c Hx Hc Hin Hinc) as U.
  split; intros (w & Hw & Hl); exists w; (split; [exact Hw|]); apply (U w Hw); exact Hl.
Qed.

(* the invalid case needs no hypothesis at all *)
Theorem start_class_bad_id fuel m e cid :
  pvalid (rcls e) cid = false -> start_class fuel m e cid = Some (m, SErr BadClassId).
Proof. intros Hv. unfold start_class. rewrite Hv. reflexivity. Qed.

(* ------------------------------------------------------------------------------------------ *)
(** * 9. The same statements against the SMT-LIB denotation of a construction program *)

Lemma run_lang p m m1 t : dwf m -> prog_ok p = true -> run p m = Some (m1, t) ->
  dwf m1 /\ owned m1 t /\ forall w, goodw w -> (L t w <-> denote p w).
Proof.
  intros D Hok R. destruct (run_dwf p m m1 t D Hok R) as (D1 & _ & Ot).
  destruct (run_correct inclusion_sound_holds p m m1 t (proj1 D) Hok R) as (_ & _ & _ & HL).
  split; [exact D1|]. split; [exact Ot|exact HL].
Qed.

Theorem is_empty_denote fuel p m m1 t m2 b :
  dwf m -> prog_ok p = true -> run p m = Some (m1, t) -> is_empty_re fuel m1 t = Some (m2, b) ->
  (b = true <-> forall w, goodw w -> ~ denote p w).
Proof.
  intros D Hok R H. destruct (run_lang p m m1 t D Hok R) as (D1 & Ot & HL).
  destruct (is_empty_iff fuel m1 t m2 b D1 Ot H) as (_ & B). rewrite B.
  split; intros Hall w Hw Hd; apply (Hall w Hw); apply (HL w Hw); exact Hd.
Qed.

Theorem get_string_denote fuel p m m1 t m2 res :
  dwf m -> prog_ok p = true -> run p m = Some (m1, t) -> get_string fuel m1 t = Some (m2, res) ->
  match res with
  | Some s => goodw s /\ denote p s
  | None => forall w, goodw w -> ~ denote p w
  end.
Proof.
  intros D Hok R H. destruct (run_lang p m m1 t D Hok R) as (D1 & Ot & HL). destruct res as [s|].
  - destruct (get_string_member fuel m1 t m2 s D1 Ot H) as (_ & Hg & Hl). split; [exact Hg|]. apply (HL s Hg). exact Hl.
  - destruct (get_string_none_empty fuel m1 t m2 D1 Ot H) as (_ & Hall).
    intros w Hw Hd. apply (Hall w Hw). apply (HL w Hw). exact Hd.
Qed.

Theorem start_char_denote fuel p m m1 t c m2 b :
  dwf m -> prog_ok p = true -> run p m = Some (m1, t) -> good c -> start_char fuel t m1 c = Some (m2, b) ->
  (b = true <-> exists w, goodw w /\ denote p (c :: w)).
Proof.
  intros D Hok R Hc H. destruct (run_lang p m m1 t D Hok R) as (D1 & Ot & HL).
  destruct (start_char_iff fuel t m1 c m2 b D1 Ot Hc H) as (_ & B). rewrite B.
  split; intros (w & Hw & Hl); exists w; (split; [exact Hw|]);
    apply (HL (c :: w)); try (apply goodw_cons; split; assumption); exact Hl.
Qed.
