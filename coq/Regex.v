(* Regex.v -- executable model of regular_expressions.rs: hash-consed terms, attributes, the
   store and the ReManager state (no proofs here).
   A leaked immutable `&'static RE` is an id-tagged tree; Rust ==, <, Hash on RE are by id. *)
Require Import Base CharSet Partition LoopRange.
Open Scope N_scope.

Inductive re : Type :=
| Node (id : N) (nul : bool) (cls : part) (k : node)
with node : Type :=
| NEmpty | NEps
| NRange (c : cs)
| NConcat (a b : re)
| NLoop (a : re) (r : lr)
| NCompl (a : re)
| NUnion (l : list re)
| NInter (l : list re).

Definition rid (e : re) := match e with Node i _ _ _ => i end.
Definition rnul (e : re) := match e with Node _ n _ _ => n end.
Definition rcls (e : re) := match e with Node _ _ c _ => c end.
Definition rnode (e : re) := match e with Node _ _ _ k => k end.
Definition re_eqb (a b : re) := rid a =? rid b.

(* BaseRegLan::is_nullable / deriv_class, computed from the children's cached attributes *)
Definition k_nullable (k : node) : bool :=
  match k with
  | NEmpty => false | NEps => true | NRange _ => false
  | NConcat a b => rnul a && rnul b
  | NLoop a r => (lr_start r =? 0) || rnul a
  | NCompl a => negb (rnul a)
  | NInter l => forallb rnul l
  | NUnion l => existsb rnul l
  end.
Definition merge_classes (l : list re) : part := fold_left (fun acc e => pmerge acc (rcls e)) l pnew.
Definition k_class (k : node) : part :=
  match k with
  | NEmpty | NEps => pnew
  | NRange c => pfrom_set c
  | NConcat a b => if rnul a then pmerge (rcls a) (rcls b) else rcls a
  | NLoop a _ | NCompl a => rcls a
  | NInter l | NUnion l => merge_classes l
  end.
Definition mk_node (i : N) (k : node) : re := Node i (k_nullable k) (k_class k) k.

Definition is_empty_node (e : re) := match rnode e with NEmpty => true | _ => false end.
Definition is_range (e : re) := match rnode e with NRange _ => true | _ => false end.
Definition is_all_chars (e : re) := match rnode e with NRange s => cs_is_alphabet s | _ => false end.
Definition is_full (e : re) := match rnode e with NLoop r rg => lr_is_all rg && is_all_chars r | _ => false end.
Definition concat_or_atomic (e : re) :=
  match rnode e with NEmpty | NEps | NRange _ | NConcat _ _ | NLoop _ _ => true | _ => false end.
Definition match_char_set (e : re) (s : cs) := match rnode e with NRange x => cs_covers s x | _ => false end.

(* ---------- keys (derived Eq/Hash of BaseRegLan is shallow: children compared by id) ---------- *)
Inductive key :=
| KEmpty | KEps | KRange (c : cs) | KConcat (a b : N) | KLoop (a : N) (r : lr)
| KCompl (a : N) | KUnion (l : list N) | KInter (l : list N).
Definition key_of (k : node) : key :=
  match k with
  | NEmpty => KEmpty | NEps => KEps | NRange c => KRange c
  | NConcat a b => KConcat (rid a) (rid b)
  | NLoop a r => KLoop (rid a) r
  | NCompl a => KCompl (rid a)
  | NUnion l => KUnion (map rid l)
  | NInter l => KInter (map rid l)
  end.
Fixpoint nlist_eqb (l1 l2 : list N) : bool :=
  match l1, l2 with [], [] => true | x :: t1, y :: t2 => (x =? y) && nlist_eqb t1 t2 | _, _ => false end.
Definition key_eqb (k1 k2 : key) : bool :=
  match k1, k2 with
  | KEmpty, KEmpty | KEps, KEps => true
  | KRange (a,b), KRange (c,d) => (a =? c) && (b =? d)
  | KConcat a b, KConcat c d => (a =? c) && (b =? d)
  | KLoop a r, KLoop b s => (a =? b) && lr_eqb r s
  | KCompl a, KCompl b => a =? b
  | KUnion l, KUnion m | KInter l, KInter m => nlist_eqb l m
  | _, _ => false
  end.

(* ---------- the store and the manager ---------- *)
Record mgr := {
  tbl : list (key * re);                  (* Store: key -> term (HashMap, lookup only) *)
  counter : N;                            (* Store::counter = next id *)
  id2re : list re;                        (* ReManager::id2re *)
  cache : list ((N * classid) * re);      (* ReManager::deriv_cache *)
  m_sigma : re; m_empty : re; m_full : re; m_eps : re; m_splus : re   (* cached constants *)
}.
Definition set_store (m : mgr) (t : list (key * re)) (c : N) : mgr :=
  {| tbl := t; counter := c; id2re := id2re m; cache := cache m;
     m_sigma := m_sigma m; m_empty := m_empty m; m_full := m_full m; m_eps := m_eps m; m_splus := m_splus m |}.
Definition set_id2re (m : mgr) (l : list re) : mgr :=
  {| tbl := tbl m; counter := counter m; id2re := l; cache := cache m;
     m_sigma := m_sigma m; m_empty := m_empty m; m_full := m_full m; m_eps := m_eps m; m_splus := m_splus m |}.
Definition set_cache (m : mgr) (c : list ((N * classid) * re)) : mgr :=
  {| tbl := tbl m; counter := counter m; id2re := id2re m; cache := c;
     m_sigma := m_sigma m; m_empty := m_empty m; m_full := m_full m; m_eps := m_eps m; m_splus := m_splus m |}.

Fixpoint lookup (k : key) (t : list (key * re)) : option re :=
  match t with [] => None | (k', e) :: t' => if key_eqb k k' then Some e else lookup k t' end.
(* Store::make *)
Definition store_make (m : mgr) (k : node) : mgr * re :=
  match lookup (key_of k) (tbl m) with
  | Some e => (m, e)
  | None => let e := mk_node (counter m) k in
            (set_store m ((key_of k, e) :: tbl m) (counter m + 1), e)
  end.
(* id_to_re: None = index out of bounds (panic) *)
Definition id_to_re (m : mgr) (i : N) : option re := nth_error (id2re m) (N.to_nat i).
(* ReManager::make: x and Complement(x) are allocated together at ids 2k, 2k+1 *)
Definition make (m : mgr) (k : node) : option (mgr * re) :=
  match k with
  | NCompl x => do r <- id_to_re m (rid x + 1); Some (m, r)
  | _ => let i := counter m in
         let '(m1, x) := store_make m k in
         if rid x =? i then
           let '(m2, y) := store_make m1 (NCompl x) in Some (set_id2re m2 (id2re m2 ++ [x; y]), x)
         else Some (m1, x)
  end.
(* ReManager::new *)
Definition new_mgr : mgr :=
  let d := Node 0 false pnew NEmpty in
  let m0 := {| tbl := []; counter := 0; id2re := []; cache := [];
               m_sigma := d; m_empty := d; m_full := d; m_eps := d; m_splus := d |} in
  let '(m1, sigma) := store_make m0 (NRange (0, MAXC)) in
  let '(m2, nsigma) := store_make m1 (NCompl sigma) in
  let '(m3, empty) := store_make m2 NEmpty in
  let '(m4, sstar) := store_make m3 (NLoop sigma lr_star) in
  let '(m5, eps) := store_make m4 NEps in
  let '(m6, splus) := store_make m5 (NLoop sigma lr_plus) in
  {| tbl := tbl m6; counter := counter m6; id2re := [sigma; nsigma; empty; sstar; eps; splus]; cache := [];
     m_sigma := sigma; m_empty := empty; m_full := sstar; m_eps := eps; m_splus := splus |}.
(* ReManager::complement: id xor 1 *)
Definition complement (m : mgr) (e : re) : option re := id_to_re m (N.lxor (rid e) 1).

(* ---------- flattening ---------- *)
Fixpoint flatten_concat (r : re) : list re :=
  match r with
  | Node _ _ _ k =>
    match k with
    | NEps => []
    | NConcat x y => flatten_concat x ++ flatten_concat y
    | _ => [r]
    end
  end.
Fixpoint flatten_inter (r : re) : list re :=
  match r with
  | Node _ _ _ k =>
    match k with
    | NInter l => (fix go (l : list re) := match l with [] => [] | x :: t => flatten_inter x ++ go t end) l
    | _ => [r]
    end
  end.
Fixpoint flatten_union (r : re) : list re :=
  match r with
  | Node _ _ _ k =>
    match k with
    | NUnion l => (fix go (l : list re) := match l with [] => [] | x :: t => flatten_union x ++ go t end) l
    | _ => [r]
    end
  end.

Fixpoint height (e : re) : nat :=
  match e with
  | Node _ _ _ k =>
    match k with
    | NEmpty | NEps | NRange _ => 1
    | NConcat a b => S (Nat.max (height a) (height b))
    | NLoop a _ | NCompl a => S (height a)
    | NUnion l | NInter l => S ((fix go (l : list re) := match l with [] => O | x :: t => Nat.max (height x) (go t) end) l)
    end
  end%nat.
