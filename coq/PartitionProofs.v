(* PartitionProofs.v -- C11: CharPartition queries agree with the set-theoretic meaning of the
   partition.  Lemmas about the model of Partition.v against the specification of PartitionSpec.v.
   Sections:
     1. sorted interval lists (reusable facts: validity, strict order, disjointness, uniqueness)
     2. the complement witness
     3. constructors: new, from_set, push
     4. try_from_iter / try_from_list
     5. class_of_char (binary search)
     6. interval_cover (binary search + three-way split), class_of_set, good_char_set
     7. complement, class ids, picks
     8. classes as an equivalence relation *)
Require Import Base CharSet CharSetProofs Partition PartitionSpec.
From Coq Require Import Permutation Sorted.
Open Scope N_scope.

Ltac inv H := inversion H; subst; clear H.

(* ------------------------------------------------------------------ 1. sorted interval lists *)

Lemma sorted_tail x t : ivs_sorted (x :: t) -> ivs_sorted t.
Proof. intros H. destruct H as (_ & _ & H). exact H. Qed.

Lemma sorted_head_valid x t : ivs_sorted (x :: t) -> cs_valid x.
Proof. intros H. destruct H as (H & _ & _). exact H. Qed.

Lemma sorted_valid l : ivs_sorted l -> forall s, In s l -> cs_valid s.
Proof.
  induction l as [|x t IH]; intros Hs s Hin.
  - destruct Hin.
  - destruct Hin as [<- | Hin].
    + eapply sorted_head_valid; eauto.
    + apply IH; auto. eapply sorted_tail; eauto.
Qed.

Lemma sorted_Forall_valid l : ivs_sorted l -> Forall cs_valid l.
Proof. intros H. apply Forall_forall. apply sorted_valid. exact H. Qed.

(* every later interval starts after the end of an earlier one *)
Lemma sorted_all_after t : forall x, ivs_sorted (x :: t) -> forall y, In y t -> snd x < fst y.
Proof.
  induction t as [|y t IH]; intros x Hs z Hin.
  - destruct Hin.
  - destruct Hs as (Hvx & Hxy & Hs'). destruct Hin as [<- | Hin].
    + exact Hxy.
    + pose proof (IH y Hs' z Hin) as H1.
      pose proof (sorted_head_valid _ _ Hs') as [H2 _]. lia.
Qed.

Lemma sorted_nth_valid l i s : ivs_sorted l -> nth_error l i = Some s -> cs_valid s.
Proof. intros Hs Hn. eapply sorted_valid; eauto. eapply nth_error_In; eauto. Qed.

(* strictly increasing: interval i ends before interval j starts whenever i < j *)
Lemma sorted_nth_lt l : ivs_sorted l -> forall i j s t, (i < j)%nat ->
  nth_error l i = Some s -> nth_error l j = Some t -> snd s < fst t.
Proof.
  induction l as [|x l IH]; intros Hs i j s t Hij Hi Hj.
  - destruct i; discriminate.
  - destruct j as [|j]; [lia|]. destruct i as [|i].
    + injection Hi as <-. simpl in Hj. eapply sorted_all_after; eauto. eapply nth_error_In; eauto.
    + simpl in Hi, Hj. eapply (IH (sorted_tail _ _ Hs) i j); eauto. lia.
Qed.

Lemma sorted_nth_start_lt l i j s t : ivs_sorted l -> (i < j)%nat ->
  nth_error l i = Some s -> nth_error l j = Some t -> fst s < fst t.
Proof.
  intros Hs Hij Hi Hj. pose proof (sorted_nth_lt l Hs i j s t Hij Hi Hj).
  pose proof (sorted_nth_valid l i s Hs Hi) as [? _]. lia.
Qed.

Lemma sorted_nth_end_lt l i j s t : ivs_sorted l -> (i < j)%nat ->
  nth_error l i = Some s -> nth_error l j = Some t -> snd s < snd t.
Proof.
  intros Hs Hij Hi Hj. pose proof (sorted_nth_lt l Hs i j s t Hij Hi Hj).
  pose proof (sorted_nth_valid l j t Hs Hj) as [? _]. lia.
Qed.

(* a character lies in at most one interval: same index *)
Lemma sorted_mem_unique_idx l i j s t x : ivs_sorted l ->
  nth_error l i = Some s -> nth_error l j = Some t -> mem x s -> mem x t -> i = j.
Proof.
  intros Hs Hi Hj [H1 H2] [H3 H4].
  destruct (Nat.lt_trichotomy i j) as [Hlt | [Heq | Hgt]]; auto; exfalso.
  - pose proof (sorted_nth_lt l Hs i j s t Hlt Hi Hj). lia.
  - pose proof (sorted_nth_lt l Hs j i t s Hgt Hj Hi). lia.
Qed.

(* ... and hence the same interval *)
Lemma sorted_mem_unique l s t x : ivs_sorted l -> In s l -> In t l -> mem x s -> mem x t -> s = t.
Proof.
  intros Hs Hi Hj Hx Hy.
  apply In_nth_error in Hi. destruct Hi as [i Hi].
  apply In_nth_error in Hj. destruct Hj as [j Hj].
  assert (i = j) by (eapply sorted_mem_unique_idx; eauto). subst j. congruence.
Qed.

(* two distinct intervals of a sorted list are disjoint *)
Lemma sorted_disjoint l i j s t : ivs_sorted l -> i <> j ->
  nth_error l i = Some s -> nth_error l j = Some t -> forall x, ~ (mem x s /\ mem x t).
Proof.
  intros Hs Hne Hi Hj x [Hx Hy]. apply Hne. eapply sorted_mem_unique_idx; eauto.
Qed.

Lemma sorted_pairwise_disjoint l : ivs_sorted l -> pairwise_disjoint l.
Proof.
  induction l as [|x t IH]; intros Hs; simpl; auto. split.
  - apply Forall_forall. intros y Hy z [[H1 H2] [H3 H4]].
    pose proof (sorted_all_after t x Hs y Hy). lia.
  - apply IH. eapply sorted_tail; eauto.
Qed.

Lemma sorted_app_before l1 : forall c l2, ivs_sorted (l1 ++ c :: l2) ->
  forall s, In s l1 -> snd s < fst c.
Proof.
  induction l1 as [|x l1 IH]; intros c l2 Hs s Hin.
  - destruct Hin.
  - destruct Hin as [<- | Hin].
    + simpl in Hs. eapply sorted_all_after; eauto. apply in_or_app. right. left. reflexivity.
    + eapply IH; eauto. simpl app in Hs. eapply sorted_tail; eauto.
Qed.

Lemma sorted_app_l l1 : forall l2, ivs_sorted (l1 ++ l2) -> ivs_sorted l1.
Proof.
  induction l1 as [|x l1 IH]; intros l2 Hs; [exact I|].
  simpl app in Hs. destruct Hs as (Hv & Hn & Hs). split; [exact Hv|]. split.
  - destruct l1 as [|y l1]; [exact I|]. exact Hn.
  - eapply IH; eauto.
Qed.

Lemma sorted_app_r l1 : forall l2, ivs_sorted (l1 ++ l2) -> ivs_sorted l2.
Proof.
  induction l1 as [|x l1 IH]; intros l2 Hs; [exact Hs|].
  apply IH. simpl app in Hs. eapply sorted_tail; eauto.
Qed.

(* appending an interval that starts after every end keeps the list sorted (push) *)
Lemma sorted_snoc l : forall c, ivs_sorted l -> cs_valid c -> (forall s, In s l -> snd s < fst c) ->
  ivs_sorted (l ++ [c]).
Proof.
  induction l as [|x t IH]; intros c Hs Hv Hlt.
  - simpl. auto.
  - simpl app. destruct Hs as (Hvx & Hn & Hs). split; [exact Hvx|]. split.
    + destruct t as [|y t]; simpl app.
      * apply Hlt. left. reflexivity.
      * exact Hn.
    + apply IH; auto. intros s Hin. apply Hlt. right. exact Hin.
Qed.

Lemma sorted_snoc_inv l c : ivs_sorted (l ++ [c]) ->
  ivs_sorted l /\ cs_valid c /\ forall s, In s l -> snd s < fst c.
Proof.
  intros Hs. split; [eapply sorted_app_l; eauto|]. split.
  - eapply sorted_valid; eauto. apply in_or_app. right. left. reflexivity.
  - eapply sorted_app_before; eauto.
Qed.

(* the last interval has the largest end *)
Lemma sorted_last_max l d : ivs_sorted l -> forall s, In s l -> snd s <= snd (last l d).
Proof.
  induction l as [|x t IH]; intros Hs s Hin.
  - destruct Hin.
  - destruct t as [|y t].
    + destruct Hin as [<- | []]. simpl. lia.
    + change (last (x :: y :: t) d) with (last (y :: t) d).
      destruct Hin as [<- | Hin].
      * pose proof (sorted_all_after _ _ Hs (last (y :: t) d)) as H1.
        assert (Hl : In (last (y :: t) d) (y :: t)).
        { clear. revert y. induction t as [|z t IHt]; intros y.
          - left. reflexivity.
          - right. change (last (y :: z :: t) d) with (last (z :: t) d). apply IHt. }
        specialize (H1 Hl).
        pose proof (sorted_valid _ Hs _ (or_intror Hl)) as [? _]. lia.
      * apply IH; auto. eapply sorted_tail; eauto.
Qed.

(* push's documented precondition (start > end of the last interval) in the "all ends" form *)
Lemma sorted_last_bound l a d : ivs_sorted l -> (l <> [] -> snd (last l d) < a) ->
  forall s, In s l -> snd s < a.
Proof.
  intros Hs Hl s Hin. pose proof (sorted_last_max l d Hs s Hin).
  assert (l <> []) by (intros ->; destruct Hin). specialize (Hl H0). lia.
Qed.

Lemma ivs_sortedb_iff l : ivs_sortedb l = true <-> ivs_sorted l.
Proof.
  induction l as [|x t IH]; simpl; [tauto|].
  rewrite !andb_true_iff, cs_validb_iff, IH.
  destruct t as [|y t]; [tauto|]. rewrite N.ltb_lt. tauto.
Qed.

(* two sorted lists with the same elements are equal *)
Lemma sorted_perm_eq l1 : forall l2, ivs_sorted l1 -> ivs_sorted l2 -> Permutation l1 l2 -> l1 = l2.
Proof.
  induction l1 as [|x t1 IH]; intros l2 H1 H2 HP.
  - apply Permutation_nil in HP. auto.
  - destruct l2 as [|y t2]; [apply Permutation_sym, Permutation_nil in HP; discriminate|].
    assert (Hxy : x = y).
    { assert (Hx : In x (y :: t2)) by (eapply Permutation_in; eauto; left; reflexivity).
      assert (Hy : In y (x :: t1)) by (eapply Permutation_in; [apply Permutation_sym; eauto|left; reflexivity]).
      destruct Hx as [Hx | Hx]; auto. destruct Hy as [Hy | Hy]; auto.
      pose proof (sorted_all_after _ _ H2 x Hx). pose proof (sorted_all_after _ _ H1 y Hy).
      pose proof (sorted_head_valid _ _ H1) as [? _]. pose proof (sorted_head_valid _ _ H2) as [? _]. lia. }
    subst y. f_equal. apply IH.
    + eapply sorted_tail; eauto.
    + eapply sorted_tail; eauto.
    + eapply Permutation_cons_inv; eauto.
Qed.

(* ------------------------------------------------------------------ covered *)

Lemma covered_nil x : ~ covered [] x.
Proof. intros [s [[] _]]. Qed.

Lemma covered_cons c l x : covered (c :: l) x <-> mem x c \/ covered l x.
Proof.
  split.
  - intros [s [[<- | Hin] Hm]]; [left; auto|right; exists s; auto].
  - intros [Hm | [s [Hin Hm]]]; [exists c; split; [left|]; auto|exists s; split; [right|]; auto].
Qed.

Lemma covered_app l1 l2 x : covered (l1 ++ l2) x <-> covered l1 x \/ covered l2 x.
Proof.
  split.
  - intros [s [Hin Hm]]. apply in_app_or in Hin. destruct Hin; [left|right]; exists s; auto.
  - intros [[s [Hin Hm]] | [s [Hin Hm]]]; exists s; split; auto; apply in_or_app; auto.
Qed.

Lemma covered_perm l l' x : Permutation l l' -> covered l x -> covered l' x.
Proof. intros HP [s [Hin Hm]]. exists s. split; auto. eapply Permutation_in; eauto. Qed.

Lemma coveredb_iff l x : coveredb l x = true <-> covered l x.
Proof.
  unfold coveredb, covered. rewrite existsb_exists.
  split; intros [s [Hin Hm]]; exists s; split; auto; apply contains_iff; auto.
Qed.

Lemma covered_dec l x : covered l x \/ ~ covered l x.
Proof.
  destruct (coveredb l x) eqn:E.
  - left. apply coveredb_iff. exact E.
  - right. intros H. apply coveredb_iff in H. congruence.
Qed.

Lemma covered_nth l x : covered l x <-> exists i s, nth_error l i = Some s /\ mem x s.
Proof.
  split.
  - intros [s [Hin Hm]]. apply In_nth_error in Hin. destruct Hin as [i Hi]. eauto.
  - intros [i [s [Hi Hm]]]. exists s. split; auto. eapply nth_error_In; eauto.
Qed.

(* a covered number is a good character when the intervals are valid *)
Lemma covered_good l x : ivs_sorted l -> covered l x -> good x.
Proof.
  intros Hs [s [Hin [_ H2]]]. pose proof (sorted_valid l Hs s Hin) as [_ H3]. unfold good. lia.
Qed.

(* ------------------------------------------------------------------ 2. the complement witness *)

Lemma wit_unique l w w' : wit_ok l w -> wit_ok l w' -> w = w'.
Proof.
  intros [H1 H2] [H3 H4].
  destruct (N.lt_trichotomy w w') as [Hlt | [Heq | Hgt]]; auto; exfalso.
  - apply H1. apply H4. exact Hlt.
  - apply H3. apply H2. exact Hgt.
Qed.

Lemma wit_perm l l' w : Permutation l l' -> wit_ok l w -> wit_ok l' w.
Proof.
  intros HP [H1 H2]. split.
  - intros H. apply H1. eapply covered_perm; [apply Permutation_sym|]; eauto.
  - intros x Hx. eapply covered_perm; eauto.
Qed.

Lemma wit_nil : wit_ok [] 0.
Proof. split; [apply covered_nil|]. intros x Hx. lia. Qed.

(* the witness update of push / try_from_iter *)
Lemma wit_push l w a b : wit_ok l w -> (forall s, In s l -> snd s < a) -> a <= b ->
  wit_ok (l ++ [(a, b)]) (if a <=? w then b + 1 else w).
Proof.
  intros [H1 H2] Hlt Hab. destruct (N.leb_spec a w) as [Haw | Haw].
  - assert (a = w).
    { destruct (N.eq_dec a w) as [|Hne]; auto. exfalso.
      destruct (H2 a ltac:(lia)) as [s [Hin [H3 H4]]]. specialize (Hlt s Hin). lia. }
    subst w. split.
    + rewrite covered_app. intros [[s [Hin [H3 H4]]] | [s [[<- | []] [H3 H4]]]].
      * specialize (Hlt s Hin). lia.
      * simpl in *. lia.
    + intros x Hx. rewrite covered_app. destruct (N.lt_ge_cases x a) as [Hxa | Hxa].
      * left. apply H2. exact Hxa.
      * right. exists (a, b). split; [left; reflexivity|]. unfold mem. simpl. lia.
  - split.
    + rewrite covered_app. intros [Hc | [s [[<- | []] [H3 H4]]]]; [auto|]. simpl in *. lia.
    + intros x Hx. rewrite covered_app. left. apply H2. exact Hx.
Qed.

(* the witness never exceeds MAX_CHAR + 1 *)
Lemma wit_le l w : ivs_sorted l -> wit_ok l w -> w <= MAXC + 1.
Proof.
  intros Hs [H1 H2]. destruct (N.le_gt_cases w (MAXC + 1)) as [|Hgt]; auto. exfalso.
  pose proof (covered_good l (MAXC + 1) Hs (H2 _ Hgt)) as Hg. unfold good in Hg. lia.
Qed.

(* ------------------------------------------------------------------ 3. new, from_set, push *)

Lemma pnew_wf : pwf pnew.
Proof. split; [exact I|exact wit_nil]. Qed.

Lemma pfrom_set_wf c : cs_valid c -> pwf (pfrom_set c).
Proof.
  intros Hv. destruct c as [a b]. unfold pfrom_set, pwf. simpl ivs. simpl wit. simpl fst. simpl snd.
  split; [simpl; auto|].
  pose proof (wit_push [] 0 a b wit_nil ltac:(intros s []) ltac:(apply Hv)) as H.
  simpl app in H. destruct (N.ltb_spec 0 a) as [Ha | Ha]; destruct (N.leb_spec a 0) as [Hb | Hb]; try lia; exact H.
Qed.

(* push under its documented precondition: start <= end <= MAX_CHAR and, if the partition is not
   empty, start larger than the end of the last interval *)
Lemma ppush_wf p a b : pwf p -> cs_valid (a, b) ->
  (ivs p <> [] -> snd (last (ivs p) (0, 0)) < a) -> pwf (ppush p a b).
Proof.
  intros [Hs Hw] Hv Hl. unfold ppush, pwf. simpl ivs. simpl wit.
  pose proof (sorted_last_bound (ivs p) a (0, 0) Hs Hl) as Hall. split.
  - apply sorted_snoc; auto.
  - apply wit_push; auto. apply Hv.
Qed.

Lemma ppush_ivs p a b : ivs (ppush p a b) = ivs p ++ [(a, b)].
Proof. reflexivity. Qed.

Lemma pwf_sorted p : pwf p -> ivs_sorted (ivs p).
Proof. intros [H _]. exact H. Qed.

Lemma pwf_wit p : pwf p -> wit_ok (ivs p) (wit p).
Proof. intros [_ H]. exact H. Qed.

Lemma ppush_covered p a b x : covered (ivs (ppush p a b)) x <-> covered (ivs p) x \/ mem x (a, b).
Proof.
  rewrite ppush_ivs, covered_app, covered_cons. split.
  - intros [H | [H | H]]; auto. exfalso. eapply covered_nil; eauto.
  - intros [H | H]; auto.
Qed.

(* a partition is determined by its intervals *)
Lemma pwf_ivs_eq p q : pwf p -> pwf q -> ivs p = ivs q -> p = q.
Proof.
  intros [_ Hp] [_ Hq] He. destruct p as [lp wp], q as [lq wq]. simpl in *. subst lq.
  f_equal. eapply wit_unique; eauto.
Qed.

(* ------------------------------------------------------------------ 4. try_from_iter *)

Definition le_start (x y : cs) : Prop := fst x <= fst y.

Lemma insert_perm x l : Permutation (x :: l) (insert_by_start x l).
Proof.
  induction l as [|y t IH]; simpl; [apply Permutation_refl|].
  destruct (fst x <=? fst y); [apply Permutation_refl|].
  eapply perm_trans; [apply perm_swap|]. apply perm_skip. exact IH.
Qed.

Lemma sort_perm l : Permutation l (sort_by_start l).
Proof.
  induction l as [|x t IH]; simpl; [apply perm_nil|].
  eapply perm_trans; [apply perm_skip; exact IH|]. apply insert_perm.
Qed.

Lemma insert_sorted x l : StronglySorted le_start l -> StronglySorted le_start (insert_by_start x l).
Proof.
  induction l as [|y t IH]; intros Hs; simpl.
  - constructor; constructor.
  - destruct (N.leb_spec (fst x) (fst y)) as [Hxy | Hxy].
    + constructor; auto. constructor; auto.
      apply StronglySorted_inv in Hs. destruct Hs as [_ Hf].
      eapply Forall_impl; [|exact Hf]. intros z Hz. unfold le_start in *. lia.
    + apply StronglySorted_inv in Hs. destruct Hs as [Hs Hf]. constructor; auto.
      eapply Permutation_Forall; [apply insert_perm|]. constructor; auto. unfold le_start. lia.
Qed.

Lemma sort_sorted l : StronglySorted le_start (sort_by_start l).
Proof. induction l as [|x t IH]; simpl; [constructor|]. apply insert_sorted. exact IH. Qed.

Lemma pairwise_disjoint_perm l l' : Permutation l l' -> pairwise_disjoint l -> pairwise_disjoint l'.
Proof.
  induction 1 as [| x l l' HP IH | x y l | l l' l'' HP1 IH1 HP2 IH2]; intros Hd.
  - exact I.
  - destruct Hd as [Hf Hd]. split; [|auto]. eapply Permutation_Forall; eauto.
  - destruct Hd as [Hf1 [Hf2 Hd]]. pose proof (Forall_inv Hf1) as Hxy.
    pose proof (Forall_inv_tail Hf1) as Hxl. simpl. split; [|split; auto].
    constructor; auto. intros z [Hz1 Hz2]. apply (Hxy z). auto.
  - auto.
Qed.

(* for valid sets sorted by start, pairwise disjoint = sorted in the partition sense *)
Lemma disjoint_sorted l : StronglySorted le_start l -> Forall cs_valid l -> pairwise_disjoint l ->
  ivs_sorted l.
Proof.
  induction l as [|x t IH]; intros Hs Hv Hd; [exact I|].
  apply StronglySorted_inv in Hs. destruct Hs as [Hs Hf].
  pose proof (Forall_inv Hv) as Hvx. pose proof (Forall_inv_tail Hv) as Hvt. destruct Hd as [Hdx Hd].
  split; [auto|]. split; [|apply IH; auto].
  destruct t as [|y t]; [exact I|].
  pose proof (Forall_inv Hf) as Hxy. pose proof (Forall_inv Hdx) as Hdxy. pose proof (Forall_inv Hvt) as Hvy.
  unfold le_start in Hxy. cbv beta in Hdxy.
  destruct (N.lt_ge_cases (snd x) (fst y)) as [|Hge]; auto. exfalso.
  apply (Hdxy (fst y)). destruct Hvx, Hvy. unfold mem. lia.
Qed.

(* the scan succeeds exactly when consecutive sets do not touch *)
Lemma scan_ok_iff l : forall prev w, Forall cs_valid (prev :: l) ->
  ((exists w', scan_sorted prev w l = Some w') <-> ivs_sorted (prev :: l)).
Proof.
  induction l as [|c t IH]; intros prev w Hv.
  - simpl. inv Hv. split; eauto.
  - inv Hv. cbn [scan_sorted]. destruct (N.leb_spec (fst c) (snd prev)) as [Hle | Hgt].
    + split; [intros [w' Hw]; discriminate|]. intros (_ & Hlt & _). lia.
    + rewrite IH by exact H2. split.
      * intros Hs. split; auto.
      * intros (_ & _ & Hs). exact Hs.
Qed.

(* ... and then computes the witness *)
Lemma scan_wit l : forall pre prev w w', ivs_sorted (pre ++ prev :: l) -> wit_ok (pre ++ [prev]) w ->
  scan_sorted prev w l = Some w' -> wit_ok (pre ++ prev :: l) w'.
Proof.
  induction l as [|c t IH]; intros pre prev w w' Hs Hw Hscan.
  - simpl in Hscan. injection Hscan as <-. exact Hw.
  - cbn [scan_sorted] in Hscan. destruct (fst c <=? snd prev); [discriminate|].
    replace (pre ++ prev :: c :: t) with ((pre ++ [prev]) ++ c :: t) in * by (rewrite <- app_assoc; reflexivity).
    eapply IH; eauto. destruct c as [a b]. simpl fst. simpl snd. apply wit_push; auto.
    + intros s Hin. change a with (fst (a, b)). eapply sorted_app_before; eauto.
    + apply sorted_app_r in Hs. apply sorted_head_valid in Hs. apply Hs.
Qed.

Lemma ptry_from_list_ok_sorted l : Forall cs_valid l ->
  ((exists p, ptry_from_list l = Some p) <-> ivs_sorted (sort_by_start l)).
Proof.
  intros Hv. unfold ptry_from_list.
  assert (Hv' : Forall cs_valid (sort_by_start l)) by (eapply Permutation_Forall; [apply sort_perm|exact Hv]).
  destruct (sort_by_start l) as [|c0 t]; [split; eauto; intros; exact I|].
  rewrite <- (scan_ok_iff t c0 (if fst c0 <=? 0 then snd c0 + 1 else 0) Hv').
  destruct (scan_sorted c0 _ t) as [w|]; split; eauto; intros [? ?]; discriminate.
Qed.

(* try_from_iter succeeds exactly on pairwise disjoint inputs *)
Lemma ptry_from_list_ok_iff l : Forall cs_valid l ->
  ((exists p, ptry_from_list l = Some p) <-> pairwise_disjoint l).
Proof.
  intros Hv. rewrite (ptry_from_list_ok_sorted l Hv). split.
  - intros Hs. eapply pairwise_disjoint_perm; [apply Permutation_sym, sort_perm|].
    apply sorted_pairwise_disjoint. exact Hs.
  - intros Hd. apply disjoint_sorted.
    + apply sort_sorted.
    + eapply Permutation_Forall; [apply sort_perm|exact Hv].
    + eapply pairwise_disjoint_perm; [apply sort_perm|exact Hd].
Qed.

Lemma ptry_from_list_none_iff l : Forall cs_valid l ->
  (ptry_from_list l = None <-> ~ pairwise_disjoint l).
Proof.
  intros Hv. rewrite <- (ptry_from_list_ok_iff l Hv).
  destruct (ptry_from_list l); split; eauto; try discriminate.
  - intros H. exfalso. apply H. eauto.
  - intros _ [p Hp]. discriminate.
Qed.

(* the result is a well-formed partition whose intervals are the input sets *)
Lemma ptry_from_list_wf l p : Forall cs_valid l -> ptry_from_list l = Some p ->
  pwf p /\ Permutation l (ivs p).
Proof.
  intros Hv Hp.
  assert (Hs : ivs_sorted (sort_by_start l)) by (apply ptry_from_list_ok_sorted; eauto).
  unfold ptry_from_list in Hp. pose proof (sort_perm l) as HP.
  destruct (sort_by_start l) as [|c0 t].
  - injection Hp as <-. split; [exact pnew_wf|exact HP].
  - destruct (scan_sorted c0 _ t) as [w|] eqn:Hscan; [|discriminate]. injection Hp as <-.
    split; [|exact HP]. split; [exact Hs|]. simpl ivs. simpl wit.
    eapply (scan_wit t [] c0); [exact Hs| |exact Hscan].
    destruct c0 as [a b]. simpl fst. simpl snd. simpl app.
    apply (wit_push [] 0 a b wit_nil); [intros s []|].
    apply sorted_head_valid in Hs. apply Hs.
Qed.

Lemma ptry_from_list_ivs l p : ptry_from_list l = Some p -> ivs p = sort_by_start l.
Proof.
  unfold ptry_from_list. destruct (sort_by_start l) as [|c0 t].
  - intros H. injection H as <-. reflexivity.
  - destruct (scan_sorted c0 _ t); [|discriminate]. intros H. injection H as <-. reflexivity.
Qed.

(* the result does not depend on the order of the input *)
Lemma ptry_from_list_perm l l' : Forall cs_valid l -> Permutation l l' ->
  ptry_from_list l = ptry_from_list l'.
Proof.
  intros Hv HP.
  assert (Hv' : Forall cs_valid l') by (eapply Permutation_Forall; eauto).
  destruct (ptry_from_list l) as [p|] eqn:E1; destruct (ptry_from_list l') as [q|] eqn:E2; auto.
  - destruct (ptry_from_list_wf l p Hv E1) as [Hp HPp].
    destruct (ptry_from_list_wf l' q Hv' E2) as [Hq HPq].
    f_equal. apply pwf_ivs_eq; auto. apply sorted_perm_eq; [apply Hp|apply Hq|].
    eapply perm_trans; [apply Permutation_sym; exact HPp|]. eapply perm_trans; [exact HP|exact HPq].
  - exfalso. apply (ptry_from_list_none_iff l' Hv') in E2. apply E2.
    eapply pairwise_disjoint_perm; eauto. apply ptry_from_list_ok_iff; eauto.
  - exfalso. apply (ptry_from_list_none_iff l Hv) in E1. apply E1.
    eapply pairwise_disjoint_perm; [apply Permutation_sym; eauto|]. apply ptry_from_list_ok_iff; eauto.
Qed.

(* membership in the result = membership in some input set *)
Lemma ptry_from_list_covered l p x : Forall cs_valid l -> ptry_from_list l = Some p ->
  (covered (ivs p) x <-> covered l x).
Proof.
  intros Hv Hp. destruct (ptry_from_list_wf l p Hv Hp) as [_ HP].
  split; apply covered_perm; [apply Permutation_sym|]; exact HP.
Qed.

(* ------------------------------------------------------------------ 5. class_of_char *)

(* what the binary search returns, on the bare list *)
Definition class_res_ok (l : list cs) (x : N) (c : classid) : Prop :=
  match c with
  | CInt h => exists s, nth_error l h = Some s /\ mem x s
  | CComp => ~ covered l x
  end.

Lemma half_bounds i j : (i < j)%nat -> (i <= i + (j - i) / 2 < j)%nat.
Proof.
  intros H. assert ((j - i) / 2 < j - i)%nat by (apply Nat.div_lt; lia). lia.
Qed.

Lemma half_bounds_strict i j : (S i < j)%nat -> (i < i + (j - i) / 2 < j)%nat.
Proof.
  intros H. assert ((j - i) / 2 < j - i)%nat by (apply Nat.div_lt; lia).
  assert (1 <= (j - i) / 2)%nat by (apply Nat.div_le_lower_bound; lia). lia.
Qed.

Lemma nth_error_in_range {A} (l : list A) h : (h < length l)%nat -> exists s, nth_error l h = Some s.
Proof.
  intros H. destruct (nth_error l h) as [s|] eqn:E; eauto.
  apply nth_error_None in E. lia.
Qed.

(* loop invariant: everything left of i ends before x, everything from j on starts after x;
   the fuel exceeds j - i, so the search never runs out of fuel and never indexes out of bounds *)
Lemma bs_char_spec : forall fuel l x i j, ivs_sorted l -> (i <= j <= length l)%nat -> (j - i < fuel)%nat ->
  (forall k s, (k < i)%nat -> nth_error l k = Some s -> snd s < x) ->
  (forall k s, (j <= k)%nat -> nth_error l k = Some s -> x < fst s) ->
  exists c, bs_char fuel l x i j = Some c /\ class_res_ok l x c.
Proof.
  induction fuel as [|f IH]; intros l x i j Hs Hij Hf Hleft Hright; [lia|].
  cbn [bs_char]. destruct (Nat.ltb_spec i j) as [Hlt | Hge].
  - cbv zeta. pose proof (half_bounds i j Hlt) as Hh.
    set (h := (i + (j - i) / 2)%nat) in *.
    destruct (nth_error_in_range l h ltac:(lia)) as [s Hn]. rewrite Hn. cbn [bind].
    destruct (cs_contains s x) eqn:Hc.
    + exists (CInt h). split; auto. exists s. split; auto. apply contains_iff. exact Hc.
    + assert (Hnm : ~ mem x s) by (rewrite <- contains_iff; congruence).
      unfold cs_is_before. destruct (N.ltb_spec (snd s) x) as [Hb | Hb].
      * apply IH; auto; try lia. intros k sk Hk Hnk.
        destruct (Nat.eq_dec k h) as [-> | Hne]; [congruence|].
        pose proof (sorted_nth_end_lt l k h sk s Hs ltac:(lia) Hnk Hn). lia.
      * apply IH; auto; try lia. intros k sk Hk Hnk.
        assert (Hxs : x < fst s) by (unfold mem in Hnm; lia).
        destruct (Nat.eq_dec k h) as [-> | Hne]; [congruence|].
        pose proof (sorted_nth_start_lt l h k s sk Hs ltac:(lia) Hn Hnk). lia.
  - exists CComp. split; auto. intros Hc. apply covered_nth in Hc.
    destruct Hc as [k [s [Hn [H1 H2]]]].
    destruct (Nat.lt_ge_cases k i) as [Hk | Hk].
    + specialize (Hleft k s Hk Hn). lia.
    + specialize (Hright k s ltac:(lia) Hn). lia.
Qed.

(* class_of_char never panics and finds the interval that contains x, or reports that there is none *)
Lemma pclass_of_char_res p x : ivs_sorted (ivs p) ->
  exists c, pclass_of_char p x = Some c /\ class_res_ok (ivs p) x c.
Proof.
  intros Hs. unfold pclass_of_char, plen. apply bs_char_spec; auto; try lia.
  intros k s Hk Hn. assert (Hne : nth_error (ivs p) k <> None) by congruence.
  apply nth_error_Some in Hne. lia.
Qed.

Lemma pclass_of_char_total p x : ivs_sorted (ivs p) -> pclass_of_char p x <> None.
Proof. intros Hs. destruct (pclass_of_char_res p x Hs) as [c [Hc _]]. congruence. Qed.

Lemma class_res_in_class p x c : good x -> class_res_ok (ivs p) x c -> in_class p x c.
Proof. intros Hg. destruct c; simpl; auto. Qed.

Lemma in_class_res p x c : in_class p x c -> class_res_ok (ivs p) x c.
Proof. destruct c; simpl; auto. intros [_ H]. exact H. Qed.

(* a character is in exactly one class *)
Lemma in_class_fun p x c c' : ivs_sorted (ivs p) -> in_class p x c -> in_class p x c' -> c = c'.
Proof.
  intros Hs H1 H2. destruct c as [i|], c' as [j|]; auto.
  - destruct H1 as [s [Hi Hx]], H2 as [t [Hj Hy]]. f_equal. eapply sorted_mem_unique_idx; eauto.
  - destruct H1 as [s [Hi Hx]], H2 as [_ Hn]. exfalso. apply Hn. apply covered_nth. eauto.
  - destruct H2 as [s [Hi Hx]], H1 as [_ Hn]. exfalso. apply Hn. apply covered_nth. eauto.
Qed.

Lemma in_class_exists p x : good x -> exists c, in_class p x c.
Proof.
  intros Hg. destruct (covered_dec (ivs p) x) as [Hc | Hc].
  - apply covered_nth in Hc. destruct Hc as [i [s [Hi Hm]]]. exists (CInt i). simpl. eauto.
  - exists CComp. simpl. auto.
Qed.

Lemma in_class_good p x c : ivs_sorted (ivs p) -> in_class p x c -> good x.
Proof.
  intros Hs. destruct c as [i|]; simpl.
  - intros [s [Hi Hm]]. eapply covered_good; eauto. apply covered_nth. eauto.
  - tauto.
Qed.

Lemma pclass_of_char_sound p x c : ivs_sorted (ivs p) -> good x ->
  pclass_of_char p x = Some c -> in_class p x c.
Proof.
  intros Hs Hg Hc. destruct (pclass_of_char_res p x Hs) as [c' [Hc' Hr]].
  assert (c' = c) by congruence. subst c'. apply class_res_in_class; auto.
Qed.

Lemma pclass_of_char_complete p x c : ivs_sorted (ivs p) -> in_class p x c ->
  pclass_of_char p x = Some c.
Proof.
  intros Hs Hin. destruct (pclass_of_char_res p x Hs) as [c' [Hc' Hr]]. rewrite Hc'. f_equal.
  pose proof (in_class_good p x c Hs Hin) as Hg.
  eapply in_class_fun; eauto. apply class_res_in_class; auto.
Qed.

Lemma pclass_of_char_iff p x c : ivs_sorted (ivs p) -> good x ->
  (pclass_of_char p x = Some c <-> in_class p x c).
Proof.
  intros Hs Hg. split; [apply pclass_of_char_sound|apply pclass_of_char_complete]; auto.
Qed.

(* ------------------------------------------------------------------ 6. interval_cover *)

(* loop invariant of the second binary search: everything from j on starts after x, and interval i
   starts at or before x unless i = 0; the result is the largest such index (or 0) *)
Lemma bs_cover_spec : forall fuel l x i j, ivs_sorted l -> (i < j <= length l)%nat -> (j - i <= fuel)%nat ->
  (forall k s, (j <= k)%nat -> nth_error l k = Some s -> x < fst s) ->
  (i = 0%nat \/ exists s, nth_error l i = Some s /\ fst s <= x) ->
  exists r, bs_cover fuel l x i j = Some r /\ (r < length l)%nat /\
    (forall k s, (r < k)%nat -> nth_error l k = Some s -> x < fst s) /\
    (r = 0%nat \/ exists s, nth_error l r = Some s /\ fst s <= x).
Proof.
  induction fuel as [|f IH]; intros l x i j Hs Hij Hf Hright Hleft; [lia|].
  cbn [bs_cover]. destruct (Nat.ltb_spec (S i) j) as [Hlt | Hge].
  - cbv zeta. pose proof (half_bounds_strict i j Hlt) as Hh.
    set (h := (i + (j - i) / 2)%nat) in *.
    destruct (nth_error_in_range l h ltac:(lia)) as [s Hn]. rewrite Hn. cbn [bind].
    destruct (N.leb_spec (fst s) x) as [Hle | Hgt].
    + apply IH; auto; try lia. right. eauto.
    + apply IH; auto; try lia. intros k sk Hk Hnk.
      destruct (Nat.eq_dec k h) as [-> | Hne]; [assert (sk = s) by congruence; subst; lia|].
      pose proof (sorted_nth_start_lt l h k s sk Hs ltac:(lia) Hn Hnk). lia.
  - exists i. split; auto. split; [lia|]. split; auto.
    intros k s Hk Hn. apply (Hright k s); auto. lia.
Qed.

Lemma pget_nth p i s : nth_error (ivs p) i = Some s -> pget p i = s.
Proof. intros H. unfold pget. apply nth_error_nth. exact H. Qed.

Lemma pget_out p i : (plen p <= i)%nat -> pget p i = (SENT, SENT).
Proof. intros H. unfold pget. apply nth_overflow. exact H. Qed.

Lemma nth_error_lt_len {A} (l : list A) k s : nth_error l k = Some s -> (k < length l)%nat.
Proof. intros H. apply nth_error_Some. congruence. Qed.

(* a non-empty set lies inside at most one interval, and then it is not disjoint from all *)
Lemma set_inside_unique p s i j : ivs_sorted (ivs p) -> cs_valid s ->
  set_inside p s i -> set_inside p s j -> i = j.
Proof.
  intros Hs [Hv _] [t [Hi Ht]] [t' [Hj Ht']].
  assert (Hm : mem (fst s) s) by (unfold mem; lia).
  eapply sorted_mem_unique_idx; eauto.
Qed.

Lemma set_inside_not_disjoint p s i : cs_valid s -> set_inside p s i -> ~ set_disjoint p s.
Proof.
  intros [Hv _] [t [Hi Ht]] Hd.
  assert (Hm : mem (fst s) s) by (unfold mem; lia).
  apply (Hd _ Hm). apply covered_nth. eauto.
Qed.

Lemma pinterval_cover_sound p s : ivs_sorted (ivs p) -> cs_valid s ->
  exists c, pinterval_cover p s = Some c /\
    match c with
    | CoveredBy i => set_inside p s i
    | DisjointFromAll => set_disjoint p s
    | Overlaps => (forall i, ~ set_inside p s i) /\ ~ set_disjoint p s
    end.
Proof.
  intros Hs Hv. destruct s as [a b]. destruct Hv as [Hab Hb]. simpl fst in *. simpl snd in *.
  unfold pinterval_cover. simpl fst. simpl snd.
  destruct (Nat.eq_dec (plen p) 0) as [Hz | Hnz].
  - (* empty partition *)
    rewrite Hz. cbn [bs_cover Nat.ltb Nat.leb bind]. rewrite (pget_out p 0) by lia.
    unfold SENT. destruct (N.ltb_spec a (MAXC + 1)); [|lia]. destruct (N.ltb_spec b (MAXC + 1)); [|lia].
    eexists. split; [reflexivity|]. intros x _ [t [Hin _]].
    unfold plen in Hz. apply length_zero_iff_nil in Hz. rewrite Hz in Hin. destruct Hin.
  - destruct (bs_cover_spec (S (plen p)) (ivs p) a 0 (plen p) Hs) as [r [Hr [Hrl [Hright Hleft]]]];
      unfold plen in *; try lia; auto.
    { intros k s Hk Hn. apply nth_error_lt_len in Hn. lia. }
    rewrite Hr. cbn [bind].
    destruct (nth_error_in_range (ivs p) r Hrl) as [sr Hnr]. rewrite (pget_nth p r sr Hnr).
    destruct sr as [ai bi].
    pose proof (sorted_nth_valid _ _ _ Hs Hnr) as [Hvr _]. simpl fst in Hvr. simpl snd in Hvr.
    assert (Hleft' : r = 0%nat \/ ai <= a).
    { destruct Hleft as [? | [s' [Hn' Hle]]]; auto. right. rewrite Hnr in Hn'. injection Hn' as <-. exact Hle. }
    clear Hleft.
    (* intervals before r end before bi *)
    assert (Hbefore : forall k s, (k < r)%nat -> nth_error (ivs p) k = Some s -> snd s < ai).
    { intros k s Hk Hn. apply (sorted_nth_lt _ Hs k r s (ai, bi) Hk Hn Hnr). }
    eexists. split; [reflexivity|].
    destruct (N.ltb_spec a ai) as [Ha | Ha].
    + (* a < a_r, hence r = 0 and a is below every start *)
      assert (r = 0%nat) by (destruct Hleft'; auto; lia). subst r.
      assert (Hall : forall k s, nth_error (ivs p) k = Some s -> a < fst s).
      { intros k s Hn. destruct k as [|k]; [rewrite Hnr in Hn; injection Hn as <-; exact Ha|].
        apply (Hright (S k) s); auto. lia. }
      destruct (N.ltb_spec b ai) as [Hb' | Hb'].
      * intros x [Hx1 Hx2] Hc. simpl in Hx1, Hx2. apply covered_nth in Hc.
        destruct Hc as [k [s [Hn [Hm1 Hm2]]]]. destruct k as [|k].
        -- rewrite Hnr in Hn. injection Hn as <-. simpl in *. lia.
        -- pose proof (sorted_nth_start_lt _ 0 (S k) _ _ Hs ltac:(lia) Hnr Hn). simpl in *. lia.
      * split.
        -- intros i [t [Hi Ht]]. specialize (Hall i t Hi).
           assert (Hm : mem a (a, b)) by (unfold mem; simpl; lia).
           apply Ht in Hm. destruct Hm. lia.
        -- intros Hd. apply (Hd ai); [unfold mem; simpl; lia|].
           apply covered_nth. exists 0%nat, (ai, bi). split; auto. unfold mem. simpl. lia.
    + destruct (N.leb_spec a bi) as [Hai | Hai].
      * (* a inside interval r *)
        assert (Hma : mem a (ai, bi)) by (unfold mem; simpl; lia).
        destruct (N.leb_spec b bi) as [Hbi | Hbi].
        -- exists (ai, bi). split; auto. intros x [Hx1 Hx2]. unfold mem. simpl in *. lia.
        -- split.
           ++ intros i [t [Hi Ht]].
              assert (Hm : mem a (a, b)) by (unfold mem; simpl; lia).
              assert (Hmb : mem b (a, b)) by (unfold mem; simpl; lia).
              pose proof (Ht _ Hm) as Hmt.
              assert (i = r) by (eapply sorted_mem_unique_idx; eauto). subst i.
              rewrite Hnr in Hi. injection Hi as <-. apply Ht in Hmb. destruct Hmb. simpl in *. lia.
           ++ intros Hd. apply (Hd a); [unfold mem; simpl; lia|].
              apply covered_nth. eauto.
      * (* a in the gap after interval r *)
        assert (Hnc : ~ covered (ivs p) a).
        { intros Hc. apply covered_nth in Hc. destruct Hc as [k [s [Hn [Hm1 Hm2]]]].
          destruct (Nat.lt_trichotomy k r) as [Hk | [-> | Hk]].
          - pose proof (sorted_nth_end_lt _ k r _ _ Hs Hk Hn Hnr). simpl in *. lia.
          - rewrite Hnr in Hn. injection Hn as <-. simpl in *. lia.
          - specialize (Hright k s Hk Hn). lia. }
        unfold pstart.
        destruct (N.ltb_spec b (fst (pget p (S r)))) as [Hnext | Hnext].
        -- intros x [Hx1 Hx2] Hc. simpl in Hx1, Hx2. apply covered_nth in Hc.
           destruct Hc as [k [s [Hn [Hm1 Hm2]]]].
           destruct (Nat.le_gt_cases k r) as [Hk | Hk].
           ++ assert (snd s <= bi).
              { destruct (Nat.eq_dec k r) as [-> | Hne].
                - rewrite Hnr in Hn. injection Hn as <-. simpl. lia.
                - pose proof (sorted_nth_end_lt _ k r _ _ Hs ltac:(lia) Hn Hnr). simpl in *. lia. }
              lia.
           ++ pose proof (nth_error_lt_len _ _ _ Hn) as Hkl.
              destruct (nth_error_in_range (ivs p) (S r) ltac:(lia)) as [t Hnt].
              rewrite (pget_nth p (S r) t Hnt) in Hnext.
              assert (fst t <= fst s).
              { destruct (Nat.eq_dec k (S r)) as [-> | Hne].
                - rewrite Hnt in Hn. injection Hn as <-. lia.
                - pose proof (sorted_nth_start_lt _ (S r) k _ _ Hs ltac:(lia) Hnt Hn). lia. }
              lia.
        -- split.
           ++ intros i [t [Hi Ht]]. apply Hnc. apply covered_nth. exists i, t. split; auto.
              apply Ht. unfold mem. simpl. lia.
           ++ destruct (Nat.le_gt_cases (length (ivs p)) (S r)) as [Hout | Hin].
              ** rewrite (pget_out p (S r)) in Hnext by exact Hout. unfold SENT, MAXC in *. simpl fst in Hnext. lia.
              ** destruct (nth_error_in_range (ivs p) (S r) Hin) as [t Hnt].
                 rewrite (pget_nth p (S r) t Hnt) in Hnext.
                 pose proof (Hright (S r) t ltac:(lia) Hnt) as Hat.
                 pose proof (sorted_nth_valid _ _ _ Hs Hnt) as [Hvt _].
                 intros Hd. apply (Hd (fst t)); [unfold mem; simpl; lia|].
                 apply covered_nth. exists (S r), t. split; auto. unfold mem. lia.
Qed.

(* interval_cover never panics and its three answers are exact *)
Lemma pinterval_cover_spec p s : ivs_sorted (ivs p) -> cs_valid s ->
  exists c, pinterval_cover p s = Some c /\
    (forall i, c = CoveredBy i <-> set_inside p s i) /\
    (c = DisjointFromAll <-> set_disjoint p s) /\
    (c = Overlaps <-> (forall i, ~ set_inside p s i) /\ ~ set_disjoint p s).
Proof.
  intros Hs Hv. destruct (pinterval_cover_sound p s Hs Hv) as [c [Hc Hm]].
  exists c. split; auto. destruct c as [i | |].
  - split; [|split].
    + intros j. split.
      * intros H. injection H as <-. exact Hm.
      * intros H. f_equal. eapply set_inside_unique; eauto.
    + split; [discriminate|]. intros Hd. exfalso. eapply set_inside_not_disjoint; eauto.
    + split; [discriminate|]. intros [Hn _]. exfalso. eapply Hn; eauto.
  - split; [|split].
    + intros j. split; [discriminate|]. intros H. exfalso. eapply set_inside_not_disjoint; eauto.
    + tauto.
    + split; [discriminate|]. intros [_ Hn]. exfalso. auto.
  - destruct Hm as [Hn Hd]. split; [|split].
    + intros j. split; [discriminate|]. intros H. exfalso. eapply Hn; eauto.
    + split; [discriminate|]. intros H. exfalso. auto.
    + tauto.
Qed.

Lemma pinterval_cover_total p s : ivs_sorted (ivs p) -> cs_valid s -> pinterval_cover p s <> None.
Proof. intros Hs Hv. destruct (pinterval_cover_sound p s Hs Hv) as [c [Hc _]]. congruence. Qed.

(* the class of a set: every member is in that class *)
Definition set_in_class (p : part) (s : cs) (c : classid) : Prop := forall x, mem x s -> in_class p x c.

Lemma set_inside_in_class p s i : cs_valid s -> (set_inside p s i <-> set_in_class p s (CInt i)).
Proof.
  intros [Hv _]. split.
  - intros [t [Hi Ht]] x Hx. exists t. auto.
  - intros H. assert (Hm : mem (fst s) s) by (unfold mem; lia).
    destruct (H _ Hm) as [t [Hi _]]. exists t. split; auto.
    intros x Hx. destruct (H _ Hx) as [t' [Hi' Hm']]. congruence.
Qed.

Lemma set_disjoint_in_class p s : cs_valid s -> (set_disjoint p s <-> set_in_class p s CComp).
Proof.
  intros [_ Hv]. split.
  - intros H x Hx. split; [|auto]. destruct Hx. unfold good. lia.
  - intros H x Hx. apply (H x Hx).
Qed.

Lemma pclass_of_set_spec p s : ivs_sorted (ivs p) -> cs_valid s ->
  exists r, pclass_of_set p s = Some r /\
    (forall i, r = Some (CInt i) <-> set_inside p s i) /\
    (r = Some CComp <-> set_disjoint p s) /\
    (r = None <-> (forall i, ~ set_inside p s i) /\ ~ set_disjoint p s).
Proof.
  intros Hs Hv. destruct (pinterval_cover_spec p s Hs Hv) as [c [Hc [H1 [H2 H3]]]].
  unfold pclass_of_set. rewrite Hc. cbn [bind]. eexists. split; [reflexivity|].
  split; [|split].
  - intros i. rewrite <- H1. destruct c; split; intros H; try discriminate; congruence.
  - rewrite <- H2. destruct c; split; intros H; try discriminate; congruence.
  - rewrite <- H3. destruct c; split; intros H; try discriminate; congruence.
Qed.

(* class_of_set returns class c exactly when all members of the set are in class c *)
Lemma pclass_of_set_classes p s c : ivs_sorted (ivs p) -> cs_valid s ->
  (pclass_of_set p s = Some (Some c) <-> set_in_class p s c).
Proof.
  intros Hs Hv. destruct (pclass_of_set_spec p s Hs Hv) as [r [Hr [H1 [H2 H3]]]]. rewrite Hr.
  destruct c as [i|].
  - rewrite <- set_inside_in_class by exact Hv. rewrite <- H1. split; congruence.
  - rewrite <- set_disjoint_in_class by exact Hv. rewrite <- H2. split; congruence.
Qed.

Lemma pgood_char_set_spec p s : ivs_sorted (ivs p) -> cs_valid s ->
  exists b, pgood_char_set p s = Some b /\
    (b = true <-> (exists i, set_inside p s i) \/ set_disjoint p s).
Proof.
  intros Hs Hv. destruct (pinterval_cover_spec p s Hs Hv) as [c [Hc [H1 [H2 H3]]]].
  unfold pgood_char_set. rewrite Hc. cbn [bind]. eexists. split; [reflexivity|].
  destruct c as [i | |].
  - split; auto. intros _. left. exists i. apply H1. reflexivity.
  - split; auto. intros _. right. apply H2. reflexivity.
  - split; [discriminate|]. destruct H3 as [H3 _]. destruct (H3 eq_refl) as [Hn Hd].
    intros [[i Hi] | Hd']; exfalso; [eapply Hn; eauto|auto].
Qed.

(* good_char_set: the set lies within one class *)
Lemma pgood_char_set_classes p s : ivs_sorted (ivs p) -> cs_valid s ->
  (pgood_char_set p s = Some true <-> exists c, set_in_class p s c).
Proof.
  intros Hs Hv. destruct (pgood_char_set_spec p s Hs Hv) as [b [Hb Hiff]]. rewrite Hb. split.
  - intros H. injection H as ->. destruct Hiff as [Hiff _]. destruct (Hiff eq_refl) as [[i Hi] | Hd].
    + exists (CInt i). apply set_inside_in_class; auto.
    + exists CComp. apply set_disjoint_in_class; auto.
  - intros [c Hc]. f_equal. apply Hiff. destruct c as [i|].
    + left. exists i. apply set_inside_in_class; auto.
    + right. apply set_disjoint_in_class; auto.
Qed.

(* ------------------------------------------------------------------ 7. complement, class ids, picks *)

(* the complement witness is the least number outside all intervals, and at most MAX_CHAR + 1 *)
Lemma wit_least p : pwf p ->
  ~ covered (ivs p) (wit p) /\ (forall x, x < wit p -> covered (ivs p) x) /\ wit p <= MAXC + 1.
Proof.
  intros [Hs Hw]. destruct Hw as [H1 H2]. split; auto. split; auto.
  apply (wit_le (ivs p)); auto. split; auto.
Qed.

Lemma pempty_complement_iff p : pwf p ->
  (pempty_complement p = true <-> forall x, good x -> covered (ivs p) x).
Proof.
  intros Hp. destruct (wit_least p Hp) as [H1 [H2 H3]]. unfold pempty_complement. rewrite N.ltb_lt. split.
  - intros Hlt x Hg. apply H2. unfold good in Hg. lia.
  - intros Hall. destruct (N.lt_ge_cases MAXC (wit p)) as [|Hle]; auto. exfalso.
    apply H1. apply Hall. exact Hle.
Qed.

Lemma pempty_complement_wit p : pwf p -> (pempty_complement p = true <-> wit p = MAXC + 1).
Proof.
  intros Hp. destruct (wit_least p Hp) as [_ [_ H3]]. unfold pempty_complement. rewrite N.ltb_lt. lia.
Qed.

(* pick_complement: the least member of the complementary class, or MAX_CHAR + 1 if it is empty *)
Lemma ppick_complement_spec p : pwf p ->
  (pempty_complement p = true -> ppick_complement p = MAXC + 1) /\
  (pempty_complement p = false ->
     in_class p (ppick_complement p) CComp /\ forall y, in_class p y CComp -> ppick_complement p <= y).
Proof.
  intros Hp. destruct (wit_least p Hp) as [H1 [H2 H3]]. unfold ppick_complement. split.
  - apply pempty_complement_wit. exact Hp.
  - unfold pempty_complement. rewrite N.ltb_ge. intros Hle. split.
    + split; auto.
    + intros y [_ Hy]. destruct (N.le_gt_cases (wit p) y) as [|Hlt]; auto. exfalso. auto.
Qed.

(* a class id is valid exactly when its class is not empty *)
Lemma pvalid_iff p c : pwf p -> (pvalid p c = true <-> exists x, good x /\ in_class p x c).
Proof.
  intros Hp. pose proof Hp as [Hs Hw]. destruct c as [i|]; cbn [pvalid].
  - rewrite Nat.ltb_lt. unfold plen. split.
    + intros Hi. destruct (nth_error_in_range (ivs p) i Hi) as [s Hn].
      pose proof (sorted_nth_valid _ _ _ Hs Hn) as [Hv1 Hv2].
      exists (fst s). split; [unfold good; lia|]. exists s. split; auto. unfold mem. lia.
    + intros [x [_ [s [Hn _]]]]. eapply nth_error_lt_len; eauto.
  - rewrite negb_true_iff. split.
    + intros He. exists (wit p). destruct (ppick_complement_spec p Hp) as [_ H]. destruct (H He) as [Hc _].
      split; auto. apply Hc.
    + intros [x [Hg [_ Hn]]]. destruct (pempty_complement p) eqn:He; auto. exfalso.
      apply Hn. apply (pempty_complement_iff p Hp); auto.
Qed.

Lemma NoDup_snoc {A} (l : list A) x : NoDup l -> ~ In x l -> NoDup (l ++ [x]).
Proof.
  induction l as [|y t IH]; intros Hn Hx; simpl.
  - constructor; [intros []|constructor].
  - inversion Hn as [|y' t' Hy Ht]; subst. constructor.
    + intros Hin. apply in_app_or in Hin. destruct Hin as [Hin | [<- | []]]; auto.
      apply Hx. left. reflexivity.
    + apply IH; auto. intros Hin. apply Hx. right. exact Hin.
Qed.

Lemma NoDup_map_CInt l : NoDup l -> NoDup (map CInt l).
Proof.
  induction 1 as [|x l Hx Hn IH]; simpl; constructor; auto.
  intros Hin. apply in_map_iff in Hin. destruct Hin as [y [Hy Hin]]. injection Hy as ->. auto.
Qed.

(* class_ids: every valid id exactly once, interval ids first in index order *)
Lemma pclass_ids_nodup p : NoDup (pclass_ids p).
Proof.
  unfold pclass_ids. pose proof (NoDup_map_CInt _ (seq_NoDup (plen p) 0)) as H.
  destruct (pempty_complement p).
  - rewrite app_nil_r. exact H.
  - apply NoDup_snoc; auto. intros Hin. apply in_map_iff in Hin. destruct Hin as [y [Hy _]]. discriminate.
Qed.

Lemma pclass_ids_in p c : In c (pclass_ids p) <-> pvalid p c = true.
Proof.
  unfold pclass_ids. rewrite in_app_iff, in_map_iff. destruct c as [i|]; cbn [pvalid].
  - rewrite Nat.ltb_lt. split.
    + intros [[y [Hy Hin]] | Hin].
      * injection Hy as ->. apply in_seq in Hin. lia.
      * destruct (pempty_complement p); [destruct Hin|destruct Hin as [Hin | []]; discriminate].
    + intros Hi. left. exists i. split; auto. apply in_seq. lia.
  - split.
    + intros [[y [Hy _]] | Hin]; [discriminate|].
      destruct (pempty_complement p); [destruct Hin|reflexivity].
    + intros He. right. destruct (pempty_complement p); [discriminate|left; reflexivity].
Qed.

Lemma pclass_ids_shape p :
  pclass_ids p = map CInt (seq 0 (plen p)) ++ (if pvalid p CComp then [CComp] else []).
Proof. unfold pclass_ids. cbn [pvalid]. destruct (pempty_complement p); reflexivity. Qed.

Lemma pclass_ids_spec p c : pwf p -> (In c (pclass_ids p) <-> exists x, good x /\ in_class p x c).
Proof. intros Hp. rewrite pclass_ids_in. apply pvalid_iff. exact Hp. Qed.

Lemma pnum_classes_length p : pnum_classes p = length (pclass_ids p).
Proof.
  unfold pnum_classes, pclass_ids. rewrite app_length, map_length, seq_length.
  destruct (pempty_complement p); simpl; lia.
Qed.

(* num_classes is the number of non-empty classes *)
Lemma pnum_classes_spec p : pwf p ->
  exists l, NoDup l /\ (forall c, In c l <-> exists x, good x /\ in_class p x c) /\
            length l = pnum_classes p.
Proof.
  intros Hp. exists (pclass_ids p). split; [apply pclass_ids_nodup|]. split.
  - intros c. apply pclass_ids_spec. exact Hp.
  - symmetry. apply pnum_classes_length.
Qed.

(* pick_in_class returns a member of the class for a valid id and panics otherwise *)
Lemma ppick_spec p c : pwf p -> pvalid p c = true ->
  exists x, ppick p c = Some x /\ good x /\ in_class p x c.
Proof.
  intros Hp Hv. pose proof Hp as [Hs Hw]. destruct c as [i|]; cbn [pvalid ppick] in *.
  - apply Nat.ltb_lt in Hv. destruct (nth_error_in_range (ivs p) i Hv) as [s Hn].
    unfold ppick_iv. rewrite Hn. simpl option_map. exists (fst s).
    pose proof (sorted_nth_valid _ _ _ Hs Hn) as [Hv1 Hv2].
    split; auto. split; [unfold good; lia|]. exists s. split; auto. unfold mem. lia.
  - apply negb_true_iff in Hv. rewrite Hv. exists (wit p). split; auto.
    destruct (ppick_complement_spec p Hp) as [_ H]. destruct (H Hv) as [Hc _]. split; auto. apply Hc.
Qed.

Lemma ppick_none p c : pvalid p c = false -> ppick p c = None.
Proof.
  destruct c as [i|]; cbn [pvalid ppick].
  - rewrite Nat.ltb_ge. intros Hi. unfold ppick_iv.
    assert (Hn : nth_error (ivs p) i = None) by (apply nth_error_None; exact Hi). rewrite Hn. reflexivity.
  - rewrite negb_false_iff. intros ->. reflexivity.
Qed.

Lemma ppick_in_class p c x : pwf p -> ppick p c = Some x -> pvalid p c = true /\ good x /\ in_class p x c.
Proof.
  intros Hp Hx. destruct (pvalid p c) eqn:Hv.
  - split; auto. destruct (ppick_spec p c Hp Hv) as [y [Hy H]]. congruence.
  - rewrite (ppick_none p c Hv) in Hx. discriminate.
Qed.

Lemma map_nth_error_seq {A} (l : list A) :
  map (fun i => nth_error l i) (seq 0 (length l)) = map Some l.
Proof.
  induction l as [|x t IH]; [reflexivity|].
  simpl length. cbn [seq map]. simpl nth_error at 1. f_equal.
  rewrite <- seq_shift, map_map. simpl nth_error. exact IH.
Qed.

(* picks = one pick per class id, in the order of class_ids *)
Lemma ppicks_spec p : map (ppick p) (pclass_ids p) = map Some (ppicks p).
Proof.
  unfold pclass_ids, ppicks. rewrite !map_app, !map_map. f_equal.
  - cbn [ppick]. unfold ppick_iv, plen.
    rewrite <- (map_map (fun i => nth_error (ivs p) i) (option_map fst)).
    rewrite map_nth_error_seq, map_map. reflexivity.
  - destruct (pempty_complement p) eqn:He; [reflexivity|]. cbn [map ppick]. rewrite He. reflexivity.
Qed.

Lemma ppicks_in_class p : pwf p ->
  Forall2 (fun c x => good x /\ in_class p x c) (pclass_ids p) (ppicks p).
Proof.
  intros Hp. pose proof (ppicks_spec p) as H.
  assert (Hall : forall c, In c (pclass_ids p) -> pvalid p c = true) by (intros c; apply pclass_ids_in).
  revert H Hall. generalize (ppicks p). induction (pclass_ids p) as [|c t IH]; intros l H Hall.
  - destruct l; [constructor|discriminate].
  - destruct l as [|x l]; [discriminate|]. simpl in H. injection H as Hx Ht. constructor.
    + destruct (ppick_in_class p c x Hp Hx) as [_ Hg]. exact Hg.
    + apply IH; auto. intros c' Hc'. apply Hall. right. exact Hc'.
Qed.

(* least_uncovered (the executable check used by pwfb) computes the witness of a sorted list *)
Lemma least_uncovered_spec l : ivs_sorted l -> forall w,
  w <= least_uncovered l w /\ ~ covered l (least_uncovered l w) /\
  forall x, w <= x -> x < least_uncovered l w -> covered l x.
Proof.
  induction l as [|s t IH]; intros Hs w; cbn [least_uncovered].
  - split; [lia|]. split; [apply covered_nil|]. intros x H1 H2. lia.
  - pose proof (sorted_head_valid _ _ Hs) as [Hv _].
    destruct (N.leb_spec (fst s) w) as [Hle | Hgt].
    + destruct (IH (sorted_tail _ _ Hs) (N.max w (snd s + 1))) as [H1 [H2 H3]].
      set (r := least_uncovered t (N.max w (snd s + 1))) in *.
      split; [lia|]. split.
      * rewrite covered_cons. intros [[Hm1 Hm2] | Hc]; auto. lia.
      * intros x Hx1 Hx2. rewrite covered_cons.
        destruct (N.lt_ge_cases x (N.max w (snd s + 1))) as [Hlt | Hge].
        -- left. unfold mem. lia.
        -- right. apply H3; auto.
    + split; [lia|]. split; [|intros x H1 H2; lia].
      rewrite covered_cons. intros [[Hm1 Hm2] | [s' [Hin [Hm1 Hm2]]]]; [lia|].
      pose proof (sorted_all_after _ _ Hs s' Hin). lia.
Qed.

Lemma pwfb_iff p : pwfb p = true <-> pwf p.
Proof.
  unfold pwfb, pwf. rewrite andb_true_iff, ivs_sortedb_iff, N.eqb_eq. split.
  - intros [Hs Hw]. split; auto. rewrite Hw.
    destruct (least_uncovered_spec (ivs p) Hs 0) as [_ [H2 H3]]. split; auto.
    intros x Hx. apply H3; auto. lia.
  - intros [Hs Hw]. split; auto. eapply wit_unique; eauto.
    destruct (least_uncovered_spec (ivs p) Hs 0) as [_ [H2 H3]]. split; auto.
    intros x Hx. apply H3; auto. lia.
Qed.

(* ------------------------------------------------------------------ 8. classes as an equivalence *)

Lemma same_class_refl p x : same_class p x x.
Proof.
  destruct (covered_dec (ivs p) x) as [[s [Hin Hm]] | Hn]; [left; exists s; auto|right; auto].
Qed.

Lemma same_class_sym p x y : same_class p x y -> same_class p y x.
Proof.
  intros [[s [Hin [Hx Hy]]] | [Hx Hy]]; [left; exists s; auto|right; auto].
Qed.

Lemma same_class_trans p x y z : ivs_sorted (ivs p) ->
  same_class p x y -> same_class p y z -> same_class p x z.
Proof.
  intros Hs [[s [Hin [Hx Hy]]] | [Hx Hy]] [[t [Hin' [Hy' Hz]]] | [Hy' Hz]].
  - assert (s = t) by (eapply sorted_mem_unique; eauto). subst t. left. exists s. auto.
  - exfalso. apply Hy'. exists s. auto.
  - exfalso. apply Hy. exists t. auto.
  - right. auto.
Qed.

(* same_class = membership in a common class *)
Lemma same_class_iff_in_class p x y : good x -> good y ->
  (same_class p x y <-> exists c, in_class p x c /\ in_class p y c).
Proof.
  intros Hgx Hgy. split.
  - intros [[s [Hin [Hx Hy]]] | [Hx Hy]].
    + apply In_nth_error in Hin. destruct Hin as [i Hi]. exists (CInt i). simpl. split; exists s; auto.
    + exists CComp. simpl. auto.
  - intros [[i|] [Hx Hy]]; simpl in *.
    + destruct Hx as [s [Hi Hx]], Hy as [t [Hj Hy]]. assert (s = t) by congruence. subst t.
      left. exists s. split; [eapply nth_error_In; eauto|auto].
    + right. tauto.
Qed.

(* the class of a character is determined by class_of_char *)
Lemma same_class_iff_class_of_char p x y : ivs_sorted (ivs p) -> good x -> good y ->
  (same_class p x y <-> pclass_of_char p x = pclass_of_char p y).
Proof.
  intros Hs Hgx Hgy. rewrite (same_class_iff_in_class p x y Hgx Hgy). split.
  - intros [c [Hx Hy]].
    rewrite (pclass_of_char_complete p x c Hs Hx), (pclass_of_char_complete p y c Hs Hy). reflexivity.
  - intros He. destruct (pclass_of_char_res p x Hs) as [c [Hc Hr]]. exists c. split.
    + apply class_res_in_class; auto.
    + apply pclass_of_char_sound; auto. congruence.
Qed.

(* ------------------------------------------------------------------ D2: the pinned code *)

(* partition {[10,20],[30,40]}, query [25,35]: the code before repair D2 (third branch compares with
   end(i+1) = 40) answers DisjointFromAll although 30 is in the query set and in interval 1; the
   specification demands Overlaps, which the repaired code returns *)
Definition D2_part : part := ppush (ppush pnew 10 20) 30 40.

Lemma D2_part_wf : pwf D2_part.
Proof. apply pwfb_iff. vm_compute. reflexivity. Qed.

Example D2_prefix_witness :
  pwf D2_part /\ cs_valid (25, 35) /\
  pinterval_cover_prefix D2_part (25, 35) = Some DisjointFromAll /\
  ~ set_disjoint D2_part (25, 35) /\ (forall i, ~ set_inside D2_part (25, 35) i) /\
  pinterval_cover D2_part (25, 35) = Some Overlaps.
Proof.
  assert (Hv : cs_valid (25, 35)) by (unfold cs_valid, MAXC; simpl; lia).
  assert (Hc : pinterval_cover D2_part (25, 35) = Some Overlaps) by (vm_compute; reflexivity).
  split; [exact D2_part_wf|]. split; [exact Hv|]. split; [vm_compute; reflexivity|].
  destruct (pinterval_cover_spec D2_part (25, 35) (proj1 D2_part_wf) Hv) as [c [Hc' [_ [_ H3]]]].
  assert (c = Overlaps) by congruence. subst c. destruct H3 as [H3 _]. destruct (H3 eq_refl) as [Hn Hd].
  split; [exact Hd|]. split; [exact Hn|exact Hc].
Qed.

(* ------------------------------------------------------------------ statements of Properties/C11.v
   (the lemmas above need only [ivs_sorted]; the property is stated for well-formed partitions) *)

Lemma c11_constructors_intervals :
  ivs pnew = [] /\ (forall c, ivs (pfrom_set c) = [c]) /\
  (forall p a b, ivs (ppush p a b) = ivs p ++ [(a, b)]).
Proof. repeat split. Qed.

Lemma c11_try_from_list_wf l p : Forall cs_valid l -> ptry_from_list l = Some p ->
  pwf p /\ Permutation l (ivs p) /\ forall x, covered (ivs p) x <-> covered l x.
Proof.
  intros Hv Hp. destruct (ptry_from_list_wf l p Hv Hp) as [H1 H2]. split; auto. split; auto.
  intros x. apply ptry_from_list_covered; auto.
Qed.

Lemma c11_class_of_char p x : pwf p -> good x ->
  (exists c, pclass_of_char p x = Some c) /\
  (forall c, pclass_of_char p x = Some c <-> in_class p x c).
Proof.
  intros [Hs _] Hg. split.
  - destruct (pclass_of_char_res p x Hs) as [c [Hc _]]. eauto.
  - intros c. apply pclass_of_char_iff; auto.
Qed.

Lemma c11_class_unique p x : pwf p -> good x ->
  exists c, in_class p x c /\ forall c', in_class p x c' -> c' = c.
Proof.
  intros [Hs _] Hg. destruct (in_class_exists p x Hg) as [c Hc]. exists c. split; auto.
  intros c' Hc'. eapply in_class_fun; eauto.
Qed.

Lemma c11_interval_cover p s : pwf p -> cs_valid s ->
  exists c, pinterval_cover p s = Some c /\
    (forall i, c = CoveredBy i <-> set_inside p s i) /\
    (c = DisjointFromAll <-> set_disjoint p s) /\
    (c = Overlaps <-> (forall i, ~ set_inside p s i) /\ ~ set_disjoint p s).
Proof. intros [Hs _]. apply pinterval_cover_spec. exact Hs. Qed.

Lemma c11_class_of_set p s : pwf p -> cs_valid s ->
  exists r, pclass_of_set p s = Some r /\
    (forall i, r = Some (CInt i) <-> set_inside p s i) /\
    (r = Some CComp <-> set_disjoint p s) /\
    (r = None <-> (forall i, ~ set_inside p s i) /\ ~ set_disjoint p s).
Proof. intros [Hs _]. apply pclass_of_set_spec. exact Hs. Qed.

Lemma c11_class_of_set_classes p s c : pwf p -> cs_valid s ->
  (pclass_of_set p s = Some (Some c) <-> forall x, mem x s -> in_class p x c).
Proof. intros [Hs _]. apply pclass_of_set_classes. exact Hs. Qed.

Lemma c11_good_char_set p s : pwf p -> cs_valid s ->
  exists b, pgood_char_set p s = Some b /\
    (b = true <-> (exists i, set_inside p s i) \/ set_disjoint p s).
Proof. intros [Hs _]. apply pgood_char_set_spec. exact Hs. Qed.

Lemma c11_class_ids p : pwf p ->
  NoDup (pclass_ids p) /\
  (forall c, In c (pclass_ids p) <-> exists x, good x /\ in_class p x c) /\
  pclass_ids p = map CInt (seq 0 (plen p)) ++ (if pvalid p CComp then [CComp] else []).
Proof.
  intros Hp. split; [apply pclass_ids_nodup|]. split; [|apply pclass_ids_shape].
  intros c. apply pclass_ids_spec. exact Hp.
Qed.

Lemma c11_pick_in_class p c : pwf p ->
  (pvalid p c = true -> exists x, ppick p c = Some x /\ good x /\ in_class p x c) /\
  (pvalid p c = false -> ppick p c = None).
Proof. intros Hp. split; [apply ppick_spec; exact Hp|apply ppick_none]. Qed.

Lemma c11_picks p : pwf p ->
  map (ppick p) (pclass_ids p) = map Some (ppicks p) /\
  Forall2 (fun c x => good x /\ in_class p x c) (pclass_ids p) (ppicks p).
Proof. intros Hp. split; [apply ppicks_spec|apply ppicks_in_class; exact Hp]. Qed.

Lemma c11_get p i :
  (forall s, nth_error (ivs p) i = Some s ->
     pget p i = s /\ pstart p i = fst s /\ pend p i = snd s /\ pinterval p i = Some s /\
     ppick_iv p i = Some (fst s)) /\
  ((plen p <= i)%nat ->
     pget p i = (MAXC + 1, MAXC + 1) /\ pstart p i = MAXC + 1 /\ pend p i = MAXC + 1 /\
     pinterval p i = None /\ ppick_iv p i = None).
Proof.
  split.
  - intros s Hn. unfold pstart, pend, pinterval, ppick_iv. rewrite (pget_nth p i s Hn), Hn. auto.
  - intros Hi. unfold pstart, pend, pinterval, ppick_iv. rewrite (pget_out p i Hi).
    assert (Hn : nth_error (ivs p) i = None) by (apply nth_error_None; exact Hi). rewrite Hn. auto.
Qed.
