(* Constructors.v -- executable model of the smart constructors of ReManager (no proofs here):
   simplify_set_operation, make_inter, make_union (+ subsumption pruning), inter/union/diff(_list),
   concat (rules in source order), concat_list, mk_loop (repair D1), char/range/char_set/smt_range/
   star/plus/opt/exp/smt_loop/str.  None = the Rust code panics (assert in char/range; since the
   repair of D11 concat and mk_loop never panic: the loop-merging rules are guarded by checked
   arithmetic and fall through when the merged bounds do not fit in u32). *)
Require Import Base CharSet Partition LoopRange Regex Inclusion.
Open Scope N_scope.

(* ---------- set-operation simplification ---------- *)
Fixpoint insert_by_id (x : re) (l : list re) : list re :=
  match l with [] => [x] | y :: t => if rid x <=? rid y then x :: l else y :: insert_by_id x t end.
Definition sort_by_id (l : list re) := fold_right insert_by_id [] l.
Fixpoint dedup (l : list re) : list re :=
  match l with
  | x :: ((y :: _) as t) => if re_eqb x y then dedup t else x :: dedup t
  | _ => l
  end.
Fixpoint contains (v : list re) (x : re) : bool :=
  match v with
  | [] => false
  | y :: t => if re_eqb y x then true else if rid x <? rid y then false else contains t x
  end.
Fixpoint simplify_go (rest : list re) (previous : re) (acc : list re) (bottom top : re) : list re :=
  match rest with
  | [] => acc
  | current :: t =>
    if (rid current =? rid previous + 1) && (N.even (rid previous)) then [top]
    else if negb (re_eqb current bottom) then simplify_go t current (acc ++ [current]) bottom top
    else simplify_go t previous acc bottom top
  end.
Definition simplify_set_operation (v : list re) (bottom top : re) : list re :=
  match v with
  | [] => []
  | _ =>
    let v := dedup (sort_by_id v) in
    if contains v top then [top]
    else match v with
         | [] => []
         | v0 :: t => simplify_go t v0 (if re_eqb v0 bottom then [] else [v0]) bottom top
         end
  end.

Definition make_inter (m : mgr) (v : list re) : option (mgr * re) :=
  let v := simplify_set_operation v (m_full m) (m_empty m) in
  if contains v (m_eps m) then
    Some (m, if forallb rnul v then m_eps m else m_empty m)
  else match v with
       | [] => Some (m, m_full m)
       | [x] => Some (m, x)
       | _ => make m (NInter v)
       end.
Definition is_subsumed (r : re) (a : list re) := existsb (fun x => negb (re_eqb x r) && included_in r x) a.
Fixpoint remove_subsumed_go (kept rest : list re) : list re :=
  match rest with
  | [] => kept
  | cur :: t => if is_subsumed cur (kept ++ rest) then remove_subsumed_go kept t
                else remove_subsumed_go (kept ++ [cur]) t
  end.
Definition make_union (m : mgr) (v : list re) : option (mgr * re) :=
  let v := simplify_set_operation v (m_empty m) (m_full m) in
  let v := match v with _ :: _ :: _ => remove_subsumed_go [] v | _ => v end in
  match v with
  | [] => Some (m, m_empty m)
  | [x] => Some (m, x)
  | _ => make m (NUnion v)
  end.
Definition inter_list (m : mgr) (l : list re) := make_inter m (flat_map flatten_inter l).
Definition union_list (m : mgr) (l : list re) := make_union m (flat_map flatten_union l).
Definition inter m a b := inter_list m [a; b].
Definition union m a b := union_list m [a; b].
Definition diff m a b := do nb <- complement m b; inter m a nb.

(* ---------- concat, loops ---------- *)
Definition loop_of (e : re) : option (re * lr) := match rnode e with NLoop x r => Some (x, r) | _ => None end.

Fixpoint concat (e1 : re) (m : mgr) (e2 : re) {struct e1} : option (mgr * re) :=
  match e1 with
  | Node _ _ _ k1 =>
    match k1, rnode e2 with
    | NEmpty, _ => Some (m, m_empty m)
    | _, NEmpty => Some (m, m_empty m)
    | NEps, _ => Some (m, e2)
    | _, NEps => Some (m, e1)
    | _, _ =>
      (* rule 5: R . R^[i,j]  (D11 repaired: only if the new bounds fit in u32, else fall through) *)
      match (match loop_of e2 with Some (y, rng) => if re_eqb e1 y then lr_add_point rng 1 else None | None => None end) with
      | Some r => make m (NLoop e1 r)
      | None =>
        (* rule 6: R^[i,j] . R  (same guard) *)
        match (match loop_of e1 with Some (x, rng) => if re_eqb e2 x then lr_add_point rng 1 else None | None => None end) with
        | Some r => make m (NLoop e2 r)
        | None =>
          (* rule 7: R^[a,b] . R^[c,d]  (only if the sums fit in u32) *)
          match (match loop_of e1, loop_of e2 with
                 | Some (x, xr), Some (y, yr) =>
                     if re_eqb x y then (match lr_add xr yr with Some r => Some (x, r) | None => None end) else None
                 | _, _ => None end) with
          | Some (x, r) => make m (NLoop x r)
          | None =>
            if re_eqb e1 e2 then (make m (NLoop e1 (lr_point 2)))
            else match k1 with
                 | NConcat x y =>
                     do (m1, rt) <- concat y m e2; concat x m1 rt
                 | _ =>
                     if rnul e1 && re_eqb e2 (m_full m) then Some (m, e2)
                     else (make m (NConcat e1 e2))
                 end
          end
        end
      end
    end
  end.

Definition mk_loop (m : mgr) (e : re) (range : lr) : option (mgr * re) :=
  if lr_is_zero range then Some (m, m_eps m)
  else if lr_is_one range then Some (m, e)
  else match rnode e with
       | NEmpty => Some (m, if lr_start range =? 0 then m_eps m else m_empty m)   (* D1 repaired *)
       | NEps => Some (m, m_eps m)
       | NLoop x xr =>
           (* D11 repaired: flatten only if neither the exactness test nor the product overflows *)
           match lr_rmie xr range, lr_mul xr range with
           | Some true, Some r => make m (NLoop x r)
           | _, _ => make m (NLoop e range)
           end
       | _ => (make m (NLoop e range))
       end.
Definition char_set (m : mgr) (s : cs) := make m (NRange s).
Definition range (m : mgr) (a b : N) : option (mgr * re) :=
  if (a <=? b) && (b <=? MAXC) then char_set m (a, b) else None.
Definition mchar (m : mgr) (x : N) := range m x x.
Fixpoint str_go (m : mgr) (rw : list N) (acc : re) : option (mgr * re) :=
  match rw with
  | [] => Some (m, acc)
  | c :: t => do (m1, ch) <- mchar m c; do (m2, r) <- concat ch m1 acc; str_go m2 t r
  end.
Definition mstr (m : mgr) (w : list N) := str_go m (rev w) (m_eps m).
Fixpoint concat_list_go (m : mgr) (rv : list re) (acc : re) : option (mgr * re) :=
  match rv with [] => Some (m, acc) | x :: t => do (m1, r) <- concat x m acc; concat_list_go m1 t r end.
Definition concat_list (m : mgr) (l : list re) := concat_list_go m (rev (flat_map flatten_concat l)) (m_eps m).


(* ---------- derived constructors ---------- *)
Definition diff_list (m : mgr) (e1 : re) (l : list re) : option (mgr * re) :=
  do cl <- (fix go (l : list re) : option (list re) :=
              match l with
              | [] => Some []
              | r :: t => do c <- complement m r; do rest <- go t; Some (flatten_inter c ++ rest)
              end) l;
  make_inter m (flatten_inter e1 ++ cl).
Definition all_chars (m : mgr) : re := m_sigma m.
Definition star (m : mgr) (e : re) := mk_loop m e lr_star.
Definition plus (m : mgr) (e : re) := mk_loop m e lr_plus.
Definition opt (m : mgr) (e : re) := mk_loop m e lr_opt.
Definition exp (m : mgr) (e : re) (k : N) := mk_loop m e (lr_point k).
Definition smt_loop (m : mgr) (e : re) (i j : N) : option (mgr * re) :=
  if i <=? j then mk_loop m e (lr_finite i j) else Some (m, m_empty m).
Definition loop_inf (m : mgr) (e : re) (i : N) := mk_loop m e (lr_infinite i).
Definition smt_range (m : mgr) (s1 s2 : word) : option (mgr * re) :=
  match s1, s2 with
  | [c1], [c2] => if c1 <=? c2 then char_set m (c1, c2) else Some (m, m_empty m)
  | _, _ => Some (m, m_empty m)
  end.
