(* HopSplit.v -- C04, layer C part 2: the splitter lists of minimizer.rs as modelled in Minimizer.v
   (SplitterList::add with num_active, SplitterSet::add_splitter / take_list) and
   upate_splitters_after_refinement: it re-establishes the link between the main partition, the
   per-character predecessor partitions and the splitter lists after a block has been split, and
   changes activity exactly as the abstract split step of HopAbs.v allows. *)
Require Import Base CharSet Partition Automaton Minimizer HopPart HopAbs.
From Coq Require Import Permutation.
Open Scope nat_scope.

(* ------------------------------------------------------------------ 1. SplitterList *)
Definition spl (sp : list slist) (b : nat) : slist := nth b sp sl_empty.
Definition sl_ok (l : slist) : Prop := sl_active l <= length (sl_list l).
Definition sl_acts (l : slist) (c : nat) : Prop := exists cls, In (c, cls) (firstn (sl_active l) (sl_list l)).
Definition acts (sp : list slist) (b c : nat) : Prop := sl_acts (spl sp b) c.
Definition ent (sp : list slist) (b c cls : nat) : Prop := In (c, cls) (sl_list (spl sp b)).
Definition nact (sp : list slist) : nat := list_sum (map sl_active sp).

Lemma hs_swap_app {A} (d : A) a f b x c :
  swap d (a ++ f :: b ++ x :: c) (length a) (length a + S (length b)) = a ++ x :: b ++ f :: c.
Proof.
  unfold swap.
  assert (H1 : nth (length a + S (length b)) (a ++ f :: b ++ x :: c) d = x).
  { rewrite app_nth2 by lia. replace (length a + S (length b) - length a) with (S (length b)) by lia.
    cbn [nth]. apply hp_nth_mid. }
  assert (H2 : nth (length a) (a ++ f :: b ++ x :: c) d = f) by apply hp_nth_mid.
  rewrite H1, H2.
  replace (length a) with (length a + 0) at 1 by lia. rewrite hp_upd_app_r. cbn [upd].
  rewrite hp_upd_app_r. cbn [upd].
  replace (length b) with (length b + 0) at 1 by lia. rewrite hp_upd_app_r. cbn [upd]. reflexivity.
Qed.

Lemma hs_firstn_in {A} (x : A) k l : In x (firstn k l) -> In x l.
Proof. intros H. rewrite <- (firstn_skipn k l). apply in_or_app. left. exact H. Qed.

Lemma sl_add_false l c cls :
  sl_add l c cls false = {| sl_active := sl_active l; sl_list := sl_list l ++ [(c, cls)] |}.
Proof. reflexivity. Qed.

Lemma sl_add_true l c cls : sl_ok l ->
  sl_active (sl_add l c cls true) = S (sl_active l) /\
  exists A B, sl_list l = A ++ B /\ length A = sl_active l /\
    ((B = [] /\ sl_list (sl_add l c cls true) = A ++ [(c, cls)]) \/
     (exists f B', B = f :: B' /\ sl_list (sl_add l c cls true) = A ++ (c, cls) :: B' ++ [f])).
Proof.
  intros Hok. unfold sl_ok in Hok. unfold sl_add. cbn [sl_active sl_list]. split; [reflexivity|].
  exists (firstn (sl_active l) (sl_list l)), (skipn (sl_active l) (sl_list l)).
  split; [symmetry; apply firstn_skipn|]. split; [apply firstn_length_le; exact Hok|].
  destruct (Nat.ltb (sl_active l) (length (sl_list l))) eqn:Hlt.
  - apply Nat.ltb_lt in Hlt. right.
    destruct (skipn (sl_active l) (sl_list l)) as [|f B'] eqn:Hsk.
    { exfalso. pose proof (skipn_length (sl_active l) (sl_list l)) as Hl. rewrite Hsk in Hl. simpl in Hl. lia. }
    exists f, B'. split; [reflexivity|].
    assert (Hdec : sl_list l = firstn (sl_active l) (sl_list l) ++ f :: B').
    { rewrite <- Hsk. symmetry. apply firstn_skipn. }
    set (A := firstn (sl_active l) (sl_list l)) in *.
    assert (HA : length A = sl_active l) by (unfold A; apply firstn_length_le; lia).
    rewrite Hdec at 1 2. rewrite <- app_assoc. cbn [app].
    replace (length (A ++ f :: B')) with (length A + S (length B')) by (rewrite app_length; simpl; lia).
    rewrite <- HA at 1. apply hs_swap_app.
  - apply Nat.ltb_ge in Hlt. left.
    assert (Hsk : skipn (sl_active l) (sl_list l) = []) by (apply skipn_all2; lia).
    split; [exact Hsk|]. rewrite firstn_all2 by lia. reflexivity.
Qed.

Lemma sl_add_perm l c cls a : sl_ok l -> Permutation (sl_list (sl_add l c cls a)) ((c, cls) :: sl_list l).
Proof.
  intros Hok. destruct a.
  - destruct (sl_add_true l c cls Hok) as [_ [A [B [HL [HA [[HB ->]|[f [B' [HB ->]]]]]]]]]; rewrite HL, HB.
    + rewrite app_nil_r. apply Permutation_sym, Permutation_cons_append.
    + apply Permutation_sym. transitivity ((c, cls) :: A ++ B' ++ [f]).
      * apply perm_skip. apply Permutation_app_head. apply Permutation_cons_append.
      * apply Permutation_middle.
  - rewrite sl_add_false. cbn [sl_list]. apply Permutation_sym, Permutation_cons_append.
Qed.

Lemma sl_add_in l c cls a e : sl_ok l -> (In e (sl_list (sl_add l c cls a)) <-> e = (c, cls) \/ In e (sl_list l)).
Proof.
  intros Hok. split; intros H.
  - apply (Permutation_in _ (sl_add_perm l c cls a Hok)) in H. destruct H as [H|H]; auto.
  - apply (Permutation_in _ (Permutation_sym (sl_add_perm l c cls a Hok))). destruct H as [H|H]; [left; auto|right; auto].
Qed.

Lemma sl_add_nodup l c cls a : sl_ok l -> NoDup (map fst (sl_list l)) -> ~ In c (map fst (sl_list l)) ->
  NoDup (map fst (sl_list (sl_add l c cls a))).
Proof.
  intros Hok Hnd Hc. eapply Permutation_NoDup.
  - apply Permutation_sym. apply Permutation_map. apply (sl_add_perm l c cls a Hok).
  - cbn [map fst]. constructor; assumption.
Qed.

Lemma sl_add_active l c cls a : sl_active (sl_add l c cls a) = sl_active l + (if a then 1 else 0).
Proof. destruct a; unfold sl_add; cbn [sl_active]; lia. Qed.

Lemma sl_add_length l c cls a : length (sl_list (sl_add l c cls a)) = S (length (sl_list l)).
Proof.
  destruct a; unfold sl_add; cbn [sl_list].
  - destruct (Nat.ltb (sl_active l) (length (sl_list l))).
    + unfold swap. rewrite !hp_upd_length, app_length. simpl. lia.
    + rewrite app_length. simpl. lia.
  - rewrite app_length. simpl. lia.
Qed.

Lemma sl_add_ok l c cls a : sl_ok l -> sl_ok (sl_add l c cls a).
Proof. unfold sl_ok. intros H. rewrite sl_add_active, sl_add_length. destruct a; lia. Qed.

Lemma sl_add_acts_mono l c cls a c' : sl_ok l -> sl_acts l c' -> sl_acts (sl_add l c cls a) c'.
Proof.
  intros Hok [cls' Hin]. exists cls'. destruct a.
  - destruct (sl_add_true l c cls Hok) as [Hact [A [B [HL [HA Hcase]]]]]. rewrite Hact.
    assert (HfA : firstn (sl_active l) (sl_list l) = A).
    { rewrite HL, <- HA. rewrite firstn_app, Nat.sub_diag, firstn_all. cbn [firstn]. apply app_nil_r. }
    rewrite HfA in Hin.
    assert (Hpre : exists R, sl_list (sl_add l c cls true) = (A ++ [(c, cls)]) ++ R).
    { destruct Hcase as [[_ ->]|[f [B' [_ ->]]]].
      - exists []. rewrite app_nil_r. reflexivity.
      - exists (B' ++ [f]). rewrite <- app_assoc. reflexivity. }
    destruct Hpre as [R ->]. replace (S (sl_active l)) with (length (A ++ [(c, cls)])) by (rewrite app_length; simpl; lia).
    rewrite firstn_app, Nat.sub_diag, firstn_all. cbn [firstn]. rewrite app_nil_r. apply in_or_app. left. exact Hin.
  - rewrite sl_add_false. cbn [sl_active sl_list]. unfold sl_ok in Hok.
    rewrite firstn_app. apply in_or_app. left. exact Hin.
Qed.

Lemma sl_add_acts_new l c cls : sl_ok l -> sl_acts (sl_add l c cls true) c.
Proof.
  intros Hok. exists cls.
  destruct (sl_add_true l c cls Hok) as [Hact [A [B [HL [HA Hcase]]]]]. rewrite Hact.
  assert (Hpre : exists R, sl_list (sl_add l c cls true) = (A ++ [(c, cls)]) ++ R).
  { destruct Hcase as [[_ ->]|[f [B' [_ ->]]]].
    - exists []. rewrite app_nil_r. reflexivity.
    - exists (B' ++ [f]). rewrite <- app_assoc. reflexivity. }
  destruct Hpre as [R ->]. replace (S (sl_active l)) with (length (A ++ [(c, cls)])) by (rewrite app_length; simpl; lia).
  rewrite firstn_app, Nat.sub_diag, firstn_all. cbn [firstn]. rewrite app_nil_r. apply in_or_app. right. left. reflexivity.
Qed.

(* ------------------------------------------------------------------ 2. SplitterSet *)
Lemma spl_pad sp k b : spl (sp ++ repeat sl_empty k) b = spl sp b.
Proof.
  unfold spl. destruct (le_lt_dec (length sp) b) as [H|H].
  - rewrite app_nth2 by exact H. rewrite (nth_overflow sp) by exact H.
    destruct (le_lt_dec k (b - length sp)) as [H2|H2].
    + apply nth_overflow. rewrite repeat_length. exact H2.
    + apply hp_nth_repeat. exact H2.
  - apply app_nth1. exact H.
Qed.

Lemma spl_add sp b c cls a b' :
  spl (add_splitter sp b c cls a) b' = if Nat.eqb b' b then sl_add (spl sp b) c cls a else spl sp b'.
Proof.
  unfold add_splitter.
  set (sp1 := if Nat.leb (length sp) b then sp ++ repeat sl_empty (S b - length sp) else sp).
  assert (Hs : forall d, spl sp1 d = spl sp d).
  { intros d. unfold sp1. destruct (Nat.leb (length sp) b); [apply spl_pad|reflexivity]. }
  assert (Hl : b < length sp1).
  { unfold sp1. destruct (Nat.leb (length sp) b) eqn:H.
    - apply Nat.leb_le in H. rewrite app_length, repeat_length. lia.
    - apply Nat.leb_gt in H. exact H. }
  fold (spl sp1 b). rewrite (Hs b). destruct (Nat.eqb b' b) eqn:He.
  - apply Nat.eqb_eq in He. subst b'. unfold spl. apply hp_nth_upd_same. exact Hl.
  - apply Nat.eqb_neq in He. unfold spl at 1. rewrite hp_nth_upd_other by auto. apply Hs.
Qed.

Lemma list_sum_upd (f : slist -> nat) : forall (sp : list slist) b v, b < length sp ->
  list_sum (map f (upd sp b v)) + f (nth b sp sl_empty) = list_sum (map f sp) + f v.
Proof.
  induction sp as [|y t IH]; intros [|b] v H; simpl in *; try lia.
  specialize (IH b v). lia.
Qed.

Lemma list_sum_pad sp k : list_sum (map sl_active (sp ++ repeat sl_empty k)) = list_sum (map sl_active sp).
Proof.
  rewrite map_app, list_sum_app. induction k as [|k IH]; simpl in *; lia.
Qed.

Lemma nact_add sp b c cls a : nact (add_splitter sp b c cls a) = nact sp + (if a then 1 else 0).
Proof.
  unfold nact, add_splitter.
  set (sp1 := if Nat.leb (length sp) b then sp ++ repeat sl_empty (S b - length sp) else sp).
  assert (Hn : list_sum (map sl_active sp1) = list_sum (map sl_active sp)).
  { unfold sp1. destruct (Nat.leb (length sp) b); [apply list_sum_pad|reflexivity]. }
  assert (Hl : b < length sp1).
  { unfold sp1. destruct (Nat.leb (length sp) b) eqn:H.
    - apply Nat.leb_le in H. rewrite app_length, repeat_length. lia.
    - apply Nat.leb_gt in H. exact H. }
  pose proof (list_sum_upd sl_active sp1 b (sl_add (nth b sp1 sl_empty) c cls a) Hl) as H.
  rewrite sl_add_active in H. lia.
Qed.

Lemma nact_take sp i : nact (upd sp i sl_empty) + sl_active (spl sp i) = nact sp.
Proof.
  unfold nact, spl. destruct (le_lt_dec (length sp) i) as [H|H].
  - rewrite hp_upd_oob by exact H. rewrite nth_overflow by exact H. simpl. lia.
  - pose proof (list_sum_upd sl_active sp i sl_empty H). simpl in *. lia.
Qed.

Lemma spl_take sp i b : spl (upd sp i sl_empty) b = if Nat.eqb b i then sl_empty else spl sp b.
Proof.
  unfold spl. destruct (Nat.eqb b i) eqn:He.
  - apply Nat.eqb_eq in He. subst b. destruct (le_lt_dec (length sp) i) as [H|H].
    + rewrite hp_upd_oob by exact H. apply nth_overflow. exact H.
    + apply hp_nth_upd_same. exact H.
  - apply Nat.eqb_neq in He. apply hp_nth_upd_other. auto.
Qed.

(* conditional add: a class id 0 means "no such class" *)
Definition cadd (sp : list slist) (b c cls : nat) (a : bool) : list slist :=
  if Nat.eqb cls 0 then sp else add_splitter sp b c cls a.

Lemma in_map_fst (l : list (nat * nat)) c : In c (map fst l) <-> exists cls, In (c, cls) l.
Proof.
  rewrite in_map_iff. split.
  - intros [[c' cls] [H1 H2]]. cbn [fst] in H1. subst. exists cls. exact H2.
  - intros [cls H]. exists (c, cls). auto.
Qed.

Lemma cadd_ok sp b c cls a : (forall b', sl_ok (spl sp b')) -> forall b', sl_ok (spl (cadd sp b c cls a) b').
Proof.
  intros H b'. unfold cadd. destruct (Nat.eqb cls 0); [apply H|]. rewrite spl_add.
  destruct (Nat.eqb b' b); [apply sl_add_ok|]; apply H.
Qed.

Lemma cadd_ent sp b c cls a b' c' cls' : (forall d, sl_ok (spl sp d)) ->
  (ent (cadd sp b c cls a) b' c' cls' <-> ent sp b' c' cls' \/ (cls <> 0 /\ b' = b /\ c' = c /\ cls' = cls)).
Proof.
  intros Hok. unfold cadd, ent. destruct (Nat.eqb cls 0) eqn:H0.
  - apply Nat.eqb_eq in H0. split; [auto|]. intros [H|[H _]]; [exact H|contradiction].
  - apply Nat.eqb_neq in H0. rewrite spl_add. destruct (Nat.eqb b' b) eqn:Hb.
    + apply Nat.eqb_eq in Hb. subst b'. rewrite sl_add_in by apply Hok. split.
      * intros [H|H]; [right; inversion H; auto|left; exact H].
      * intros [H|[_ [_ [-> ->]]]]; [right; exact H|left; reflexivity].
    + apply Nat.eqb_neq in Hb. split; [auto|]. intros [H|[_ [H _]]]; [exact H|contradiction].
Qed.

Lemma cadd_other sp b c cls a b' : b' <> b -> spl (cadd sp b c cls a) b' = spl sp b'.
Proof.
  intros H. unfold cadd. destruct (Nat.eqb cls 0); [reflexivity|]. rewrite spl_add.
  replace (Nat.eqb b' b) with false by (symmetry; apply Nat.eqb_neq; exact H). reflexivity.
Qed.

Lemma cadd_acts_mono sp b c cls a b' c' : (forall d, sl_ok (spl sp d)) ->
  acts sp b' c' -> acts (cadd sp b c cls a) b' c'.
Proof.
  intros Hok H. unfold cadd, acts. destruct (Nat.eqb cls 0); [exact H|]. rewrite spl_add.
  destruct (Nat.eqb b' b) eqn:Hb; [|exact H]. apply Nat.eqb_eq in Hb. subst b'.
  apply sl_add_acts_mono; [apply Hok|exact H].
Qed.

Lemma cadd_acts_new sp b c cls : (forall d, sl_ok (spl sp d)) -> cls <> 0 -> acts (cadd sp b c cls true) b c.
Proof.
  intros Hok H0. unfold cadd, acts. replace (Nat.eqb cls 0) with false by (symmetry; apply Nat.eqb_neq; exact H0).
  rewrite spl_add, Nat.eqb_refl. apply sl_add_acts_new. apply Hok.
Qed.

Lemma cadd_nodup sp b c cls a : (forall d, sl_ok (spl sp d)) ->
  (forall d, NoDup (map fst (sl_list (spl sp d)))) -> ~ In c (map fst (sl_list (spl sp b))) ->
  forall d, NoDup (map fst (sl_list (spl (cadd sp b c cls a) d))).
Proof.
  intros Hok Hnd Hc d. unfold cadd. destruct (Nat.eqb cls 0); [apply Hnd|]. rewrite spl_add.
  destruct (Nat.eqb d b); [|apply Hnd]. apply sl_add_nodup; auto.
Qed.

Lemma nact_cadd sp b c cls a : nact (cadd sp b c cls a) <= nact sp + (if a then 1 else 0).
Proof. unfold cadd. destruct (Nat.eqb cls 0); [lia|]. rewrite nact_add. lia. Qed.

(* ------------------------------------------------------------------ 3. the link invariant *)
Section Split.
  Context (n alpha : nat) (delta : nat -> nat -> nat).

  Definition pc (pred : list bpart) (c : nat) : bpart := nth c pred (bp_new 0).

  (* main partition (bid, k block ids) / predecessor partitions / splitter lists *)
  Record sinv (bid : nat -> nat) (k : nat) (pred : list bpart) (sp : list slist) : Prop := {
    si_plen : length pred = alpha;
    si_pwf : forall c, c < alpha -> bp_wf n (pc pred c);
    si_ent : forall b c cls, ent sp b c cls ->
               1 <= b < k /\ c < alpha /\ 1 <= cls < nblk (pc pred c) /\
               forall x, in_blk (pc pred c) cls x <-> (x < n /\ bid (delta x c) = b);
    si_nodup : forall b, NoDup (map fst (sl_list (spl sp b)));
    si_cov : forall x c, x < n -> c < alpha -> exists cls, ent sp (bid (delta x c)) c cls;
    si_ok : forall b, sl_ok (spl sp b) }.

  Definition us_step (bid : nat -> nat) (i j na : nat) (ps : list bpart * list slist) (it : nat * (nat * nat))
    : list bpart * list slist :=
    let '(idx, (c, cls)) := it in
    let active := Nat.ltb idx na in
    let p := nth c (fst ps) (bp_new 0) in
    let '(p', (class1, class2)) :=
      bp_refine p cls (fun x => Nat.eqb (bid (delta x c)) i) in
    let '(a1, a2) := if active then (true, true)
                     else if Nat.leb (bp_block_size p' class1) (bp_block_size p' class2) then (true, false)
                     else (false, true) in
    let sp1 := if Nat.eqb class1 0 then snd ps else add_splitter (snd ps) i c class1 a1 in
    let sp2 := if Nat.eqb class2 0 then sp1 else add_splitter sp1 j c class2 a2 in
    (upd (fst ps) c p', sp2).

  Lemma update_splitters_unfold (m : mini) i j :
    update_splitters delta m i j =
    let old := nth i (mn_split m) sl_empty in
    let r := fold_left (us_step (fp_block_id (mn_main m)) i j (sl_active old))
                       (combine (seq 0 (length (sl_list old))) (sl_list old))
                       (mn_pred m, upd (mn_split m) i sl_empty) in
    {| mn_main := mn_main m; mn_pred := fst r; mn_split := snd r; mn_active_block := mn_active_block m |}.
  Proof.
    unfold update_splitters. cbv zeta.
    match goal with |- (let '(pred, sp) := ?X in _) = _ => replace X with
      (fold_left (us_step (fp_block_id (mn_main m)) i j (sl_active (nth i (mn_split m) sl_empty)))
                 (combine (seq 0 (length (sl_list (nth i (mn_split m) sl_empty)))) (sl_list (nth i (mn_split m) sl_empty)))
                 (mn_pred m, upd (mn_split m) i sl_empty)) end.
    - destruct (fold_left _ _ _) as [pred sp]. reflexivity.
    - reflexivity.
  Qed.

  (* how the new block ids relate to the old ones when block i has been split into i and the fresh j *)
  Definition bid_split (bid bid' : nat -> nat) (i j : nat) : Prop :=
    forall y, y < n -> (bid y = i /\ (bid' y = i \/ bid' y = j)) \/ (bid y <> i /\ bid' y = bid y /\ bid' y <> j).

  Lemma refine_class_facts (bid bid' : nat -> nat) i j p cls c p' c1 c2 :
    closed_delta n alpha delta -> c < alpha -> i <> j -> bid_split bid bid' i j ->
    bp_wf n p -> 1 <= cls < nblk p ->
    (forall x, in_blk p cls x <-> (x < n /\ bid (delta x c) = i)) ->
    bp_refine p cls (fun x => Nat.eqb (bid' (delta x c)) i) = (p', (c1, c2)) ->
    bp_wf n p' /\ nblk p <= nblk p' /\
    (c1 <> 0 -> 1 <= c1 < nblk p' /\ forall x, in_blk p' c1 x <-> (x < n /\ bid' (delta x c) = i)) /\
    (c2 <> 0 -> 1 <= c2 < nblk p' /\ forall x, in_blk p' c2 x <-> (x < n /\ bid' (delta x c) = j)) /\
    (c1 = 0 -> forall x, x < n -> bid' (delta x c) <> i) /\
    (c2 = 0 -> forall x, x < n -> bid' (delta x c) <> j) /\
    (forall l x, l <> cls -> l < nblk p -> (in_blk p' l x <-> in_blk p l x)).
  Proof.
    intros Hcl Hc Hij Hsp W Hcls Hclass Href.
    destruct (bp_refine_spec n p cls (fun x => Nat.eqb (bid' (delta x c)) i) W Hcls) as [W' R].
    rewrite Href in W', R. cbn [fst snd] in W', R.
    assert (K1 : forall x, x < n -> (bid' (delta x c) = i <-> in_blk p cls x /\ Nat.eqb (bid' (delta x c)) i = true)).
    { intros x Hx. rewrite Hclass, Nat.eqb_eq. destruct (Hsp _ (Hcl x c Hx Hc)) as [[H1 H2]|[H1 [H2 H3]]].
      - tauto.
      - split; [intros H; exfalso; congruence|tauto]. }
    assert (K2 : forall x, x < n -> (bid' (delta x c) = j <-> in_blk p cls x /\ Nat.eqb (bid' (delta x c)) i = false)).
    { intros x Hx. rewrite Hclass, Nat.eqb_neq. destruct (Hsp _ (Hcl x c Hx Hc)) as [[H1 H2]|[H1 [H2 H3]]].
      - split; [intros H; split; [auto|congruence]|]. intros [_ H]. destruct H2; [contradiction|assumption].
      - split; [intros H; exfalso; congruence|tauto]. }
    split; [exact W'|].
    inversion R as [Hall [Hnb Hsame] E|Hnone [Hnb Hsame] E|Hnb H1 H2 H3 E]; subst c1 c2.
    - split; [lia|]. split; [|split; [|split; [|split]]].
      + intros _. split; [lia|]. intros x. rewrite Hsame. split.
        * intros H. pose proof (in_blk_lt _ _ _ _ W H) as Hx. split; [exact Hx|]. apply (K1 x Hx). auto.
        * intros [Hx H]. apply (K1 x Hx) in H. tauto.
      + intros H; contradiction.
      + intros H; lia.
      + intros _ x Hx H. apply (K2 x Hx) in H. destruct H as [Hin H]. rewrite (Hall x Hin) in H. discriminate.
      + intros l x _ _. apply Hsame.
    - split; [lia|]. split; [|split; [|split; [|split]]].
      + intros H; contradiction.
      + intros _. split; [lia|]. intros x. rewrite Hsame. split.
        * intros H. pose proof (in_blk_lt _ _ _ _ W H) as Hx. split; [exact Hx|]. apply (K2 x Hx). auto.
        * intros [Hx H]. apply (K2 x Hx) in H. tauto.
      + intros _ x Hx H. apply (K1 x Hx) in H. destruct H as [Hin H]. rewrite (Hnone x Hin) in H. discriminate.
      + intros H; lia.
      + intros l x _ _. apply Hsame.
    - split; [lia|]. split; [|split; [|split; [|split]]].
      + intros _. split; [lia|]. intros x. rewrite H1. split.
        * intros [H Hp]. pose proof (in_blk_lt _ _ _ _ W H) as Hx. split; [exact Hx|]. apply (K1 x Hx). auto.
        * intros [Hx H]. apply (K1 x Hx) in H. exact H.
      + intros _. split; [lia|]. intros x. rewrite H2. split.
        * intros [H Hp]. pose proof (in_blk_lt _ _ _ _ W H) as Hx. split; [exact Hx|]. apply (K2 x Hx). auto.
        * intros [Hx H]. apply (K2 x Hx) in H. exact H.
      + intros H; lia.
      + intros H; lia.
      + intros l x Hl Hlt. apply H3; [exact Hl|lia].
  Qed.

  (* ---------------------------------------------------------------- 4. the loop of update_splitters *)
  Definition chars (rest : list (nat * (nat * nat))) : list nat := map (fun it => fst (snd it)) rest.

  Record usinv (bid bid' : nat -> nat) (i j k : nat) (old : slist) (sp0 : list slist)
               (rest : list (nat * (nat * nat))) (pred : list bpart) (sp : list slist) : Prop := {
    u_plen : length pred = alpha;
    u_pwf : forall c, c < alpha -> bp_wf n (pc pred c);
    u_ent : forall b c cls, ent sp b c cls ->
              1 <= b < S k /\ c < alpha /\ 1 <= cls < nblk (pc pred c) /\
              forall x, in_blk (pc pred c) cls x <-> (x < n /\ bid' (delta x c) = b);
    u_rest : forall idx c cls, In (idx, (c, cls)) rest ->
              c < alpha /\ 1 <= cls < nblk (pc pred c) /\
              forall x, in_blk (pc pred c) cls x <-> (x < n /\ bid (delta x c) = i);
    u_nodup : forall b, NoDup (map fst (sl_list (spl sp b)));
    u_fresh : forall c cls, ent sp i c cls \/ ent sp j c cls -> ~ In c (chars rest);
    u_rnd : NoDup (chars rest);
    u_cov : forall x c, x < n -> c < alpha ->
              (exists cls, ent sp (bid' (delta x c)) c cls) \/ (bid (delta x c) = i /\ In c (chars rest));
    u_ok : forall b, sl_ok (spl sp b);
    u_other : forall D, D <> i -> D <> j -> spl sp D = spl sp0 D;
    u_act : forall c x, sl_acts old c -> x < n -> c < alpha -> bid (delta x c) = i ->
              ~ In c (chars rest) -> acts sp (bid' (delta x c)) c;
    u_ina : forall c x y, x < n -> y < n -> c < alpha -> bid' (delta x c) = i -> bid' (delta y c) = j ->
              ~ In c (chars rest) -> acts sp i c \/ acts sp j c }.

  Lemma pc_upd_same pred c p' : c < length pred -> pc (upd pred c p') c = p'.
  Proof. intros H. unfold pc. apply hp_nth_upd_same. exact H. Qed.
  Lemma pc_upd_other pred c c' p' : c <> c' -> pc (upd pred c p') c' = pc pred c'.
  Proof. intros H. unfold pc. apply hp_nth_upd_other. exact H. Qed.

  Lemma us_step_eq bid' i j na pred sp idx c cls :
    us_step bid' i j na (pred, sp) (idx, (c, cls)) =
    let '(p', (c1, c2)) := bp_refine (pc pred c) cls (fun x => Nat.eqb (bid' (delta x c)) i) in
    let '(a1, a2) := if Nat.ltb idx na then (true, true)
                     else if Nat.leb (bp_block_size p' c1) (bp_block_size p' c2) then (true, false)
                     else (false, true) in
    (upd pred c p', cadd (cadd sp i c c1 a1) j c c2 a2).
  Proof. reflexivity. Qed.

  Lemma us_step_inv bid bid' i j k old sp0 idx c cls rest pred sp :
    closed_delta n alpha delta -> i <> j -> 1 <= i < k -> j = k -> bid_split bid bid' i j ->
    (sl_acts old c -> idx < sl_active old) ->
    usinv bid bid' i j k old sp0 ((idx, (c, cls)) :: rest) pred sp ->
    usinv bid bid' i j k old sp0 rest
          (fst (us_step bid' i j (sl_active old) (pred, sp) (idx, (c, cls))))
          (snd (us_step bid' i j (sl_active old) (pred, sp) (idx, (c, cls)))).
  Proof.
    intros Hcl Hij Hik Hjk Hsp Hactidx I.
    destruct (u_rest _ _ _ _ _ _ _ _ _ _ I idx c cls (or_introl eq_refl)) as [Hc [Hcls Hclass]].
    pose proof (u_pwf _ _ _ _ _ _ _ _ _ _ I c Hc) as Wc.
    rewrite us_step_eq.
    destruct (bp_refine (pc pred c) cls (fun x => Nat.eqb (bid' (delta x c)) i)) as [p' [c1 c2]] eqn:Href.
    destruct (refine_class_facts bid bid' i j (pc pred c) cls c p' c1 c2 Hcl Hc Hij Hsp Wc Hcls Hclass Href)
      as [W' [Hnb [U1 [U2 [Z1 [Z2 Uo]]]]]].
    destruct (if Nat.ltb idx (sl_active old) then (true, true)
              else if Nat.leb (bp_block_size p' c1) (bp_block_size p' c2) then (true, false)
              else (false, true)) as [a1 a2] eqn:Hfl.
    assert (Hflag : (a1 = true \/ a2 = true) /\ (idx < sl_active old -> a1 = true /\ a2 = true)).
    { destruct (Nat.ltb idx (sl_active old)) eqn:Hlt.
      - inversion Hfl; subst. auto.
      - apply Nat.ltb_ge in Hlt. destruct (Nat.leb (bp_block_size p' c1) (bp_block_size p' c2));
          inversion Hfl; subst; split; auto; intros; lia. }
    destruct Hflag as [Hfl1 Hfl2]. clear Hfl.
    cbn [fst snd].
    set (sp1 := cadd sp i c c1 a1). set (sp2 := cadd sp1 j c c2 a2).
    pose proof (u_ok _ _ _ _ _ _ _ _ _ _ I) as Hok.
    assert (Hok1 : forall d, sl_ok (spl sp1 d)) by (apply cadd_ok; exact Hok).
    assert (Hok2 : forall d, sl_ok (spl sp2 d)) by (apply cadd_ok; exact Hok1).
    assert (Hent2 : forall b c' cls', ent sp2 b c' cls' <->
               ent sp b c' cls' \/ (c1 <> 0 /\ b = i /\ c' = c /\ cls' = c1) \/ (c2 <> 0 /\ b = j /\ c' = c /\ cls' = c2)).
    { intros b c' cls'. unfold sp2. rewrite (cadd_ent sp1) by exact Hok1. unfold sp1. rewrite (cadd_ent sp) by exact Hok. tauto. }
    assert (Hmono : forall b c', acts sp b c' -> acts sp2 b c').
    { intros b c' H. apply cadd_acts_mono; [exact Hok1|]. apply cadd_acts_mono; [exact Hok|exact H]. }
    pose proof (u_rnd _ _ _ _ _ _ _ _ _ _ I) as Hrnd. cbn [chars map fst snd] in Hrnd. fold (chars rest) in Hrnd.
    assert (Hc_notin : ~ In c (chars rest)) by (inversion Hrnd; assumption).
    assert (Hrnd' : NoDup (chars rest)) by (inversion Hrnd; assumption).
    assert (Hc_fresh : forall cls', ~ ent sp i c cls' /\ ~ ent sp j c cls').
    { intros cls'. split; intros H.
      - apply (u_fresh _ _ _ _ _ _ _ _ _ _ I c cls' (or_introl H)). left. reflexivity.
      - apply (u_fresh _ _ _ _ _ _ _ _ _ _ I c cls' (or_intror H)). left. reflexivity. }
    assert (Hbd : forall x, x < n -> bid (delta x c) = i -> bid' (delta x c) = i \/ bid' (delta x c) = j).
    { intros x Hx Hb. destruct (Hsp _ (Hcl x c Hx Hc)) as [[_ H]|[H _]]; [exact H|contradiction]. }
    assert (Hrest_in : forall idx' c' cls', In (idx', (c', cls')) rest -> In c' (chars rest)).
    { intros idx' c' cls' H. unfold chars. apply in_map_iff. exists (idx', (c', cls')). auto. }
    constructor.
    - rewrite hp_upd_length. apply (u_plen _ _ _ _ _ _ _ _ _ _ I).
    - intros c' Hc'. destruct (Nat.eq_dec c c') as [<-|Hne].
      + rewrite pc_upd_same; [exact W'|]. rewrite (u_plen _ _ _ _ _ _ _ _ _ _ I). exact Hc.
      + rewrite pc_upd_other by exact Hne. apply (u_pwf _ _ _ _ _ _ _ _ _ _ I). exact Hc'.
    - intros b c' cls' He. apply Hent2 in He. destruct He as [He|[[H0 [-> [-> ->]]]|[H0 [-> [-> ->]]]]].
      + destruct (u_ent _ _ _ _ _ _ _ _ _ _ I b c' cls' He) as [Hb [Hc' [Hcl' Hx']]].
        split; [exact Hb|]. split; [exact Hc'|].
        destruct (Nat.eq_dec c c') as [<-|Hne].
        * rewrite pc_upd_same by (rewrite (u_plen _ _ _ _ _ _ _ _ _ _ I); exact Hc).
          assert (Hbi : b <> i) by (intros ->; apply (proj1 (Hc_fresh cls')); exact He).
          assert (Hbj : b <> j) by (intros ->; apply (proj2 (Hc_fresh cls')); exact He).
          assert (Hne : cls' <> cls).
          { intros ->. pose proof (blk_first_in n (pc pred c) cls Wc Hcls) as Hf.
            pose proof Hf as Hf2. apply Hx' in Hf. apply Hclass in Hf2.
            destruct Hf as [Hx0 Hb0], Hf2 as [_ Hb1]. destruct (Hbd _ Hx0 Hb1); congruence. }
          split; [lia|]. intros x. rewrite (Uo cls' x Hne) by lia. apply Hx'.
        * rewrite pc_upd_other by exact Hne. auto.
      + rewrite pc_upd_same by (rewrite (u_plen _ _ _ _ _ _ _ _ _ _ I); exact Hc).
        split; [lia|]. split; [exact Hc|]. apply U1. exact H0.
      + rewrite pc_upd_same by (rewrite (u_plen _ _ _ _ _ _ _ _ _ _ I); exact Hc).
        split; [lia|]. split; [exact Hc|]. apply U2. exact H0.
    - intros idx' c' cls' Hin.
      assert (Hne : c <> c').
      { intros ->. apply Hc_notin. eapply Hrest_in; eauto. }
      rewrite pc_upd_other by exact Hne. apply (u_rest _ _ _ _ _ _ _ _ _ _ I idx'). right. exact Hin.
    - apply cadd_nodup; [exact Hok1| |].
      + apply cadd_nodup; [exact Hok|apply (u_nodup _ _ _ _ _ _ _ _ _ _ I)|].
        rewrite in_map_fst. intros [cls' H]. apply (proj1 (Hc_fresh cls')). exact H.
      + unfold sp1. rewrite cadd_other by auto. rewrite in_map_fst. intros [cls' H]. apply (proj2 (Hc_fresh cls')). exact H.
    - intros c' cls' H.
      assert (H' : (ent sp i c' cls' \/ ent sp j c' cls') \/ c' = c).
      { destruct H as [H|H]; apply Hent2 in H; tauto. }
      destruct H' as [H'| ->]; [|exact Hc_notin].
      intros Hin. apply (u_fresh _ _ _ _ _ _ _ _ _ _ I c' cls' H'). right. exact Hin.
    - exact Hrnd'.
    - intros x c' Hx Hc'. destruct (u_cov _ _ _ _ _ _ _ _ _ _ I x c' Hx Hc') as [[cls' H]|[Hb Hin]].
      + left. exists cls'. apply Hent2. left. exact H.
      + destruct Hin as [<-|Hin]; [|right; auto]. cbn [fst snd] in *. left.
        destruct (Hbd x Hx Hb) as [Hb'|Hb']; rewrite Hb'.
        * exists c1. apply Hent2. right. left. split; [|auto]. intros H0. apply (Z1 H0 x Hx). exact Hb'.
        * exists c2. apply Hent2. right. right. split; [|auto]. intros H0. apply (Z2 H0 x Hx). exact Hb'.
    - exact Hok2.
    - intros D H1 H2. unfold sp2, sp1. rewrite !cadd_other by auto. apply (u_other _ _ _ _ _ _ _ _ _ _ I); auto.
    - intros c' x Ha Hx Hc' Hb Hnin. destruct (Nat.eq_dec c' c) as [->|Hne].
      + destruct (Hfl2 (Hactidx Ha)) as [-> ->]. destruct (Hbd x Hx Hb) as [Hb'|Hb']; rewrite Hb'.
        * apply cadd_acts_mono; [exact Hok1|]. apply cadd_acts_new; [exact Hok|].
          intros H0. apply (Z1 H0 x Hx). exact Hb'.
        * apply cadd_acts_new; [exact Hok1|]. intros H0. apply (Z2 H0 x Hx). exact Hb'.
      + apply Hmono. apply (u_act _ _ _ _ _ _ _ _ _ _ I); auto. intros [H|H]; [cbn [fst snd] in H; congruence|contradiction].
    - intros c' x y Hx Hy Hc' Hbx Hby Hnin. destruct (Nat.eq_dec c' c) as [->|Hne].
      + assert (H1 : c1 <> 0) by (intros H0; apply (Z1 H0 x Hx); exact Hbx).
        assert (H2 : c2 <> 0) by (intros H0; apply (Z2 H0 y Hy); exact Hby).
        destruct Hfl1 as [->| ->].
        * left. apply cadd_acts_mono; [exact Hok1|]. apply cadd_acts_new; [exact Hok|exact H1].
        * right. apply cadd_acts_new; [exact Hok1|exact H2].
      + destruct (u_ina _ _ _ _ _ _ _ _ _ _ I c' x y Hx Hy Hc' Hbx Hby) as [H|H].
        * intros [H|H]; [cbn [fst snd] in H; congruence|contradiction].
        * left. apply Hmono. exact H.
        * right. apply Hmono. exact H.
  Qed.

  Lemma us_fold_inv bid bid' i j k old sp0 :
    closed_delta n alpha delta -> i <> j -> 1 <= i < k -> j = k -> bid_split bid bid' i j ->
    forall items pred sp,
    (forall idx c cls, In (idx, (c, cls)) items -> sl_acts old c -> idx < sl_active old) ->
    usinv bid bid' i j k old sp0 items pred sp ->
    usinv bid bid' i j k old sp0 []
          (fst (fold_left (us_step bid' i j (sl_active old)) items (pred, sp)))
          (snd (fold_left (us_step bid' i j (sl_active old)) items (pred, sp))).
  Proof.
    intros Hcl Hij Hik Hjk Hsp. induction items as [|[idx [c cls]] items IH]; intros pred sp Hact I.
    - exact I.
    - cbn [fold_left].
      rewrite (surjective_pairing (us_step bid' i j (sl_active old) (pred, sp) (idx, (c, cls)))).
      apply IH.
      + intros idx' c' cls' Hin. apply (Hact idx' c' cls'). right. exact Hin.
      + apply (us_step_inv bid bid' i j k old sp0 idx c cls items pred sp); auto.
        apply (Hact idx c cls). left. reflexivity.
  Qed.

  Lemma us_step_nact bid' i j na pred sp idx c cls :
    nact (snd (us_step bid' i j na (pred, sp) (idx, (c, cls)))) <= nact sp + (if Nat.ltb idx na then 2 else 1).
  Proof.
    rewrite us_step_eq.
    destruct (bp_refine (pc pred c) cls (fun x => Nat.eqb (bid' (delta x c)) i)) as [p' [c1 c2]].
    destruct (Nat.ltb idx na).
    - cbn [snd]. pose proof (nact_cadd (cadd sp i c c1 true) j c c2 true). pose proof (nact_cadd sp i c c1 true). cbn [snd] in *. lia.
    - destruct (Nat.leb (bp_block_size p' c1) (bp_block_size p' c2)); cbn [snd].
      + pose proof (nact_cadd (cadd sp i c c1 true) j c c2 false). pose proof (nact_cadd sp i c c1 true). cbn [snd] in *. lia.
      + pose proof (nact_cadd (cadd sp i c c1 false) j c c2 true). pose proof (nact_cadd sp i c c1 false). cbn [snd] in *. lia.
  Qed.

  Lemma us_fold_nact bid' i j na : forall L s pred sp,
    nact (snd (fold_left (us_step bid' i j na) (combine (seq s (length L)) L) (pred, sp)))
      <= nact sp + length L + (na - s).
  Proof.
    induction L as [|[c cls] L IH]; intros s pred sp; cbn [length seq combine fold_left snd]; [lia|].
    rewrite (surjective_pairing (us_step bid' i j na (pred, sp) (s, (c, cls)))).
    specialize (IH (S s) (fst (us_step bid' i j na (pred, sp) (s, (c, cls))))
                   (snd (us_step bid' i j na (pred, sp) (s, (c, cls))))).
    pose proof (us_step_nact bid' i j na pred sp s c cls) as Hs.
    destruct (Nat.ltb s na) eqn:Hlt; [apply Nat.ltb_lt in Hlt|apply Nat.ltb_ge in Hlt]; lia.
  Qed.

  Lemma in_combine_seq_nth {A} (d : A) : forall (L : list A) s idx e,
    In (idx, e) (combine (seq s (length L)) L) -> s <= idx /\ idx - s < length L /\ nth (idx - s) L d = e.
  Proof.
    induction L as [|x L IH]; intros s idx e H; cbn [length seq combine] in H; [destruct H|].
    destruct H as [H|H].
    - inversion H; subst. rewrite Nat.sub_diag. cbn [length nth]. split; [lia|]. split; [lia|reflexivity].
    - destruct (IH _ _ _ H) as [H1 [H2 H3]]. cbn [length]. split; [lia|]. split; [lia|].
      replace (idx - s) with (S (idx - S s)) by lia. exact H3.
  Qed.

  Lemma chars_combine : forall (L : list (nat * nat)) s, chars (combine (seq s (length L)) L) = map fst L.
  Proof.
    induction L as [|x L IH]; intros s; cbn [length seq combine chars map]; [reflexivity|].
    f_equal. apply IH.
  Qed.

  Lemma us_init bid bid' i j k pred sp :
    closed_delta n alpha delta -> 1 <= i < k -> j = k -> bid_split bid bid' i j -> sinv bid k pred sp ->
    usinv bid bid' i j k (spl sp i) sp (combine (seq 0 (length (sl_list (spl sp i)))) (sl_list (spl sp i)))
          pred (upd sp i sl_empty) /\
    (forall idx c cls, In (idx, (c, cls)) (combine (seq 0 (length (sl_list (spl sp i)))) (sl_list (spl sp i))) ->
                       sl_acts (spl sp i) c -> idx < sl_active (spl sp i)).
  Proof.
    intros Hcl Hik Hjk Hsp S.
    set (old := spl sp i). set (L := sl_list old).
    assert (Hij : i <> j) by lia.
    assert (HLent : forall c cls, In (c, cls) L <-> ent sp i c cls) by (intros; reflexivity).
    assert (Hbb : forall y b, y < n -> b <> i -> b <> j -> (bid' y = b <-> bid y = b)).
    { intros y b Hy H1 H2. destruct (Hsp y Hy) as [[Ha [Hb|Hb]]|[Ha [Hb Hc]]]; split; intros; congruence. }
    assert (Hinit : usinv bid bid' i j k old sp (combine (seq 0 (length L)) L) pred (upd sp i sl_empty)).
    { constructor.
      - apply (si_plen _ _ _ _ S).
      - apply (si_pwf _ _ _ _ S).
      - intros b c cls He. unfold ent in He. rewrite spl_take in He. destruct (Nat.eqb b i) eqn:Hb; [destruct He|].
        apply Nat.eqb_neq in Hb. destruct (si_ent _ _ _ _ S b c cls He) as [H1 [H2 [H3 H4]]].
        split; [lia|]. split; [exact H2|]. split; [exact H3|]. intros x. rewrite H4. split; intros [Hx H]; (split; [exact Hx|]).
        + apply Hbb; auto; lia.
        + apply (Hbb (delta x c) b (Hcl x c Hx H2)) in H; auto; lia.
      - intros idx c cls Hin. apply in_combine_r in Hin. apply HLent in Hin.
        destruct (si_ent _ _ _ _ S i c cls Hin) as [H1 [H2 [H3 H4]]]. auto.
      - intros b. rewrite spl_take. destruct (Nat.eqb b i); [constructor|apply (si_nodup _ _ _ _ S)].
      - intros c cls [H|H]; exfalso; unfold ent in H; rewrite spl_take in H.
        + rewrite Nat.eqb_refl in H. destruct H.
        + replace (Nat.eqb j i) with false in H by (symmetry; apply Nat.eqb_neq; lia).
          destruct (si_ent _ _ _ _ S j c cls H) as [H1 _]. lia.
      - rewrite chars_combine. apply (si_nodup _ _ _ _ S).
      - intros x c Hx Hc. destruct (si_cov _ _ _ _ S x c Hx Hc) as [cls He].
        destruct (Nat.eq_dec (bid (delta x c)) i) as [Hb|Hb].
        + right. split; [exact Hb|]. rewrite chars_combine. apply in_map_fst. exists cls. rewrite Hb in He. exact He.
        + left. exists cls. destruct (Hsp _ (Hcl x c Hx Hc)) as [[Ha _]|[_ [Ha _]]]; [contradiction|].
          rewrite Ha. unfold ent. rewrite spl_take.
          replace (Nat.eqb (bid (delta x c)) i) with false by (symmetry; apply Nat.eqb_neq; exact Hb). exact He.
      - intros b. rewrite spl_take. destruct (Nat.eqb b i); [unfold sl_ok; simpl; lia|apply (si_ok _ _ _ _ S)].
      - intros D H1 H2. rewrite spl_take. replace (Nat.eqb D i) with false by (symmetry; apply Nat.eqb_neq; exact H1). reflexivity.
      - intros c x [cls Ha] Hx Hc Hb Hnin. exfalso. apply Hnin. rewrite chars_combine. apply in_map_fst.
        exists cls. eapply hs_firstn_in. exact Ha.
      - intros c x y Hx Hy Hc Hbx Hby Hnin. exfalso. apply Hnin. rewrite chars_combine. apply in_map_fst.
        destruct (si_cov _ _ _ _ S x c Hx Hc) as [cls He].
        assert (Hb : bid (delta x c) = i).
        { destruct (Hsp _ (Hcl x c Hx Hc)) as [[Ha _]|[Ha [Hb Hc']]]; [exact Ha|congruence]. }
        exists cls. rewrite Hb in He. exact He. }
    assert (Hact : forall idx c cls, In (idx, (c, cls)) (combine (seq 0 (length L)) L) -> sl_acts old c -> idx < sl_active old).
    { intros idx c cls Hin [cls' Ha].
      destruct (in_combine_seq_nth (0,0) L 0 idx (c, cls) Hin) as [_ [H1 H2]]. rewrite Nat.sub_0_r in *.
      pose proof (si_ok _ _ _ _ S i) as Hok. unfold sl_ok in Hok. fold old in Hok. fold L in Hok, Ha.
      destruct (In_nth _ _ (0,0) Ha) as [idx' [Hi' He']]. rewrite firstn_length in Hi'.
      assert (Hn' : nth idx' L (0,0) = (c, cls')).
      { rewrite <- He'. rewrite <- (firstn_skipn (sl_active old) L) at 1. rewrite app_nth1; [reflexivity|].
        rewrite firstn_length. exact Hi'. }
      assert (idx = idx'); [|lia].
      pose proof (si_nodup _ _ _ _ S i) as Hnd. fold old in Hnd. fold L in Hnd.
      apply (proj1 (NoDup_nth (map fst L) 0) Hnd); rewrite ?map_length; try lia.
      rewrite (nth_indep _ 0 (fst (0,0))), (nth_indep _ 0 (fst (0,0)) (n:=idx')) by (rewrite map_length; lia).
      rewrite !map_nth, H2, Hn'. reflexivity. }
    split; [exact Hinit|exact Hact].
  Qed.

  (* upate_splitters_after_refinement *)
  Lemma update_splitters_spec (m : mini) bid i j k :
    closed_delta n alpha delta -> 1 <= i < k -> j = k ->
    bid_split bid (fp_block_id (mn_main m)) i j ->
    sinv bid k (mn_pred m) (mn_split m) ->
    let m' := update_splitters delta m i j in
    mn_main m' = mn_main m /\ mn_active_block m' = mn_active_block m /\
    sinv (fp_block_id (mn_main m)) (S k) (mn_pred m') (mn_split m') /\
    (forall D, D <> i -> D <> j -> spl (mn_split m') D = spl (mn_split m) D) /\
    (forall c x, acts (mn_split m) i c -> x < n -> c < alpha -> bid (delta x c) = i ->
                 acts (mn_split m') (fp_block_id (mn_main m) (delta x c)) c) /\
    (forall c x y, x < n -> y < n -> c < alpha ->
                   fp_block_id (mn_main m) (delta x c) = i -> fp_block_id (mn_main m) (delta y c) = j ->
                   acts (mn_split m') i c \/ acts (mn_split m') j c) /\
    nact (mn_split m') <= nact (mn_split m) + length (sl_list (spl (mn_split m) i)).
  Proof.
    intros Hcl Hik Hjk Hsp S m'. unfold m'. rewrite update_splitters_unfold. cbv zeta. cbn [mn_main mn_pred mn_split mn_active_block].
    split; [reflexivity|]. split; [reflexivity|].
    set (bid' := fp_block_id (mn_main m)) in *. set (sp := mn_split m) in *. set (pred := mn_pred m) in *.
    fold (spl sp i). set (old := spl sp i). set (L := sl_list old).
    assert (Hij : i <> j) by lia.
    destruct (us_init bid bid' i j k pred sp Hcl Hik Hjk Hsp S) as [Hinit Hact]. fold old in Hinit, Hact. fold L in Hinit, Hact.
    pose proof (us_fold_inv bid bid' i j k old sp Hcl Hij Hik Hjk Hsp _ _ _ Hact Hinit) as Hfin.
    set (r := fold_left (us_step bid' i j (sl_active old)) (combine (seq 0 (length L)) L) (pred, upd sp i sl_empty)) in *.
    split; [|split; [|split; [|split]]].
    - constructor.
      + apply (u_plen _ _ _ _ _ _ _ _ _ _ Hfin).
      + apply (u_pwf _ _ _ _ _ _ _ _ _ _ Hfin).
      + apply (u_ent _ _ _ _ _ _ _ _ _ _ Hfin).
      + apply (u_nodup _ _ _ _ _ _ _ _ _ _ Hfin).
      + intros x c Hx Hc. destruct (u_cov _ _ _ _ _ _ _ _ _ _ Hfin x c Hx Hc) as [H|[_ []]]. exact H.
      + apply (u_ok _ _ _ _ _ _ _ _ _ _ Hfin).
    - apply (u_other _ _ _ _ _ _ _ _ _ _ Hfin).
    - intros c x Ha Hx Hc Hb. apply (u_act _ _ _ _ _ _ _ _ _ _ Hfin c x Ha Hx Hc Hb). intros [].
    - intros c x y Hx Hy Hc Hbx Hby. apply (u_ina _ _ _ _ _ _ _ _ _ _ Hfin c x y Hx Hy Hc Hbx Hby). intros [].
    - pose proof (us_fold_nact bid' i j (sl_active old) L 0 pred (upd sp i sl_empty)) as Hn. fold r in Hn.
      pose proof (nact_take sp i) as Ht. fold old in Ht. fold L. lia.
  Qed.
End Split.
