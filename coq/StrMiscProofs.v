(* StrMiscProofs.v -- proofs about StrMisc.v (property C17: is_good and the accessors of SmtString).
   [surrogate x] = 0xD800 <= x <= 0xDFFF: the only SMT characters (<= 0x2FFFF) that are not Rust chars. *)
Require Import Base Literal LiteralProofs StrSearch StrMisc.
Open Scope N_scope.

Definition surrogate (x : N) : Prop := 55296 <= x <= 57343.

(* ---- array constructor *)
Theorem from_array_spec a :
  from_array a = from_slice a /\ goodw (from_array a) /\ Forall2 clamp_spec a (from_array a).
Proof. split; [reflexivity|]. apply ctor_good_from_slice. Qed.

(* ---- good_char / good_string / is_good *)
Theorem good_char_iff x : good_char x = true <-> good x.
Proof. apply goodb_iff. Qed.

Theorem good_string_iff a : good_string a = true <-> goodw a.
Proof. apply goodwb_iff. Qed.

Theorem is_good_iff s : smt_is_good s = true <-> goodw s /\ (Z.of_nat (length s) <= MAX_LENGTH)%Z.
Proof.
  unfold smt_is_good. rewrite andb_true_iff, Z.leb_le, good_string_iff. tauto.
Qed.

(* under the assumption that the string is shorter than i32::MAX (every string a test can build) *)
Theorem is_good_iff_goodw s : (Z.of_nat (length s) <= MAX_LENGTH)%Z -> (smt_is_good s = true <-> goodw s).
Proof. intros H. rewrite is_good_iff. tauto. Qed.

(* SmtString::make accepts a vector of exactly MAX_LENGTH good characters, is_good rejects it: the two
   bounds of smt_strings.rs differ by one (n > MAX_LENGTH panics, is_good wants n < MAX_LENGTH) *)
Theorem is_good_boundary s : goodw s -> Z.of_nat (length s) = MAX_LENGTH ->
  smt_make s = Some s /\ from_vec s = s /\ smt_is_good_prefix s = false /\ smt_is_good s = true.
Proof.
  intros Hg Hl. split; [|split; [|split]].
  - unfold smt_make. rewrite Hl. reflexivity.
  - unfold from_vec. apply good_string_iff in Hg. unfold good_string in Hg. rewrite Hg. reflexivity.
  - unfold smt_is_good_prefix. rewrite Hl. reflexivity.
  - apply is_good_iff. split; [assumption|lia].
Qed.

(* ---- len / is_empty / char / iter *)
Theorem accessors_spec s :
  (smt_is_empty s = true <-> smt_len s = 0%nat) /\ (smt_is_empty s = true <-> s = []) /\
  (forall i c, smt_char s i = Some c <-> (i < smt_len s)%nat /\ nth i s 0 = c) /\
  (forall i, smt_char s i = None <-> (smt_len s <= i)%nat) /\
  smt_iter s = s /\ map (smt_char s) (seq 0 (smt_len s)) = map Some (smt_iter s).
Proof.
  unfold smt_is_empty, smt_len, smt_char, smt_iter.
  split; [destruct s; cbn; split; congruence|]. split; [destruct s; split; congruence|].
  split; [|split; [|split; [reflexivity|]]].
  - intros i c. split.
    + intros H. split; [apply nth_error_Some; congruence|apply nth_error_nth; exact H].
    + intros [Hi <-]. apply nth_error_nth'. exact Hi.
  - intros i. apply nth_error_None.
  - induction s as [|x t IH]; [reflexivity|]. cbn [length seq map nth_error]. f_equal.
    rewrite <- seq_shift, map_map. exact IH.
Qed.

(* ---- is_unicode / to_unicode_string *)
Lemma is_rust_char_iff x : is_rust_char x = true <-> ~ surrogate x /\ x <= 1114111.
Proof.
  unfold is_rust_char, surrogate. rewrite andb_true_iff, orb_true_iff, !N.ltb_lt, N.leb_le. split.
  - intros [[H|H] H2]; split; try lia.
  - intros [H H2]. split; [|exact H2]. destruct (N.lt_ge_cases x 55296); [left; assumption|right].
    destruct (N.lt_ge_cases 57343 x); [assumption|]. exfalso. apply H. lia.
Qed.

(* among the SMT characters only the surrogates are not Rust chars *)
Lemma good_rust_char x : good x -> (is_rust_char x = true <-> ~ surrogate x).
Proof.
  intros Hg. rewrite is_rust_char_iff. unfold good, MAXC in Hg. split; [tauto|].
  intros H. split; [exact H|lia].
Qed.

Theorem to_unicode_string_spec v :
  length (smt_to_unicode_string v) = length v /\
  all_unicode (smt_to_unicode_string v) = true /\
  Forall2 (fun x y => (is_rust_char x = true -> y = x) /\ (is_rust_char x = false -> y = REPLC))
          v (smt_to_unicode_string v) /\
  (smt_is_unicode v = true <-> smt_to_unicode_string v = v /\ Forall (fun x => is_rust_char x = true) v).
Proof.
  unfold smt_to_unicode_string, smt_is_unicode, map_to_unicode, all_unicode.
  split; [apply map_length|]. split; [|split].
  - rewrite forallb_forall. intros y Hy. apply in_map_iff in Hy. destruct Hy as [x [<- _]].
    destruct (is_rust_char x) eqn:E; [exact E|reflexivity].
  - induction v as [|x t IH]; cbn [map]; constructor; auto.
    destruct (is_rust_char x); split; congruence.
  - induction v as [|x t IH]; cbn [map forallb].
    + split; auto.
    + rewrite andb_true_iff, IH. split.
      * intros [Hx [Ht Hf]]. rewrite Hx. split; [f_equal; exact Ht|constructor; auto].
      * intros [He Hf]. inversion Hf; subst. split; [assumption|]. split; [|assumption].
        injection He as _ He. exact He.
Qed.

(* of a good string exactly the surrogates are replaced by U+FFFD, everything else is kept *)
Theorem to_unicode_string_good s : goodw s ->
  Forall2 (fun x y => (surrogate x -> y = REPLC) /\ (~ surrogate x -> y = x)) s (smt_to_unicode_string s) /\
  (smt_is_unicode s = true <-> Forall (fun x => ~ surrogate x) s) /\
  (smt_is_unicode s = true <-> smt_to_unicode_string s = s) /\
  goodw (smt_to_unicode_string s).
Proof.
  intros Hg. unfold smt_to_unicode_string, smt_is_unicode, map_to_unicode, all_unicode.
  induction Hg as [|x t Hx Ht [IH1 [IH2 [IH3 IH4]]]]; cbn [map forallb].
  - split; [constructor|]. split; [split; auto|]. split; [split; auto|constructor].
  - pose proof (good_rust_char x Hx) as Hr. split; [|split; [|split]].
    + constructor; [|exact IH1]. destruct (is_rust_char x) eqn:E.
      * split; [intros Hs; exfalso; apply (proj1 Hr eq_refl); exact Hs|auto].
      * split; [auto|]. intros Hn. apply Hr in Hn. discriminate.
    + rewrite andb_true_iff, IH2, Hr. split.
      * intros [H1 H2]. constructor; auto.
      * intros H. inversion H; subst. auto.
    + rewrite andb_true_iff, IH3. split.
      * intros [H1 H2]. rewrite H1, H2. reflexivity.
      * intros H. injection H as H1 H2. split; [|exact H2].
        destruct (is_rust_char x) eqn:E; [reflexivity|].
        exfalso. rewrite <- H1 in E. vm_compute in E. discriminate.
    + constructor; [|exact IH4]. destruct (is_rust_char x); [exact Hx|unfold good, REPLC, MAXC; lia].
Qed.
