(* TerminationTotal.v -- no constructor call inside a class derivative panics when the potential of
   the term is at most U32MAX: the loop bounds that the derivative function adds or multiplies are
   bounded by the potential. *)
Require Import Base CharSet Partition PartitionSpec LoopRange Regex Inclusion Constructors Deriv Denote Sem.
Require Import Lang PartitionProofs LoopRangeProofs ManagerProofs ConstructorProofs RunProofs DerivProofs.
Require Import Termination TerminationPot TerminationNorm TerminationDeriv.
Require ExploreProofs.
Open Scope N_scope.

Lemma add32_ok x y : x + y <= U32MAX -> add32 x y = Some (x + y).
Proof. intros H. unfold add32. apply N.leb_le in H. rewrite H. reflexivity. Qed.
Lemma mul32_ok x y : x * y <= U32MAX -> mul32 x y = Some (x * y).
Proof. intros H. unfold mul32. apply N.leb_le in H. rewrite H. reflexivity. Qed.

Lemma lr_add_ok a ha c hc : a + c <= U32MAX ->
  (match ha, hc with Some b, Some d => b + d <= U32MAX | _, _ => True end) ->
  exists r, lr_add (LR a ha) (LR c hc) = Some r.
Proof.
  intros H1 H2. unfold lr_add. cbn [lr_start]. rewrite (add32_ok a c H1). cbn [bind].
  destruct ha as [b|], hc as [d|]; try (eexists; reflexivity).
  rewrite (add32_ok b d H2). cbn [bind]. eexists; reflexivity.
Qed.

(* lower bounds of lpa / lvl in terms of the counters *)
Lemma lvl_ge_hi v i j : 1 <= v -> j <= lvl v (LR i (Some j)).
Proof. intros Hv. cbn [lvl]. assert (j * 1 <= j * v) by (apply N.mul_le_mono_l; exact Hv). lia. Qed.
Lemma lvl_ge_lo v i : 1 <= v -> i + 1 <= lvl v (LR i None).
Proof. intros Hv. cbn [lvl]. assert (i * 1 <= i * v) by (apply N.mul_le_mono_l; exact Hv). lia. Qed.
Lemma lpa_ge_hi p v i j : 1 <= v -> p + j <= lpa p v (LR i (Some j)) + 1.
Proof. intros Hv. cbn [lpa]. assert ((j - 1) * 1 <= (j - 1) * v) by (apply N.mul_le_mono_l; exact Hv). lia. Qed.
Lemma lpa_ge_lo p v i : 1 <= v -> p + i <= lpa p v (LR i None).
Proof. intros Hv. cbn [lpa]. assert ((i - 1) * 1 <= (i - 1) * v) by (apply N.mul_le_mono_l; exact Hv). lia. Qed.

Lemma phi_loop e x r : rnode e = NLoop x r -> phi e = CW + lpa (phi x) (vl x) r /\ vl e = lvl (vl x) r.
Proof.
  intros K. split.
  - rewrite phi_nonunion; [|rewrite is_union_node, K; reflexivity]. rewrite pa_node, K. reflexivity.
  - rewrite vl_node, K. reflexivity.
Qed.

(* ------------------------------------------------------------------------------------------ *)
(** * concat *)

Theorem concat_total : forall e1 m e2,
  wf m -> owned m e1 -> owned m e2 -> N.max (phi e1 + vl e2) (pa e2) <= U32MAX ->
  exists m' t, concat e1 m e2 = Some (m', t).
Proof.
  induction e1 as [e1 IH] using re_induction. intros m e2 W O1 O2 HB.
  pose proof (phi_ge2 e1) as H21. pose proof (vl_pos e1) as Hv1. pose proof (vl_pos e2) as Hv2.
  assert (Hmk : forall k, not_compl k -> exists m' t, make m k = Some (m', t)) by (intros k Hk; apply make_total; auto).
  rewrite concat_unfold.
  destruct (is_empty_node e1); [eexists; eexists; reflexivity|].
  destruct (is_empty_node e2); [eexists; eexists; reflexivity|].
  destruct (is_eps_node e1); [eexists; eexists; reflexivity|].
  destruct (is_eps_node e2); [eexists; eexists; reflexivity|].
  unfold concat_rules.
  destruct (rule5 e1 e2) as [rng|] eqn:R5.
  { unfold rule5 in R5. destruct (loop_of e2) as [[y r0]|] eqn:E; [|discriminate].
    destruct (re_eqb e1 y) eqn:Q; [|discriminate]. inversion R5; subst r0. apply loop_of_some in E.
    destruct (loop_child m e2 y rng W O2 E) as (Hy & Hv & _).
    apply (re_eqb_owned m e1 y O1 Hy) in Q. subst y.
    destruct (phi_loop e2 e1 rng E) as [_ Ev]. 
    assert (Hr : exists r, lr_add_point rng 1 = Some r).
    { destruct rng as [i [j|]]; unfold lr_add_point, lr_point; apply lr_add_ok; cbn [lr_valid] in Hv.
      - pose proof (lvl_ge_hi (vl e1) i j Hv1). lia.
      - pose proof (lvl_ge_hi (vl e1) i j Hv1). lia.
      - pose proof (lvl_ge_lo (vl e1) i Hv1). lia.
      - exact I. }
    destruct Hr as [r Hr]. rewrite Hr. cbn [bind]. apply Hmk. exact I. }
  destruct (rule5 e2 e1) as [rng|] eqn:R6.
  { unfold rule5 in R6. destruct (loop_of e1) as [[y r0]|] eqn:E; [|discriminate].
    destruct (re_eqb e2 y) eqn:Q; [|discriminate]. inversion R6; subst r0. apply loop_of_some in E.
    destruct (loop_child m e1 y rng W O1 E) as (Hy & Hv & _).
    apply (re_eqb_owned m e2 y O2 Hy) in Q. subst y.
    destruct (phi_loop e1 e2 rng E) as [Ep _]. pose proof (phi_ge2 e2) as H22.
    assert (Hr : exists r, lr_add_point rng 1 = Some r).
    { destruct rng as [i [j|]]; unfold lr_add_point, lr_point; apply lr_add_ok; cbn [lr_valid] in Hv.
      - pose proof (lpa_ge_hi (phi e2) (vl e2) i j Hv2). unfold CW in *. lia.
      - pose proof (lpa_ge_hi (phi e2) (vl e2) i j Hv2). unfold CW in *. lia.
      - pose proof (lpa_ge_lo (phi e2) (vl e2) i Hv2). unfold CW in *. lia.
      - exact I. }
    destruct Hr as [r Hr]. rewrite Hr. cbn [bind]. apply Hmk. exact I. }
  destruct (rule7 e1 e2) as [[[x xr] yr]|] eqn:R7.
  { unfold rule7 in R7.
    destruct (loop_of e1) as [[x1 r1]|] eqn:E1; [|discriminate].
    destruct (loop_of e2) as [[x2 r2]|] eqn:E2; [|discriminate].
    destruct (re_eqb x1 x2) eqn:Q; [|discriminate]. inversion R7; subst x1 r1 r2.
    apply loop_of_some in E1, E2.
    destruct (loop_child m e1 x xr W O1 E1) as (Hx & Hvx & _).
    destruct (loop_child m e2 x2 yr W O2 E2) as (Hy & Hvy & _).
    apply (re_eqb_owned m x x2 Hx Hy) in Q. subst x2.
    destruct (phi_loop e1 x xr E1) as [Ep _]. destruct (phi_loop e2 x yr E2) as [_ Ev].
    pose proof (phi_ge2 x) as H2x. pose proof (vl_pos x) as Hvx1.
    assert (Hr : exists r, lr_add xr yr = Some r).
    { destruct xr as [a [b|]], yr as [c [d|]]; apply lr_add_ok; cbn [lr_valid] in Hvx, Hvy;
        try exact I;
        try (pose proof (lpa_ge_hi (phi x) (vl x) a b Hvx1));
        try (pose proof (lpa_ge_lo (phi x) (vl x) a Hvx1));
        try (pose proof (lvl_ge_hi (vl x) c d Hvx1));
        try (pose proof (lvl_ge_lo (vl x) c Hvx1)); unfold CW in *; lia. }
    destruct Hr as [r Hr]. rewrite Hr. cbn [bind]. apply Hmk. exact I. }
  destruct (re_eqb e1 e2); [apply Hmk; exact I|].
  assert (Hdef : exists m' t, (if rnul e1 && re_eqb e2 (m_full m) then Some (m, e2) else make m (NConcat e1 e2)) = Some (m', t)).
  { destruct (rnul e1 && re_eqb e2 (m_full m)); [eexists; eexists; reflexivity | apply Hmk; exact I]. }
  destruct (rnode e1) as [| |s|x y|x xr|x|l|l] eqn:K; try exact Hdef.
  destruct (wf_child m W e1 x O1) as [Ox _]; [rewrite K; cbn; auto|].
  destruct (wf_child m W e1 y O1) as [Oy _]; [rewrite K; cbn; auto|].
  assert (Ep : phi e1 = CW + N.max (phi x + vl y) (pa y)).
  { rewrite phi_nonunion; [|rewrite is_union_node, K; reflexivity]. rewrite pa_node, K. reflexivity. }
  pose proof (phi_le y) as Hy.
  destruct (IH y (or_intror (or_introl eq_refl)) m e2 W Oy O2) as (m1 & rt & C1); [lia|].
  rewrite C1. cbn [bind].
  destruct (concat_ok y m e2 m1 rt W Oy O2 C1) as (W1 & X1 & Ort & _).
  destruct (concat_pot y m e2 m1 rt W Oy O2 C1) as [P1 V1].
  apply (IH x (or_introl eq_refl) m1 rt W1 (ext_owned m m1 x X1 Ox) Ort). lia.
Qed.

(* ------------------------------------------------------------------------------------------ *)
(** * mk_loop *)

Lemma mulv_ge n v : 1 <= v -> n <= n * v.
Proof. intros Hv. rewrite <- (N.mul_1_r n) at 1. apply N.mul_le_mono_l. exact Hv. Qed.

Lemma flat_bounds p v xr rg : 1 <= v -> 2 <= p -> lr_valid xr -> lr_valid rg -> lr_is_zero rg = false ->
  let L := lpa (CW + lpa p v xr) (lvl v xr) rg in
  lr_start xr * lr_start rg <= L /\
  match xr with
  | LR a (Some b) => lr_start rg * (b - a) <= L /\ match rg with LR _ (Some d) => b * d <= L | _ => True end
  | _ => True
  end.
Proof.
  intros Hv Hp Vx Vr Z. cbv zeta. unfold CW.
  destruct xr as [a [b|]], rg as [c [d|]]; cbn [lr_valid lr_start lpa lvl] in *.
  - pose proof (zero_fin c d (proj1 Vr) Z) as Hd.
    assert (Hbd : b * d <= 1 + (p + (b - 1) * v) + (d - 1) * N.max 1 (b * v)).
    { destruct (Npred_ex b) as [->|[b' ->]]; [lia|]. destruct (Npred_ex d) as [->|[d' ->]]; [lia|].
      replace (b' + 1 - 1) with b' by lia. replace (d' + 1 - 1) with d' by lia.
      pose proof (mulv_ge b' v Hv). pose proof (mulv_ge (b' + 1) v Hv).
      assert (d' * (b' + 1) <= d' * N.max 1 ((b' + 1) * v)) by (apply N.mul_le_mono_l; lia).
      replace ((b' + 1) * (d' + 1)) with (b' + 1 + d' * (b' + 1)) by ring. lia. }
    assert (a * c <= b * d) by (apply N.mul_le_mono; lia).
    assert (c * (b - a) <= d * b) by (apply N.mul_le_mono; lia).
    rewrite (N.mul_comm d b) in *. lia.
  - assert (Hbc : b * c <= 1 + (p + (b - 1) * v) + 1 + (c - 1) * N.max 1 (b * v)).
    { destruct (Npred_ex b) as [->|[b' ->]]; [lia|]. destruct (Npred_ex c) as [->|[c' ->]]; [lia|].
      replace (b' + 1 - 1) with b' by lia. replace (c' + 1 - 1) with c' by lia.
      pose proof (mulv_ge b' v Hv). pose proof (mulv_ge (b' + 1) v Hv).
      assert (c' * (b' + 1) <= c' * N.max 1 ((b' + 1) * v)) by (apply N.mul_le_mono_l; lia).
      replace ((b' + 1) * (c' + 1)) with (b' + 1 + c' * (b' + 1)) by ring. lia. }
    assert (a * c <= b * c) by (apply N.mul_le_mono_r; lia).
    assert (c * (b - a) <= c * b) by (apply N.mul_le_mono_l; lia).
    rewrite (N.mul_comm c b) in *. lia.
  - pose proof (zero_fin c d (proj1 Vr) Z) as Hd.
    assert (Had : a * d <= 1 + (p + 1 + (a - 1) * v) + (d - 1) * (a * v + 1)).
    { destruct (Npred_ex a) as [->|[a' ->]]; [lia|]. destruct (Npred_ex d) as [->|[d' ->]]; [lia|].
      replace (a' + 1 - 1) with a' by lia. replace (d' + 1 - 1) with d' by lia.
      pose proof (mulv_ge a' v Hv). pose proof (mulv_ge (a' + 1) v Hv).
      assert (d' * (a' + 1) <= d' * ((a' + 1) * v + 1)) by (apply N.mul_le_mono_l; lia).
      replace ((a' + 1) * (d' + 1)) with (a' + 1 + d' * (a' + 1)) by ring. lia. }
    assert (a * c <= a * d) by (apply N.mul_le_mono_l; lia). lia.
  - assert (Hac : a * c <= 1 + (p + 1 + (a - 1) * v) + 1 + (c - 1) * (a * v + 1)); [|lia].
    destruct (Npred_ex a) as [->|[a' ->]]; [lia|]. destruct (Npred_ex c) as [->|[c' ->]]; [lia|].
    replace (a' + 1 - 1) with a' by lia. replace (c' + 1 - 1) with c' by lia.
    pose proof (mulv_ge a' v Hv). pose proof (mulv_ge (a' + 1) v Hv).
    assert (c' * (a' + 1) <= c' * ((a' + 1) * v + 1)) by (apply N.mul_le_mono_l; lia).
    replace ((a' + 1) * (c' + 1)) with (a' + 1 + c' * (a' + 1)) by ring. lia.
Qed.

Theorem mk_loop_total m e rg : wf m -> owned m e -> lr_valid rg -> loop_pa e rg <= U32MAX ->
  exists m' t, mk_loop m e rg = Some (m', t).
Proof.
  intros W Ho Hr HB. unfold mk_loop.
  assert (Hmk : forall k, not_compl k -> exists m' t, make m k = Some (m', t)) by (intros k Hk; apply make_total; auto).
  destruct (lr_is_zero rg) eqn:Z; [eexists; eexists; reflexivity|].
  destruct (lr_is_one rg); [eexists; eexists; reflexivity|].
  destruct (rnode e) as [| |s|a b|x xr|a|l|l] eqn:K; try (apply Hmk; exact I); try (eexists; eexists; reflexivity).
  pose proof (node_valid m e x xr W Ho K) as Hxr.
  destruct (phi_loop e x xr K) as [Ep Ev]. unfold loop_pa in HB. rewrite Ep, Ev in HB.
  destruct (flat_bounds (phi x) (vl x) xr rg (vl_pos x) (phi_ge2 x) Hxr Hr Z) as [B1 B2].
  assert (Hrm : exists ex, lr_rmie xr rg = Some ex).
  { unfold lr_rmie. destruct (lr_is_point rg); [eexists; reflexivity|].
    destruct xr as [a [b|]]; [|eexists; reflexivity].
    destruct B2 as [B2 _]. rewrite (mul32_ok (lr_start rg) (b - a)); [|lia]. cbn [bind]. eexists; reflexivity. }
  destruct Hrm as [ex Hrm]. rewrite Hrm. cbn [bind]. destruct ex; [|apply Hmk; exact I].
  assert (Hmul : exists r, lr_mul xr rg = Some r).
  { unfold lr_mul. destruct (lr_is_zero xr || lr_is_zero rg); [eexists; reflexivity|].
    destruct xr as [a [b|]], rg as [c [d|]]; cbn [lr_start] in *.
    - destruct B2 as [_ B2]. rewrite (mul32_ok a c); [|lia]. cbn [bind]. rewrite (mul32_ok b d); [|lia]. cbn [bind]. eexists; reflexivity.
    - rewrite (mul32_ok a c); [|lia]. cbn [bind]. eexists; reflexivity.
    - rewrite (mul32_ok a c); [|lia]. cbn [bind]. eexists; reflexivity.
    - rewrite (mul32_ok a c); [|lia]. cbn [bind]. eexists; reflexivity. }
  destruct Hmul as [r Hmul]. rewrite Hmul. cbn [bind]. apply Hmk. exact I.
Qed.

(* ------------------------------------------------------------------------------------------ *)
(** * The derivative *)

Definition tot_spec (e : re) : Prop := forall m cid,
  dwf m -> hon m -> owned m e -> pvalid (rcls e) cid = true -> phi e <= U32MAX ->
  exists m' d, cached_deriv e m cid = Some (m', d).

Lemma coc_total m x c : wf m -> owned m x -> exists k, coc x c = Some k.
Proof.
  intros W O. pose proof (cls_wf_owned merge_ok_holds m x W O) as Hp. unfold coc.
  destruct (pclass_of_char (rcls x) c) as [k|] eqn:E; [exists k; reflexivity|].
  exfalso. apply (pclass_of_char_total (rcls x) c); [apply Hp | exact E].
Qed.

Lemma tot_deriv x : tot_spec x -> forall m c, dwf m -> hon m -> owned m x -> good c -> phi x <= U32MAX ->
  exists k m1 d1, coc x c = Some k /\ cached_deriv x m k = Some (m1, d1) /\
    (dwf m1 /\ ext m m1 /\ owned m1 d1) /\ phi d1 <= phi x /\ hon m1.
Proof.
  intros Hx m c Dm Hm O Hc HB. destruct (coc_total m x c (proj1 Dm) O) as [k K].
  destruct (coc_class merge_ok_holds m x c k (proj1 Dm) O Hc K) as [Hv _].
  destruct (Hx m k Dm Hm O Hv HB) as (m1 & d1 & D).
  destruct (cached_deriv_pot (counter m) x m k m1 d1 Dm Hm (nn_start m (proj1 Dm)) O Hv D) as (Q1 & Q2 & Q3 & _).
  exists k, m1, d1. auto.
Qed.

Lemma tot_list c : good c -> forall l, (forall x, In x l -> tot_spec x) ->
  forall m, dwf m -> hon m -> (forall x, In x l -> owned m x) -> (forall x, In x l -> phi x <= U32MAX) ->
  exists m1 ds, deriv_list c l m = Some (m1, ds) /\
    (dwf m1 /\ ext m m1 /\ forall d, In d ds -> owned m1 d) /\ hon m1 /\ Forall2 (fun x d => phi d <= phi x) l ds.
Proof.
  intros Hc. induction l as [|x t IH]; intros Hl m Dm Hm Ho HB.
  - exists m, []. split; [reflexivity|]. split; [split; [exact Dm|]; split; [apply ext_refl | intros d []]|].
    split; [exact Hm | constructor].
  - destruct (tot_deriv x (Hl x (or_introl eq_refl)) m c Dm Hm (Ho x (or_introl eq_refl)) Hc (HB x (or_introl eq_refl)))
      as (k & m2 & d & K & D & (D2 & X2 & Od) & Pd & H2).
    destruct (IH (fun y Hy => Hl y (or_intror Hy)) m2 D2 H2
                 (fun y Hy => ext_owned m m2 y X2 (Ho y (or_intror Hy))) (fun y Hy => HB y (or_intror Hy)))
      as (m1 & ds & DL & (D3 & X3 & Oall) & H3 & F).
    exists m1, (d :: ds). rewrite deriv_list_cons, K. cbn [bind]. rewrite D. cbn [bind]. rewrite DL. cbn [bind].
    split; [reflexivity|]. split; [split; [exact D3|]; split; [eapply ext_trans; eauto|]|].
    + intros y [<-|Hy]; [eapply ext_owned; eauto | apply Oall; exact Hy].
    + split; [exact H3|]. constructor; [exact Pd | exact F].
Qed.

Lemma tot_body e : (forall x, In x (children (rnode e)) -> tot_spec x) ->
  forall m c, dwf m -> hon m -> owned m e -> good c -> phi e <= U32MAX ->
  exists m' r, deriv_body e m c = Some (m', r).
Proof.
  intros IH m c [W Z] Hm Oe Hc HB.
  assert (Hch : forall x, In x (children (rnode e)) -> owned m x)
    by (intros x Hx; apply (wf_child m W e x Oe Hx)).
  pose proof (wf_terms m W e Oe) as We. apply wf_term_iff in We as (_ & _ & Hok & Hwt).
  unfold deriv_body.
  destruct (rnode e) as [| |s|e1 e2|e1 rg|e1|l|l] eqn:K; cbn [children node_ok] in *;
    try (eexists; eexists; reflexivity).
  - (* Concat *)
    assert (I1 : In e1 [e1; e2]) by (cbn; auto). assert (I2 : In e2 [e1; e2]) by (cbn; auto).
    assert (Ep : phi e = CW + N.max (phi e1 + vl e2) (pa e2)).
    { rewrite phi_nonunion; [|rewrite is_union_node, K; reflexivity]. rewrite pa_node, K. reflexivity. }
    pose proof (vl_pos e2) as Hv2. pose proof (phi_le e2) as Hle2.
    destruct (tot_deriv e1 (IH e1 I1) m c (conj W Z) Hm (Hch e1 I1) Hc) as (k1 & m1 & d1 & K1 & D1 & ([W1 Z1] & X1 & Od1) & P1 & H1); [lia|].
    rewrite K1. cbn [bind]. rewrite D1. cbn [bind].
    pose proof (ext_owned m m1 e2 X1 (Hch e2 I2)) as Oe2.
    destruct (concat_total d1 m1 e2 W1 Od1 Oe2) as (m2 & d1' & C2); [lia|]. rewrite C2. cbn [bind].
    destruct (rnul e1); [|eexists; eexists; reflexivity].
    destruct (concat_ok d1 m1 e2 m2 d1' W1 Od1 Oe2 C2) as (W2 & X2 & Od1' & _).
    pose proof (concat_nz d1 m1 e2 m2 d1' W1 Z1 Od1 Oe2 C2) as Z2.
    pose proof (hon_ext m1 m2 X2 (ExploreProofs.concat_cache d1 m1 e2 m2 d1' C2) H1) as H2.
    destruct (tot_deriv e2 (IH e2 I2) m2 c (conj W2 Z2) H2 (ext_owned m1 m2 e2 X2 Oe2) Hc) as (k2 & m3 & d2 & K2 & D2 & ([W3 Z3] & X3 & Od2) & P3 & H3); [unfold CW in *; lia|].
    rewrite K2. cbn [bind]. rewrite D2. cbn [bind]. unfold union, union_list. apply make_union_total. exact W3.
  - (* Loop *)
    assert (I1 : In e1 [e1]) by (cbn; auto).
    assert (Ep : phi e = CW + lpa (phi e1) (vl e1) rg).
    { rewrite phi_nonunion; [|rewrite is_union_node, K; reflexivity]. rewrite pa_node, K. reflexivity. }
    pose proof (lpa_ge (phi e1) (vl e1) rg) as Hge.
    destruct (tot_deriv e1 (IH e1 I1) m c (conj W Z) Hm (Hch e1 I1) Hc) as (k1 & m1 & d1 & K1 & D1 & ([W1 Z1] & X1 & Od1) & P1 & H1); [lia|].
    rewrite K1. cbn [bind]. rewrite D1. cbn [bind].
    pose proof (ext_owned m m1 e1 X1 (Hch e1 I1)) as Oe1.
    destruct (lr_is_zero (lr_shift rg)) eqn:SZ.
    + unfold mk_loop. rewrite SZ. cbn [bind]. rewrite concat_unfold.
      destruct (is_empty_node d1); [eexists; eexists; reflexivity|].
      replace (is_empty_node (m_eps m1)) with false by (rewrite (c_eps m1 (wf_consts m1 W1)); reflexivity).
      destruct (is_eps_node d1); [eexists; eexists; reflexivity|].
      replace (is_eps_node (m_eps m1)) with true by (rewrite (c_eps m1 (wf_consts m1 W1)); reflexivity).
      eexists; eexists; reflexivity.
    + destruct (shift_pot (phi e1) (vl e1) rg (vl_pos e1) Hok SZ) as [S1 S2].
      destruct (mk_loop_total m1 e1 (lr_shift rg) W1 Oe1 (shift_valid rg Hok)) as (m2 & e2 & ML); [unfold loop_pa; lia|].
      rewrite ML. cbn [bind].
      destruct (mk_loop_ok m1 e1 (lr_shift rg) m2 e2 W1 Oe1 (shift_valid rg Hok) ML) as (W2 & X2 & Oe2 & _).
      destruct (mk_loop_pot m1 e1 (lr_shift rg) m2 e2 W1 Oe1 (shift_valid rg Hok) ML) as [Q1 Q2].
      unfold loop_pa, loop_vl in *.
      apply (concat_total d1 m2 e2 W2 (ext_owned m1 m2 d1 X2 Od1) Oe2). lia.
  - (* Complement *)
    assert (I1 : In e1 [e1]) by (cbn; auto).
    assert (Ep : phi e = CW + (1 + phi e1)).
    { rewrite phi_nonunion; [|rewrite is_union_node, K; reflexivity]. rewrite pa_node, K. reflexivity. }
    destruct (tot_deriv e1 (IH e1 I1) m c (conj W Z) Hm (Hch e1 I1) Hc) as (k1 & m1 & d1 & K1 & D1 & ([W1 Z1] & X1 & Od1) & P1 & H1); [lia|].
    rewrite K1. cbn [bind]. rewrite D1. cbn [bind].
    destruct (complement_ok m1 d1 W1 Od1) as (r' & E & _). rewrite E. cbn [bind]. eexists; eexists; reflexivity.
  - (* Union *)
    assert (Ep : phi e = CW + lmax pa 1 l).
    { rewrite phi_union; [|rewrite is_union_node, K; reflexivity]. rewrite pa_node, K. reflexivity. }
    destruct (tot_list c Hc l IH m (conj W Z) Hm Hch) as (m1 & ds & DL & ([W1 Z1] & _) & _).
    { intros x Hx. pose proof (phi_le x). pose proof (lmax_ge pa 1 l x Hx). lia. }
    rewrite DL. cbn [bind]. unfold union_list. apply make_union_total. exact W1.
  - (* Inter *)
    assert (Ep : phi e = CW + (CW + lmax phi 2 l)).
    { rewrite phi_nonunion; [|rewrite is_union_node, K; reflexivity]. rewrite pa_node, K. reflexivity. }
    destruct (tot_list c Hc l IH m (conj W Z) Hm Hch) as (m1 & ds & DL & ([W1 Z1] & _) & _).
    { intros x Hx. pose proof (lmax_ge phi 2 l x Hx). lia. }
    rewrite DL. cbn [bind]. unfold inter_list. apply make_inter_total. exact W1.
Qed.

Theorem tot_spec_all : forall e, tot_spec e.
Proof.
  induction e as [e IH] using re_induction.
  intros m cid [W Z] Hm Oe Hv HB. rewrite DerivProofs.cached_deriv_unfold.
  destruct (cache_lookup (rid e) cid (cache m)) as [r|]; [eexists; eexists; reflexivity|].
  pose proof (cls_wf_owned merge_ok_holds m e W Oe) as Hp.
  destruct (ppick_spec (rcls e) cid Hp Hv) as (c & Pk & Hc & Hin). rewrite Pk. cbn [bind].
  destruct (tot_body e IH m c (conj W Z) Hm Oe Hc HB) as (m1 & r & DB). rewrite DB. cbn [bind].
  eexists; eexists; reflexivity.
Qed.

(* no constructor call inside a class derivative panics, for a term of potential <= U32MAX *)
Theorem cached_deriv_total e m cid :
  dwf m -> hon m -> owned m e -> pvalid (rcls e) cid = true -> phi e <= U32MAX ->
  exists m' d, cached_deriv e m cid = Some (m', d).
Proof. intros. apply (tot_spec_all e); auto. Qed.
