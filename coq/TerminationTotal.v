(* TerminationTotal.v -- no constructor call inside a class derivative panics.

   Before the repair of D11 this held only for terms of potential <= U32MAX (the loop bounds that the
   derivative function adds or multiplies are bounded by the potential) and this file proved that
   bounded statement.  With the repaired ReManager::concat / mk_loop (loop merging and loop-of-loop
   flattening guarded by checked arithmetic) it holds for every term: [cached_deriv_total] of
   DerivProofs.v.  What remains here is its combination with the potential invariant of the
   termination argument: a class derivative returns, and what it returns is no larger. *)
Require Import Base CharSet Partition PartitionSpec LoopRange Regex Inclusion Constructors Deriv Denote Sem.
Require Import Lang PartitionProofs LoopRangeProofs ManagerProofs ConstructorProofs RunProofs DerivProofs.
Require Import Termination TerminationPot TerminationNorm TerminationDeriv.
Open Scope N_scope.

(* a class derivative (valid class id) returns a term of no larger potential and keeps the invariants:
   no hypothesis on the size of the term or of its loop bounds *)
Theorem cached_deriv_total_pot c0 e m cid :
  dwf m -> hon m -> nn c0 m -> owned m e -> pvalid (rcls e) cid = true ->
  exists m' d, cached_deriv e m cid = Some (m', d) /\
    (dwf m' /\ ext m m' /\ owned m' d) /\ phi d <= phi e /\ hon m' /\ nn c0 m'.
Proof.
  intros Dm Hm Nm Oe Hv. destruct (cached_deriv_total e m cid Dm Oe Hv) as (m' & d & E).
  exists m', d. split; [exact E|]. exact (cached_deriv_pot c0 e m cid m' d Dm Hm Nm Oe Hv E).
Qed.
