(* ConstructorProofs.v -- C01, constructor layer: every smart constructor of the manager model
   preserves the manager invariant and builds a term whose language is the SMT-LIB operation
   applied to the languages of its arguments.  For each constructor f:
     f_ok   : wf m -> arguments owned -> f m args = Some (m', t) -> post m m' t (op (L args))
   where [post m m' t P] = wf m' /\ ext m m' /\ owned m' t /\ lang_eq (L t) P,
   and the corollaries f_wf / f_lang.
   Language algebra comes from Lang.v; loop-range arithmetic (C15) from LoopRangeProofs.v through the
   three bridge lemmas cp_add_sum, cp_add_point, cp_mul_exact. *)
Require Import Base CharSet Partition PartitionSpec LoopRange Regex Inclusion Constructors Denote Sem.
Require Import Lang LoopRangeProofs ManagerProofs.
Open Scope N_scope.

(* ------------------------------------------------------------------------------------------ *)
(** * lang_eq and the post-condition *)

Lemma lang_eq_refl (A : lang) : lang_eq A A.
Proof. intros w _. tauto. Qed.
Lemma lang_eq_sym (A B : lang) : lang_eq A B -> lang_eq B A.
Proof. intros H w Hg. symmetry. auto. Qed.
Lemma lang_eq_trans (A B C : lang) : lang_eq A B -> lang_eq B C -> lang_eq A C.
Proof. intros H1 H2 w Hg. rewrite (H1 w Hg). auto. Qed.
Lemma lang_eq_of_equiv (A B : lang) : (forall w, A w <-> B w) -> lang_eq A B.
Proof. intros H w _. apply H. Qed.

Lemma lang_eq_concat (A A' B B' : lang) :
  lang_eq A A' -> lang_eq B B' -> lang_eq (l_concat A B) (l_concat A' B').
Proof.
  intros HA HB w Hg. split; intros (u & v & -> & Hu & Hv); apply goodw_app in Hg as [Hgu Hgv];
    exists u, v; repeat split; auto; try (apply (HA u Hgu); auto); apply (HB v Hgv); auto.
Qed.
Lemma lang_eq_pow (A A' : lang) n : lang_eq A A' -> lang_eq (l_pow A n) (l_pow A' n).
Proof.
  intros H. induction n as [|n IH]; [apply lang_eq_refl|]. cbn [l_pow]. apply lang_eq_concat; auto.
Qed.
Definition l_loop (A : lang) (r : lr) : lang := fun w => exists n, in_lr n r /\ l_pow A n w.
Lemma lang_eq_loop (A A' : lang) r : lang_eq A A' -> lang_eq (l_loop A r) (l_loop A' r).
Proof.
  intros H w Hg. split; intros (n & Hn & Hp); exists n; split; auto;
    apply (lang_eq_pow A A' n H w Hg); auto.
Qed.

Definition post (m m' : mgr) (t : re) (P : lang) : Prop :=
  wf m' /\ ext m m' /\ owned m' t /\ lang_eq (L t) P.

Lemma post_same m t (P : lang) : wf m -> owned m t -> lang_eq (L t) P -> post m m t P.
Proof. intros. split; auto. split; [apply ext_refl | auto]. Qed.
Lemma post_weaken m m' t (P Q : lang) : post m m' t P -> lang_eq P Q -> post m m' t Q.
Proof. intros (H1 & H2 & H3 & H4) HQ. split; [|split; [|split]]; auto. eapply lang_eq_trans; eauto. Qed.
Lemma post_ext m m1 m' t (P : lang) : ext m m1 -> post m1 m' t P -> post m m' t P.
Proof. intros He (H1 & H2 & H3 & H4). split; [|split; [|split]]; auto. eapply ext_trans; eauto. Qed.

Lemma make_ok m k m' t :
  wf m -> not_compl k -> k_closed m k -> node_ok k -> make m k = Some (m', t) ->
  post m m' t (L (mk_node 0 k)).
Proof.
  intros W Hk Hc Hok Hmk. destruct (make_wf m k m' t W Hk Hc Hok Hmk) as (H1 & H2 & H3 & H4).
  split; [|split; [|split]]; auto. intros w _. apply (L_rnode t k w H4).
Qed.

(* the constants *)
Lemma empty_ok m : wf m -> post m m (m_empty m) (fun _ => False).
Proof.
  intros W. apply post_same; auto; [apply (c_empty_o m (wf_consts m W))|].
  apply lang_eq_of_equiv. intros w. apply L_m_empty; auto.
Qed.
Lemma eps_ok m : wf m -> post m m (m_eps m) (fun w => w = []).
Proof.
  intros W. apply post_same; auto; [apply (c_eps_o m (wf_consts m W))|].
  apply lang_eq_of_equiv. intros w. apply L_m_eps; auto.
Qed.
Lemma full_ok m : wf m -> post m m (m_full m) (fun w => goodw w).
Proof.
  intros W. apply post_same; auto; [apply (c_full_o m (wf_consts m W))|].
  apply lang_eq_of_equiv. intros w. apply L_m_full; auto.
Qed.
Lemma sigma_ok m : wf m -> post m m (m_sigma m) (fun w => exists c, w = [c] /\ good c).
Proof.
  intros W. apply post_same; auto; [apply (c_sigma_o m (wf_consts m W))|].
  apply lang_eq_of_equiv. intros w. apply L_m_sigma; auto.
Qed.
Lemma splus_ok m : wf m -> post m m (m_splus m) (fun w => goodw w /\ w <> []).
Proof.
  intros W. apply post_same; auto; [apply (c_splus_o m (wf_consts m W))|].
  apply lang_eq_of_equiv. intros w. apply L_m_splus; auto.
Qed.

(* ------------------------------------------------------------------------------------------ *)
(** * Atoms: char_set, range, mchar, smt_range *)

Definition l_set (s : cs) : lang := fun w => exists c, w = [c] /\ mem c s.

Theorem char_set_ok m s m' t :
  wf m -> cs_valid s -> char_set m s = Some (m', t) -> post m m' t (l_set s).
Proof.
  intros W Hs H. unfold char_set in H.
  apply (make_ok m (NRange s) m' t W I) in H; auto. intros c [].
Qed.

Lemma range_some m a b : a <= b -> b <= MAXC -> range m a b = char_set m (a, b).
Proof.
  intros H1 H2. unfold range.
  destruct (N.leb_spec a b); [|lia]. destruct (N.leb_spec b MAXC); [|lia]. reflexivity.
Qed.
(* None exactly when the Rust assertion a <= b && b <= MAX_CHAR fails *)
Theorem range_none m a b : wf m -> (range m a b = None <-> ~ (a <= b /\ b <= MAXC)).
Proof.
  intros W. unfold range. destruct (N.leb_spec a b); destruct (N.leb_spec b MAXC); cbn [andb];
    try (split; [intros _; lia | reflexivity]).
  split; [|intros Hn; exfalso; apply Hn; auto].
  unfold char_set. destruct (make_total m (NRange (a, b)) W I) as (m' & t & E). rewrite E. discriminate.
Qed.
Theorem range_ok m a b m' t :
  wf m -> range m a b = Some (m', t) ->
  a <= b /\ b <= MAXC /\ post m m' t (fun w => exists c, w = [c] /\ a <= c /\ c <= b).
Proof.
  intros W H. unfold range in H.
  destruct (N.leb_spec a b); destruct (N.leb_spec b MAXC); cbn [andb] in H; try discriminate.
  split; auto. split; auto.
  apply (char_set_ok m (a, b) m' t W) in H; [|split; auto]. exact H.
Qed.
Theorem mchar_ok m x m' t :
  wf m -> mchar m x = Some (m', t) -> good x /\ post m m' t (fun w => w = [x]).
Proof.
  intros W H. apply range_ok in H as (_ & H2 & H3); auto. split; [exact H2|].
  eapply post_weaken; [exact H3|]. apply lang_eq_of_equiv. intros w. split.
  - intros (c & -> & H). f_equal. lia.
  - intros ->. exists x. split; auto. lia.
Qed.
Theorem mchar_total m x : wf m -> good x -> exists m' t, mchar m x = Some (m', t).
Proof.
  intros W Hx. destruct (mchar m x) as [[m' t]|] eqn:E; [eauto|].
  apply range_none in E; auto. exfalso. apply E. unfold good in Hx. lia.
Qed.

Theorem smt_range_ok m s1 s2 m' t :
  wf m -> goodw s2 -> smt_range m s1 s2 = Some (m', t) -> post m m' t (denote (p_smtrange s1 s2)).
Proof.
  intros W Hg H. unfold smt_range, p_smtrange in *.
  destruct s1 as [|c1 [|? ?]]; try (inversion H; subst; apply empty_ok; auto).
  destruct s2 as [|c2 [|? ?]]; try (inversion H; subst; apply empty_ok; auto).
  destruct (N.leb_spec c1 c2); [|inversion H; subst; apply empty_ok; auto].
  inversion Hg as [|? ? Hc2 _]; subst. unfold good in Hc2.
  apply (char_set_ok m (c1, c2) m' t W) in H; [|split; auto].
  eapply post_weaken; [exact H|]. apply lang_eq_of_equiv. intros w. cbn [denote]. unfold l_set, mem. cbn [fst snd].
  split; intros (c & -> & Hc); exists c; split; auto; unfold good; lia.
Qed.

(* ------------------------------------------------------------------------------------------ *)
(** * Loop-range bridges (C15 facts restated over iteration counts [nat]) *)

Lemma in_lr_N n r : in_lr n r <-> inr (N.of_nat n) r.
Proof. reflexivity. Qed.

Lemma cp_add_sum r s t : lr_valid r -> lr_valid s -> lr_add r s = Some t ->
  lr_valid t /\ forall n, in_lr n t <-> exists a b, in_lr a r /\ in_lr b s /\ n = (a + b)%nat.
Proof.
  intros Hr Hs H. split; [exact (add_valid r s t Hr Hs H)|]. intros n. unfold in_lr.
  rewrite (add_sumset r s t Hr Hs H). split.
  - intros (x & y & Hx & Hy & E). exists (N.to_nat x), (N.to_nat y). rewrite !N2Nat.id.
    repeat split; auto. lia.
  - intros (a & b & Ha & Hb & ->). exists (N.of_nat a), (N.of_nat b). repeat split; auto. lia.
Qed.

Lemma cp_add_point r t : lr_valid r -> lr_add_point r 1 = Some t ->
  lr_valid t /\ forall n, in_lr n t <-> exists a, in_lr a r /\ n = S a.
Proof.
  intros Hr H. assert (H1 : 1 <= U32MAX) by (unfold U32MAX; lia).
  destruct (add_point_spec r 1 t Hr H1 H) as [Hv Hs]. split; auto. intros n. unfold in_lr.
  rewrite Hs. split.
  - intros (y & Hy & E). exists (N.to_nat y). rewrite N2Nat.id. split; auto. lia.
  - intros (a & Ha & ->). exists (N.of_nat a). split; auto. lia.
Qed.

Lemma cp_pow_loop_ksum (A : lang) xr c w :
  l_pow (l_loop A xr) c w <-> exists n, ksum_nat xr c (N.of_nat n) /\ l_pow A n w.
Proof.
  revert w. induction c as [|c IH]; intros w.
  - cbn [l_pow ksum_nat]. split.
    + intros ->. exists O. split; reflexivity.
    + intros (n & Hn & Hp). assert (n = O) by lia. subst. exact Hp.
  - cbn [l_pow ksum_nat]. split.
    + intros (u & v & -> & (a & Ha & Hu) & Hv). apply IH in Hv as (n & Hn & Hv).
      exists (a + n)%nat. split.
      * exists (N.of_nat a), (N.of_nat n). repeat split; auto. lia.
      * apply l_pow_add. exists u, v. auto.
    + intros (n & (x & k & Hx & Hk & E) & Hp).
      assert (En : n = (N.to_nat x + N.to_nat k)%nat) by lia. subst n.
      apply l_pow_add in Hp as (u & v & -> & Hu & Hv). exists u, v. repeat split; auto.
      * exists (N.to_nat x). split; auto. unfold in_lr. rewrite N2Nat.id. auto.
      * apply IH. exists (N.to_nat k). rewrite N2Nat.id. auto.
Qed.

Lemma cp_mul_exact xr range r :
  lr_valid xr -> lr_valid range -> lr_rmie xr range = Some true -> lr_mul xr range = Some r ->
  lr_valid r /\ forall (A : lang) w, l_loop A r w <-> l_loop (l_loop A xr) range w.
Proof.
  intros Hx Hr Hex Hm. split.
  - apply mul_some in Hm; auto using valid_nonempty. tauto.
  - intros A w.
    pose proof (proj1 (right_mul_is_exact_iff xr range true r Hx Hr Hex Hm) eq_refl) as Hset.
    unfold l_loop at 1 3. split.
    + intros (n & Hn & Hp). unfold in_lr in Hn. apply Hset in Hn as (y & Hy & Hk).
      exists (N.to_nat y). split; [unfold in_lr; rewrite N2Nat.id; auto|].
      apply cp_pow_loop_ksum. exists n. auto.
    + intros (c & Hc & Hp). apply cp_pow_loop_ksum in Hp as (n & Hk & Hp).
      exists n. split; auto. unfold in_lr. apply Hset. exists (N.of_nat c). split; auto.
      unfold ksum. rewrite Nat2N.id. auto.
Qed.

(* ------------------------------------------------------------------------------------------ *)
(** * mk_loop and the derived loop constructors *)

Lemma cp_pow_empty (A : lang) n w : (forall u, ~ A u) -> (l_pow A n w <-> n = O /\ w = []).
Proof.
  intros HA. destruct n as [|n]; cbn [l_pow].
  - tauto.
  - split; [intros (u & v & _ & Hu & _); exfalso; eapply HA; eauto | intros [H _]; discriminate].
Qed.
Lemma cp_pow_eps (A : lang) n w : (forall u, A u <-> u = []) -> (l_pow A n w <-> w = []).
Proof.
  intros HA. revert w. induction n as [|n IH]; intros w; cbn [l_pow]; [tauto|]. split.
  - intros (u & v & -> & Hu & Hv). apply HA in Hu. apply IH in Hv. subst. reflexivity.
  - intros ->. exists [], []. repeat split; [apply HA | apply IH]; reflexivity.
Qed.

Lemma valid_has_start r : lr_valid r -> in_lr (N.to_nat (lr_start r)) r.
Proof. unfold in_lr. rewrite N2Nat.id. intros H. apply nonempty_start, valid_nonempty, H. Qed.

Lemma loop_node_ok m e r m' t :
  wf m -> owned m e -> lr_valid r -> make m (NLoop e r) = Some (m', t) ->
  post m m' t (l_loop (L e) r).
Proof.
  intros W Ho Hr H. apply (make_ok m (NLoop e r) m' t W I) in H; auto.
  intros c [<-|[]]; auto.
Qed.

Theorem mk_loop_ok m e range m' t :
  wf m -> owned m e -> lr_valid range -> mk_loop m e range = Some (m', t) ->
  post m m' t (l_loop (L e) range).
Proof.
  intros W Ho Hr H. unfold mk_loop in H.
  destruct (lr_is_zero range) eqn:Z.
  { inversion H; subst. eapply post_weaken; [apply eps_ok; auto|].
    apply lang_eq_of_equiv. intros w. pose proof (proj1 (is_zero_iff range) Z) as Hz. unfold l_loop. split.
    - intros ->. exists O. split; [apply Hz; reflexivity | reflexivity].
    - intros (n & Hn & Hp). apply Hz in Hn. assert (n = O) by lia. subst. exact Hp. }
  destruct (lr_is_one range) eqn:O1.
  { inversion H; subst. apply post_same; auto.
    apply lang_eq_of_equiv. intros w. pose proof (proj1 (is_one_iff range) O1) as Hz. unfold l_loop. split.
    - intros Hw. exists 1%nat. split; [apply Hz; reflexivity | apply l_pow_1; auto].
    - intros (n & Hn & Hp). apply Hz in Hn. assert (n = 1%nat) by lia. subst. apply l_pow_1; auto. }
  destruct (rnode e) as [| |s|a b|x xr|a|l|l] eqn:K;
    try (apply loop_node_ok; assumption).
  - (* empty ^ range *)
    assert (HA : forall u, ~ L e u) by (intros u Hu; apply (L_rnode e _ u K) in Hu; exact Hu).
    inversion H; subst. destruct (N.eqb_spec (lr_start range) 0) as [E0|E0].
    + eapply post_weaken; [apply eps_ok; auto|]. apply lang_eq_of_equiv. intros w. unfold l_loop. split.
      * intros ->. exists O. split; [|reflexivity].
        pose proof (valid_has_start range Hr) as Hs. rewrite E0 in Hs. exact Hs.
      * intros (n & _ & Hp). apply cp_pow_empty in Hp; tauto.
    + eapply post_weaken; [apply empty_ok; auto|]. apply lang_eq_of_equiv. intros w. unfold l_loop.
      split; [tauto|]. intros (n & Hn & Hp). apply cp_pow_empty in Hp as [-> _]; auto.
      apply E0. unfold in_lr in Hn. apply start_least in Hn. lia.
  - (* epsilon ^ range *)
    assert (HA : forall u, L e u <-> u = []) by (intros u; apply (L_rnode e _ u K)).
    inversion H; subst. eapply post_weaken; [apply eps_ok; auto|].
    apply lang_eq_of_equiv. intros w. unfold l_loop. split.
    + intros ->. exists (N.to_nat (lr_start range)). split; [apply valid_has_start; auto|].
      apply cp_pow_eps; auto.
    + intros (n & _ & Hp). apply cp_pow_eps in Hp; auto.
  - (* loop of loop *)
    assert (Hch : owned m x /\ rid x < rid e) by (apply (wf_child m W e x Ho); rewrite K; cbn; auto).
    assert (Hxr : lr_valid xr).
    { pose proof (wf_terms m W e Ho) as Hw. apply wf_term_iff in Hw as (_ & _ & Hok & _).
      rewrite K in Hok. exact Hok. }
    assert (HA : forall u, L e u <-> l_loop (L x) xr u) by (intros u; apply (L_rnode e _ u K)).
    destruct (lr_rmie xr range) as [[|]|] eqn:R; try (apply loop_node_ok; assumption).
    destruct (lr_mul xr range) as [r|] eqn:M; try (apply loop_node_ok; assumption).
    destruct (cp_mul_exact xr range r Hxr Hr R M) as [Hv Hl].
    apply loop_node_ok in H; try tauto. eapply post_weaken; [exact H|].
    eapply lang_eq_trans; [apply lang_eq_of_equiv; intros w; apply Hl|].
    apply lang_eq_loop. apply lang_eq_of_equiv. intros u. symmetry. apply HA.
Qed.

Theorem mk_loop_wf m e range m' t :
  wf m -> owned m e -> lr_valid range -> mk_loop m e range = Some (m', t) ->
  wf m' /\ ext m m' /\ owned m' t.
Proof. intros W Ho Hr H. destruct (mk_loop_ok m e range m' t W Ho Hr H) as (?&?&?&?). auto. Qed.
Theorem mk_loop_lang m e range m' t :
  wf m -> owned m e -> lr_valid range -> mk_loop m e range = Some (m', t) ->
  lang_eq (L t) (fun w => exists n, in_lr n range /\ l_pow (L e) n w).
Proof. intros W Ho Hr H. destruct (mk_loop_ok m e range m' t W Ho Hr H) as (?&?&?&?). auto. Qed.

(* D11 repaired: mk_loop never panics (for any range, from any manager): the loop-of-loop
   flattening is guarded by the checked exactness test and the checked product. *)
Lemma make_nc_total m k : not_compl k -> exists m' t, make m k = Some (m', t).
Proof.
  intros Hk. rewrite (make_unfold m k Hk). cbv zeta.
  destruct (store_make m k) as [m1 x]. destruct (rid x =? counter m).
  - destruct (store_make m1 (NCompl x)) as [m2 y]. eexists; eexists; reflexivity.
  - eexists; eexists; reflexivity.
Qed.
Theorem mk_loop_total_any m e range : exists m' t, mk_loop m e range = Some (m', t).
Proof.
  unfold mk_loop.
  destruct (lr_is_zero range); [eexists; eexists; reflexivity|].
  destruct (lr_is_one range); [eexists; eexists; reflexivity|].
  destruct (rnode e) as [| |s|a b|x xr|a|l|l]; try (eexists; eexists; reflexivity);
    try (apply make_nc_total; exact I).
  destruct (lr_rmie xr range) as [[|]|]; try (apply make_nc_total; exact I).
  destruct (lr_mul xr range) as [r|]; apply make_nc_total; exact I.
Qed.
Theorem mk_loop_total m e range :
  wf m -> owned m e -> lr_valid range -> exists m' t, mk_loop m e range = Some (m', t).
Proof. intros _ _ _. apply mk_loop_total_any. Qed.
Theorem mk_loop_none m e range : mk_loop m e range <> None.
Proof. destruct (mk_loop_total_any m e range) as (m' & t & E). congruence. Qed.

Lemma in_lr_bounds n lo hi : in_lr n (LR lo hi) <-> in_bounds n lo hi.
Proof. unfold in_lr, inr, in_bounds. destruct hi; tauto. Qed.

Definition l_bounds (A : lang) (lo : N) (hi : option N) : lang :=
  fun w => exists n, in_bounds n lo hi /\ l_pow A n w.
Lemma l_loop_bounds (A : lang) lo hi : lang_eq (l_loop A (LR lo hi)) (l_bounds A lo hi).
Proof.
  apply lang_eq_of_equiv. intros w. unfold l_loop, l_bounds.
  split; intros (n & Hn & Hp); exists n; split; auto; apply in_lr_bounds; auto.
Qed.

Theorem star_ok m e m' t : wf m -> owned m e -> star m e = Some (m', t) -> post m m' t (l_bounds (L e) 0 None).
Proof.
  intros W Ho H. eapply post_weaken; [|apply l_loop_bounds].
  apply mk_loop_ok; auto. unfold lr_valid, U32MAX; cbn; lia.
Qed.
Theorem plus_ok m e m' t : wf m -> owned m e -> plus m e = Some (m', t) -> post m m' t (l_bounds (L e) 1 None).
Proof.
  intros W Ho H. eapply post_weaken; [|apply l_loop_bounds].
  apply mk_loop_ok; auto. unfold lr_valid, U32MAX; cbn; lia.
Qed.
Theorem opt_ok m e m' t : wf m -> owned m e -> opt m e = Some (m', t) -> post m m' t (l_bounds (L e) 0 (Some 1)).
Proof.
  intros W Ho H. eapply post_weaken; [|apply l_loop_bounds].
  apply mk_loop_ok; auto. unfold lr_valid, U32MAX; cbn; lia.
Qed.
Theorem exp_ok m e k m' t : wf m -> owned m e -> k <= U32MAX -> exp m e k = Some (m', t) ->
  post m m' t (l_bounds (L e) k (Some k)).
Proof.
  intros W Ho Hk H. eapply post_weaken; [|apply l_loop_bounds].
  apply mk_loop_ok; auto. unfold lr_valid; cbn; lia.
Qed.
Theorem loop_inf_ok m e i m' t : wf m -> owned m e -> i <= U32MAX -> Constructors.loop_inf m e i = Some (m', t) ->
  post m m' t (l_bounds (L e) i None).
Proof.
  intros W Ho Hk H. eapply post_weaken; [|apply l_loop_bounds].
  apply mk_loop_ok; auto.
Qed.
Theorem smt_loop_ok m e i j m' t : wf m -> owned m e -> j <= U32MAX -> smt_loop m e i j = Some (m', t) ->
  post m m' t (l_bounds (L e) i (Some j)).
Proof.
  intros W Ho Hk H. unfold smt_loop in H. destruct (N.leb_spec i j).
  - eapply post_weaken; [|apply l_loop_bounds]. apply mk_loop_ok; auto. unfold lr_valid; cbn; lia.
  - inversion H; subst. eapply post_weaken; [apply empty_ok; auto|].
    apply lang_eq_of_equiv. intros w. unfold l_bounds, in_bounds. split; [tauto|].
    intros (n & Hn & _). lia.
Qed.

(* ------------------------------------------------------------------------------------------ *)
(** * concat *)

Definition is_eps_node (e : re) := match rnode e with NEps => true | _ => false end.
(* guards of rules 5, 6 (arguments swapped) and 7 *)
Definition rule5 (e1 e2 : re) : option lr :=
  match loop_of e2 with Some (y, rng) => if re_eqb e1 y then Some rng else None | None => None end.
Definition rule7 (e1 e2 : re) : option (re * lr * lr) :=
  match loop_of e1, loop_of e2 with
  | Some (x, xr), Some (y, yr) => if re_eqb x y then Some (x, xr, yr) else None
  | _, _ => None
  end.
(* the guarded rules (D11 repaired): rule 5/6 fire only if the successor range fits in u32,
   rule 7 only if the sum of the two ranges does; they yield the range of the merged loop *)
Definition rule5g (e1 e2 : re) : option lr :=
  match loop_of e2 with Some (y, rng) => if re_eqb e1 y then lr_add_point rng 1 else None | None => None end.
Definition rule7g (e1 e2 : re) : option (re * lr) :=
  match loop_of e1, loop_of e2 with
  | Some (x, xr), Some (y, yr) =>
      if re_eqb x y then (match lr_add xr yr with Some r => Some (x, r) | None => None end) else None
  | _, _ => None
  end.
(* rules 5-10 of ReManager::concat, in source order *)
Definition concat_rules (e1 : re) (m : mgr) (e2 : re) : option (mgr * re) :=
  match rule5g e1 e2 with
  | Some r => make m (NLoop e1 r)
  | None =>
    match rule5g e2 e1 with
    | Some r => make m (NLoop e2 r)
    | None =>
      match rule7g e1 e2 with
      | Some (x, r) => make m (NLoop x r)
      | None =>
        if re_eqb e1 e2 then (make m (NLoop e1 (lr_point 2)))
        else match rnode e1 with
             | NConcat x y => do (m1, rt) <- concat y m e2; concat x m1 rt
             | _ => if rnul e1 && re_eqb e2 (m_full m) then Some (m, e2)
                    else (make m (NConcat e1 e2))
             end
      end
    end
  end.

Lemma rule5g_some e1 e2 r : rule5g e1 e2 = Some r ->
  exists rng, rule5 e1 e2 = Some rng /\ lr_add_point rng 1 = Some r.
Proof.
  unfold rule5g, rule5. destruct (loop_of e2) as [[y rng]|]; [|discriminate].
  destruct (re_eqb e1 y); [|discriminate]. intros H. exists rng. auto.
Qed.
Lemma rule5g_none e1 e2 : rule5g e1 e2 = None ->
  rule5 e1 e2 = None \/ exists rng, rule5 e1 e2 = Some rng /\ lr_add_point rng 1 = None.
Proof.
  unfold rule5g, rule5. destruct (loop_of e2) as [[y rng]|]; [|auto].
  destruct (re_eqb e1 y); [|auto]. intros H. right. exists rng. auto.
Qed.
Lemma rule7g_some e1 e2 x r : rule7g e1 e2 = Some (x, r) ->
  exists xr yr, rule7 e1 e2 = Some (x, xr, yr) /\ lr_add xr yr = Some r.
Proof.
  unfold rule7g, rule7. destruct (loop_of e1) as [[x1 xr]|]; [|discriminate].
  destruct (loop_of e2) as [[y yr]|]; [|discriminate]. destruct (re_eqb x1 y); [|discriminate].
  destruct (lr_add xr yr) as [r0|] eqn:A; [|discriminate]. intros H. inversion H; subst.
  exists xr, yr. auto.
Qed.
Lemma rule7g_none e1 e2 : rule7g e1 e2 = None ->
  rule7 e1 e2 = None \/ exists x xr yr, rule7 e1 e2 = Some (x, xr, yr) /\ lr_add xr yr = None.
Proof.
  unfold rule7g, rule7. destruct (loop_of e1) as [[x1 xr]|]; [|auto].
  destruct (loop_of e2) as [[y yr]|]; [|auto]. destruct (re_eqb x1 y); [|auto].
  destruct (lr_add xr yr) as [r0|] eqn:A; [discriminate|]. intros _. right. exists x1, xr, yr. auto.
Qed.

Lemma concat_unfold e1 m e2 :
  concat e1 m e2 =
  if is_empty_node e1 then Some (m, m_empty m)
  else if is_empty_node e2 then Some (m, m_empty m)
  else if is_eps_node e1 then Some (m, e2)
  else if is_eps_node e2 then Some (m, e1)
  else concat_rules e1 m e2.
Proof.
  destruct e1 as [i n c k1]; destruct e2 as [j n2 c2 k2]; destruct k1; destruct k2; reflexivity.
Qed.

Lemma loop_child m e x r : wf m -> owned m e -> rnode e = NLoop x r ->
  owned m x /\ lr_valid r /\ forall u, L e u <-> l_loop (L x) r u.
Proof.
  intros W Ho K. split; [|split].
  - apply (wf_child m W e x Ho). rewrite K. cbn; auto.
  - pose proof (wf_terms m W e Ho) as Hw. apply wf_term_iff in Hw as (_ & _ & Hok & _).
    rewrite K in Hok. exact Hok.
  - intros u. apply (L_rnode e _ u K).
Qed.

Lemma loop_of_some e x r : loop_of e = Some (x, r) -> rnode e = NLoop x r.
Proof. unfold loop_of. destruct (rnode e); intros H; inversion H; reflexivity. Qed.

Lemma rule5_spec m e1 e2 rng : wf m -> owned m e1 -> owned m e2 -> rule5 e1 e2 = Some rng ->
  lr_valid rng /\ forall u, L e2 u <-> l_loop (L e1) rng u.
Proof.
  intros W O1 O2 H. unfold rule5 in H. destruct (loop_of e2) as [[y r]|] eqn:E; [|discriminate].
  destruct (re_eqb e1 y) eqn:Q; [|discriminate]. inversion H; subst r.
  apply loop_of_some in E. destruct (loop_child m e2 y rng W O2 E) as (Hy & Hv & HL).
  apply (re_eqb_owned m e1 y O1 Hy) in Q. subst y. auto.
Qed.

Lemma rule7_spec m e1 e2 x xr yr : wf m -> owned m e1 -> owned m e2 -> rule7 e1 e2 = Some (x, xr, yr) ->
  owned m x /\ lr_valid xr /\ lr_valid yr /\
  (forall u, L e1 u <-> l_loop (L x) xr u) /\ (forall u, L e2 u <-> l_loop (L x) yr u).
Proof.
  intros W O1 O2 H. unfold rule7 in H.
  destruct (loop_of e1) as [[x1 r1]|] eqn:E1; [|discriminate].
  destruct (loop_of e2) as [[x2 r2]|] eqn:E2; [|discriminate].
  destruct (re_eqb x1 x2) eqn:Q; [|discriminate]. inversion H; subst.
  apply loop_of_some in E1, E2.
  destruct (loop_child m e1 x xr W O1 E1) as (Hx & Hv1 & HL1).
  destruct (loop_child m e2 x2 yr W O2 E2) as (Hy & Hv2 & HL2).
  apply (re_eqb_owned m x x2 Hx Hy) in Q. subst x2. auto.
Qed.

Lemma l_loop_concat (A : lang) r1 r2 r :
  (forall n, in_lr n r <-> exists a b, in_lr a r1 /\ in_lr b r2 /\ n = (a + b)%nat) ->
  forall w, l_loop A r w <-> l_concat (l_loop A r1) (l_loop A r2) w.
Proof.
  intros Hr w. unfold l_loop. split.
  - intros (n & Hn & Hp). apply Hr in Hn as (a & b & Ha & Hb & ->).
    apply l_pow_add in Hp as (u & v & -> & Hu & Hv). exists u, v. repeat split; eauto.
  - intros (u & v & -> & (a & Ha & Hu) & (b & Hb & Hv)). exists (a + b)%nat. split.
    + apply Hr. eauto.
    + apply l_pow_add. exists u, v. auto.
Qed.
Lemma l_loop_succ_l (A : lang) rng r :
  (forall n, in_lr n r <-> exists a, in_lr a rng /\ n = S a) ->
  forall w, l_loop A r w <-> l_concat A (l_loop A rng) w.
Proof.
  intros Hr w. unfold l_loop. split.
  - intros (n & Hn & Hp). apply Hr in Hn as (a & Ha & ->).
    destruct Hp as (u & v & -> & Hu & Hv). exists u, v. repeat split; eauto.
  - intros (u & v & -> & Hu & (a & Ha & Hv)). exists (S a). split; [apply Hr; eauto|].
    exists u, v. auto.
Qed.
Lemma l_loop_succ_r (A : lang) rng r :
  (forall n, in_lr n r <-> exists a, in_lr a rng /\ n = S a) ->
  forall w, l_loop A r w <-> l_concat (l_loop A rng) A w.
Proof.
  intros Hr w. unfold l_loop. split.
  - intros (n & Hn & Hp). apply Hr in Hn as (a & Ha & ->).
    apply l_pow_S_r in Hp as (u & v & -> & Hu & Hv). exists u, v. repeat split; eauto.
  - intros (u & v & -> & (a & Ha & Hu) & Hv). exists (S a). split; [apply Hr; eauto|].
    apply l_pow_S_r. exists u, v. auto.
Qed.
Lemma l_loop_two (A : lang) w : l_loop A (lr_point 2) w <-> l_concat A A w.
Proof.
  unfold l_loop. split.
  - intros (n & Hn & Hp). unfold in_lr, inr, lr_point in Hn. assert (n = 2%nat) by lia. subst.
    destruct Hp as (u & v & -> & Hu & Hv). apply (proj1 (l_pow_1 A v)) in Hv. exists u, v. auto.
  - intros (u & v & -> & Hu & Hv). exists 2%nat. split; [unfold in_lr, inr, lr_point; lia|].
    exists u, v. repeat split; auto. apply (proj2 (l_pow_1 A v)). exact Hv.
Qed.

Lemma lang_eq_concat_l (A B B' : lang) : lang_eq B B' -> lang_eq (l_concat A B) (l_concat A B').
Proof. intros H. apply lang_eq_concat; [apply lang_eq_refl | exact H]. Qed.

Theorem concat_ok : forall e1 m e2 m' t,
  wf m -> owned m e1 -> owned m e2 -> concat e1 m e2 = Some (m', t) ->
  post m m' t (l_concat (L e1) (L e2)).
Proof.
  induction e1 as [e1 IH] using re_induction. intros m e2 m' t W O1 O2 H.
  rewrite concat_unfold in H.
  destruct (is_empty_node e1) eqn:E1.
  { inversion H; subst. eapply post_weaken; [apply empty_ok; auto|].
    apply lang_eq_of_equiv. intros w. split; [tauto|]. intros (u & v & _ & Hu & _).
    unfold is_empty_node in E1. destruct (rnode e1) eqn:K; try discriminate.
    apply (L_rnode e1 _ u K) in Hu. exact Hu. }
  destruct (is_empty_node e2) eqn:E2.
  { inversion H; subst. eapply post_weaken; [apply empty_ok; auto|].
    apply lang_eq_of_equiv. intros w. split; [tauto|]. intros (u & v & _ & _ & Hv).
    unfold is_empty_node in E2. destruct (rnode e2) eqn:K; try discriminate.
    apply (L_rnode e2 _ v K) in Hv. exact Hv. }
  destruct (is_eps_node e1) eqn:P1.
  { inversion H; subst. apply post_same; auto. apply lang_eq_of_equiv. intros w.
    unfold is_eps_node in P1. destruct (rnode e1) eqn:K; try discriminate.
    rewrite <- (l_concat_eps_l (L t) w) at 1.
    apply l_concat_equiv; [|apply l_equiv_refl]. intros u. symmetry. apply (L_rnode e1 _ u K). }
  destruct (is_eps_node e2) eqn:P2.
  { inversion H; subst. apply post_same; auto. apply lang_eq_of_equiv. intros w.
    unfold is_eps_node in P2. destruct (rnode e2) eqn:K; try discriminate.
    rewrite <- (l_concat_eps_r (L t) w) at 1.
    apply l_concat_equiv; [apply l_equiv_refl|]. intros u. symmetry. apply (L_rnode e2 _ u K). }
  unfold concat_rules in H.
  destruct (rule5g e1 e2) as [r|] eqn:G5.
  { (* R . R^[i,j] *)
    apply rule5g_some in G5 as (rng & R5 & A).
    destruct (rule5_spec m e1 e2 rng W O1 O2 R5) as [Hv HL].
    destruct (cp_add_point rng r Hv A) as [Hvr Hr].
    apply loop_node_ok in H; auto. eapply post_weaken; [exact H|].
    apply lang_eq_of_equiv. intros w. rewrite (l_loop_succ_l (L e1) rng r Hr w).
    apply l_concat_equiv; [apply l_equiv_refl|]. intros u. symmetry. apply HL. }
  destruct (rule5g e2 e1) as [r|] eqn:G6.
  { (* R^[i,j] . R *)
    apply rule5g_some in G6 as (rng & R6 & A).
    destruct (rule5_spec m e2 e1 rng W O2 O1 R6) as [Hv HL].
    destruct (cp_add_point rng r Hv A) as [Hvr Hr].
    apply loop_node_ok in H; auto. eapply post_weaken; [exact H|].
    apply lang_eq_of_equiv. intros w. rewrite (l_loop_succ_r (L e2) rng r Hr w).
    apply l_concat_equiv; [|apply l_equiv_refl]. intros u. symmetry. apply HL. }
  destruct (rule7g e1 e2) as [[x r]|] eqn:G7.
  { (* R^[a,b] . R^[c,d] *)
    apply rule7g_some in G7 as (xr & yr & R7 & A).
    destruct (rule7_spec m e1 e2 x xr yr W O1 O2 R7) as (Hx & Hv1 & Hv2 & HL1 & HL2).
    destruct (cp_add_sum xr yr r Hv1 Hv2 A) as [Hvr Hr].
    apply loop_node_ok in H; auto. eapply post_weaken; [exact H|].
    apply lang_eq_of_equiv. intros w. rewrite (l_loop_concat (L x) xr yr r Hr w).
    apply l_concat_equiv; intros u; symmetry; [apply HL1 | apply HL2]. }
  destruct (re_eqb e1 e2) eqn:Q.
  { (* R . R *)
    apply (re_eqb_owned m e1 e2 O1 O2) in Q. subst e2.
    apply loop_node_ok in H; auto; [|unfold lr_valid, lr_point, U32MAX; lia].
    eapply post_weaken; [exact H|]. apply lang_eq_of_equiv. intros w. apply l_loop_two. }
  destruct (rnode e1) as [| |s|x y|x xr|x|l|l] eqn:K.
  4: { (* (x . y) . e2 -> x . (y . e2) *)
    destruct (wf_child m W e1 x O1) as [Ox _]; [rewrite K; cbn; auto|].
    destruct (wf_child m W e1 y O1) as [Oy _]; [rewrite K; cbn; auto|].
    destruct (concat y m e2) as [[m1 rt]|] eqn:C1; cbn [bind] in H; [|discriminate].
    destruct (IH y (or_intror (or_introl eq_refl)) m e2 m1 rt W Oy O2 C1) as (W1 & X1 & Ort & HL1).
    destruct (IH x (or_introl eq_refl) m1 rt m' t W1 (ext_owned m m1 x X1 Ox) Ort H)
      as (W2 & X2 & Ot & HL2).
    split; [exact W2|]. split; [eapply ext_trans; eauto|]. split; [exact Ot|].
    eapply lang_eq_trans; [exact HL2|].
    eapply lang_eq_trans; [apply lang_eq_concat_l; exact HL1|].
    apply lang_eq_of_equiv. intros w. rewrite <- l_concat_assoc.
    apply l_concat_equiv; [|apply l_equiv_refl]. intros u. symmetry. apply (L_rnode e1 _ u K). }
  all: destruct (rnul e1 && re_eqb e2 (m_full m)) eqn:F;
    [ apply andb_true_iff in F as [N1 F];
      apply (re_eqb_owned m e2 (m_full m) O2 (c_full_o m (wf_consts m W))) in F;
      inversion H; subst m' t; apply post_same; auto;
      intros w Hg; rewrite F; rewrite (L_m_full m w W); split; [|tauto];
      intros _; exists [], w; repeat split; auto;
        [apply (nullable_owned m e1 W O1); exact N1 | apply (L_m_full m w W); exact Hg]
    | apply (make_ok m (NConcat e1 e2) m' t W I) in H;
      [exact H | intros c0 [<-|[<-|[]]]; assumption | exact I] ].
Qed.

Theorem concat_wf e1 m e2 m' t :
  wf m -> owned m e1 -> owned m e2 -> concat e1 m e2 = Some (m', t) ->
  wf m' /\ ext m m' /\ owned m' t.
Proof. intros W O1 O2 H. destruct (concat_ok e1 m e2 m' t W O1 O2 H) as (?&?&?&?). auto. Qed.
Theorem concat_lang e1 m e2 m' t :
  wf m -> owned m e1 -> owned m e2 -> concat e1 m e2 = Some (m', t) ->
  lang_eq (L t) (l_concat (L e1) (L e2)).
Proof. intros W O1 O2 H. destruct (concat_ok e1 m e2 m' t W O1 O2 H) as (?&?&?&?). auto. Qed.

(* D11 repaired: concat never panics, from any manager and on any two terms: a loop-merging rule
   whose new bounds do not fit in u32 does not apply and the match falls through. *)
Theorem concat_total_any : forall e1 m e2, exists m' t, concat e1 m e2 = Some (m', t).
Proof.
  induction e1 as [e1 IH] using re_induction. intros m e2.
  rewrite concat_unfold.
  destruct (is_empty_node e1); [eexists; eexists; reflexivity|].
  destruct (is_empty_node e2); [eexists; eexists; reflexivity|].
  destruct (is_eps_node e1); [eexists; eexists; reflexivity|].
  destruct (is_eps_node e2); [eexists; eexists; reflexivity|].
  unfold concat_rules.
  destruct (rule5g e1 e2) as [r|]; [apply make_nc_total; exact I|].
  destruct (rule5g e2 e1) as [r|]; [apply make_nc_total; exact I|].
  destruct (rule7g e1 e2) as [[x r]|]; [apply make_nc_total; exact I|].
  destruct (re_eqb e1 e2); [apply make_nc_total; exact I|].
  destruct (rnode e1) as [| |s|x y|x xr|x|l|l] eqn:K.
  4: { destruct (IH y (or_intror (or_introl eq_refl)) m e2) as (m1 & rt & C1). rewrite C1. cbn [bind].
       apply (IH x (or_introl eq_refl)). }
  all: destruct (rnul e1 && re_eqb e2 (m_full m)); [eexists; eexists; reflexivity|];
    apply make_nc_total; exact I.
Qed.
Theorem concat_total e1 m e2 :
  wf m -> owned m e1 -> owned m e2 -> exists m' t, concat e1 m e2 = Some (m', t).
Proof. intros _ _ _. apply concat_total_any. Qed.
Theorem concat_none e1 m e2 : concat e1 m e2 <> None.
Proof. destruct (concat_total_any e1 m e2) as (m' & t & E). congruence. Qed.

(* the merged loop is NOT built exactly when the merged bounds leave u32 (the pre-repair code
   panicked there); the rule then falls through *)
Definition add_overflow (e1 e2 : re) : Prop :=
  (exists rng, (rule5 e1 e2 = Some rng \/ rule5 e2 e1 = Some rng) /\ lr_add_point rng 1 = None) \/
  (exists x xr yr, rule7 e1 e2 = Some (x, xr, yr) /\ lr_add xr yr = None).

(* ------------------------------------------------------------------------------------------ *)
(** * The pre-repair constructors (defect D11), kept only to state what the repair changed

   [concat_prefix] / [mk_loop_prefix] are ReManager::concat / mk_loop as they were before the repair:
   the loop-merging rules 5, 6, 7 and the loop-of-loop flattening used the panicking u32 arithmetic
   of LoopRange (None = panic).  The repair changes nothing wherever the old code returned. *)

Fixpoint concat_prefix (e1 : re) (m : mgr) (e2 : re) {struct e1} : option (mgr * re) :=
  match e1 with
  | Node _ _ _ k1 =>
    match k1, rnode e2 with
    | NEmpty, _ => Some (m, m_empty m)
    | _, NEmpty => Some (m, m_empty m)
    | NEps, _ => Some (m, e2)
    | _, NEps => Some (m, e1)
    | _, _ =>
      match (match loop_of e2 with Some (y, rng) => if re_eqb e1 y then Some rng else None | None => None end) with
      | Some rng => do r <- lr_add_point rng 1; (make m (NLoop e1 r))
      | None =>
        match (match loop_of e1 with Some (x, rng) => if re_eqb e2 x then Some rng else None | None => None end) with
        | Some rng => do r <- lr_add_point rng 1; (make m (NLoop e2 r))
        | None =>
          match (match loop_of e1, loop_of e2 with
                 | Some (x, xr), Some (y, yr) => if re_eqb x y then Some (x, xr, yr) else None
                 | _, _ => None end) with
          | Some (x, xr, yr) => do r <- lr_add xr yr; (make m (NLoop x r))
          | None =>
            if re_eqb e1 e2 then (make m (NLoop e1 (lr_point 2)))
            else match k1 with
                 | NConcat x y =>
                     do (m1, rt) <- concat_prefix y m e2; concat_prefix x m1 rt
                 | _ =>
                     if rnul e1 && re_eqb e2 (m_full m) then Some (m, e2)
                     else (make m (NConcat e1 e2))
                 end
          end
        end
      end
    end
  end.
Definition mk_loop_prefix (m : mgr) (e : re) (range : lr) : option (mgr * re) :=
  if lr_is_zero range then Some (m, m_eps m)
  else if lr_is_one range then Some (m, e)
  else match rnode e with
       | NEmpty => Some (m, if lr_start range =? 0 then m_eps m else m_empty m)
       | NEps => Some (m, m_eps m)
       | NLoop x xr =>
           do ex <- lr_rmie xr range;
           if ex then (do r <- lr_mul xr range; (make m (NLoop x r)))
           else (make m (NLoop e range))
       | _ => (make m (NLoop e range))
       end.

Definition concat_prefix_rules (e1 : re) (m : mgr) (e2 : re) : option (mgr * re) :=
  match rule5 e1 e2 with
  | Some rng => do r <- lr_add_point rng 1; (make m (NLoop e1 r))
  | None =>
    match rule5 e2 e1 with
    | Some rng => do r <- lr_add_point rng 1; (make m (NLoop e2 r))
    | None =>
      match rule7 e1 e2 with
      | Some (x, xr, yr) => do r <- lr_add xr yr; (make m (NLoop x r))
      | None =>
        if re_eqb e1 e2 then (make m (NLoop e1 (lr_point 2)))
        else match rnode e1 with
             | NConcat x y => do (m1, rt) <- concat_prefix y m e2; concat_prefix x m1 rt
             | _ => if rnul e1 && re_eqb e2 (m_full m) then Some (m, e2)
                    else (make m (NConcat e1 e2))
             end
      end
    end
  end.
Lemma concat_prefix_unfold e1 m e2 :
  concat_prefix e1 m e2 =
  if is_empty_node e1 then Some (m, m_empty m)
  else if is_empty_node e2 then Some (m, m_empty m)
  else if is_eps_node e1 then Some (m, e2)
  else if is_eps_node e2 then Some (m, e1)
  else concat_prefix_rules e1 m e2.
Proof.
  destruct e1 as [i n c k1]; destruct e2 as [j n2 c2 k2]; destruct k1; destruct k2; reflexivity.
Qed.

Lemma rule5g_eq e1 e2 :
  rule5g e1 e2 = match rule5 e1 e2 with Some rng => lr_add_point rng 1 | None => None end.
Proof. unfold rule5g, rule5. destruct (loop_of e2) as [[y rng]|]; [|reflexivity]. destruct (re_eqb e1 y); reflexivity. Qed.
Lemma rule7g_eq e1 e2 :
  rule7g e1 e2 = match rule7 e1 e2 with
                 | Some (x, xr, yr) => match lr_add xr yr with Some r => Some (x, r) | None => None end
                 | None => None
                 end.
Proof.
  unfold rule7g, rule7. destruct (loop_of e1) as [[x xr]|]; [|reflexivity].
  destruct (loop_of e2) as [[y yr]|]; [|reflexivity]. destruct (re_eqb x y); reflexivity.
Qed.

(* wherever the pre-repair concat returned, the repaired concat returns the same manager and term *)
Theorem concat_prefix_agrees : forall e1 m e2 r, concat_prefix e1 m e2 = Some r -> concat e1 m e2 = Some r.
Proof.
  induction e1 as [e1 IH] using re_induction. intros m e2 r H.
  rewrite concat_prefix_unfold in H. rewrite concat_unfold.
  destruct (is_empty_node e1); [exact H|]. destruct (is_empty_node e2); [exact H|].
  destruct (is_eps_node e1); [exact H|]. destruct (is_eps_node e2); [exact H|].
  unfold concat_prefix_rules in H. unfold concat_rules.
  rewrite (rule5g_eq e1 e2), (rule5g_eq e2 e1), (rule7g_eq e1 e2).
  destruct (rule5 e1 e2) as [rng|].
  { destruct (lr_add_point rng 1) as [r0|]; cbn [bind] in H; [exact H | discriminate]. }
  destruct (rule5 e2 e1) as [rng|].
  { destruct (lr_add_point rng 1) as [r0|]; cbn [bind] in H; [exact H | discriminate]. }
  destruct (rule7 e1 e2) as [[[x xr] yr]|].
  { destruct (lr_add xr yr) as [r0|]; cbn [bind] in H; [exact H | discriminate]. }
  destruct (re_eqb e1 e2); [exact H|].
  destruct (rnode e1) as [| |s|x y|x xr|x|l|l] eqn:K; try exact H.
  destruct (concat_prefix y m e2) as [[m1 rt]|] eqn:C1; cbn [bind] in H; [|discriminate].
  rewrite (IH y (or_intror (or_introl eq_refl)) m e2 (m1, rt) C1). cbn [bind].
  apply (IH x (or_introl eq_refl)). exact H.
Qed.
Theorem mk_loop_prefix_agrees m e range r : mk_loop_prefix m e range = Some r -> mk_loop m e range = Some r.
Proof.
  unfold mk_loop_prefix, mk_loop. destruct (lr_is_zero range); [auto|]. destruct (lr_is_one range); [auto|].
  destruct (rnode e) as [| |s|a b|x xr|a|l|l]; auto.
  destruct (lr_rmie xr range) as [[|]|]; cbn [bind]; try discriminate; auto.
  destruct (lr_mul xr range) as [r0|]; cbn [bind]; [auto | discriminate].
Qed.
(* the pre-repair concat panicked exactly where some loop-range addition on the way overflowed: see
   [add_overflow]; the repaired one returns there too (concat_total_any) *)
Theorem concat_repair e1 m e2 :
  (exists r, concat_prefix e1 m e2 = Some r /\ concat e1 m e2 = Some r) \/
  (concat_prefix e1 m e2 = None /\ exists r, concat e1 m e2 = Some r).
Proof.
  destruct (concat_prefix e1 m e2) as [r|] eqn:E.
  - left. exists r. split; [reflexivity | apply concat_prefix_agrees; exact E].
  - right. split; [reflexivity|]. destruct (concat_total_any e1 m e2) as (m' & t & C). eauto.
Qed.

(* the pre-repair concat panicked only when an addition of loop bounds overflowed u32 (this was
   theorem concat_none before the repair) *)
Theorem concat_prefix_none : forall e1 m e2, wf m -> owned m e1 -> owned m e2 -> concat_prefix e1 m e2 = None ->
  exists a m1 b, wf m1 /\ ext m m1 /\ owned m1 a /\ owned m1 b /\ add_overflow a b.
Proof.
  induction e1 as [e1 IH] using re_induction. intros m e2 W O1 O2 H.
  assert (Hmk : forall k, not_compl k -> make m k <> None).
  { intros k Hk E. destruct (make_total m k W Hk) as (m' & t & E'). congruence. }
  assert (Hhere : add_overflow e1 e2 ->
            exists a m1 b, wf m1 /\ ext m m1 /\ owned m1 a /\ owned m1 b /\ add_overflow a b).
  { intros Hov. exists e1, m, e2. split; [exact W|]. split; [apply ext_refl|]. auto. }
  rewrite concat_prefix_unfold in H.
  destruct (is_empty_node e1); [discriminate|]. destruct (is_empty_node e2); [discriminate|].
  destruct (is_eps_node e1); [discriminate|]. destruct (is_eps_node e2); [discriminate|].
  unfold concat_prefix_rules in H.
  destruct (rule5 e1 e2) as [rng|] eqn:R5.
  { destruct (lr_add_point rng 1) as [r|] eqn:A; cbn [bind] in H; [exfalso; apply (Hmk (NLoop e1 r) I H)|].
    apply Hhere. left. exists rng. auto. }
  destruct (rule5 e2 e1) as [rng|] eqn:R6.
  { destruct (lr_add_point rng 1) as [r|] eqn:A; cbn [bind] in H; [exfalso; apply (Hmk (NLoop e2 r) I H)|].
    apply Hhere. left. exists rng. auto. }
  destruct (rule7 e1 e2) as [[[x xr] yr]|] eqn:R7.
  { destruct (lr_add xr yr) as [r|] eqn:A; cbn [bind] in H; [exfalso; apply (Hmk (NLoop x r) I H)|].
    apply Hhere. right. exists x, xr, yr. auto. }
  destruct (re_eqb e1 e2); [exfalso; apply (Hmk (NLoop e1 (lr_point 2)) I H)|].
  destruct (rnode e1) as [| |s|x y|x xr|x|l|l] eqn:K.
  4: { destruct (wf_child m W e1 x O1) as [Ox _]; [rewrite K; cbn; auto|].
       destruct (wf_child m W e1 y O1) as [Oy _]; [rewrite K; cbn; auto|].
       destruct (concat_prefix y m e2) as [[m1 rt]|] eqn:C1; cbn [bind] in H.
       - destruct (concat_ok y m e2 m1 rt W Oy O2 (concat_prefix_agrees y m e2 _ C1)) as (W1 & X1 & Ort & _).
         destruct (IH x (or_introl eq_refl) m1 rt W1 (ext_owned m m1 x X1 Ox) Ort H)
           as (a & m2 & b & W2 & X2 & Hrest).
         exists a, m2, b. split; [exact W2|]. split; [eapply ext_trans; eauto | exact Hrest].
       - apply (IH y (or_intror (or_introl eq_refl)) m e2 W Oy O2 C1). }
  all: destruct (rnul e1 && re_eqb e2 (m_full m)); [discriminate|];
    exfalso; apply (Hmk (NConcat e1 e2) I H).
Qed.

(* ------------------------------------------------------------------------------------------ *)
(** * concat_list and str *)

Definition l_prod (l : list re) : lang := fold_right (fun e A => l_concat (L e) A) l_eps l.

Lemma l_prod_app l1 l2 w : l_prod (l1 ++ l2) w <-> l_concat (l_prod l1) (l_prod l2) w.
Proof.
  revert w. induction l1 as [|a t IH]; intros w; cbn [app l_prod fold_right].
  - symmetry. apply l_concat_eps_l.
  - fold (l_prod (t ++ l2)). fold (l_prod t). rewrite l_concat_assoc.
    apply l_concat_equiv; [apply l_equiv_refl | exact IH].
Qed.

Lemma flatten_concat_unfold e :
  flatten_concat e = match rnode e with
                     | NEps => []
                     | NConcat x y => flatten_concat x ++ flatten_concat y
                     | _ => [e]
                     end.
Proof. destruct e as [i n c k]; destruct k; reflexivity. Qed.

Lemma flatten_concat_ok m : wf m -> forall e, owned m e ->
  (forall x, In x (flatten_concat e) -> owned m x) /\ forall w, l_prod (flatten_concat e) w <-> L e w.
Proof.
  intros W. induction e as [e IH] using re_induction. intros Ho.
  rewrite flatten_concat_unfold.
  destruct (rnode e) as [| |s|x y|x xr|x|l|l] eqn:K;
    try (split; [intros z [<-|[]]; exact Ho | intros w; cbn; apply l_concat_eps_r]).
  - split; [intros z []|]. intros w. cbn. symmetry. apply (L_rnode e _ w K).
  - destruct (wf_child m W e x Ho) as [Ox _]; [rewrite K; cbn; auto|].
    destruct (wf_child m W e y Ho) as [Oy _]; [rewrite K; cbn; auto|].
    destruct (IH x (or_introl eq_refl) Ox) as [Hx1 Hx2].
    destruct (IH y (or_intror (or_introl eq_refl)) Oy) as [Hy1 Hy2].
    split.
    + intros z Hz. apply in_app_or in Hz as [Hz|Hz]; auto.
    + intros w. rewrite l_prod_app. rewrite (L_rnode e _ w K). cbn [L mk_node].
      apply l_concat_equiv; assumption.
Qed.

Lemma flat_map_flatten_concat_ok m l : wf m -> (forall x, In x l -> owned m x) ->
  (forall x, In x (flat_map flatten_concat l) -> owned m x) /\
  forall w, l_prod (flat_map flatten_concat l) w <-> l_prod l w.
Proof.
  intros W. induction l as [|a t IH]; intros Ho; cbn [flat_map].
  - split; [intros x [] | tauto].
  - destruct (flatten_concat_ok m W a (Ho a (or_introl eq_refl))) as [Ha1 Ha2].
    destruct IH as [Ht1 Ht2]; [intros x Hx; apply Ho; cbn; auto|]. split.
    + intros x Hx. apply in_app_or in Hx as [Hx|Hx]; auto.
    + intros w. rewrite l_prod_app. cbn [l_prod fold_right]. fold (l_prod t).
      rewrite <- (l_concat_equiv _ _ _ _ (fun u => Ha2 u) (fun v => Ht2 v) w).
      apply l_concat_equiv; [|apply l_equiv_refl].
      intros u. apply l_equiv_refl.
Qed.

Lemma concat_list_go_ok : forall rv m acc m' t,
  wf m -> (forall x, In x rv -> owned m x) -> owned m acc ->
  concat_list_go m rv acc = Some (m', t) ->
  post m m' t (l_concat (l_prod (rev rv)) (L acc)).
Proof.
  induction rv as [|x rv IH]; intros m acc m' t W Hrv Hacc H; cbn [concat_list_go] in H.
  - inversion H; subst. apply post_same; auto. apply lang_eq_of_equiv. intros w.
    cbn. symmetry. apply l_concat_eps_l.
  - destruct (concat x m acc) as [[m1 r]|] eqn:C; cbn [bind] in H; [|discriminate].
    destruct (concat_ok x m acc m1 r W (Hrv x (or_introl eq_refl)) Hacc C) as (W1 & X1 & Or & HL).
    apply IH in H; auto.
    + apply (post_ext m m1 m' t _ X1). eapply post_weaken; [exact H|].
      eapply lang_eq_trans; [apply lang_eq_concat_l; exact HL|].
      apply lang_eq_of_equiv. intros w. cbn [rev]. rewrite <- l_concat_assoc.
      apply l_concat_equiv; [|apply l_equiv_refl]. intros u. rewrite l_prod_app.
      apply l_concat_equiv; [apply l_equiv_refl|]. intros v. cbn. symmetry. apply l_concat_eps_r.
    + intros z Hz. apply (ext_owned m m1 z X1). apply Hrv. cbn; auto.
Qed.

Theorem concat_list_ok m l m' t :
  wf m -> (forall x, In x l -> owned m x) -> concat_list m l = Some (m', t) ->
  post m m' t (l_prod l).
Proof.
  intros W Hl H. unfold concat_list in H.
  destruct (flat_map_flatten_concat_ok m l W Hl) as [Ho HL].
  apply concat_list_go_ok in H; auto.
  - eapply post_weaken; [exact H|]. apply lang_eq_of_equiv. intros w. rewrite rev_involutive.
    rewrite <- (HL w). rewrite <- (l_concat_eps_r (l_prod (flat_map flatten_concat l)) w) at 1.
    apply l_concat_equiv; [apply l_equiv_refl|]. intros v. apply L_m_eps; auto.
  - intros x Hx. apply Ho. apply in_rev. exact Hx.
  - apply (c_eps_o m (wf_consts m W)).
Qed.

Lemma str_go_ok : forall rw m acc u m' t,
  wf m -> owned m acc -> lang_eq (L acc) (fun w => w = u) ->
  str_go m rw acc = Some (m', t) ->
  goodw rw /\ post m m' t (fun w => w = rev rw ++ u).
Proof.
  induction rw as [|c rw IH]; intros m acc u m' t W Ho HL H; cbn [str_go] in H.
  - inversion H; subst. split; [constructor|]. apply post_same; auto.
  - destruct (mchar m c) as [[m1 ch]|] eqn:C; cbn [bind] in H; [|discriminate].
    destruct (mchar_ok m c m1 ch W C) as (Hc & W1 & X1 & Och & HLc).
    destruct (concat ch m1 acc) as [[m2 r]|] eqn:C2; cbn [bind] in H; [|discriminate].
    destruct (concat_ok ch m1 acc m2 r W1 Och (ext_owned m m1 acc X1 Ho) C2) as (W2 & X2 & Or & HLr).
    apply (IH m2 r (c :: u)) in H; auto.
    + destruct H as [Hg Hp]. split; [constructor; auto|].
      apply (post_ext m m2 m' t _ (ext_trans _ _ _ X1 X2)). eapply post_weaken; [exact Hp|].
      apply lang_eq_of_equiv. intros w. cbn [rev]. rewrite <- app_assoc. cbn. tauto.
    + eapply lang_eq_trans; [exact HLr|].
      eapply lang_eq_trans; [apply lang_eq_concat; [exact HLc | exact HL]|].
      apply lang_eq_of_equiv. intros w. split.
      * intros (a & b & -> & -> & ->). reflexivity.
      * intros ->. exists [c], u. auto.
Qed.

Theorem mstr_ok m w m' t :
  wf m -> mstr m w = Some (m', t) -> goodw w /\ post m m' t (fun x => x = w).
Proof.
  intros W H. unfold mstr in H.
  apply (str_go_ok (rev w) m (m_eps m) [] m' t W) in H.
  - destruct H as [Hg Hp]. split.
    + unfold goodw in *. rewrite Forall_forall in *. intros x Hx. apply Hg. apply in_rev in Hx. exact Hx.
    + eapply post_weaken; [exact Hp|]. apply lang_eq_of_equiv. intros x.
      rewrite rev_involutive, app_nil_r. tauto.
  - apply (c_eps_o m (wf_consts m W)).
  - apply lang_eq_of_equiv. intros x. apply L_m_eps; auto.
Qed.

(* ------------------------------------------------------------------------------------------ *)
(** * simplify_set_operation: structure *)

Lemma insert_by_id_in x a l : In x (insert_by_id a l) <-> x = a \/ In x l.
Proof.
  induction l as [|b t IH]; cbn [insert_by_id].
  - cbn. intuition.
  - destruct (rid a <=? rid b); cbn [In]; [intuition|]. rewrite IH. intuition.
Qed.
Lemma sort_by_id_in x l : In x (sort_by_id l) <-> In x l.
Proof.
  induction l as [|a t IH]; cbn [sort_by_id fold_right]; [tauto|].
  fold (sort_by_id t). rewrite insert_by_id_in, IH. cbn. intuition.
Qed.

Lemma dedup_cons2 x y t :
  dedup (x :: y :: t) = if re_eqb x y then dedup (y :: t) else x :: dedup (y :: t).
Proof. reflexivity. Qed.

Lemma dedup_in_sub : forall l x, In x (dedup l) -> In x l.
Proof.
  induction l as [|a l IH]; intros x H; [exact H|].
  destruct l as [|b t]; [exact H|]. rewrite dedup_cons2 in H.
  destruct (re_eqb a b).
  - right. apply IH. exact H.
  - destruct H as [<-|H]; [left; reflexivity | right; apply IH; exact H].
Qed.
Lemma dedup_in_id : forall l x, In x l -> exists x', In x' (dedup l) /\ rid x' = rid x.
Proof.
  induction l as [|a l IH]; intros x H; [destruct H|].
  destruct l as [|b t]; [exists x; auto|]. rewrite dedup_cons2.
  destruct (re_eqb a b) eqn:Q.
  - destruct H as [<-|H].
    + apply N.eqb_eq in Q. destruct (IH b (or_introl eq_refl)) as (x' & H1 & H2).
      exists x'. split; auto. congruence.
    + apply IH. exact H.
  - destruct H as [<-|H].
    + exists a. split; [left|]; reflexivity.
    + destruct (IH x H) as (x' & H1 & H2). exists x'. split; [right|]; auto.
Qed.

Lemma contains_true : forall v x, contains v x = true -> exists y, In y v /\ rid y = rid x.
Proof.
  induction v as [|y t IH]; intros x H; cbn [contains] in H; [discriminate|].
  destruct (re_eqb y x) eqn:Q.
  - exists y. split; [left; reflexivity | apply N.eqb_eq; exact Q].
  - destruct (rid x <? rid y); [discriminate|]. destruct (IH x H) as (z & H1 & H2).
    exists z. split; [right|]; auto.
Qed.

Definition not_bottom (bottom : re) (c : re) : bool := negb (re_eqb c bottom).

Lemma simplify_go_spec : forall rest prev acc bottom top,
  (simplify_go rest prev acc bottom top = [top] /\
   exists x y, In x (prev :: rest) /\ In y rest /\ rid y = rid x + 1 /\ N.even (rid x) = true) \/
  simplify_go rest prev acc bottom top = acc ++ filter (not_bottom bottom) rest.
Proof.
  induction rest as [|cur t IH]; intros prev acc bottom top; cbn [simplify_go filter].
  - right. rewrite app_nil_r. reflexivity.
  - destruct ((rid cur =? rid prev + 1) && N.even (rid prev)) eqn:P.
    + left. split; [reflexivity|]. apply andb_true_iff in P as [P1 P2]. apply N.eqb_eq in P1.
      exists prev, cur. cbn; auto.
    + unfold not_bottom at 1. destruct (negb (re_eqb cur bottom)).
      * destruct (IH cur (acc ++ [cur]) bottom top) as [[E (x & y & Hx & Hy & H)] | E].
        -- left. split; [exact E|]. exists x, y. cbn in *. intuition.
        -- right. rewrite E, <- app_assoc. reflexivity.
      * destruct (IH prev acc bottom top) as [[E (x & y & Hx & Hy & H)] | E].
        -- left. split; [exact E|]. exists x, y. cbn in *. intuition.
        -- right. exact E.
Qed.

(* outcome of the simplification: either the absorbing element (because it occurs in v or
   because v contains a complementary pair), or v without the neutral element *)
Lemma simplify_spec m v bottom top :
  (forall x, In x v -> owned m x) -> owned m bottom -> owned m top ->
  let v' := simplify_set_operation v bottom top in
  (v' = [top] /\
   (In top v \/ exists x y, In x v /\ In y v /\ rid y = rid x + 1 /\ N.even (rid x) = true)) \/
  (forall x, In x v' <-> In x v /\ x <> bottom).
Proof.
  intros Hv Hb Ht. cbv zeta. unfold simplify_set_operation.
  destruct v as [|a0 v0]; [right; intros x; cbn; tauto|].
  set (v := a0 :: v0) in *. remember (dedup (sort_by_id v)) as v1 eqn:Ev1.
  assert (H1 : forall x, In x v1 <-> In x v).
  { intros x. split.
    - intros H. rewrite Ev1 in H. apply dedup_in_sub in H. apply (proj1 (sort_by_id_in x v)) in H. exact H.
    - intros H. apply (proj2 (sort_by_id_in x v)) in H. destruct (dedup_in_id _ x H) as (x' & Hx' & E).
      rewrite <- Ev1 in Hx'. pose proof Hx' as Hx''. rewrite Ev1 in Hx''.
      assert (x' = x); [|subst; auto].
      apply (id_inj m); auto; apply Hv; [|apply (proj1 (sort_by_id_in x v)); auto].
      apply (proj1 (sort_by_id_in x' v)). apply dedup_in_sub. exact Hx''. }
  destruct (contains v1 top) eqn:C.
  - left. split; [reflexivity|]. left. apply contains_true in C as (y & Hy & E).
    apply H1 in Hy. assert (y = top) by (apply (id_inj m); auto). subst. exact Hy.
  - destruct v1 as [|b0 t1]; [right; intros x; split; [intros [] | intros [Hx _]; apply H1 in Hx; destruct Hx]|].
    destruct (simplify_go_spec t1 b0 (if re_eqb b0 bottom then [] else [b0]) bottom top)
      as [[E (x & y & Hx & Hy & H)] | E].
    + left. split; [exact E|]. right. exists x, y. split; [apply H1; exact Hx|].
      split; [apply H1; right; exact Hy | exact H].
    + right. rewrite E. intros x. rewrite <- H1. rewrite in_app_iff, filter_In. unfold not_bottom.
      assert (Hneq : forall z, In z (b0 :: t1) -> (negb (re_eqb z bottom) = true <-> z <> bottom)).
      { intros z Hz. rewrite negb_true_iff. split.
        - intros Q ->. unfold re_eqb in Q. rewrite N.eqb_refl in Q. discriminate.
        - intros Hne. destruct (re_eqb z bottom) eqn:Q; auto. exfalso. apply Hne.
          apply (re_eqb_owned m); auto. apply Hv. apply H1. exact Hz. }
      split.
      * intros [H|[H Q]].
        -- destruct (re_eqb b0 bottom) eqn:Q; [destruct H|]. destruct H as [<-|[]].
           split; [left; reflexivity|]. apply Hneq; [left; reflexivity|]. rewrite Q. reflexivity.
        -- split; [right; exact H|]. apply Hneq; [right; exact H | exact Q].
      * intros [[<-|H] Hne].
        -- left. destruct (re_eqb b0 bottom) eqn:Q; [|left; reflexivity].
           exfalso. apply (Hneq b0 (or_introl eq_refl)) in Hne. rewrite Q in Hne. discriminate.
        -- right. split; [exact H|]. apply Hneq; [right; exact H | exact Hne].
Qed.

(* a complementary pair: adjacent ids 2k, 2k+1 *)
Lemma pair_sem m x y : wf m -> owned m x -> owned m y -> rid y = rid x + 1 -> N.even (rid x) = true ->
  forall w, goodw w -> (L y w <-> ~ L x w).
Proof.
  intros W Ox Oy E Ev. apply even_nat_N in Ev.
  apply (wf_pair m W (N.to_nat (rid x)) x y Ev Ox).
  unfold owned in Oy. rewrite E in Oy. replace (N.to_nat (rid x + 1)) with (S (N.to_nat (rid x))) in Oy by lia.
  exact Oy.
Qed.

Definition l_any (v : list re) : lang := fun w => exists x, In x v /\ L x w.
Definition l_all (v : list re) : lang := fun w => forall x, In x v -> L x w.

(* union: bottom = empty, top = full *)
Lemma simplify_union m v :
  wf m -> (forall x, In x v -> owned m x) ->
  let v' := simplify_set_operation v (m_empty m) (m_full m) in
  (forall x, In x v' -> owned m x) /\ lang_eq (l_any v') (l_any v).
Proof.
  intros W Hv. cbv zeta.
  pose proof (c_empty_o m (wf_consts m W)) as Ob. pose proof (c_full_o m (wf_consts m W)) as Ot.
  destruct (simplify_spec m v _ _ Hv Ob Ot) as [[E Hc] | E].
  - rewrite E. split; [intros x [<-|[]]; exact Ot|]. intros w Hg. unfold l_any. split.
    + intros _. destruct Hc as [Hin | (x & y & Hx & Hy & Eid & Ev)].
      * exists (m_full m). split; auto. apply L_m_full; auto.
      * pose proof (pair_sem m x y W (Hv x Hx) (Hv y Hy) Eid Ev w Hg) as Hp.
        destruct (L_dec x w); [exists x | exists y]; tauto.
    + intros _. exists (m_full m). split; [left; reflexivity | apply L_m_full; auto].
  - split; [intros x Hx; apply E in Hx; apply Hv; tauto|]. intros w Hg. unfold l_any. split.
    + intros (x & Hx & Hw). apply E in Hx. exists x. tauto.
    + intros (x & Hx & Hw). exists x. split; auto. apply E. split; auto.
      intros ->. apply L_m_empty in Hw; auto.
Qed.

(* intersection: bottom = full, top = empty *)
Lemma simplify_inter m v :
  wf m -> (forall x, In x v -> owned m x) ->
  let v' := simplify_set_operation v (m_full m) (m_empty m) in
  (forall x, In x v' -> owned m x) /\ lang_eq (l_all v') (l_all v).
Proof.
  intros W Hv. cbv zeta.
  pose proof (c_empty_o m (wf_consts m W)) as Ot. pose proof (c_full_o m (wf_consts m W)) as Ob.
  destruct (simplify_spec m v _ _ Hv Ob Ot) as [[E Hc] | E].
  - rewrite E. split; [intros x [<-|[]]; exact Ot|]. intros w Hg. unfold l_all. split.
    + intros H. exfalso. apply (L_m_empty m w W). apply H. left; reflexivity.
    + intros H. exfalso. destruct Hc as [Hin | (x & y & Hx & Hy & Eid & Ev)].
      * apply (L_m_empty m w W). apply H. exact Hin.
      * pose proof (pair_sem m x y W (Hv x Hx) (Hv y Hy) Eid Ev w Hg) as Hp.
        apply Hp; apply H; auto.
  - split; [intros x Hx; apply E in Hx; apply Hv; tauto|]. intros w Hg. unfold l_all. split.
    + intros H x Hx. destruct (L_dec x w) as [Hw|Hw]; auto.
      apply H. apply E. split; auto. intros ->. apply Hw. apply L_m_full; auto.
    + intros H x Hx. apply H. apply E in Hx. tauto.
Qed.

(* ------------------------------------------------------------------------------------------ *)
(** * make_inter, make_union *)

Lemma inter_node_ok m v m' t :
  wf m -> (forall x, In x v -> owned m x) -> make m (NInter v) = Some (m', t) -> post m m' t (l_all v).
Proof.
  intros W Hv H. apply (make_ok m (NInter v) m' t W I) in H; auto; [|exact I].
  eapply post_weaken; [exact H|]. apply lang_eq_of_equiv. intros w. apply L_inter.
Qed.
Lemma union_node_ok m v m' t :
  wf m -> (forall x, In x v -> owned m x) -> make m (NUnion v) = Some (m', t) -> post m m' t (l_any v).
Proof.
  intros W Hv H. apply (make_ok m (NUnion v) m' t W I) in H; auto; [|exact I].
  eapply post_weaken; [exact H|]. apply lang_eq_of_equiv. intros w. apply L_union.
Qed.

Theorem make_inter_ok m v m' t :
  wf m -> (forall x, In x v -> owned m x) -> make_inter m v = Some (m', t) -> post m m' t (l_all v).
Proof.
  intros W Hv H. unfold make_inter in H.
  destruct (simplify_inter m v W Hv) as [Ho HL]. cbv zeta in Ho, HL.
  set (v' := simplify_set_operation v (m_full m) (m_empty m)) in *.
  pose proof (c_eps_o m (wf_consts m W)) as Oe.
  destruct (contains v' (m_eps m)) eqn:C.
  - (* epsilon shortcut *)
    apply contains_true in C as (y & Hy & E).
    assert (y = m_eps m) by (apply (id_inj m); auto). subst y.
    assert (Hnul : forallb rnul v' = true <-> l_all v' []).
    { rewrite forallb_forall. unfold l_all. split; intros Hn x Hx; apply (nullable_owned m x W (Ho x Hx)); auto. }
    inversion H; subst m' t. destruct (forallb rnul v') eqn:F.
    + apply post_same; auto. eapply lang_eq_trans; [|exact HL]. apply lang_eq_of_equiv. intros w.
      rewrite (L_m_eps m w W). split.
      * intros ->. apply Hnul. reflexivity.
      * intros Hall. apply (L_m_eps m w W). apply Hall. exact Hy.
    + eapply post_weaken; [apply empty_ok; auto|]. eapply lang_eq_trans; [|exact HL].
      apply lang_eq_of_equiv. intros w. split; [tauto|]. intros Hall.
      assert (w = []) by (apply (L_m_eps m w W); apply Hall; exact Hy). subst w.
      apply Hnul in Hall. discriminate.
  - destruct v' as [|x [|y r]] eqn:V.
    + inversion H; subst m' t. eapply post_weaken; [apply full_ok; auto|].
      eapply lang_eq_trans; [|exact HL]. intros w Hg. unfold l_all. split; [intros _ x [] | auto].
    + inversion H; subst m' t. apply post_same; auto; [apply Ho; left; reflexivity|].
      eapply lang_eq_trans; [|exact HL]. apply lang_eq_of_equiv. intros w. unfold l_all. split.
      * intros Hw z [<-|[]]. exact Hw.
      * intros Hall. apply Hall. left; reflexivity.
    + apply inter_node_ok in H; auto. eapply post_weaken; [exact H | exact HL].
Qed.

Definition inclusion_sound_on (m : mgr) : Prop :=
  forall r s, owned m r -> owned m s -> included_in r s = true -> lang_incl (L r) (L s).

Lemma l_any_app v1 v2 w : l_any (v1 ++ v2) w <-> l_any v1 w \/ l_any v2 w.
Proof.
  unfold l_any. split.
  - intros (x & Hx & Hw). apply in_app_or in Hx as [Hx|Hx]; [left | right]; exists x; auto.
  - intros [(x & Hx & Hw)|(x & Hx & Hw)]; exists x; split; auto; apply in_or_app; auto.
Qed.

Lemma remove_subsumed_ok m : inclusion_sound_on m -> forall rest kept,
  (forall x, In x (kept ++ rest) -> owned m x) ->
  (forall x, In x (remove_subsumed_go kept rest) -> In x (kept ++ rest)) /\
  lang_eq (l_any (remove_subsumed_go kept rest)) (l_any (kept ++ rest)).
Proof.
  intros Hsub. induction rest as [|cur t IH]; intros kept Ho; cbn [remove_subsumed_go].
  - rewrite app_nil_r. split; [auto | apply lang_eq_refl].
  - destruct (is_subsumed cur (kept ++ cur :: t)) eqn:S.
    + unfold is_subsumed in S. apply existsb_exists in S as (x & Hx & Q).
      apply andb_true_iff in Q as [Q1 Q2]. apply negb_true_iff in Q1.
      assert (Hne : x <> cur).
      { intros ->. unfold re_eqb in Q1. rewrite N.eqb_refl in Q1. discriminate. }
      assert (Hx' : In x (kept ++ t)).
      { apply in_app_or in Hx as [Hx|[Hx|Hx]]; apply in_or_app; auto. congruence. }
      assert (Hinc : lang_incl (L cur) (L x)).
      { apply Hsub; auto; apply Ho; auto. apply in_or_app. right. left. reflexivity. }
      destruct (IH kept) as [I1 I2].
      { intros z Hz. apply Ho. apply in_app_or in Hz as [Hz|Hz]; apply in_or_app; cbn; auto. }
      split.
      * intros z Hz. apply I1 in Hz. apply in_app_or in Hz as [Hz|Hz]; apply in_or_app; cbn; auto.
      * eapply lang_eq_trans; [exact I2|]. intros w Hg. rewrite !l_any_app. split.
        -- intros [H|(z & Hz & Hw)]; [left; auto | right; exists z; cbn; auto].
        -- intros [H|(z & [<-|Hz] & Hw)]; [left; auto | | right; exists z; auto].
           apply l_any_app. exists x. split; [exact Hx' | apply Hinc; auto].
    + destruct (IH (kept ++ [cur])) as [I1 I2].
      { intros z Hz. apply Ho. rewrite <- app_assoc in Hz. exact Hz. }
      rewrite <- app_assoc in I1, I2. cbn [app] in I1, I2. auto.
Qed.

Theorem make_union_ok m v m' t :
  wf m -> inclusion_sound_on m -> (forall x, In x v -> owned m x) ->
  make_union m v = Some (m', t) -> post m m' t (l_any v).
Proof.
  intros W Hsub Hv H. unfold make_union in H.
  destruct (simplify_union m v W Hv) as [Ho HL]. cbv zeta in Ho, HL.
  set (v1 := simplify_set_operation v (m_empty m) (m_full m)) in *.
  set (v2 := match v1 with _ :: _ :: _ => remove_subsumed_go [] v1 | _ => v1 end) in *.
  assert (H2 : (forall x, In x v2 -> owned m x) /\ lang_eq (l_any v2) (l_any v)).
  { destruct (remove_subsumed_ok m Hsub v1 [] Ho) as [R1 R2]. cbn [app] in R1, R2.
    assert (Hrs : (forall x, In x (remove_subsumed_go [] v1) -> owned m x) /\
                  lang_eq (l_any (remove_subsumed_go [] v1)) (l_any v)).
    { split; [intros x Hx; apply Ho, R1, Hx | eapply lang_eq_trans; eauto]. }
    unfold v2. destruct v1 as [|a [|b r]]; auto. }
  destruct H2 as [Ho2 HL2]. clearbody v2.
  destruct v2 as [|x [|y r]].
  - inversion H; subst m' t. eapply post_weaken; [apply empty_ok; auto|].
    eapply lang_eq_trans; [|exact HL2]. apply lang_eq_of_equiv. intros w. unfold l_any.
    split; [tauto | intros (x & [] & _)].
  - inversion H; subst m' t. apply post_same; auto; [apply Ho2; left; reflexivity|].
    eapply lang_eq_trans; [|exact HL2]. apply lang_eq_of_equiv. intros w. unfold l_any. split.
    + intros Hw. exists x. split; [left; reflexivity | exact Hw].
    + intros (z & [<-|[]] & Hw). exact Hw.
  - apply union_node_ok in H; auto. eapply post_weaken; [exact H | exact HL2].
Qed.

(* ------------------------------------------------------------------------------------------ *)
(** * flattening, inter / union / diff and their list forms *)

Lemma flatten_inter_unfold e :
  flatten_inter e = match rnode e with NInter l => flat_map flatten_inter l | _ => [e] end.
Proof.
  destruct e as [i n c k]; destruct k; reflexivity.
Qed.
Lemma flatten_union_unfold e :
  flatten_union e = match rnode e with NUnion l => flat_map flatten_union l | _ => [e] end.
Proof.
  destruct e as [i n c k]; destruct k; reflexivity.
Qed.

Lemma flatten_inter_ok m : wf m -> forall e, owned m e ->
  (forall x, In x (flatten_inter e) -> owned m x) /\ forall w, l_all (flatten_inter e) w <-> L e w.
Proof.
  intros W. induction e as [e IH] using re_induction. intros Ho.
  rewrite flatten_inter_unfold.
  destruct (rnode e) as [| |s|x y|x xr|x|l|l] eqn:K;
    try (split; [intros z [<-|[]]; exact Ho |
                 intros w; unfold l_all; split; [intros H; apply H; left; reflexivity | intros H z [<-|[]]; exact H]]).
  assert (Hc : forall c, In c l -> owned m c).
  { intros c Hc. apply (wf_child m W e c Ho). rewrite K. exact Hc. }
  split.
  - intros z Hz. apply in_flat_map in Hz as (c & Hc1 & Hc2). apply (IH c Hc1 (Hc c Hc1)). exact Hc2.
  - intros w. rewrite (L_rnode e _ w K). unfold mk_node. rewrite L_inter. unfold l_all. split.
    + intros H c Hc1. apply (proj1 (proj2 (IH c Hc1 (Hc c Hc1)) w)). intros z Hz. apply H. apply in_flat_map. eauto.
    + intros H z Hz. apply in_flat_map in Hz as (c & Hc1 & Hc2).
      apply (proj2 (proj2 (IH c Hc1 (Hc c Hc1)) w) (H c Hc1)). exact Hc2.
Qed.
Lemma flatten_union_ok m : wf m -> forall e, owned m e ->
  (forall x, In x (flatten_union e) -> owned m x) /\ forall w, l_any (flatten_union e) w <-> L e w.
Proof.
  intros W. induction e as [e IH] using re_induction. intros Ho.
  rewrite flatten_union_unfold.
  destruct (rnode e) as [| |s|x y|x xr|x|l|l] eqn:K;
    try (split; [intros z [<-|[]]; exact Ho |
                 intros w; unfold l_any; split; [intros (z & [<-|[]] & H); exact H | intros H; exists e; split; [left; reflexivity | exact H]]]).
  assert (Hc : forall c, In c l -> owned m c).
  { intros c Hc. apply (wf_child m W e c Ho). rewrite K. exact Hc. }
  split.
  - intros z Hz. apply in_flat_map in Hz as (c & Hc1 & Hc2). apply (IH c Hc1 (Hc c Hc1)). exact Hc2.
  - intros w. rewrite (L_rnode e _ w K). unfold mk_node. rewrite L_union. unfold l_any. split.
    + intros (z & Hz & Hw). apply in_flat_map in Hz as (c & Hc1 & Hc2). exists c. split; auto.
      apply (proj1 (proj2 (IH c Hc1 (Hc c Hc1)) w)). exists z. auto.
    + intros (c & Hc1 & Hw). apply (proj2 (proj2 (IH c Hc1 (Hc c Hc1)) w)) in Hw as (z & Hz & Hw).
      exists z. split; auto. apply in_flat_map. eauto.
Qed.

Lemma flat_map_inter_ok m l : wf m -> (forall x, In x l -> owned m x) ->
  (forall x, In x (flat_map flatten_inter l) -> owned m x) /\
  forall w, l_all (flat_map flatten_inter l) w <-> l_all l w.
Proof.
  intros W Hl. split.
  - intros z Hz. apply in_flat_map in Hz as (c & Hc1 & Hc2).
    apply (flatten_inter_ok m W c (Hl c Hc1)). exact Hc2.
  - intros w. unfold l_all. split.
    + intros H c Hc1. apply (proj1 (proj2 (flatten_inter_ok m W c (Hl c Hc1)) w)). intros z Hz. apply H. apply in_flat_map. eauto.
    + intros H z Hz. apply in_flat_map in Hz as (c & Hc1 & Hc2).
      apply (proj2 (proj2 (flatten_inter_ok m W c (Hl c Hc1)) w) (H c Hc1)). exact Hc2.
Qed.
Lemma flat_map_union_ok m l : wf m -> (forall x, In x l -> owned m x) ->
  (forall x, In x (flat_map flatten_union l) -> owned m x) /\
  forall w, l_any (flat_map flatten_union l) w <-> l_any l w.
Proof.
  intros W Hl. split.
  - intros z Hz. apply in_flat_map in Hz as (c & Hc1 & Hc2).
    apply (flatten_union_ok m W c (Hl c Hc1)). exact Hc2.
  - intros w. unfold l_any. split.
    + intros (z & Hz & Hw). apply in_flat_map in Hz as (c & Hc1 & Hc2). exists c. split; auto.
      apply (proj1 (proj2 (flatten_union_ok m W c (Hl c Hc1)) w)). exists z. auto.
    + intros (c & Hc1 & Hw). apply (proj2 (proj2 (flatten_union_ok m W c (Hl c Hc1)) w)) in Hw as (z & Hz & Hw).
      exists z. split; auto. apply in_flat_map. eauto.
Qed.

Theorem inter_list_ok m l m' t :
  wf m -> (forall x, In x l -> owned m x) -> inter_list m l = Some (m', t) -> post m m' t (l_all l).
Proof.
  intros W Hl H. unfold inter_list in H. destruct (flat_map_inter_ok m l W Hl) as [Ho HL].
  apply make_inter_ok in H; auto. eapply post_weaken; [exact H|]. apply lang_eq_of_equiv. exact HL.
Qed.
Theorem union_list_ok m l m' t :
  wf m -> inclusion_sound_on m -> (forall x, In x l -> owned m x) ->
  union_list m l = Some (m', t) -> post m m' t (l_any l).
Proof.
  intros W Hsub Hl H. unfold union_list in H. destruct (flat_map_union_ok m l W Hl) as [Ho HL].
  apply make_union_ok in H; auto. eapply post_weaken; [exact H|]. apply lang_eq_of_equiv. exact HL.
Qed.

Theorem inter_ok m a b m' t :
  wf m -> owned m a -> owned m b -> inter m a b = Some (m', t) ->
  post m m' t (fun w => L a w /\ L b w).
Proof.
  intros W Oa Ob H. unfold inter in H. apply inter_list_ok in H; auto.
  - eapply post_weaken; [exact H|]. apply lang_eq_of_equiv. intros w. unfold l_all. split.
    + intros Hall. split; apply Hall; cbn; auto.
    + intros [Ha Hb] x [<-|[<-|[]]]; auto.
  - intros x [<-|[<-|[]]]; auto.
Qed.
Theorem union_ok m a b m' t :
  wf m -> inclusion_sound_on m -> owned m a -> owned m b -> union m a b = Some (m', t) ->
  post m m' t (fun w => L a w \/ L b w).
Proof.
  intros W Hsub Oa Ob H. unfold union in H. apply union_list_ok in H; auto.
  - eapply post_weaken; [exact H|]. apply lang_eq_of_equiv. intros w. unfold l_any. split.
    + intros (x & [<-|[<-|[]]] & Hw); auto.
    + intros [Ha|Hb]; [exists a | exists b]; cbn; auto.
  - intros x [<-|[<-|[]]]; auto.
Qed.
Theorem diff_ok m a b m' t :
  wf m -> owned m a -> owned m b -> diff m a b = Some (m', t) ->
  post m m' t (fun w => L a w /\ ~ L b w).
Proof.
  intros W Oa Ob H. unfold diff in H.
  destruct (complement_ok m b W Ob) as (nb & E & Onb & HL). rewrite E in H. cbn [bind] in H.
  apply inter_ok in H; auto. eapply post_weaken; [exact H|].
  intros w Hg. rewrite (HL w Hg). tauto.
Qed.

Theorem diff_list_ok m e1 l m' t :
  wf m -> owned m e1 -> (forall x, In x l -> owned m x) -> diff_list m e1 l = Some (m', t) ->
  post m m' t (fun w => L e1 w /\ forall x, In x l -> ~ L x w).
Proof.
  intros W O1 Hl H. unfold diff_list in H.
  match type of H with context [bind (?f l)] => set (go := f) in * end.
  assert (Hgo : forall l cl, (forall x, In x l -> owned m x) -> go l = Some cl ->
            (forall x, In x cl -> owned m x) /\
            lang_eq (l_all cl) (fun w => forall x, In x l -> ~ L x w)).
  { clear H Hl l. induction l as [|r t0 IH]; intros cl Hl H; cbn in H.
    - inversion H; subst. split; [intros x []|]. apply lang_eq_of_equiv. intros w. unfold l_all.
      split; intros _ x [].
    - destruct (complement_ok m r W (Hl r (or_introl eq_refl))) as (c & E & Oc & HLc).
      rewrite E in H. cbn [bind] in H. fold go in H.
      destruct (go t0) as [rest|] eqn:G; cbn [bind] in H; [|discriminate]. inversion H; subst cl.
      destruct (IH rest) as [I1 I2]; auto. { intros x Hx. apply Hl. right. exact Hx. }
      destruct (flatten_inter_ok m W c Oc) as [F1 F2]. split.
      + intros x Hx. apply in_app_or in Hx as [Hx|Hx]; auto.
      + intros w Hg. unfold l_all. split.
        * intros Hall x [<-|Hx].
          -- apply (proj1 (HLc w Hg)). apply (proj1 (F2 w)). intros z Hz. apply Hall. apply in_or_app. auto.
          -- apply (proj1 (I2 w Hg)); auto. intros z Hz. apply Hall. apply in_or_app. auto.
        * intros Hn z Hz. apply in_app_or in Hz as [Hz|Hz].
          -- apply (proj2 (F2 w)); auto. apply (proj2 (HLc w Hg)). apply Hn. left; reflexivity.
          -- apply (proj2 (I2 w Hg)); auto. intros x Hx. apply Hn. right. exact Hx. }
  destruct (go l) as [cl|] eqn:G; cbn [bind] in H; [|discriminate].
  destruct (Hgo l cl Hl G) as [G1 G2].
  destruct (flatten_inter_ok m W e1 O1) as [F1 F2].
  apply make_inter_ok in H; auto.
  - eapply post_weaken; [exact H|]. intros w Hg. unfold l_all. split.
    + intros Hall. split.
      * apply (proj1 (F2 w)). intros z Hz. apply Hall. apply in_or_app. auto.
      * apply (proj1 (G2 w Hg)). intros z Hz. apply Hall. apply in_or_app. auto.
    + intros [H1 H2] z Hz. apply in_app_or in Hz as [Hz|Hz].
      * apply (proj2 (F2 w)); auto.
      * apply (proj2 (G2 w Hg)); auto.
  - intros x Hx. apply in_app_or in Hx as [Hx|Hx]; auto.
Qed.

(* ------------------------------------------------------------------------------------------ *)
(** * Totality of the set constructors; f_wf / f_lang corollaries *)

Lemma make_inter_total m v : wf m -> exists m' t, make_inter m v = Some (m', t).
Proof.
  intros W. unfold make_inter. destruct (contains _ (m_eps m)); [eauto|].
  destruct (simplify_set_operation v (m_full m) (m_empty m)) as [|x [|y r]]; eauto.
  apply make_total; auto. exact I.
Qed.
Lemma make_union_total m v : wf m -> exists m' t, make_union m v = Some (m', t).
Proof.
  intros W. unfold make_union.
  match goal with |- context [match ?v with [] => _ | _ => _ end] => destruct v as [|x [|y r]] end; eauto.
  apply make_total; auto. exact I.
Qed.

Lemma post_wf m m' t (P : lang) : post m m' t P -> wf m' /\ ext m m' /\ owned m' t.
Proof. intros (?&?&?&?). auto. Qed.
Lemma post_lang m m' t (P : lang) : post m m' t P -> lang_eq (L t) P.
Proof. intros (?&?&?&?). auto. Qed.

Theorem char_set_wf m s m' t : wf m -> cs_valid s -> char_set m s = Some (m', t) ->
  wf m' /\ ext m m' /\ owned m' t.
Proof. intros. eapply post_wf, char_set_ok; eauto. Qed.
Theorem char_set_lang m s m' t : wf m -> cs_valid s -> char_set m s = Some (m', t) ->
  lang_eq (L t) (fun w => exists c, w = [c] /\ mem c s).
Proof. intros. eapply post_lang, char_set_ok; eauto. Qed.
Theorem range_wf m a b m' t : wf m -> range m a b = Some (m', t) -> wf m' /\ ext m m' /\ owned m' t.
Proof. intros W H. destruct (range_ok m a b m' t W H) as (_ & _ & Hp). eapply post_wf; eauto. Qed.
Theorem range_lang m a b m' t : wf m -> range m a b = Some (m', t) ->
  lang_eq (L t) (fun w => exists c, w = [c] /\ a <= c /\ c <= b).
Proof. intros W H. destruct (range_ok m a b m' t W H) as (_ & _ & Hp). eapply post_lang; eauto. Qed.
Theorem mchar_wf m x m' t : wf m -> mchar m x = Some (m', t) -> wf m' /\ ext m m' /\ owned m' t.
Proof. intros W H. destruct (mchar_ok m x m' t W H) as (_ & Hp). eapply post_wf; eauto. Qed.
Theorem mchar_lang m x m' t : wf m -> mchar m x = Some (m', t) -> lang_eq (L t) (fun w => w = [x]).
Proof. intros W H. destruct (mchar_ok m x m' t W H) as (_ & Hp). eapply post_lang; eauto. Qed.
Theorem mstr_wf m w m' t : wf m -> mstr m w = Some (m', t) -> wf m' /\ ext m m' /\ owned m' t.
Proof. intros W H. destruct (mstr_ok m w m' t W H) as (_ & Hp). eapply post_wf; eauto. Qed.
Theorem mstr_lang m w m' t : wf m -> mstr m w = Some (m', t) -> lang_eq (L t) (fun x => x = w).
Proof. intros W H. destruct (mstr_ok m w m' t W H) as (_ & Hp). eapply post_lang; eauto. Qed.
Theorem concat_list_wf m l m' t : wf m -> (forall x, In x l -> owned m x) ->
  concat_list m l = Some (m', t) -> wf m' /\ ext m m' /\ owned m' t.
Proof. intros. eapply post_wf, concat_list_ok; eauto. Qed.
Theorem concat_list_lang m l m' t : wf m -> (forall x, In x l -> owned m x) ->
  concat_list m l = Some (m', t) -> lang_eq (L t) (l_prod l).
Proof. intros. eapply post_lang, concat_list_ok; eauto. Qed.
Theorem make_inter_wf m v m' t : wf m -> (forall x, In x v -> owned m x) ->
  make_inter m v = Some (m', t) -> wf m' /\ ext m m' /\ owned m' t.
Proof. intros. eapply post_wf, make_inter_ok; eauto. Qed.
Theorem make_inter_lang m v m' t : wf m -> (forall x, In x v -> owned m x) ->
  make_inter m v = Some (m', t) -> lang_eq (L t) (fun w => forall x, In x v -> L x w).
Proof. intros. eapply post_lang, make_inter_ok; eauto. Qed.
Theorem make_union_lang m v m' t : wf m -> inclusion_sound_on m -> (forall x, In x v -> owned m x) ->
  make_union m v = Some (m', t) -> lang_eq (L t) (fun w => exists x, In x v /\ L x w).
Proof. intros. eapply post_lang, make_union_ok; eauto. Qed.
Theorem inter_list_wf m l m' t : wf m -> (forall x, In x l -> owned m x) ->
  inter_list m l = Some (m', t) -> wf m' /\ ext m m' /\ owned m' t.
Proof. intros. eapply post_wf, inter_list_ok; eauto. Qed.
Theorem inter_list_lang m l m' t : wf m -> (forall x, In x l -> owned m x) ->
  inter_list m l = Some (m', t) -> lang_eq (L t) (fun w => forall x, In x l -> L x w).
Proof. intros. eapply post_lang, inter_list_ok; eauto. Qed.
Theorem union_list_lang m l m' t : wf m -> inclusion_sound_on m -> (forall x, In x l -> owned m x) ->
  union_list m l = Some (m', t) -> lang_eq (L t) (fun w => exists x, In x l /\ L x w).
Proof. intros. eapply post_lang, union_list_ok; eauto. Qed.
Theorem inter_wf m a b m' t : wf m -> owned m a -> owned m b -> inter m a b = Some (m', t) ->
  wf m' /\ ext m m' /\ owned m' t.
Proof. intros W Oa Ob H. exact (post_wf _ _ _ _ (inter_ok m a b m' t W Oa Ob H)). Qed.
Theorem inter_lang m a b m' t : wf m -> owned m a -> owned m b -> inter m a b = Some (m', t) ->
  lang_eq (L t) (fun w => L a w /\ L b w).
Proof. intros W Oa Ob H. exact (post_lang _ _ _ _ (inter_ok m a b m' t W Oa Ob H)). Qed.
Theorem union_lang m a b m' t : wf m -> inclusion_sound_on m -> owned m a -> owned m b ->
  union m a b = Some (m', t) -> lang_eq (L t) (fun w => L a w \/ L b w).
Proof. intros W Hs Oa Ob H. exact (post_lang _ _ _ _ (union_ok m a b m' t W Hs Oa Ob H)). Qed.
Theorem diff_wf m a b m' t : wf m -> owned m a -> owned m b -> diff m a b = Some (m', t) ->
  wf m' /\ ext m m' /\ owned m' t.
Proof. intros W Oa Ob H. exact (post_wf _ _ _ _ (diff_ok m a b m' t W Oa Ob H)). Qed.
Theorem diff_lang m a b m' t : wf m -> owned m a -> owned m b -> diff m a b = Some (m', t) ->
  lang_eq (L t) (fun w => L a w /\ ~ L b w).
Proof. intros W Oa Ob H. exact (post_lang _ _ _ _ (diff_ok m a b m' t W Oa Ob H)). Qed.
Theorem diff_list_wf m e1 l m' t : wf m -> owned m e1 -> (forall x, In x l -> owned m x) ->
  diff_list m e1 l = Some (m', t) -> wf m' /\ ext m m' /\ owned m' t.
Proof. intros W O1 Hl H. exact (post_wf _ _ _ _ (diff_list_ok m e1 l m' t W O1 Hl H)). Qed.
Theorem diff_list_lang m e1 l m' t : wf m -> owned m e1 -> (forall x, In x l -> owned m x) ->
  diff_list m e1 l = Some (m', t) -> lang_eq (L t) (fun w => L e1 w /\ forall x, In x l -> ~ L x w).
Proof. intros W O1 Hl H. exact (post_lang _ _ _ _ (diff_list_ok m e1 l m' t W O1 Hl H)). Qed.

(* wf-preservation of the union constructors does not depend on the meaning of included_in *)
Lemma remove_subsumed_sub : forall rest kept x,
  In x (remove_subsumed_go kept rest) -> In x (kept ++ rest).
Proof.
  induction rest as [|cur t0 IH]; intros kept x H; cbn [remove_subsumed_go] in H.
  - rewrite app_nil_r. exact H.
  - destruct (is_subsumed cur (kept ++ cur :: t0)).
    + apply IH in H. apply in_app_or in H as [H|H]; apply in_or_app; cbn; auto.
    + apply IH in H. rewrite <- app_assoc in H. exact H.
Qed.
Theorem make_union_wf m v m' t : wf m -> (forall x, In x v -> owned m x) ->
  make_union m v = Some (m', t) -> wf m' /\ ext m m' /\ owned m' t.
Proof.
  intros W Hv H. unfold make_union in H.
  destruct (simplify_union m v W Hv) as [Ho _]. cbv zeta in Ho.
  set (v1 := simplify_set_operation v (m_empty m) (m_full m)) in *.
  set (v2 := match v1 with _ :: _ :: _ => remove_subsumed_go [] v1 | _ => v1 end) in *.
  assert (Ho2 : forall x, In x v2 -> owned m x).
  { intros x Hx. apply Ho. unfold v2 in Hx. destruct v1 as [|a [|b r]]; auto.
    apply remove_subsumed_sub in Hx. exact Hx. }
  clearbody v2. destruct v2 as [|x [|y r]].
  - inversion H; subst. split; auto. split; [apply ext_refl | apply (c_empty_o m' (wf_consts m' W))].
  - inversion H; subst. split; auto. split; [apply ext_refl | apply Ho2; left; reflexivity].
  - exact (post_wf _ _ _ _ (union_node_ok m _ m' t W Ho2 H)).
Qed.
Theorem union_list_wf m l m' t : wf m -> (forall x, In x l -> owned m x) ->
  union_list m l = Some (m', t) -> wf m' /\ ext m m' /\ owned m' t.
Proof.
  intros W Hl H. unfold union_list in H. destruct (flat_map_union_ok m l W Hl) as [Ho _].
  eapply make_union_wf; eauto.
Qed.
Theorem union_wf m a b m' t : wf m -> owned m a -> owned m b -> union m a b = Some (m', t) ->
  wf m' /\ ext m m' /\ owned m' t.
Proof.
  intros W Oa Ob H. unfold union in H. apply union_list_wf in H; auto.
  intros x [<-|[<-|[]]]; auto.
Qed.

(* ------------------------------------------------------------------------------------------ *)
(** * str never panics on a good SMT string (of any length, since concat is total: D11 repaired) *)

Lemma str_go_total : forall rw m acc,
  wf m -> owned m acc -> goodw rw -> exists m' t, str_go m rw acc = Some (m', t).
Proof.
  induction rw as [|c rw IH]; intros m acc W Ho Hg; cbn [str_go]; [eauto|].
  inversion Hg as [|? ? Hc Hg']; subst.
  destruct (mchar_total m c W Hc) as (m1 & ch & C). rewrite C. cbn [bind].
  destruct (mchar_ok m c m1 ch W C) as (_ & W1 & X1 & Och & _).
  destruct (concat_total_any ch m1 acc) as (m2 & r & C2). rewrite C2. cbn [bind].
  destruct (concat_ok ch m1 acc m2 r W1 Och (ext_owned m m1 acc X1 Ho) C2) as (W2 & X2 & Or & _).
  apply (IH m2 r); auto.
Qed.

Theorem mstr_total_any m w : wf m -> goodw w -> exists m' t, mstr m w = Some (m', t).
Proof.
  intros W Hg. unfold mstr. apply (str_go_total (rev w) m (m_eps m)); auto.
  - apply (c_eps_o m (wf_consts m W)).
  - unfold goodw in *. rewrite Forall_forall in *. intros x Hx. apply Hg. apply in_rev. exact Hx.
Qed.
Theorem mstr_total m w :
  wf m -> goodw w -> N.of_nat (length w) <= U32MAX -> exists m' t, mstr m w = Some (m', t).
Proof. intros W Hg _. apply mstr_total_any; assumption. Qed.
