(* C13g -- AutomatonBuilder, one state: the regenerated translation of StateInConstruction (cleanup, make_partition, make_successor) and of CharPartition::try_from_iter meets the per-state C13 statements.
   Statements only; every proof is [exact <lemma>].  The statements are about the definitions that
   gen/rs2v.py regenerates from /repo/src on every run (namespace SVG; M_f is the monadic view of
   the Rust function f: None = f panics).  Written by bin/mkgenprops from the lemma statements. *)
Require Import Base GenBase.
Require Import CharSet Partition PartitionSpec Automaton BuilderSpec BuilderProofs.
From SVG Require Import BuilderGen GenLinkBuilder GenPropsBuilder.
Open Scope N_scope.

(* ---- the translated functions are the model's functions (convs reads a generated state in construction as a model one) ---- *)

Theorem C13g_link_cs_contains :
  forall (s : CharSet) (x : N), M_CharSet_contains s x = Some (cs_contains (conv s) x).
Proof. exact link_cs_contains. Qed.
Print Assumptions C13g_link_cs_contains.

Theorem C13g_link_cs_is_before :
  forall (s : CharSet) (x : N), M_CharSet_is_before s x = Some (cs_is_before (conv s) x).
Proof. exact link_cs_is_before. Qed.
Print Assumptions C13g_link_cs_is_before.

Theorem C13g_link_cs_pick :
  forall s : CharSet, M_CharSet_pick s = Some (cs_pick (conv s)).
Proof. exact link_cs_pick. Qed.
Print Assumptions C13g_link_cs_pick.

Theorem C13g_link_len :
  forall p : CharPartition, M_CharPartition_len p = Some (plen (convp p)).
Proof. exact link_len. Qed.
Print Assumptions C13g_link_len.

Theorem C13g_link_bs_char :
  forall (fuel : nat) (l : list CharSet) (x : N) (i j : nat),
       char_res (CharPartition_class_of_char_binary_search_loop1 fuel l x i j) =
       bs_char fuel (map conv l) x i j.
Proof. exact link_bs_char. Qed.
Print Assumptions C13g_link_bs_char.

Theorem C13g_link_class_of_char :
  forall (p : CharPartition) (x : N),
       option_map convc (M_CharPartition_class_of_char (S (length (CharPartition_list p))) p x) =
       pclass_of_char (convp p) x.
Proof. exact link_class_of_char. Qed.
Print Assumptions C13g_link_class_of_char.

Theorem C13g_link_insert :
  forall (x : CharSet) (l : list CharSet),
       map conv (insert_by_key_N (fun c : CharSet => CharSet_start c) x l) =
       insert_by_start (conv x) (map conv l).
Proof. exact link_insert. Qed.
Print Assumptions C13g_link_insert.

Theorem C13g_link_sort :
  forall l : list CharSet,
       map conv (sort_by_key_N (fun c : CharSet => CharSet_start c) l) = sort_by_start (map conv l).
Proof. exact link_sort. Qed.
Print Assumptions C13g_link_sort.

Theorem C13g_link_scan1 :
  forall (l : list CharSet) (w : N) (prev : CharSet),
       Forall valid_end l ->
       scan_res (CharPartition_try_from_iter_loop1 l w prev) =
       Some (scan_sorted (conv prev) w (map conv l)).
Proof. exact link_scan1. Qed.
Print Assumptions C13g_link_scan1.

Theorem C13g_link_scan2 :
  forall (l : list CharSet) (w : N) (prev : CharSet),
       Forall valid_end l ->
       scan_res (CharPartition_try_from_iter_loop2 l w prev) =
       Some (scan_sorted (conv prev) w (map conv l)).
Proof. exact link_scan2. Qed.
Print Assumptions C13g_link_scan2.

Theorem C13g_link_try_from_iter :
  forall l : list CharSet,
       Forall valid_end l ->
       try_res (M_CharPartition_try_from_iter l) = Some (ptry_from_list (map conv l)).
Proof. exact link_try_from_iter. Qed.
Print Assumptions C13g_link_try_from_iter.

Theorem C13g_link_maj_loop :
  forall (l : list (CharSet * nat)) (maj k : nat),
       (Z.of_nat k + Z.of_nat (length l) < 2147483648)%Z ->
       maj_res
         (StateInConstruction_choose_default_successor_maj_candidate_loop1 l maj (Z.of_nat k)) =
       Some (maj_go (map convt l) maj k).
Proof. exact link_maj_loop. Qed.
Print Assumptions C13g_link_maj_loop.

Theorem C13g_link_maj_candidate :
  forall (c0 : CharSet) (x0 : nat) (t : list (CharSet * nat)),
       (Z.of_nat (length t) < 2147483647)%Z ->
       M_StateInConstruction_choose_default_successor_maj_candidate ((c0, x0) :: t) =
       Some (maj_go (map convt t) x0 1).
Proof. exact link_maj_candidate. Qed.
Print Assumptions C13g_link_maj_candidate.

Theorem C13g_link_count_loop :
  forall (l : list (CharSet * nat)) (m n : nat),
       StateInConstruction_choose_default_successor_count_loop1 l m n =
       Some (LoopDone (n + count_target (map convt l) m)%nat).
Proof. exact link_count_loop. Qed.
Print Assumptions C13g_link_count_loop.

Theorem C13g_link_count :
  forall (l : list (CharSet * nat)) (m : nat),
       M_StateInConstruction_choose_default_successor_count l m =
       Some (count_target (map convt l) m).
Proof. exact link_count. Qed.
Print Assumptions C13g_link_count.

Theorem C13g_link_cleanup :
  forall s : StateInConstruction,
       (Z.of_nat (length (StateInConstruction_transitions s)) < 2147483647)%Z ->
       option_map convs (M_StateInConstruction_cleanup s) = Some (cleanup (convs s)).
Proof. exact link_cleanup. Qed.
Print Assumptions C13g_link_cleanup.

Theorem C13g_link_make_partition :
  forall s : StateInConstruction,
       labels_valid s ->
       try_res (M_StateInConstruction_make_partition s) =
       Some (ptry_from_list (map fst (s_trans (convs s)))).
Proof. exact link_make_partition. Qed.
Print Assumptions C13g_link_make_partition.

Theorem C13g_link_succ_loop :
  forall (p : CharPartition) (l : list (CharSet * nat)) (r : list nat),
       length r = length (CharPartition_list p) ->
       succ_res
         (StateInConstruction_make_successor_loop1 (S (length (CharPartition_list p))) l p r) =
       fold_left (succ_f (convp p)) (map convt l) (Some r).
Proof. exact link_succ_loop. Qed.
Print Assumptions C13g_link_succ_loop.

Theorem C13g_link_make_successor :
  forall (s : StateInConstruction) (p : CharPartition),
       M_StateInConstruction_make_successor (S (length (CharPartition_list p))) s p =
       make_successor (convs s) (convp p).
Proof. exact link_make_successor. Qed.
Print Assumptions C13g_link_make_successor.

Theorem C13g_link_new :
  option_map convs M_StateInConstruction_new = Some sic_new.
Proof. exact link_new. Qed.
Print Assumptions C13g_link_new.

Theorem C13g_link_set_default_successor :
  forall (s : StateInConstruction) (j : nat),
       option_map convs (M_StateInConstruction_set_default_successor s j) =
       Some {| s_final := s_final (convs s); s_default := Some j; s_trans := s_trans (convs s) |}.
Proof. exact link_set_default_successor. Qed.
Print Assumptions C13g_link_set_default_successor.

Theorem C13g_link_add_transition :
  forall (s : StateInConstruction) (c : CharSet) (j : nat),
       option_map convs (M_StateInConstruction_add_transition s c j) =
       Some
         {|
           s_final := s_final (convs s);
           s_default := s_default (convs s);
           s_trans := s_trans (convs s) ++ [(conv c, j)]
         |}.
Proof. exact link_add_transition. Qed.
Print Assumptions C13g_link_add_transition.

Theorem C13g_link_class_of_char_fuel :
  forall (fuel : nat) (p : CharPartition) (x : N),
       (length (CharPartition_list p) < fuel)%nat ->
       option_map convc (M_CharPartition_class_of_char fuel p x) = pclass_of_char (convp p) x.
Proof. exact link_class_of_char_fuel. Qed.
Print Assumptions C13g_link_class_of_char_fuel.

Theorem C13g_link_succ_loop_fuel :
  forall (fuel : nat) (p : CharPartition),
       (length (CharPartition_list p) < fuel)%nat ->
       forall (l : list (CharSet * nat)) (r : list nat),
       length r = length (CharPartition_list p) ->
       succ_res (StateInConstruction_make_successor_loop1 fuel l p r) =
       fold_left (succ_f (convp p)) (map convt l) (Some r).
Proof. exact link_succ_loop_fuel. Qed.
Print Assumptions C13g_link_succ_loop_fuel.

Theorem C13g_link_make_successor_fuel :
  forall (fuel : nat) (s : StateInConstruction) (p : CharPartition),
       (length (CharPartition_list p) < fuel)%nat ->
       M_StateInConstruction_make_successor fuel s p = make_successor (convs s) (convp p).
Proof. exact link_make_successor_fuel. Qed.
Print Assumptions C13g_link_make_successor_fuel.

Theorem C13g_link_empty_complement :
  forall p : CharPartition,
       M_CharPartition_empty_complement p = Some (pempty_complement (convp p)).
Proof. exact link_empty_complement. Qed.
Print Assumptions C13g_link_empty_complement.

Theorem C13g_link_build_loop :
  forall (fuel : nat) (self : AutomatonBuilder) (l : list StateInConstruction) 
         (i : nat) (acc : list StateInConstruction) (n : nat) (sa : list State),
       Forall (state_ok fuel) l ->
       loop_res (AutomatonBuilder_build_loop1 fuel (combine (seq i (length l)) l) self acc n sa) =
       model_res n (map convst sa) (build_states_checked (map convs l) i).
Proof. exact link_build_loop. Qed.
Print Assumptions C13g_link_build_loop.

Theorem C13g_link_build :
  forall (fuel : nat) (b : AutomatonBuilder),
       AutomatonBuilder_size b = length (AutomatonBuilder_states b) ->
       Forall (state_ok fuel) (AutomatonBuilder_states b) ->
       build_res (M_AutomatonBuilder_build fuel b) =
       build {| id_map := []; bstates := convb_states b |}.
Proof. exact link_build. Qed.
Print Assumptions C13g_link_build.

Theorem C13g_link_bu_loop :
  forall (fuel : nat) (l : list StateInConstruction) (i : nat)
         (acc : list StateInConstruction) (n : nat) (sa : list State),
       Forall (state_ok fuel) l ->
       bu_res (AutomatonBuilder_build_unchecked_loop1 fuel (combine (seq i (length l)) l) acc n sa) =
       bu_model n (map convst sa) (build_states (map convs l) i).
Proof. exact link_bu_loop. Qed.
Print Assumptions C13g_link_bu_loop.

Theorem C13g_link_build_unchecked :
  forall (fuel : nat) (b : AutomatonBuilder),
       AutomatonBuilder_size b = length (AutomatonBuilder_states b) ->
       Forall (state_ok fuel) (AutomatonBuilder_states b) ->
       option_map (fun r : AutomatonBuilder * Automaton => conva (snd r))
         (M_AutomatonBuilder_build_unchecked fuel b) =
       build_unchecked {| id_map := []; bstates := convb_states b |}.
Proof. exact link_build_unchecked. Qed.
Print Assumptions C13g_link_build_unchecked.

(* ---- the per-state C13 statements on the translated code ---- *)

Theorem C13g_cleanup_total :
  forall s : StateInConstruction,
       small s ->
       exists s' : StateInConstruction,
         M_StateInConstruction_cleanup s = Some s' /\ convs s' = cleanup (convs s).
Proof. exact g_cleanup_total. Qed.
Print Assumptions C13g_cleanup_total.

Theorem C13g_cleanup_preserves_delta :
  forall (s s' : StateInConstruction) (c : N),
       small s ->
       pairwise_disjoint (glabels s) ->
       (StateInConstruction_default_successor s = None -> covered (glabels s) c) ->
       M_StateInConstruction_cleanup s = Some s' -> sic_delta (convs s') c = sic_delta (convs s) c.
Proof. exact g_cleanup_preserves_delta. Qed.
Print Assumptions C13g_cleanup_preserves_delta.

Theorem C13g_cleanup_final :
  forall s s' : StateInConstruction,
       small s ->
       M_StateInConstruction_cleanup s = Some s' ->
       StateInConstruction_is_final s' = StateInConstruction_is_final s.
Proof. exact g_cleanup_final. Qed.
Print Assumptions C13g_cleanup_final.

Theorem C13g_make_partition_cases :
  forall s : StateInConstruction,
       Forall cs_valid (glabels s) ->
       (exists p : CharPartition,
          M_StateInConstruction_make_partition s = Some (Ok p) /\
          ptry_from_list (glabels s) = Some (convp p) /\ labels_disjoint (glabels s) = true) \/
       M_StateInConstruction_make_partition s = Some (Err Error_NonDisjointCharSets) /\
       labels_disjoint (glabels s) = false.
Proof. exact g_make_partition_cases. Qed.
Print Assumptions C13g_make_partition_cases.

Theorem C13g_state_next :
  forall (s : StateInConstruction) (i : nat),
       Forall cs_valid (glabels s) ->
       pairwise_disjoint (glabels s) ->
       exists (p : CharPartition) (suc : list nat),
         M_StateInConstruction_make_partition s = Some (Ok p) /\
         M_StateInConstruction_make_successor (S (length (CharPartition_list p))) s p = Some suc /\
         (forall (A : automaton) (c : N),
          good c -> a_next A (mk_astate i (convs s) (convp p) suc) c = sic_delta (convs s) c).
Proof. exact g_state_next. Qed.
Print Assumptions C13g_state_next.

Theorem C13g_build_state :
  forall (s : StateInConstruction) (i : nat),
       small s ->
       Forall cs_valid (glabels s) ->
       pairwise_disjoint (glabels s) ->
       (StateInConstruction_default_successor s = None ->
        forall c : N, good c -> covered (glabels s) c) ->
       exists (s1 : StateInConstruction) (p : CharPartition) (suc : list nat),
         M_StateInConstruction_cleanup s = Some s1 /\
         M_StateInConstruction_make_partition s1 = Some (Ok p) /\
         M_StateInConstruction_make_successor (S (length (CharPartition_list p))) s1 p = Some suc /\
         (forall (A : automaton) (c : N),
          good c -> a_next A (mk_astate i (convs s1) (convp p) suc) c = sic_delta (convs s) c).
Proof. exact g_build_state. Qed.
Print Assumptions C13g_build_state.

Theorem C13g_example :
  let s :=
         {|
           StateInConstruction_is_final := true;
           StateInConstruction_default_successor := None;
           StateInConstruction_transitions :=
             [({| CharSet_start := 0; CharSet_end := 9 |}, 7%nat);
              ({| CharSet_start := 10; CharSet_end := 20 |}, 3%nat);
              ({| CharSet_start := 21; CharSet_end := 196607 |}, 7%nat)]
         |} in
       M_StateInConstruction_cleanup s =
       Some
         {|
           StateInConstruction_is_final := true;
           StateInConstruction_default_successor := Some 7%nat;
           StateInConstruction_transitions :=
             [({| CharSet_start := 10; CharSet_end := 20 |}, 3%nat)]
         |} /\
       option_map
         (fun r : result CharPartition Error =>
          match r with
          | Ok p => Some (CharPartition_list p, CharPartition_comp_witness p)
          | Err _ => None
          end) (M_StateInConstruction_make_partition s) =
       Some
         (Some
            ([{| CharSet_start := 0; CharSet_end := 9 |};
              {| CharSet_start := 10; CharSet_end := 20 |};
              {| CharSet_start := 21; CharSet_end := 196607 |}], 196608)).
Proof. exact g_example. Qed.
Print Assumptions C13g_example.

Theorem C13g_build_spec :
  forall (fuel : nat) (b : AutomatonBuilder),
       builder_ok fuel b ->
       match first_some sic_err (convb_states b) with
       | Some e =>
           exists (b' : AutomatonBuilder) (e' : Error),
             M_AutomatonBuilder_build fuel b = Some (b', Err e') /\ conve e' = Some e
       | None =>
           exists (b' : AutomatonBuilder) (A : Automaton),
             M_AutomatonBuilder_build fuel b = Some (b', Ok A) /\
             Forall2 st_ok (convb_states b) (astates (conva A)) /\
             num_states (conva A) = length (AutomatonBuilder_states b) /\
             initial (conva A) = 0%nat /\
             num_final (conva A) = length (filter a_final (astates (conva A)))
       end.
Proof. exact g_build_spec. Qed.
Print Assumptions C13g_build_spec.

Theorem C13g_build_never_panics :
  forall (fuel : nat) (b : AutomatonBuilder),
       builder_ok fuel b -> M_AutomatonBuilder_build fuel b <> None.
Proof. exact g_build_never_panics. Qed.
Print Assumptions C13g_build_never_panics.

Theorem C13g_example_build :
  let s0 :=
         {|
           StateInConstruction_is_final := false;
           StateInConstruction_default_successor := None;
           StateInConstruction_transitions :=
             [({| CharSet_start := 0; CharSet_end := 96 |}, 1%nat);
              ({| CharSet_start := 97; CharSet_end := 97 |}, 0%nat);
              ({| CharSet_start := 98; CharSet_end := 196607 |}, 1%nat)]
         |} in
       let s1 :=
         {|
           StateInConstruction_is_final := true;
           StateInConstruction_default_successor := Some 1%nat;
           StateInConstruction_transitions := []
         |} in
       option_map
         (fun r : AutomatonBuilder * result Automaton Error =>
          match snd r with
          | Ok a =>
              Some
                (Automaton_num_states a, Automaton_num_final_states a,
                 map (fun st : State => (State_successor st, State_default_successor st))
                   (Automaton_states a))
          | Err _ => None
          end)
         (M_AutomatonBuilder_build 5
            {|
              AutomatonBuilder_size := 2;
              AutomatonBuilder_id_map := tt;
              AutomatonBuilder_states := [s0; s1]
            |}) = Some (Some (2%nat, 1%nat, [([0%nat], Some 1%nat); ([], Some 1%nat)])).
Proof. exact g_example_build. Qed.
Print Assumptions C13g_example_build.
