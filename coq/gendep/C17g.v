(* C17g -- SmtString constructors: the regenerated From<..> implementations clamp exactly the integers above MAX_CHAR.
   Statements only; every proof is [exact <lemma>].  The statements are about the definitions that
   gen/rs2v.py regenerates from /repo/src on every run (namespace SVG; M_f is the monadic view of
   the Rust function f: None = f panics).  Written by bin/mkgenprops from the lemma statements. *)
Require Import Base GenBase.
Require Import StrConv StrConvProofs Literal.
From SVG Require Import StrConvGen GenLinkStrConv GenPropsStrConv.
Open Scope N_scope.

(* ---- the translated constructors are the model's (made w = w unless longer than i32::MAX: SmtString::make panics) ---- *)

Theorem C17g_link_make :
  forall a : list N, option_map w (M_SmtString_make a) = made a.
Proof. exact link_make. Qed.
Print Assumptions C17g_link_make.

Theorem C17g_link_len :
  forall s : SmtString, M_SmtString_len s = Some (length (w s)).
Proof. exact link_len. Qed.
Print Assumptions C17g_link_len.

Theorem C17g_link_is_empty :
  forall s : SmtString,
       M_SmtString_is_empty s = Some match w s with
                                     | [] => true
                                     | _ :: _ => false
                                     end.
Proof. exact link_is_empty. Qed.
Print Assumptions C17g_link_is_empty.

Theorem C17g_link_EMPTY :
  w EMPTY = [].
Proof. exact link_EMPTY. Qed.
Print Assumptions C17g_link_EMPTY.

Theorem C17g_link_from_slice :
  forall a : list N, option_map w (M_SmtString_from_slice_u32 a) = made (from_slice a).
Proof. exact link_from_slice. Qed.
Print Assumptions C17g_link_from_slice.

Theorem C17g_link_from_vec :
  forall a : list N, option_map w (M_SmtString_from_Vec_u32 a) = made (from_vec a).
Proof. exact link_from_vec. Qed.
Print Assumptions C17g_link_from_vec.

Theorem C17g_link_from_u32 :
  forall x : N, option_map w (M_SmtString_from_u32 x) = Some (from_u32 x).
Proof. exact link_from_u32. Qed.
Print Assumptions C17g_link_from_u32.

Theorem C17g_link_from_char :
  forall x : N, option_map w (M_SmtString_from_char x) = Some (from_char x).
Proof. exact link_from_char. Qed.
Print Assumptions C17g_link_from_char.

Theorem C17g_link_from_str :
  forall t : list N, option_map w (M_SmtString_from_str t) = made (from_str t).
Proof. exact link_from_str. Qed.
Print Assumptions C17g_link_from_str.

Theorem C17g_link_good_char :
  forall x : N, M_fn_good_char x = Some (StrMisc.good_char x).
Proof. exact link_good_char. Qed.
Print Assumptions C17g_link_good_char.

Theorem C17g_link_good_string :
  forall a : list N, M_fn_good_string a = Some (StrMisc.good_string a).
Proof. exact link_good_string. Qed.
Print Assumptions C17g_link_good_string.

Theorem C17g_link_is_good :
  forall s : SmtString, M_SmtString_is_good s = Some (StrMisc.smt_is_good (w s)).
Proof. exact link_is_good. Qed.
Print Assumptions C17g_link_is_good.

Theorem C17g_link_char :
  forall (s : SmtString) (i : nat), M_SmtString_char s i = StrMisc.smt_char (w s) i.
Proof. exact link_char. Qed.
Print Assumptions C17g_link_char.

Theorem C17g_link_all_unicode :
  forall v : list N, M_fn_all_unicode v = Some (StrMisc.all_unicode v).
Proof. exact link_all_unicode. Qed.
Print Assumptions C17g_link_all_unicode.

Theorem C17g_link_map_to_unicode :
  forall v : list N, M_fn_map_to_unicode v = Some (StrMisc.map_to_unicode v).
Proof. exact link_map_to_unicode. Qed.
Print Assumptions C17g_link_map_to_unicode.

Theorem C17g_link_is_unicode :
  forall s : SmtString, M_SmtString_is_unicode s = Some (StrMisc.smt_is_unicode (w s)).
Proof. exact link_is_unicode. Qed.
Print Assumptions C17g_link_is_unicode.

Theorem C17g_link_to_unicode_string :
  forall s : SmtString,
       M_SmtString_to_unicode_string s = Some (StrMisc.smt_to_unicode_string (w s)).
Proof. exact link_to_unicode_string. Qed.
Print Assumptions C17g_link_to_unicode_string.

(* ---- every constructor hands out SMT characters only ---- *)

Theorem C17g_from_slice_good :
  forall (a : list N) (s : SmtString),
       M_SmtString_from_slice_u32 a = Some s -> w s = map clampc a /\ goodw (w s).
Proof. exact g_from_slice_good. Qed.
Print Assumptions C17g_from_slice_good.

Theorem C17g_from_str_good :
  forall (t : list N) (s : SmtString),
       M_SmtString_from_str t = Some s -> w s = map clampc t /\ goodw (w s).
Proof. exact g_from_str_good. Qed.
Print Assumptions C17g_from_str_good.

Theorem C17g_from_vec_good :
  forall (a : list N) (s : SmtString),
       M_SmtString_from_Vec_u32 a = Some s ->
       goodw (w s) /\ (goodw a -> w s = a) /\ w s = map clampc a.
Proof. exact g_from_vec_good. Qed.
Print Assumptions C17g_from_vec_good.

Theorem C17g_from_u32_good :
  forall x : N,
       exists s : SmtString, M_SmtString_from_u32 x = Some s /\ w s = [clampc x] /\ goodw (w s).
Proof. exact g_from_u32_good. Qed.
Print Assumptions C17g_from_u32_good.

Theorem C17g_from_char_good :
  forall x : N,
       exists s : SmtString, M_SmtString_from_char x = Some s /\ w s = [clampc x] /\ goodw (w s).
Proof. exact g_from_char_good. Qed.
Print Assumptions C17g_from_char_good.

Theorem C17g_is_good_iff :
  forall s : SmtString,
       M_SmtString_is_good s = Some true <->
       goodw (w s) /\ (Z.of_nat (length (w s)) <= StrSearch.MAX_LENGTH)%Z.
Proof. exact g_is_good_iff. Qed.
Print Assumptions C17g_is_good_iff.

Theorem C17g_is_good_total :
  forall s : SmtString, exists b : bool, M_SmtString_is_good s = Some b.
Proof. exact g_is_good_total. Qed.
Print Assumptions C17g_is_good_total.

Theorem C17g_made_is_good :
  forall (a : list N) (s : SmtString),
       M_SmtString_make a = Some s -> goodw a -> M_SmtString_is_good s = Some true.
Proof. exact g_made_is_good. Qed.
Print Assumptions C17g_made_is_good.

Theorem C17g_char :
  forall (s : SmtString) (i : nat), M_SmtString_char s i = nth_error (w s) i.
Proof. exact g_char. Qed.
Print Assumptions C17g_char.
