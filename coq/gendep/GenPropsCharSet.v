(* GenPropsCharSet.v -- the C20 theorems transported to the CharSet functions regenerated from
   /repo/src/character_sets.rs (SVG.CharSetGen), through their monadic views M_f (None = panic). *)
Require Import Base GenBase CharSet CharSetProofs.
From SVG Require Import CharSetGen GenLinkCharSet.
Open Scope N_scope.

Definition gmem (x : N) (s : CharSet) : Prop := CharSet_start s <= x /\ x <= CharSet_end s.
Definition gvalid (s : CharSet) : Prop := CharSet_start s <= CharSet_end s /\ CharSet_end s <= MAX_CHAR.

Lemma gmem_conv x s : gmem x s <-> mem x (conv s).        Proof. reflexivity. Qed.
Lemma gvalid_conv s : gvalid s <-> cs_valid (conv s).     Proof. reflexivity. Qed.

Lemma some_inj {A} (a b : A) : Some a = Some b -> a = b.  Proof. congruence. Qed.
Lemma some_iff {A} (a b : A) : Some a = Some b <-> a = b. Proof. split; congruence. Qed.
Lemma omap_some {A B} (f : A -> B) x y t : option_map f x = y -> x = Some t -> y = Some (f t).
Proof. intros <- ->. reflexivity. Qed.
Lemma omap2_some {A B} (f : A -> B) x y t :
  option_map (option_map f) x = Some y -> x = Some (Some t) -> y = Some (f t).
Proof. intros H ->. cbn in H. congruence. Qed.

Lemma g_contains s x : M_CharSet_contains s x = Some true <-> gmem x s.
Proof. rewrite link_contains, some_iff. apply contains_iff. Qed.

Lemma g_covers s o : gvalid o -> (M_CharSet_covers s o = Some true <-> forall x, gmem x o -> gmem x s).
Proof. intros Ho. rewrite link_covers, some_iff. apply (covers_iff (conv s) (conv o)). exact Ho. Qed.

Lemma g_is_before s x : gvalid s -> (M_CharSet_is_before s x = Some true <-> forall y, gmem y s -> y < x).
Proof. intros Hs. rewrite link_is_before, some_iff. apply (before_iff (conv s)). exact Hs. Qed.

Lemma g_is_after s x : gvalid s -> (M_CharSet_is_after s x = Some true <-> forall y, gmem y s -> x < y).
Proof. intros Hs. rewrite link_is_after, some_iff. apply (after_iff (conv s)). exact Hs. Qed.

(* size: the u32 subtraction and addition never under/overflow on a valid set *)
Lemma g_size_value s : gvalid s -> M_CharSet_size s = Some (CharSet_end s - CharSet_start s + 1).
Proof. intros Hs. rewrite link_size. apply (size_value (conv s)). exact Hs. Qed.

Lemma g_size_card s n : gvalid s -> M_CharSet_size s = Some n ->
  forall x, gmem x s <-> exists k, k < n /\ x = CharSet_start s + k.
Proof. intros Hs H. apply (size_card (conv s) n Hs). rewrite <- link_size. exact H. Qed.

Lemma g_is_singleton s : gvalid s ->
  (M_CharSet_is_singleton s = Some true <-> forall x y, gmem x s -> gmem y s -> x = y).
Proof. intros Hs. rewrite link_is_singleton, some_iff. apply (singleton_iff (conv s)). exact Hs. Qed.

Lemma g_is_alphabet s : gvalid s ->
  (M_CharSet_is_alphabet s = Some true <-> forall x, x <= MAX_CHAR -> gmem x s).
Proof. intros Hs. rewrite link_is_alphabet, some_iff. apply (alphabet_iff (conv s)). exact Hs. Qed.

Lemma g_pick s : gvalid s -> exists x, M_CharSet_pick s = Some x /\ gmem x s.
Proof. intros Hs. rewrite link_pick. eexists; split; [reflexivity|]. apply (pick_mem (conv s)). exact Hs. Qed.

Lemma g_inter_total s o : exists r, M_CharSet_inter s o = Some r.
Proof. pose proof (link_inter s o) as H. destruct (M_CharSet_inter s o); [eauto | discriminate H]. Qed.

Lemma g_inter_some s o r : M_CharSet_inter s o = Some (Some r) -> forall x, gmem x r <-> gmem x s /\ gmem x o.
Proof. intros H. apply (inter_some (conv s) (conv o) (conv r)). exact (omap2_some _ _ _ _ (link_inter s o) H). Qed.

Lemma g_inter_valid s o r : gvalid s -> gvalid o -> M_CharSet_inter s o = Some (Some r) -> gvalid r.
Proof. intros Hs Ho H. apply (inter_some_valid (conv s) (conv o) (conv r) Hs Ho). exact (omap2_some _ _ _ _ (link_inter s o) H). Qed.

Lemma g_inter_none s o : M_CharSet_inter s o = Some None <-> forall x, ~ (gmem x s /\ gmem x o).
Proof.
  rewrite <- (inter_none (conv s) (conv o)). pose proof (link_inter s o) as H.
  destruct (M_CharSet_inter s o) as [[u|]|]; cbn in H; split; intros E; try discriminate; try congruence.
Qed.

Definition g_is_union (s o r : CharSet) : Prop := forall x, gmem x r <-> gmem x s \/ gmem x o.

Lemma g_union_total s o : exists r, M_CharSet_union s o = Some r.
Proof.
  destruct (union_total (conv s) (conv o)) as [r Hr]. rewrite <- link_union in Hr.
  destruct (M_CharSet_union s o) as [u|]; [exists u; reflexivity | discriminate Hr].
Qed.

Lemma g_union_some_iff s o : gvalid s -> gvalid o ->
  forall r, gvalid r -> (M_CharSet_union s o = Some (Some r) <-> g_is_union s o r).
Proof.
  intros Hs Ho r Hr.
  rewrite <- (union_some_iff (conv s) (conv o) Hs Ho (conv r) Hr), <- link_union.
  destruct (M_CharSet_union s o) as [[u|]|]; cbn; split; intros H; try discriminate; try congruence.
  apply some_inj, some_inj, conv_inj in H. congruence.
Qed.

Lemma g_union_none s o : gvalid s -> gvalid o -> M_CharSet_union s o = Some None ->
  forall r, ~ g_is_union s o r.
Proof.
  intros Hs Ho H r Hu.
  assert (Heq : cs_union (conv s) (conv o) = Some None) by (rewrite <- link_union, H; reflexivity).
  exact (union_none (conv s) (conv o) Hs Ho Heq (conv r) Hu).
Qed.

Lemma g_partial_cmp s o : gvalid s -> gvalid o ->
  exists c, M_CharSet_partial_cmp s o = Some c /\
  match c with
  | Some Eq => s = o
  | Some Lt => s <> o /\ forall x y, gmem x s -> gmem y o -> x < y
  | Some Gt => s <> o /\ forall x y, gmem x s -> gmem y o -> y < x
  | None => s <> o /\ exists x y x' y', gmem x s /\ gmem y o /\ gmem x' s /\ gmem y' o /\ x <= y /\ y' <= x'
  end.
Proof.
  intros Hs Ho. pose proof (pcmp_spec (conv s) (conv o) Hs Ho) as H.
  pose proof (link_partial_cmp s o) as L.
  destruct (M_CharSet_partial_cmp s o) as [c|]; [|discriminate L].
  exists c. split; [reflexivity|]. apply some_inj in L. rewrite <- L in H.
  destruct c as [[| |]|]; cbn [pord_of] in H.
  - apply conv_inj. exact H.
  - destruct H as [H1 H2]. split; [intros ->; apply H1; reflexivity | exact H2].
  - destruct H as [H1 H2]. split; [intros ->; apply H1; reflexivity | exact H2].
  - destruct H as [H1 H2]. split; [intros ->; apply H1; reflexivity | exact H2].
Qed.

Example g_example : gvalid (CharSet_mk 97 122) /\
  M_CharSet_union (CharSet_mk 97 122) (CharSet_mk 123 127) = Some (Some (CharSet_mk 97 127)) /\
  M_CharSet_union (CharSet_mk 1 5) (CharSet_mk 0 0) = Some (Some (CharSet_mk 0 5)) /\
  M_CharSet_union (CharSet_mk 0 3) (CharSet_mk 5 9) = Some None /\
  M_CharSet_size (CharSet_mk 0 MAX_CHAR) = Some 196608.
Proof. unfold gvalid, MAX_CHAR. cbn. repeat split; try lia; vm_compute; reflexivity. Qed.

(* inter_list never panics; Some q exactly the characters common to all sets, None when no good
   character is common to all *)
Lemma g_inter_list_total a : exists r, M_CharSet_inter_list a = Some r.
Proof. pose proof (link_inter_list a) as H. destruct (M_CharSet_inter_list a); [eauto | discriminate H]. Qed.

Lemma g_inter_list_some a q : M_CharSet_inter_list a = Some (Some q) ->
  forall x, x <= MAX_CHAR -> (gmem x q <-> Forall (gmem x) a).
Proof.
  intros H x Hx. pose proof (omap2_some _ _ _ _ (link_inter_list a) H) as E.
  rewrite (inter_list_some (map conv a) (conv q) E x Hx).
  rewrite Forall_map. reflexivity.
Qed.

Lemma g_inter_list_none a : M_CharSet_inter_list a = Some None -> forall x, ~ Forall (gmem x) a.
Proof.
  intros H x. pose proof (link_inter_list a) as L. rewrite H in L. cbn in L. apply some_inj in L.
  intros F. apply (inter_list_none (map conv a) (eq_sym L) x). rewrite Forall_map. exact F.
Qed.
