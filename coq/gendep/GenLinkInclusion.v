(* GenLinkInclusion.v -- the loop-free and read-only part of the inclusion matcher of
   regular_expressions.rs regenerated on every run (SVG.InclusionGen: base_patterns, rigid_match_at,
   next_rigid_match, prev_rigid_match, char_sets_of_pattern, rigid_prefix_match, rigid_suffix_match,
   flexible_match) coincides with the hand-written model Inclusion.v (C16), on the index ranges on which
   the Rust code does not panic (the model is total: it answers false where the code would index out
   of bounds, and skips the non-range terms that the code declares unreachable). *)
Require Import Base GenBase CharSet Partition LoopRange Regex Inclusion.
From SVG Require Import InclusionGen.
Require Import ZifyBool ZifyN ZifyNat.
Open Scope N_scope.

Definition conv (s : CharSet) : cs := (CharSet_start s, CharSet_end s).
Definition convp (p : CharPartition) : part :=
  {| ivs := map conv (CharPartition_list p); wit := CharPartition_comp_witness p |}.

(* ================= terms ================= *)
Definition convl (r : LoopRange) : lr := LR (LoopRange_f0 r) (LoopRange_f1 r).

Fixpoint conv_re (e : RE) : re :=
  match e with RE_mk k i n _ _ dc => Node (N.of_nat i) n (convp dc) (conv_base k) end
with conv_base (k : BaseRegLan) : node :=
  match k with
  | BaseRegLan_Empty => NEmpty
  | BaseRegLan_Epsilon => NEps
  | BaseRegLan_Range c => NRange (conv c)
  | BaseRegLan_Concat a b => NConcat (conv_re a) (conv_re b)
  | BaseRegLan_Loop a r => NLoop (conv_re a) (convl r)
  | BaseRegLan_Complement a => NCompl (conv_re a)
  | BaseRegLan_Union l => NUnion (map conv_re l)
  | BaseRegLan_Inter l => NInter (map conv_re l)
  end.

Lemma rnul_conv e : rnul (conv_re e) = RE_nullable e.
Proof. destruct e; reflexivity. Qed.
Lemma rcls_conv e : rcls (conv_re e) = convp (RE_deriv_class e).
Proof. destruct e; reflexivity. Qed.
Lemma rnode_conv e : rnode (conv_re e) = conv_base (RE_expr e).
Proof. destruct e; reflexivity. Qed.
Lemma rid_conv e : rid (conv_re e) = N.of_nat (RE_id e).
Proof. destruct e; reflexivity. Qed.

Lemma forallb_conv l : forallb rnul (map conv_re l) = forallb (fun x => RE_nullable x) l.
Proof. induction l as [|x l IH]; [reflexivity|]. cbn [map forallb]. rewrite rnul_conv, IH. reflexivity. Qed.
Lemma existsb_conv l : existsb rnul (map conv_re l) = existsb (fun x => RE_nullable x) l.
Proof. induction l as [|x l IH]; [reflexivity|]. cbn [map existsb]. rewrite rnul_conv, IH. reflexivity. Qed.

(* ---- canonical forms of the callees (generic proofs) ---- *)
Ltac gcase :=
  match goal with
  | |- context [match ?x with _ => _ end] =>
      lazymatch x with
      | context [match _ with _ => _ end] => fail
      | _ => first [ is_var x; destruct x | destruct x eqn:? ]
      end
  end.
Ltac gnorm := cbv [bind option_map negb andb orb]; cbn [fst snd].
Ltac gfin := first [ reflexivity | congruence | (exfalso; lia) | solve [repeat (f_equal; try lia)] ].
Ltac gauto := gnorm; repeat (gcase; gnorm); gfin.

Lemma canon_lr_is_all r : M_LoopRange_is_all r = Some (lr_is_all (convl r)).
Proof. unfold M_LoopRange_is_all, LoopRange_is_all. destruct r as [a [b|]]; cbv [convl lr_is_all LoopRange_f0 LoopRange_f1]; gauto. Qed.
Lemma canon_cs_is_alphabet c : M_CharSet_is_alphabet c = Some (cs_is_alphabet (conv c)).
Proof. unfold M_CharSet_is_alphabet, CharSet_is_alphabet. destruct c as [a b]. cbv [cs_is_alphabet conv CharSet_start CharSet_end fst snd MAXC MAX_CHAR]. gauto. Qed.
Lemma canon_cs_covers s x : M_CharSet_covers s x = Some (cs_covers (conv s) (conv x)).
Proof. unfold M_CharSet_covers, CharSet_covers. destruct s as [a b], x as [c d]. cbv [cs_covers conv CharSet_start CharSet_end fst snd]. gauto. Qed.

(* ---- the attribute computations ---- *)

Lemma link_is_all_chars e : M_BaseRegLan_is_all_chars (RE_expr e) = Some (is_all_chars (conv_re e)).
Proof.
  unfold is_all_chars. rewrite rnode_conv. unfold M_BaseRegLan_is_all_chars, BaseRegLan_is_all_chars.
  destruct (RE_expr e); cbn [conv_base]; rewrite ?canon_cs_is_alphabet; gauto.
Qed.
Lemma link_is_full e : M_BaseRegLan_is_full (RE_expr e) = Some (is_full (conv_re e)).
Proof.
  unfold is_full. rewrite rnode_conv. unfold M_BaseRegLan_is_full, BaseRegLan_is_full.
  destruct (RE_expr e); cbn [conv_base]; rewrite ?canon_lr_is_all, ?link_is_all_chars; gauto.
Qed.
Lemma link_is_range e : M_BaseRegLan_is_range (RE_expr e) = Some (is_range (conv_re e)).
Proof.
  unfold is_range. rewrite rnode_conv. unfold M_BaseRegLan_is_range, BaseRegLan_is_range.
  destruct (RE_expr e); cbn [conv_base]; gauto.
Qed.
Lemma link_match_char_set e s : M_BaseRegLan_match_char_set (RE_expr e) s = Some (match_char_set (conv_re e) (conv s)).
Proof.
  unfold match_char_set. rewrite rnode_conv. unfold M_BaseRegLan_match_char_set, BaseRegLan_match_char_set.
  destruct (RE_expr e); cbn [conv_base]; rewrite ?canon_cs_covers; gauto.
Qed.


Open Scope nat_scope.
(* ================= the matcher ================= *)
Definition convb (p : BasePattern) : bpat :=
  {| b_start := BasePattern_start p; b_end := BasePattern_end p; b_rigid := BasePattern_is_rigid p;
     b_sm := BasePattern_start_match p; b_em := BasePattern_end_match p |}.
Definition convsr (r : SearchResult) : option (nat * nat) :=
  match r with SearchResult_NotFound => None | SearchResult_Found a b => Some (a, b) end.

Lemma canon_bp_make s e r : M_BasePattern_make s e r = Some (BasePattern_mk s e r 0 0).
Proof. unfold M_BasePattern_make, BasePattern_make. gauto. Qed.
Lemma link_bp_len p : BasePattern_start p <= BasePattern_end p -> M_BasePattern_len p = Some (b_len (convb p)).
Proof.
  intros H. unfold M_BasePattern_len, BasePattern_len, usize_sub, b_len, convb. cbn [b_start b_end].
  replace (Nat.leb (BasePattern_start p) (BasePattern_end p)) with true by lia. reflexivity.
Qed.

Lemma is_range_conv e : is_range (conv_re e) = BaseRegLan_is_range (RE_expr e).
Proof. pose proof (link_is_range e) as H. unfold M_BaseRegLan_is_range in H. congruence. Qed.

(* ---- flexible_match ---- *)
Lemma link_flexible_match u v : M_fn_flexible_match u v = Some (flexible_match (map conv_re v)).
Proof.
  unfold M_fn_flexible_match, fn_flexible_match, flexible_match.
  destruct v as [|x [|y t]]; cbn [length Nat.eqb map nth_error bind]; try reflexivity.
  rewrite link_is_full. reflexivity.
Qed.

(* ---- base_patterns ---- *)
Definition bp_res (r : option (loopres (list BasePattern) (list BasePattern * nat * bool))) : option (list BasePattern * nat * bool) :=
  match r with Some (LoopDone x) => Some x | _ => None end.

Lemma beqb_sym a b : Bool.eqb a b = Bool.eqb b a.
Proof. destruct a, b; reflexivity. Qed.
Lemma link_bp_loop : forall l i acc j rigid,
  option_map (fun x => map convb (fst (fst x) ++ [BasePattern_mk (snd (fst x)) (i + length l) (snd x) 0 0]))
             (bp_res (fn_base_patterns_loop1 (combine (seq i (length l)) l) acc j rigid))
  = Some (base_patterns_go (map conv_re l) i j rigid (map convb acc)).
Proof.
  induction l as [|x l IH]; intros i acc j rigid.
  - cbn. rewrite Nat.add_0_r, map_app. reflexivity.
  - cbn [length seq combine fn_base_patterns_loop1 map base_patterns_go].
    rewrite link_is_range. cbn [bind]. rewrite is_range_conv. fold (BaseRegLan_is_range (RE_expr x)).
    rewrite ?(beqb_sym (BaseRegLan_is_range (RE_expr x)) rigid).
    destruct (Bool.eqb rigid (BaseRegLan_is_range (RE_expr x))) eqn:E; cbn [negb].
    + replace (i + S (length l)) with (S i + length l) by lia. apply IH.
    + rewrite canon_bp_make. cbn [bind].
      replace (i + S (length l)) with (S i + length l) by lia.
      rewrite IH. rewrite map_app. reflexivity.
Qed.

Lemma link_base_patterns r : option_map (map convb) (M_fn_base_patterns r) = Some (base_patterns (map conv_re r)).
Proof.
  unfold M_fn_base_patterns, fn_base_patterns, base_patterns. destruct r as [|x l]; [reflexivity|].
  cbn [negb nth_error bind map]. rewrite link_is_range. cbn [bind]. rewrite is_range_conv.
  unfold enumerate. cbn [length seq combine skipn].
  pose proof (link_bp_loop l 1 [] 0 (BaseRegLan_is_range (RE_expr x))) as H. cbn [map] in H.
  destruct (fn_base_patterns_loop1 (combine (seq 1 (length l)) l) [] 0 (BaseRegLan_is_range (RE_expr x))) as [[r0|[[res j] rg]]|];
    cbn [bp_res option_map] in H; try discriminate.
  cbn [bind fst snd] in *. rewrite canon_bp_make. cbn [bind option_map]. exact H.
Qed.

(* ---- rigid_match_at: the index loop versus the model's positioned recursion ---- *)
Lemma skipn_nth {A} (l : list A) : forall k x, nth_error l k = Some x -> skipn k l = x :: skipn (S k) l.
Proof. induction l as [|y l IH]; intros [|k] x H; try discriminate; cbn in *; [congruence|]. apply IH. exact H. Qed.
Lemma nth_error_map_re l k : nth_error (map conv_re l) k = option_map conv_re (nth_error l k).
Proof. apply nth_error_map. Qed.
Lemma nth_error_map_cs l k : nth_error (map conv l) k = option_map conv (nth_error l k).
Proof. apply nth_error_map. Qed.

Definition rm_res (r : option (loopres bool unit)) : option bool :=
  match r with Some (LoopReturn b) => Some b | Some (LoopDone _) => Some true | None => None end.

Lemma link_rm_loop p s i : i + length p <= length s -> forall d k, k + d = length p ->
  rm_res (fn_rigid_match_at_loop1 (seq k d) p s i)
  = Some (rigid_match_at (skipn k (map conv p)) (skipn (i + k) (map conv_re s))).
Proof.
  intros Hlen. induction d as [|d IH]; intros k Hk.
  - cbn [seq fn_rigid_match_at_loop1 rm_res]. rewrite skipn_all2 by (rewrite map_length; lia). reflexivity.
  - cbn [seq fn_rigid_match_at_loop1].
    destruct (nth_error s (i + k)) as [x|] eqn:Ex; [|apply nth_error_None in Ex; lia].
    destruct (nth_error p k) as [c|] eqn:Ec; [|apply nth_error_None in Ec; lia].
    cbn [bind]. rewrite link_match_char_set. cbn [bind].
    rewrite (skipn_nth (map conv p) k (conv c)) by (rewrite nth_error_map_cs, Ec; reflexivity).
    rewrite (skipn_nth (map conv_re s) (i + k) (conv_re x)) by (rewrite nth_error_map_re, Ex; reflexivity).
    cbn [rigid_match_at].
    destruct (match_char_set (conv_re x) (conv c)); cbn [negb andb]; [|reflexivity].
    replace (S (i + k)) with (i + S k) by lia. apply IH. lia.
Qed.

Lemma link_rigid_match_at p s i : i + length p <= length s ->
  M_fn_rigid_match_at p s i = Some (rigid_at (map conv p) (map conv_re s) i).
Proof.
  intros Hlen. unfold M_fn_rigid_match_at, fn_rigid_match_at, rigid_at.
  pose proof (link_rm_loop p s i Hlen (length p) 0 ltac:(lia)) as H.
  rewrite Nat.sub_0_r. rewrite Nat.add_0_r in H. cbn [skipn] in H.
  destruct (fn_rigid_match_at_loop1 (seq 0 (length p)) p s i) as [[b|u]|]; cbn [rm_res] in H; try discriminate;
    injection H as H; cbn [bind]; rewrite H; reflexivity.
Qed.

(* ---- next_rigid_match / prev_rigid_match ---- *)
Definition sr_res (r : option (loopres SearchResult unit)) : option (option (nat * nat)) :=
  match r with Some (LoopReturn x) => Some (convsr x) | Some (LoopDone _) => Some None | None => None end.

Lemma link_next_loop p s : forall l, Forall (fun j => j + length p <= length s) l ->
  sr_res (fn_next_rigid_match_loop1 l p s (length p))
  = Some (first_some (fun j => if rigid_at (map conv p) (map conv_re s) j then Some (j, j + length p) else None) l).
Proof.
  induction l as [|j l IH]; intros Hl; [reflexivity|]. inversion Hl as [|? ? Hj Hl']; subst.
  cbn [fn_next_rigid_match_loop1 first_some]. rewrite (link_rigid_match_at p s j Hj). cbn [bind].
  destruct (rigid_at (map conv p) (map conv_re s) j); [reflexivity|]. apply IH. exact Hl'.
Qed.

Lemma link_next_rigid_match p s i :
  option_map convsr (M_fn_next_rigid_match p s i) = Some (next_rigid_match (map conv p) (map conv_re s) i).
Proof.
  unfold M_fn_next_rigid_match, fn_next_rigid_match, next_rigid_match. rewrite !map_length.
  rewrite ?Nat.ltb_antisym.
  destruct (Nat.leb (length p) (length s)) eqn:E; cbn [negb]; [|reflexivity]. apply Nat.leb_le in E.
  unfold usize_sub. replace (Nat.leb (length p) (length s)) with true by lia. cbn [bind].
  assert (Hl : Forall (fun j => j + length p <= length s) (seq i (S (length s - length p) - i))).
  { apply Forall_forall. intros j Hj. apply in_seq in Hj. lia. }
  pose proof (link_next_loop p s _ Hl) as H.
  change (1 + (length s - length p) - i) with (S (length s - length p) - i).
  destruct (fn_next_rigid_match_loop1 (seq i (S (length s - length p) - i)) p s (length p)) as [[x|u]|];
    cbn [sr_res] in H; try discriminate; cbn [bind option_map]; exact H.
Qed.

Lemma link_prev_loop p s : forall l, Forall (fun j => length p <= j <= length s) l ->
  sr_res (fn_prev_rigid_match_loop1 l p s (length p))
  = Some (first_some (fun j => if rigid_at (map conv p) (map conv_re s) (j - length p) then Some (j - length p, j) else None) l).
Proof.
  induction l as [|j l IH]; intros Hl; [reflexivity|]. inversion Hl as [|? ? Hj Hl']; subst.
  cbn [fn_prev_rigid_match_loop1 first_some]. unfold usize_sub.
  replace (Nat.leb (length p) j) with true by lia. cbn [bind].
  rewrite (link_rigid_match_at p s (j - length p)) by lia. cbn [bind].
  destruct (rigid_at (map conv p) (map conv_re s) (j - length p)); [reflexivity|]. apply IH. exact Hl'.
Qed.

Lemma link_prev_rigid_match p s i : i <= length s ->
  option_map convsr (M_fn_prev_rigid_match p s i) = Some (prev_rigid_match (map conv p) (map conv_re s) i).
Proof.
  intros Hi. unfold M_fn_prev_rigid_match, fn_prev_rigid_match, prev_rigid_match. rewrite !map_length.
  assert (Hl : Forall (fun j => length p <= j <= length s) (rev (seq (length p) (S i - length p)))).
  { apply Forall_forall. intros j Hj. apply in_rev, in_seq in Hj. lia. }
  pose proof (link_prev_loop p s _ Hl) as H.
  change (1 + i - length p) with (S i - length p).
  destruct (fn_prev_rigid_match_loop1 (rev (seq (length p) (S i - length p))) p s (length p)) as [[x|u]|];
    cbn [sr_res] in H; try discriminate; cbn [bind option_map]; exact H.
Qed.

(* ---- char_sets_of_pattern (on rigid slices: every term is a Range; otherwise unreachable!()) ---- *)
Definition all_ranges (l : list RE) : Prop := Forall (fun r => BaseRegLan_is_range (RE_expr r) = true) l.
Definition csp_res (r : option (loopres (list CharSet) (list CharSet))) : option (list cs) :=
  match r with Some (LoopDone x) => Some (map conv x) | Some (LoopReturn x) => Some (map conv x) | None => None end.

Lemma link_csp_loop : forall l acc, all_ranges l ->
  csp_res (fn_char_sets_of_pattern_loop1 l acc) = Some (map conv acc ++ char_sets_of_pattern (map conv_re l)).
Proof.
  induction l as [|r l IH]; intros acc Hl; [cbn; rewrite app_nil_r; reflexivity|].
  inversion Hl as [|? ? Hr Hl']; subst.
  cbn [fn_char_sets_of_pattern_loop1 map]. unfold char_sets_of_pattern. cbn [flat_map]. rewrite rnode_conv.
  unfold BaseRegLan_is_range in Hr. destruct (RE_expr r) as [| |c|a b|a rg|a|lst|lst]; try discriminate.
  cbn [conv_base]. rewrite (IH (acc ++ [c]) Hl'). rewrite map_app, <- app_assoc. reflexivity.
Qed.
Lemma link_char_sets_of_pattern l : all_ranges l ->
  option_map (map conv) (M_fn_char_sets_of_pattern l) = Some (char_sets_of_pattern (map conv_re l)).
Proof.
  intros Hl. unfold M_fn_char_sets_of_pattern, fn_char_sets_of_pattern.
  pose proof (link_csp_loop l [] Hl) as H. cbn [map app] in H.
  destruct (fn_char_sets_of_pattern_loop1 l []) as [[x|x]|]; cbn [csp_res] in H; try discriminate; cbn [bind option_map]; exact H.
Qed.
Lemma csp_length l : all_ranges l -> length (char_sets_of_pattern (map conv_re l)) = length l.
Proof.
  induction 1 as [|r l Hr Hl IH]; [reflexivity|]. cbn [map]. unfold char_sets_of_pattern. cbn [flat_map]. rewrite rnode_conv.
  unfold BaseRegLan_is_range in Hr. destruct (RE_expr r); try discriminate. cbn [conv_base app length]. f_equal. exact IH.
Qed.

(* ---- rigid_prefix_match / rigid_suffix_match for a rigid pattern inside v ---- *)
Definition pat_ok (v : list RE) (p : BasePattern) : Prop :=
  BasePattern_start p <= BasePattern_end p <= length v /\
  all_ranges (firstn (BasePattern_end p - BasePattern_start p) (skipn (BasePattern_start p) v)).

Lemma slice_conv v s e : map conv_re (firstn (e - s) (skipn s v)) = slice (map conv_re v) s e.
Proof. unfold slice. rewrite skipn_map, firstn_map. reflexivity. Qed.

Lemma link_rigid_prefix_match u v p : pat_ok v p ->
  M_fn_rigid_prefix_match u v p = Some (rigid_prefix_match (map conv_re u) (map conv_re v) (convb p)).
Proof.
  intros [[H1 H2] Hr]. unfold M_fn_rigid_prefix_match, fn_rigid_prefix_match, rigid_prefix_match, pat_sets.
  rewrite (link_bp_len p H1). cbn [bind]. rewrite map_length. rewrite ?Nat.ltb_antisym.
  destruct (Nat.leb (b_len (convb p)) (length u)) eqn:E; cbn [negb]; [|reflexivity]. apply Nat.leb_le in E.
  unfold slice_range. replace (Nat.leb (BasePattern_start p) (BasePattern_end p) && Nat.leb (BasePattern_end p) (length v)) with true by lia.
  cbn [bind]. pose proof (link_char_sets_of_pattern _ Hr) as Hc. pose proof (csp_length _ Hr) as Hlen.
  destruct (M_fn_char_sets_of_pattern _) as [cs0|]; [|discriminate Hc]. cbn [option_map] in Hc. injection Hc as Hc.
  cbn [bind]. rewrite slice_conv in Hc, Hlen. cbn [convb b_start b_end] in *.
  assert (Hl0 : length cs0 = BasePattern_end p - BasePattern_start p).
  { rewrite <- (map_length conv), Hc, Hlen, firstn_length, skipn_length. lia. }
  rewrite (link_rigid_match_at cs0 u 0) by (unfold b_len, convb in E; cbn [b_start b_end] in E; lia).
  rewrite Hc. reflexivity.
Qed.

Lemma link_rigid_suffix_match u v p : pat_ok v p ->
  M_fn_rigid_suffix_match u v p = Some (rigid_suffix_match (map conv_re u) (map conv_re v) (convb p)).
Proof.
  intros [[H1 H2] Hr]. unfold M_fn_rigid_suffix_match, fn_rigid_suffix_match, rigid_suffix_match, pat_sets.
  rewrite (link_bp_len p H1). cbn [bind]. rewrite map_length. rewrite ?Nat.ltb_antisym.
  destruct (Nat.leb (b_len (convb p)) (length u)) eqn:E; cbn [negb]; [|reflexivity]. apply Nat.leb_le in E.
  unfold slice_range. replace (Nat.leb (BasePattern_start p) (BasePattern_end p) && Nat.leb (BasePattern_end p) (length v)) with true by lia.
  cbn [bind]. pose proof (link_char_sets_of_pattern _ Hr) as Hc. pose proof (csp_length _ Hr) as Hlen.
  destruct (M_fn_char_sets_of_pattern _) as [cs0|]; [|discriminate Hc]. cbn [option_map] in Hc. injection Hc as Hc.
  cbn [bind]. rewrite slice_conv in Hc, Hlen. cbn [convb b_start b_end] in *.
  assert (Hl0 : length cs0 = BasePattern_end p - BasePattern_start p).
  { rewrite <- (map_length conv), Hc, Hlen, firstn_length, skipn_length. lia. }
  unfold b_len, convb in *. cbn [b_start b_end] in *.
  unfold usize_sub. replace (Nat.leb (length cs0) (length u)) with true by lia. cbn [bind].
  rewrite (link_rigid_match_at cs0 u (length u - length cs0)) by lia.
  rewrite Hc, Hl0. reflexivity.
Qed.
