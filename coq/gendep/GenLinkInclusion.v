(* GenLinkInclusion.v -- the loop-free and read-only part of the inclusion matcher of
   regular_expressions.rs regenerated on every run (SVG.InclusionGen: base_patterns, rigid_match_at,
   next_rigid_match, prev_rigid_match, char_sets_of_pattern, rigid_prefix_match, rigid_suffix_match,
   flexible_match) coincides with the hand-written model Inclusion.v (C16), on the index ranges on which
   the Rust code does not panic (the model is total: it answers false where the code would index out
   of bounds, and skips the non-range terms that the code declares unreachable). *)
Require Import Base GenBase CharSet Partition LoopRange Regex Inclusion.
From SVG Require Import InclusionGen.
Require Import ZifyBool ZifyN ZifyNat.
Open Scope N_scope.

Definition conv (s : CharSet) : cs := (CharSet_start s, CharSet_end s).
Definition convp (p : CharPartition) : part :=
  {| ivs := map conv (CharPartition_list p); wit := CharPartition_comp_witness p |}.

(* ================= terms ================= *)
Definition convl (r : LoopRange) : lr := LR (LoopRange_f0 r) (LoopRange_f1 r).

Fixpoint conv_re (e : RE) : re :=
  match e with RE_mk k i n _ _ dc => Node (N.of_nat i) n (convp dc) (conv_base k) end
with conv_base (k : BaseRegLan) : node :=
  match k with
  | BaseRegLan_Empty => NEmpty
  | BaseRegLan_Epsilon => NEps
  | BaseRegLan_Range c => NRange (conv c)
  | BaseRegLan_Concat a b => NConcat (conv_re a) (conv_re b)
  | BaseRegLan_Loop a r => NLoop (conv_re a) (convl r)
  | BaseRegLan_Complement a => NCompl (conv_re a)
  | BaseRegLan_Union l => NUnion (map conv_re l)
  | BaseRegLan_Inter l => NInter (map conv_re l)
  end.

Lemma rnul_conv e : rnul (conv_re e) = RE_nullable e.
Proof. destruct e; reflexivity. Qed.
Lemma rcls_conv e : rcls (conv_re e) = convp (RE_deriv_class e).
Proof. destruct e; reflexivity. Qed.
Lemma rnode_conv e : rnode (conv_re e) = conv_base (RE_expr e).
Proof. destruct e; reflexivity. Qed.
Lemma rid_conv e : rid (conv_re e) = N.of_nat (RE_id e).
Proof. destruct e; reflexivity. Qed.

Lemma forallb_conv l : forallb rnul (map conv_re l) = forallb (fun x => RE_nullable x) l.
Proof. induction l as [|x l IH]; [reflexivity|]. cbn [map forallb]. rewrite rnul_conv, IH. reflexivity. Qed.
Lemma existsb_conv l : existsb rnul (map conv_re l) = existsb (fun x => RE_nullable x) l.
Proof. induction l as [|x l IH]; [reflexivity|]. cbn [map existsb]. rewrite rnul_conv, IH. reflexivity. Qed.

(* ---- canonical forms of the callees (generic proofs) ---- *)
Ltac gcase :=
  match goal with
  | |- context [match ?x with _ => _ end] =>
      lazymatch x with
      | context [match _ with _ => _ end] => fail
      | _ => first [ is_var x; destruct x | destruct x eqn:? ]
      end
  end.
Ltac gnorm := cbv [bind option_map negb andb orb]; cbn [fst snd].
Ltac gfin := first [ reflexivity | congruence | (exfalso; lia) | solve [repeat (f_equal; try lia)] ].
Ltac gauto := gnorm; repeat (gcase; gnorm); gfin.

Lemma canon_lr_is_all r : M_LoopRange_is_all r = Some (lr_is_all (convl r)).
Proof. unfold M_LoopRange_is_all, LoopRange_is_all. destruct r as [a [b|]]; cbv [convl lr_is_all LoopRange_f0 LoopRange_f1]; gauto. Qed.
Lemma canon_cs_is_alphabet c : M_CharSet_is_alphabet c = Some (cs_is_alphabet (conv c)).
Proof. unfold M_CharSet_is_alphabet, CharSet_is_alphabet. destruct c as [a b]. cbv [cs_is_alphabet conv CharSet_start CharSet_end fst snd MAXC MAX_CHAR]. gauto. Qed.
Lemma canon_cs_covers s x : M_CharSet_covers s x = Some (cs_covers (conv s) (conv x)).
Proof. unfold M_CharSet_covers, CharSet_covers. destruct s as [a b], x as [c d]. cbv [cs_covers conv CharSet_start CharSet_end fst snd]. gauto. Qed.

(* ---- the attribute computations ---- *)

Lemma link_is_all_chars e : M_BaseRegLan_is_all_chars (RE_expr e) = Some (is_all_chars (conv_re e)).
Proof.
  unfold is_all_chars. rewrite rnode_conv. unfold M_BaseRegLan_is_all_chars, BaseRegLan_is_all_chars.
  destruct (RE_expr e); cbn [conv_base]; rewrite ?canon_cs_is_alphabet; gauto.
Qed.
Lemma link_is_full e : M_BaseRegLan_is_full (RE_expr e) = Some (is_full (conv_re e)).
Proof.
  unfold is_full. rewrite rnode_conv. unfold M_BaseRegLan_is_full, BaseRegLan_is_full.
  destruct (RE_expr e); cbn [conv_base]; rewrite ?canon_lr_is_all, ?link_is_all_chars; gauto.
Qed.
Lemma link_is_range e : M_BaseRegLan_is_range (RE_expr e) = Some (is_range (conv_re e)).
Proof.
  unfold is_range. rewrite rnode_conv. unfold M_BaseRegLan_is_range, BaseRegLan_is_range.
  destruct (RE_expr e); cbn [conv_base]; gauto.
Qed.
Lemma link_match_char_set e s : M_BaseRegLan_match_char_set (RE_expr e) s = Some (match_char_set (conv_re e) (conv s)).
Proof.
  unfold match_char_set. rewrite rnode_conv. unfold M_BaseRegLan_match_char_set, BaseRegLan_match_char_set.
  destruct (RE_expr e); cbn [conv_base]; rewrite ?canon_cs_covers; gauto.
Qed.


Open Scope nat_scope.
(* ================= the matcher ================= *)
Definition convb (p : BasePattern) : bpat :=
  {| b_start := BasePattern_start p; b_end := BasePattern_end p; b_rigid := BasePattern_is_rigid p;
     b_sm := BasePattern_start_match p; b_em := BasePattern_end_match p |}.
Definition convsr (r : SearchResult) : option (nat * nat) :=
  match r with SearchResult_NotFound => None | SearchResult_Found a b => Some (a, b) end.

Lemma canon_bp_make s e r : M_BasePattern_make s e r = Some (BasePattern_mk s e r 0 0).
Proof. unfold M_BasePattern_make, BasePattern_make. gauto. Qed.
Lemma link_bp_len p : BasePattern_start p <= BasePattern_end p -> M_BasePattern_len p = Some (b_len (convb p)).
Proof.
  intros H. unfold M_BasePattern_len, BasePattern_len, usize_sub, b_len, convb. cbn [b_start b_end].
  replace (Nat.leb (BasePattern_start p) (BasePattern_end p)) with true by lia. reflexivity.
Qed.

Lemma is_range_conv e : is_range (conv_re e) = BaseRegLan_is_range (RE_expr e).
Proof. pose proof (link_is_range e) as H. unfold M_BaseRegLan_is_range in H. congruence. Qed.

(* ---- flexible_match ---- *)
Lemma link_flexible_match u v : M_fn_flexible_match u v = Some (flexible_match (map conv_re v)).
Proof.
  unfold M_fn_flexible_match, fn_flexible_match, flexible_match.
  destruct v as [|x [|y t]]; cbn [length Nat.eqb map nth_error bind]; try reflexivity.
  rewrite link_is_full. reflexivity.
Qed.

(* ---- base_patterns ---- *)
Definition bp_res (r : option (loopres (list BasePattern) (list BasePattern * nat * bool))) : option (list BasePattern * nat * bool) :=
  match r with Some (LoopDone x) => Some x | _ => None end.

Lemma beqb_sym a b : Bool.eqb a b = Bool.eqb b a.
Proof. destruct a, b; reflexivity. Qed.
Lemma link_bp_loop : forall l i acc j rigid,
  option_map (fun x => map convb (fst (fst x) ++ [BasePattern_mk (snd (fst x)) (i + length l) (snd x) 0 0]))
             (bp_res (fn_base_patterns_loop1 (combine (seq i (length l)) l) acc j rigid))
  = Some (base_patterns_go (map conv_re l) i j rigid (map convb acc)).
Proof.
  induction l as [|x l IH]; intros i acc j rigid.
  - cbn. rewrite Nat.add_0_r, map_app. reflexivity.
  - cbn [length seq combine fn_base_patterns_loop1 map base_patterns_go].
    rewrite link_is_range. cbn [bind]. rewrite is_range_conv. fold (BaseRegLan_is_range (RE_expr x)).
    rewrite ?(beqb_sym (BaseRegLan_is_range (RE_expr x)) rigid).
    destruct (Bool.eqb rigid (BaseRegLan_is_range (RE_expr x))) eqn:E; cbn [negb].
    + replace (i + S (length l)) with (S i + length l) by lia. apply IH.
    + rewrite canon_bp_make. cbn [bind].
      replace (i + S (length l)) with (S i + length l) by lia.
      rewrite IH. rewrite map_app. reflexivity.
Qed.

Lemma link_base_patterns r : option_map (map convb) (M_fn_base_patterns r) = Some (base_patterns (map conv_re r)).
Proof.
  unfold M_fn_base_patterns, fn_base_patterns, base_patterns. destruct r as [|x l]; [reflexivity|].
  cbn [negb nth_error bind map]. rewrite link_is_range. cbn [bind]. rewrite is_range_conv.
  unfold enumerate. cbn [length seq combine skipn].
  pose proof (link_bp_loop l 1 [] 0 (BaseRegLan_is_range (RE_expr x))) as H. cbn [map] in H.
  destruct (fn_base_patterns_loop1 (combine (seq 1 (length l)) l) [] 0 (BaseRegLan_is_range (RE_expr x))) as [[r0|[[res j] rg]]|];
    cbn [bp_res option_map] in H; try discriminate.
  cbn [bind fst snd] in *. rewrite canon_bp_make. cbn [bind option_map]. exact H.
Qed.

(* ---- rigid_match_at: the index loop versus the model's positioned recursion ---- *)
Lemma skipn_nth {A} (l : list A) : forall k x, nth_error l k = Some x -> skipn k l = x :: skipn (S k) l.
Proof. induction l as [|y l IH]; intros [|k] x H; try discriminate; cbn in *; [congruence|]. apply IH. exact H. Qed.
Lemma nth_error_map_re l k : nth_error (map conv_re l) k = option_map conv_re (nth_error l k).
Proof. apply nth_error_map. Qed.
Lemma nth_error_map_cs l k : nth_error (map conv l) k = option_map conv (nth_error l k).
Proof. apply nth_error_map. Qed.

Definition rm_res (r : option (loopres bool unit)) : option bool :=
  match r with Some (LoopReturn b) => Some b | Some (LoopDone _) => Some true | None => None end.

Lemma link_rm_loop p s i : i + length p <= length s -> forall d k, k + d = length p ->
  rm_res (fn_rigid_match_at_loop1 (seq k d) p s i)
  = Some (rigid_match_at (skipn k (map conv p)) (skipn (i + k) (map conv_re s))).
Proof.
  intros Hlen. induction d as [|d IH]; intros k Hk.
  - cbn [seq fn_rigid_match_at_loop1 rm_res]. rewrite skipn_all2 by (rewrite map_length; lia). reflexivity.
  - cbn [seq fn_rigid_match_at_loop1].
    destruct (nth_error s (i + k)) as [x|] eqn:Ex; [|apply nth_error_None in Ex; lia].
    destruct (nth_error p k) as [c|] eqn:Ec; [|apply nth_error_None in Ec; lia].
    cbn [bind]. rewrite link_match_char_set. cbn [bind].
    rewrite (skipn_nth (map conv p) k (conv c)) by (rewrite nth_error_map_cs, Ec; reflexivity).
    rewrite (skipn_nth (map conv_re s) (i + k) (conv_re x)) by (rewrite nth_error_map_re, Ex; reflexivity).
    cbn [rigid_match_at].
    destruct (match_char_set (conv_re x) (conv c)); cbn [negb andb]; [|reflexivity].
    replace (S (i + k)) with (i + S k) by lia. apply IH. lia.
Qed.

Lemma link_rigid_match_at p s i : i + length p <= length s ->
  M_fn_rigid_match_at p s i = Some (rigid_at (map conv p) (map conv_re s) i).
Proof.
  intros Hlen. unfold M_fn_rigid_match_at, fn_rigid_match_at, rigid_at.
  pose proof (link_rm_loop p s i Hlen (length p) 0 ltac:(lia)) as H.
  rewrite Nat.sub_0_r. rewrite Nat.add_0_r in H. cbn [skipn] in H.
  destruct (fn_rigid_match_at_loop1 (seq 0 (length p)) p s i) as [[b|u]|]; cbn [rm_res] in H; try discriminate;
    injection H as H; cbn [bind]; rewrite H; reflexivity.
Qed.

(* ---- next_rigid_match / prev_rigid_match ---- *)
Definition sr_res (r : option (loopres SearchResult unit)) : option (option (nat * nat)) :=
  match r with Some (LoopReturn x) => Some (convsr x) | Some (LoopDone _) => Some None | None => None end.

Lemma link_next_loop p s : forall l, Forall (fun j => j + length p <= length s) l ->
  sr_res (fn_next_rigid_match_loop1 l p s (length p))
  = Some (first_some (fun j => if rigid_at (map conv p) (map conv_re s) j then Some (j, j + length p) else None) l).
Proof.
  induction l as [|j l IH]; intros Hl; [reflexivity|]. inversion Hl as [|? ? Hj Hl']; subst.
  cbn [fn_next_rigid_match_loop1 first_some]. rewrite (link_rigid_match_at p s j Hj). cbn [bind].
  destruct (rigid_at (map conv p) (map conv_re s) j); [reflexivity|]. apply IH. exact Hl'.
Qed.

Lemma link_next_rigid_match p s i :
  option_map convsr (M_fn_next_rigid_match p s i) = Some (next_rigid_match (map conv p) (map conv_re s) i).
Proof.
  unfold M_fn_next_rigid_match, fn_next_rigid_match, next_rigid_match. rewrite !map_length.
  rewrite ?Nat.ltb_antisym.
  destruct (Nat.leb (length p) (length s)) eqn:E; cbn [negb]; [|reflexivity]. apply Nat.leb_le in E.
  unfold usize_sub. replace (Nat.leb (length p) (length s)) with true by lia. cbn [bind].
  assert (Hl : Forall (fun j => j + length p <= length s) (seq i (S (length s - length p) - i))).
  { apply Forall_forall. intros j Hj. apply in_seq in Hj. lia. }
  pose proof (link_next_loop p s _ Hl) as H.
  change (1 + (length s - length p) - i) with (S (length s - length p) - i).
  destruct (fn_next_rigid_match_loop1 (seq i (S (length s - length p) - i)) p s (length p)) as [[x|u]|];
    cbn [sr_res] in H; try discriminate; cbn [bind option_map]; exact H.
Qed.

Lemma link_prev_loop p s : forall l, Forall (fun j => length p <= j <= length s) l ->
  sr_res (fn_prev_rigid_match_loop1 l p s (length p))
  = Some (first_some (fun j => if rigid_at (map conv p) (map conv_re s) (j - length p) then Some (j - length p, j) else None) l).
Proof.
  induction l as [|j l IH]; intros Hl; [reflexivity|]. inversion Hl as [|? ? Hj Hl']; subst.
  cbn [fn_prev_rigid_match_loop1 first_some]. unfold usize_sub.
  replace (Nat.leb (length p) j) with true by lia. cbn [bind].
  rewrite (link_rigid_match_at p s (j - length p)) by lia. cbn [bind].
  destruct (rigid_at (map conv p) (map conv_re s) (j - length p)); [reflexivity|]. apply IH. exact Hl'.
Qed.

Lemma link_prev_rigid_match p s i : i <= length s ->
  option_map convsr (M_fn_prev_rigid_match p s i) = Some (prev_rigid_match (map conv p) (map conv_re s) i).
Proof.
  intros Hi. unfold M_fn_prev_rigid_match, fn_prev_rigid_match, prev_rigid_match. rewrite !map_length.
  assert (Hl : Forall (fun j => length p <= j <= length s) (rev (seq (length p) (S i - length p)))).
  { apply Forall_forall. intros j Hj. apply in_rev, in_seq in Hj. lia. }
  pose proof (link_prev_loop p s _ Hl) as H.
  change (1 + i - length p) with (S i - length p).
  destruct (fn_prev_rigid_match_loop1 (rev (seq (length p) (S i - length p))) p s (length p)) as [[x|u]|];
    cbn [sr_res] in H; try discriminate; cbn [bind option_map]; exact H.
Qed.

(* ---- char_sets_of_pattern (on rigid slices: every term is a Range; otherwise unreachable!()) ---- *)
Definition all_ranges (l : list RE) : Prop := Forall (fun r => BaseRegLan_is_range (RE_expr r) = true) l.
Definition csp_res (r : option (loopres (list CharSet) (list CharSet))) : option (list cs) :=
  match r with Some (LoopDone x) => Some (map conv x) | Some (LoopReturn x) => Some (map conv x) | None => None end.

Lemma link_csp_loop : forall l acc, all_ranges l ->
  csp_res (fn_char_sets_of_pattern_loop1 l acc) = Some (map conv acc ++ char_sets_of_pattern (map conv_re l)).
Proof.
  induction l as [|r l IH]; intros acc Hl; [cbn; rewrite app_nil_r; reflexivity|].
  inversion Hl as [|? ? Hr Hl']; subst.
  cbn [fn_char_sets_of_pattern_loop1 map]. unfold char_sets_of_pattern. cbn [flat_map]. rewrite rnode_conv.
  unfold BaseRegLan_is_range in Hr. destruct (RE_expr r) as [| |c|a b|a rg|a|lst|lst]; try discriminate.
  cbn [conv_base]. rewrite (IH (acc ++ [c]) Hl'). rewrite map_app, <- app_assoc. reflexivity.
Qed.
Lemma link_char_sets_of_pattern l : all_ranges l ->
  option_map (map conv) (M_fn_char_sets_of_pattern l) = Some (char_sets_of_pattern (map conv_re l)).
Proof.
  intros Hl. unfold M_fn_char_sets_of_pattern, fn_char_sets_of_pattern.
  pose proof (link_csp_loop l [] Hl) as H. cbn [map app] in H.
  destruct (fn_char_sets_of_pattern_loop1 l []) as [[x|x]|]; cbn [csp_res] in H; try discriminate; cbn [bind option_map]; exact H.
Qed.
Lemma csp_length l : all_ranges l -> length (char_sets_of_pattern (map conv_re l)) = length l.
Proof.
  induction 1 as [|r l Hr Hl IH]; [reflexivity|]. cbn [map]. unfold char_sets_of_pattern. cbn [flat_map]. rewrite rnode_conv.
  unfold BaseRegLan_is_range in Hr. destruct (RE_expr r); try discriminate. cbn [conv_base app length]. f_equal. exact IH.
Qed.

(* ---- rigid_prefix_match / rigid_suffix_match for a rigid pattern inside v ---- *)
Definition pat_ok (v : list RE) (p : BasePattern) : Prop :=
  BasePattern_start p <= BasePattern_end p <= length v /\
  all_ranges (firstn (BasePattern_end p - BasePattern_start p) (skipn (BasePattern_start p) v)).

Lemma slice_conv v s e : map conv_re (firstn (e - s) (skipn s v)) = slice (map conv_re v) s e.
Proof. unfold slice. rewrite skipn_map, firstn_map. reflexivity. Qed.

Lemma link_rigid_prefix_match u v p : pat_ok v p ->
  M_fn_rigid_prefix_match u v p = Some (rigid_prefix_match (map conv_re u) (map conv_re v) (convb p)).
Proof.
  intros [[H1 H2] Hr]. unfold M_fn_rigid_prefix_match, fn_rigid_prefix_match, rigid_prefix_match, pat_sets.
  rewrite (link_bp_len p H1). cbn [bind]. rewrite map_length. rewrite ?Nat.ltb_antisym.
  destruct (Nat.leb (b_len (convb p)) (length u)) eqn:E; cbn [negb]; [|reflexivity]. apply Nat.leb_le in E.
  unfold slice_range. replace (Nat.leb (BasePattern_start p) (BasePattern_end p) && Nat.leb (BasePattern_end p) (length v)) with true by lia.
  cbn [bind]. pose proof (link_char_sets_of_pattern _ Hr) as Hc. pose proof (csp_length _ Hr) as Hlen.
  destruct (M_fn_char_sets_of_pattern _) as [cs0|]; [|discriminate Hc]. cbn [option_map] in Hc. injection Hc as Hc.
  cbn [bind]. rewrite slice_conv in Hc, Hlen. cbn [convb b_start b_end] in *.
  assert (Hl0 : length cs0 = BasePattern_end p - BasePattern_start p).
  { rewrite <- (map_length conv), Hc, Hlen, firstn_length, skipn_length. lia. }
  rewrite (link_rigid_match_at cs0 u 0) by (unfold b_len, convb in E; cbn [b_start b_end] in E; lia).
  rewrite Hc. reflexivity.
Qed.

Lemma link_rigid_suffix_match u v p : pat_ok v p ->
  M_fn_rigid_suffix_match u v p = Some (rigid_suffix_match (map conv_re u) (map conv_re v) (convb p)).
Proof.
  intros [[H1 H2] Hr]. unfold M_fn_rigid_suffix_match, fn_rigid_suffix_match, rigid_suffix_match, pat_sets.
  rewrite (link_bp_len p H1). cbn [bind]. rewrite map_length. rewrite ?Nat.ltb_antisym.
  destruct (Nat.leb (b_len (convb p)) (length u)) eqn:E; cbn [negb]; [|reflexivity]. apply Nat.leb_le in E.
  unfold slice_range. replace (Nat.leb (BasePattern_start p) (BasePattern_end p) && Nat.leb (BasePattern_end p) (length v)) with true by lia.
  cbn [bind]. pose proof (link_char_sets_of_pattern _ Hr) as Hc. pose proof (csp_length _ Hr) as Hlen.
  destruct (M_fn_char_sets_of_pattern _) as [cs0|]; [|discriminate Hc]. cbn [option_map] in Hc. injection Hc as Hc.
  cbn [bind]. rewrite slice_conv in Hc, Hlen. cbn [convb b_start b_end] in *.
  assert (Hl0 : length cs0 = BasePattern_end p - BasePattern_start p).
  { rewrite <- (map_length conv), Hc, Hlen, firstn_length, skipn_length. lia. }
  unfold b_len, convb in *. cbn [b_start b_end] in *.
  unfold usize_sub. replace (Nat.leb (length cs0) (length u)) with true by lia. cbn [bind].
  rewrite (link_rigid_match_at cs0 u (length u - length cs0)) by lia.
  rewrite Hc, Hl0. reflexivity.
Qed.

(* ================= the passes that update the pattern array (in-out parameter: returned with the result) ================= *)
Lemma canon_set_match p a b :
  M_BasePattern_set_match p a b = Some (BasePattern_mk (BasePattern_start p) (BasePattern_end p) (BasePattern_is_rigid p) a b).
Proof. unfold M_BasePattern_set_match, BasePattern_set_match. destruct p. reflexivity. Qed.
Lemma convb_set_match p a b :
  convb (BasePattern_mk (BasePattern_start p) (BasePattern_end p) (BasePattern_is_rigid p) a b) = b_set_match (convb p) a b.
Proof. reflexivity. Qed.

(* ---- shift_pattern_start ---- *)
Definition shift_res (r : option (loopres (list BasePattern * unit) (list BasePattern))) : option (list bpat) :=
  match r with Some (LoopDone l) => Some (map convb l) | _ => None end.
Lemma link_shift_loop d : forall l acc, Forall (fun p => d <= BasePattern_start p /\ d <= BasePattern_end p) l ->
  shift_res (fn_shift_pattern_start_loop1 l d acc) = Some (map convb acc ++ map (fun q => b_shift q d) (map convb l)).
Proof.
  induction l as [|p l IH]; intros acc Hl; [cbn; rewrite app_nil_r; reflexivity|].
  inversion Hl as [|? ? [H1 H2] Hl']; subst.
  cbn [fn_shift_pattern_start_loop1 map]. unfold usize_sub.
  replace (Nat.leb d (BasePattern_start p)) with true by lia. cbn [bind].
  cbn [BasePattern_start BasePattern_end BasePattern_is_rigid BasePattern_start_match BasePattern_end_match].
  replace (Nat.leb d (BasePattern_end p)) with true by lia. cbn [bind].
  rewrite (IH _ Hl'). rewrite map_app, <- app_assoc. reflexivity.
Qed.
Lemma link_shift_pattern_start l d : Forall (fun p => d <= BasePattern_start p /\ d <= BasePattern_end p) l ->
  option_map (fun r => map convb (fst r)) (M_fn_shift_pattern_start l d) = Some (map (fun q => b_shift q d) (map convb l)).
Proof.
  intros Hl. unfold M_fn_shift_pattern_start, fn_shift_pattern_start.
  pose proof (link_shift_loop d l [] Hl) as H. cbn [map app] in H.
  destruct (fn_shift_pattern_start_loop1 l d []) as [[x|x]|]; cbn [shift_res] in H; try discriminate.
  cbn [bind option_map fst]. exact H.
Qed.

(* ---- find_rigid_matches: every rigid pattern lies inside v and its slice consists of Range terms ---- *)
Definition rigid_ok (v : list RE) (p : BasePattern) : Prop := BasePattern_is_rigid p = true -> pat_ok v p.

Lemma pat_sets_link v p : pat_ok v p ->
  exists cs0, slice_range v (BasePattern_start p) (BasePattern_end p) = Some (firstn (BasePattern_end p - BasePattern_start p) (skipn (BasePattern_start p) v)) /\
              M_fn_char_sets_of_pattern (firstn (BasePattern_end p - BasePattern_start p) (skipn (BasePattern_start p) v)) = Some cs0 /\
              map conv cs0 = pat_sets (map conv_re v) (convb p).
Proof.
  intros [[H1 H2] Hr]. pose proof (link_char_sets_of_pattern _ Hr) as Hc.
  destruct (M_fn_char_sets_of_pattern _) as [cs0|]; [|discriminate Hc]. cbn [option_map] in Hc. injection Hc as Hc.
  exists cs0. split; [|split; [reflexivity|]].
  - unfold slice_range. replace (Nat.leb (BasePattern_start p) (BasePattern_end p) && Nat.leb (BasePattern_end p) (length v)) with true by lia. reflexivity.
  - rewrite Hc, slice_conv. reflexivity.
Qed.

Definition frm_res (r : option (loopres (list BasePattern * bool) (list BasePattern * nat))) : option (bool * list bpat) :=
  match r with
  | Some (LoopReturn (l, b)) => Some (b, map convb l)
  | Some (LoopDone (l, _)) => Some (true, map convb l)
  | None => None
  end.

Lemma link_frm_loop u v pats0 : forall l acc i, Forall (rigid_ok v) l ->
  frm_res (fn_find_rigid_matches_loop1 l u v pats0 acc i)
  = Some (let '(ok, t') := find_rigid_matches (map conv_re u) (map conv_re v) (map convb l) i in (ok, map convb acc ++ t')).
Proof.
  induction l as [|p l IH]; intros acc i Hl; [cbn; rewrite app_nil_r; reflexivity|].
  inversion Hl as [|? ? Hp Hl']; subst.
  cbn [fn_find_rigid_matches_loop1 map find_rigid_matches]. change (b_rigid (convb p)) with (BasePattern_is_rigid p).
  destruct (BasePattern_is_rigid p) eqn:Er.
  - destruct (pat_sets_link v p (Hp Er)) as (cs0 & Hs1 & Hs2 & Hcs). rewrite Hs1. cbn [bind]. rewrite Hs2. cbn [bind].
    pose proof (link_next_rigid_match cs0 u i) as Hn. rewrite Hcs in Hn.
    destruct (M_fn_next_rigid_match cs0 u i) as [[j k|]|]; cbn [option_map convsr] in Hn; try discriminate;
      injection Hn as Hn; rewrite <- Hn; cbn [bind].
    + rewrite canon_set_match. cbn [bind]. rewrite (IH _ k Hl').
      destruct (find_rigid_matches (map conv_re u) (map conv_re v) (map convb l) k) as [ok t'].
      rewrite map_app, <- app_assoc. cbn [map app]. rewrite convb_set_match. reflexivity.
    + cbn [frm_res]. rewrite map_app. reflexivity.
  - rewrite (IH _ i Hl').
    destruct (find_rigid_matches (map conv_re u) (map conv_re v) (map convb l) i) as [ok t'].
    rewrite map_app, <- app_assoc. reflexivity.
Qed.

(* find_rigid_matches returns the model's verdict and the model's updated pattern list *)
Lemma link_find_rigid_matches u v l : Forall (rigid_ok v) l ->
  option_map (fun r => (snd r, map convb (fst r))) (M_fn_find_rigid_matches u v l)
  = Some (find_rigid_matches (map conv_re u) (map conv_re v) (map convb l) 0).
Proof.
  intros Hl. unfold M_fn_find_rigid_matches, fn_find_rigid_matches.
  pose proof (link_frm_loop u v l l [] 0 Hl) as H. cbn [map app] in H.
  destruct (find_rigid_matches (map conv_re u) (map conv_re v) (map convb l) 0) as [ok t'] eqn:Em.
  destruct (fn_find_rigid_matches_loop1 l u v l [] 0) as [[[r b]|[r i]]|]; cbn [frm_res] in H; try discriminate;
    cbn [bind option_map fst snd]; congruence.
Qed.

(* ---- set_flexible_regions: the in-place index loop is the model's left-to-right pass ---- *)
Lemma nth_error_mid {A} (pre : list A) x rest : nth_error (pre ++ x :: rest) (length pre) = Some x.
Proof. rewrite nth_error_app2 by lia. rewrite Nat.sub_diag. reflexivity. Qed.
Lemma list_upd_mid {A} (pre : list A) x y rest : list_upd (pre ++ x :: rest) (length pre) y = Some (pre ++ y :: rest).
Proof. induction pre as [|z pre IH]; [reflexivity|]. cbn [app length list_upd]. rewrite IH. reflexivity. Qed.

Definition last_em (done : list BasePattern) : nat :=
  match rev done with [] => 0 | q :: _ => BasePattern_end_match q end.
Lemma last_em_snoc done q : last_em (done ++ [q]) = BasePattern_end_match q.
Proof. unfold last_em. rewrite rev_app_distr. reflexivity. Qed.

Definition sfr_res (r : option (loopres (list BasePattern * unit) (list BasePattern))) : option (list BasePattern) :=
  match r with Some (LoopDone l) => Some l | _ => None end.

Lemma link_sfr_loop slen : forall rest done,
  exists R, sfr_res (fn_set_flexible_regions_loop1 (seq (length done) (length rest)) slen (done ++ rest)) = Some (done ++ R) /\
            map convb R = set_flexible_regions_go (last_em done) (map convb rest) slen.
Proof.
  induction rest as [|p t IH]; intros done.
  - exists []. cbn. split; reflexivity.
  - cbn [length seq fn_set_flexible_regions_loop1 map set_flexible_regions_go].
    rewrite nth_error_mid. cbn [bind]. change (b_rigid (convb p)) with (BasePattern_is_rigid p).
    destruct (BasePattern_is_rigid p) eqn:Er; cbn [negb].
    + (* rigid: untouched *)
      specialize (IH (done ++ [p])). rewrite app_length in IH. cbn [length] in IH.
      replace (length done + 1) with (S (length done)) in IH by lia. rewrite <- app_assoc in IH. cbn [app] in IH.
      destruct IH as (R & H1 & H2). exists (p :: R). split.
      * rewrite H1, <- app_assoc. reflexivity.
      * cbn [map]. rewrite last_em_snoc in H2. rewrite H2. reflexivity.
    + (* flexible: prev = end_match of the updated left neighbour, next = start_match of the right neighbour *)
      assert (Hprev : (if Nat.eqb (length done) 0 then Some 0
                       else do t53 <- usize_sub (length done) 1; do t54 <- nth_error (done ++ p :: t) t53; Some (BasePattern_end_match t54))
                      = Some (last_em done)).
      { destruct done as [|d0 done'] using rev_ind; [reflexivity|].
        rewrite app_length. cbn [length]. replace (Nat.eqb (length done' + 1) 0) with false by lia.
        unfold usize_sub. replace (Nat.leb 1 (length done' + 1)) with true by lia. cbn [bind].
        replace (length done' + 1 - 1) with (length done') by lia.
        rewrite <- app_assoc. cbn [app]. rewrite nth_error_mid. cbn [bind]. rewrite last_em_snoc. reflexivity. }
      rewrite Hprev. cbn [bind].
      rewrite app_length. cbn [length]. unfold usize_sub at 1.
      replace (Nat.leb 1 (length done + S (length t))) with true by lia. cbn [bind].
      assert (Hnext : (if Nat.eqb (length done) (length done + S (length t) - 1) then Some slen
                       else do t57 <- nth_error (done ++ p :: t) (length done + 1); Some (BasePattern_start_match t57))
                      = Some (match map convb t with [] => slen | q :: _ => b_sm q end)).
      { destruct t as [|q t'].
        - cbn [length map]. replace (Nat.eqb (length done) (length done + 1 - 1)) with true by lia. reflexivity.
        - cbn [length map]. replace (Nat.eqb (length done) (length done + S (S (length t')) - 1)) with false by lia.
          replace (done ++ p :: q :: t') with ((done ++ [p]) ++ q :: t') by (rewrite <- app_assoc; reflexivity).
          replace (length done + 1) with (length (done ++ [p])) by (rewrite app_length; reflexivity).
          rewrite nth_error_mid. reflexivity. }
      rewrite Hnext. cbn [bind]. rewrite canon_set_match. cbn [bind].
      rewrite list_upd_mid. cbn [bind].
      set (p' := BasePattern_mk (BasePattern_start p) (BasePattern_end p) (BasePattern_is_rigid p) (last_em done)
                   (match map convb t with [] => slen | q :: _ => b_sm q end)).
      specialize (IH (done ++ [p'])). rewrite app_length in IH. cbn [length] in IH.
      replace (length done + 1) with (S (length done)) in IH by lia. rewrite <- app_assoc in IH. cbn [app] in IH.
      destruct IH as (R & H1 & H2). exists (p' :: R). split.
      * rewrite H1, <- app_assoc. reflexivity.
      * cbn [map]. rewrite last_em_snoc in H2. rewrite H2. subst p'. rewrite convb_set_match. cbn [b_em b_set_match convb].
        rewrite Er. reflexivity.
Qed.

(* set_flexible_regions never panics and is the model's pass *)
Lemma link_set_flexible_regions l slen :
  option_map (fun r => map convb (fst r)) (M_fn_set_flexible_regions l slen) = Some (set_flexible_regions (map convb l) slen).
Proof.
  unfold M_fn_set_flexible_regions, fn_set_flexible_regions, set_flexible_regions.
  destruct (link_sfr_loop slen l []) as (R & H1 & H2). cbn [length app] in H1. rewrite Nat.sub_0_r.
  destruct (fn_set_flexible_regions_loop1 (seq 0 (length l)) slen l) as [[x|x]|]; cbn [sfr_res] in H1; try discriminate.
  injection H1 as ->. cbn [bind option_map fst]. f_equal. exact H2.
Qed.

(* ---- match_flexible_patterns ---- *)
Definition flex_ok (u v : list RE) (q : bpat) : Prop :=
  b_rigid q = false -> b_sm q <= b_em q <= length u /\ b_start q <= b_end q <= length v.

Definition mf_res (r : option (loopres (list BasePattern * bool) (list BasePattern))) : option (bool * list bpat) :=
  match r with
  | Some (LoopReturn (l, b)) => Some (b, map convb l)
  | Some (LoopDone l) => Some (true, map convb l)
  | None => None
  end.

Lemma link_mf_loop u v pats0 : forall l acc, Forall (fun p => flex_ok u v (convb p)) l ->
  mf_res (fn_match_flexible_patterns_loop1 l u v pats0 acc)
  = Some (forallb (fun p => b_rigid p || flexible_match (slice (map conv_re v) (b_start p) (b_end p))) (map convb l),
          map convb (acc ++ l)).
Proof.
  induction l as [|p l IH]; intros acc Hl; [cbn; rewrite app_nil_r; reflexivity|].
  inversion Hl as [|? ? Hp Hl']; subst.
  cbn [fn_match_flexible_patterns_loop1 map forallb]. change (b_rigid (convb p)) with (BasePattern_is_rigid p).
  destruct (BasePattern_is_rigid p) eqn:Er; cbn [negb orb bind].
  - rewrite (IH _ Hl'). rewrite <- app_assoc. reflexivity.
  - destruct (Hp Er) as [[Ha Hb] [Hc Hd]]. cbn [convb b_sm b_em b_start b_end] in *.
    unfold slice_range.
    replace (Nat.leb (BasePattern_start_match p) (BasePattern_end_match p) && Nat.leb (BasePattern_end_match p) (length u)) with true by lia.
    replace (Nat.leb (BasePattern_start p) (BasePattern_end p) && Nat.leb (BasePattern_end p) (length v)) with true by lia.
    cbn [bind]. rewrite link_flexible_match. cbn [bind]. rewrite slice_conv.
    destruct (flexible_match (slice (map conv_re v) (BasePattern_start p) (BasePattern_end p))); cbn [negb andb].
    + rewrite (IH _ Hl'). rewrite <- app_assoc. reflexivity.
    + reflexivity.
Qed.

(* match_flexible_patterns: the model's verdict; the pattern array handed back is the model's set_flexible_regions *)
Lemma link_match_flexible_patterns u v l :
  Forall (flex_ok u v) (set_flexible_regions (map convb l) (length u)) ->
  option_map (fun r => snd r) (M_fn_match_flexible_patterns u v l)
  = Some (match_flexible_patterns (map conv_re u) (map conv_re v) (map convb l)).
Proof.
  intros Hok. unfold M_fn_match_flexible_patterns, fn_match_flexible_patterns, match_flexible_patterns.
  destruct l as [|p0 l0]; [destruct u; reflexivity|]. cbn [map]. rewrite map_length.
  pose proof (link_set_flexible_regions (p0 :: l0) (length u)) as Hs. cbn [map] in Hs.
  destruct (M_fn_set_flexible_regions (p0 :: l0) (length u)) as [[ps un]|]; [|discriminate Hs].
  cbn [option_map fst] in Hs. injection Hs as Hs. cbn [bind].
  cbn [map] in Hok. rewrite <- Hs in Hok. rewrite Forall_map in Hok.
  pose proof (link_mf_loop u v ps ps [] Hok) as H. cbn [app] in H.
  rewrite <- Hs.
  destruct (fn_match_flexible_patterns_loop1 ps u v ps []) as [[[r b]|r]|]; cbn [mf_res] in H; try discriminate;
    cbn [bind option_map snd]; congruence.
Qed.

(* ---- find_rigid_matches_rev: the reversed list is processed, the result reversed back ---- *)
Definition frmr_res (r : option (loopres (list BasePattern * bool) (list BasePattern * nat))) : option (bool * list bpat) :=
  match r with
  | Some (LoopReturn (l, b)) => Some (b, map convb l)
  | Some (LoopDone (l, _)) => Some (true, map convb (rev l))
  | None => None
  end.

Lemma prev_le pat s i j k : prev_rigid_match pat s i = Some (j, k) -> j <= i.
Proof.
  unfold prev_rigid_match. intros H.
  assert (G : forall l r, first_some (fun j0 => if rigid_at pat s (j0 - length pat) then Some (j0 - length pat, j0) else None) l = Some r ->
              exists x, In x l /\ r = (x - length pat, x)).
  { induction l as [|x l IHl]; intros r Hr; [discriminate|]. cbn [first_some] in Hr.
    destruct (rigid_at pat s (x - length pat)).
    - injection Hr as <-. exists x. split; [left; reflexivity|reflexivity].
    - destruct (IHl r Hr) as (y & Hy & E). exists y. split; [right; exact Hy|exact E]. }
  destruct (G _ _ H) as (x & Hx & E). injection E as -> ->. apply in_rev, in_seq in Hx. lia.
Qed.

Lemma link_frmr_loop u v pats0 : forall l acc i, Forall (rigid_ok v) l -> i <= length u ->
  frmr_res (fn_find_rigid_matches_rev_loop1 l u v pats0 acc i)
  = Some (let '(ok, t') := find_rigid_matches_rev_go (map conv_re u) (map conv_re v) (map convb l) i in
          (ok, rev (map convb acc ++ t'))).
Proof.
  induction l as [|p l IH]; intros acc i Hl Hi.
  - cbn. rewrite app_nil_r, map_rev. reflexivity.
  - inversion Hl as [|? ? Hp Hl']; subst.
    cbn [fn_find_rigid_matches_rev_loop1 map find_rigid_matches_rev_go]. change (b_rigid (convb p)) with (BasePattern_is_rigid p).
    destruct (BasePattern_is_rigid p) eqn:Er.
    + destruct (pat_sets_link v p (Hp Er)) as (cs0 & Hs1 & Hs2 & Hcs). rewrite Hs1. cbn [bind]. rewrite Hs2. cbn [bind].
      pose proof (link_prev_rigid_match cs0 u i Hi) as Hn. rewrite Hcs in Hn.
      destruct (M_fn_prev_rigid_match cs0 u i) as [[j k|]|]; cbn [option_map convsr] in Hn; try discriminate;
        injection Hn as Hn; rewrite <- Hn; cbn [bind].
      * rewrite canon_set_match. cbn [bind].
        assert (Hj : j <= length u).
        { symmetry in Hn. apply prev_le in Hn. lia. }
        rewrite (IH _ j Hl' Hj).
        destruct (find_rigid_matches_rev_go (map conv_re u) (map conv_re v) (map convb l) j) as [ok t'].
        rewrite map_app, <- app_assoc. cbn [map app]. rewrite convb_set_match. reflexivity.
      * cbn [frmr_res]. rewrite map_rev, map_app. reflexivity.
    + rewrite (IH _ i Hl' Hi).
      destruct (find_rigid_matches_rev_go (map conv_re u) (map conv_re v) (map convb l) i) as [ok t'].
      rewrite map_app, <- app_assoc. reflexivity.
Qed.

Lemma link_find_rigid_matches_rev u v l : Forall (rigid_ok v) l ->
  option_map (fun r => (snd r, map convb (fst r))) (M_fn_find_rigid_matches_rev u v l)
  = Some (find_rigid_matches_rev (map conv_re u) (map conv_re v) (map convb l)).
Proof.
  intros Hl. unfold M_fn_find_rigid_matches_rev, fn_find_rigid_matches_rev, find_rigid_matches_rev.
  assert (Hl' : Forall (rigid_ok v) (rev l)) by (apply Forall_rev; exact Hl).
  pose proof (link_frmr_loop u v l (rev l) [] (length u) Hl' (le_n _)) as H. cbn [map app] in H.
  rewrite map_rev in H. rewrite map_length.
  destruct (find_rigid_matches_rev_go (map conv_re u) (map conv_re v) (rev (map convb l)) (length u)) as [ok t'] eqn:Em.
  destruct (fn_find_rigid_matches_rev_loop1 (rev l) u v l [] (length u)) as [[[r b]|[r i]]|]; cbn [frmr_res] in H; try discriminate;
    cbn [bind option_map fst snd]; congruence.
Qed.

(* ================= flatten_concat / decompose_concat (self-recursive: a Fixpoint on fuel) ================= *)
Lemma height_concat_l i n p a b : height a < height (Node i n p (NConcat a b)).
Proof. cbn [height]. lia. Qed.
Lemma height_concat_r i n p a b : height b < height (Node i n p (NConcat a b)).
Proof. cbn [height]. lia. Qed.

(* with fuel above the height of the term the traversal never runs out, never panics, appends to the vector it is
   given and appends exactly the model's list of factors *)
Lemma link_flatten_concat_fuel : forall fuel r v, height (conv_re r) <= fuel ->
  exists l, M_fn_flatten_concat fuel r v = Some (v ++ l, tt) /\ map conv_re l = flatten_concat (conv_re r).
Proof.
  unfold M_fn_flatten_concat.
  induction fuel as [|fuel IH]; intros r v Hh.
  - destruct r as [k i n s sp dc]. cbn [conv_re height] in Hh. destruct (conv_base k); lia.
  - destruct r as [k i n s sp dc]. cbn [fn_flatten_concat RE_expr].
    destruct k as [| |c|a b|a lr|a|l|l];
      try (eexists; split; [reflexivity|reflexivity]).
    + exists []. rewrite app_nil_r. split; reflexivity.
    + cbn [conv_re conv_base] in Hh. fold conv_re in Hh.
      pose proof (height_concat_l (N.of_nat i) n (convp dc) (conv_re a) (conv_re b)) as Ha.
      pose proof (height_concat_r (N.of_nat i) n (convp dc) (conv_re a) (conv_re b)) as Hb.
      destruct (IH a v ltac:(lia)) as (l1 & E1 & M1). rewrite E1. cbn [bind].
      destruct (IH b (v ++ l1) ltac:(lia)) as (l2 & E2 & M2). rewrite E2. cbn [bind].
      exists (l1 ++ l2). split; [rewrite app_assoc; reflexivity|].
      rewrite map_app, M1, M2. reflexivity.
Qed.

Lemma link_decompose_concat fuel r : height (conv_re r) <= fuel ->
  option_map (map conv_re) (M_fn_decompose_concat fuel r) = Some (flatten_concat (conv_re r)).
Proof.
  intros Hh. unfold M_fn_decompose_concat, fn_decompose_concat.
  destruct (link_flatten_concat_fuel fuel r [] Hh) as (l & E & M). rewrite E. cbn [bind app option_map]. rewrite M. reflexivity.
Qed.

(* ---- flatten_inter / flatten_union: the recursive call sits inside a for loop; the loop takes the function at the
   smaller fuel as a parameter ---- *)
Lemma height_inter_in i n p l x : In x l -> height x < height (Node i n p (NInter l)).
Proof.
  intros Hx. simpl. apply Nat.lt_succ_r. induction l as [|y l IH]; [destruct Hx|].
  destruct Hx as [->|Hx]; [lia|]. specialize (IH Hx). lia.
Qed.
Lemma height_union_in i n p l x : In x l -> height x < height (Node i n p (NUnion l)).
Proof.
  intros Hx. simpl. apply Nat.lt_succ_r. induction l as [|y l IH]; [destruct Hx|].
  destruct Hx as [->|Hx]; [lia|]. specialize (IH Hx). lia.
Qed.

Lemma flatten_loop_ok (rec_ : RE -> list RE -> option (list RE * unit)) (F : re -> list re)
    (loop : (RE -> list RE -> option (list RE * unit)) -> nat -> list RE -> list RE -> option (loopres (list RE * unit) (list RE)))
    (loop_nil : forall fuel v, loop rec_ fuel [] v = Some (LoopDone v))
    (loop_cons : forall fuel x l v, loop rec_ fuel (x :: l) v = (do t <- rec_ x v; let '(o, _) := t in loop rec_ fuel l o))
    fuel : forall l v,
  (forall x v', In x l -> exists l', rec_ x v' = Some (v' ++ l', tt) /\ map conv_re l' = F (conv_re x)) ->
  exists l', loop rec_ fuel l v = Some (LoopDone (v ++ l')) /\ map conv_re l' = flat_map F (map conv_re l).
Proof.
  induction l as [|x l IH]; intros v Hrec.
  - exists []. rewrite loop_nil, app_nil_r. split; reflexivity.
  - rewrite loop_cons. destruct (Hrec x v (or_introl eq_refl)) as (l1 & E1 & M1). rewrite E1. cbn [bind].
    destruct (IH (v ++ l1) (fun y v' Hy => Hrec y v' (or_intror Hy))) as (l2 & E2 & M2). rewrite E2.
    exists (l1 ++ l2). split; [rewrite app_assoc; reflexivity|]. cbn [map flat_map]. rewrite map_app, M1, M2. reflexivity.
Qed.

Lemma link_flatten_inter_fuel : forall fuel r v, height (conv_re r) <= fuel ->
  exists l, M_fn_flatten_inter fuel r v = Some (v ++ l, tt) /\ map conv_re l = flatten_inter (conv_re r).
Proof.
  unfold M_fn_flatten_inter.
  induction fuel as [|fuel IH]; intros r v Hh.
  - destruct r as [k i n s sp dc]. cbn [conv_re height] in Hh. destruct (conv_base k); lia.
  - destruct r as [k i n s sp dc]. cbn [fn_flatten_inter RE_expr].
    destruct k as [| |c|a b|a lr|a|l|l]; try (eexists; split; [reflexivity|reflexivity]).
    cbn [conv_re conv_base] in Hh. fold conv_re in Hh.
    destruct (flatten_loop_ok (fn_flatten_inter fuel) flatten_inter fn_flatten_inter_loop1
                (fun _ _ => eq_refl) (fun _ _ _ _ => eq_refl) fuel l v) as (l' & E & M).
    { intros x v' Hx. apply IH.
      pose proof (height_inter_in (N.of_nat i) n (convp dc) (map conv_re l) (conv_re x) (in_map conv_re _ _ Hx)). lia. }
    rewrite E. cbn [bind]. exists l'. split; [reflexivity|]. rewrite M. reflexivity.
Qed.
Lemma link_flatten_union_fuel : forall fuel r v, height (conv_re r) <= fuel ->
  exists l, M_fn_flatten_union fuel r v = Some (v ++ l, tt) /\ map conv_re l = flatten_union (conv_re r).
Proof.
  unfold M_fn_flatten_union.
  induction fuel as [|fuel IH]; intros r v Hh.
  - destruct r as [k i n s sp dc]. cbn [conv_re height] in Hh. destruct (conv_base k); lia.
  - destruct r as [k i n s sp dc]. cbn [fn_flatten_union RE_expr].
    destruct k as [| |c|a b|a lr|a|l|l]; try (eexists; split; [reflexivity|reflexivity]).
    cbn [conv_re conv_base] in Hh. fold conv_re in Hh.
    destruct (flatten_loop_ok (fn_flatten_union fuel) flatten_union fn_flatten_union_loop1
                (fun _ _ => eq_refl) (fun _ _ _ _ => eq_refl) fuel l v) as (l' & E & M).
    { intros x v' Hx. apply IH.
      pose proof (height_union_in (N.of_nat i) n (convp dc) (map conv_re l) (conv_re x) (in_map conv_re _ _ Hx)). lia. }
    rewrite E. cbn [bind]. exists l'. split; [reflexivity|]. rewrite M. reflexivity.
Qed.
