(* GenLinkRegexNode.v -- the per-node attribute computations of regular_expressions.rs regenerated on
   every run (SVG.RegexNodeGen: BaseRegLan::is_nullable, deriv_class with its merge of the operands'
   partitions, is_all_chars, is_full, concat_or_atomic, is_range, match_char_set) coincide with the
   hand-written model Regex.v (k_nullable, k_class, ...).  The generated term type RE / BaseRegLan is
   the Rust type (a mutual inductive); conv_re reads it as the model's id-tagged tree. *)
Require Import Base GenBase CharSet Partition PartitionSpec PartitionProofs MergeProofs LoopRange Regex.
From SVG Require Import RegexNodeGen.
Require Import ZifyBool ZifyN ZifyNat.
Open Scope N_scope.

Definition conv (s : CharSet) : cs := (CharSet_start s, CharSet_end s).
Definition convp (p : CharPartition) : part :=
  {| ivs := map conv (CharPartition_list p); wit := CharPartition_comp_witness p |}.
Definition convc (c : ClassId) : classid :=
  match c with ClassId_Interval i => CInt i | ClassId_Complement => CComp end.
Definition convr (c : CoverResult) : cover :=
  match c with CoverResult_CoveredBy i => CoveredBy i | CoverResult_DisjointFromAll => DisjointFromAll
             | CoverResult_Overlaps => Overlaps end.

Lemma conv_inj s o : conv s = conv o -> s = o.
Proof. destruct s as [a b], o as [c d]. cbv [conv CharSet_start CharSet_end]. congruence. Qed.

Ltac gunfold :=
  autounfold with rs2v in *;
  cbv [conv convp convc convr option_map bind fst snd CharSet_start CharSet_end
       CharPartition_list CharPartition_comp_witness ivs wit
       u32_add u32_mul u32_sub U32MAX usize_add usize_sub usize_div
       cs_contains cs_is_before pnew plen pfrom_set ppush pget pstart pend pinterval ppick_iv
       pempty_complement ppick_complement pvalid pnum_classes ppick SENT MAXC
       orb andb negb] in *.

Ltac gcases :=
  repeat match goal with
         | |- context [match ?x with _ => _ end] =>
             lazymatch x with
             | context [match _ with _ => _ end] => fail
             | _ => first [ is_var x; destruct x | destruct x eqn:? ]
             end
         end.

Ltac gbools :=
  repeat match goal with
         | |- context [N.leb ?a ?b] => destruct (N.leb a b) eqn:?
         | |- context [N.ltb ?a ?b] => destruct (N.ltb a b) eqn:?
         | |- context [N.eqb ?a ?b] => destruct (N.eqb a b) eqn:?
         | |- context [Nat.leb ?a ?b] => destruct (Nat.leb a b) eqn:?
         | |- context [Nat.ltb ?a ?b] => destruct (Nat.ltb a b) eqn:?
         | |- context [Nat.eqb ?a ?b] => destruct (Nat.eqb a b) eqn:?
         end.

Ltac ctor_eq :=
  repeat match goal with
         | |- ?x = ?x => reflexivity
         | |- @eq N _ _ => lia
         | |- @eq nat _ _ => lia
         | |- ?f ?a = ?f ?b => apply (f_equal f)
         | |- ?f ?a ?c = ?f ?b ?d => apply (f_equal2 f)
         end.

Ltac gfinish :=
  first [ reflexivity | congruence | (exfalso; lia) | solve [ctor_eq] ].

Ltac glink := intros; gunfold; gcases; gbools; gfinish.

(* ---- the element functions used by the searches ---- *)
Lemma link_cs_contains s x : M_CharSet_contains s x = Some (cs_contains (conv s) x).
Proof. destruct s. glink. Qed.
Lemma link_cs_is_before s x : M_CharSet_is_before s x = Some (cs_is_before (conv s) x).
Proof. destruct s. glink. Qed.

(* ---- constructors ---- *)
Lemma link_new : option_map convp M_CharPartition_new = Some pnew.
Proof. reflexivity. Qed.

Lemma link_from_set c : CharSet_end c <= MAX_CHAR ->
  option_map convp (M_CharPartition_from_set c) = Some (pfrom_set (conv c)).
Proof. destruct c. glink. Qed.

Lemma link_push p a b : b <= MAX_CHAR ->
  option_map convp (M_CharPartition_push p a b) = Some (ppush (convp p) a b).
Proof.
  destruct p as [l w]. intros Hb. gunfold.
  destruct (a <=? w) eqn:E.
  - destruct (b + 1 <=? 4294967295) eqn:E2; [|exfalso; lia].
    gunfold. rewrite map_app. reflexivity.
  - gunfold. rewrite map_app. reflexivity.
Qed.

(* ---- accessors ---- *)

Lemma nth_error_map_conv l i : nth_error (map conv l) i = option_map conv (nth_error l i).
Proof. revert i; induction l as [|x l IH]; intros [|i]; cbn; auto. Qed.

Lemma nth_conv l i : nth i (map conv l) (SENT, SENT) =
  match nth_error l i with Some s => conv s | None => (SENT, SENT) end.
Proof. revert i; induction l as [|x l IH]; intros [|i]; cbn; auto. Qed.

Lemma nth_error_lt {A} (l : list A) i : Nat.ltb i (length l) = true -> exists x, nth_error l i = Some x.
Proof.
  intros H. apply Nat.ltb_lt in H. destruct (nth_error l i) eqn:E; [eauto|].
  apply nth_error_None in E. lia.
Qed.
Lemma nth_error_ge {A} (l : list A) i : Nat.ltb i (length l) = false -> nth_error l i = None.
Proof. intros H. apply Nat.ltb_ge in H. apply nth_error_None. exact H. Qed.

(* generic proof of the accessor links: unfold, express the model's nth / nth_error on the mapped list
   by nth_error on the list, case analysis innermost first, then arithmetic with the length facts *)
Ltac nth_facts :=
  repeat match goal with
         | H : nth_error ?l ?i = Some _ |- _ =>
             lazymatch goal with
             | _ : (i < length l)%nat |- _ => fail
             | _ => assert (i < length l)%nat by (apply nth_error_Some; rewrite H; discriminate)
             end
         | H : nth_error ?l ?i = None |- _ =>
             lazymatch goal with
             | _ : (length l <= i)%nat |- _ => fail
             | _ => assert (length l <= i)%nat by (apply nth_error_None; exact H)
             end
         end.
Ltac glist :=
  intros;
  repeat match goal with p : CharPartition |- _ => destruct p as [? ?] end;
  repeat match goal with c : ClassId |- _ => destruct c end;
  gunfold; rewrite ?nth_conv, ?nth_error_map_conv, ?map_length; gunfold;
  repeat (match goal with
          | |- context [match ?x with _ => _ end] =>
              lazymatch x with
              | context [match _ with _ => _ end] => fail
              | _ => first [ is_var x; destruct x | destruct x eqn:? ]
              end
          end; gunfold);
  gbools; nth_facts; cbn [length] in *;
  first [ reflexivity | congruence | (exfalso; lia) | solve [ctor_eq] ].

Lemma link_len p : M_CharPartition_len p = Some (plen (convp p)).
Proof. glist. Qed.


Lemma link_get p i : M_CharPartition_get p i = Some (pget (convp p) i).
Proof. glist. Qed.


Lemma link_start p i : M_CharPartition_start p i = Some (pstart (convp p) i).
Proof. glist. Qed.

Lemma link_end p i : M_CharPartition_end p i = Some (pend (convp p) i).
Proof. glist. Qed.

(* pick(i) panics exactly when i is out of range *)
Lemma link_pick p i : M_CharPartition_pick p i = ppick_iv (convp p) i.
Proof. glist. Qed.

Lemma link_empty_complement p : M_CharPartition_empty_complement p = Some (pempty_complement (convp p)).
Proof. glist. Qed.

Lemma link_pick_complement p : M_CharPartition_pick_complement p = Some (ppick_complement (convp p)).
Proof. glist. Qed.

Lemma link_valid_class_id p c : M_CharPartition_valid_class_id p c = Some (pvalid (convp p) (convc c)).
Proof. glist. Qed.


(* pick_in_class panics exactly where the model does: interval index out of range, or the
   complementary class of a partition that covers the alphabet (assert!) *)
Lemma link_pick_in_class p c : M_CharPartition_pick_in_class p c = ppick (convp p) (convc c).
Proof. glist. Qed.

(* ---- loops: one step = rewrite a call of a translated function by its link lemma, or case
   analysis on the innermost scrutinee; leaves are closed by reflexivity, arithmetic contradiction or
   the induction hypothesis ---- *)
Ltac lnorm := cbv [bind option_map cs_contains cs_is_before]; cbn [fst snd conv CharSet_start CharSet_end].
Ltac Zify.zify_post_hook ::= Z.div_mod_to_equations.
Ltac lstep :=
  match goal with
  | |- context [nth_error ?l ?a] =>
      match goal with
      | |- context [nth_error l ?b] =>
          tryif constr_eq a b then fail else (replace a with b by lia)
      end
  | |- context [M_CharSet_contains ?s ?x] => rewrite (link_cs_contains s x)
  | |- context [M_CharSet_is_before ?s ?x] => rewrite (link_cs_is_before s x)
  | |- context [nth_error (map conv ?l) ?i] => rewrite (nth_error_map_conv l i)
  | |- context [match ?x with _ => _ end] =>
      lazymatch x with
      | context [match _ with _ => _ end] => fail
      | _ => destruct x eqn:?
      end
  end; lnorm.
Ltac lleaf IH :=
  first [ reflexivity | discriminate | (exfalso; lia) | congruence
        | (rewrite IH; first [ reflexivity | (f_equal; lia) ]) | (f_equal; lia) ].

(* ---- class_of_char: the binary search, same fuel on both sides ---- *)
Definition char_res (r : option (loopres ClassId (nat * nat))) : option classid :=
  match r with
  | Some (LoopReturn c) => Some (convc c)
  | Some (LoopDone _) => Some CComp
  | None => None
  end.

Lemma link_bs_char fuel l x i j :
  char_res (CharPartition_class_of_char_binary_search_loop1 fuel l x i j) = bs_char fuel (map conv l) x i j.
Proof.
  revert i j; induction fuel as [|fuel IH]; intros i j; [reflexivity|].
  cbn [CharPartition_class_of_char_binary_search_loop1 bs_char].
  cbv [usize_sub usize_div usize_add cs_contains cs_is_before]. lnorm.
  repeat lstep; lleaf IH.
Qed.

Lemma link_class_of_char p x :
  option_map convc (M_CharPartition_class_of_char (S (length (CharPartition_list p))) p x)
  = pclass_of_char (convp p) x.
Proof.
  destruct p as [l w]. autounfold with rs2v. unfold pclass_of_char, convp, plen, ivs, CharPartition_list.
  rewrite map_length, <- link_bs_char. unfold bind.
  destruct (CharPartition_class_of_char_binary_search_loop1 _ l x 0 (length l)) as [[c|[a b]]|]; reflexivity.
Qed.

(* ---- interval_cover ---- *)
Definition cover_res (r : option (loopres nat (nat * nat))) : option nat :=
  match r with
  | Some (LoopReturn i) => Some i
  | Some (LoopDone (i, _)) => Some i
  | None => None
  end.

Lemma link_bs_cover fuel l x i j :
  cover_res (CharPartition_interval_cover_binary_search_loop1 fuel l x i j) = bs_cover fuel (map conv l) x i j.
Proof.
  revert i j; induction fuel as [|fuel IH]; intros i j; [reflexivity|].
  cbn [CharPartition_interval_cover_binary_search_loop1 bs_cover].
  replace (i + 1)%nat with (S i) by lia.
  cbv [usize_sub usize_div usize_add]. lnorm.
  repeat lstep; lleaf IH.
Qed.

Lemma link_interval_cover p s :
  option_map convr (M_CharPartition_interval_cover (S (length (CharPartition_list p))) p s)
  = pinterval_cover (convp p) (conv s).
Proof.
  pose proof (link_get p) as G. pose proof (link_start p) as S1.
  unfold M_CharPartition_interval_cover, CharPartition_interval_cover, M_CharPartition_interval_cover_binary_search,
    CharPartition_interval_cover_binary_search, pinterval_cover.
  pose proof (link_bs_cover (S (length (CharPartition_list p))) (CharPartition_list p) (CharSet_start s) 0
                            (length (CharPartition_list p))) as H.
  replace (plen (convp p)) with (length (CharPartition_list p)) by (destruct p; cbn; rewrite map_length; reflexivity).
  change (ivs (convp p)) with (map conv (CharPartition_list p)).
  change (fst (conv s)) with (CharSet_start s). change (snd (conv s)) with (CharSet_end s).
  rewrite <- H. unfold bind at 1 3.
  destruct (CharPartition_interval_cover_binary_search_loop1 _ _ _ _ _) as [[i|[i j]]|]; cbn [cover_res]; try reflexivity.
  all: cbn [bind]; rewrite G; unfold bind;
    destruct (pget (convp p) i) as [ai bi]; cbn [fst snd];
    rewrite S1;
    replace (i + 1)%nat with (S i) by lia;
    destruct (CharSet_start s <? ai), (CharSet_end s <? ai), (CharSet_start s <=? bi), (CharSet_end s <=? bi),
             (CharSet_end s <? pstart (convp p) (S i)); reflexivity.
Qed.

Definition convres (r : result ClassId Error) : option classid :=
  match r with Ok c => Some (convc c) | Err _ => None end.

Lemma link_class_of_set p s :
  option_map convres (M_CharPartition_class_of_set (S (length (CharPartition_list p))) p s)
  = pclass_of_set (convp p) (conv s).
Proof.
  unfold M_CharPartition_class_of_set, CharPartition_class_of_set, pclass_of_set.
  rewrite <- link_interval_cover. unfold bind.
  destruct (M_CharPartition_interval_cover _ p s) as [[i| |]|]; reflexivity.
Qed.

(* an Err result is always AmbiguousCharSet *)
Lemma link_class_of_set_err fuel p s e :
  M_CharPartition_class_of_set fuel p s = Some (Err e) -> e = Error_AmbiguousCharSet.
Proof.
  unfold M_CharPartition_class_of_set, CharPartition_class_of_set, bind.
  destruct (M_CharPartition_interval_cover fuel p s) as [[i| |]|]; congruence.
Qed.


(* ---- merge_partitions: the two-pointer sweep, same fuel on both sides ---- *)
Definition bounded (p : CharPartition) : Prop :=
  Forall (fun s => CharSet_start s <= MAX_CHAR /\ CharSet_end s <= MAX_CHAR) (CharPartition_list p).

Lemma pget_bounded p i : bounded p -> fst (pget (convp p) i) <= SENT /\ snd (pget (convp p) i) <= SENT.
Proof.
  intros Hb. unfold pget, convp, ivs. rewrite nth_conv.
  destruct (nth_error (CharPartition_list p) i) as [s|] eqn:E.
  - apply nth_error_In in E. unfold bounded in Hb. rewrite Forall_forall in Hb.
    destruct (Hb s E) as [H1 H2]. unfold conv, SENT, MAXC, MAX_CHAR in *. cbn [fst snd]. lia.
  - cbn [fst snd]. lia.
Qed.

Lemma link_next_interval p i :
  M_fn_merge_partitions_next_interval p i = Some (S i, fst (pget (convp p) i), snd (pget (convp p) i)).
Proof.
  unfold M_fn_merge_partitions_next_interval, fn_merge_partitions_next_interval. pose proof (link_get p i) as G.
  rewrite G. unfold bind. destruct (pget (convp p) i) as [x y]. cbn [fst snd].
  replace (i + 1)%nat with (S i) by lia. reflexivity.
Qed.

Lemma push_some res a b : b <= MAX_CHAR ->
  exists res', M_CharPartition_push res a b = Some res' /\ convp res' = ppush (convp res) a b.
Proof.
  intros Hb. pose proof (link_push res a b Hb) as H.
  destruct (M_CharPartition_push res a b) as [r|]; [|discriminate H].
  exists r. split; [reflexivity|]. cbn [option_map] in H. congruence.
Qed.

Definition merge_res (r : option (loopres CharPartition ((nat * N * N) * (nat * N * N) * CharPartition))) : option part :=
  match r with
  | Some (LoopReturn q) => Some (convp q)
  | Some (LoopDone (_, _, q)) => Some (convp q)
  | None => None
  end.

Lemma link_merge_loop fuel p1 p2 : bounded p1 -> bounded p2 ->
  forall res i a b j c d, a <= SENT -> b <= SENT -> c <= SENT -> d <= SENT ->
  merge_res (fn_merge_partitions_loop1 fuel p1 p2 (i, a, b) (j, c, d) res)
  = merge_loop fuel (convp p1) (convp p2) i a b j c d (convp res).
Proof.
  intros B1 B2. induction fuel as [|fuel IH]; intros res i a b j c d Ha Hb Hc Hd; [reflexivity|].
  cbn [fn_merge_partitions_loop1 merge_loop snd].
  change MAX_CHAR with MAXC.
  (* the loop guard, in whatever form the source writes it *)
  match goal with
  | |- merge_res (if ?g then _ else _) = _ =>
      replace g with ((b <=? MAXC) || (d <=? MAXC)) by (unfold MAXC; gbools; cbn [negb andb orb]; first [reflexivity | (exfalso; lia)])
  end.
  destruct ((b <=? MAXC) || (d <=? MAXC)) eqn:Econd; cbn [negb]; [|reflexivity].
  pose proof (pget_bounded p1 i B1) as [G1a G1b]. pose proof (pget_bounded p2 j B2) as [G2a G2b].
  unfold SENT, MAXC in *.
  destruct (b <? c) eqn:E1.
  { destruct (push_some res a b) as [r [Hr Er]]; [unfold MAX_CHAR; lia|].
    rewrite Hr. unfold bind at 1. rewrite link_next_interval. unfold bind at 1.
    destruct (pget (convp p1) i) as [x y] eqn:Eg. cbn [fst snd] in *.
    rewrite IH by lia. rewrite Er. reflexivity. }
  destruct (d <? a) eqn:E2.
  { destruct (push_some res c d) as [r [Hr Er]]; [unfold MAX_CHAR; lia|].
    rewrite Hr. unfold bind at 1. rewrite link_next_interval. unfold bind at 1.
    destruct (pget (convp p2) j) as [x y] eqn:Eg. cbn [fst snd] in *.
    rewrite IH by lia. rewrite Er. reflexivity. }
  destruct (c <? a) eqn:E3.
  { unfold u32_sub. destruct (1 <=? a) eqn:E1a; [|exfalso; lia]. unfold bind at 1.
    destruct (push_some res c (a - 1)) as [r [Hr Er]]; [unfold MAX_CHAR; lia|].
    rewrite Hr. unfold bind at 1. cbn [fst snd].
    rewrite IH by lia. rewrite Er. reflexivity. }
  destruct (a <? c) eqn:E4.
  { unfold u32_sub. destruct (1 <=? c) eqn:E1c; [|exfalso; lia]. unfold bind at 1.
    destruct (push_some res a (c - 1)) as [r [Hr Er]]; [unfold MAX_CHAR; lia|].
    rewrite Hr. unfold bind at 1. cbn [fst snd].
    rewrite IH by lia. rewrite Er. reflexivity. }
  destruct (b <? d) eqn:E5.
  { destruct (push_some res a b) as [r [Hr Er]]; [unfold MAX_CHAR; lia|].
    rewrite Hr. unfold bind at 1. rewrite link_next_interval. unfold bind at 1.
    unfold u32_add, U32MAX. destruct (b + 1 <=? 4294967295) eqn:E6; [|exfalso; lia]. unfold bind at 1.
    destruct (pget (convp p1) i) as [x y] eqn:Eg. cbn [fst snd] in *.
    rewrite IH by lia. rewrite Er. reflexivity. }
  destruct (d <? b) eqn:E6.
  { destruct (push_some res c d) as [r [Hr Er]]; [unfold MAX_CHAR; lia|].
    rewrite Hr. unfold bind at 1.
    unfold u32_add, U32MAX. destruct (d + 1 <=? 4294967295) eqn:E7; [|exfalso; lia]. unfold bind at 1.
    rewrite link_next_interval. unfold bind at 1.
    destruct (pget (convp p2) j) as [x y] eqn:Eg. cbn [fst snd] in *.
    rewrite IH by lia. rewrite Er. reflexivity. }
  destruct (push_some res a b) as [r [Hr Er]]; [unfold MAX_CHAR; lia|].
  rewrite Hr. unfold bind at 1. rewrite link_next_interval. unfold bind at 1.
  rewrite link_next_interval. unfold bind at 1.
  destruct (pget (convp p1) i) as [x y] eqn:Eg. destruct (pget (convp p2) j) as [x' y'] eqn:Eg'. cbn [fst snd] in *.
  rewrite IH by lia. rewrite Er. reflexivity.
Qed.

Lemma link_merge_partitions p1 p2 : bounded p1 -> bounded p2 ->
  option_map convp (M_fn_merge_partitions (merge_fuel (convp p1) (convp p2)) p1 p2)
  = pmerge_opt (convp p1) (convp p2).
Proof.
  intros B1 B2. unfold M_fn_merge_partitions, fn_merge_partitions, pmerge_opt.
  rewrite !link_next_interval. unfold bind at 1 2.
  change M_CharPartition_new with (Some CharPartition_new). unfold bind at 1.
  pose proof (pget_bounded p1 0 B1) as [G1a G1b]. pose proof (pget_bounded p2 0 B2) as [G2a G2b].
  destruct (pget (convp p1) 0) as [a b] eqn:E1. destruct (pget (convp p2) 0) as [c d] eqn:E2. cbn [fst snd] in *.
  rewrite <- (link_merge_loop _ p1 p2 B1 B2 CharPartition_new 1%nat a b 1%nat c d) by assumption.
  unfold bind.
  destruct (fn_merge_partitions_loop1 _ p1 p2 (1%nat, a, b) (1%nat, c, d) CharPartition_new) as [[q|[[t1 t2] q]]|]; reflexivity.
Qed.


(* ---- merge_partitions with any sufficient fuel ---- *)
Lemma merge_loop_S f p1 p2 i a b j c d res :
  merge_loop (S f) p1 p2 i a b j c d res =
    if negb ((b <=? MAXC) || (d <=? MAXC)) then Some res else
    if b <? c then let '(x, y) := pget p1 i in merge_loop f p1 p2 (S i) x y j c d (ppush res a b)
    else if d <? a then let '(x, y) := pget p2 j in merge_loop f p1 p2 i a b (S j) x y (ppush res c d)
    else if c <? a then merge_loop f p1 p2 i a b j a d (ppush res c (a - 1))
    else if a <? c then merge_loop f p1 p2 i c b j c d (ppush res a (c - 1))
    else if b <? d then let '(x, y) := pget p1 i in merge_loop f p1 p2 (S i) x y j (b + 1) d (ppush res a b)
    else if d <? b then let '(x, y) := pget p2 j in merge_loop f p1 p2 i (d + 1) b (S j) x y (ppush res c d)
    else let '(x, y) := pget p1 i in let '(x', y') := pget p2 j in
         merge_loop f p1 p2 (S i) x y (S j) x' y' (ppush res a b).
Proof. reflexivity. Qed.
Lemma merge_loop_more : forall f p1 p2 i a b j c d res r,
  merge_loop f p1 p2 i a b j c d res = Some r -> merge_loop (S f) p1 p2 i a b j c d res = Some r.
Proof.
  induction f as [|f IH]; intros p1 p2 i a b j c d res r H; [discriminate|].
  rewrite merge_loop_S in H. rewrite (merge_loop_S (S f)).
  destruct (negb ((b <=? MAXC) || (d <=? MAXC))); [exact H|].
  destruct (b <? c); [destruct (pget p1 i); apply IH; exact H|].
  destruct (d <? a); [destruct (pget p2 j); apply IH; exact H|].
  destruct (c <? a); [apply IH; exact H|].
  destruct (a <? c); [apply IH; exact H|].
  destruct (b <? d); [destruct (pget p1 i); apply IH; exact H|].
  destruct (d <? b); [destruct (pget p2 j); apply IH; exact H|].
  destruct (pget p1 i); destruct (pget p2 j); apply IH; exact H.
Qed.
Lemma merge_loop_ge f p1 p2 i a b j c d res r : merge_loop f p1 p2 i a b j c d res = Some r ->
  forall f', (f <= f')%nat -> merge_loop f' p1 p2 i a b j c d res = Some r.
Proof.
  intros H f' Hle. induction Hle as [|f' Hle IH]; [exact H|]. apply merge_loop_more. exact IH.
Qed.

Definition gwf (p : CharPartition) : Prop := pwf (convp p).
Lemma gwf_bounded p : gwf p -> bounded p.
Proof.
  intros [Hs _]. unfold bounded. apply Forall_forall. intros s Hin.
  assert (Hv : cs_valid (conv s)).
  { apply (sorted_valid _ Hs). unfold convp, ivs. apply in_map. exact Hin. }
  destruct Hv as [H1 H2]. unfold conv, MAX_CHAR, MAXC in *. cbn [fst snd] in *. lia.
Qed.

(* on well-formed partitions merge_partitions returns the model's merge for every fuel that is at
   least the (proved sufficient) bound merge_fuel *)
Lemma link_merge_fuel fuel p1 p2 : gwf p1 -> gwf p2 -> (merge_fuel (convp p1) (convp p2) <= fuel)%nat ->
  option_map convp (M_fn_merge_partitions fuel p1 p2) = Some (pmerge (convp p1) (convp p2)).
Proof.
  intros W1 W2 Hf. pose proof (gwf_bounded _ W1) as B1. pose proof (gwf_bounded _ W2) as B2.
  pose proof (merge_fuel_sufficient _ _ W1 W2) as Hm. unfold pmerge_opt in Hm.
  unfold M_fn_merge_partitions, fn_merge_partitions.
  rewrite !link_next_interval. unfold bind at 1 2.
  change M_CharPartition_new with (Some CharPartition_new). unfold bind at 1.
  pose proof (pget_bounded p1 0 B1) as [G1a G1b]. pose proof (pget_bounded p2 0 B2) as [G2a G2b].
  destruct (pget (convp p1) 0) as [a b] eqn:E1. destruct (pget (convp p2) 0) as [c d] eqn:E2. cbn [fst snd] in *.
  pose proof (merge_loop_ge _ _ _ _ _ _ _ _ _ _ _ Hm fuel Hf) as Hm'.
  change pnew with (convp CharPartition_new) in Hm'.
  rewrite <- (link_merge_loop fuel p1 p2 B1 B2 CharPartition_new 1%nat a b 1%nat c d) in Hm' by assumption.
  unfold bind.
  destruct (fn_merge_partitions_loop1 fuel p1 p2 (1%nat, a, b) (1%nat, c, d) CharPartition_new) as [[q|[[t1 t2] q]]|];
    cbn [merge_res] in Hm'; try discriminate; exact Hm'.
Qed.

(* ================= terms ================= *)
Definition convl (r : LoopRange) : lr := LR (LoopRange_f0 r) (LoopRange_f1 r).

Fixpoint conv_re (e : RE) : re :=
  match e with RE_mk k i n _ _ dc => Node (N.of_nat i) n (convp dc) (conv_base k) end
with conv_base (k : BaseRegLan) : node :=
  match k with
  | BaseRegLan_Empty => NEmpty
  | BaseRegLan_Epsilon => NEps
  | BaseRegLan_Range c => NRange (conv c)
  | BaseRegLan_Concat a b => NConcat (conv_re a) (conv_re b)
  | BaseRegLan_Loop a r => NLoop (conv_re a) (convl r)
  | BaseRegLan_Complement a => NCompl (conv_re a)
  | BaseRegLan_Union l => NUnion (map conv_re l)
  | BaseRegLan_Inter l => NInter (map conv_re l)
  end.

Lemma rnul_conv e : rnul (conv_re e) = RE_nullable e.
Proof. destruct e; reflexivity. Qed.
Lemma rcls_conv e : rcls (conv_re e) = convp (RE_deriv_class e).
Proof. destruct e; reflexivity. Qed.
Lemma rnode_conv e : rnode (conv_re e) = conv_base (RE_expr e).
Proof. destruct e; reflexivity. Qed.
Lemma rid_conv e : rid (conv_re e) = N.of_nat (RE_id e).
Proof. destruct e; reflexivity. Qed.

Lemma forallb_conv l : forallb rnul (map conv_re l) = forallb (fun x => RE_nullable x) l.
Proof. induction l as [|x l IH]; [reflexivity|]. cbn [map forallb]. rewrite rnul_conv, IH. reflexivity. Qed.
Lemma existsb_conv l : existsb rnul (map conv_re l) = existsb (fun x => RE_nullable x) l.
Proof. induction l as [|x l IH]; [reflexivity|]. cbn [map existsb]. rewrite rnul_conv, IH. reflexivity. Qed.

(* ---- canonical forms of the callees (generic proofs) ---- *)
Ltac gcase :=
  match goal with
  | |- context [match ?x with _ => _ end] =>
      lazymatch x with
      | context [match _ with _ => _ end] => fail
      | _ => first [ is_var x; destruct x | destruct x eqn:? ]
      end
  end.
Ltac gnorm := cbv [bind option_map negb andb orb]; cbn [fst snd].
Ltac gfin := first [ reflexivity | congruence | (exfalso; lia) | solve [repeat (f_equal; try lia)] ].
Ltac gauto := gnorm; repeat (gcase; gnorm); gfin.

Lemma canon_lr_start r : M_LoopRange_start r = Some (lr_start (convl r)).
Proof. unfold M_LoopRange_start, LoopRange_start. destruct r as [a o]. gauto. Qed.
Lemma canon_lr_is_all r : M_LoopRange_is_all r = Some (lr_is_all (convl r)).
Proof. unfold M_LoopRange_is_all, LoopRange_is_all. destruct r as [a [b|]]; cbv [convl lr_is_all LoopRange_f0 LoopRange_f1]; gauto. Qed.
Lemma canon_cs_is_alphabet c : M_CharSet_is_alphabet c = Some (cs_is_alphabet (conv c)).
Proof. unfold M_CharSet_is_alphabet, CharSet_is_alphabet. destruct c as [a b]. cbv [cs_is_alphabet conv CharSet_start CharSet_end fst snd MAXC MAX_CHAR]. gauto. Qed.
Lemma canon_cs_covers s x : M_CharSet_covers s x = Some (cs_covers (conv s) (conv x)).
Proof. unfold M_CharSet_covers, CharSet_covers. destruct s as [a b], x as [c d]. cbv [cs_covers conv CharSet_start CharSet_end fst snd]. gauto. Qed.

(* ---- the attribute computations ---- *)
Lemma link_is_nullable k : M_BaseRegLan_is_nullable k = Some (k_nullable (conv_base k)).
Proof.
  unfold M_BaseRegLan_is_nullable, BaseRegLan_is_nullable. rewrite ?canon_lr_start.
  destruct k; cbn [conv_base k_nullable]; rewrite ?rnul_conv, ?forallb_conv, ?existsb_conv; rewrite ?canon_lr_start; gauto.
Qed.

Lemma link_is_all_chars e : M_BaseRegLan_is_all_chars (RE_expr e) = Some (is_all_chars (conv_re e)).
Proof.
  unfold is_all_chars. rewrite rnode_conv. unfold M_BaseRegLan_is_all_chars, BaseRegLan_is_all_chars.
  destruct (RE_expr e); cbn [conv_base]; rewrite ?canon_cs_is_alphabet; gauto.
Qed.
Lemma link_is_full e : M_BaseRegLan_is_full (RE_expr e) = Some (is_full (conv_re e)).
Proof.
  unfold is_full. rewrite rnode_conv. unfold M_BaseRegLan_is_full, BaseRegLan_is_full.
  destruct (RE_expr e); cbn [conv_base]; rewrite ?canon_lr_is_all, ?link_is_all_chars; gauto.
Qed.
Lemma link_concat_or_atomic e : M_BaseRegLan_concat_or_atomic (RE_expr e) = Some (concat_or_atomic (conv_re e)).
Proof.
  unfold concat_or_atomic. rewrite rnode_conv. unfold M_BaseRegLan_concat_or_atomic, BaseRegLan_concat_or_atomic.
  destruct (RE_expr e); cbn [conv_base]; gauto.
Qed.
Lemma link_is_range e : M_BaseRegLan_is_range (RE_expr e) = Some (is_range (conv_re e)).
Proof.
  unfold is_range. rewrite rnode_conv. unfold M_BaseRegLan_is_range, BaseRegLan_is_range.
  destruct (RE_expr e); cbn [conv_base]; gauto.
Qed.
Lemma link_match_char_set e s : M_BaseRegLan_match_char_set (RE_expr e) s = Some (match_char_set (conv_re e) (conv s)).
Proof.
  unfold match_char_set. rewrite rnode_conv. unfold M_BaseRegLan_match_char_set, BaseRegLan_match_char_set.
  destruct (RE_expr e); cbn [conv_base]; rewrite ?canon_cs_covers; gauto.
Qed.

(* ---- deriv_class ---- *)
(* the operands' cached partitions are well formed and the fuel is at least the proved-sufficient bound
   merge_fuel at every merge of the left fold *)
Fixpoint fold_ok (fuel : nat) (l : list RE) (acc : part) : Prop :=
  match l with
  | [] => True
  | x :: t => gwf (RE_deriv_class x) /\ (merge_fuel acc (convp (RE_deriv_class x)) <= fuel)%nat /\
              fold_ok fuel t (pmerge acc (convp (RE_deriv_class x)))
  end.
Definition node_ok (fuel : nat) (k : BaseRegLan) : Prop :=
  match k with
  | BaseRegLan_Range c => CharSet_end c <= MAX_CHAR
  | BaseRegLan_Concat a b =>
      RE_nullable a = true ->
      gwf (RE_deriv_class a) /\ gwf (RE_deriv_class b) /\
      (merge_fuel (convp (RE_deriv_class a)) (convp (RE_deriv_class b)) <= fuel)%nat
  | BaseRegLan_Inter l | BaseRegLan_Union l => fold_ok fuel l pnew
  | _ => True
  end.

Definition fold_res (r : option (loopres CharPartition CharPartition)) : option part :=
  match r with Some (LoopDone q) => Some (convp q) | Some (LoopReturn q) => Some (convp q) | None => None end.

Lemma link_merge_fold fuel : forall l acc, pwf (convp acc) -> fold_ok fuel l (convp acc) ->
  fold_res (BaseRegLan_deriv_class_merge_deriv_classes_loop1 fuel l acc)
  = Some (fold_left (fun a e => pmerge a (rcls e)) (map conv_re l) (convp acc)).
Proof.
  induction l as [|x l IH]; intros acc Hacc Hok; [reflexivity|].
  destruct Hok as (Hx & Hf & Hrest).
  cbn [BaseRegLan_deriv_class_merge_deriv_classes_loop1 map fold_left].
  pose proof (link_merge_fuel fuel acc (RE_deriv_class x) Hacc Hx Hf) as Hm.
  destruct (M_fn_merge_partitions fuel acc (RE_deriv_class x)) as [q|]; [|discriminate Hm].
  cbn [option_map] in Hm. injection Hm as Hm. cbn [bind]. rewrite rcls_conv.
  rewrite <- Hm. apply IH.
  - rewrite Hm. apply merge_wf; assumption.
  - rewrite Hm. exact Hrest.
Qed.

Lemma link_merge_deriv_classes fuel l : fold_ok fuel l pnew ->
  option_map convp (M_BaseRegLan_deriv_class_merge_deriv_classes fuel l) = Some (merge_classes (map conv_re l)).
Proof.
  intros Hok. unfold M_BaseRegLan_deriv_class_merge_deriv_classes, BaseRegLan_deriv_class_merge_deriv_classes, merge_classes.
  change M_CharPartition_new with (Some CharPartition_new). cbn [bind].
  pose proof (link_merge_fold fuel l CharPartition_new pnew_wf Hok) as H.
  change (convp CharPartition_new) with pnew in H.
  destruct (BaseRegLan_deriv_class_merge_deriv_classes_loop1 fuel l CharPartition_new) as [[q|q]|];
    cbn [fold_res] in H; try discriminate; injection H as H; cbn [bind]; rewrite <- H; reflexivity.
Qed.

(* deriv_class computes the model's k_class from the operands' cached partitions *)
Lemma link_deriv_class fuel k : node_ok fuel k ->
  option_map convp (M_BaseRegLan_deriv_class fuel k) = Some (k_class (conv_base k)).
Proof.
  intros Hok. unfold M_BaseRegLan_deriv_class, BaseRegLan_deriv_class.
  destruct k as [| |c|a b|a r|a|l|l]; cbn [conv_base k_class node_ok] in *; rewrite ?rnul_conv, ?rcls_conv.
  - reflexivity.
  - reflexivity.
  - pose proof (link_from_set c Hok) as H.
    destruct (M_CharPartition_from_set c) as [p|]; [|discriminate H]. exact H.
  - destruct (RE_nullable a) eqn:En; [|reflexivity].
    destruct (Hok eq_refl) as (Wa & Wb & Hf).
    pose proof (link_merge_fuel fuel _ _ Wa Wb Hf) as H.
    destruct (M_fn_merge_partitions fuel (RE_deriv_class a) (RE_deriv_class b)) as [q|]; [|discriminate H]. exact H.
  - reflexivity.
  - reflexivity.
  - apply link_merge_deriv_classes. exact Hok.
  - apply link_merge_deriv_classes. exact Hok.
Qed.

(* a sufficient fuel always exists *)
Lemma fold_ok_more fuel fuel' : (fuel <= fuel')%nat -> forall l acc, fold_ok fuel l acc -> fold_ok fuel' l acc.
Proof.
  intros Hle. induction l as [|x l IH]; intros acc H; [exact I|].
  destruct H as (Hx & Hf & Hr). split; [exact Hx|]. split; [lia|]. apply IH. exact Hr.
Qed.
Lemma fold_ok_exists : forall l acc, Forall (fun x => gwf (RE_deriv_class x)) l -> exists fuel, fold_ok fuel l acc.
Proof.
  induction l as [|x l IH]; intros acc Hall; [exists 0%nat; exact I|].
  inversion Hall as [|? ? Hx Hl]; subst.
  destruct (IH (pmerge acc (convp (RE_deriv_class x))) Hl) as [f Hf].
  exists (Nat.max f (merge_fuel acc (convp (RE_deriv_class x)))). split; [exact Hx|]. split; [lia|].
  apply (fold_ok_more f); [lia|exact Hf].
Qed.

(* ---- the accessors of RE that read the cached derivative classes ---- *)
Lemma re_fwd_empty_complement e : M_RE_empty_complement e = M_CharPartition_empty_complement (RE_deriv_class e).
Proof. unfold M_RE_empty_complement, RE_empty_complement. gauto. Qed.
Lemma re_fwd_num_deriv_classes e : M_RE_num_deriv_classes e = M_CharPartition_len (RE_deriv_class e).
Proof. unfold M_RE_num_deriv_classes, RE_num_deriv_classes. gauto. Qed.
Lemma re_fwd_valid_class_id e c : M_RE_valid_class_id e c = M_CharPartition_valid_class_id (RE_deriv_class e) c.
Proof. unfold M_RE_valid_class_id, RE_valid_class_id. gauto. Qed.
Lemma re_fwd_pick_class_rep e c : M_RE_pick_class_rep e c = M_CharPartition_pick_in_class (RE_deriv_class e) c.
Proof. unfold M_RE_pick_class_rep, RE_pick_class_rep. gauto. Qed.
Lemma re_fwd_class_of_char fuel e x : M_RE_class_of_char fuel e x = M_CharPartition_class_of_char fuel (RE_deriv_class e) x.
Proof. unfold M_RE_class_of_char, RE_class_of_char. gauto. Qed.
Lemma re_fwd_class_of_set fuel e s : M_RE_class_of_set fuel e s = M_CharPartition_class_of_set fuel (RE_deriv_class e) s.
Proof. unfold M_RE_class_of_set, RE_class_of_set. gauto. Qed.

Lemma link_re_empty_complement e : M_RE_empty_complement e = Some (pempty_complement (rcls (conv_re e))).
Proof. rewrite re_fwd_empty_complement, link_empty_complement, rcls_conv. reflexivity. Qed.
Lemma link_re_num_deriv_classes e : M_RE_num_deriv_classes e = Some (plen (rcls (conv_re e))).
Proof. rewrite re_fwd_num_deriv_classes, link_len, rcls_conv. reflexivity. Qed.
Lemma link_re_valid_class_id e c : M_RE_valid_class_id e c = Some (pvalid (rcls (conv_re e)) (convc c)).
Proof. rewrite re_fwd_valid_class_id, link_valid_class_id, rcls_conv. reflexivity. Qed.
Lemma link_re_is_empty e : M_RE_is_empty e = Some (is_empty_node (conv_re e)).
Proof.
  unfold M_RE_is_empty, RE_is_empty, is_empty_node. rewrite rnode_conv. destruct (RE_expr e); reflexivity.
Qed.
Lemma link_re_pick_class_rep e c : M_RE_pick_class_rep e c = ppick (rcls (conv_re e)) (convc c).
Proof. rewrite re_fwd_pick_class_rep, link_pick_in_class, rcls_conv. reflexivity. Qed.
Lemma link_re_class_of_char e x :
  option_map convc (M_RE_class_of_char (S (length (CharPartition_list (RE_deriv_class e)))) e x)
  = pclass_of_char (rcls (conv_re e)) x.
Proof. rewrite re_fwd_class_of_char, link_class_of_char, rcls_conv. reflexivity. Qed.
Lemma link_re_class_of_set e s :
  option_map convres (M_RE_class_of_set (S (length (CharPartition_list (RE_deriv_class e)))) e s)
  = pclass_of_set (rcls (conv_re e)) (conv s).
Proof. rewrite re_fwd_class_of_set, link_class_of_set, rcls_conv. reflexivity. Qed.

(* ---- HashConsed::make for RE: the term stored for a key carries the recomputed attributes ---- *)
Lemma is_singleton_total k : exists b, M_BaseRegLan_is_singleton k = Some b.
Proof.
  unfold M_BaseRegLan_is_singleton, BaseRegLan_is_singleton.
  destruct k; autounfold with rs2v; cbv [bind]; repeat gcase; eauto.
Qed.
Lemma is_simple_pattern_total k : exists b, M_BaseRegLan_is_simple_pattern k = Some b.
Proof.
  unfold M_BaseRegLan_is_simple_pattern. autounfold with rs2v. eauto.
Qed.

Lemma link_make fuel i k : node_ok fuel k ->
  option_map conv_re (M_RE_make fuel i k) = Some (mk_node (N.of_nat i) (conv_base k)).
Proof.
  intros Hok. unfold M_RE_make, RE_make. rewrite link_is_nullable. cbn [bind].
  destruct (is_singleton_total k) as [b1 ->]. destruct (is_simple_pattern_total k) as [b2 ->]. cbn [bind].
  pose proof (link_deriv_class fuel k Hok) as H.
  destruct (M_BaseRegLan_deriv_class fuel k) as [dc|]; [|discriminate H]. cbn [option_map] in H. injection H as H.
  cbn [bind option_map conv_re]. unfold mk_node. rewrite H. reflexivity.
Qed.

(* ---- equality and order of terms are equality and order of ids ---- *)
Lemma canon_re_eq a b : M_RE_eq a b = Some (Nat.eqb (RE_id a) (RE_id b)).
Proof. unfold M_RE_eq, RE_eq. gauto. Qed.
Lemma canon_re_cmp a b : M_RE_cmp a b = Some (Nat.compare (RE_id a) (RE_id b)).
Proof. unfold M_RE_cmp, RE_cmp. gauto. Qed.
Lemma canon_re_partial_cmp a b : M_RE_partial_cmp a b = Some (Some (Nat.compare (RE_id a) (RE_id b))).
Proof. unfold M_RE_partial_cmp, RE_partial_cmp. rewrite ?canon_re_cmp. gauto. Qed.

Lemma link_re_eq a b : M_RE_eq a b = Some (re_eqb (conv_re a) (conv_re b)).
Proof.
  rewrite canon_re_eq. unfold re_eqb. rewrite !rid_conv. f_equal.
  destruct (Nat.eqb (RE_id a) (RE_id b)) eqn:E1; destruct (N.of_nat (RE_id a) =? N.of_nat (RE_id b)) eqn:E2; try reflexivity; exfalso; lia.
Qed.
Lemma link_re_cmp a b : M_RE_cmp a b = Some (N.compare (rid (conv_re a)) (rid (conv_re b))).
Proof. rewrite canon_re_cmp, !rid_conv. f_equal. apply Nat2N.inj_compare. Qed.

(* ---- contains: the search in a list of terms sorted by id (== and > go through the translated impl PartialEq / Ord
   of RE) ---- *)
Require Constructors.
Lemma pure_re_eq a b : RE_eq a b = re_eqb (conv_re a) (conv_re b).
Proof. pose proof (link_re_eq a b) as H. unfold M_RE_eq in H. injection H as H. exact H. Qed.
Lemma pure_re_cmp a b : RE_cmp a b = N.compare (rid (conv_re a)) (rid (conv_re b)).
Proof. pose proof (link_re_cmp a b) as H. unfold M_RE_cmp in H. injection H as H. exact H. Qed.

Definition contains_res (r : option (loopres bool unit)) : option bool :=
  match r with Some (LoopReturn b) => Some b | Some (LoopDone _) => Some false | None => None end.
Lemma link_contains_loop x : forall v, contains_res (fn_contains_loop1 v x) = Some (Constructors.contains (map conv_re v) (conv_re x)).
Proof.
  induction v as [|y v IH]; [reflexivity|]. cbn [fn_contains_loop1 map Constructors.contains].
  rewrite ?pure_re_eq, ?pure_re_cmp. unfold re_eqb, N.ltb.
  (* either orientation of == and of the order test *)
  rewrite ?(N.eqb_sym (rid (conv_re x)) (rid (conv_re y))), ?(N.compare_antisym (rid (conv_re x)) (rid (conv_re y))).
  destruct (N.eqb_spec (rid (conv_re y)) (rid (conv_re x))) as [E|E];
    destruct (N.compare_spec (rid (conv_re x)) (rid (conv_re y))) as [C|C|C]; cbn [CompOpp];
    first [ reflexivity | exact IH | (exfalso; lia) ].
Qed.
Lemma link_contains v x : M_fn_contains v x = Some (Constructors.contains (map conv_re v) (conv_re x)).
Proof.
  unfold M_fn_contains, fn_contains. pose proof (link_contains_loop x v) as H.
  destruct (fn_contains_loop1 v x) as [[b|u]|]; cbn [contains_res bind] in *; congruence.
Qed.
Lemma link_is_atomic k : M_BaseRegLan_is_atomic k = Some (match conv_base k with NEmpty | NEps | NRange _ => true | _ => false end).
Proof. destruct k; reflexivity. Qed.
