(* GenLinkLoopRange.v -- the definitions that gen/rs2v.py regenerates from /repo/src/loop_ranges.rs on
   every run (SVG.LoopRangeGen) coincide with the hand-written model LoopRange.v, about which the
   C15 theorems are proved.  Statements are about the uniform monadic views M_f (option T: None = the
   Rust function panics), so that they do not depend on whether the translator found f pure.
   The proofs are by one generic tactic (unfold every generated definition, case analysis on every
   match / comparison innermost first, lia), so that a rewrite of the Rust code that keeps its
   meaning keeps them. *)
Require Import Base GenBase LoopRange.
From SVG Require Import LoopRangeGen.
Require Import ZifyBool ZifyN.
Open Scope N_scope.

Definition conv (r : LoopRange) : lr := LR (LoopRange_f0 r) (LoopRange_f1 r).
Definition unconv (r : lr) : LoopRange := match r with LR a b => LoopRange_mk a b end.

Lemma conv_unconv r : conv (unconv r) = r.            Proof. destruct r; reflexivity. Qed.
Lemma unconv_conv r : unconv (conv r) = r.            Proof. destruct r; reflexivity. Qed.
Lemma conv_inj r s : conv r = conv s -> r = s.
Proof. destruct r as [a b], s as [c d]. cbv [conv LoopRange_f0 LoopRange_f1]. congruence. Qed.

Ltac gunfold :=
  autounfold with rs2v in *;
  cbv [conv unconv option_map bind LoopRange_f0 LoopRange_f1 u32_add u32_mul u32_sub U32MAX
       lr_finite lr_infinite lr_opt lr_star lr_plus lr_point lr_is_finite lr_is_infinite lr_is_point
       lr_is_zero lr_is_one lr_is_all lr_start lr_contains lr_includes lr_add lr_add_point lr_scale
       lr_mul lr_rmie lr_shift lr_eqb lr_valid add32 mul32 orb andb negb] in *.

Ltac gcases :=
  repeat match goal with
         | |- context [match ?x with _ => _ end] =>
             lazymatch x with
             | context [match _ with _ => _ end] => fail
             | _ => first [ is_var x; destruct x | destruct x eqn:? ]
             end
         end.

(* comparisons that are results rather than scrutinees *)
Ltac gbools :=
  repeat match goal with
         | |- context [N.leb ?a ?b] => destruct (N.leb a b) eqn:?
         | |- context [N.ltb ?a ?b] => destruct (N.ltb a b) eqn:?
         | |- context [N.eqb ?a ?b] => destruct (N.eqb a b) eqn:?
         end.

(* equal up to arithmetic under constructors *)
Ltac ctor_eq :=
  repeat match goal with
         | |- ?x = ?x => reflexivity
         | |- @eq N _ _ => lia
         | |- ?f ?a = ?f ?b => apply (f_equal f)
         | |- ?f ?a ?c = ?f ?b ?d => apply (f_equal2 f)
         end.

Ltac gfinish :=
  first [ reflexivity | congruence | (exfalso; lia) | solve [ctor_eq] ].

Ltac glink := intros; repeat match goal with r : LoopRange |- _ => destruct r as [? [?|]] end;
              gunfold; gcases; gbools; gfinish.

(* constructors *)
Lemma link_finite i j : option_map conv (M_LoopRange_finite i j) = Some (lr_finite i j).   Proof. glink. Qed.
Lemma link_infinite i : option_map conv (M_LoopRange_infinite i) = Some (lr_infinite i).   Proof. glink. Qed.
Lemma link_opt : option_map conv M_LoopRange_opt = Some lr_opt.                            Proof. glink. Qed.
Lemma link_star : option_map conv M_LoopRange_star = Some lr_star.                         Proof. glink. Qed.
Lemma link_plus : option_map conv M_LoopRange_plus = Some lr_plus.                         Proof. glink. Qed.
Lemma link_point k : option_map conv (M_LoopRange_point k) = Some (lr_point k).            Proof. glink. Qed.

(* observers: never panic *)
Lemma link_is_finite r : M_LoopRange_is_finite r = Some (lr_is_finite (conv r)).        Proof. glink. Qed.
Lemma link_is_infinite r : M_LoopRange_is_infinite r = Some (lr_is_infinite (conv r)).  Proof. glink. Qed.
Lemma link_is_point r : M_LoopRange_is_point r = Some (lr_is_point (conv r)).           Proof. glink. Qed.
Lemma link_is_zero r : M_LoopRange_is_zero r = Some (lr_is_zero (conv r)).              Proof. glink. Qed.
Lemma link_is_one r : M_LoopRange_is_one r = Some (lr_is_one (conv r)).                 Proof. glink. Qed.
Lemma link_is_all r : M_LoopRange_is_all r = Some (lr_is_all (conv r)).                 Proof. glink. Qed.
Lemma link_start r : M_LoopRange_start r = Some (lr_start (conv r)).                    Proof. glink. Qed.
(* end() panics (unwrap) exactly on an infinite range *)
Lemma link_end r : M_LoopRange_end r = match conv r with LR _ h => h end.               Proof. glink. Qed.
Lemma link_eqb r s : LoopRange_eqb r s = lr_eqb (conv r) (conv s).                      Proof. glink. Qed.
Lemma link_contains r i : M_LoopRange_contains r i = Some (lr_contains (conv r) i).     Proof. glink. Qed.
Lemma link_includes r s : M_LoopRange_includes r s = Some (lr_includes (conv r) (conv s)).  Proof. glink. Qed.

(* arithmetic: None = the Rust code panics (overflow of a u32) *)
Lemma link_add r s : option_map conv (M_LoopRange_add r s) = lr_add (conv r) (conv s).        Proof. glink. Qed.
Lemma link_add_point r x : option_map conv (M_LoopRange_add_point r x) = lr_add_point (conv r) x.  Proof. glink. Qed.
Lemma link_scale r k : option_map conv (M_LoopRange_scale r k) = lr_scale (conv r) k.         Proof. glink. Qed.
Lemma link_mul r s : option_map conv (M_LoopRange_mul r s) = lr_mul (conv r) (conv s).        Proof. glink. Qed.
(* the u32 subtractions of shift and right_mul_is_exact cannot underflow on a valid range *)
Lemma link_shift r : lr_valid (conv r) -> option_map conv (M_LoopRange_shift r) = Some (lr_shift (conv r)).
Proof. glink. Qed.
Lemma link_rmie r s : lr_valid (conv r) ->
  M_LoopRange_right_mul_is_exact r s = lr_rmie (conv r) (conv s).
Proof. glink. Qed.
(* the checked variants (used by the regex constructors since the repair of D11) never panic and
   return None exactly where the panicking variants panic *)
Lemma link_checked_add r s :
  option_map (option_map conv) (M_LoopRange_checked_add r s) = Some (lr_add (conv r) (conv s)).
Proof. glink. Qed.
Lemma link_checked_mul r s :
  option_map (option_map conv) (M_LoopRange_checked_mul r s) = Some (lr_mul (conv r) (conv s)).
Proof. glink. Qed.
Lemma link_checked_rmie r s : lr_valid (conv r) ->
  M_LoopRange_checked_right_mul_is_exact r s = Some (lr_rmie (conv r) (conv s)).
Proof. glink. Qed.
