(* GenPropsInclusion.v -- C16 statements on the read-only part of the inclusion matcher regenerated
   from /repo/src/regular_expressions.rs (SVG.InclusionGen): base_patterns never panics and tiles v
   into alternating rigid / flexible slices; a reported rigid match is a real pointwise match at an
   admissible position; a rigid prefix match implies inclusion of the matched factors' languages. *)
Require Import Base GenBase CharSet Partition LoopRange Regex Denote Sem Inclusion Constructors SemProofs InclusionProofs.
From SVG Require Import InclusionGen GenLinkInclusion.
Open Scope nat_scope.

Lemma g_base_patterns_tiles v : exists l b, M_fn_base_patterns v = Some l /\ tilesv (map conv_re v) 0 (map convb l) b.
Proof.
  pose proof (link_base_patterns v) as H. destruct (M_fn_base_patterns v) as [l|]; [|discriminate H].
  cbn [option_map] in H. injection H as H. destruct (base_patterns_tiles (map conv_re v)) as [b Hb].
  exists l, b. split; [reflexivity|]. rewrite H. exact Hb.
Qed.

Lemma g_next_rigid_match_total p s i : M_fn_next_rigid_match p s i <> None.
Proof. pose proof (link_next_rigid_match p s i) as H. destruct (M_fn_next_rigid_match p s i); [discriminate|discriminate H]. Qed.

Lemma g_next_rigid_match_spec p s i j k : M_fn_next_rigid_match p s i = Some (SearchResult_Found j k) ->
  i <= j /\ k = j + length p /\ k <= length s /\ rigid_at (map conv p) (map conv_re s) j = true.
Proof.
  intros H. pose proof (link_next_rigid_match p s i) as L. rewrite H in L. cbn [option_map convsr] in L.
  injection L as L. symmetry in L. apply next_rigid_match_spec in L. rewrite !map_length in L. exact L.
Qed.

Lemma g_prev_rigid_match_spec p s i j k : i <= length s -> M_fn_prev_rigid_match p s i = Some (SearchResult_Found j k) ->
  k <= i /\ k = j + length p /\ rigid_at (map conv p) (map conv_re s) j = true.
Proof.
  intros Hi H. pose proof (link_prev_rigid_match p s i Hi) as L. rewrite H in L. cbn [option_map convsr] in L.
  injection L as L. symmetry in L. apply prev_rigid_match_spec in L. rewrite !map_length in L. exact L.
Qed.

Lemma all_ranges_conv l : GenLinkInclusion.all_ranges l -> InclusionProofs.all_ranges (map conv_re l).
Proof.
  unfold GenLinkInclusion.all_ranges, InclusionProofs.all_ranges. intros H. rewrite Forall_map.
  rewrite Forall_forall in *. intros r Hr. rewrite is_range_conv. apply H. exact Hr.
Qed.

(* C16: the rigid prefix step is sound at the level of languages *)
Lemma g_rigid_prefix_sound u v p : pat_ok v p -> M_fn_rigid_prefix_match u v p = Some true ->
  forall w, CL (slice (map conv_re u) 0 (BasePattern_end p - BasePattern_start p)) w ->
            CL (slice (map conv_re v) (BasePattern_start p) (BasePattern_end p)) w.
Proof.
  intros Hok H. pose proof (link_rigid_prefix_match u v p Hok) as L. rewrite H in L. injection L as L.
  destruct Hok as [[H1 H2] Hr]. unfold rigid_prefix_match, pat_sets in L. cbn [convb b_start b_end] in L.
  destruct (Nat.leb _ _); [|discriminate L]. symmetry in L.
  pose proof (all_ranges_conv _ Hr) as Hr'. rewrite slice_conv in Hr'.
  pose proof (rigid_at_ok (map conv_re u) _ 0 Hr' L) as S.
  rewrite (InclusionProofs.csp_length _ Hr') in S. cbn [Nat.add] in S.
  rewrite slice_length in S by (rewrite map_length; lia). exact S.
Qed.
