(* GenPropsInclusion.v -- C16 statements on the read-only part of the inclusion matcher regenerated
   from /repo/src/regular_expressions.rs (SVG.InclusionGen): base_patterns never panics and tiles v
   into alternating rigid / flexible slices; a reported rigid match is a real pointwise match at an
   admissible position; a rigid prefix match implies inclusion of the matched factors' languages. *)
Require Import Base GenBase CharSet Partition LoopRange Regex Denote Sem Inclusion Constructors SemProofs InclusionProofs.
From SVG Require Import InclusionGen GenLinkInclusion.
Open Scope nat_scope.

Lemma g_base_patterns_tiles v : exists l b, M_fn_base_patterns v = Some l /\ tilesv (map conv_re v) 0 (map convb l) b.
Proof.
  pose proof (link_base_patterns v) as H. destruct (M_fn_base_patterns v) as [l|]; [|discriminate H].
  cbn [option_map] in H. injection H as H. destruct (base_patterns_tiles (map conv_re v)) as [b Hb].
  exists l, b. split; [reflexivity|]. rewrite H. exact Hb.
Qed.

Lemma g_next_rigid_match_total p s i : M_fn_next_rigid_match p s i <> None.
Proof. pose proof (link_next_rigid_match p s i) as H. destruct (M_fn_next_rigid_match p s i); [discriminate|discriminate H]. Qed.

Lemma g_next_rigid_match_spec p s i j k : M_fn_next_rigid_match p s i = Some (SearchResult_Found j k) ->
  i <= j /\ k = j + length p /\ k <= length s /\ rigid_at (map conv p) (map conv_re s) j = true.
Proof.
  intros H. pose proof (link_next_rigid_match p s i) as L. rewrite H in L. cbn [option_map convsr] in L.
  injection L as L. symmetry in L. apply next_rigid_match_spec in L. rewrite !map_length in L. exact L.
Qed.

Lemma g_prev_rigid_match_spec p s i j k : i <= length s -> M_fn_prev_rigid_match p s i = Some (SearchResult_Found j k) ->
  k <= i /\ k = j + length p /\ rigid_at (map conv p) (map conv_re s) j = true.
Proof.
  intros Hi H. pose proof (link_prev_rigid_match p s i Hi) as L. rewrite H in L. cbn [option_map convsr] in L.
  injection L as L. symmetry in L. apply prev_rigid_match_spec in L. rewrite !map_length in L. exact L.
Qed.

Lemma all_ranges_conv l : GenLinkInclusion.all_ranges l -> InclusionProofs.all_ranges (map conv_re l).
Proof.
  unfold GenLinkInclusion.all_ranges, InclusionProofs.all_ranges. intros H. rewrite Forall_map.
  rewrite Forall_forall in *. intros r Hr. rewrite is_range_conv. apply H. exact Hr.
Qed.

(* C16: the rigid prefix step is sound at the level of languages *)
Lemma g_rigid_prefix_sound u v p : pat_ok v p -> M_fn_rigid_prefix_match u v p = Some true ->
  forall w, CL (slice (map conv_re u) 0 (BasePattern_end p - BasePattern_start p)) w ->
            CL (slice (map conv_re v) (BasePattern_start p) (BasePattern_end p)) w.
Proof.
  intros Hok H. pose proof (link_rigid_prefix_match u v p Hok) as L. rewrite H in L. injection L as L.
  destruct Hok as [[H1 H2] Hr]. unfold rigid_prefix_match, pat_sets in L. cbn [convb b_start b_end] in L.
  destruct (Nat.leb _ _); [|discriminate L]. symmetry in L.
  pose proof (all_ranges_conv _ Hr) as Hr'. rewrite slice_conv in Hr'.
  pose proof (rigid_at_ok (map conv_re u) _ 0 Hr' L) as S.
  rewrite (InclusionProofs.csp_length _ Hr') in S. cbn [Nat.add] in S.
  rewrite slice_length in S by (rewrite map_length; lia). exact S.
Qed.

(* C16: decompose_concat (the self-recursive traversal that feeds concat_inclusion): with fuel above the height of the
   term it returns, without panic, a list of factors whose concatenation is exactly the language of the term *)
Lemma g_decompose_concat_total fuel r : height (conv_re r) <= fuel -> exists l, M_fn_decompose_concat fuel r = Some l.
Proof.
  intros Hh. pose proof (link_decompose_concat fuel r Hh) as L.
  destruct (M_fn_decompose_concat fuel r) as [l|]; [exists l; reflexivity | discriminate L].
Qed.
Lemma g_decompose_concat_lang fuel r l : height (conv_re r) <= fuel -> M_fn_decompose_concat fuel r = Some l ->
  forall w, L (conv_re r) w <-> CL (map conv_re l) w.
Proof.
  intros Hh E w. pose proof (link_decompose_concat fuel r Hh) as Lk. rewrite E in Lk. cbn [option_map] in Lk.
  injection Lk as Lk. rewrite Lk. apply flatten_concat_CL.
Qed.
(* more fuel never changes the answer *)
Lemma g_decompose_concat_fuel_irrelevant f1 f2 r : height (conv_re r) <= f1 -> height (conv_re r) <= f2 ->
  option_map (map conv_re) (M_fn_decompose_concat f1 r) = option_map (map conv_re) (M_fn_decompose_concat f2 r).
Proof. intros H1 H2. rewrite (link_decompose_concat f1 r H1), (link_decompose_concat f2 r H2). reflexivity. Qed.

(* the flattening helpers of the smart constructors inter / union (self-recursive through a for loop): with fuel above
   the height of the term they never panic, only append to the vector they are given, and the appended terms are
   exactly a conjunctive / disjunctive decomposition of the language of the term *)
Require ManagerProofs.
Lemma flatten_inter_lang : forall e w, L e w <-> (forall x, In x (flatten_inter e) -> L x w).
Proof.
  intros e. induction e as [e IH] using ManagerProofs.re_induction. intros w.
  destruct e as [i n c k].
  assert (D : (forall l, k <> NInter l) -> flatten_inter (Node i n c k) = [Node i n c k]).
  { intros Hk. destruct k; try reflexivity. exfalso. eapply Hk. reflexivity. }
  destruct k as [| |cs|a b|a r|a|l|l]; try (rewrite D by (intros ? ?; discriminate); split; [intros H x [<-|[]]; exact H | intros H; apply H; left; reflexivity]).
  rewrite ManagerProofs.L_inter. change (flatten_inter (Node i n c (NInter l))) with (flat_map flatten_inter l).
  cbn [rnode children] in IH. split.
  - intros H x Hx. apply in_flat_map in Hx as (c0 & Hc & Hx). apply (proj1 (IH c0 Hc w) (H c0 Hc) x Hx).
  - intros H c0 Hc. apply (IH c0 Hc w). intros x Hx. apply H. apply in_flat_map. exists c0. split; assumption.
Qed.
Lemma flatten_union_lang : forall e w, L e w <-> (exists x, In x (flatten_union e) /\ L x w).
Proof.
  intros e. induction e as [e IH] using ManagerProofs.re_induction. intros w.
  destruct e as [i n c k].
  assert (D : (forall l, k <> NUnion l) -> flatten_union (Node i n c k) = [Node i n c k]).
  { intros Hk. destruct k; try reflexivity. exfalso. eapply Hk. reflexivity. }
  destruct k as [| |cs|a b|a r|a|l|l]; try (rewrite D by (intros ? ?; discriminate); split; [intros H; eexists; split; [left; reflexivity|exact H] | intros (x & [<-|[]] & H); exact H]).
  rewrite ManagerProofs.L_union. change (flatten_union (Node i n c (NUnion l))) with (flat_map flatten_union l).
  cbn [rnode children] in IH. split.
  - intros (c0 & Hc & H). apply (IH c0 Hc w) in H as (x & Hx & H). exists x. split; [|exact H]. apply in_flat_map. exists c0. split; assumption.
  - intros (x & Hx & H). apply in_flat_map in Hx as (c0 & Hc & Hx). exists c0. split; [exact Hc|]. apply (IH c0 Hc w). exists x. split; assumption.
Qed.

Lemma g_flatten_inter_lang fuel r v : height (conv_re r) <= fuel ->
  exists l, M_fn_flatten_inter fuel r v = Some (v ++ l, tt) /\
    forall w, L (conv_re r) w <-> (forall x, In x l -> L (conv_re x) w).
Proof.
  intros Hh. destruct (link_flatten_inter_fuel fuel r v Hh) as (l & E & M). exists l. split; [exact E|].
  intros w. rewrite flatten_inter_lang, <- M. split.
  - intros H x Hx. apply H. apply in_map. exact Hx.
  - intros H x Hx. apply in_map_iff in Hx as (y & <- & Hy). apply H. exact Hy.
Qed.
Lemma g_flatten_union_lang fuel r v : height (conv_re r) <= fuel ->
  exists l, M_fn_flatten_union fuel r v = Some (v ++ l, tt) /\
    forall w, L (conv_re r) w <-> (exists x, In x l /\ L (conv_re x) w).
Proof.
  intros Hh. destruct (link_flatten_union_fuel fuel r v Hh) as (l & E & M). exists l. split; [exact E|].
  intros w. rewrite flatten_union_lang, <- M. split.
  - intros (x & Hx & H). apply in_map_iff in Hx as (y & <- & Hy). exists y. split; assumption.
  - intros (x & Hx & H). exists (conv_re x). split; [apply in_map; exact Hx | exact H].
Qed.
