(* GenLinkBfsQueue.v -- bfs_queues.rs (instance BfsQueue<usize>) regenerated on every run
   (SVG.BfsQueueGen): canonical forms of the operations and the queue discipline they implement --
   every element is queued at most once, in the order of its first push (what the model's
   explorations inline as `queue ++ [d]` / `d :: seen`). *)
Require Import Base GenBase.
From SVG Require Import BfsQueueGen.
Require Import ZifyBool ZifyNat.
Open Scope nat_scope.

Ltac gcase :=
  match goal with
  | |- context [match ?x with _ => _ end] =>
      lazymatch x with
      | context [match _ with _ => _ end] => fail
      | _ => first [ is_var x; destruct x | destruct x eqn:? ]
      end
  end.
Ltac gnorm := cbv [bind option_map negb andb orb set_insert deque_pop_front];
  cbn [fst snd BfsQueue_queue BfsQueue_set].
Ltac gfin := first [ reflexivity | congruence | (exfalso; lia) | solve [repeat (f_equal; try lia)] ].
Ltac gauto := gnorm; repeat (gcase; gnorm); gfin.

Definition push_c (q : BfsQueue) (x : nat) : BfsQueue * bool :=
  if existsb (Nat.eqb x) (BfsQueue_set q) then (q, false)
  else (BfsQueue_mk (BfsQueue_queue q ++ [x]) (x :: BfsQueue_set q), true).
Definition pop_c (q : BfsQueue) : BfsQueue * option nat :=
  match BfsQueue_queue q with
  | [] => (q, None)
  | y :: r => (BfsQueue_mk r (BfsQueue_set q), Some y)
  end.

Lemma canon_new : M_BfsQueue_new = Some (BfsQueue_mk [] []).
Proof. unfold M_BfsQueue_new, BfsQueue_new. gauto. Qed.
Lemma canon_with_capacity n : M_BfsQueue_with_capacity n = Some (BfsQueue_mk [] []).
Proof. unfold M_BfsQueue_with_capacity, BfsQueue_with_capacity. gauto. Qed.
Lemma canon_push q x : M_BfsQueue_push q x = Some (push_c q x).
Proof. unfold M_BfsQueue_push, BfsQueue_push, push_c. destruct q as [qu st]. gauto. Qed.
Lemma canon_pop q : M_BfsQueue_pop q = Some (pop_c q).
Proof. unfold M_BfsQueue_pop, BfsQueue_pop, pop_c. destruct q as [qu st]. gauto. Qed.
Lemma canon_is_empty q : M_BfsQueue_is_empty q = Some (match BfsQueue_queue q with [] => true | _ => false end).
Proof. unfold M_BfsQueue_is_empty, BfsQueue_is_empty. gauto. Qed.
Lemma canon_len q : M_BfsQueue_len q = Some (length (BfsQueue_queue q)).
Proof. unfold M_BfsQueue_len, BfsQueue_len. gauto. Qed.

Definition all_res (r : option (loopres BfsQueue BfsQueue)) : option BfsQueue :=
  match r with Some (LoopDone q) => Some q | Some (LoopReturn q) => Some q | None => None end.
Lemma canon_push_all_loop : forall l q,
  all_res (BfsQueue_push_all_loop1 l q) = Some (fold_left (fun a x => fst (push_c a x)) l q).
Proof.
  induction l as [|x l IH]; intros q; [reflexivity|].
  cbn [BfsQueue_push_all_loop1 fold_left]. rewrite canon_push. cbn [bind].
  destruct (push_c q x) as [q' b] eqn:E. cbn [fst]. apply IH.
Qed.
Lemma canon_push_all q l : M_BfsQueue_push_all q l = Some (fold_left (fun a x => fst (push_c a x)) l q).
Proof.
  unfold M_BfsQueue_push_all, BfsQueue_push_all. pose proof (canon_push_all_loop l q) as H.
  destruct (BfsQueue_push_all_loop1 l q) as [[r|r]|]; cbn [all_res] in H; try discriminate; cbn [bind]; exact H.
Qed.

(* ---- the queue discipline ---- *)
(* first occurrences of a sequence, in order *)
Definition occ_step (acc : list nat) (x : nat) : list nat := if existsb (Nat.eqb x) acc then acc else acc ++ [x].
Definition first_occ (l : list nat) : list nat := fold_left occ_step l [].

Lemma existsb_in x l : existsb (Nat.eqb x) l = true <-> In x l.
Proof.
  rewrite existsb_exists. split.
  - intros (y & Hy & E). apply Nat.eqb_eq in E. subst. exact Hy.
  - intros H. exists x. split; [exact H|apply Nat.eqb_refl].
Qed.
Lemma first_occ_snoc l x : first_occ (l ++ [x]) = occ_step (first_occ l) x.
Proof. unfold first_occ. rewrite fold_left_app. reflexivity. Qed.
Lemma occ_fold_in : forall l acc x, In x (fold_left occ_step l acc) <-> In x acc \/ In x l.
Proof.
  induction l as [|y l IH]; intros acc x; cbn [fold_left]; [cbn; tauto|].
  rewrite IH. unfold occ_step. destruct (existsb (Nat.eqb y) acc) eqn:E.
  - apply existsb_in in E. cbn [In]. split; [tauto|]. intros [H|[H|H]]; subst; tauto.
  - rewrite in_app_iff. cbn [In]. tauto.
Qed.
Lemma first_occ_in l x : In x (first_occ l) <-> In x l.
Proof. unfold first_occ. rewrite occ_fold_in. cbn. tauto. Qed.
Lemma nodup_snoc (l : list nat) x : NoDup l -> ~ In x l -> NoDup (l ++ [x]).
Proof.
  intros Hl Hx. induction Hl as [|y l Hy Hl IH]; cbn [app]; [constructor; [intros []|constructor]|].
  constructor.
  - rewrite in_app_iff. cbn [In]. intros [H|[H|[]]]; [exact (Hy H)|]. subst. apply Hx. left. reflexivity.
  - apply IH. intros H. apply Hx. right. exact H.
Qed.
Lemma occ_fold_nodup : forall l acc, NoDup acc -> NoDup (fold_left occ_step l acc).
Proof.
  induction l as [|y l IH]; intros acc H; [exact H|]. cbn [fold_left]. apply IH. unfold occ_step.
  destruct (existsb (Nat.eqb y) acc) eqn:E; [exact H|].
  apply nodup_snoc; [exact H|]. intros Hin. apply existsb_in in Hin. congruence.
Qed.
