(* GenLinkBuilder.v -- the per-state part of AutomatonBuilder (StateInConstruction: Boyer-Moore
   majority default, removal of the transitions into the default, make_partition through
   CharPartition::try_from_iter, make_successor) regenerated from /repo/src/automata.rs and
   character_sets.rs on every run (SVG.BuilderGen) coincides with the hand-written model
   Automaton.v / Partition.v, about which the C13 theorems are proved. *)
Require Import Base GenBase CharSet Partition Automaton.
From SVG Require Import BuilderGen.
Require Import ZifyBool ZifyN ZifyNat.
Open Scope N_scope.

Definition conv (s : CharSet) : cs := (CharSet_start s, CharSet_end s).
Definition convp (p : CharPartition) : part :=
  {| ivs := map conv (CharPartition_list p); wit := CharPartition_comp_witness p |}.
Definition convc (c : ClassId) : classid :=
  match c with ClassId_Interval i => CInt i | ClassId_Complement => CComp end.
Definition convt (t : CharSet * nat) : cs * nat := (conv (fst t), snd t).
Definition convs (s : StateInConstruction) : sic :=
  {| s_final := StateInConstruction_is_final s; s_default := StateInConstruction_default_successor s;
     s_trans := map convt (StateInConstruction_transitions s) |}.

Lemma conv_inj s o : conv s = conv o -> s = o.
Proof. destruct s as [a b], o as [c d]. cbv [conv CharSet_start CharSet_end]. congruence. Qed.

Ltac gbools :=
  repeat match goal with
         | |- context [N.leb ?a ?b] => destruct (N.leb a b) eqn:?
         | |- context [N.ltb ?a ?b] => destruct (N.ltb a b) eqn:?
         | |- context [N.eqb ?a ?b] => destruct (N.eqb a b) eqn:?
         | |- context [Nat.leb ?a ?b] => destruct (Nat.leb a b) eqn:?
         | |- context [Nat.ltb ?a ?b] => destruct (Nat.ltb a b) eqn:?
         | |- context [Nat.eqb ?a ?b] => destruct (Nat.eqb a b) eqn:?
         end.

(* ---- the element functions ---- *)
Lemma link_cs_contains s x : M_CharSet_contains s x = Some (cs_contains (conv s) x).
Proof. destruct s. reflexivity. Qed.
Lemma link_cs_is_before s x : M_CharSet_is_before s x = Some (cs_is_before (conv s) x).
Proof. destruct s. reflexivity. Qed.
Lemma link_cs_pick s : M_CharSet_pick s = Some (cs_pick (conv s)).
Proof. destruct s. reflexivity. Qed.
Lemma link_len p : M_CharPartition_len p = Some (plen (convp p)).
Proof. destruct p as [l w]. autounfold with rs2v. cbv [plen convp ivs CharPartition_list]. rewrite map_length. reflexivity. Qed.

Lemma nth_error_map_conv l i : nth_error (map conv l) i = option_map conv (nth_error l i).
Proof. revert i; induction l as [|x l IH]; intros [|i]; cbn; auto. Qed.

(* ---- class_of_char: the binary search, same fuel on both sides ---- *)
Ltac lnorm := cbv [bind option_map cs_contains cs_is_before]; cbn [fst snd conv CharSet_start CharSet_end].
Ltac Zify.zify_post_hook ::= Z.div_mod_to_equations.
Ltac lstep :=
  match goal with
  | |- context [nth_error ?l ?a] =>
      match goal with
      | |- context [nth_error l ?b] =>
          tryif constr_eq a b then fail else (replace a with b by lia)
      end
  | |- context [M_CharSet_contains ?s ?x] => rewrite (link_cs_contains s x)
  | |- context [M_CharSet_is_before ?s ?x] => rewrite (link_cs_is_before s x)
  | |- context [nth_error (map conv ?l) ?i] => rewrite (nth_error_map_conv l i)
  | |- context [match ?x with _ => _ end] =>
      lazymatch x with
      | context [match _ with _ => _ end] => fail
      | _ => destruct x eqn:?
      end
  end; lnorm.
Ltac lleaf IH :=
  first [ reflexivity | discriminate | (exfalso; lia) | congruence
        | (rewrite IH; first [ reflexivity | (f_equal; lia) ]) | (f_equal; lia) ].

Definition char_res (r : option (loopres ClassId (nat * nat))) : option classid :=
  match r with
  | Some (LoopReturn c) => Some (convc c)
  | Some (LoopDone _) => Some CComp
  | None => None
  end.

Lemma link_bs_char fuel l x i j :
  char_res (CharPartition_class_of_char_binary_search_loop1 fuel l x i j) = bs_char fuel (map conv l) x i j.
Proof.
  revert i j; induction fuel as [|fuel IH]; intros i j; [reflexivity|].
  cbn [CharPartition_class_of_char_binary_search_loop1 bs_char].
  cbv [usize_sub usize_div usize_add cs_contains cs_is_before]. lnorm.
  repeat lstep; lleaf IH.
Qed.

Lemma link_class_of_char p x :
  option_map convc (M_CharPartition_class_of_char (S (length (CharPartition_list p))) p x)
  = pclass_of_char (convp p) x.
Proof.
  destruct p as [l w]. autounfold with rs2v. unfold pclass_of_char, convp, plen, ivs, CharPartition_list.
  rewrite map_length, <- link_bs_char. unfold bind.
  destruct (CharPartition_class_of_char_binary_search_loop1 _ l x 0 (length l)) as [[c|[a b]]|]; reflexivity.
Qed.

(* ---- CharPartition::try_from_iter: stable sort by start, then one scan ---- *)
Definition valid_end (c : CharSet) : Prop := CharSet_end c <= MAX_CHAR.

Lemma link_insert x l :
  map conv (insert_by_key_N (fun c => CharSet_start c) x l) = insert_by_start (conv x) (map conv l).
Proof.
  induction l as [|y l IH]; [reflexivity|].
  cbn [insert_by_key_N insert_by_start map]. cbn [conv fst].
  destruct (CharSet_start x <=? CharSet_start y); cbn [map]; [reflexivity|]. rewrite IH. reflexivity.
Qed.
Lemma link_sort l : map conv (sort_by_key_N (fun c => CharSet_start c) l) = sort_by_start (map conv l).
Proof.
  unfold sort_by_key_N, sort_by_start. induction l as [|x l IH]; [reflexivity|].
  cbn [fold_right map]. rewrite link_insert, IH. reflexivity.
Qed.
Lemma insert_valid x l : valid_end x -> Forall valid_end l ->
  Forall valid_end (insert_by_key_N (fun c => CharSet_start c) x l).
Proof.
  intros Hx Hl. induction Hl as [|y l Hy Hl IH]; cbn [insert_by_key_N]; [repeat constructor; auto|].
  destruct (_ <=? _); repeat constructor; auto.
Qed.
Lemma sort_valid l : Forall valid_end l -> Forall valid_end (sort_by_key_N (fun c => CharSet_start c) l).
Proof.
  unfold sort_by_key_N. induction 1 as [|x l Hx Hl IH]; cbn [fold_right]; [constructor|].
  apply insert_valid; auto.
Qed.

Definition scan_res (r : option (loopres (result CharPartition Error) (N * CharSet))) : option (option N) :=
  match r with
  | Some (LoopDone (w, _)) => Some (Some w)
  | Some (LoopReturn (Err Error_NonDisjointCharSets)) => Some None
  | _ => None
  end.

Ltac scan_tac loop :=
  let l := fresh "l" in let c := fresh "c" in let Hc := fresh "Hc" in let Hl := fresh "Hl" in
  let IH := fresh "IH" in let w := fresh "w" in let prev := fresh "prev" in
  intros l; induction l as [|c l IH]; intros w prev Hl; [reflexivity|];
  inversion Hl as [|? ? Hc Hl']; subst;
  cbn [loop scan_sorted map]; cbn [conv fst snd];
  unfold valid_end, MAX_CHAR in Hc;
  destruct (CharSet_start c <=? CharSet_end prev); [reflexivity|];
  destruct (CharSet_start c <=? w);
  [ cbv [u32_add U32MAX bind]; destruct (CharSet_end c + 1 <=? 4294967295) eqn:?; [|exfalso; lia] | ];
  rewrite IH by assumption; reflexivity.

Lemma link_scan1 : forall l w prev, Forall valid_end l ->
  scan_res (CharPartition_try_from_iter_loop1 l w prev) = Some (scan_sorted (conv prev) w (map conv l)).
Proof. scan_tac CharPartition_try_from_iter_loop1. Qed.
Lemma link_scan2 : forall l w prev, Forall valid_end l ->
  scan_res (CharPartition_try_from_iter_loop2 l w prev) = Some (scan_sorted (conv prev) w (map conv l)).
Proof. scan_tac CharPartition_try_from_iter_loop2. Qed.

Definition try_res (r : option (result CharPartition Error)) : option (option part) :=
  match r with
  | Some (Ok p) => Some (Some (convp p))
  | Some (Err Error_NonDisjointCharSets) => Some None
  | _ => None
  end.

(* on legal character sets try_from_iter never panics, fails only with NonDisjointCharSets, and is
   the model's ptry_from_list *)
Lemma link_try_from_iter l : Forall valid_end l ->
  try_res (M_CharPartition_try_from_iter l) = Some (ptry_from_list (map conv l)).
Proof.
  intros Hl. unfold M_CharPartition_try_from_iter, CharPartition_try_from_iter, ptry_from_list.
  destruct l as [|x0 l0]; [reflexivity|]. cbv [negb].
  pose proof (sort_valid _ Hl) as Hs. rewrite <- link_sort.
  destruct (sort_by_key_N (fun c => CharSet_start c) (x0 :: l0)) as [|c0 t] eqn:Es.
  { exfalso. apply (f_equal (@length _)) in Es. revert Es. clear.
    unfold sort_by_key_N. cbn [fold_right]. generalize (fold_right (insert_by_key_N (fun c => CharSet_start c)) [] l0).
    intros l. destruct l; cbn [insert_by_key_N]; [discriminate|]. destruct (_ <=? _); discriminate. }
  inversion Hs as [|? ? Hc0 Ht]; subst.
  cbn [nth_error bind map length skipn Nat.leb]. cbn [conv fst snd].
  unfold valid_end, MAX_CHAR in Hc0.
  destruct (CharSet_start c0 <=? 0).
  - cbv [u32_add U32MAX bind]. destruct (CharSet_end c0 + 1 <=? 4294967295) eqn:?; [|exfalso; lia].
    pose proof (link_scan1 t (CharSet_end c0 + 1) c0 Ht) as H.
    destruct (CharPartition_try_from_iter_loop1 t (CharSet_end c0 + 1) c0) as [[[p|[]]|[w pr]]|];
      cbn [scan_res] in H; try discriminate; injection H as <-; reflexivity.
  - pose proof (link_scan2 t 0 c0 Ht) as H. cbv [bind].
    destruct (CharPartition_try_from_iter_loop2 t 0 c0) as [[[p|[]]|[w pr]]|];
      cbn [scan_res] in H; try discriminate; injection H as <-; reflexivity.
Qed.

(* ---- cleanup: Boyer-Moore majority vote (the counter is an i32 in the code), count, removal ---- *)
Definition maj_res (r : option (loopres nat (nat * Z))) : option nat :=
  match r with Some (LoopDone (m, _)) => Some m | Some (LoopReturn m) => Some m | None => None end.

Lemma link_maj_loop : forall l maj k, (Z.of_nat k + Z.of_nat (length l) < 2147483648)%Z ->
  maj_res (StateInConstruction_choose_default_successor_maj_candidate_loop1 l maj (Z.of_nat k))
  = Some (maj_go (map convt l) maj k).
Proof.
  induction l as [|[c x] l IH]; intros maj k Hk; [reflexivity|].
  cbn [StateInConstruction_choose_default_successor_maj_candidate_loop1 maj_go map convt fst snd].
  cbn [length] in Hk.
  destruct k as [|k].
  - rewrite ?(Z.eqb_sym 0). cbn [Z.of_nat Z.eqb Nat.eqb]. apply (IH x 1%nat). lia.
  - rewrite ?(Z.eqb_sym 0). replace (Z.eqb (Z.of_nat (S k)) 0) with false by lia. cbn [Nat.eqb].
    rewrite ?(Nat.eqb_sym maj x).
    destruct (Nat.eqb x maj).
    + rewrite ?(Z.add_comm 1). cbv [i32_add i32_in bind].
      destruct ((-2147483648 <=? Z.of_nat (S k) + 1)%Z && (Z.of_nat (S k) + 1 <=? 2147483647)%Z) eqn:E; [|exfalso; lia].
      replace (Z.of_nat (S k) + 1)%Z with (Z.of_nat (S (S k))) by lia. apply IH. lia.
    + cbv [i32_sub i32_in bind].
      destruct ((-2147483648 <=? Z.of_nat (S k) - 1)%Z && (Z.of_nat (S k) - 1 <=? 2147483647)%Z) eqn:E; [|exfalso; lia].
      replace (Z.of_nat (S k) - 1)%Z with (Z.of_nat (S k - 1)) by lia. apply IH. lia.
Qed.

Lemma link_maj_candidate c0 x0 t : (Z.of_nat (length t) < 2147483647)%Z ->
  M_StateInConstruction_choose_default_successor_maj_candidate ((c0, x0) :: t) = Some (maj_go (map convt t) x0 1).
Proof.
  intros Hl. unfold M_StateInConstruction_choose_default_successor_maj_candidate,
    StateInConstruction_choose_default_successor_maj_candidate.
  cbn [nth_error bind snd length Nat.leb skipn].
  assert (Hk : (Z.of_nat 1 + Z.of_nat (length t) < 2147483648)%Z) by lia.
  assert (H := link_maj_loop t x0 1%nat Hk). change (Z.of_nat 1) with 1%Z in H.
  destruct (StateInConstruction_choose_default_successor_maj_candidate_loop1 t x0 1) as [[m|[m k]]|];
    cbn [maj_res] in H; try discriminate; injection H as <-; reflexivity.
Qed.

Lemma count_target_cons c x l m :
  count_target ((c, x) :: l) m = ((if Nat.eqb x m then 1 else 0) + count_target l m)%nat.
Proof. unfold count_target. cbn [filter snd]. destruct (Nat.eqb x m); reflexivity. Qed.
Lemma link_count_loop : forall l m n,
  StateInConstruction_choose_default_successor_count_loop1 l m n = Some (LoopDone (n + count_target (map convt l) m)%nat).
Proof.
  induction l as [|[c x] l IH]; intros m n.
  - cbn. rewrite Nat.add_0_r. reflexivity.
  - cbn [StateInConstruction_choose_default_successor_count_loop1 map convt fst snd].
    change (convt (c, x)) with (conv c, x). rewrite count_target_cons. rewrite ?(Nat.eqb_sym m x). destruct (Nat.eqb x m); rewrite IH; do 2 apply f_equal; lia.
Qed.
Lemma link_count l m :
  M_StateInConstruction_choose_default_successor_count l m = Some (count_target (map convt l) m).
Proof.
  unfold M_StateInConstruction_choose_default_successor_count, StateInConstruction_choose_default_successor_count.
  rewrite link_count_loop. reflexivity.
Qed.

Lemma filter_convt (Q : nat -> bool) l :
  map convt (filter (fun x => Q (snd x)) l) = filter (fun x => Q (snd x)) (map convt l).
Proof.
  induction l as [|[c x] l IH]; [reflexivity|]. cbn [filter map convt snd fst].
  destruct (Q x); cbn [map]; rewrite IH; reflexivity.
Qed.

(* ---- canonical forms of the loop-free functions (generic proofs: unfold, rewrite the callees' forms,
   case analysis innermost first) ---- *)
Ltac gcase :=
  match goal with
  | |- context [match ?x with _ => _ end] =>
      lazymatch x with
      | context [match _ with _ => _ end] => fail
      | _ => first [ is_var x; destruct x | destruct x eqn:? ]
      end
  end.
Ltac gnorm := cbv [bind option_map negb andb orb]; cbn [fst snd length StateInConstruction_is_final StateInConstruction_default_successor StateInConstruction_transitions].
Ltac gfin := first [ reflexivity | congruence | (exfalso; lia) | solve [repeat (f_equal; try lia)] ].
Ltac gauto := gnorm; repeat (gcase; gnorm); gfin.

Lemma canon_set_default_successor s j :
  M_StateInConstruction_set_default_successor s j =
  Some (StateInConstruction_mk (StateInConstruction_is_final s) (Some j) (StateInConstruction_transitions s)).
Proof. unfold M_StateInConstruction_set_default_successor, StateInConstruction_set_default_successor. gauto. Qed.
Lemma canon_add_transition s c j :
  M_StateInConstruction_add_transition s c j =
  Some (StateInConstruction_mk (StateInConstruction_is_final s) (StateInConstruction_default_successor s)
                               (StateInConstruction_transitions s ++ [(c, j)])).
Proof. unfold M_StateInConstruction_add_transition, StateInConstruction_add_transition. gauto. Qed.

Definition choose_spec (s : StateInConstruction) : StateInConstruction :=
  match StateInConstruction_default_successor s, StateInConstruction_transitions s with
  | None, (c0, x0) :: t =>
      let m := maj_go (map convt t) x0 1 in
      if Nat.leb (length (StateInConstruction_transitions s) / 2) (count_target (map convt (StateInConstruction_transitions s)) m)
      then StateInConstruction_mk (StateInConstruction_is_final s) (Some m) (StateInConstruction_transitions s)
      else s
  | _, _ => s
  end.
Lemma canon_choose s : (Z.of_nat (length (StateInConstruction_transitions s)) < 2147483647)%Z ->
  M_StateInConstruction_choose_default_successor s = Some (choose_spec s).
Proof.
  destruct s as [f d tr]. cbn [StateInConstruction_transitions]. intros Hl.
  unfold M_StateInConstruction_choose_default_successor, StateInConstruction_choose_default_successor, choose_spec.
  destruct tr as [|[c0 x0] t]; cbn [StateInConstruction_is_final StateInConstruction_default_successor StateInConstruction_transitions].
  - gauto.
  - cbn [length] in Hl. rewrite ?link_maj_candidate by lia. rewrite ?link_count, ?canon_set_default_successor.
    gnorm. rewrite ?link_count, ?canon_set_default_successor.
    repeat (gcase; gnorm; rewrite ?link_count, ?canon_set_default_successor); gfin.
Qed.
Definition remove_spec (s : StateInConstruction) : StateInConstruction :=
  match StateInConstruction_default_successor s with
  | Some i => StateInConstruction_mk (StateInConstruction_is_final s) (StateInConstruction_default_successor s)
                (filter (fun x => negb (Nat.eqb (snd x) i)) (StateInConstruction_transitions s))
  | None => s
  end.
Lemma canon_remove s : M_StateInConstruction_remove_transitions_to_default s = Some (remove_spec s).
Proof.
  unfold M_StateInConstruction_remove_transitions_to_default, StateInConstruction_remove_transitions_to_default, remove_spec.
  gauto.
Qed.
Lemma canon_cleanup s : (Z.of_nat (length (StateInConstruction_transitions s)) < 2147483647)%Z ->
  M_StateInConstruction_cleanup s = Some (remove_spec (choose_spec s)).
Proof.
  intros Hl. unfold M_StateInConstruction_cleanup, StateInConstruction_cleanup.
  rewrite ?(canon_choose s Hl). gnorm. rewrite ?canon_remove. gauto.
Qed.

(* cleanup() never panics when the state has fewer than 2^31 - 1 transitions (the i32 vote counter
   cannot overflow) and is the model's cleanup *)
Lemma link_cleanup s : (Z.of_nat (length (StateInConstruction_transitions s)) < 2147483647)%Z ->
  option_map convs (M_StateInConstruction_cleanup s) = Some (cleanup (convs s)).
Proof.
  intros Hl. rewrite (canon_cleanup s Hl). cbn [option_map]. f_equal.
  destruct s as [f d tr]. unfold choose_spec, remove_spec, cleanup, convs.
  cbn [StateInConstruction_is_final StateInConstruction_default_successor StateInConstruction_transitions
       s_default s_trans s_final].
  destruct d as [d|].
  - cbn [StateInConstruction_is_final StateInConstruction_default_successor StateInConstruction_transitions].
    rewrite <- (filter_convt (fun y => negb (Nat.eqb y d))). reflexivity.
  - destruct tr as [|[c0 x0] t]; [reflexivity|].
    cbn [map convt fst snd].
    change (convt (c0, x0) :: map convt t) with (map convt ((c0, x0) :: t)). rewrite map_length.
    destruct (Nat.leb _ _); cbn [StateInConstruction_is_final StateInConstruction_default_successor StateInConstruction_transitions];
      [rewrite <- (filter_convt (fun y => negb (Nat.eqb y _)))|]; reflexivity.
Qed.

(* ---- make_partition ---- *)
Definition labels_valid (s : StateInConstruction) : Prop :=
  Forall valid_end (map fst (StateInConstruction_transitions s)).

Lemma map_fst_convt l : map conv (map (fun x : CharSet * nat => fst x) l) = map fst (map convt l).
Proof. induction l as [|[c x] l IH]; [reflexivity|]. cbn [map convt fst]. rewrite IH. reflexivity. Qed.

Lemma link_make_partition s : labels_valid s ->
  try_res (M_StateInConstruction_make_partition s) = Some (ptry_from_list (map fst (s_trans (convs s)))).
Proof.
  intros Hv. assert (E : M_StateInConstruction_make_partition s
                         = M_CharPartition_try_from_iter (map (fun x : CharSet * nat => fst x) (StateInConstruction_transitions s))).
  { unfold M_StateInConstruction_make_partition, StateInConstruction_make_partition. gauto. }
  rewrite E, link_try_from_iter by exact Hv. rewrite map_fst_convt. reflexivity.
Qed.

(* ---- make_successor ---- *)
Lemma bs_char_in_range : forall fuel l x i j h, (j <= length l)%nat ->
  bs_char fuel l x i j = Some (CInt h) -> (h < length l)%nat.
Proof.
  induction fuel as [|fuel IH]; intros l x i j h Hj; [discriminate|].
  cbn [bs_char]. destruct (Nat.ltb i j) eqn:Eij; [|discriminate].
  cbv [bind]. destruct (nth_error l (i + (j - i) / 2)) as [s|] eqn:En; [|discriminate].
  assert (Hh : (i + (j - i) / 2 < length l)%nat) by (apply nth_error_Some; congruence).
  destruct (cs_contains s x).
  - intros H. injection H as <-. exact Hh.
  - destruct (cs_is_before s x); apply IH; lia.
Qed.
Lemma pclass_in_range p x h : pclass_of_char p x = Some (CInt h) -> (h < length (ivs p))%nat.
Proof. unfold pclass_of_char, plen. apply bs_char_in_range. lia. Qed.

Lemma list_upd_upd {A} (l : list A) : forall i x, (i < length l)%nat -> list_upd l i x = Some (upd l i x).
Proof.
  induction l as [|y l IH]; intros i x Hi; cbn [length] in Hi; [lia|].
  destruct i as [|i]; cbn [list_upd upd]; [reflexivity|]. rewrite IH by lia. reflexivity.
Qed.
Lemma upd_len {A} (l : list A) : forall i x, length (upd l i x) = length l.
Proof. induction l as [|y l IH]; intros [|i] x; cbn [upd length]; auto. Qed.

Definition succ_res (r : option (loopres (list nat) (list nat))) : option (list nat) :=
  match r with Some (LoopDone l) => Some l | Some (LoopReturn l) => Some l | None => None end.
Definition succ_f (p : part) (acc : option (list nat)) (tr : cs * nat) : option (list nat) :=
  match acc with
  | None => None
  | Some r => match pclass_of_char p (cs_pick (fst tr)) with
              | Some (CInt i) => Some (upd r i (snd tr))
              | _ => None
              end
  end.
Lemma fold_succ_none p l : fold_left (succ_f p) l None = None.
Proof. induction l as [|a l IH]; [reflexivity|]. exact IH. Qed.

Lemma link_succ_loop p : forall l r, length r = length (CharPartition_list p) ->
  succ_res (StateInConstruction_make_successor_loop1 (S (length (CharPartition_list p))) l p r)
  = fold_left (succ_f (convp p)) (map convt l) (Some r).
Proof.
  induction l as [|[c x] l IH]; intros r Hr; [reflexivity|].
  cbn [StateInConstruction_make_successor_loop1 map fold_left]. cbn [fst snd].
  rewrite link_cs_pick. cbn [bind].
  pose proof (link_class_of_char p (cs_pick (conv c))) as Hc.
  change (convt (c, x)) with (conv c, x). cbn [succ_f fst snd].
  destruct (M_CharPartition_class_of_char (S (length (CharPartition_list p))) p (cs_pick (conv c))) as [[h|]|];
    cbn [option_map convc] in Hc; rewrite <- Hc.
  - assert (Hh : (h < length r)%nat).
    { rewrite Hr. pose proof (pclass_in_range (convp p) _ h (eq_sym Hc)) as H.
      unfold convp in H. cbn [ivs] in H. rewrite map_length in H. exact H. }
    cbn [bind]. rewrite (list_upd_upd r h x Hh). cbn [bind]. apply IH. rewrite upd_len. exact Hr.
  - cbn [bind]. rewrite fold_succ_none. reflexivity.
  - cbn [bind]. rewrite fold_succ_none. reflexivity.
Qed.

(* make_successor panics exactly where the model's does (a label whose representative falls in no
   interval of p, which cannot happen for the partition made from the same labels) *)
Lemma link_make_successor s p :
  M_StateInConstruction_make_successor (S (length (CharPartition_list p))) s p
  = make_successor (convs s) (convp p).
Proof.
  unfold M_StateInConstruction_make_successor, StateInConstruction_make_successor, make_successor.
  rewrite link_len. cbn [bind].
  pose proof (link_succ_loop p (StateInConstruction_transitions s) (repeat 0%nat (plen (convp p)))) as H.
  assert (Hlen : length (repeat 0%nat (plen (convp p))) = length (CharPartition_list p)).
  { rewrite repeat_length. unfold plen, convp. cbn [ivs]. apply map_length. }
  specialize (H Hlen).
  change (fold_left _ (s_trans (convs s)) _) with
    (fold_left (succ_f (convp p)) (map convt (StateInConstruction_transitions s)) (Some (repeat 0%nat (length (ivs (convp p)))))).
  unfold plen in *. rewrite <- H.
  destruct (StateInConstruction_make_successor_loop1 _ _ p _) as [[r|r]|]; reflexivity.
Qed.

(* ---- the builder's elementary updates of a state ---- *)
Lemma link_new : option_map convs M_StateInConstruction_new = Some sic_new.
Proof. unfold M_StateInConstruction_new, StateInConstruction_new. reflexivity. Qed.
Lemma link_set_default_successor s j :
  option_map convs (M_StateInConstruction_set_default_successor s j)
  = Some {| s_final := s_final (convs s); s_default := Some j; s_trans := s_trans (convs s) |}.
Proof. rewrite canon_set_default_successor. reflexivity. Qed.
Lemma link_add_transition s c j :
  option_map convs (M_StateInConstruction_add_transition s c j)
  = Some {| s_final := s_final (convs s); s_default := s_default (convs s); s_trans := s_trans (convs s) ++ [(conv c, j)] |}.
Proof.
  rewrite canon_add_transition. unfold convs.
  cbn [option_map StateInConstruction_is_final StateInConstruction_default_successor StateInConstruction_transitions s_final s_default s_trans].
  rewrite map_app. reflexivity.
Qed.

(* ================= AutomatonBuilder::build and build_unchecked: the loop over the states ================= *)
Definition convst (s : State) : astate :=
  {| a_id := State_id s; a_final := State_is_final s; a_classes := convp (State_classes s);
     a_succ := State_successor s; a_default := State_default_successor s |}.
Definition conva (a : Automaton) : automaton :=
  {| num_states := Automaton_num_states a; num_final := Automaton_num_final_states a;
     initial := Automaton_initial_state a; astates := map convst (Automaton_states a) |}.
Definition convb_states (b : AutomatonBuilder) : list sic := map convs (AutomatonBuilder_states b).
Definition conve (e : Error) : option berr :=
  match e with
  | Error_NonDisjointCharSets => Some NonDisjointCharSets
  | Error_EmptyComplementaryClass => Some EmptyComplementaryClass
  | Error_MissingDefaultSuccessor => Some MissingDefaultSuccessor
  | _ => None
  end.

(* the binary search needs at most j - i + 1 rounds: any larger fuel gives the same answer *)
Lemma bs_char_fuel : forall f1 f2 l x i j, (j - i < f1)%nat -> (j - i < f2)%nat ->
  bs_char f1 l x i j = bs_char f2 l x i j.
Proof.
  induction f1 as [|f1 IH]; intros f2 l x i j H1 H2; [lia|].
  destruct f2 as [|f2]; [lia|]. cbn [bs_char].
  destruct (Nat.ltb i j) eqn:Eij; [|reflexivity]. apply Nat.ltb_lt in Eij.
  cbv [bind]. destruct (nth_error l (i + (j - i) / 2)) as [s|]; [|reflexivity].
  destruct (cs_contains s x); [reflexivity|].
  destruct (cs_is_before s x); apply IH; lia.
Qed.
Lemma link_class_of_char_fuel fuel p x : (length (CharPartition_list p) < fuel)%nat ->
  option_map convc (M_CharPartition_class_of_char fuel p x) = pclass_of_char (convp p) x.
Proof.
  intros Hf. destruct p as [l w]. autounfold with rs2v. unfold pclass_of_char, convp, plen, ivs, CharPartition_list in *.
  rewrite map_length. rewrite (bs_char_fuel (S (length l)) fuel) by (rewrite ?map_length; lia).
  rewrite <- link_bs_char. unfold bind.
  destruct (CharPartition_class_of_char_binary_search_loop1 _ l x 0 (length l)) as [[c|[a b]]|]; reflexivity.
Qed.

Lemma link_succ_loop_fuel fuel p : (length (CharPartition_list p) < fuel)%nat ->
  forall l r, length r = length (CharPartition_list p) ->
  succ_res (StateInConstruction_make_successor_loop1 fuel l p r)
  = fold_left (succ_f (convp p)) (map convt l) (Some r).
Proof.
  intros Hf. induction l as [|[c x] l IH]; intros r Hr; [reflexivity|].
  cbn [StateInConstruction_make_successor_loop1 map fold_left]. cbn [fst snd].
  rewrite link_cs_pick. cbn [bind].
  pose proof (link_class_of_char_fuel fuel p (cs_pick (conv c)) Hf) as Hc.
  change (convt (c, x)) with (conv c, x). cbn [succ_f fst snd].
  destruct (M_CharPartition_class_of_char fuel p (cs_pick (conv c))) as [[h|]|];
    cbn [option_map convc] in Hc; rewrite <- Hc.
  - assert (Hh : (h < length r)%nat).
    { rewrite Hr. pose proof (pclass_in_range (convp p) _ h (eq_sym Hc)) as H.
      unfold convp in H. cbn [ivs] in H. rewrite map_length in H. exact H. }
    cbn [bind]. rewrite (list_upd_upd r h x Hh). cbn [bind]. apply IH. rewrite upd_len. exact Hr.
  - cbn [bind]. rewrite fold_succ_none. reflexivity.
  - cbn [bind]. rewrite fold_succ_none. reflexivity.
Qed.

Lemma link_make_successor_fuel fuel s p : (length (CharPartition_list p) < fuel)%nat ->
  M_StateInConstruction_make_successor fuel s p = make_successor (convs s) (convp p).
Proof.
  intros Hf. unfold M_StateInConstruction_make_successor, StateInConstruction_make_successor, make_successor.
  rewrite link_len. cbn [bind].
  pose proof (link_succ_loop_fuel fuel p Hf (StateInConstruction_transitions s) (repeat 0%nat (plen (convp p)))) as H.
  assert (Hlen : length (repeat 0%nat (plen (convp p))) = length (CharPartition_list p)).
  { rewrite repeat_length. unfold plen, convp. cbn [ivs]. apply map_length. }
  specialize (H Hlen).
  change (fold_left _ (s_trans (convs s)) _) with
    (fold_left (succ_f (convp p)) (map convt (StateInConstruction_transitions s)) (Some (repeat 0%nat (length (ivs (convp p)))))).
  unfold plen in *. rewrite <- H.
  destruct (StateInConstruction_make_successor_loop1 _ _ p _) as [[r|r]|]; reflexivity.
Qed.

Lemma link_empty_complement p : M_CharPartition_empty_complement p = Some (pempty_complement (convp p)).
Proof. reflexivity. Qed.

(* sorting keeps the number of intervals: the partition made from k labels has k intervals *)
Lemma insert_len x l : length (insert_by_start x l) = S (length l).
Proof. induction l as [|y l IH]; cbn [insert_by_start length]; [reflexivity|]. destruct (_ <=? _); cbn [length]; lia. Qed.
Lemma sort_len l : length (sort_by_start l) = length l.
Proof. unfold sort_by_start. induction l as [|x l IH]; cbn [fold_right length]; [reflexivity|]. rewrite insert_len, IH. reflexivity. Qed.
Lemma ptry_len l p : ptry_from_list l = Some p -> length (ivs p) = length l.
Proof.
  unfold ptry_from_list. rewrite <- (sort_len l). destruct (sort_by_start l) as [|c0 t].
  - intros H. injection H as <-. reflexivity.
  - destruct (scan_sorted c0 _ t); [|discriminate]. intros H. injection H as <-. reflexivity.
Qed.

(* what the loop needs of one state: the i32 vote counter cannot overflow, the labels are legal sets,
   and the fuel suffices for the class searches in a partition made from (a subset of) its labels *)
Definition state_ok (fuel : nat) (s : StateInConstruction) : Prop :=
  (Z.of_nat (length (StateInConstruction_transitions s)) < 2147483647)%Z /\ labels_valid s /\
  (length (StateInConstruction_transitions s) < fuel)%nat.

Lemma filter_len_le {A} (f : A -> bool) l : (length (filter f l) <= length l)%nat.
Proof. induction l as [|x l IH]; cbn [filter length]; [lia|]. destruct (f x); cbn [length]; lia. Qed.
Lemma remove_spec_len s : (length (StateInConstruction_transitions (remove_spec s)) <= length (StateInConstruction_transitions s))%nat.
Proof.
  unfold remove_spec. destruct (StateInConstruction_default_successor s); [|lia].
  cbn [StateInConstruction_transitions]. apply filter_len_le.
Qed.
Lemma choose_spec_trans s : StateInConstruction_transitions (choose_spec s) = StateInConstruction_transitions s.
Proof.
  unfold choose_spec. destruct (StateInConstruction_default_successor s); [reflexivity|].
  destruct (StateInConstruction_transitions s) as [|[c0 x0] t] eqn:E; [auto|].
  destruct (Nat.leb _ _); [reflexivity|exact E].
Qed.
Lemma remove_spec_valid s : labels_valid s -> labels_valid (remove_spec s).
Proof.
  unfold labels_valid, remove_spec. destruct (StateInConstruction_default_successor s); [|auto].
  cbn [StateInConstruction_transitions]. intros H. rewrite Forall_forall in *. intros c Hc.
  apply in_map_iff in Hc. destruct Hc as [t [<- Ht]]. apply filter_In in Ht. apply H. apply in_map. tauto.
Qed.
Lemma cleaned_ok fuel s : state_ok fuel s -> state_ok fuel (remove_spec (choose_spec s)).
Proof.
  intros (Hs & Hv & Hf). pose proof (remove_spec_len (choose_spec s)) as Hl. rewrite choose_spec_trans in Hl.
  split; [lia|]. split; [|lia]. apply remove_spec_valid. unfold labels_valid. rewrite choose_spec_trans. exact Hv.
Qed.

Definition loop_res (r : option (loopres (AutomatonBuilder * result Automaton Error) (list StateInConstruction * nat * list State))) :
  option (option (berr + (nat * list astate))) :=
  match r with
  | Some (LoopReturn (_, Err e)) => Some (option_map inl (conve e))
  | Some (LoopReturn (_, Ok _)) => Some None              (* the loop never returns Ok *)
  | Some (LoopDone (_, n, sa)) => Some (Some (inr (n, map convst sa)))
  | None => None
  end.
Definition model_res (n : nat) (sa : list astate) (r : option (berr + list astate)) : option (option (berr + (nat * list astate))) :=
  match r with
  | Some (inl e) => Some (Some (inl e))
  | Some (inr sts) => Some (Some (inr ((n + length (filter a_final sts))%nat, sa ++ sts)))
  | None => None
  end.

(* one state, first half: make_partition on legal labels *)
Lemma make_partition_cases s : labels_valid s ->
  (exists p, M_StateInConstruction_make_partition s = Some (Ok p) /\
             ptry_from_list (map fst (s_trans (convs s))) = Some (convp p)) \/
  (M_StateInConstruction_make_partition s = Some (Err Error_NonDisjointCharSets) /\
   ptry_from_list (map fst (s_trans (convs s))) = None).
Proof.
  intros Hv. pose proof (link_make_partition s Hv) as H.
  destruct (M_StateInConstruction_make_partition s) as [[p|[]]|]; cbn [try_res] in H; try discriminate; injection H as H.
  - left. exists p. split; [reflexivity|symmetry; exact H].
  - right. split; [reflexivity|symmetry; exact H].
Qed.

Lemma has_default_convs s :
  has_default (convs s) = match StateInConstruction_default_successor s with Some _ => true | None => false end.
Proof. reflexivity. Qed.

Lemma link_build_loop fuel self : forall l i acc n sa, Forall (state_ok fuel) l ->
  loop_res (AutomatonBuilder_build_loop1 fuel (combine (seq i (length l)) l) self acc n sa)
  = model_res n (map convst sa) (build_states_checked (map convs l) i).
Proof.
  induction l as [|s l IH]; intros i acc n sa Hok.
  - cbn. rewrite Nat.add_0_r, app_nil_r. reflexivity.
  - inversion Hok as [|? ? Hs Hl]; subst. destruct Hs as (Hsmall & Hv & Hf).
    cbn [length seq combine AutomatonBuilder_build_loop1 map build_states_checked].
    destruct (make_partition_cases s Hv) as [(p0 & -> & ->)|(-> & ->)]; [|reflexivity].
    cbn [bind]. rewrite ?link_empty_complement. rewrite has_default_convs.
    (* the two validation checks, in whatever form the source writes them: all four cases of
       (default declared?, complement empty?) *)
    destruct (StateInConstruction_default_successor s) as [d|] eqn:Ed;
      destruct (pempty_complement (convp p0)) eqn:Ep; cbn [bind andb negb orb]; try reflexivity.
    (* the two accepted cases continue in the same way: cleanup, second partition, successors *)
    all: rewrite (canon_cleanup s Hsmall); cbn [bind];
      assert (Hc : convs (remove_spec (choose_spec s)) = cleanup (convs s))
        by (pose proof (link_cleanup s Hsmall) as H; rewrite (canon_cleanup s Hsmall) in H; cbn [option_map] in H; congruence);
      set (s1 := remove_spec (choose_spec s)) in *;
      destruct (cleaned_ok fuel s (conj Hsmall (conj Hv Hf))) as (Hs1 & Hv1 & Hf1); fold s1 in Hs1, Hv1, Hf1;
      rewrite <- Hc;
      (destruct (make_partition_cases s1 Hv1) as [(p & -> & Hp)|(-> & ->)]; [|reflexivity]); rewrite Hp; cbn [bind];
      assert (Hpl : (length (CharPartition_list p) < fuel)%nat)
        by (apply ptry_len in Hp; unfold convp in Hp; cbn [ivs] in Hp; rewrite !map_length in Hp;
            unfold convs in Hp; cbn [s_trans] in Hp; rewrite map_length in Hp; lia);
      rewrite (link_make_successor_fuel fuel s1 p Hpl);
      (destruct (make_successor (convs s1) (convp p)) as [suc|]; [|reflexivity]); cbn [bind];
      destruct (StateInConstruction_is_final s1) eqn:Ef;
      rewrite ?Nat.add_1_r;
      rewrite IH by exact Hl; rewrite map_app; cbn [map];
      (destruct (build_states_checked (map convs l) (S i)) as [[e|sts]|]; cbn [model_res bind]; try reflexivity);
      unfold convst at 2; cbn [a_final filter State_is_final length]; unfold convs at 1; cbn [s_final]; rewrite Ef;
      cbn [length]; rewrite <- app_assoc; cbn [app]; do 4 f_equal; try lia;
      unfold convst, convs; cbn [State_id State_is_final State_classes State_successor State_default_successor s_final s_default];
      rewrite Ef; reflexivity.
Qed.

Lemma bsc_len : forall l i sts, build_states_checked l i = Some (inr sts) -> length sts = length l.
Proof.
  induction l as [|s0 l IH]; intros i sts; cbn [build_states_checked].
  - intros H. injection H as <-. reflexivity.
  - destruct (ptry_from_list (map fst (s_trans s0))) as [p0|]; [|discriminate].
    destruct (has_default s0 && pempty_complement p0); [discriminate|].
    destruct (negb (has_default s0) && negb (pempty_complement p0)); [discriminate|].
    cbv zeta. destruct (ptry_from_list (map fst (s_trans (cleanup s0)))) as [p|]; [|discriminate].
    cbv [bind]. destruct (make_successor (cleanup s0) p) as [suc|]; [|discriminate].
    destruct (build_states_checked l (S i)) as [[e|rest]|] eqn:E; try discriminate.
    intros H. injection H as <-. cbn [length]. f_equal. apply (IH (S i)). exact E.
Qed.

Definition build_res (r : option (AutomatonBuilder * result Automaton Error)) : option bres :=
  match r with
  | Some (_, Ok a) => Some (BOk (conva a))
  | Some (_, Err e) => option_map BErr (conve e)
  | None => None
  end.

(* AutomatonBuilder::build on a builder whose size field counts its states: the model's build (the
   verdict, the error kind, and every field of the automaton), provided every state has legal labels,
   fewer than 2^31 - 1 transitions, and the fuel exceeds the number of transitions of each state *)
Lemma link_build fuel b : AutomatonBuilder_size b = length (AutomatonBuilder_states b) ->
  Forall (state_ok fuel) (AutomatonBuilder_states b) ->
  build_res (M_AutomatonBuilder_build fuel b) = build {| id_map := []; bstates := convb_states b |}.
Proof.
  intros Hsz Hok. unfold M_AutomatonBuilder_build, AutomatonBuilder_build, build, enumerate, convb_states. cbn [bstates].
  pose proof (link_build_loop fuel b (AutomatonBuilder_states b) 0%nat [] 0%nat [] Hok) as H. cbn [map app] in H.
  destruct (AutomatonBuilder_build_loop1 fuel _ b [] 0%nat []) as [[[b' [a|e]]|[[acc n] sa]]|]; cbn [loop_res] in H; cbn [bind];
    destruct (build_states_checked _ 0) as [[e'|sts]|] eqn:E; cbn [model_res] in H; try discriminate;
    try (destruct (conve e) as [be|] eqn:Ee; cbn [option_map] in H; try discriminate).
  - cbn [build_res option_map bind]. rewrite Ee. cbn [option_map]. congruence.
  - cbn [app Nat.add] in H. assert (Hn : n = length (filter a_final sts)) by congruence.
    assert (Hsa : map convst sa = sts) by congruence.
    cbn [build_res bind]. f_equal. f_equal. unfold conva.
    cbn [Automaton_num_states Automaton_num_final_states Automaton_initial_state Automaton_states].
    rewrite Hsa. apply bsc_len in E. rewrite map_length in E. rewrite E, Hsz, Hn. reflexivity.
  - reflexivity.
Qed.

(* ---- build_unchecked ---- *)
Definition bu_res (r : option (loopres (AutomatonBuilder * Automaton) (list StateInConstruction * nat * list State))) :
  option (option (nat * list astate)) :=
  match r with
  | Some (LoopDone (_, n, sa)) => Some (Some (n, map convst sa))
  | Some (LoopReturn _) => Some None                       (* the loop has no return *)
  | None => None
  end.
Definition bu_model (n : nat) (sa : list astate) (r : option (list astate)) : option (option (nat * list astate)) :=
  match r with
  | Some sts => Some (Some ((n + length (filter a_final sts))%nat, sa ++ sts))
  | None => None
  end.

Lemma link_bu_loop fuel : forall l i acc n sa, Forall (state_ok fuel) l ->
  bu_res (AutomatonBuilder_build_unchecked_loop1 fuel (combine (seq i (length l)) l) acc n sa)
  = bu_model n (map convst sa) (build_states (map convs l) i).
Proof.
  induction l as [|s l IH]; intros i acc n sa Hok.
  - cbn. rewrite Nat.add_0_r, app_nil_r. reflexivity.
  - inversion Hok as [|? ? Hs Hl]; subst. destruct Hs as (Hsmall & Hv & Hf).
    cbn [length seq combine AutomatonBuilder_build_unchecked_loop1 map build_states].
    rewrite (canon_cleanup s Hsmall). cbn [bind].
    assert (Hc : convs (remove_spec (choose_spec s)) = cleanup (convs s)).
    { pose proof (link_cleanup s Hsmall) as H. rewrite (canon_cleanup s Hsmall) in H. cbn [option_map] in H. congruence. }
    set (s1 := remove_spec (choose_spec s)) in *.
    destruct (cleaned_ok fuel s (conj Hsmall (conj Hv Hf))) as (Hs1 & Hv1 & Hf1). fold s1 in Hs1, Hv1, Hf1.
    rewrite <- Hc.
    destruct (make_partition_cases s1 Hv1) as [(p & -> & Hp)|(-> & ->)]; [|reflexivity]. rewrite Hp. cbn [bind].
    assert (Hpl : (length (CharPartition_list p) < fuel)%nat).
    { apply ptry_len in Hp. unfold convp in Hp. cbn [ivs] in Hp. rewrite !map_length in Hp.
      unfold convs in Hp. cbn [s_trans] in Hp. rewrite map_length in Hp. lia. }
    rewrite (link_make_successor_fuel fuel s1 p Hpl).
    destruct (make_successor (convs s1) (convp p)) as [suc|]; [|destruct (build_states (map convs l) (S i)); reflexivity].
    cbn [bind].
    destruct (StateInConstruction_is_final s1) eqn:Ef.
    + rewrite IH by exact Hl. rewrite map_app. cbn [map].
      destruct (build_states (map convs l) (S i)) as [sts|]; cbn [bu_model]; [|reflexivity].
      unfold convst at 2. cbn [a_final filter State_is_final length]. unfold convs at 1. cbn [s_final]. rewrite Ef.
      cbn [length]. rewrite <- app_assoc. cbn [app]. do 3 f_equal; [lia|].
      unfold convst, convs. cbn [State_id State_is_final State_classes State_successor State_default_successor s_final s_default].
      rewrite Ef. reflexivity.
    + rewrite IH by exact Hl. rewrite map_app. cbn [map].
      destruct (build_states (map convs l) (S i)) as [sts|]; cbn [bu_model]; [|reflexivity].
      unfold convst at 2. cbn [a_final filter State_is_final length]. unfold convs at 1. cbn [s_final]. rewrite Ef.
      rewrite <- app_assoc. cbn [app]. do 3 f_equal.
      unfold convst, convs. cbn [State_id State_is_final State_classes State_successor State_default_successor s_final s_default].
      rewrite Ef. reflexivity.
Qed.

Lemma bs_len : forall l i sts, build_states l i = Some sts -> length sts = length l.
Proof.
  induction l as [|s0 l IH]; intros i sts; cbn [build_states].
  - intros H. injection H as <-. reflexivity.
  - cbv zeta. destruct (ptry_from_list (map fst (s_trans (cleanup s0)))) as [p|]; [|discriminate].
    destruct (make_successor (cleanup s0) p) as [suc|]; [|discriminate].
    destruct (build_states l (S i)) as [rest|] eqn:E; [|discriminate].
    intros H. injection H as <-. cbn [length]. f_equal. apply (IH (S i)). exact E.
Qed.

(* build_unchecked panics exactly where the model's does (overlapping labels after cleanup, a label
   outside every interval) and otherwise returns the model's automaton *)
Lemma link_build_unchecked fuel b : AutomatonBuilder_size b = length (AutomatonBuilder_states b) ->
  Forall (state_ok fuel) (AutomatonBuilder_states b) ->
  option_map (fun r => conva (snd r)) (M_AutomatonBuilder_build_unchecked fuel b)
  = build_unchecked {| id_map := []; bstates := convb_states b |}.
Proof.
  intros Hsz Hok. unfold M_AutomatonBuilder_build_unchecked, AutomatonBuilder_build_unchecked, build_unchecked, enumerate, convb_states.
  cbn [bstates].
  pose proof (link_bu_loop fuel (AutomatonBuilder_states b) 0%nat [] 0%nat [] Hok) as H. cbn [map app] in H.
  destruct (AutomatonBuilder_build_unchecked_loop1 fuel _ [] 0%nat []) as [[x|[[acc n] sa]]|]; cbn [bu_res] in H; cbn [bind];
    destruct (build_states _ 0) as [sts|] eqn:E; cbn [bu_model] in H; try discriminate.
  - cbn [app Nat.add] in H. assert (Hn : n = length (filter a_final sts)) by congruence.
    assert (Hsa : map convst sa = sts) by congruence.
    cbn [option_map snd]. f_equal. unfold conva.
    cbn [Automaton_num_states Automaton_num_final_states Automaton_initial_state Automaton_states].
    rewrite Hsa. apply bs_len in E. rewrite map_length in E. rewrite E, Hsz, Hn. reflexivity.
  - reflexivity.
Qed.
