(* GenPropsStrSearch.v -- the C06 theorems transported to naive_search and the string functions
   regenerated from /repo/src (SVG.StrSearchGen).  [w s] is the vector of an SmtString; fuel
   arguments are lower bounds (any larger fuel gives the same result). *)
Require Import Base GenBase StrSearch StrSearchProofs.
From SVG Require Import StrSearchGen GenLinkStrSearch.
Open Scope Z_scope.

Lemma g_naive_search_least fuel p s k : (search_fuel p s <= fuel)%nat ->
  exists res, M_fn_naive_search fuel p s k = Some res /\
    match res with
    | SearchResult_Found i j => (k <= i)%nat /\ j = (i + length p)%nat /\ occurs_at p s i /\
                    forall i', (k <= i')%nat -> occurs_at p s i' -> (i <= i')%nat
    | SearchResult_NotFound => forall i', (k <= i')%nat -> ~ occurs_at p s i'
    end.
Proof.
  intros Hf. destruct (naive_search_least p s k) as [res [E P]].
  pose proof (link_naive_search fuel p s k Hf) as L. rewrite E in L.
  destruct (M_fn_naive_search fuel p s k) as [r|]; [|discriminate L].
  exists r. split; [reflexivity|]. cbn [option_map] in L. injection L as L. subst res.
  destruct r; exact P.
Qed.

Lemma g_concat s1 s2 :
  (zlen (w s1 ++ w s2) <= MAX_LENGTH -> option_map w (M_fn_str_concat s1 s2) = Some (w s1 ++ w s2)) /\
  (zlen (w s1 ++ w s2) > MAX_LENGTH -> M_fn_str_concat s1 s2 = None).
Proof.
  destruct (concat_spec (w s1) (w s2)) as [A [B _]]. rewrite <- link_str_concat in A, B.
  split; [exact A|]. intros H. specialize (B H). destruct (M_fn_str_concat s1 s2); [discriminate B | reflexivity].
Qed.

Lemma g_len s : wfw (w s) -> M_fn_str_len s = Some (Z.of_nat (length (w s))).
Proof. intros H. rewrite link_str_len, (len_spec _ H). reflexivity. Qed.

Lemma g_at s n : wfw (w s) -> goodw (w s) -> exists r, option_map w (M_fn_str_at s n) = Some r /\ At (w s) n r.
Proof. intros H G. rewrite link_str_at. apply at_spec; assumption. Qed.

Lemma g_substr s m n : wfw (w s) -> i32 n ->
  exists r, option_map w (M_fn_str_substr s m n) = Some r /\ Substr (w s) m n r.
Proof. intros H G. rewrite link_str_substr. apply substr_spec; assumption. Qed.

Lemma g_prefixof fuel s1 s2 : (length (w s1) < fuel)%nat ->
  exists b, M_fn_str_prefixof fuel s1 s2 = Some b /\ (b = true <-> exists x, w s2 = w s1 ++ x).
Proof. intros Hf. rewrite (link_str_prefixof fuel s1 s2 Hf). apply prefixof_spec. Qed.

Lemma g_suffixof fuel s1 s2 : (length (w s1) < fuel)%nat ->
  exists b, M_fn_str_suffixof fuel s1 s2 = Some b /\ (b = true <-> exists x, w s2 = x ++ w s1).
Proof. intros Hf. rewrite (link_str_suffixof fuel s1 s2 Hf). apply suffixof_spec. Qed.

Lemma g_contains fuel s1 s2 : (search_fuel (w s2) (w s1) <= fuel)%nat ->
  exists b, M_fn_str_contains fuel s1 s2 = Some b /\ (b = true <-> exists x y, w s1 = x ++ w s2 ++ y).
Proof. intros Hf. rewrite (link_str_contains fuel s1 s2 Hf). apply contains_spec. Qed.

Lemma g_indexof fuel s1 s2 i : (search_fuel (w s2) (w s1) <= fuel)%nat -> wfw (w s1) ->
  exists n, M_fn_str_indexof fuel s1 s2 i = Some n /\ IndexOf (w s1) (w s2) i n.
Proof. intros Hf H. rewrite (link_str_indexof fuel s1 s2 i Hf). apply indexof_spec. exact H. Qed.

Lemma g_replace fuel s p r : (search_fuel (w p) (w s) <= fuel)%nat ->
  exists x, Replace (w s) (w p) (w r) x /\ option_map w (M_fn_str_replace fuel s p r) = smt_make x.
Proof. intros Hf. rewrite (link_str_replace fuel s p r Hf). apply replace_spec. Qed.

Lemma g_replace_all fuel s p r : (replace_all_fuel (w s) (w p) <= fuel)%nat ->
  exists x, ReplaceAll (w s) (w p) (w r) x /\ option_map w (M_fn_str_replace_all fuel s p r) = smt_make x.
Proof. intros Hf. rewrite (link_str_replace_all fuel s p r Hf). apply replace_all_spec. Qed.

Example g_example :
  option_map convsr (M_fn_naive_search 9 [98; 97]%N [97; 98; 97; 98; 97]%N 0) = Some (SFound 1 3) /\
  M_fn_str_indexof 9 (SmtString_mk [97; 98; 99]%N) (SmtString_mk []) 3 = Some 3 /\
  M_fn_str_prefixof 3 (SmtString_mk [97; 98]%N) (SmtString_mk [97; 98; 99]%N) = Some true.
Proof. repeat split; vm_compute; reflexivity. Qed.
