(* C02g -- the automaton read side: the regenerated translation of State / Automaton (class_next, next, str_next, accepts) and StateMapping::from_array is the model's a_next / a_str_next / a_accepts on well-formed automata.
   Statements only; every proof is [exact <lemma>].  The statements are about the definitions that
   gen/rs2v.py regenerates from /repo/src on every run (namespace SVG; M_f is the monadic view of
   the Rust function f: None = f panics).  Written by bin/mkgenprops from the lemma statements. *)
Require Import Base GenBase.
Require Import CharSet Partition Automaton AutomatonProofs.
From SVG Require Import AutomatonGen GenLinkAutomaton GenPropsAutomaton.
Open Scope N_scope.

(* ---- the translated functions are the model's functions (convst / conva read generated states and automata as model ones) ---- *)

Theorem C02g_link_cs_contains :
  forall (s : CharSet) (x : N), M_CharSet_contains s x = Some (cs_contains (conv s) x).
Proof. exact link_cs_contains. Qed.
Print Assumptions C02g_link_cs_contains.

Theorem C02g_link_cs_is_before :
  forall (s : CharSet) (x : N), M_CharSet_is_before s x = Some (cs_is_before (conv s) x).
Proof. exact link_cs_is_before. Qed.
Print Assumptions C02g_link_cs_is_before.

Theorem C02g_link_bs_char :
  forall (fuel : nat) (l : list CharSet) (x : N) (i j : nat),
       char_res (CharPartition_class_of_char_binary_search_loop1 fuel l x i j) =
       bs_char fuel (map conv l) x i j.
Proof. exact link_bs_char. Qed.
Print Assumptions C02g_link_bs_char.

Theorem C02g_link_class_of_char :
  forall (fuel : nat) (p : CharPartition) (x : N),
       (length (CharPartition_list p) < fuel)%nat ->
       option_map convc (M_CharPartition_class_of_char fuel p x) = pclass_of_char (convp p) x.
Proof. exact link_class_of_char. Qed.
Print Assumptions C02g_link_class_of_char.

Theorem C02g_link_state_id :
  forall s : State, M_State_id_fn s = Some (a_id (convst s)).
Proof. exact link_state_id. Qed.
Print Assumptions C02g_link_state_id.

Theorem C02g_link_state_is_final :
  forall s : State, M_State_is_final_fn s = Some (a_final (convst s)).
Proof. exact link_state_is_final. Qed.
Print Assumptions C02g_link_state_is_final.

Theorem C02g_link_num_successors :
  forall s : State, M_State_num_successors s = Some (s_num_successors (convst s)).
Proof. exact link_num_successors. Qed.
Print Assumptions C02g_link_num_successors.

Theorem C02g_link_has_default_successor :
  forall s : State,
       M_State_has_default_successor s = Some (s_has_default_successor (convst s)).
Proof. exact link_has_default_successor. Qed.
Print Assumptions C02g_link_has_default_successor.

Theorem C02g_link_state_default_successor :
  forall s : State, M_State_default_successor_fn s = Some (s_default_successor (convst s)).
Proof. exact link_state_default_successor. Qed.
Print Assumptions C02g_link_state_default_successor.

Theorem C02g_link_state_valid_class_id :
  forall (s : State) (c : ClassId),
       M_State_valid_class_id s c = Some (s_valid_class_id (convst s) (convc c)).
Proof. exact link_state_valid_class_id. Qed.
Print Assumptions C02g_link_state_valid_class_id.

Theorem C02g_link_state_class_of_char :
  forall (fuel : nat) (s : State) (x : N),
       (length (CharPartition_list (State_classes s)) < fuel)%nat ->
       option_map convc (M_State_class_of_char fuel s x) = pclass_of_char (a_classes (convst s)) x.
Proof. exact link_state_class_of_char. Qed.
Print Assumptions C02g_link_state_class_of_char.

Theorem C02g_link_char_maps_to_default :
  forall (fuel : nat) (s : State) (x : N),
       (length (CharPartition_list (State_classes s)) < fuel)%nat ->
       M_State_char_maps_to_default fuel s x = s_char_maps_to_default (convst s) x.
Proof. exact link_char_maps_to_default. Qed.
Print Assumptions C02g_link_char_maps_to_default.

Theorem C02g_link_state :
  forall (a : Automaton) (i : nat),
       option_map convst (M_Automaton_state a i) = a_state_at (conva a) i.
Proof. exact link_state. Qed.
Print Assumptions C02g_link_state.

Theorem C02g_link_initial_state :
  forall a : Automaton,
       option_map convst (M_Automaton_initial_state_fn a) = a_initial_state (conva a).
Proof. exact link_initial_state. Qed.
Print Assumptions C02g_link_initial_state.

Theorem C02g_link_num_states :
  forall a : Automaton, M_Automaton_num_states_fn a = Some (a_num_states (conva a)).
Proof. exact link_num_states. Qed.
Print Assumptions C02g_link_num_states.

Theorem C02g_link_num_final_states :
  forall a : Automaton,
       M_Automaton_num_final_states_fn a = Some (a_num_final_states (conva a)).
Proof. exact link_num_final_states. Qed.
Print Assumptions C02g_link_num_final_states.

Theorem C02g_link_default_successor :
  forall (a : Automaton) (s : State),
       option_map (option_map convst) (M_Automaton_default_successor a s) =
       a_default_successor (conva a) (convst s).
Proof. exact link_default_successor. Qed.
Print Assumptions C02g_link_default_successor.

Theorem C02g_link_class_next :
  forall (a : Automaton) (s : State) (c : ClassId),
       option_map convst (M_Automaton_class_next a s c) =
       a_class_next (conva a) (convst s) (convc c).
Proof. exact link_class_next. Qed.
Print Assumptions C02g_link_class_next.

Theorem C02g_link_next :
  forall (fuel : nat) (a : Automaton) (s : State) (c : N),
       (length (CharPartition_list (State_classes s)) < fuel)%nat ->
       option_map convst (M_Automaton_next fuel a s c) = a_next_state (conva a) (convst s) c.
Proof. exact link_next. Qed.
Print Assumptions C02g_link_next.

Theorem C02g_link_fold_next :
  forall (fuel : nat) (a : Automaton),
       fuel_ok fuel a ->
       forall (w : list N) (s : State),
       (length (CharPartition_list (State_classes s)) < fuel)%nat ->
       option_map convst (fold_m (fun (s1 : State) (c : N) => M_Automaton_next fuel a s1 c) w s) =
       str_next_state (conva a) (convst s) w.
Proof. exact link_fold_next. Qed.
Print Assumptions C02g_link_fold_next.

Theorem C02g_link_str_next :
  forall (fuel : nat) (a : Automaton) (s : State) (w : SmtString),
       fuel_ok fuel a ->
       (length (CharPartition_list (State_classes s)) < fuel)%nat ->
       option_map convst (M_Automaton_str_next fuel a s w) =
       str_next_state (conva a) (convst s) (SmtString_s w).
Proof. exact link_str_next. Qed.
Print Assumptions C02g_link_str_next.

Theorem C02g_link_accepts :
  forall (fuel : nat) (a : Automaton) (w : SmtString),
       fuel_ok fuel a ->
       M_Automaton_accepts fuel a w =
       (do s0 <- a_initial_state (conva a);
        option_map a_final (str_next_state (conva a) s0 (SmtString_s w))).
Proof. exact link_accepts. Qed.
Print Assumptions C02g_link_accepts.

Theorem C02g_link_edges :
  forall (a : Automaton) (s : State),
       M_Automaton_edges a s =
       Some
         {|
           EdgeIterator_state_array := Automaton_states a;
           EdgeIterator_state := s;
           EdgeIterator_index := 0
         |}.
Proof. exact link_edges. Qed.
Print Assumptions C02g_link_edges.

Theorem C02g_link_final_states :
  forall a : Automaton,
       M_Automaton_final_states a =
       Some
         {| FinalStateIterator_state_array := Automaton_states a; FinalStateIterator_index := 0 |}.
Proof. exact link_final_states. Qed.
Print Assumptions C02g_link_final_states.

Theorem C02g_link_num_new_states :
  forall m : StateMapping,
       M_StateMapping_num_new_states m = Some (length (StateMapping_old_id m)).
Proof. exact link_num_new_states. Qed.
Print Assumptions C02g_link_num_new_states.

Theorem C02g_link_is_class_rep :
  forall (m : StateMapping) (i : nat),
       M_StateMapping_is_class_rep m i =
       (do n <- nth_error (StateMapping_new_id m) i;
        do o <- nth_error (StateMapping_old_id m) n; Some (o =? i)%nat).
Proof. exact link_is_class_rep. Qed.
Print Assumptions C02g_link_is_class_rep.

Theorem C02g_link_from_array_loop :
  forall (n : nat) (keep : list nat) (b : nat) (done new_id : list nat),
       Forall (fun x : nat => (x < n)%nat) keep ->
       length new_id = n ->
       length done = b ->
       map_res
         (StateMapping_from_array_loop1 (combine (seq b (length keep)) keep) new_id
            (done ++ repeat 0%nat (length keep))) =
       Some
         (fold_left (fun (acc : list nat) (ix : nat * nat) => upd acc (snd ix) (fst ix))
            (combine (seq b (length keep)) keep) new_id, done ++ keep).
Proof. exact link_from_array_loop. Qed.
Print Assumptions C02g_link_from_array_loop.

Theorem C02g_link_from_array :
  forall (n : nat) (keep : list nat),
       Forall (fun x : nat => (x < n)%nat) keep ->
       M_StateMapping_from_array n keep =
       Some
         {|
           StateMapping_new_id :=
             fold_left (fun (acc : list nat) (ix : nat * nat) => upd acc (snd ix) (fst ix))
               (combine (seq 0 (length keep)) keep) (repeat 0%nat n);
           StateMapping_old_id := keep
         |}.
Proof. exact link_from_array. Qed.
Print Assumptions C02g_link_from_array.

Theorem C02g_link_edges_drain :
  forall (a : Automaton) (s : State) (fuel : nat),
       length (State_successor s) = length (CharPartition_list (State_classes s)) ->
       (length (State_successor s) + 2 <= fuel)%nat ->
       (do it <- M_Automaton_edges a s; drain_edges fuel it) =
       map_m (edge_target (Automaton_states a))
         (combine
            (map ClassId_Interval (seq 0 (length (State_successor s))) ++ [ClassId_Complement])
            (edges (convst s))).
Proof. exact link_edges_drain. Qed.
Print Assumptions C02g_link_edges_drain.

Theorem C02g_link_final_states_drain :
  forall (a : Automaton) (fuel : nat),
       (length (Automaton_states a) + 1 <= fuel)%nat ->
       option_map (map convst) (do it <- M_Automaton_final_states a; drain_finals fuel it) =
       Some (a_final_states (conva a)).
Proof. exact link_final_states_drain. Qed.
Print Assumptions C02g_link_final_states_drain.

(* ---- next / accepts of a well-formed automaton on the translated code ---- *)

Theorem C02g_str_next_wf :
  forall a : automaton,
       aut_wf a ->
       forall (w : list N) (i : nat),
       (i < num_states a)%nat ->
       str_next_state a (a_state a i) w = option_map (a_state a) (a_str_next a i w).
Proof. exact g_str_next_wf. Qed.
Print Assumptions C02g_str_next_wf.

Theorem C02g_accepts :
  forall (fuel : nat) (A : Automaton) (w : SmtString),
       fuel_ok fuel A ->
       aut_wf (conva A) -> M_Automaton_accepts fuel A w = a_accepts (conva A) (SmtString_s w).
Proof. exact g_accepts. Qed.
Print Assumptions C02g_accepts.

Theorem C02g_next_id :
  forall (fuel : nat) (A : Automaton) (s : State) (c : N),
       (length (CharPartition_list (State_classes s)) < fuel)%nat ->
       option_map State_id (M_Automaton_next fuel A s c) = a_next_id_s (conva A) (convst s) c.
Proof. exact g_next_id. Qed.
Print Assumptions C02g_next_id.

Theorem C02g_next_total :
  forall (fuel : nat) (A : Automaton) (i : nat) (s : State) (c : N),
       fuel_ok fuel A ->
       aut_wf (conva A) ->
       nth_error (Automaton_states A) i = Some s ->
       good c ->
       exists s' : State, M_Automaton_next fuel A s c = Some s' /\ In s' (Automaton_states A).
Proof. exact g_next_total. Qed.
Print Assumptions C02g_next_total.

Theorem C02g_example :
  let p :=
         {|
           CharPartition_list := [{| CharSet_start := 97; CharSet_end := 97 |}];
           CharPartition_comp_witness := 0
         |} in
       let all := {| CharPartition_list := []; CharPartition_comp_witness := 0 |} in
       let A :=
         {|
           Automaton_num_states := 3;
           Automaton_num_final_states := 1;
           Automaton_initial_state := 0;
           Automaton_states :=
             [{|
                State_id := 0;
                State_is_final := false;
                State_classes := p;
                State_successor := [1%nat];
                State_default_successor := Some 2%nat
              |};
              {|
                State_id := 1;
                State_is_final := true;
                State_classes := all;
                State_successor := [];
                State_default_successor := Some 1%nat
              |};
              {|
                State_id := 2;
                State_is_final := false;
                State_classes := all;
                State_successor := [];
                State_default_successor := Some 2%nat
              |}]
         |} in
       M_Automaton_accepts 5 A {| SmtString_s := [97; 98] |} = Some true /\
       M_Automaton_accepts 5 A {| SmtString_s := [98; 97] |} = Some false /\
       M_Automaton_accepts 5 A {| SmtString_s := [] |} = Some false.
Proof. exact g_example. Qed.
Print Assumptions C02g_example.

Theorem C02g_edges_total :
  forall (fuel : nat) (A : Automaton) (i : nat) (s : State),
       aut_wf (conva A) ->
       nth_error (Automaton_states A) i = Some s ->
       (length (State_successor s) + 2 <= fuel)%nat ->
       exists l : list (ClassId * State),
         (do it <- M_Automaton_edges A s; drain_edges fuel it) = Some l /\
         map (fun e : ClassId * State => State_id (snd e)) l =
         map (fun j : nat => State_id (nth j (Automaton_states A) s)) (edges (convst s)) /\
         length l = length (edges (convst s)).
Proof. exact g_edges_total. Qed.
Print Assumptions C02g_edges_total.

Theorem C02g_example_iterators :
  let p :=
         {|
           CharPartition_list := [{| CharSet_start := 97; CharSet_end := 97 |}];
           CharPartition_comp_witness := 0
         |} in
       let all := {| CharPartition_list := []; CharPartition_comp_witness := 0 |} in
       let A :=
         {|
           Automaton_num_states := 3;
           Automaton_num_final_states := 1;
           Automaton_initial_state := 0;
           Automaton_states :=
             [{|
                State_id := 0;
                State_is_final := false;
                State_classes := p;
                State_successor := [1%nat];
                State_default_successor := Some 2%nat
              |};
              {|
                State_id := 1;
                State_is_final := true;
                State_classes := all;
                State_successor := [];
                State_default_successor := Some 1%nat
              |};
              {|
                State_id := 2;
                State_is_final := false;
                State_classes := all;
                State_successor := [];
                State_default_successor := Some 2%nat
              |}]
         |} in
       option_map (map (fun e : ClassId * State => (fst e, State_id (snd e))))
         (drain_edges 5
            (Automaton_edges A
               {|
                 State_id := 0;
                 State_is_final := false;
                 State_classes := p;
                 State_successor := [1%nat];
                 State_default_successor := Some 2%nat
               |})) = Some [(ClassId_Interval 0, 1%nat); (ClassId_Complement, 2%nat)] /\
       option_map (map State_id) (drain_finals 5 (Automaton_final_states A)) = Some [1%nat].
Proof. exact g_example_iterators. Qed.
Print Assumptions C02g_example_iterators.
