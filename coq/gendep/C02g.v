(* C02g -- the automaton read side: the regenerated translation of State / Automaton (class_next, next, str_next, accepts) and StateMapping::from_array is the model's a_next / a_str_next / a_accepts on well-formed automata.
   Statements only; every proof is [exact <lemma>].  The statements are about the definitions that
   gen/rs2v.py regenerates from /repo/src on every run (namespace SVG; M_f is the monadic view of
   the Rust function f: None = f panics).  Written by bin/mkgenprops from the lemma statements. *)
Require Import Base GenBase.
Require Import CharSet Partition Automaton AutomatonProofs.
From SVG Require Import AutomatonGen GenLinkAutomaton GenPropsAutomaton.
Open Scope N_scope.

(* ---- the translated functions are the model's functions (convst / conva read generated states and automata as model ones) ---- *)

Theorem C02g_link_cs_contains :
  forall (s : CharSet) (x : N), M_CharSet_contains s x = Some (cs_contains (conv s) x).
Proof. exact link_cs_contains. Qed.
Print Assumptions C02g_link_cs_contains.

Theorem C02g_link_cs_is_before :
  forall (s : CharSet) (x : N), M_CharSet_is_before s x = Some (cs_is_before (conv s) x).
Proof. exact link_cs_is_before. Qed.
Print Assumptions C02g_link_cs_is_before.

Theorem C02g_link_new :
  option_map convp M_CharPartition_new = Some pnew.
Proof. exact link_new. Qed.
Print Assumptions C02g_link_new.

Theorem C02g_link_push :
  forall (p : CharPartition) (a b : N),
       b <= MAX_CHAR -> option_map convp (M_CharPartition_push p a b) = Some (ppush (convp p) a b).
Proof. exact link_push. Qed.
Print Assumptions C02g_link_push.

Theorem C02g_link_len :
  forall p : CharPartition, M_CharPartition_len p = Some (plen (convp p)).
Proof. exact link_len. Qed.
Print Assumptions C02g_link_len.

Theorem C02g_link_get :
  forall (p : CharPartition) (i : nat), M_CharPartition_get p i = Some (pget (convp p) i).
Proof. exact link_get. Qed.
Print Assumptions C02g_link_get.

Theorem C02g_link_start :
  forall (p : CharPartition) (i : nat), M_CharPartition_start p i = Some (pstart (convp p) i).
Proof. exact link_start. Qed.
Print Assumptions C02g_link_start.

Theorem C02g_link_end :
  forall (p : CharPartition) (i : nat), M_CharPartition_end p i = Some (pend (convp p) i).
Proof. exact link_end. Qed.
Print Assumptions C02g_link_end.

Theorem C02g_link_empty_complement :
  forall p : CharPartition,
       M_CharPartition_empty_complement p = Some (pempty_complement (convp p)).
Proof. exact link_empty_complement. Qed.
Print Assumptions C02g_link_empty_complement.

Theorem C02g_link_valid_class_id :
  forall (p : CharPartition) (c : ClassId),
       M_CharPartition_valid_class_id p c = Some (pvalid (convp p) (convc c)).
Proof. exact link_valid_class_id. Qed.
Print Assumptions C02g_link_valid_class_id.

Theorem C02g_link_bs_char :
  forall (fuel : nat) (l : list CharSet) (x : N) (i j : nat),
       char_res (CharPartition_class_of_char_binary_search_loop1 fuel l x i j) =
       bs_char fuel (map conv l) x i j.
Proof. exact link_bs_char. Qed.
Print Assumptions C02g_link_bs_char.

Theorem C02g_link_class_of_char :
  forall (p : CharPartition) (x : N),
       option_map convc (M_CharPartition_class_of_char (S (length (CharPartition_list p))) p x) =
       pclass_of_char (convp p) x.
Proof. exact link_class_of_char. Qed.
Print Assumptions C02g_link_class_of_char.

Theorem C02g_link_bs_cover :
  forall (fuel : nat) (l : list CharSet) (x : N) (i j : nat),
       cover_res (CharPartition_interval_cover_binary_search_loop1 fuel l x i j) =
       bs_cover fuel (map conv l) x i j.
Proof. exact link_bs_cover. Qed.
Print Assumptions C02g_link_bs_cover.

Theorem C02g_link_interval_cover :
  forall (p : CharPartition) (s : CharSet),
       option_map convr (M_CharPartition_interval_cover (S (length (CharPartition_list p))) p s) =
       pinterval_cover (convp p) (conv s).
Proof. exact link_interval_cover. Qed.
Print Assumptions C02g_link_interval_cover.

Theorem C02g_link_class_of_set :
  forall (p : CharPartition) (s : CharSet),
       option_map convres (M_CharPartition_class_of_set (S (length (CharPartition_list p))) p s) =
       pclass_of_set (convp p) (conv s).
Proof. exact link_class_of_set. Qed.
Print Assumptions C02g_link_class_of_set.

Theorem C02g_link_class_of_set_err :
  forall (fuel : nat) (p : CharPartition) (s : CharSet) (e : Error),
       M_CharPartition_class_of_set fuel p s = Some (Err e) -> e = Error_AmbiguousCharSet.
Proof. exact link_class_of_set_err. Qed.
Print Assumptions C02g_link_class_of_set_err.

Theorem C02g_link_next_interval :
  forall (p : CharPartition) (i : nat),
       M_fn_merge_partitions_next_interval p i =
       Some (S i, fst (pget (convp p) i), snd (pget (convp p) i)).
Proof. exact link_next_interval. Qed.
Print Assumptions C02g_link_next_interval.

Theorem C02g_link_merge_loop :
  forall (fuel : nat) (p1 p2 : CharPartition),
       bounded p1 ->
       bounded p2 ->
       forall (res : CharPartition) (i : nat) (a b : N) (j : nat) (c d : N),
       a <= SENT ->
       b <= SENT ->
       c <= SENT ->
       d <= SENT ->
       merge_res (fn_merge_partitions_loop1 fuel p1 p2 (i, a, b) (j, c, d) res) =
       merge_loop fuel (convp p1) (convp p2) i a b j c d (convp res).
Proof. exact link_merge_loop. Qed.
Print Assumptions C02g_link_merge_loop.

Theorem C02g_link_merge_partitions :
  forall p1 p2 : CharPartition,
       bounded p1 ->
       bounded p2 ->
       option_map convp (M_fn_merge_partitions (merge_fuel (convp p1) (convp p2)) p1 p2) =
       pmerge_opt (convp p1) (convp p2).
Proof. exact link_merge_partitions. Qed.
Print Assumptions C02g_link_merge_partitions.

Theorem C02g_link_class_of_char_fuel :
  forall (fuel : nat) (p : CharPartition) (x : N),
       (length (CharPartition_list p) < fuel)%nat ->
       option_map convc (M_CharPartition_class_of_char fuel p x) = pclass_of_char (convp p) x.
Proof. exact link_class_of_char_fuel. Qed.
Print Assumptions C02g_link_class_of_char_fuel.

Theorem C02g_link_state_id :
  forall s : State, M_State_id_fn s = Some (a_id (convst s)).
Proof. exact link_state_id. Qed.
Print Assumptions C02g_link_state_id.

Theorem C02g_link_state_is_final :
  forall s : State, M_State_is_final_fn s = Some (a_final (convst s)).
Proof. exact link_state_is_final. Qed.
Print Assumptions C02g_link_state_is_final.

Theorem C02g_link_num_successors :
  forall s : State, M_State_num_successors s = Some (s_num_successors (convst s)).
Proof. exact link_num_successors. Qed.
Print Assumptions C02g_link_num_successors.

Theorem C02g_link_has_default_successor :
  forall s : State,
       M_State_has_default_successor s = Some (s_has_default_successor (convst s)).
Proof. exact link_has_default_successor. Qed.
Print Assumptions C02g_link_has_default_successor.

Theorem C02g_link_state_default_successor :
  forall s : State, M_State_default_successor_fn s = Some (s_default_successor (convst s)).
Proof. exact link_state_default_successor. Qed.
Print Assumptions C02g_link_state_default_successor.

Theorem C02g_link_state_valid_class_id :
  forall (s : State) (c : ClassId),
       M_State_valid_class_id s c = Some (s_valid_class_id (convst s) (convc c)).
Proof. exact link_state_valid_class_id. Qed.
Print Assumptions C02g_link_state_valid_class_id.

Theorem C02g_link_state_class_of_char :
  forall (fuel : nat) (s : State) (x : N),
       (length (CharPartition_list (State_classes s)) < fuel)%nat ->
       option_map convc (M_State_class_of_char fuel s x) = pclass_of_char (a_classes (convst s)) x.
Proof. exact link_state_class_of_char. Qed.
Print Assumptions C02g_link_state_class_of_char.

Theorem C02g_link_char_maps_to_default :
  forall (fuel : nat) (s : State) (x : N),
       (length (CharPartition_list (State_classes s)) < fuel)%nat ->
       M_State_char_maps_to_default fuel s x = s_char_maps_to_default (convst s) x.
Proof. exact link_char_maps_to_default. Qed.
Print Assumptions C02g_link_char_maps_to_default.

Theorem C02g_link_state :
  forall (a : Automaton) (i : nat),
       option_map convst (M_Automaton_state a i) = a_state_at (conva a) i.
Proof. exact link_state. Qed.
Print Assumptions C02g_link_state.

Theorem C02g_link_initial_state :
  forall a : Automaton,
       option_map convst (M_Automaton_initial_state_fn a) = a_initial_state (conva a).
Proof. exact link_initial_state. Qed.
Print Assumptions C02g_link_initial_state.

Theorem C02g_link_num_states :
  forall a : Automaton, M_Automaton_num_states_fn a = Some (a_num_states (conva a)).
Proof. exact link_num_states. Qed.
Print Assumptions C02g_link_num_states.

Theorem C02g_link_num_final_states :
  forall a : Automaton,
       M_Automaton_num_final_states_fn a = Some (a_num_final_states (conva a)).
Proof. exact link_num_final_states. Qed.
Print Assumptions C02g_link_num_final_states.

Theorem C02g_link_default_successor :
  forall (a : Automaton) (s : State),
       option_map (option_map convst) (M_Automaton_default_successor a s) =
       a_default_successor (conva a) (convst s).
Proof. exact link_default_successor. Qed.
Print Assumptions C02g_link_default_successor.

Theorem C02g_link_class_next :
  forall (a : Automaton) (s : State) (c : ClassId),
       option_map convst (M_Automaton_class_next a s c) =
       a_class_next (conva a) (convst s) (convc c).
Proof. exact link_class_next. Qed.
Print Assumptions C02g_link_class_next.

Theorem C02g_link_next :
  forall (fuel : nat) (a : Automaton) (s : State) (c : N),
       (length (CharPartition_list (State_classes s)) < fuel)%nat ->
       option_map convst (M_Automaton_next fuel a s c) = a_next_state (conva a) (convst s) c.
Proof. exact link_next. Qed.
Print Assumptions C02g_link_next.

Theorem C02g_link_fold_next :
  forall (fuel : nat) (a : Automaton),
       fuel_ok fuel a ->
       forall (w : list N) (s : State),
       (length (CharPartition_list (State_classes s)) < fuel)%nat ->
       option_map convst (fold_m (fun (s1 : State) (c : N) => M_Automaton_next fuel a s1 c) w s) =
       str_next_state (conva a) (convst s) w.
Proof. exact link_fold_next. Qed.
Print Assumptions C02g_link_fold_next.

Theorem C02g_link_str_next :
  forall (fuel : nat) (a : Automaton) (s : State) (w : SmtString),
       fuel_ok fuel a ->
       (length (CharPartition_list (State_classes s)) < fuel)%nat ->
       option_map convst (M_Automaton_str_next fuel a s w) =
       str_next_state (conva a) (convst s) (SmtString_s w).
Proof. exact link_str_next. Qed.
Print Assumptions C02g_link_str_next.

Theorem C02g_link_accepts :
  forall (fuel : nat) (a : Automaton) (w : SmtString),
       fuel_ok fuel a ->
       M_Automaton_accepts fuel a w =
       (do s0 <- a_initial_state (conva a);
        option_map a_final (str_next_state (conva a) s0 (SmtString_s w))).
Proof. exact link_accepts. Qed.
Print Assumptions C02g_link_accepts.

Theorem C02g_link_edges :
  forall (a : Automaton) (s : State),
       M_Automaton_edges a s =
       Some
         {|
           EdgeIterator_state_array := Automaton_states a;
           EdgeIterator_state := s;
           EdgeIterator_index := 0
         |}.
Proof. exact link_edges. Qed.
Print Assumptions C02g_link_edges.

Theorem C02g_link_final_states :
  forall a : Automaton,
       M_Automaton_final_states a =
       Some
         {| FinalStateIterator_state_array := Automaton_states a; FinalStateIterator_index := 0 |}.
Proof. exact link_final_states. Qed.
Print Assumptions C02g_link_final_states.

Theorem C02g_link_num_new_states :
  forall m : StateMapping,
       M_StateMapping_num_new_states m = Some (length (StateMapping_old_id m)).
Proof. exact link_num_new_states. Qed.
Print Assumptions C02g_link_num_new_states.

Theorem C02g_link_is_class_rep :
  forall (m : StateMapping) (i : nat),
       M_StateMapping_is_class_rep m i =
       (do n <- nth_error (StateMapping_new_id m) i;
        do o <- nth_error (StateMapping_old_id m) n; Some (o =? i)%nat).
Proof. exact link_is_class_rep. Qed.
Print Assumptions C02g_link_is_class_rep.

Theorem C02g_link_from_array_loop :
  forall (n : nat) (keep : list nat) (b : nat) (done new_id : list nat),
       Forall (fun x : nat => (x < n)%nat) keep ->
       length new_id = n ->
       length done = b ->
       map_res
         (StateMapping_from_array_loop1 (combine (seq b (length keep)) keep) new_id
            (done ++ repeat 0%nat (length keep))) =
       Some
         (fold_left (fun (acc : list nat) (ix : nat * nat) => upd acc (snd ix) (fst ix))
            (combine (seq b (length keep)) keep) new_id, done ++ keep).
Proof. exact link_from_array_loop. Qed.
Print Assumptions C02g_link_from_array_loop.

Theorem C02g_link_from_array :
  forall (n : nat) (keep : list nat),
       Forall (fun x : nat => (x < n)%nat) keep ->
       M_StateMapping_from_array n keep =
       Some
         {|
           StateMapping_new_id :=
             fold_left (fun (acc : list nat) (ix : nat * nat) => upd acc (snd ix) (fst ix))
               (combine (seq 0 (length keep)) keep) (repeat 0%nat n);
           StateMapping_old_id := keep
         |}.
Proof. exact link_from_array. Qed.
Print Assumptions C02g_link_from_array.

Theorem C02g_link_edges_drain :
  forall (a : Automaton) (s : State) (fuel : nat),
       length (State_successor s) = length (CharPartition_list (State_classes s)) ->
       (length (State_successor s) + 2 <= fuel)%nat ->
       (do it <- M_Automaton_edges a s; drain_edges fuel it) =
       map_m (edge_target (Automaton_states a))
         (combine
            (map ClassId_Interval (seq 0 (length (State_successor s))) ++ [ClassId_Complement])
            (edges (convst s))).
Proof. exact link_edges_drain. Qed.
Print Assumptions C02g_link_edges_drain.

Theorem C02g_link_final_states_drain :
  forall (a : Automaton) (fuel : nat),
       (length (Automaton_states a) + 1 <= fuel)%nat ->
       option_map (map convst) (do it <- M_Automaton_final_states a; drain_finals fuel it) =
       Some (a_final_states (conva a)).
Proof. exact link_final_states_drain. Qed.
Print Assumptions C02g_link_final_states_drain.

Theorem C02g_link_interval_cover_fuel :
  forall (fuel : nat) (p : CharPartition) (s : CharSet),
       (length (CharPartition_list p) < fuel)%nat ->
       option_map convr (M_CharPartition_interval_cover fuel p s) =
       pinterval_cover (convp p) (conv s).
Proof. exact link_interval_cover_fuel. Qed.
Print Assumptions C02g_link_interval_cover_fuel.

Theorem C02g_link_class_of_set_fuel :
  forall (fuel : nat) (p : CharPartition) (s : CharSet),
       (length (CharPartition_list p) < fuel)%nat ->
       option_map convres (M_CharPartition_class_of_set fuel p s) =
       pclass_of_set (convp p) (conv s).
Proof. exact link_class_of_set_fuel. Qed.
Print Assumptions C02g_link_class_of_set_fuel.

Theorem C02g_link_char_set_next :
  forall (fuel : nat) (a : Automaton) (s : State) (set : CharSet),
       (length (CharPartition_list (State_classes s)) < fuel)%nat ->
       cs_next_res (M_Automaton_char_set_next fuel a s set) =
       a_char_set_next (conva a) (convst s) (conv set).
Proof. exact link_char_set_next. Qed.
Print Assumptions C02g_link_char_set_next.

Theorem C02g_link_merge_fuel :
  forall (fuel : nat) (p1 p2 : CharPartition),
       gwf p1 ->
       gwf p2 ->
       (merge_fuel (convp p1) (convp p2) <= fuel)%nat ->
       option_map convp (M_fn_merge_partitions fuel p1 p2) = Some (pmerge (convp p1) (convp p2)).
Proof. exact link_merge_fuel. Qed.
Print Assumptions C02g_link_merge_fuel.

Theorem C02g_link_merge_list_loop :
  forall (fuel : nat) (l : list CharPartition) (acc : CharPartition),
       gwf acc ->
       Forall gwf l ->
       list_fuel_ok fuel l (convp acc) ->
       list_res (fn_merge_partition_list_loop1 fuel l acc) =
       Some (fold_left pmerge (map convp l) (convp acc)).
Proof. exact link_merge_list_loop. Qed.
Print Assumptions C02g_link_merge_list_loop.

Theorem C02g_link_merge_partition_list :
  forall (fuel : nat) (l : list CharPartition),
       Forall gwf l ->
       list_fuel_ok fuel l pnew ->
       option_map convp (M_fn_merge_partition_list fuel l) = Some (pmerge_list (map convp l)).
Proof. exact link_merge_partition_list. Qed.
Print Assumptions C02g_link_merge_partition_list.

Theorem C02g_link_combined_char_partition :
  forall (fuel : nat) (a : Automaton),
       Forall (fun s : State => gwf (State_classes s)) (Automaton_states a) ->
       list_fuel_ok fuel (map State_classes (Automaton_states a)) pnew ->
       option_map convp (M_Automaton_combined_char_partition fuel a) =
       Some (combined_partition (conva a)).
Proof. exact link_combined_char_partition. Qed.
Print Assumptions C02g_link_combined_char_partition.

(* ---- next / accepts of a well-formed automaton on the translated code ---- *)

Theorem C02g_str_next_wf :
  forall a : automaton,
       aut_wf a ->
       forall (w : list N) (i : nat),
       (i < num_states a)%nat ->
       str_next_state a (a_state a i) w = option_map (a_state a) (a_str_next a i w).
Proof. exact g_str_next_wf. Qed.
Print Assumptions C02g_str_next_wf.

Theorem C02g_accepts :
  forall (fuel : nat) (A : Automaton) (w : SmtString),
       fuel_ok fuel A ->
       aut_wf (conva A) -> M_Automaton_accepts fuel A w = a_accepts (conva A) (SmtString_s w).
Proof. exact g_accepts. Qed.
Print Assumptions C02g_accepts.

Theorem C02g_next_id :
  forall (fuel : nat) (A : Automaton) (s : State) (c : N),
       (length (CharPartition_list (State_classes s)) < fuel)%nat ->
       option_map State_id (M_Automaton_next fuel A s c) = a_next_id_s (conva A) (convst s) c.
Proof. exact g_next_id. Qed.
Print Assumptions C02g_next_id.

Theorem C02g_next_total :
  forall (fuel : nat) (A : Automaton) (i : nat) (s : State) (c : N),
       fuel_ok fuel A ->
       aut_wf (conva A) ->
       nth_error (Automaton_states A) i = Some s ->
       good c ->
       exists s' : State, M_Automaton_next fuel A s c = Some s' /\ In s' (Automaton_states A).
Proof. exact g_next_total. Qed.
Print Assumptions C02g_next_total.

Theorem C02g_example :
  let p :=
         {|
           CharPartition_list := [{| CharSet_start := 97; CharSet_end := 97 |}];
           CharPartition_comp_witness := 0
         |} in
       let all := {| CharPartition_list := []; CharPartition_comp_witness := 0 |} in
       let A :=
         {|
           Automaton_num_states := 3;
           Automaton_num_final_states := 1;
           Automaton_initial_state := 0;
           Automaton_states :=
             [{|
                State_id := 0;
                State_is_final := false;
                State_classes := p;
                State_successor := [1%nat];
                State_default_successor := Some 2%nat
              |};
              {|
                State_id := 1;
                State_is_final := true;
                State_classes := all;
                State_successor := [];
                State_default_successor := Some 1%nat
              |};
              {|
                State_id := 2;
                State_is_final := false;
                State_classes := all;
                State_successor := [];
                State_default_successor := Some 2%nat
              |}]
         |} in
       M_Automaton_accepts 5 A {| SmtString_s := [97; 98] |} = Some true /\
       M_Automaton_accepts 5 A {| SmtString_s := [98; 97] |} = Some false /\
       M_Automaton_accepts 5 A {| SmtString_s := [] |} = Some false.
Proof. exact g_example. Qed.
Print Assumptions C02g_example.

Theorem C02g_edges_total :
  forall (fuel : nat) (A : Automaton) (i : nat) (s : State),
       aut_wf (conva A) ->
       nth_error (Automaton_states A) i = Some s ->
       (length (State_successor s) + 2 <= fuel)%nat ->
       exists l : list (ClassId * State),
         (do it <- M_Automaton_edges A s; drain_edges fuel it) = Some l /\
         map (fun e : ClassId * State => State_id (snd e)) l =
         map (fun j : nat => State_id (nth j (Automaton_states A) s)) (edges (convst s)) /\
         length l = length (edges (convst s)).
Proof. exact g_edges_total. Qed.
Print Assumptions C02g_edges_total.

Theorem C02g_example_iterators :
  let p :=
         {|
           CharPartition_list := [{| CharSet_start := 97; CharSet_end := 97 |}];
           CharPartition_comp_witness := 0
         |} in
       let all := {| CharPartition_list := []; CharPartition_comp_witness := 0 |} in
       let A :=
         {|
           Automaton_num_states := 3;
           Automaton_num_final_states := 1;
           Automaton_initial_state := 0;
           Automaton_states :=
             [{|
                State_id := 0;
                State_is_final := false;
                State_classes := p;
                State_successor := [1%nat];
                State_default_successor := Some 2%nat
              |};
              {|
                State_id := 1;
                State_is_final := true;
                State_classes := all;
                State_successor := [];
                State_default_successor := Some 1%nat
              |};
              {|
                State_id := 2;
                State_is_final := false;
                State_classes := all;
                State_successor := [];
                State_default_successor := Some 2%nat
              |}]
         |} in
       option_map (map (fun e : ClassId * State => (fst e, State_id (snd e))))
         (drain_edges 5
            (Automaton_edges A
               {|
                 State_id := 0;
                 State_is_final := false;
                 State_classes := p;
                 State_successor := [1%nat];
                 State_default_successor := Some 2%nat
               |})) = Some [(ClassId_Interval 0, 1%nat); (ClassId_Complement, 2%nat)] /\
       option_map (map State_id) (drain_finals 5 (Automaton_final_states A)) = Some [1%nat].
Proof. exact g_example_iterators. Qed.
Print Assumptions C02g_example_iterators.
