(* C19g -- bfs_queues.rs (instance BfsQueue<usize>): the regenerated translation hands out every element at most once, in first-push order, for every history of push / pop.
   Statements only; every proof is [exact <lemma>].  The statements are about the definitions that
   gen/rs2v.py regenerates from /repo/src on every run (namespace SVG; M_f is the monadic view of
   the Rust function f: None = f panics).  Written by bin/mkgenprops from the lemma statements. *)
Require Import Base GenBase.
From SVG Require Import BfsQueueGen GenLinkBfsQueue GenPropsBfsQueue.
Open Scope N_scope.

(* ---- the queue discipline (qinv q pushed popped: popped ++ queue = first occurrences of pushed) ---- *)

Theorem C19g_new :
  exists q : BfsQueue, M_BfsQueue_new = Some q /\ qinv q [] [].
Proof. exact g_new. Qed.
Print Assumptions C19g_new.

Theorem C19g_push :
  forall (q : BfsQueue) (pushed popped : list nat) (x : nat),
       qinv q pushed popped ->
       exists q' : BfsQueue,
         M_BfsQueue_push q x = Some (q', negb (existsb (Nat.eqb x) pushed)) /\
         qinv q' (pushed ++ [x]) popped.
Proof. exact g_push. Qed.
Print Assumptions C19g_push.

Theorem C19g_pop :
  forall (q : BfsQueue) (pushed popped : list nat),
       qinv q pushed popped ->
       exists q' : BfsQueue,
         M_BfsQueue_pop q = Some (q', nth_error (first_occ pushed) (length popped)) /\
         qinv q' pushed
           (popped ++
            match nth_error (first_occ pushed) (length popped) with
            | Some y => [y]
            | None => []
            end).
Proof. exact g_pop. Qed.
Print Assumptions C19g_pop.

Theorem C19g_is_empty :
  forall (q : BfsQueue) (pushed popped : list nat),
       qinv q pushed popped ->
       M_BfsQueue_is_empty q = Some (length popped =? length (first_occ pushed))%nat.
Proof. exact g_is_empty. Qed.
Print Assumptions C19g_is_empty.

Theorem C19g_history :
  forall ops : list qop,
       exists (q : BfsQueue) (answers : list bool) (out : list nat),
         fold_left qstep ops (option_map (fun q0 : BfsQueue => (q0, [], [])) M_BfsQueue_new) =
         Some (q, answers, out) /\
         out ++ BfsQueue_queue q = first_occ (pushes ops) /\
         NoDup (out ++ BfsQueue_queue q) /\ (forall x : nat, In x out -> In x (pushes ops)).
Proof. exact g_history. Qed.
Print Assumptions C19g_history.

Theorem C19g_example :
  option_map
         (fun r : BfsQueue * list bool * list nat =>
          (snd (fst r), snd r, BfsQueue_queue (fst (fst r))))
         (fold_left qstep [Push 3; Push 5; Push 3; Pop; Push 7; Push 5; Pop; Pop; Pop; Push 3]
            (option_map (fun q : BfsQueue => (q, [], [])) M_BfsQueue_new)) =
       Some ([true; true; false; true; false; false], [3%nat; 5%nat; 7%nat], []).
Proof. exact g_example. Qed.
Print Assumptions C19g_example.
