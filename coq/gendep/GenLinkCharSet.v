(* GenLinkCharSet.v -- the CharSet functions regenerated from /repo/src/character_sets.rs (and the
   constant MAX_CHAR from smt_strings.rs) on every run coincide with the hand-written model
   CharSet.v, about which the C20 theorems are proved.  Statements are about the monadic views M_f
   (None = the Rust function panics). *)
Require Import Base GenBase CharSet.
From SVG Require Import CharSetGen.
Require Import ZifyBool ZifyN.
Open Scope N_scope.

Definition conv (s : CharSet) : cs := (CharSet_start s, CharSet_end s).
Definition unconv (s : cs) : CharSet := CharSet_mk (fst s) (snd s).
Lemma conv_unconv s : conv (unconv s) = s.            Proof. destruct s; reflexivity. Qed.
Lemma unconv_conv s : unconv (conv s) = s.            Proof. destruct s; reflexivity. Qed.
Lemma conv_inj s o : conv s = conv o -> s = o.
Proof. destruct s as [a b], o as [c d]. cbv [conv CharSet_start CharSet_end]. congruence. Qed.

Definition pord_of (c : option comparison) : pord :=
  match c with Some Eq => OrdEq | Some Lt => OrdLt | Some Gt => OrdGt | None => OrdNone end.

Ltac gunfold :=
  autounfold with rs2v in *;
  cbv [conv unconv option_map bind pord_of fst snd CharSet_start CharSet_end
       u32_add u32_mul u32_sub U32MAX
       cs_singleton cs_range cs_all cs_contains cs_covers cs_is_before cs_is_after cs_size
       cs_is_singleton cs_is_alphabet cs_pick cs_inter cs_union cs_eqb cs_pcmp sub32 add32 MAXC
       orb andb negb] in *.

Ltac gcases :=
  repeat match goal with
         | |- context [match ?x with _ => _ end] =>
             lazymatch x with
             | context [match _ with _ => _ end] => fail
             | _ => first [ is_var x; destruct x | destruct x eqn:? ]
             end
         end.

(* comparisons that are results rather than scrutinees *)
Ltac gbools :=
  repeat match goal with
         | |- context [N.leb ?a ?b] => destruct (N.leb a b) eqn:?
         | |- context [N.ltb ?a ?b] => destruct (N.ltb a b) eqn:?
         | |- context [N.eqb ?a ?b] => destruct (N.eqb a b) eqn:?
         end.

(* equal up to arithmetic under constructors *)
Ltac ctor_eq :=
  repeat match goal with
         | |- ?x = ?x => reflexivity
         | |- @eq N _ _ => lia
         | |- ?f ?a = ?f ?b => apply (f_equal f)
         | |- ?f ?a ?c = ?f ?b ?d => apply (f_equal2 f)
         end.

Ltac gfinish :=
  first [ reflexivity | congruence | (exfalso; lia) | solve [ctor_eq] ].

Ltac glink := intros; repeat match goal with s : CharSet |- _ => destruct s as [? ?] end;
              gunfold; gcases; gbools; gfinish.

Lemma link_MAX_CHAR : MAX_CHAR = MAXC.                                                   Proof. reflexivity. Qed.
Lemma link_singleton x : option_map conv (M_CharSet_singleton x) = Some (cs_singleton x).   Proof. glink. Qed.
Lemma link_range x y : option_map conv (M_CharSet_range x y) = Some (cs_range x y).         Proof. glink. Qed.
Lemma link_all_chars : option_map conv M_CharSet_all_chars = Some cs_all.                   Proof. glink. Qed.
Lemma link_contains s x : M_CharSet_contains s x = Some (cs_contains (conv s) x).        Proof. glink. Qed.
Lemma link_covers s o : M_CharSet_covers s o = Some (cs_covers (conv s) (conv o)).       Proof. glink. Qed.
Lemma link_is_before s x : M_CharSet_is_before s x = Some (cs_is_before (conv s) x).     Proof. glink. Qed.
Lemma link_is_after s x : M_CharSet_is_after s x = Some (cs_is_after (conv s) x).        Proof. glink. Qed.
Lemma link_size s : M_CharSet_size s = cs_size (conv s).                                 Proof. glink. Qed.
Lemma link_is_singleton s : M_CharSet_is_singleton s = Some (cs_is_singleton (conv s)).  Proof. glink. Qed.
Lemma link_is_alphabet s : M_CharSet_is_alphabet s = Some (cs_is_alphabet (conv s)).     Proof. glink. Qed.
Lemma link_pick s : M_CharSet_pick s = Some (cs_pick (conv s)).                          Proof. glink. Qed.
Lemma link_eqb s o : CharSet_eqb s o = cs_eqb (conv s) (conv o).                         Proof. glink. Qed.
Lemma link_inter s o :
  option_map (option_map conv) (M_CharSet_inter s o) = Some (cs_inter (conv s) (conv o)).
Proof. glink. Qed.
Lemma link_union s o :
  option_map (option_map conv) (M_CharSet_union s o) = cs_union (conv s) (conv o).
Proof. glink. Qed.
Lemma link_partial_cmp s o :
  option_map pord_of (M_CharSet_partial_cmp s o) = Some (cs_pcmp (conv s) (conv o)).
Proof. glink. Qed.

(* inter_list: the for loop is a fixpoint over the remaining slice.  The loop body is linked through
   the link lemma of inter (not through its text), so a rewrite of inter that keeps link_inter keeps this *)
Lemma link_inter_cases s o :
  (exists q, M_CharSet_inter s o = Some (Some q) /\ cs_inter (conv s) (conv o) = Some (conv q)) \/
  (M_CharSet_inter s o = Some None /\ cs_inter (conv s) (conv o) = None).
Proof.
  pose proof (link_inter s o) as H.
  destruct (M_CharSet_inter s o) as [[q|]|]; cbn [option_map] in H; try discriminate H.
  - left. exists q. split; [reflexivity | congruence].
  - right. split; [reflexivity | congruence].
Qed.

Lemma link_inter_fold l : forall r,
  match CharSet_inter_list_loop1 l r with
  | Some (LoopReturn x) => x = None /\ cs_inter_fold (conv r) (map conv l) = None
  | Some (LoopDone q) => cs_inter_fold (conv r) (map conv l) = Some (conv q)
  | None => False
  end.
Proof.
  induction l as [|s l IH]; intros r; cbn [CharSet_inter_list_loop1 map cs_inter_fold]; [reflexivity|].
  destruct (link_inter_cases r s) as [[q [H1 H2]]|[H1 H2]]; rewrite H1, H2; cbn [bind].
  - apply IH.
  - split; reflexivity.
Qed.

Lemma link_inter_list a :
  option_map (option_map conv) (M_CharSet_inter_list a) = Some (cs_inter_list (map conv a)).
Proof.
  unfold M_CharSet_inter_list, CharSet_inter_list, cs_inter_list.
  destruct a as [|s t]; [reflexivity|].
  cbn [nth_error bind map length Nat.leb skipn].
  pose proof (link_inter_fold t s) as H.
  destruct (CharSet_inter_list_loop1 t s) as [[x|q]|]; cbn [bind option_map].
  - destruct H as [-> H]. rewrite H. reflexivity.
  - rewrite H. reflexivity.
  - contradiction.
Qed.
