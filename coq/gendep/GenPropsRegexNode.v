(* GenPropsRegexNode.v -- consequences of the links for the per-node attribute computations of
   regular_expressions.rs regenerated on every run (SVG.RegexNodeGen): on a well-formed term the
   recomputed nullable flag and derivative classes are the cached ones, and the flag is exact. *)
Require Import Base GenBase CharSet Partition PartitionSpec PartitionProofs MergeProofs LoopRange Regex Sem SemProofs.
From SVG Require Import RegexNodeGen GenLinkRegexNode.
Open Scope N_scope.

(* is_nullable recomputes the cached flag of a well-formed term (what ReManager::make stores) *)
Lemma g_is_nullable_cached e : wf_term (conv_re e) -> M_BaseRegLan_is_nullable (RE_expr e) = Some (RE_nullable e).
Proof.
  intros Hwf. rewrite link_is_nullable, <- rnode_conv, <- (wf_nul _ Hwf), rnul_conv. reflexivity.
Qed.

(* C01 "is_nullable per AST node": the node-level test is true exactly when the empty string is in
   the language of the term *)
Lemma g_is_nullable_exact e : wf_term (conv_re e) ->
  (M_BaseRegLan_is_nullable (RE_expr e) = Some true <-> L (conv_re e) []).
Proof.
  intros Hwf. rewrite (g_is_nullable_cached e Hwf), <- rnul_conv, <- (nullable_correct _ Hwf).
  split; congruence.
Qed.

(* deriv_class recomputes the cached derivative classes of a well-formed term *)
Lemma g_deriv_class_cached fuel e : wf_term (conv_re e) -> node_ok fuel (RE_expr e) ->
  option_map convp (M_BaseRegLan_deriv_class fuel (RE_expr e)) = Some (convp (RE_deriv_class e)).
Proof.
  intros Hwf Hok. rewrite (link_deriv_class fuel _ Hok), <- rnode_conv, <- (wf_cls _ Hwf), rcls_conv. reflexivity.
Qed.

(* non-vacuity: (a|b)c with cached attributes, recomputed *)
Example g_example :
  let pa := CharPartition_mk [CharSet_mk 97 97] 0 in
  let pb := CharPartition_mk [CharSet_mk 98 98] 0 in
  let pc := CharPartition_mk [CharSet_mk 99 99] 0 in
  let a := RE_mk (BaseRegLan_Range (CharSet_mk 97 97)) 4 false true true pa in
  let b := RE_mk (BaseRegLan_Range (CharSet_mk 98 98)) 6 false true true pb in
  let c := RE_mk (BaseRegLan_Range (CharSet_mk 99 99)) 8 false true true pc in
  let u := BaseRegLan_Union [a; b] in
  M_BaseRegLan_is_nullable u = Some false /\
  option_map (fun p => (CharPartition_list p, CharPartition_comp_witness p)) (M_BaseRegLan_deriv_class 20 u)
    = Some ([CharSet_mk 97 97; CharSet_mk 98 98], 0) /\
  node_ok 20 u.
Proof.
  cbv zeta. split; [vm_compute; reflexivity|]. split; [vm_compute; reflexivity|].
  cbn [node_ok fold_ok RE_deriv_class]. unfold gwf.
  repeat match goal with
         | |- pwf _ => apply pwfb_iff; vm_compute; reflexivity
         | |- True => exact I
         | |- (_ <= _)%nat => vm_compute; repeat constructor
         | |- _ /\ _ => split
         end.
Qed.

(* the term that HashConsed::make builds for a key is well formed at its root: its cached flag and
   classes are the recomputed ones (the node-level clause of wf_term) *)
Lemma g_make_root_wf fuel i k e : node_ok fuel k -> M_RE_make fuel i k = Some e ->
  rnul (conv_re e) = k_nullable (rnode (conv_re e)) /\ rcls (conv_re e) = k_class (rnode (conv_re e)) /\
  rid (conv_re e) = N.of_nat i /\ rnode (conv_re e) = conv_base k.
Proof.
  intros Hok He. pose proof (link_make fuel i k Hok) as H. rewrite He in H. cbn [option_map] in H.
  injection H as H. rewrite H. unfold mk_node. cbn [rnul rcls rid rnode]. repeat split; reflexivity.
Qed.

(* C07 "RE equality / ordering / hashing by id": == is equality of ids, the order is the order of ids,
   partial_cmp is Some(cmp), and cmp answers Equal exactly where == holds *)
Lemma g_re_eq_iff a b : M_RE_eq a b = Some true <-> RE_id a = RE_id b.
Proof. rewrite canon_re_eq. split; [intros H; injection H as H; apply Nat.eqb_eq; exact H|intros ->; rewrite Nat.eqb_refl; reflexivity]. Qed.
Lemma g_re_cmp_eq a b : M_RE_cmp a b = Some Eq <-> M_RE_eq a b = Some true.
Proof.
  rewrite canon_re_cmp, canon_re_eq. split; intros H; injection H as H; f_equal.
  - apply Nat.compare_eq in H. rewrite H. apply Nat.eqb_refl.
  - apply Nat.eqb_eq in H. rewrite H. apply Nat.compare_refl.
Qed.
Lemma g_re_partial_cmp a b : M_RE_partial_cmp a b = option_map Some (M_RE_cmp a b).
Proof. rewrite canon_re_partial_cmp, canon_re_cmp. reflexivity. Qed.
Lemma g_re_cmp_lt a b : M_RE_cmp a b = Some Lt <-> (RE_id a < RE_id b)%nat.
Proof. rewrite canon_re_cmp. split; [intros H; injection H as H; apply Nat.compare_lt_iff; exact H|intros H; f_equal; apply Nat.compare_lt_iff; exact H]. Qed.

(* contains (the membership test of the smart constructors): never panics; a positive answer exhibits an element with
   the id of x; on a list whose ids increase strictly the answer is exact *)
Require Constructors ConstructorProofs.
Lemma g_contains_total v x : exists b, M_fn_contains v x = Some b.
Proof. rewrite link_contains. eauto. Qed.
Lemma g_contains_true v x : M_fn_contains v x = Some true -> exists y, In y v /\ RE_id y = RE_id x.
Proof.
  rewrite link_contains. intros H. injection H as H. apply ConstructorProofs.contains_true in H as (y & Hy & E).
  apply in_map_iff in Hy as (y0 & <- & Hy0). exists y0. split; [exact Hy0|]. rewrite !rid_conv in E. lia.
Qed.
Fixpoint ids_increase (lo : option nat) (v : list RE) : Prop :=
  match v with
  | [] => True
  | y :: t => match lo with Some i => (i < RE_id y)%nat | None => True end /\ ids_increase (Some (RE_id y)) t
  end.
Lemma contains_sorted_exact : forall v lo x, ids_increase lo v ->
  (Constructors.contains (map conv_re v) (conv_re x) = true <-> exists y, In y v /\ RE_id y = RE_id x).
Proof.
  induction v as [|y v IH]; intros lo x Hs.
  - cbn. split; [discriminate | intros (y & [] & _)].
  - destruct Hs as [_ Hs]. cbn [map Constructors.contains]. unfold re_eqb. rewrite !rid_conv.
    destruct (N.of_nat (RE_id y) =? N.of_nat (RE_id x)) eqn:E.
    + split; [intros _; exists y; split; [left; reflexivity | lia] | reflexivity].
    + destruct (N.of_nat (RE_id x) <? N.of_nat (RE_id y)) eqn:E2.
      * split; [discriminate|]. intros (z & [<-|Hz] & Ez); [exfalso; lia|]. exfalso.
        assert (G : forall t lo', ids_increase (Some lo') t -> forall z', In z' t -> (lo' < RE_id z')%nat).
        { induction t as [|a t IHt]; intros lo' Ht z' Hz'; [destruct Hz'|]. destruct Ht as [Ha Ht].
          destruct Hz' as [<-|Hz']; [exact Ha|]. specialize (IHt _ Ht z' Hz'). lia. }
        specialize (G v (RE_id y) Hs z Hz). lia.
      * rewrite (IH (Some (RE_id y)) x Hs). split.
        -- intros (z & Hz & Ez). exists z. split; [right; exact Hz | exact Ez].
        -- intros (z & [<-|Hz] & Ez); [exfalso; lia|]. exists z. split; assumption.
Qed.
Lemma g_contains_sorted v x : ids_increase None v ->
  (M_fn_contains v x = Some true <-> exists y, In y v /\ RE_id y = RE_id x).
Proof.
  intros Hs. rewrite link_contains, <- (contains_sorted_exact v None x Hs). split; [intros H; injection H as H; exact H | intros ->; reflexivity].
Qed.
Lemma g_is_atomic k : M_BaseRegLan_is_atomic k = Some true <->
  match k with BaseRegLan_Empty | BaseRegLan_Epsilon | BaseRegLan_Range _ => True | _ => False end.
Proof. destruct k; cbn; split; intros H; try exact I; try discriminate H; try destruct H; reflexivity. Qed.
