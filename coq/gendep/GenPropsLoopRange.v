(* GenPropsLoopRange.v -- the C15 theorems transported to the definitions regenerated from
   /repo/src/loop_ranges.rs (SVG.LoopRangeGen), through their monadic views M_f (None = panic).
   [conv] reads a generated LoopRange value as the model's range; the members / validity of a
   generated value are those of its reading. *)
Require Import Base GenBase LoopRange LoopRangeProofs.
From SVG Require Import LoopRangeGen GenLinkLoopRange.
Open Scope N_scope.

Definition ginr (n : N) (r : LoopRange) : Prop := inr n (conv r).
Definition gvalid (r : LoopRange) : Prop := lr_valid (conv r).

Lemma some_inj {A} (a b : A) : Some a = Some b -> a = b.          Proof. congruence. Qed.
Lemma some_iff {A} (a b : A) : Some a = Some b <-> a = b.         Proof. split; congruence. Qed.
Lemma omap_some {A B} (f : A -> B) x y t : option_map f x = y -> x = Some t -> y = Some (f t).
Proof. intros <- ->. reflexivity. Qed.
Lemma omap_none {A B} (f : A -> B) x y : option_map f x = y -> (x = None <-> y = None).
Proof. intros <-. destruct x; cbn; split; congruence. Qed.
Lemma ex_conv (P : lr -> Prop) : (exists t, P t) <-> (exists t, P (conv t)).
Proof.
  split; intros [t H].
  - exists (unconv t). rewrite conv_unconv. exact H.
  - exists (conv t). exact H.
Qed.

Lemma g_contains r i : M_LoopRange_contains r i = Some true <-> ginr i r.
Proof. rewrite link_contains, some_iff. apply contains_iff. Qed.

Lemma g_contains_total r i : exists b, M_LoopRange_contains r i = Some b.
Proof. rewrite link_contains. eauto. Qed.

Lemma g_includes r o : gvalid o -> (M_LoopRange_includes r o = Some true <-> forall n, ginr n o -> ginr n r).
Proof. intros Ho. rewrite link_includes, some_iff. apply includes_iff. exact Ho. Qed.

Lemma g_add_sumset r s t : gvalid r -> gvalid s -> M_LoopRange_add r s = Some t ->
  forall n, ginr n t <-> exists x y, ginr x r /\ ginr y s /\ n = x + y.
Proof. intros Hr Hs H. apply (add_sumset (conv r) (conv s)); auto. exact (omap_some _ _ _ _ (link_add r s) H). Qed.

Lemma g_add_valid r s t : gvalid r -> gvalid s -> M_LoopRange_add r s = Some t -> gvalid t.
Proof. intros Hr Hs H. apply (add_valid (conv r) (conv s)); auto. exact (omap_some _ _ _ _ (link_add r s) H). Qed.

Lemma g_add_panics_iff r s : gvalid r -> gvalid s ->
  (M_LoopRange_add r s = None <->
   ~ exists t, gvalid t /\ forall n, ginr n t <-> exists x y, ginr x r /\ ginr y s /\ n = x + y).
Proof.
  intros Hr Hs. rewrite (omap_none _ _ _ (link_add r s)), (add_none_iff _ _ Hr Hs).
  unfold gvalid, ginr.
  rewrite <- (ex_conv (fun t => lr_valid t /\ forall n, inr n t <-> exists x y, inr x (conv r) /\ inr y (conv s) /\ n = x + y)).
  reflexivity.
Qed.

Lemma g_scale_ksum r k t : gvalid r -> M_LoopRange_scale r k = Some t ->
  forall n, ginr n t <-> ksum (conv r) k n.
Proof. intros Hr H. apply (scale_ksum (conv r)); auto. exact (omap_some _ _ _ _ (link_scale r k) H). Qed.

Lemma g_scale_valid r k t : gvalid r -> M_LoopRange_scale r k = Some t -> gvalid t.
Proof. intros Hr H. apply (scale_valid (conv r) k); auto. exact (omap_some _ _ _ _ (link_scale r k) H). Qed.

Lemma g_scale_panics_iff r k : gvalid r ->
  (M_LoopRange_scale r k = None <-> ~ exists t, gvalid t /\ forall n, ginr n t <-> ksum (conv r) k n).
Proof.
  intros Hr. rewrite (omap_none _ _ _ (link_scale r k)), (scale_none_iff _ _ Hr).
  unfold gvalid, ginr.
  rewrite <- (ex_conv (fun t => lr_valid t /\ forall n, inr n t <-> ksum (conv r) k n)).
  reflexivity.
Qed.

Lemma g_mul_contains_products r s t x y :
  M_LoopRange_mul r s = Some t -> ginr x r -> ginr y s -> ginr (x * y) t.
Proof. intros H. apply (mul_contains_products (conv r) (conv s)). exact (omap_some _ _ _ _ (link_mul r s) H). Qed.

Lemma g_mul_hull r s t : gvalid r -> gvalid s -> M_LoopRange_mul r s = Some t ->
  gvalid t /\ hull_of (fun n => exists x y, ginr x r /\ ginr y s /\ n = x * y) (conv t).
Proof. intros Hr Hs H. apply (mul_hull (conv r) (conv s)); auto. exact (omap_some _ _ _ _ (link_mul r s) H). Qed.

Lemma g_mul_panics_iff r s : gvalid r -> gvalid s ->
  (M_LoopRange_mul r s = None <->
   ~ exists t, gvalid t /\ hull_of (fun n => exists x y, ginr x r /\ ginr y s /\ n = x * y) (conv t)).
Proof.
  intros Hr Hs. rewrite (omap_none _ _ _ (link_mul r s)), (mul_none_iff _ _ Hr Hs).
  unfold gvalid, ginr.
  rewrite <- (ex_conv (fun t => lr_valid t /\ hull_of (fun n => exists x y, inr x (conv r) /\ inr y (conv s) /\ n = x * y) t)).
  reflexivity.
Qed.

Lemma g_shift r : gvalid r ->
  exists t, M_LoopRange_shift r = Some t /\ gvalid t /\
            forall n, ginr n t <-> exists x, ginr x r /\ n = x - 1.
Proof.
  intros Hr. pose proof (link_shift r Hr) as H.
  destruct (M_LoopRange_shift r) as [t|]; [|discriminate H].
  exists t. assert (H' : conv t = lr_shift (conv r)) by (apply some_inj; exact H). clear H; rename H' into H.
  unfold gvalid, ginr. rewrite H.
  split; [reflexivity|]. split; [apply shift_valid; exact Hr | apply shift_pred; exact Hr].
Qed.

Lemma g_rmie_iff r s b t : gvalid r -> gvalid s ->
  M_LoopRange_right_mul_is_exact r s = Some b -> M_LoopRange_mul r s = Some t ->
  (b = true <-> forall n, (exists y, ginr y s /\ ksum (conv r) y n) <-> ginr n t).
Proof.
  intros Hr Hs Hb Ht. apply (right_mul_is_exact_iff (conv r) (conv s)); auto.
  - rewrite <- link_rmie; auto.
  - exact (omap_some _ _ _ _ (link_mul r s) Ht).
Qed.

Lemma g_rmie_iff_interval r s b : gvalid r -> gvalid s ->
  M_LoopRange_right_mul_is_exact r s = Some b ->
  (b = true <-> exists t, forall n, (exists y, ginr y s /\ ksum (conv r) y n) <-> inr n t).
Proof. intros Hr Hs Hb. apply (rmie_iff_interval (conv r) (conv s)); auto. rewrite <- link_rmie; auto. Qed.

(* the checked variants never panic on valid ranges; they return None exactly where the panicking
   variants panic and the same range otherwise *)
Lemma g_checked_add r s :
  M_LoopRange_checked_add r s = Some (M_LoopRange_add r s).
Proof.
  pose proof (link_checked_add r s) as H. rewrite <- link_add in H.
  destruct (M_LoopRange_checked_add r s) as [[t|]|], (M_LoopRange_add r s) as [u|]; cbn in H; try discriminate; try reflexivity.
  apply some_inj, some_inj, conv_inj in H. congruence.
Qed.

Lemma g_checked_mul r s :
  M_LoopRange_checked_mul r s = Some (M_LoopRange_mul r s).
Proof.
  pose proof (link_checked_mul r s) as H. rewrite <- link_mul in H.
  destruct (M_LoopRange_checked_mul r s) as [[t|]|], (M_LoopRange_mul r s) as [u|]; cbn in H; try discriminate; try reflexivity.
  apply some_inj, some_inj, conv_inj in H. congruence.
Qed.

Lemma g_checked_rmie r s : gvalid r ->
  M_LoopRange_checked_right_mul_is_exact r s = Some (M_LoopRange_right_mul_is_exact r s).
Proof. intros Hr. rewrite link_checked_rmie, link_rmie; auto. Qed.

Example g_example :
  gvalid (LoopRange_mk 2 (Some 3)) /\ gvalid (LoopRange_mk 1 None) /\
  M_LoopRange_add (LoopRange_mk 2 (Some 3)) (LoopRange_mk 4 (Some 9)) = Some (LoopRange_mk 6 (Some 12)) /\
  M_LoopRange_scale (LoopRange_mk 2 None) 3 = Some (LoopRange_mk 6 None) /\
  M_LoopRange_mul (LoopRange_mk 65536 (Some 65536)) (LoopRange_mk 65536 (Some 65536)) = None /\
  M_LoopRange_checked_mul (LoopRange_mk 65536 (Some 65536)) (LoopRange_mk 65536 (Some 65536)) = Some None /\
  M_LoopRange_shift (LoopRange_mk 0 (Some 5)) = Some (LoopRange_mk 0 (Some 4)) /\
  M_LoopRange_right_mul_is_exact (LoopRange_mk 3 (Some 4)) (LoopRange_mk 1 (Some 2)) = Some false.
Proof. unfold gvalid, lr_valid, U32MAX; cbn. repeat split; try lia; vm_compute; reflexivity. Qed.

(* impl Display for LoopRange: the printer never panics, never fails and only appends to the formatter's buffer;
   the three abbreviations are "?", "*" and "+" *)
Lemma g_fmt_total r f : exists out, M_LoopRange_fmt r f = Some (f ++ out, Ok tt).
Proof.
  unfold M_LoopRange_fmt, LoopRange_fmt. destruct r as [i [j|]].
  - destruct i as [|[p|p|]]; (destruct j as [|[q|q|]]; [..]);
      repeat match goal with |- context [if ?c then _ else _] => destruct c end; eexists; reflexivity.
  - destruct i as [|[p|p|]]; eexists; reflexivity.
Qed.
Lemma g_fmt_abbrev f :
  M_LoopRange_fmt (LoopRange_mk 0 (Some 1%N)) f = Some (f ++ [63%N], Ok tt) /\
  M_LoopRange_fmt (LoopRange_mk 0 None) f = Some (f ++ [42%N], Ok tt) /\
  M_LoopRange_fmt (LoopRange_mk 1 None) f = Some (f ++ [43%N], Ok tt).
Proof. repeat split. Qed.
Example g_fmt_example :
  M_LoopRange_fmt (LoopRange_mk 2 (Some 15%N)) [] = Some ([91; 50; 46; 46; 49; 53; 93]%N, Ok tt) /\
  M_LoopRange_fmt (LoopRange_mk 7 (Some 7%N)) [] = Some ([55%N], Ok tt) /\
  M_LoopRange_fmt (LoopRange_mk 3 None) [] = Some ([91; 51; 46; 46; 105; 110; 102; 41]%N, Ok tt).
Proof. vm_compute. repeat split. Qed.
