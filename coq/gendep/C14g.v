(* C14g -- the compact successor table: the regenerated translation of compact_tables.rs is the strict reading of the table code.
   Statements only; every proof is [exact <lemma>].  The statements are about the definitions that
   gen/rs2v.py regenerates from /repo/src on every run (namespace SVG; M_f is the monadic view of
   the Rust function f: None = f panics).  Written by bin/mkgenprops from the lemma statements. *)
Require Import Base GenBase.
Require Import CharSet Partition Automaton AutomatonProofs.
From SVG Require Import CompactTableGen GenLinkCompactTable GenPropsCompactTable.
Open Scope N_scope.

(* ---- the translated functions are the strict functions of AutomatonProofs.v (u32 values read as nat) ---- *)

Theorem C14g_link_eval :
  forall (t : CompactTable) (s c : N),
       option_map N.to_nat (M_CompactTable_eval t s c) =
       ct_eval_s (convt t) (N.to_nat s) (N.to_nat c).
Proof. exact link_eval. Qed.
Print Assumptions C14g_link_eval.

Theorem C14g_link_new :
  forall n m : N,
       option_map convb (M_CompactTableBuilder_new n m) =
       (if (0 <? N.to_nat n)%nat && (0 <? N.to_nat m)%nat
        then Some (cs_t0 (N.to_nat n) (N.to_nat m))
        else None).
Proof. exact link_new. Qed.
Print Assumptions C14g_link_new.

Theorem C14g_link_set_default :
  forall (t : CompactTableBuilder) (i d : N),
       option_map convb (M_CompactTableBuilder_set_default t i d) =
       option_map
         (fun df : list nat =>
          {|
            ct_n := ct_n (convb t);
            ct_alpha := ct_alpha (convb t);
            ct_default := df;
            ct_base := ct_base (convb t);
            ct_value := ct_value (convb t);
            ct_check := ct_check (convb t)
          |}) (upd_s (ct_default (convb t)) (N.to_nat i) (N.to_nat d)).
Proof. exact link_set_default. Qed.
Print Assumptions C14g_link_set_default.

Theorem C14g_link_resize :
  forall (t : CompactTableBuilder) (sz : nat),
       (length (CompactTableBuilder_value t) <= sz)%nat ->
       length (CompactTableBuilder_check t) = length (CompactTableBuilder_value t) ->
       option_map convb (M_CompactTableBuilder_resize t sz) = Some (ct_resize (convb t) sz).
Proof. exact link_resize. Qed.
Print Assumptions C14g_link_resize.

Theorem C14g_link_base_conflicts :
  forall (t : CompactTableBuilder) (b : N) (succ : list (N * N)),
       M_CompactTableBuilder_base_conflicts t b succ =
       base_conflicts_s (convb t) (N.to_nat b) (convs succ).
Proof. exact link_base_conflicts. Qed.
Print Assumptions C14g_link_base_conflicts.

Theorem C14g_link_find_base :
  forall (succ : list (N * N)) (fuel : nat) (t : CompactTableBuilder) (b : N),
       blen_ok t ->
       b + N.of_nat fuel <= 4294967295 ->
       fb_ok (CompactTableBuilder_set_successors_loop1 fuel succ t b)
         (find_base_s fuel (convb t) (N.to_nat b) (convs succ)).
Proof. exact link_find_base. Qed.
Print Assumptions C14g_link_find_base.

Theorem C14g_link_store :
  forall (succ : list (N * N)) (t : CompactTableBuilder) (i b : N),
       st_ok (CompactTableBuilder_store_successors_loop1 succ i b t) t
         (fold_left (store_s (N.to_nat b) (N.to_nat i)) (convs succ)
            (Some (cn (CompactTableBuilder_value t), cn (CompactTableBuilder_check t)))).
Proof. exact link_store. Qed.
Print Assumptions C14g_link_store.

Theorem C14g_link_store_successors :
  forall (t : CompactTableBuilder) (i b : N) (succ : list (N * N)),
       option_map convb (M_CompactTableBuilder_store_successors t i b succ) =
       match upd_s (ct_base (convb t)) (N.to_nat i) (N.to_nat b) with
       | Some base' =>
           match
             fold_left (store_s (N.to_nat b) (N.to_nat i)) (convs succ)
               (Some (ct_value (convb t), ct_check (convb t)))
           with
           | Some (v, c) =>
               Some
                 {|
                   ct_n := ct_n (convb t);
                   ct_alpha := ct_alpha (convb t);
                   ct_default := ct_default (convb t);
                   ct_base := base';
                   ct_value := v;
                   ct_check := c
                 |}
           | None => None
           end
       | None => None
       end.
Proof. exact link_store_successors. Qed.
Print Assumptions C14g_link_store_successors.

Theorem C14g_link_set_successors :
  forall (t : CompactTableBuilder) (i : N) (succ : list (N * N)),
       blen_ok t ->
       N.of_nat
         (S (length (CompactTableBuilder_value t)) + N.to_nat (CompactTableBuilder_alphabet_size t)) <=
       4294967295 ->
       option_map convb
         (M_CompactTableBuilder_set_successors
            (S (length (CompactTableBuilder_value t)) +
             N.to_nat (CompactTableBuilder_alphabet_size t)) t i succ) =
       set_successors_s (convb t) (N.to_nat i) (convs succ).
Proof. exact link_set_successors. Qed.
Print Assumptions C14g_link_set_successors.

Theorem C14g_link_build :
  forall t : CompactTableBuilder,
       option_map (fun p : CompactTableBuilder * CompactTable => convt (snd p))
         (M_CompactTableBuilder_build t) =
       match ct_base (convb t) with
       | [] => None
       | _ :: _ => Some (ct_final (convb t))
       end.
Proof. exact link_build. Qed.
Print Assumptions C14g_link_build.

(* ---- consequences ---- *)

Theorem C14g_eval_some :
  forall (t : CompactTable) (s c v : N),
       M_CompactTable_eval t s c = Some v ->
       ct_eval_s (convt t) (N.to_nat s) (N.to_nat c) = Some (N.to_nat v).
Proof. exact g_eval_some. Qed.
Print Assumptions C14g_eval_some.

Theorem C14g_eval_none :
  forall (t : CompactTable) (s c : N),
       M_CompactTable_eval t s c = None <-> ct_eval_s (convt t) (N.to_nat s) (N.to_nat c) = None.
Proof. exact g_eval_none. Qed.
Print Assumptions C14g_eval_none.

Theorem C14g_new_blen :
  forall (n m : N) (t : CompactTableBuilder),
       M_CompactTableBuilder_new n m = Some t -> blen_ok t.
Proof. exact g_new_blen. Qed.
Print Assumptions C14g_new_blen.

Theorem C14g_example :
  let t0 :=
         {|
           CompactTableBuilder_num_states := 2;
           CompactTableBuilder_alphabet_size := 2;
           CompactTableBuilder_default := [0; 0];
           CompactTableBuilder_base := [0; 0];
           CompactTableBuilder_value := [0; 0];
           CompactTableBuilder_check := [2; 2]
         |} in
       option_map convb (M_CompactTableBuilder_set_successors 5 t0 1 [(1, 0)]) =
       Some
         {|
           ct_n := 2;
           ct_alpha := 2;
           ct_default := [0%nat; 0%nat];
           ct_base := [0%nat; 0%nat];
           ct_value := [0%nat; 0%nat];
           ct_check := [2%nat; 1%nat]
         |}.
Proof. exact g_example. Qed.
Print Assumptions C14g_example.
