(* C09g -- orders and int / code conversions: the regenerated translation meets the C09 statements.
   Statements only; every proof is [exact <lemma>].  The statements are about the definitions that
   gen/rs2v.py regenerates from /repo/src on every run (namespace SVG; M_f is the monadic view of
   the Rust function f: None = f panics).  Written by bin/mkgenprops from the lemma statements. *)
Require Import Base GenBase.
Require Import StrConv StrConvProofs Literal.
From SVG Require Import StrConvGen GenLinkStrConv GenPropsStrConv.
Open Scope N_scope.

(* ---- the translated functions are the model's functions (every Rust operator as a checked operator) ---- *)

Theorem C09g_link_char_is_digit :
  forall x : N, M_fn_char_is_digit x = Some (char_is_digit x).
Proof. exact link_char_is_digit. Qed.
Print Assumptions C09g_link_char_is_digit.

Theorem C09g_link_scan_lt :
  forall (fuel : nat) (v w : list N) (mx i : nat),
       scan_ok (fn_vector_lt_loop1 fuel v w mx i) (skip_equal fuel v w mx i).
Proof. exact link_scan_lt. Qed.
Print Assumptions C09g_link_scan_lt.

Theorem C09g_link_scan_le :
  forall (fuel : nat) (v w : list N) (mx i : nat),
       scan_ok (fn_vector_le_loop1 fuel v w mx i) (skip_equal fuel v w mx i).
Proof. exact link_scan_le. Qed.
Print Assumptions C09g_link_scan_le.

Theorem C09g_link_vector_lt :
  forall v w : list N, M_fn_vector_lt (lt_fuel v w) v w = vector_lt v w.
Proof. exact link_vector_lt. Qed.
Print Assumptions C09g_link_vector_lt.

Theorem C09g_link_vector_le :
  forall v w : list N, M_fn_vector_le (lt_fuel v w) v w = vector_le v w.
Proof. exact link_vector_le. Qed.
Print Assumptions C09g_link_vector_le.

Theorem C09g_link_str_lt :
  forall s1 s2 : SmtString, M_fn_str_lt (lt_fuel (w s1) (w s2)) s1 s2 = str_lt (w s1) (w s2).
Proof. exact link_str_lt. Qed.
Print Assumptions C09g_link_str_lt.

Theorem C09g_link_str_le :
  forall s1 s2 : SmtString, M_fn_str_le (lt_fuel (w s1) (w s2)) s1 s2 = str_le (w s1) (w s2).
Proof. exact link_str_le. Qed.
Print Assumptions C09g_link_str_le.

Theorem C09g_link_str_is_digit :
  forall s : SmtString, M_fn_str_is_digit s = str_is_digit (w s).
Proof. exact link_str_is_digit. Qed.
Print Assumptions C09g_link_str_is_digit.

Theorem C09g_link_str_to_code :
  forall s : SmtString, M_fn_str_to_code s = str_to_code (w s).
Proof. exact link_str_to_code. Qed.
Print Assumptions C09g_link_str_to_code.

Theorem C09g_link_str_from_code :
  forall x : Z, option_map w (M_fn_str_from_code x) = Some (str_from_code x).
Proof. exact link_str_from_code. Qed.
Print Assumptions C09g_link_str_from_code.

Theorem C09g_link_to_int_loop :
  forall ds : list N,
       forallb char_is_digit ds = true ->
       forall x : Z, int_res (fn_str_to_int_loop1 ds x) = to_int_loop ds x.
Proof. exact link_to_int_loop. Qed.
Print Assumptions C09g_link_to_int_loop.

Theorem C09g_link_str_to_int :
  forall s : SmtString, M_fn_str_to_int s = str_to_int (w s).
Proof. exact link_str_to_int. Qed.
Print Assumptions C09g_link_str_to_int.

Theorem C09g_link_str_from_int :
  forall x : Z, (x <= 2147483647)%Z -> option_map w (M_fn_str_from_int x) = str_from_int x.
Proof. exact link_str_from_int. Qed.
Print Assumptions C09g_link_str_from_int.

Theorem C09g_link_from_String :
  forall t : list N, option_map w (M_SmtString_from_String t) = made (from_str t).
Proof. exact link_from_String. Qed.
Print Assumptions C09g_link_from_String.

(* ---- the C09 statements on the translated code ---- *)

Theorem C09g_lt_lex :
  forall s1 s2 : SmtString,
       exists b : bool,
         M_fn_str_lt (fuel_of s1 s2) s1 s2 = Some b /\ (b = true <-> lex_lt (w s1) (w s2)).
Proof. exact g_lt_lex. Qed.
Print Assumptions C09g_lt_lex.

Theorem C09g_le_lex :
  forall s1 s2 : SmtString,
       exists b : bool,
         M_fn_str_le (fuel_of s1 s2) s1 s2 = Some b /\ (b = true <-> lex_le (w s1) (w s2)).
Proof. exact g_le_lex. Qed.
Print Assumptions C09g_le_lex.

Theorem C09g_lt_iff_not_ge :
  forall s1 s2 : SmtString,
       M_fn_str_lt (fuel_of s1 s2) s1 s2 = Some true <->
       M_fn_str_le (fuel_of s2 s1) s2 s1 = Some false.
Proof. exact g_lt_iff_not_ge. Qed.
Print Assumptions C09g_lt_iff_not_ge.

Theorem C09g_le_antisym :
  forall s1 s2 : SmtString,
       M_fn_str_le (fuel_of s1 s2) s1 s2 = Some true ->
       M_fn_str_le (fuel_of s2 s1) s2 s1 = Some true -> w s1 = w s2.
Proof. exact g_le_antisym. Qed.
Print Assumptions C09g_le_antisym.

Theorem C09g_le_total :
  forall s1 s2 : SmtString,
       M_fn_str_le (fuel_of s1 s2) s1 s2 = Some true \/
       M_fn_str_le (fuel_of s2 s1) s2 s1 = Some true.
Proof. exact g_le_total. Qed.
Print Assumptions C09g_le_total.

Theorem C09g_to_int_spec :
  forall s : SmtString,
       (w s <> [] ->
        all_digits (w s) ->
        M_fn_str_to_int s =
        (if (dec_value (w s) <=? I32MAX)%Z then Some (dec_value (w s)) else None)) /\
       (w s = [] \/ ~ all_digits (w s) -> M_fn_str_to_int s = Some (-1)%Z).
Proof. exact g_to_int_spec. Qed.
Print Assumptions C09g_to_int_spec.

Theorem C09g_to_int_never_wrong :
  forall (s : SmtString) (r : Z),
       M_fn_str_to_int s = Some r ->
       w s <> [] /\ all_digits (w s) /\ r = dec_value (w s) /\ (0 <= r <= I32MAX)%Z \/
       (w s = [] \/ ~ all_digits (w s)) /\ r = (-1)%Z.
Proof. exact g_to_int_never_wrong. Qed.
Print Assumptions C09g_to_int_never_wrong.

Theorem C09g_to_int_panic_iff :
  forall s : SmtString,
       M_fn_str_to_int s = None <-> w s <> [] /\ all_digits (w s) /\ (I32MAX < dec_value (w s))%Z.
Proof. exact g_to_int_panic_iff. Qed.
Print Assumptions C09g_to_int_panic_iff.

Theorem C09g_to_code_spec :
  forall s : SmtString,
       (forall c : N, w s = [c] -> c < 2147483648 -> M_fn_str_to_code s = Some (Z.of_N c)) /\
       (length (w s) <> 1%nat -> M_fn_str_to_code s = Some (-1)%Z).
Proof. exact g_to_code_spec. Qed.
Print Assumptions C09g_to_code_spec.

Theorem C09g_from_code_range :
  forall x : Z,
       ((0 <= x <= Z.of_N MAXC)%Z -> option_map w (M_fn_str_from_code x) = Some [Z.to_N x]) /\
       ((x < 0)%Z \/ (Z.of_N MAXC < x)%Z -> option_map w (M_fn_str_from_code x) = Some []).
Proof. exact g_from_code_range. Qed.
Print Assumptions C09g_from_code_range.

Theorem C09g_is_digit_spec :
  forall s : SmtString,
       exists b : bool,
         M_fn_str_is_digit s = Some b /\ (b = true <-> (exists c : N, w s = [c] /\ 48 <= c <= 57)).
Proof. exact g_is_digit_spec. Qed.
Print Assumptions C09g_is_digit_spec.

Theorem C09g_from_int_spec :
  forall x : Z,
       (x <= I32MAX)%Z ->
       exists s : SmtString,
         M_fn_str_from_int x = Some s /\
         ((0 <= x)%Z -> numeral (w s) /\ dec_value (w s) = x) /\ ((x < 0)%Z -> w s = []).
Proof. exact g_from_int_spec. Qed.
Print Assumptions C09g_from_int_spec.

Theorem C09g_to_int_from_int :
  forall x : Z,
       (0 <= x <= I32MAX)%Z -> (do s <- M_fn_str_from_int x; M_fn_str_to_int s) = Some x.
Proof. exact g_to_int_from_int. Qed.
Print Assumptions C09g_to_int_from_int.

Theorem C09g_from_int_unique :
  forall (x : Z) (s : SmtString),
       (0 <= x <= I32MAX)%Z ->
       numeral (w s) -> dec_value (w s) = x -> option_map w (M_fn_str_from_int x) = Some (w s).
Proof. exact g_from_int_unique. Qed.
Print Assumptions C09g_from_int_unique.

Theorem C09g_example :
  M_fn_str_lt 3 {| SmtString_s := [97; 98] |} {| SmtString_s := [97; 99] |} = Some true /\
       M_fn_str_to_int {| SmtString_s := [52; 50] |} = Some 42%Z /\
       M_fn_str_to_int {| SmtString_s := [53; 48; 48; 48; 48; 48; 48; 48; 48; 48] |} = None /\
       M_fn_str_to_int {| SmtString_s := [57; 57; 57; 57; 57; 57; 57; 57; 57; 57; 57; 97] |} =
       Some (-1)%Z /\
       M_fn_str_to_code {| SmtString_s := [196607] |} = Some 196607%Z /\
       option_map w (M_fn_str_from_int 1907) = Some [49; 57; 48; 55] /\
       option_map w (M_fn_str_from_int (-3)) = Some [].
Proof. exact g_example. Qed.
Print Assumptions C09g_example.
