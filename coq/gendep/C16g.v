(* C16g -- the read-only part of the inclusion matcher (base_patterns, rigid_match_at, next / prev_rigid_match, char_sets_of_pattern, rigid_prefix / suffix_match, flexible_match): the regenerated translation is the model's matcher on the index ranges where the Rust code does not panic.
   Statements only; every proof is [exact <lemma>].  The statements are about the definitions that
   gen/rs2v.py regenerates from /repo/src on every run (namespace SVG; M_f is the monadic view of
   the Rust function f: None = f panics).  Written by bin/mkgenprops from the lemma statements. *)
Require Import Base GenBase.
Require Import CharSet Partition LoopRange Regex Denote Sem Inclusion Constructors SemProofs InclusionProofs.
From SVG Require Import InclusionGen GenLinkInclusion GenPropsInclusion.
Open Scope N_scope.

(* ---- the translated functions are the model's functions (index loops versus positioned recursion) ---- *)

Theorem C16g_link_is_all_chars :
  forall e : RE, M_BaseRegLan_is_all_chars (RE_expr e) = Some (is_all_chars (conv_re e)).
Proof. exact link_is_all_chars. Qed.
Print Assumptions C16g_link_is_all_chars.

Theorem C16g_link_is_full :
  forall e : RE, M_BaseRegLan_is_full (RE_expr e) = Some (is_full (conv_re e)).
Proof. exact link_is_full. Qed.
Print Assumptions C16g_link_is_full.

Theorem C16g_link_is_range :
  forall e : RE, M_BaseRegLan_is_range (RE_expr e) = Some (is_range (conv_re e)).
Proof. exact link_is_range. Qed.
Print Assumptions C16g_link_is_range.

Theorem C16g_link_match_char_set :
  forall (e : RE) (s : CharSet),
       M_BaseRegLan_match_char_set (RE_expr e) s = Some (match_char_set (conv_re e) (conv s)).
Proof. exact link_match_char_set. Qed.
Print Assumptions C16g_link_match_char_set.

Theorem C16g_link_bp_len :
  forall p : BasePattern,
       (BasePattern_start p <= BasePattern_end p)%nat ->
       M_BasePattern_len p = Some (b_len (convb p)).
Proof. exact link_bp_len. Qed.
Print Assumptions C16g_link_bp_len.

Theorem C16g_link_flexible_match :
  forall u v : list RE, M_fn_flexible_match u v = Some (flexible_match (map conv_re v)).
Proof. exact link_flexible_match. Qed.
Print Assumptions C16g_link_flexible_match.

Theorem C16g_link_bp_loop :
  forall (l : list RE) (i : nat) (acc : list BasePattern) (j : nat) (rigid : bool),
       option_map
         (fun x : list BasePattern * nat * bool =>
          map convb
            (fst (fst x) ++
             [{|
                BasePattern_start := snd (fst x);
                BasePattern_end := i + length l;
                BasePattern_is_rigid := snd x;
                BasePattern_start_match := 0;
                BasePattern_end_match := 0
              |}])) (bp_res (fn_base_patterns_loop1 (combine (seq i (length l)) l) acc j rigid)) =
       Some (base_patterns_go (map conv_re l) i j rigid (map convb acc)).
Proof. exact link_bp_loop. Qed.
Print Assumptions C16g_link_bp_loop.

Theorem C16g_link_base_patterns :
  forall r : list RE,
       option_map (map convb) (M_fn_base_patterns r) = Some (base_patterns (map conv_re r)).
Proof. exact link_base_patterns. Qed.
Print Assumptions C16g_link_base_patterns.

Theorem C16g_link_rm_loop :
  forall (p : list CharSet) (s : list RE) (i : nat),
       (i + length p <= length s)%nat ->
       forall d k : nat,
       (k + d)%nat = length p ->
       rm_res (fn_rigid_match_at_loop1 (seq k d) p s i) =
       Some (rigid_match_at (skipn k (map conv p)) (skipn (i + k) (map conv_re s))).
Proof. exact link_rm_loop. Qed.
Print Assumptions C16g_link_rm_loop.

Theorem C16g_link_rigid_match_at :
  forall (p : list CharSet) (s : list RE) (i : nat),
       (i + length p <= length s)%nat ->
       M_fn_rigid_match_at p s i = Some (rigid_at (map conv p) (map conv_re s) i).
Proof. exact link_rigid_match_at. Qed.
Print Assumptions C16g_link_rigid_match_at.

Theorem C16g_link_next_loop :
  forall (p : list CharSet) (s : list RE) (l : list nat),
       Forall (fun j : nat => (j + length p <= length s)%nat) l ->
       sr_res (fn_next_rigid_match_loop1 l p s (length p)) =
       Some
         (first_some
            (fun j : nat =>
             if rigid_at (map conv p) (map conv_re s) j then Some (j, (j + length p)%nat) else None)
            l).
Proof. exact link_next_loop. Qed.
Print Assumptions C16g_link_next_loop.

Theorem C16g_link_next_rigid_match :
  forall (p : list CharSet) (s : list RE) (i : nat),
       option_map convsr (M_fn_next_rigid_match p s i) =
       Some (next_rigid_match (map conv p) (map conv_re s) i).
Proof. exact link_next_rigid_match. Qed.
Print Assumptions C16g_link_next_rigid_match.

Theorem C16g_link_prev_loop :
  forall (p : list CharSet) (s : list RE) (l : list nat),
       Forall (fun j : nat => (length p <= j <= length s)%nat) l ->
       sr_res (fn_prev_rigid_match_loop1 l p s (length p)) =
       Some
         (first_some
            (fun j : nat =>
             if rigid_at (map conv p) (map conv_re s) (j - length p)
             then Some ((j - length p)%nat, j)
             else None) l).
Proof. exact link_prev_loop. Qed.
Print Assumptions C16g_link_prev_loop.

Theorem C16g_link_prev_rigid_match :
  forall (p : list CharSet) (s : list RE) (i : nat),
       (i <= length s)%nat ->
       option_map convsr (M_fn_prev_rigid_match p s i) =
       Some (prev_rigid_match (map conv p) (map conv_re s) i).
Proof. exact link_prev_rigid_match. Qed.
Print Assumptions C16g_link_prev_rigid_match.

Theorem C16g_link_csp_loop :
  forall (l : list RE) (acc : list CharSet),
       all_ranges l ->
       csp_res (fn_char_sets_of_pattern_loop1 l acc) =
       Some (map conv acc ++ char_sets_of_pattern (map conv_re l)).
Proof. exact link_csp_loop. Qed.
Print Assumptions C16g_link_csp_loop.

Theorem C16g_link_char_sets_of_pattern :
  forall l : list RE,
       all_ranges l ->
       option_map (map conv) (M_fn_char_sets_of_pattern l) =
       Some (char_sets_of_pattern (map conv_re l)).
Proof. exact link_char_sets_of_pattern. Qed.
Print Assumptions C16g_link_char_sets_of_pattern.

Theorem C16g_link_rigid_prefix_match :
  forall (u v : list RE) (p : BasePattern),
       pat_ok v p ->
       M_fn_rigid_prefix_match u v p =
       Some (rigid_prefix_match (map conv_re u) (map conv_re v) (convb p)).
Proof. exact link_rigid_prefix_match. Qed.
Print Assumptions C16g_link_rigid_prefix_match.

Theorem C16g_link_rigid_suffix_match :
  forall (u v : list RE) (p : BasePattern),
       pat_ok v p ->
       M_fn_rigid_suffix_match u v p =
       Some (rigid_suffix_match (map conv_re u) (map conv_re v) (convb p)).
Proof. exact link_rigid_suffix_match. Qed.
Print Assumptions C16g_link_rigid_suffix_match.

Theorem C16g_link_shift_loop :
  forall (d : nat) (l acc : list BasePattern),
       Forall
         (fun p : BasePattern => (d <= BasePattern_start p)%nat /\ (d <= BasePattern_end p)%nat) l ->
       shift_res (fn_shift_pattern_start_loop1 l d acc) =
       Some (map convb acc ++ map (fun q : bpat => b_shift q d) (map convb l)).
Proof. exact link_shift_loop. Qed.
Print Assumptions C16g_link_shift_loop.

Theorem C16g_link_shift_pattern_start :
  forall (l : list BasePattern) (d : nat),
       Forall
         (fun p : BasePattern => (d <= BasePattern_start p)%nat /\ (d <= BasePattern_end p)%nat) l ->
       option_map (fun r : list BasePattern * unit => map convb (fst r))
         (M_fn_shift_pattern_start l d) = Some (map (fun q : bpat => b_shift q d) (map convb l)).
Proof. exact link_shift_pattern_start. Qed.
Print Assumptions C16g_link_shift_pattern_start.

Theorem C16g_link_frm_loop :
  forall (u v : list RE) (pats0 l acc : list BasePattern) (i : nat),
       Forall (rigid_ok v) l ->
       frm_res (fn_find_rigid_matches_loop1 l u v pats0 acc i) =
       Some
         (let
          '(ok, t') := find_rigid_matches (map conv_re u) (map conv_re v) (map convb l) i in
           (ok, map convb acc ++ t')).
Proof. exact link_frm_loop. Qed.
Print Assumptions C16g_link_frm_loop.

Theorem C16g_link_find_rigid_matches :
  forall (u v : list RE) (l : list BasePattern),
       Forall (rigid_ok v) l ->
       option_map (fun r : list BasePattern * bool => (snd r, map convb (fst r)))
         (M_fn_find_rigid_matches u v l) =
       Some (find_rigid_matches (map conv_re u) (map conv_re v) (map convb l) 0).
Proof. exact link_find_rigid_matches. Qed.
Print Assumptions C16g_link_find_rigid_matches.

Theorem C16g_link_sfr_loop :
  forall (slen : nat) (rest done : list BasePattern),
       exists R : list BasePattern,
         sfr_res
           (fn_set_flexible_regions_loop1 (seq (length done) (length rest)) slen (done ++ rest)) =
         Some (done ++ R) /\
         map convb R = set_flexible_regions_go (last_em done) (map convb rest) slen.
Proof. exact link_sfr_loop. Qed.
Print Assumptions C16g_link_sfr_loop.

Theorem C16g_link_set_flexible_regions :
  forall (l : list BasePattern) (slen : nat),
       option_map (fun r : list BasePattern * unit => map convb (fst r))
         (M_fn_set_flexible_regions l slen) = Some (set_flexible_regions (map convb l) slen).
Proof. exact link_set_flexible_regions. Qed.
Print Assumptions C16g_link_set_flexible_regions.

Theorem C16g_link_mf_loop :
  forall (u v : list RE) (pats0 l acc : list BasePattern),
       Forall (fun p : BasePattern => flex_ok u v (convb p)) l ->
       mf_res (fn_match_flexible_patterns_loop1 l u v pats0 acc) =
       Some
         (forallb
            (fun p : bpat =>
             b_rigid p || flexible_match (slice (map conv_re v) (b_start p) (b_end p)))
            (map convb l), map convb (acc ++ l)).
Proof. exact link_mf_loop. Qed.
Print Assumptions C16g_link_mf_loop.

Theorem C16g_link_match_flexible_patterns :
  forall (u v : list RE) (l : list BasePattern),
       Forall (flex_ok u v) (set_flexible_regions (map convb l) (length u)) ->
       option_map (fun r : list BasePattern * bool => snd r) (M_fn_match_flexible_patterns u v l) =
       Some (match_flexible_patterns (map conv_re u) (map conv_re v) (map convb l)).
Proof. exact link_match_flexible_patterns. Qed.
Print Assumptions C16g_link_match_flexible_patterns.

Theorem C16g_link_frmr_loop :
  forall (u v : list RE) (pats0 l acc : list BasePattern) (i : nat),
       Forall (rigid_ok v) l ->
       (i <= length u)%nat ->
       frmr_res (fn_find_rigid_matches_rev_loop1 l u v pats0 acc i) =
       Some
         (let
          '(ok, t') := find_rigid_matches_rev_go (map conv_re u) (map conv_re v) (map convb l) i in
           (ok, rev (map convb acc ++ t'))).
Proof. exact link_frmr_loop. Qed.
Print Assumptions C16g_link_frmr_loop.

Theorem C16g_link_find_rigid_matches_rev :
  forall (u v : list RE) (l : list BasePattern),
       Forall (rigid_ok v) l ->
       option_map (fun r : list BasePattern * bool => (snd r, map convb (fst r)))
         (M_fn_find_rigid_matches_rev u v l) =
       Some (find_rigid_matches_rev (map conv_re u) (map conv_re v) (map convb l)).
Proof. exact link_find_rigid_matches_rev. Qed.
Print Assumptions C16g_link_find_rigid_matches_rev.

Theorem C16g_link_flatten_concat_fuel :
  forall (fuel : nat) (r : RE) (v : list RE),
       (height (conv_re r) <= fuel)%nat ->
       exists l : list RE,
         M_fn_flatten_concat fuel r v = Some (v ++ l, tt) /\
         map conv_re l = flatten_concat (conv_re r).
Proof. exact link_flatten_concat_fuel. Qed.
Print Assumptions C16g_link_flatten_concat_fuel.

Theorem C16g_link_decompose_concat :
  forall (fuel : nat) (r : RE),
       (height (conv_re r) <= fuel)%nat ->
       option_map (map conv_re) (M_fn_decompose_concat fuel r) = Some (flatten_concat (conv_re r)).
Proof. exact link_decompose_concat. Qed.
Print Assumptions C16g_link_decompose_concat.

Theorem C16g_link_flatten_inter_fuel :
  forall (fuel : nat) (r : RE) (v : list RE),
       (height (conv_re r) <= fuel)%nat ->
       exists l : list RE,
         M_fn_flatten_inter fuel r v = Some (v ++ l, tt) /\
         map conv_re l = flatten_inter (conv_re r).
Proof. exact link_flatten_inter_fuel. Qed.
Print Assumptions C16g_link_flatten_inter_fuel.

Theorem C16g_link_flatten_union_fuel :
  forall (fuel : nat) (r : RE) (v : list RE),
       (height (conv_re r) <= fuel)%nat ->
       exists l : list RE,
         M_fn_flatten_union fuel r v = Some (v ++ l, tt) /\
         map conv_re l = flatten_union (conv_re r).
Proof. exact link_flatten_union_fuel. Qed.
Print Assumptions C16g_link_flatten_union_fuel.

(* ---- C16 statements on the translated code ---- *)

Theorem C16g_base_patterns_tiles :
  forall v : list RE,
       exists (l : list BasePattern) (b : bool),
         M_fn_base_patterns v = Some l /\ tilesv (map conv_re v) 0 (map convb l) b.
Proof. exact g_base_patterns_tiles. Qed.
Print Assumptions C16g_base_patterns_tiles.

Theorem C16g_next_rigid_match_total :
  forall (p : list CharSet) (s : list RE) (i : nat), M_fn_next_rigid_match p s i <> None.
Proof. exact g_next_rigid_match_total. Qed.
Print Assumptions C16g_next_rigid_match_total.

Theorem C16g_next_rigid_match_spec :
  forall (p : list CharSet) (s : list RE) (i j k : nat),
       M_fn_next_rigid_match p s i = Some (SearchResult_Found j k) ->
       (i <= j)%nat /\
       k = (j + length p)%nat /\
       (k <= length s)%nat /\ rigid_at (map conv p) (map conv_re s) j = true.
Proof. exact g_next_rigid_match_spec. Qed.
Print Assumptions C16g_next_rigid_match_spec.

Theorem C16g_prev_rigid_match_spec :
  forall (p : list CharSet) (s : list RE) (i j k : nat),
       (i <= length s)%nat ->
       M_fn_prev_rigid_match p s i = Some (SearchResult_Found j k) ->
       (k <= i)%nat /\ k = (j + length p)%nat /\ rigid_at (map conv p) (map conv_re s) j = true.
Proof. exact g_prev_rigid_match_spec. Qed.
Print Assumptions C16g_prev_rigid_match_spec.

Theorem C16g_rigid_prefix_sound :
  forall (u v : list RE) (p : BasePattern),
       pat_ok v p ->
       M_fn_rigid_prefix_match u v p = Some true ->
       forall w : word,
       CL (slice (map conv_re u) 0 (BasePattern_end p - BasePattern_start p)) w ->
       CL (slice (map conv_re v) (BasePattern_start p) (BasePattern_end p)) w.
Proof. exact g_rigid_prefix_sound. Qed.
Print Assumptions C16g_rigid_prefix_sound.

Theorem C16g_decompose_concat_total :
  forall (fuel : nat) (r : RE),
       (height (conv_re r) <= fuel)%nat ->
       exists l : list RE, M_fn_decompose_concat fuel r = Some l.
Proof. exact g_decompose_concat_total. Qed.
Print Assumptions C16g_decompose_concat_total.

Theorem C16g_decompose_concat_lang :
  forall (fuel : nat) (r : RE) (l : list RE),
       (height (conv_re r) <= fuel)%nat ->
       M_fn_decompose_concat fuel r = Some l ->
       forall w : word, L (conv_re r) w <-> CL (map conv_re l) w.
Proof. exact g_decompose_concat_lang. Qed.
Print Assumptions C16g_decompose_concat_lang.

Theorem C16g_decompose_concat_fuel_irrelevant :
  forall (f1 f2 : nat) (r : RE),
       (height (conv_re r) <= f1)%nat ->
       (height (conv_re r) <= f2)%nat ->
       option_map (map conv_re) (M_fn_decompose_concat f1 r) =
       option_map (map conv_re) (M_fn_decompose_concat f2 r).
Proof. exact g_decompose_concat_fuel_irrelevant. Qed.
Print Assumptions C16g_decompose_concat_fuel_irrelevant.

Theorem C16g_flatten_inter_lang :
  forall (fuel : nat) (r : RE) (v : list RE),
       (height (conv_re r) <= fuel)%nat ->
       exists l : list RE,
         M_fn_flatten_inter fuel r v = Some (v ++ l, tt) /\
         (forall w : word, L (conv_re r) w <-> (forall x : RE, In x l -> L (conv_re x) w)).
Proof. exact g_flatten_inter_lang. Qed.
Print Assumptions C16g_flatten_inter_lang.

Theorem C16g_flatten_union_lang :
  forall (fuel : nat) (r : RE) (v : list RE),
       (height (conv_re r) <= fuel)%nat ->
       exists l : list RE,
         M_fn_flatten_union fuel r v = Some (v ++ l, tt) /\
         (forall w : word, L (conv_re r) w <-> (exists x : RE, In x l /\ L (conv_re x) w)).
Proof. exact g_flatten_union_lang. Qed.
Print Assumptions C16g_flatten_union_lang.
