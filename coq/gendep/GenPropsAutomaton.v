(* GenPropsAutomaton.v -- consequences of the links for the read side of automata.rs regenerated on
   every run (SVG.AutomatonGen): on a well-formed automaton the generated next / str_next / accepts
   never panic on SMT characters and compute the model's a_next / a_str_next / a_accepts, about which
   the C13 (build keeps delta), C02 (compile) and C14 (pruning) theorems are stated. *)
Require Import Base GenBase CharSet Partition Automaton AutomatonProofs.
From SVG Require Import AutomatonGen GenLinkAutomaton.
Require Import ZifyBool ZifyN ZifyNat.
Open Scope N_scope.

(* successors stay inside a well-formed automaton, for every character *)
Lemma a_next_lt a i c v : aut_wf a -> (i < num_states a)%nat -> a_next a (a_state a i) c = Some v -> (v < num_states a)%nat.
Proof.
  intros Hwf Hi H. destruct (aut_wf_state a i Hwf Hi) as [_ [_ [_ [Ht Hd]]]].
  apply a_next_in_edges, edges_in in H. destruct H as [H|H]; [apply Ht; exact H|].
  rewrite H in Hd. exact Hd.
Qed.

(* the walk over state references is the model's walk over state indices *)
Lemma g_str_next_wf a : aut_wf a -> forall w i, (i < num_states a)%nat ->
  str_next_state a (a_state a i) w = option_map (a_state a) (a_str_next a i w).
Proof.
  intros Hwf. induction w as [|c w IH]; intros i Hi; [reflexivity|].
  cbn [str_next_state a_str_next]. rewrite a_next_state_id. cbv [bind].
  destruct (a_next a (a_state a i) c) as [v|] eqn:E; [|reflexivity].
  pose proof (a_next_lt a i c v Hwf Hi E) as Hv.
  unfold a_state_at. rewrite a_state_nth by (destruct Hwf as [Hl _]; lia).
  apply IH. exact Hv.
Qed.

(* accepts on a well-formed automaton is the model's a_accepts (None = panic on both sides) *)
Lemma g_accepts fuel A w : fuel_ok fuel A -> aut_wf (conva A) ->
  M_Automaton_accepts fuel A w = a_accepts (conva A) (SmtString_s w).
Proof.
  intros Hok Hwf. rewrite (link_accepts fuel A w Hok). unfold a_initial_state, a_state_at, a_accepts.
  destruct Hwf as [Hl [Hi Hr]]. rewrite a_state_nth by lia. cbn [bind].
  rewrite (g_str_next_wf (conva A) (conj Hl (conj Hi Hr))) by exact Hi.
  destruct (a_str_next (conva A) (initial (conva A)) (SmtString_s w)); reflexivity.
Qed.

(* next(s, c).id is the strict successor index of AutomatonProofs.v (used by compile_successors) *)
Lemma g_next_id fuel A s c : (length (CharPartition_list (State_classes s)) < fuel)%nat ->
  option_map State_id (M_Automaton_next fuel A s c) = a_next_id_s (conva A) (convst s) c.
Proof.
  intros Hf. pose proof (link_next fuel A s c Hf) as H. rewrite a_next_state_id in H.
  unfold a_next_id_s. destruct (a_next (conva A) (convst s) c) as [v|]; cbn [bind] in H.
  - unfold a_state_at in H. destruct (M_Automaton_next fuel A s c) as [s'|]; cbn [option_map] in *.
    + rewrite <- H. reflexivity.
    + rewrite <- H. reflexivity.
  - destruct (M_Automaton_next fuel A s c); [discriminate|reflexivity].
Qed.

(* on a well-formed automaton next never panics on an SMT character and lands on a state of the automaton *)
Lemma g_next_total fuel A i s c : fuel_ok fuel A -> aut_wf (conva A) -> nth_error (Automaton_states A) i = Some s ->
  good c -> exists s', M_Automaton_next fuel A s c = Some s' /\ In s' (Automaton_states A).
Proof.
  intros Hok Hwf Hs Hc.
  assert (Hf : (length (CharPartition_list (State_classes s)) < fuel)%nat).
  { unfold fuel_ok in Hok. rewrite Forall_forall in Hok. apply Hok. eapply nth_error_In; eauto. }
  assert (Hi : (i < num_states (conva A))%nat).
  { destruct Hwf as [Hl _]. rewrite <- Hl. unfold conva. cbn [astates]. rewrite map_length.
    apply nth_error_Some. congruence. }
  assert (Est : a_state (conva A) i = convst s).
  { unfold a_state, conva. cbn [astates]. apply nth_error_nth. rewrite nth_error_map_convst, Hs. reflexivity. }
  destruct (a_next_total (conva A) i c Hwf Hi Hc) as (v & Hv & Hlt). rewrite Est in Hv.
  pose proof (link_next fuel A s c Hf) as H. rewrite a_next_state_id, Hv in H. cbn [bind] in H.
  unfold a_state_at in H. rewrite a_state_nth in H by (destruct Hwf as [Hl _]; lia).
  destruct (M_Automaton_next fuel A s c) as [s'|] eqn:E; [|discriminate].
  exists s'. split; auto. apply (next_in fuel A s c s' Hf). exact E.
Qed.

(* non-vacuity: the two-state automaton for "strings that start with 'a'" *)
Example g_example :
  let p := CharPartition_mk [CharSet_mk 97 97] 0 in
  let all := CharPartition_mk [] 0 in
  let A := Automaton_mk 3 1 0 [State_mk 0 false p [1%nat] (Some 2%nat); State_mk 1 true all [] (Some 1%nat);
                               State_mk 2 false all [] (Some 2%nat)] in
  M_Automaton_accepts 5 A (SmtString_mk [97; 98]) = Some true /\ M_Automaton_accepts 5 A (SmtString_mk [98; 97]) = Some false
  /\ M_Automaton_accepts 5 A (SmtString_mk []) = Some false.
Proof. vm_compute. repeat split; reflexivity. Qed.

(* on a well-formed automaton edges(s) never panics: it lists one target per interval and the default *)
Lemma g_edges_total fuel A i s : aut_wf (conva A) -> nth_error (Automaton_states A) i = Some s ->
  (length (State_successor s) + 2 <= fuel)%nat ->
  exists l, (do it <- M_Automaton_edges A s; drain_edges fuel it) = Some l /\
            map (fun e => State_id (snd e)) l = map (fun j => State_id (nth j (Automaton_states A) s)) (edges (convst s)) /\
            length l = length (edges (convst s)).
Proof.
  intros Hwf Hs Hf.
  assert (Hst : nth_error (astates (conva A)) i = Some (convst s)).
  { unfold conva. cbn [astates]. rewrite nth_error_map_convst, Hs. reflexivity. }
  destruct Hwf as [Hl [_ [_ Hall]]]. destruct (Hall i (convst s) Hst) as [_ [_ [Hlen [Hsucc Hdef]]]].
  assert (Hlen' : length (State_successor s) = length (CharPartition_list (State_classes s))).
  { unfold convst, plen, convp in Hlen. cbn [a_succ a_classes ivs] in Hlen. rewrite map_length in Hlen. exact Hlen. }
  rewrite (link_edges_drain A s fuel Hlen' Hf).
  assert (Hn : length (Automaton_states A) = num_states (conva A)).
  { rewrite <- Hl. unfold conva. cbn [astates]. rewrite map_length. reflexivity. }
  assert (Hin : forall j, In j (edges (convst s)) -> (j < length (Automaton_states A))%nat).
  { intros j Hj. rewrite Hn. apply edges_in in Hj. destruct Hj as [Hj|Hj]; [apply Hsucc; exact Hj|].
    rewrite Hj in Hdef. exact Hdef. }
  assert (Hle : (length (edges (convst s)) <= length (map ClassId_Interval (seq 0 (length (State_successor s))) ++ [ClassId_Complement]))%nat).
  { rewrite app_length, map_length, seq_length. unfold edges, convst. cbn [a_succ a_default length].
    rewrite app_length. destruct (State_default_successor s); cbn [length]; lia. }
  revert Hin Hle. generalize (edges (convst s)) as es.
  generalize (map ClassId_Interval (seq 0 (length (State_successor s))) ++ [ClassId_Complement]) as cs.
  intros cs es. revert cs. induction es as [|j es IH]; intros cs Hin Hle.
  - exists []. destruct cs; repeat split; reflexivity.
  - destruct cs as [|c cs]; [cbn [length] in Hle; lia|]. cbn [combine map_m]. unfold edge_target at 1. cbn [fst snd].
    assert (Hj : (j < length (Automaton_states A))%nat) by (apply Hin; left; reflexivity).
    destruct (nth_error (Automaton_states A) j) as [t|] eqn:Et; [|apply nth_error_None in Et; lia].
    cbn [bind]. destruct (IH cs) as (l & Hl1 & Hl2 & Hl3); [intros; apply Hin; right; assumption|cbn [length] in Hle; lia|].
    rewrite Hl1. cbn [bind]. exists ((c, t) :: l). split; [reflexivity|]. split.
    + cbn [map snd]. rewrite Hl2. f_equal. f_equal. symmetry. apply nth_error_nth. exact Et.
    + cbn [length]. rewrite Hl3. reflexivity.
Qed.

Example g_example_iterators :
  let p := CharPartition_mk [CharSet_mk 97 97] 0 in
  let all := CharPartition_mk [] 0 in
  let A := Automaton_mk 3 1 0 [State_mk 0 false p [1%nat] (Some 2%nat); State_mk 1 true all [] (Some 1%nat);
                               State_mk 2 false all [] (Some 2%nat)] in
  option_map (map (fun e => (fst e, State_id (snd e)))) (drain_edges 5 (Automaton_edges A (State_mk 0 false p [1%nat] (Some 2%nat))))
    = Some [(ClassId_Interval 0, 1%nat); (ClassId_Complement, 2%nat)]
  /\ option_map (map State_id) (drain_finals 5 (Automaton_final_states A)) = Some [1%nat].
Proof. vm_compute. split; reflexivity. Qed.
