(* GenLinkStrSearch.v -- matcher::naive_search and the string functions of smt_strings.rs
   regenerated on every run (SVG.StrSearchGen) coincide with the hand-written model StrSearch.v,
   about which the C06 theorems are proved.  The Rust loops index into the vectors
   (pattern[j] == string[i + j]); the model walks the remaining suffixes; the link lemmas relate the
   two (nth_error l n versus skipn n l) by induction on the fuel of the translated loops. *)
Require Import Base GenBase StrSearch.
From SVG Require Import StrSearchGen.
Require Import ZifyBool ZifyN ZifyNat.
Open Scope N_scope.

Notation w := SmtString_s.

Definition convsr (r : SearchResult) : sresult :=
  match r with SearchResult_Found i j => SFound i j | SearchResult_NotFound => SNotFound end.

(* ---- index versus suffix ---- *)
Lemma nth_skipn_cons {A} (l : list A) : forall n x, nth_error l n = Some x -> skipn n l = x :: skipn (S n) l.
Proof. induction l as [|y l IH]; intros [|n] x H; cbn in *; try discriminate; [congruence | apply IH; exact H]. Qed.
Lemma nth_skipn_nil {A} (l : list A) : forall n, nth_error l n = None -> skipn n l = [].
Proof. induction l as [|y l IH]; intros [|n] H; cbn in *; try discriminate; [reflexivity | reflexivity | apply IH; exact H]. Qed.
Lemma skipn_all_nil {A} (l : list A) n : (length l <= n)%nat -> skipn n l = [].
Proof. intros H. apply nth_skipn_nil. apply nth_error_None. exact H. Qed.

(* ---- the comparison loops: result j' with  (j' == p_len) = vec_cmp_loop ...  ---- *)
Definition cmp_ok {R} (r : option (loopres R nat)) (n : nat) (m : option bool) : Prop :=
  match r with
  | Some (LoopDone j') => m = Some (Nat.eqb j' n) /\ (j' <= n)%nat
  | Some (LoopReturn _) => False
  | None => m = None
  end.

Lemma link_cmp_search fuel p s i : forall j, (length p - j < fuel)%nat -> (j <= length p)%nat ->
  cmp_ok (fn_naive_search_loop2 fuel p s (length p) i j) (length p)
         (vec_cmp_loop (skipn j p) (skipn (i + j) s)).
Proof.
  induction fuel as [|fuel IH]; intros j Hf Hj; [lia|].
  cbn [fn_naive_search_loop2]. cbv [bind].
  destruct (Nat.ltb j (length p)) eqn:E.
  - apply Nat.ltb_lt in E.
    destruct (nth_error p j) as [a|] eqn:Ea; [|apply nth_error_None in Ea; lia].
    rewrite (nth_skipn_cons p j a Ea). cbn [vec_cmp_loop].
    destruct (nth_error s (i + j)) as [c|] eqn:Ec.
    + rewrite (nth_skipn_cons s (i + j) c Ec).
      destruct (a =? c) eqn:Eac.
      * replace (S (i + j)) with (i + (j + 1))%nat by lia. replace (S j) with (j + 1)%nat by lia.
        apply IH; lia.
      * cbn [cmp_ok]. split; [|lia]. f_equal. symmetry. apply Nat.eqb_neq. lia.
    + rewrite (nth_skipn_nil s (i + j) Ec). reflexivity.
  - apply Nat.ltb_ge in E. assert (j = length p) by lia. subst j.
    rewrite (skipn_all_nil p (length p)) by lia. cbn [vec_cmp_loop cmp_ok].
    split; [|lia]. rewrite Nat.eqb_refl. reflexivity.
Qed.

Lemma link_cmp_prefix fuel v x : forall j, (length v - j < fuel)%nat -> (j <= length v)%nat ->
  cmp_ok (fn_vector_prefix_loop1 fuel v x (length v) j) (length v)
         (vec_cmp_loop (skipn j v) (skipn j x)).
Proof.
  induction fuel as [|fuel IH]; intros j Hf Hj; [lia|].
  cbn [fn_vector_prefix_loop1]. cbv [bind].
  destruct (Nat.ltb j (length v)) eqn:E.
  - apply Nat.ltb_lt in E.
    destruct (nth_error v j) as [a|] eqn:Ea; [|apply nth_error_None in Ea; lia].
    rewrite (nth_skipn_cons v j a Ea). cbn [vec_cmp_loop].
    destruct (nth_error x j) as [c|] eqn:Ec.
    + rewrite (nth_skipn_cons x j c Ec).
      destruct (a =? c) eqn:Eac.
      * replace (S j) with (j + 1)%nat by lia. apply IH; lia.
      * cbn [cmp_ok]. split; [|lia]. f_equal. symmetry. apply Nat.eqb_neq. lia.
    + rewrite (nth_skipn_nil x j Ec). reflexivity.
  - apply Nat.ltb_ge in E. assert (j = length v) by lia. subst j.
    rewrite (skipn_all_nil v (length v)) by lia. cbn [vec_cmp_loop cmp_ok].
    split; [|lia]. rewrite Nat.eqb_refl. reflexivity.
Qed.

Lemma link_cmp_suffix fuel v x k : forall j, (length v - j < fuel)%nat -> (j <= length v)%nat ->
  cmp_ok (fn_vector_suffix_loop1 fuel v x (length v) k j) (length v)
         (vec_cmp_loop (skipn j v) (skipn (j + k) x)).
Proof.
  induction fuel as [|fuel IH]; intros j Hf Hj; [lia|].
  cbn [fn_vector_suffix_loop1]. cbv [bind].
  destruct (Nat.ltb j (length v)) eqn:E.
  - apply Nat.ltb_lt in E.
    destruct (nth_error v j) as [a|] eqn:Ea; [|apply nth_error_None in Ea; lia].
    rewrite (nth_skipn_cons v j a Ea). cbn [vec_cmp_loop].
    destruct (nth_error x (j + k)) as [c|] eqn:Ec.
    + rewrite (nth_skipn_cons x (j + k) c Ec).
      destruct (a =? c) eqn:Eac.
      * replace (S (j + k)) with (j + 1 + k)%nat by lia. replace (S j) with (j + 1)%nat by lia. apply IH; lia.
      * cbn [cmp_ok]. split; [|lia]. f_equal. symmetry. apply Nat.eqb_neq. lia.
    + rewrite (nth_skipn_nil x (j + k) Ec). reflexivity.
  - apply Nat.ltb_ge in E. assert (j = length v) by lia. subst j.
    rewrite (skipn_all_nil v (length v)) by lia. cbn [vec_cmp_loop cmp_ok].
    split; [|lia]. rewrite Nat.eqb_refl. reflexivity.
Qed.

(* ---- naive_search: the outer loop ---- *)
Definition search_ok (r : option (loopres SearchResult nat)) (m : option sresult) : Prop :=
  match r with
  | Some (LoopReturn x) => m = Some (convsr x)
  | Some (LoopDone _) => m = Some SNotFound
  | None => m = None
  end.

Lemma link_search_loop fuel p s : forall i, (length s - i + length p + 2 <= fuel)%nat ->
  search_ok (fn_naive_search_loop1 fuel p s (length p) (length s) i)
            (search_loop p (length s) (skipn i s) i).
Proof.
  induction fuel as [|fuel IH]; intros i Hf; [lia|].
  cbn [fn_naive_search_loop1]. cbv [bind].
  destruct (skipn i s) as [|c t] eqn:Et.
  - (* i >= length s *)
    cbn [search_loop].
    destruct (Nat.leb (i + length p) (length s)) eqn:E; [|reflexivity].
    apply Nat.leb_le in E.
    pose proof (link_cmp_search fuel p s i 0 ltac:(lia) ltac:(lia)) as C.
    rewrite Nat.add_0_r, Et in C. cbn [skipn] in C.
    destruct (fn_naive_search_loop2 fuel p s (length p) i 0) as [[x|j']|]; cbn [cmp_ok] in C.
    + contradiction.
    + destruct C as [C Hj]. rewrite C.
      destruct (Nat.eqb j' (length p)) eqn:Ej; [reflexivity|].
      (* a mismatch needs a character of the string: impossible on the empty suffix *)
      exfalso. destruct p as [|a p']; cbn [vec_cmp_loop length] in *; [|discriminate C].
      apply Nat.eqb_neq in Ej. lia.
    + rewrite C. reflexivity.
  - cbn [search_loop].
    destruct (Nat.leb (i + length p) (length s)) eqn:E; [|reflexivity].
    apply Nat.leb_le in E.
    pose proof (link_cmp_search fuel p s i 0 ltac:(lia) ltac:(lia)) as C.
    rewrite Nat.add_0_r, Et in C. cbn [skipn] in C.
    assert (Hi : (i < length s)%nat).
    { destruct (Nat.lt_ge_cases i (length s)) as [H|H]; [exact H|]. rewrite (skipn_all_nil s i H) in Et. discriminate. }
    destruct (fn_naive_search_loop2 fuel p s (length p) i 0) as [[x|j']|]; cbn [cmp_ok] in C.
    + contradiction.
    + destruct C as [C Hj]. rewrite C.
      destruct (Nat.eqb j' (length p)) eqn:Ej; [reflexivity|].
      replace (i + 1)%nat with (S i) by lia.
      assert (Et' : t = skipn (S i) s).
      { destruct (nth_error s i) as [c'|] eqn:En; [|apply nth_error_None in En; lia].
        rewrite (nth_skipn_cons s i c' En) in Et. congruence. }
      rewrite Et'. apply IH. lia.
    + rewrite C. reflexivity.
Qed.

Definition search_fuel (p s : list N) : nat := (length s + length p + 2)%nat.

Lemma link_naive_search fuel p s k : (search_fuel p s <= fuel)%nat ->
  option_map convsr (M_fn_naive_search fuel p s k) = naive_search p s k.
Proof.
  intros Hf. unfold M_fn_naive_search, fn_naive_search, naive_search, search_fuel in *. cbv [bind].
  pose proof (link_search_loop fuel p s k ltac:(lia)) as H.
  destruct (fn_naive_search_loop1 fuel p s (length p) (length s) k) as [[x|j]|]; cbn [search_ok] in H; rewrite H; reflexivity.
Qed.

Lemma link_find_sub_vector fuel v x i : (search_fuel v x <= fuel)%nat ->
  option_map convsr (M_fn_find_sub_vector fuel v x i) = find_sub_vector v x i.
Proof. intros Hf. apply link_naive_search. exact Hf. Qed.

(* ---- prefix / suffix ---- *)
Lemma link_vector_prefix fuel v x : (length v < fuel)%nat -> M_fn_vector_prefix fuel v x = vector_prefix v x.
Proof.
  intros Hf. unfold M_fn_vector_prefix, fn_vector_prefix, vector_prefix. cbv [bind].
  destruct (Nat.leb (length v) (length x)); [|reflexivity].
  pose proof (link_cmp_prefix fuel v x 0 ltac:(lia) ltac:(lia)) as C. cbn [skipn] in C.
  destruct (fn_vector_prefix_loop1 fuel v x (length v) 0) as [[b|j]|]; cbn [cmp_ok] in C;
    [contradiction | destruct C as [C _]; rewrite C; reflexivity | rewrite C; reflexivity].
Qed.

Lemma link_vector_suffix fuel v x : (length v < fuel)%nat -> M_fn_vector_suffix fuel v x = vector_suffix v x.
Proof.
  intros Hf. unfold M_fn_vector_suffix, fn_vector_suffix, vector_suffix. cbv [bind usize_sub].
  destruct (Nat.leb (length v) (length x)) eqn:E; [|reflexivity].
  pose proof (link_cmp_suffix fuel v x (length x - length v) 0 ltac:(lia) ltac:(lia)) as C. cbn [skipn Nat.add] in C.
  destruct (fn_vector_suffix_loop1 fuel v x (length v) (length x - length v) 0) as [[b|j]|]; cbn [cmp_ok] in C;
    [contradiction | destruct C as [C _]; rewrite C; reflexivity | rewrite C; reflexivity].
Qed.

(* ---- the SMT-LIB functions ---- *)
Definition MAXLEN : nat := Z.to_nat 2147483647.

Lemma make_eq a : option_map w (M_SmtString_make a) = smt_make a.
Proof.
  unfold M_SmtString_make, SmtString_make, StrSearchGen.MAX_LENGTH, smt_make, StrSearch.MAX_LENGTH. cbv [bind].
  assert (B : Nat.leb (length a) (Z.to_nat 2147483647) = negb (Z.of_nat (length a) >? 2147483647)%Z).
  { rewrite Z.gtb_ltb. destruct (Nat.leb (length a) (Z.to_nat 2147483647)) eqn:E; symmetry.
    - apply Nat.leb_le, Nat2Z.inj_le in E. rewrite Z2Nat.id in E by (intro Hc; discriminate Hc).
      apply negb_true_iff, Z.ltb_ge. exact E.
    - apply Nat.leb_gt, Nat2Z.inj_lt in E. rewrite Z2Nat.id in E by (intro Hc; discriminate Hc).
      apply negb_false_iff, Z.ltb_lt. exact E. }
  rewrite ?Nat.ltb_antisym, B. destruct (Z.of_nat (length a) >? 2147483647)%Z; reflexivity.
Qed.

Lemma make_from_slice_eq a : option_map w (M_SmtString_make_from_slice a) = smt_make a.
Proof. unfold M_SmtString_make_from_slice, SmtString_make_from_slice. apply make_eq. Qed.

Ltac gbools :=
  repeat match goal with
         | |- context [N.leb ?a ?b] => destruct (N.leb a b) eqn:?
         | |- context [N.ltb ?a ?b] => destruct (N.ltb a b) eqn:?
         | |- context [N.eqb ?a ?b] => destruct (N.eqb a b) eqn:?
         end.
Lemma bind_ret {A} (o : option A) : bind o (fun t => Some t) = o.
Proof. destruct o; reflexivity. Qed.

Lemma from_u32_eq x : option_map w (M_SmtString_from_u32 x) = smt_from_u32 x.
Proof.
  unfold M_SmtString_from_u32, SmtString_from_u32, smt_from_u32. rewrite ?bind_ret, make_eq.
  match goal with
  | |- smt_make [?a] = smt_make [?b] =>
      replace a with b by (cbv [MAX_CHAR REPLACEMENT_CHAR MAXC REPLC]; gbools; cbn [negb];
                           first [reflexivity | (exfalso; lia)])
  end.
  reflexivity.
Qed.

Lemma link_is_empty s : M_SmtString_is_empty s = Some (match w s with [] => true | _ :: _ => false end).
Proof. destruct s as [[|x l]]; reflexivity. Qed.

Lemma link_str_concat s1 s2 : option_map w (M_fn_str_concat s1 s2) = str_concat (w s1) (w s2).
Proof. unfold M_fn_str_concat, fn_str_concat, str_concat, M_fn_vector_concat, fn_vector_concat. cbv [bind]. apply make_eq. Qed.

Lemma as_i32_eq n : usize_as_i32 n = i32_of_usize n.      Proof. reflexivity. Qed.
Lemma as_usize_eq i : i32_as_usize i = usize_idx (usize_of_i32 i).   Proof. reflexivity. Qed.

Lemma link_str_len s : M_fn_str_len s = Some (str_len (w s)).
Proof. reflexivity. Qed.

Lemma link_str_at s i : option_map w (M_fn_str_at s i) = str_at (w s) i.
Proof.
  unfold M_fn_str_at, fn_str_at, str_at, M_SmtString_len, SmtString_len. cbv [bind]. rewrite as_i32_eq.
  rewrite Z.geb_leb.
  destruct (i <? 0)%Z; cbn [orb]; [reflexivity|].
  destruct (i32_of_usize (length (w s)) <=? i)%Z; [reflexivity|].
  rewrite as_usize_eq. destruct (nth_error (w s) _); [apply from_u32_eq | reflexivity].
Qed.

Lemma slice_eq (l : list N) i j : slice_range l i j = vec_slice l i j.
Proof. reflexivity. Qed.

Lemma link_str_substr s i n : option_map w (M_fn_str_substr s i n) = str_substr (w s) i n.
Proof.
  unfold M_fn_str_substr, fn_str_substr, str_substr, M_SmtString_len, SmtString_len. cbv [bind]. rewrite as_i32_eq.
  rewrite Z.geb_leb.
  destruct (i <? 0)%Z; cbn [orb]; [reflexivity|].
  destruct (i32_of_usize (length (w s)) <=? i)%Z; cbn [orb]; [reflexivity|].
  destruct (n <=? 0)%Z; [reflexivity|].
  rewrite !as_usize_eq, slice_eq.
  assert (E : Nat.min (usize_idx (usize_of_i32 i) + usize_idx (usize_of_i32 n)) (length (w s))
              = usize_idx (Z.min (usize_of_i32 i + usize_of_i32 n) (Z.of_nat (length (w s))))).
  { unfold usize_idx, usize_of_i32.
    pose proof (Z.mod_pos_bound i 18446744073709551616 ltac:(lia)).
    pose proof (Z.mod_pos_bound n 18446744073709551616 ltac:(lia)). lia. }
  rewrite E. destruct (vec_slice (w s) _ _); [apply make_from_slice_eq | reflexivity].
Qed.

Lemma link_str_prefixof fuel s1 s2 : (length (w s1) < fuel)%nat ->
  M_fn_str_prefixof fuel s1 s2 = str_prefixof (w s1) (w s2).
Proof. apply link_vector_prefix. Qed.
Lemma link_str_suffixof fuel s1 s2 : (length (w s1) < fuel)%nat ->
  M_fn_str_suffixof fuel s1 s2 = str_suffixof (w s1) (w s2).
Proof. apply link_vector_suffix. Qed.

Lemma link_str_contains fuel s1 s2 : (search_fuel (w s2) (w s1) <= fuel)%nat ->
  M_fn_str_contains fuel s1 s2 = str_contains (w s1) (w s2).
Proof.
  intros Hf. unfold M_fn_str_contains, fn_str_contains, str_contains.
  rewrite <- (link_find_sub_vector fuel (w s2) (w s1) 0 Hf). cbv [bind option_map].
  destruct (M_fn_find_sub_vector fuel (w s2) (w s1) 0) as [[a b|]|]; reflexivity.
Qed.

Lemma link_str_indexof fuel s1 s2 i : (search_fuel (w s2) (w s1) <= fuel)%nat ->
  M_fn_str_indexof fuel s1 s2 i = str_indexof (w s1) (w s2) i.
Proof.
  intros Hf. unfold M_fn_str_indexof, fn_str_indexof, str_indexof, M_SmtString_len, SmtString_len. cbv [bind].
  rewrite as_i32_eq, Z.gtb_ltb.
  destruct (i <? 0)%Z; cbn [orb]; [reflexivity|].
  destruct (i32_of_usize (length (w s1)) <? i)%Z; [reflexivity|].
  rewrite as_usize_eq, <- (link_find_sub_vector fuel (w s2) (w s1) _ Hf). cbv [option_map].
  destruct (M_fn_find_sub_vector fuel (w s2) (w s1) _) as [[a b|]|]; reflexivity.
Qed.

Lemma link_str_replace fuel s p r : (search_fuel (w p) (w s) <= fuel)%nat ->
  option_map w (M_fn_str_replace fuel s p r) = str_replace (w s) (w p) (w r).
Proof.
  intros Hf. unfold M_fn_str_replace, fn_str_replace, str_replace.
  rewrite <- (link_find_sub_vector fuel (w p) (w s) 0 Hf). cbv [bind].
  destruct (M_fn_find_sub_vector fuel (w p) (w s) 0) as [[i j|]|]; cbn [option_map convsr]; [| apply make_from_slice_eq | reflexivity].
  rewrite slice_eq. destruct (vec_slice (w s) 0 i) as [a|]; [|reflexivity].
  unfold vec_slice at 1. 
  destruct (Nat.leb j (length (w s))) eqn:E; cbn [andb]; [|reflexivity].
  rewrite Nat.leb_refl. cbn [andb].
  rewrite firstn_all2 by (rewrite skipn_length; lia).
  rewrite make_eq. rewrite <- app_assoc. reflexivity.
Qed.

(* ---- str_replace_all: the `while let` loop.  The translated loop spends one unit of its fuel per
   iteration and passes the rest to the search; the model loop has its own fuel m.  Whenever m is
   enough for the remaining text and the translated fuel covers m iterations plus a search, the two
   loops agree. ---- *)
Require Import StrSearchProofs.

Definition ra_finish (s : list N) (r : option (loopres SmtString (list N * nat))) : option (list N) :=
  match r with
  | Some (LoopReturn q) => Some (w q)
  | Some (LoopDone (x, i)) =>
      if Nat.leb i (length s) then smt_make (x ++ skipn i s) else None
  | None => None
  end.

Lemma vec_slice_to_end (s : list N) i : (i <= length s)%nat -> vec_slice s i (length s) = Some (skipn i s).
Proof.
  intros H. unfold vec_slice. rewrite Nat.leb_refl.
  destruct (Nat.leb i (length s)) eqn:E; [|apply Nat.leb_gt in E; lia]. cbn [andb].
  rewrite firstn_all2 by (rewrite skipn_length; lia). reflexivity.
Qed.

Lemma link_replace_all_loop p s r : p <> [] ->
  forall m f x i, (i <= length s)%nat -> (length s - i < m)%nat -> (search_fuel p s + m <= f)%nat ->
  ra_finish s (fn_str_replace_all_loop1 f s p r x i) = replace_all_loop m p s r x i.
Proof.
  intros Hp. induction m as [|m IH]; intros f x i Hi Hm Hf; [lia|].
  destruct f as [|f]; [unfold search_fuel in Hf; lia|].
  cbn [fn_str_replace_all_loop1 replace_all_loop].
  pose proof (link_find_sub_vector f p s i ltac:(lia)) as L.
  destruct (find_sub_vector_least p s i) as [res [E P]]. rewrite E in L. rewrite E. cbv [bind].
  destruct (M_fn_find_sub_vector f p s i) as [[j k|]|]; cbn [option_map convsr] in L; [| |discriminate L].
  - assert (res = SFound j k) by congruence. subst res. cbn [search_post] in P.
    destruct P as [Pij [Pk [Po _]]]. pose proof (occurs_at_bound _ _ _ Po) as Hb.
    assert (Hlp : (1 <= length p)%nat) by (destruct p; [congruence | cbn [length]; lia]).
    rewrite slice_eq. destruct (vec_slice s i j) as [sl|]; [|reflexivity].
    rewrite <- app_assoc. apply IH; lia.
  - assert (res = SNotFound) by congruence. subst res.
    cbn [ra_finish]. rewrite (vec_slice_to_end s i Hi).
    destruct (Nat.leb i (length s)) eqn:F; [reflexivity | apply Nat.leb_gt in F; lia].
Qed.

Definition replace_all_fuel (s p : list N) : nat := (search_fuel p s + S (length s))%nat.

Lemma link_str_replace_all fuel s p r : (replace_all_fuel (w s) (w p) <= fuel)%nat ->
  option_map w (M_fn_str_replace_all fuel s p r) = str_replace_all (w s) (w p) (w r).
Proof.
  intros Hf. unfold M_fn_str_replace_all, fn_str_replace_all, str_replace_all. rewrite link_is_empty.
  cbv [bind]. destruct (w p) as [|c p'] eqn:Ep; [apply make_from_slice_eq|].
  rewrite <- (link_replace_all_loop (c :: p') (w s) (w r) ltac:(discriminate) (S (length (w s))) fuel [] 0);
    [| lia | lia | unfold replace_all_fuel in Hf; exact Hf].
  destruct (fn_str_replace_all_loop1 fuel (w s) (c :: p') (w r) [] 0) as [[q|[x i]]|]; cbn [ra_finish]; try reflexivity.
  destruct (Nat.leb i (length (w s))); [apply make_eq | reflexivity].
Qed.
