(* C03g -- the per-node attribute computations of regular_expressions.rs (BaseRegLan::is_nullable, deriv_class, is_all_chars, is_full, ...): the regenerated translation is the model's k_nullable / k_class / ...
   Statements only; every proof is [exact <lemma>].  The statements are about the definitions that
   gen/rs2v.py regenerates from /repo/src on every run (namespace SVG; M_f is the monadic view of
   the Rust function f: None = f panics).  Written by bin/mkgenprops from the lemma statements. *)
Require Import Base GenBase.
Require Import CharSet Partition PartitionSpec PartitionProofs MergeProofs LoopRange Regex Sem SemProofs.
From SVG Require Import RegexNodeGen GenLinkRegexNode GenPropsRegexNode.
Open Scope N_scope.

(* ---- the translated functions are the model's functions (conv_re reads a generated term as the model's id-tagged tree) ---- *)

Theorem C03g_link_merge_fuel :
  forall (fuel : nat) (p1 p2 : CharPartition),
       gwf p1 ->
       gwf p2 ->
       (merge_fuel (convp p1) (convp p2) <= fuel)%nat ->
       option_map convp (M_fn_merge_partitions fuel p1 p2) = Some (pmerge (convp p1) (convp p2)).
Proof. exact link_merge_fuel. Qed.
Print Assumptions C03g_link_merge_fuel.

Theorem C03g_link_is_nullable :
  forall k : BaseRegLan, M_BaseRegLan_is_nullable k = Some (k_nullable (conv_base k)).
Proof. exact link_is_nullable. Qed.
Print Assumptions C03g_link_is_nullable.

Theorem C03g_link_is_all_chars :
  forall e : RE, M_BaseRegLan_is_all_chars (RE_expr e) = Some (is_all_chars (conv_re e)).
Proof. exact link_is_all_chars. Qed.
Print Assumptions C03g_link_is_all_chars.

Theorem C03g_link_is_full :
  forall e : RE, M_BaseRegLan_is_full (RE_expr e) = Some (is_full (conv_re e)).
Proof. exact link_is_full. Qed.
Print Assumptions C03g_link_is_full.

Theorem C03g_link_concat_or_atomic :
  forall e : RE,
       M_BaseRegLan_concat_or_atomic (RE_expr e) = Some (concat_or_atomic (conv_re e)).
Proof. exact link_concat_or_atomic. Qed.
Print Assumptions C03g_link_concat_or_atomic.

Theorem C03g_link_is_range :
  forall e : RE, M_BaseRegLan_is_range (RE_expr e) = Some (is_range (conv_re e)).
Proof. exact link_is_range. Qed.
Print Assumptions C03g_link_is_range.

Theorem C03g_link_match_char_set :
  forall (e : RE) (s : CharSet),
       M_BaseRegLan_match_char_set (RE_expr e) s = Some (match_char_set (conv_re e) (conv s)).
Proof. exact link_match_char_set. Qed.
Print Assumptions C03g_link_match_char_set.

Theorem C03g_link_merge_fold :
  forall (fuel : nat) (l : list RE) (acc : CharPartition),
       pwf (convp acc) ->
       fold_ok fuel l (convp acc) ->
       fold_res (BaseRegLan_deriv_class_merge_deriv_classes_loop1 fuel l acc) =
       Some (fold_left (fun (a : part) (e : re) => pmerge a (rcls e)) (map conv_re l) (convp acc)).
Proof. exact link_merge_fold. Qed.
Print Assumptions C03g_link_merge_fold.

Theorem C03g_link_merge_deriv_classes :
  forall (fuel : nat) (l : list RE),
       fold_ok fuel l pnew ->
       option_map convp (M_BaseRegLan_deriv_class_merge_deriv_classes fuel l) =
       Some (merge_classes (map conv_re l)).
Proof. exact link_merge_deriv_classes. Qed.
Print Assumptions C03g_link_merge_deriv_classes.

Theorem C03g_link_deriv_class :
  forall (fuel : nat) (k : BaseRegLan),
       node_ok fuel k ->
       option_map convp (M_BaseRegLan_deriv_class fuel k) = Some (k_class (conv_base k)).
Proof. exact link_deriv_class. Qed.
Print Assumptions C03g_link_deriv_class.

Theorem C03g_link_re_empty_complement :
  forall e : RE, M_RE_empty_complement e = Some (pempty_complement (rcls (conv_re e))).
Proof. exact link_re_empty_complement. Qed.
Print Assumptions C03g_link_re_empty_complement.

Theorem C03g_link_re_num_deriv_classes :
  forall e : RE, M_RE_num_deriv_classes e = Some (plen (rcls (conv_re e))).
Proof. exact link_re_num_deriv_classes. Qed.
Print Assumptions C03g_link_re_num_deriv_classes.

Theorem C03g_link_re_valid_class_id :
  forall (e : RE) (c : ClassId),
       M_RE_valid_class_id e c = Some (pvalid (rcls (conv_re e)) (convc c)).
Proof. exact link_re_valid_class_id. Qed.
Print Assumptions C03g_link_re_valid_class_id.

Theorem C03g_link_re_is_empty :
  forall e : RE, M_RE_is_empty e = Some (is_empty_node (conv_re e)).
Proof. exact link_re_is_empty. Qed.
Print Assumptions C03g_link_re_is_empty.

Theorem C03g_link_re_pick_class_rep :
  forall (e : RE) (c : ClassId), M_RE_pick_class_rep e c = ppick (rcls (conv_re e)) (convc c).
Proof. exact link_re_pick_class_rep. Qed.
Print Assumptions C03g_link_re_pick_class_rep.

Theorem C03g_link_re_class_of_char :
  forall (e : RE) (x : N),
       option_map convc
         (M_RE_class_of_char (S (length (CharPartition_list (RE_deriv_class e)))) e x) =
       pclass_of_char (rcls (conv_re e)) x.
Proof. exact link_re_class_of_char. Qed.
Print Assumptions C03g_link_re_class_of_char.

Theorem C03g_link_re_class_of_set :
  forall (e : RE) (s : CharSet),
       option_map convres
         (M_RE_class_of_set (S (length (CharPartition_list (RE_deriv_class e)))) e s) =
       pclass_of_set (rcls (conv_re e)) (conv s).
Proof. exact link_re_class_of_set. Qed.
Print Assumptions C03g_link_re_class_of_set.

Theorem C03g_link_make :
  forall (fuel i : nat) (k : BaseRegLan),
       node_ok fuel k ->
       option_map conv_re (M_RE_make fuel i k) = Some (mk_node (N.of_nat i) (conv_base k)).
Proof. exact link_make. Qed.
Print Assumptions C03g_link_make.

Theorem C03g_link_re_eq :
  forall a b : RE, M_RE_eq a b = Some (re_eqb (conv_re a) (conv_re b)).
Proof. exact link_re_eq. Qed.
Print Assumptions C03g_link_re_eq.

Theorem C03g_link_re_cmp :
  forall a b : RE, M_RE_cmp a b = Some (rid (conv_re a) ?= rid (conv_re b)).
Proof. exact link_re_cmp. Qed.
Print Assumptions C03g_link_re_cmp.

Theorem C03g_link_contains :
  forall (v : list RE) (x : RE),
       M_fn_contains v x = Some (Constructors.contains (map conv_re v) (conv_re x)).
Proof. exact link_contains. Qed.
Print Assumptions C03g_link_contains.

Theorem C03g_link_is_atomic :
  forall k : BaseRegLan,
       M_BaseRegLan_is_atomic k =
       Some match conv_base k with
            | NEmpty | NEps | NRange _ => true
            | _ => false
            end.
Proof. exact link_is_atomic. Qed.
Print Assumptions C03g_link_is_atomic.

(* ---- recomputed attributes of a well-formed term are the cached ones; the nullable test is exact ---- *)

Theorem C03g_is_nullable_cached :
  forall e : RE,
       wf_term (conv_re e) -> M_BaseRegLan_is_nullable (RE_expr e) = Some (RE_nullable e).
Proof. exact g_is_nullable_cached. Qed.
Print Assumptions C03g_is_nullable_cached.

Theorem C03g_is_nullable_exact :
  forall e : RE,
       wf_term (conv_re e) -> M_BaseRegLan_is_nullable (RE_expr e) = Some true <-> L (conv_re e) [].
Proof. exact g_is_nullable_exact. Qed.
Print Assumptions C03g_is_nullable_exact.

Theorem C03g_deriv_class_cached :
  forall (fuel : nat) (e : RE),
       wf_term (conv_re e) ->
       node_ok fuel (RE_expr e) ->
       option_map convp (M_BaseRegLan_deriv_class fuel (RE_expr e)) =
       Some (convp (RE_deriv_class e)).
Proof. exact g_deriv_class_cached. Qed.
Print Assumptions C03g_deriv_class_cached.

Theorem C03g_example :
  let pa :=
         {|
           CharPartition_list := [{| CharSet_start := 97; CharSet_end := 97 |}];
           CharPartition_comp_witness := 0
         |} in
       let pb :=
         {|
           CharPartition_list := [{| CharSet_start := 98; CharSet_end := 98 |}];
           CharPartition_comp_witness := 0
         |} in
       let pc :=
         {|
           CharPartition_list := [{| CharSet_start := 99; CharSet_end := 99 |}];
           CharPartition_comp_witness := 0
         |} in
       let a :=
         RE_mk (BaseRegLan_Range {| CharSet_start := 97; CharSet_end := 97 |}) 4 false true true pa
         in
       let b :=
         RE_mk (BaseRegLan_Range {| CharSet_start := 98; CharSet_end := 98 |}) 6 false true true pb
         in
       let c :=
         RE_mk (BaseRegLan_Range {| CharSet_start := 99; CharSet_end := 99 |}) 8 false true true pc
         in
       let u := BaseRegLan_Union [a; b] in
       M_BaseRegLan_is_nullable u = Some false /\
       option_map (fun p : CharPartition => (CharPartition_list p, CharPartition_comp_witness p))
         (M_BaseRegLan_deriv_class 20 u) =
       Some
         ([{| CharSet_start := 97; CharSet_end := 97 |};
           {| CharSet_start := 98; CharSet_end := 98 |}], 0) /\ node_ok 20 u.
Proof. exact g_example. Qed.
Print Assumptions C03g_example.

Theorem C03g_make_root_wf :
  forall (fuel i : nat) (k : BaseRegLan) (e : RE),
       node_ok fuel k ->
       M_RE_make fuel i k = Some e ->
       rnul (conv_re e) = k_nullable (rnode (conv_re e)) /\
       rcls (conv_re e) = k_class (rnode (conv_re e)) /\
       rid (conv_re e) = N.of_nat i /\ rnode (conv_re e) = conv_base k.
Proof. exact g_make_root_wf. Qed.
Print Assumptions C03g_make_root_wf.

Theorem C03g_re_eq_iff :
  forall a b : RE, M_RE_eq a b = Some true <-> RE_id a = RE_id b.
Proof. exact g_re_eq_iff. Qed.
Print Assumptions C03g_re_eq_iff.

Theorem C03g_re_cmp_eq :
  forall a b : RE, M_RE_cmp a b = Some Eq <-> M_RE_eq a b = Some true.
Proof. exact g_re_cmp_eq. Qed.
Print Assumptions C03g_re_cmp_eq.

Theorem C03g_re_partial_cmp :
  forall a b : RE, M_RE_partial_cmp a b = option_map Some (M_RE_cmp a b).
Proof. exact g_re_partial_cmp. Qed.
Print Assumptions C03g_re_partial_cmp.

Theorem C03g_re_cmp_lt :
  forall a b : RE, M_RE_cmp a b = Some Lt <-> (RE_id a < RE_id b)%nat.
Proof. exact g_re_cmp_lt. Qed.
Print Assumptions C03g_re_cmp_lt.

Theorem C03g_contains_total :
  forall (v : list RE) (x : RE), exists b : bool, M_fn_contains v x = Some b.
Proof. exact g_contains_total. Qed.
Print Assumptions C03g_contains_total.

Theorem C03g_contains_true :
  forall (v : list RE) (x : RE),
       M_fn_contains v x = Some true -> exists y : RE, In y v /\ RE_id y = RE_id x.
Proof. exact g_contains_true. Qed.
Print Assumptions C03g_contains_true.

Theorem C03g_contains_sorted :
  forall (v : list RE) (x : RE),
       ids_increase None v ->
       M_fn_contains v x = Some true <-> (exists y : RE, In y v /\ RE_id y = RE_id x).
Proof. exact g_contains_sorted. Qed.
Print Assumptions C03g_contains_sorted.

Theorem C03g_is_atomic :
  forall k : BaseRegLan,
       M_BaseRegLan_is_atomic k = Some true <->
       match k with
       | BaseRegLan_Empty | BaseRegLan_Epsilon | BaseRegLan_Range _ => True
       | _ => False
       end.
Proof. exact g_is_atomic. Qed.
Print Assumptions C03g_is_atomic.
