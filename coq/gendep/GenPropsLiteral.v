(* GenPropsLiteral.v -- the parsing half of C08 transported to the literal parser regenerated from
   /repo/src/smt_strings.rs (SVG.LiteralGen).  A text is the list of its code points; the only panic
   of parse_smt_literal is the documented one of SmtString::make (result longer than i32::MAX). *)
Require Import Base GenBase Literal LiteralProofs.
From SVG Require Import LiteralGen GenLinkLiteral.
Open Scope N_scope.

Lemma g_parse_is_ref text : (length (lit_parse_ref text) <= MAXLEN)%nat ->
  option_map SmtString_s (M_fn_parse_smt_literal text) = Some (lit_parse_ref text).
Proof.
  intros Hl. rewrite link_parse, parse_is_ref.
  destruct (Nat.ltb MAXLEN (length (lit_parse_ref text))) eqn:E; [|reflexivity].
  apply Nat.ltb_lt in E. lia.
Qed.

Lemma g_parse_panics_iff text :
  M_fn_parse_smt_literal text = None <-> (MAXLEN < length (lit_parse_ref text))%nat.
Proof.
  pose proof (link_parse text) as L. rewrite parse_is_ref in L.
  destruct (Nat.ltb MAXLEN (length (lit_parse_ref text))) eqn:E.
  - apply Nat.ltb_lt in E. destruct (M_fn_parse_smt_literal text); [discriminate L|]. split; auto.
  - apply Nat.ltb_ge in E. destruct (M_fn_parse_smt_literal text); [|discriminate L]. split; [discriminate | lia].
Qed.

Lemma g_parse_denotes text s : M_fn_parse_smt_literal text = Some s -> LitDenote text (SmtString_s s).
Proof.
  intros H. apply parse_denotes. pose proof (link_parse text) as L. rewrite H, parse_is_ref in L.
  rewrite parse_is_ref. cbn [option_map] in L.
  destruct (Nat.ltb MAXLEN (length (lit_parse_ref text))); congruence.
Qed.

Lemma g_parse_good text s : M_fn_parse_smt_literal text = Some s -> goodw (SmtString_s s).
Proof.
  intros H. destruct (parse_total_good text) as [w [Hw Hg]].
  pose proof (link_parse text) as L. rewrite H, Hw in L. cbn [option_map] in L.
  destruct (Nat.ltb MAXLEN (length w)); [discriminate L|]. congruence.
Qed.

Lemma g_accept_never_panics p used x : coh (convpa p) used ->
  exists q used', M_ParsingAutomaton_accept p x = Some q /\ coh (convpa q) used'.
Proof.
  intros Hc. rewrite (link_accept p x (coh_code_bound _ _ Hc)).
  destruct (accept_step (convpa p) used x Hc) as (q & used' & Hq & Hcq & _).
  exists (unconvpa q), used'. rewrite Hq, convpa_unconvpa. split; [reflexivity | exact Hcq].
Qed.

(* non-vacuity, on the loop and the final flush (SmtString::make compares the length with i32::MAX as a
   unary nat and is therefore never evaluated) *)
Definition run_text (t : list N) : option (list N) :=
  match fn_parse_smt_literal_loop1 t fn_new_automaton with
  | Some (LoopDone p) => option_map ParsingAutomaton_string_so_far (M_ParsingAutomaton_flush_pending p)
  | _ => None
  end.
Example g_example :
  run_text [97; 92; 117; 123; 52; 49; 125; 92; 117; 50; 67; 65] = Some [97; 65; 92; 117; 50; 67; 65] /\
  run_text [92; 50; 117; 50; 50; 50; 50; 50] = Some [92; 50; 117; 50; 50; 50; 50; 50] /\
  coh (convpa fn_new_automaton) [].
Proof. split; [|split]; [vm_compute; reflexivity | vm_compute; reflexivity | exact coh_init]. Qed.
