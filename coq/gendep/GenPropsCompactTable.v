(* GenPropsCompactTable.v -- consequences of the links for the compact successor table regenerated
   from /repo/src/compact_tables.rs (SVG.CompactTableGen): the translated code is the strict reading
   [*_s] of AutomatonProofs.v, which C14_compile_strict proves equal to the model on well-formed automata. *)
Require Import Base GenBase CharSet Partition Automaton AutomatonProofs.
From SVG Require Import CompactTableGen GenLinkCompactTable.
Open Scope N_scope.

(* eval panics exactly where the strict reading does (an index out of range) and returns the same cell *)
Lemma g_eval_some t s c v : M_CompactTable_eval t s c = Some v ->
  ct_eval_s (convt t) (N.to_nat s) (N.to_nat c) = Some (N.to_nat v).
Proof. intros H. rewrite <- link_eval, H. reflexivity. Qed.

Lemma g_eval_none t s c : M_CompactTable_eval t s c = None <-> ct_eval_s (convt t) (N.to_nat s) (N.to_nat c) = None.
Proof. rewrite <- link_eval. destruct (M_CompactTable_eval t s c); cbn; split; congruence. Qed.

(* a fresh builder satisfies the length invariant of the loops *)
Lemma g_new_blen n m t : M_CompactTableBuilder_new n m = Some t -> blen_ok t.
Proof.
  unfold M_CompactTableBuilder_new, CompactTableBuilder_new. destruct ((0 <? n) && (0 <? m)); [|discriminate].
  intros H. injection H as <-. unfold blen_ok. cbn. rewrite !repeat_length. reflexivity.
Qed.

Example g_example :
  let t0 := CompactTableBuilder_mk 2 2 [0; 0] [0; 0] [0; 0] [2; 2] in
  option_map convb (M_CompactTableBuilder_set_successors 5 t0 1 [(1, 0)])
  = Some {| ct_n := 2; ct_alpha := 2; ct_default := [0; 0]%nat; ct_base := [0; 0]%nat; ct_value := [0; 0]%nat; ct_check := [2; 1]%nat |}.
Proof. vm_compute. reflexivity. Qed.
