(* C06g -- string search / substring / replace: the regenerated translation meets the C06 statements.
   Statements only; every proof is [exact <lemma>].  The statements are about the definitions that
   gen/rs2v.py regenerates from /repo/src on every run (namespace SVG; M_f is the monadic view of
   the Rust function f: None = f panics).  Written by bin/mkgenprops from the lemma statements. *)
Require Import Base GenBase.
Require Import StrSearch StrSearchProofs.
From SVG Require Import StrSearchGen GenLinkStrSearch GenPropsStrSearch.
Open Scope N_scope.

(* ---- the translated functions are the model's functions (index loops versus suffix recursion) ---- *)

Theorem C06g_link_cmp_search :
  forall (fuel : nat) (p s : list N) (i j : nat),
       (length p - j < fuel)%nat ->
       (j <= length p)%nat ->
       cmp_ok (fn_naive_search_loop2 fuel p s (length p) i j) (length p)
         (vec_cmp_loop (skipn j p) (skipn (i + j) s)).
Proof. exact link_cmp_search. Qed.
Print Assumptions C06g_link_cmp_search.

Theorem C06g_link_cmp_prefix :
  forall (fuel : nat) (v x : list N) (j : nat),
       (length v - j < fuel)%nat ->
       (j <= length v)%nat ->
       cmp_ok (fn_vector_prefix_loop1 fuel v x (length v) j) (length v)
         (vec_cmp_loop (skipn j v) (skipn j x)).
Proof. exact link_cmp_prefix. Qed.
Print Assumptions C06g_link_cmp_prefix.

Theorem C06g_link_cmp_suffix :
  forall (fuel : nat) (v x : list N) (k j : nat),
       (length v - j < fuel)%nat ->
       (j <= length v)%nat ->
       cmp_ok (fn_vector_suffix_loop1 fuel v x (length v) k j) (length v)
         (vec_cmp_loop (skipn j v) (skipn (j + k) x)).
Proof. exact link_cmp_suffix. Qed.
Print Assumptions C06g_link_cmp_suffix.

Theorem C06g_link_search_loop :
  forall (fuel : nat) (p s : list N) (i : nat),
       (length s - i + length p + 2 <= fuel)%nat ->
       search_ok (fn_naive_search_loop1 fuel p s (length p) (length s) i)
         (search_loop p (length s) (skipn i s) i).
Proof. exact link_search_loop. Qed.
Print Assumptions C06g_link_search_loop.

Theorem C06g_link_naive_search :
  forall (fuel : nat) (p s : list N) (k : nat),
       (search_fuel p s <= fuel)%nat ->
       option_map convsr (M_fn_naive_search fuel p s k) = naive_search p s k.
Proof. exact link_naive_search. Qed.
Print Assumptions C06g_link_naive_search.

Theorem C06g_link_find_sub_vector :
  forall (fuel : nat) (v x : list N) (i : nat),
       (search_fuel v x <= fuel)%nat ->
       option_map convsr (M_fn_find_sub_vector fuel v x i) = find_sub_vector v x i.
Proof. exact link_find_sub_vector. Qed.
Print Assumptions C06g_link_find_sub_vector.

Theorem C06g_link_vector_prefix :
  forall (fuel : nat) (v x : list N),
       (length v < fuel)%nat -> M_fn_vector_prefix fuel v x = vector_prefix v x.
Proof. exact link_vector_prefix. Qed.
Print Assumptions C06g_link_vector_prefix.

Theorem C06g_link_vector_suffix :
  forall (fuel : nat) (v x : list N),
       (length v < fuel)%nat -> M_fn_vector_suffix fuel v x = vector_suffix v x.
Proof. exact link_vector_suffix. Qed.
Print Assumptions C06g_link_vector_suffix.

Theorem C06g_link_is_empty :
  forall s : SmtString,
       M_SmtString_is_empty s = Some match w s with
                                     | [] => true
                                     | _ :: _ => false
                                     end.
Proof. exact link_is_empty. Qed.
Print Assumptions C06g_link_is_empty.

Theorem C06g_link_str_concat :
  forall s1 s2 : SmtString, option_map w (M_fn_str_concat s1 s2) = str_concat (w s1) (w s2).
Proof. exact link_str_concat. Qed.
Print Assumptions C06g_link_str_concat.

Theorem C06g_link_str_len :
  forall s : SmtString, M_fn_str_len s = Some (str_len (w s)).
Proof. exact link_str_len. Qed.
Print Assumptions C06g_link_str_len.

Theorem C06g_link_str_at :
  forall (s : SmtString) (i : Z), option_map w (M_fn_str_at s i) = str_at (w s) i.
Proof. exact link_str_at. Qed.
Print Assumptions C06g_link_str_at.

Theorem C06g_link_str_substr :
  forall (s : SmtString) (i n : Z),
       option_map w (M_fn_str_substr s i n) = str_substr (w s) i n.
Proof. exact link_str_substr. Qed.
Print Assumptions C06g_link_str_substr.

Theorem C06g_link_str_prefixof :
  forall (fuel : nat) (s1 s2 : SmtString),
       (length (w s1) < fuel)%nat -> M_fn_str_prefixof fuel s1 s2 = str_prefixof (w s1) (w s2).
Proof. exact link_str_prefixof. Qed.
Print Assumptions C06g_link_str_prefixof.

Theorem C06g_link_str_suffixof :
  forall (fuel : nat) (s1 s2 : SmtString),
       (length (w s1) < fuel)%nat -> M_fn_str_suffixof fuel s1 s2 = str_suffixof (w s1) (w s2).
Proof. exact link_str_suffixof. Qed.
Print Assumptions C06g_link_str_suffixof.

Theorem C06g_link_str_contains :
  forall (fuel : nat) (s1 s2 : SmtString),
       (search_fuel (w s2) (w s1) <= fuel)%nat ->
       M_fn_str_contains fuel s1 s2 = str_contains (w s1) (w s2).
Proof. exact link_str_contains. Qed.
Print Assumptions C06g_link_str_contains.

Theorem C06g_link_str_indexof :
  forall (fuel : nat) (s1 s2 : SmtString) (i : Z),
       (search_fuel (w s2) (w s1) <= fuel)%nat ->
       M_fn_str_indexof fuel s1 s2 i = str_indexof (w s1) (w s2) i.
Proof. exact link_str_indexof. Qed.
Print Assumptions C06g_link_str_indexof.

Theorem C06g_link_str_replace :
  forall (fuel : nat) (s p r : SmtString),
       (search_fuel (w p) (w s) <= fuel)%nat ->
       option_map w (M_fn_str_replace fuel s p r) = str_replace (w s) (w p) (w r).
Proof. exact link_str_replace. Qed.
Print Assumptions C06g_link_str_replace.

Theorem C06g_link_replace_all_loop :
  forall p s r : list N,
       p <> [] ->
       forall (m f : nat) (x : list N) (i : nat),
       (i <= length s)%nat ->
       (length s - i < m)%nat ->
       (search_fuel p s + m <= f)%nat ->
       ra_finish s (fn_str_replace_all_loop1 f s p r x i) = replace_all_loop m p s r x i.
Proof. exact link_replace_all_loop. Qed.
Print Assumptions C06g_link_replace_all_loop.

Theorem C06g_link_str_replace_all :
  forall (fuel : nat) (s p r : SmtString),
       (replace_all_fuel (w s) (w p) <= fuel)%nat ->
       option_map w (M_fn_str_replace_all fuel s p r) = str_replace_all (w s) (w p) (w r).
Proof. exact link_str_replace_all. Qed.
Print Assumptions C06g_link_str_replace_all.

(* ---- the C06 statements on the translated code ---- *)

Theorem C06g_naive_search_least :
  forall (fuel : nat) (p s : list N) (k : nat),
       (search_fuel p s <= fuel)%nat ->
       exists res : SearchResult,
         M_fn_naive_search fuel p s k = Some res /\
         match res with
         | SearchResult_Found i j =>
             (k <= i)%nat /\
             j = (i + length p)%nat /\
             occurs_at p s i /\
             (forall i' : nat, (k <= i')%nat -> occurs_at p s i' -> (i <= i')%nat)
         | SearchResult_NotFound => forall i' : nat, (k <= i')%nat -> ~ occurs_at p s i'
         end.
Proof. exact g_naive_search_least. Qed.
Print Assumptions C06g_naive_search_least.

Theorem C06g_concat :
  forall s1 s2 : SmtString,
       ((zlen (w s1 ++ w s2) <= MAX_LENGTH)%Z ->
        option_map w (M_fn_str_concat s1 s2) = Some (w s1 ++ w s2)) /\
       ((zlen (w s1 ++ w s2) > MAX_LENGTH)%Z -> M_fn_str_concat s1 s2 = None).
Proof. exact g_concat. Qed.
Print Assumptions C06g_concat.

Theorem C06g_len :
  forall s : SmtString, wfw (w s) -> M_fn_str_len s = Some (Z.of_nat (length (w s))).
Proof. exact g_len. Qed.
Print Assumptions C06g_len.

Theorem C06g_at :
  forall (s : SmtString) (n : Z),
       wfw (w s) ->
       goodw (w s) -> exists r : list N, option_map w (M_fn_str_at s n) = Some r /\ At (w s) n r.
Proof. exact g_at. Qed.
Print Assumptions C06g_at.

Theorem C06g_substr :
  forall (s : SmtString) (m n : Z),
       wfw (w s) ->
       i32 n ->
       exists r : list N, option_map w (M_fn_str_substr s m n) = Some r /\ Substr (w s) m n r.
Proof. exact g_substr. Qed.
Print Assumptions C06g_substr.

Theorem C06g_prefixof :
  forall (fuel : nat) (s1 s2 : SmtString),
       (length (w s1) < fuel)%nat ->
       exists b : bool,
         M_fn_str_prefixof fuel s1 s2 = Some b /\
         (b = true <-> (exists x : list N, w s2 = w s1 ++ x)).
Proof. exact g_prefixof. Qed.
Print Assumptions C06g_prefixof.

Theorem C06g_suffixof :
  forall (fuel : nat) (s1 s2 : SmtString),
       (length (w s1) < fuel)%nat ->
       exists b : bool,
         M_fn_str_suffixof fuel s1 s2 = Some b /\
         (b = true <-> (exists x : list N, w s2 = x ++ w s1)).
Proof. exact g_suffixof. Qed.
Print Assumptions C06g_suffixof.

Theorem C06g_contains :
  forall (fuel : nat) (s1 s2 : SmtString),
       (search_fuel (w s2) (w s1) <= fuel)%nat ->
       exists b : bool,
         M_fn_str_contains fuel s1 s2 = Some b /\
         (b = true <-> (exists x y : list N, w s1 = x ++ w s2 ++ y)).
Proof. exact g_contains. Qed.
Print Assumptions C06g_contains.

Theorem C06g_indexof :
  forall (fuel : nat) (s1 s2 : SmtString) (i : Z),
       (search_fuel (w s2) (w s1) <= fuel)%nat ->
       wfw (w s1) ->
       exists n : Z, M_fn_str_indexof fuel s1 s2 i = Some n /\ IndexOf (w s1) (w s2) i n.
Proof. exact g_indexof. Qed.
Print Assumptions C06g_indexof.

Theorem C06g_replace :
  forall (fuel : nat) (s p r : SmtString),
       (search_fuel (w p) (w s) <= fuel)%nat ->
       exists x : word,
         Replace (w s) (w p) (w r) x /\ option_map w (M_fn_str_replace fuel s p r) = smt_make x.
Proof. exact g_replace. Qed.
Print Assumptions C06g_replace.

Theorem C06g_replace_all :
  forall (fuel : nat) (s p r : SmtString),
       (replace_all_fuel (w s) (w p) <= fuel)%nat ->
       exists x : word,
         ReplaceAll (w s) (w p) (w r) x /\
         option_map w (M_fn_str_replace_all fuel s p r) = smt_make x.
Proof. exact g_replace_all. Qed.
Print Assumptions C06g_replace_all.

Theorem C06g_example :
  option_map convsr (M_fn_naive_search 9 [98; 97] [97; 98; 97; 98; 97] 0) = Some (SFound 1 3) /\
       M_fn_str_indexof 9 {| SmtString_s := [97; 98; 99] |} {| SmtString_s := [] |} 3 = Some 3%Z /\
       M_fn_str_prefixof 3 {| SmtString_s := [97; 98] |} {| SmtString_s := [97; 98; 99] |} =
       Some true.
Proof. exact g_example. Qed.
Print Assumptions C06g_example.
