(* GenLinkCompactTable.v -- compact_tables.rs regenerated on every run (SVG.CompactTableGen: CompactTable::eval
   and the whole CompactTableBuilder) coincides with the *strict* reading of the table code in
   AutomatonProofs.v (every vector access checked, assertions, fuel), which C14_compile_strict proves equal
   to the model of Automaton.v on well-formed automata.  u32 values of the Rust code are read as nat. *)
Require Import Base GenBase CharSet Partition Automaton AutomatonProofs.
From SVG Require Import CompactTableGen.
Require Import ZifyBool ZifyN ZifyNat.
Open Scope N_scope.

Definition cn (l : list N) : list nat := map N.to_nat l.
Definition convt (t : CompactTable) : ctable :=
  {| ct_n := N.to_nat (CompactTable_num_states t); ct_alpha := N.to_nat (CompactTable_alphabet_size t);
     ct_default := cn (CompactTable_default t); ct_base := cn (CompactTable_base t);
     ct_value := cn (CompactTable_value t); ct_check := cn (CompactTable_check t) |}.
Definition convb (t : CompactTableBuilder) : ctable :=
  {| ct_n := N.to_nat (CompactTableBuilder_num_states t); ct_alpha := N.to_nat (CompactTableBuilder_alphabet_size t);
     ct_default := cn (CompactTableBuilder_default t); ct_base := cn (CompactTableBuilder_base t);
     ct_value := cn (CompactTableBuilder_value t); ct_check := cn (CompactTableBuilder_check t) |}.
Definition convs (l : list (N * N)) : list (nat * nat) := map (fun cv => (N.to_nat (fst cv), N.to_nat (snd cv))) l.

Lemma bind_ret {A} (o : option A) : bind o (fun t => Some t) = o.
Proof. destruct o; reflexivity. Qed.

Lemma map_repeat {A B} (f : A -> B) x k : map f (repeat x k) = repeat (f x) k.
Proof. induction k; cbn; congruence. Qed.

Lemma nth_cn l i : nth_error (cn l) i = option_map N.to_nat (nth_error l i).
Proof. unfold cn. revert i; induction l as [|x l IH]; intros [|i]; cbn; auto. Qed.
Lemma len_cn l : length (cn l) = length l.
Proof. apply map_length. Qed.
Lemma eqb_to_nat a b : Nat.eqb (N.to_nat a) (N.to_nat b) = (a =? b).
Proof. destruct (a =? b) eqn:E; [apply N.eqb_eq in E; subst; apply Nat.eqb_refl | apply Nat.eqb_neq; apply N.eqb_neq in E; lia]. Qed.

Lemma upd_cn l i x : option_map cn (list_upd l i x) = upd_s (cn l) i (N.to_nat x).
Proof.
  revert i; induction l as [|y l IH]; intros [|i]; cbn; try reflexivity.
  rewrite <- IH. destruct (list_upd l i x); reflexivity.
Qed.

(* ---- eval: unconditional ---- *)
Lemma link_eval t s c :
  option_map N.to_nat (M_CompactTable_eval t s c) = ct_eval_s (convt t) (N.to_nat s) (N.to_nat c).
Proof.
  unfold M_CompactTable_eval, CompactTable_eval, ct_eval_s, convt, ct_base, ct_check, ct_value, ct_default, usize_add, bind.
  rewrite nth_cn.
  destruct (nth_error (CompactTable_base t) (N.to_nat s)) as [b|]; cbn [option_map]; [|reflexivity].
  rewrite !nth_cn.
  destruct (nth_error (CompactTable_check t) (N.to_nat b + N.to_nat c)) as [x|]; cbn [option_map]; [|reflexivity].
  rewrite eqb_to_nat. destruct (x =? s); reflexivity.
Qed.

(* ---- builder ---- *)
Lemma link_new n m :
  option_map convb (M_CompactTableBuilder_new n m) =
  if Nat.ltb 0 (N.to_nat n) && Nat.ltb 0 (N.to_nat m) then Some (cs_t0 (N.to_nat n) (N.to_nat m)) else None.
Proof.
  unfold M_CompactTableBuilder_new, CompactTableBuilder_new.
  replace (Nat.ltb 0 (N.to_nat n)) with (0 <? n) by (destruct (0 <? n) eqn:E; symmetry; [apply Nat.ltb_lt | apply Nat.ltb_ge]; lia).
  replace (Nat.ltb 0 (N.to_nat m)) with (0 <? m) by (destruct (0 <? m) eqn:E; symmetry; [apply Nat.ltb_lt | apply Nat.ltb_ge]; lia).
  destruct ((0 <? n) && (0 <? m)); [|reflexivity].
  cbn [option_map]. unfold convb, cs_t0, cn. cbn [CompactTableBuilder_num_states CompactTableBuilder_alphabet_size
    CompactTableBuilder_default CompactTableBuilder_base CompactTableBuilder_value CompactTableBuilder_check].
  rewrite !map_repeat. reflexivity.
Qed.

Lemma link_set_default t i d :
  option_map convb (M_CompactTableBuilder_set_default t i d) =
  option_map (fun df => {| ct_n := ct_n (convb t); ct_alpha := ct_alpha (convb t); ct_default := df;
                           ct_base := ct_base (convb t); ct_value := ct_value (convb t); ct_check := ct_check (convb t) |})
             (upd_s (ct_default (convb t)) (N.to_nat i) (N.to_nat d)).
Proof.
  destruct t as [n a df bs v c]. unfold M_CompactTableBuilder_set_default, CompactTableBuilder_set_default, bind.
  cbn [CompactTableBuilder_default convb ct_default]. rewrite <- upd_cn.
  destruct (list_upd df (N.to_nat i) d); reflexivity.
Qed.

Lemma cn_app a b : cn (a ++ b) = cn a ++ cn b.        Proof. apply map_app. Qed.
Lemma cn_repeat x k : cn (repeat x k) = repeat (N.to_nat x) k.   Proof. apply map_repeat. Qed.
Lemma cn_firstn k l : cn (firstn k l) = firstn k (cn l).         Proof. unfold cn. symmetry. apply firstn_map. Qed.

Lemma link_resize t sz : (length (CompactTableBuilder_value t) <= sz)%nat ->
  length (CompactTableBuilder_check t) = length (CompactTableBuilder_value t) ->
  option_map convb (M_CompactTableBuilder_resize t sz) = Some (ct_resize (convb t) sz).
Proof.
  destruct t as [n a df bs v c]. cbn [CompactTableBuilder_value CompactTableBuilder_check]. intros Hl Hc.
  unfold M_CompactTableBuilder_resize, CompactTableBuilder_resize, ct_resize, convb, vec_resize.
  cbn [option_map CompactTableBuilder_num_states CompactTableBuilder_alphabet_size CompactTableBuilder_default
       CompactTableBuilder_base CompactTableBuilder_value CompactTableBuilder_check ct_n ct_alpha ct_default ct_base ct_value ct_check].
  rewrite !len_cn.
  assert (F : forall (l : list N) x, (length l <= sz)%nat ->
             cn (if Nat.leb sz (length l) then firstn sz l else l ++ repeat x (sz - length l))
             = cn l ++ repeat (N.to_nat x) (sz - length l)).
  { intros l x H. destruct (Nat.leb sz (length l)) eqn:E.
    - apply Nat.leb_le in E. assert (sz = length l) by lia. subst sz.
      rewrite firstn_all, Nat.sub_diag. cbn [repeat]. rewrite app_nil_r. reflexivity.
    - rewrite cn_app, cn_repeat. reflexivity. }
  rewrite (F c n) by lia. rewrite (F v 0) by lia. reflexivity.
Qed.

Lemma link_base_conflicts t b succ :
  M_CompactTableBuilder_base_conflicts t b succ = base_conflicts_s (convb t) (N.to_nat b) (convs succ).
Proof.
  unfold M_CompactTableBuilder_base_conflicts, CompactTableBuilder_base_conflicts. rewrite ?bind_ret.
  induction succ as [|[c v] r IH]; [reflexivity|].
  cbn [any_m convs map base_conflicts_s fst]. unfold bind. cbn [convb ct_check ct_n]. rewrite nth_cn.
  destruct (nth_error (CompactTableBuilder_check t) (N.to_nat b + N.to_nat c)) as [x|]; cbn [option_map]; [|reflexivity].
  rewrite eqb_to_nat. destruct (x =? CompactTableBuilder_num_states t); cbn [negb]; [exact IH | reflexivity].
Qed.

(* ---- set_successors: the search for a conflict-free base (while loop) ---- *)
Definition blen_ok (t : CompactTableBuilder) : Prop :=
  length (CompactTableBuilder_check t) = length (CompactTableBuilder_value t).

Lemma resize_some t sz : blen_ok t -> (length (CompactTableBuilder_value t) <= sz)%nat ->
  exists t', M_CompactTableBuilder_resize t sz = Some t' /\ convb t' = ct_resize (convb t) sz /\ blen_ok t'.
Proof.
  intros Hb Hl. pose proof (link_resize t sz Hl Hb) as L.
  destruct t as [n a df bs v c]. unfold blen_ok in *. cbn [CompactTableBuilder_value CompactTableBuilder_check] in *.
  unfold M_CompactTableBuilder_resize, CompactTableBuilder_resize in *.
  eexists. split; [reflexivity|]. cbn [option_map] in L. split; [congruence|].
  cbn [CompactTableBuilder_value CompactTableBuilder_check]. unfold vec_resize.
  destruct (Nat.leb sz (length c)) eqn:E1; destruct (Nat.leb sz (length v)) eqn:E2;
    rewrite ?firstn_length, ?app_length, ?repeat_length;
    try apply Nat.leb_le in E1; try apply Nat.leb_le in E2; try apply Nat.leb_gt in E1; try apply Nat.leb_gt in E2; lia.
Qed.

Definition fb_ok (r : option (loopres CompactTableBuilder (CompactTableBuilder * N))) (m : option (ctable * nat)) : Prop :=
  match r with
  | Some (LoopDone (t', b')) => m = Some (convb t', N.to_nat b') /\ blen_ok t'
  | Some (LoopReturn _) => False
  | None => m = None
  end.

Lemma link_find_base succ : forall fuel t b, blen_ok t -> b + N.of_nat fuel <= 4294967295 ->
  fb_ok (CompactTableBuilder_set_successors_loop1 fuel succ t b)
        (find_base_s fuel (convb t) (N.to_nat b) (convs succ)).
Proof.
  induction fuel as [|fuel IH]; intros t b Hb Hf; [reflexivity|].
  cbn [CompactTableBuilder_set_successors_loop1 find_base_s].
  rewrite link_base_conflicts. unfold bind at 1.
  destruct (base_conflicts_s (convb t) (N.to_nat b) (convs succ)) as [[|]|]; [| split; [reflexivity | exact Hb] | reflexivity].
  unfold u32_add, U32MAX. destruct (b + 1 <=? 4294967295) eqn:E; [|lia]. unfold bind at 1.
  replace (N.to_nat (b + 1)) with (S (N.to_nat b)) by lia.
  cbn [convb ct_value ct_alpha]. rewrite len_cn.
  destruct (Nat.ltb (length (CompactTableBuilder_value t)) (S (N.to_nat b) + N.to_nat (CompactTableBuilder_alphabet_size t))) eqn:E1.
  - destruct (Nat.leb (S (N.to_nat b) + N.to_nat (CompactTableBuilder_alphabet_size t)) (2 * length (CompactTableBuilder_value t))) eqn:E2; [|reflexivity].
    destruct (resize_some t (2 * length (CompactTableBuilder_value t)) Hb ltac:(lia)) as [t' [Hr [Ec Hb']]].
    rewrite Hr. unfold bind at 1.
    change (cn (CompactTableBuilder_value t)) with (ct_value (convb t)).
    replace (2 * length (ct_value (convb t)))%nat with (2 * length (CompactTableBuilder_value t))%nat
      by (cbn [convb ct_value]; rewrite len_cn; reflexivity).
    rewrite <- Ec. replace (S (N.to_nat b)) with (N.to_nat (b + 1)) by lia. apply IH; [exact Hb' | lia].
  - replace (S (N.to_nat b)) with (N.to_nat (b + 1)) by lia. apply IH; [exact Hb | lia].
Qed.

(* ---- store_successors: the for loop ---- *)
Definition st_ok (r : option (loopres CompactTableBuilder CompactTableBuilder)) (t0 : CompactTableBuilder)
                 (m : option (list nat * list nat)) : Prop :=
  match r with
  | Some (LoopDone t') => m = Some (cn (CompactTableBuilder_value t'), cn (CompactTableBuilder_check t')) /\
                          CompactTableBuilder_num_states t' = CompactTableBuilder_num_states t0 /\
                          CompactTableBuilder_alphabet_size t' = CompactTableBuilder_alphabet_size t0 /\
                          CompactTableBuilder_default t' = CompactTableBuilder_default t0 /\
                          CompactTableBuilder_base t' = CompactTableBuilder_base t0
  | Some (LoopReturn _) => False
  | None => m = None
  end.

Lemma store_none b i l : fold_left (store_s b i) l None = None.
Proof. induction l as [|x l IH]; [reflexivity | exact IH]. Qed.

Lemma link_store succ : forall t i b,
  st_ok (CompactTableBuilder_store_successors_loop1 succ i b t) t
        (fold_left (store_s (N.to_nat b) (N.to_nat i)) (convs succ)
                   (Some (cn (CompactTableBuilder_value t), cn (CompactTableBuilder_check t)))).
Proof.
  induction succ as [|[c v] r IH]; intros t i b; [cbn; repeat split|].
  cbn [CompactTableBuilder_store_successors_loop1 convs map fold_left fst snd store_s].
  destruct t as [n a df bs vl ck]. cbn [CompactTableBuilder_check CompactTableBuilder_value].
  rewrite <- !upd_cn. unfold bind at 1.
  destruct (list_upd ck (N.to_nat b + N.to_nat c) i) as [ck'|]; cbn [option_map].
  2:{ cbn [st_ok]. apply store_none. }
  cbn [CompactTableBuilder_value]. unfold bind at 1.
  destruct (list_upd vl (N.to_nat b + N.to_nat c) v) as [vl'|]; cbn [option_map].
  2:{ cbn [st_ok]. apply store_none. }
  specialize (IH (CompactTableBuilder_mk n a df bs vl' ck') i b).
  cbn [CompactTableBuilder_value CompactTableBuilder_check CompactTableBuilder_num_states CompactTableBuilder_alphabet_size
       CompactTableBuilder_default CompactTableBuilder_base] in IH |- *.
  exact IH.
Qed.

Lemma link_store_successors t i b succ :
  option_map convb (M_CompactTableBuilder_store_successors t i b succ) =
  match upd_s (ct_base (convb t)) (N.to_nat i) (N.to_nat b),
        fold_left (store_s (N.to_nat b) (N.to_nat i)) (convs succ) (Some (ct_value (convb t), ct_check (convb t))) with
  | Some base', Some (v, c) =>
      Some {| ct_n := ct_n (convb t); ct_alpha := ct_alpha (convb t); ct_default := ct_default (convb t);
              ct_base := base'; ct_value := v; ct_check := c |}
  | _, _ => None
  end.
Proof.
  destruct t as [n a df bs vl ck].
  unfold M_CompactTableBuilder_store_successors, CompactTableBuilder_store_successors. unfold bind at 1.
  cbn [CompactTableBuilder_base convb ct_base ct_value ct_check ct_n ct_alpha ct_default
       CompactTableBuilder_num_states CompactTableBuilder_alphabet_size CompactTableBuilder_default
       CompactTableBuilder_value CompactTableBuilder_check].
  rewrite <- upd_cn. destruct (list_upd bs (N.to_nat i) b) as [bs'|]; cbn [option_map]; [|reflexivity].
  pose proof (link_store succ (CompactTableBuilder_mk n a df bs' vl ck) i b) as H.
  cbn [CompactTableBuilder_value CompactTableBuilder_check] in H.
  destruct (CompactTableBuilder_store_successors_loop1 succ i b (CompactTableBuilder_mk n a df bs' vl ck)) as [[x|t']|];
    cbn [st_ok] in H; unfold bind.
  - contradiction.
  - destruct H as [H [H1 [H2 [H3 H4]]]]. rewrite H. destruct t' as [n' a' df' bsx v' c'].
    cbn [CompactTableBuilder_num_states CompactTableBuilder_alphabet_size CompactTableBuilder_default CompactTableBuilder_base
         CompactTableBuilder_value CompactTableBuilder_check] in *. subst. reflexivity.
  - rewrite H. reflexivity.
Qed.

(* ---- set_successors and build ---- *)
Lemma link_set_successors t i succ : blen_ok t ->
  N.of_nat (S (length (CompactTableBuilder_value t)) + N.to_nat (CompactTableBuilder_alphabet_size t)) <= 4294967295 ->
  option_map convb (M_CompactTableBuilder_set_successors
                      (S (length (CompactTableBuilder_value t)) + N.to_nat (CompactTableBuilder_alphabet_size t)) t i succ)
  = set_successors_s (convb t) (N.to_nat i) (convs succ).
Proof.
  intros Hb Hf. unfold M_CompactTableBuilder_set_successors, CompactTableBuilder_set_successors, set_successors_s.
  replace (S (length (ct_value (convb t))) + ct_alpha (convb t))%nat
    with (S (length (CompactTableBuilder_value t)) + N.to_nat (CompactTableBuilder_alphabet_size t))%nat
    by (cbn [convb ct_value ct_alpha]; rewrite len_cn; reflexivity).
  assert (Hf0 : 0 + N.of_nat (S (length (CompactTableBuilder_value t)) + N.to_nat (CompactTableBuilder_alphabet_size t)) <= 4294967295)
    by (rewrite N.add_0_l; exact Hf).
  pose proof (link_find_base succ _ t 0 Hb Hf0) as H. change (N.to_nat 0) with 0%nat in H.
  destruct (CompactTableBuilder_set_successors_loop1 _ succ t 0) as [[x|[t1 b]]|]; cbn [fb_ok] in H; unfold bind at 1.
  - contradiction.
  - destruct H as [H _]. rewrite H. rewrite <- link_store_successors.
    destruct (M_CompactTableBuilder_store_successors t1 i b succ); reflexivity.
  - rewrite H. reflexivity.
Qed.

Lemma max_cn l : l <> [] -> option_map N.to_nat (list_max_opt l) = Some (fold_left Nat.max (cn l) 0%nat).
Proof.
  destruct l as [|x r]; [congruence|]. intros _. cbn [list_max_opt option_map cn map fold_left]. f_equal.
  change (Nat.max 0 (N.to_nat x)) with (N.to_nat x).
  revert x. induction r as [|y r IH]; intros x; [reflexivity|].
  cbn [fold_left map]. rewrite IH. f_equal. lia.
Qed.

Lemma link_build t :
  option_map (fun p => convt (snd p)) (M_CompactTableBuilder_build t) =
  match ct_base (convb t) with [] => None | _ => Some (ct_final (convb t)) end.
Proof.
  destruct t as [n a df bs vl ck]. unfold M_CompactTableBuilder_build, CompactTableBuilder_build.
  cbn [CompactTableBuilder_base convb ct_base]. unfold bind at 1.
  destruct bs as [|b0 bs]; [reflexivity|].
  pose proof (max_cn (b0 :: bs) ltac:(discriminate)) as M.
  destruct (list_max_opt (b0 :: bs)) as [mx|]; [|discriminate M]. cbn [option_map] in M |- *.
  injection M as M. unfold ct_final, convt.
  cbn [snd CompactTable_num_states CompactTable_alphabet_size CompactTable_default CompactTable_base CompactTable_value
       CompactTable_check CompactTableBuilder_num_states CompactTableBuilder_alphabet_size CompactTableBuilder_default
       CompactTableBuilder_base CompactTableBuilder_value CompactTableBuilder_check ct_n ct_alpha ct_default ct_base ct_value ct_check].
  rewrite !cn_firstn, M. reflexivity.
Qed.
