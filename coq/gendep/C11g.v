(* C11g -- CharPartition: the regenerated translation of character_sets.rs meets the C11 statements.
   Statements only; every proof is [exact <lemma>].  The statements are about the definitions that
   gen/rs2v.py regenerates from /repo/src on every run (namespace SVG; M_f is the monadic view of
   the Rust function f: None = f panics).  Written by bin/mkgenprops from the lemma statements. *)
Require Import Base GenBase.
Require Import CharSet Partition PartitionSpec PartitionProofs MergeProofs.
From SVG Require Import PartitionGen GenLinkPartition GenPropsPartition.
Open Scope N_scope.

(* ---- the translated functions are the model's functions (convp reads a generated value as a model partition) ---- *)

Theorem C11g_link_cs_contains :
  forall (s : CharSet) (x : N), M_CharSet_contains s x = Some (cs_contains (conv s) x).
Proof. exact link_cs_contains. Qed.
Print Assumptions C11g_link_cs_contains.

Theorem C11g_link_cs_is_before :
  forall (s : CharSet) (x : N), M_CharSet_is_before s x = Some (cs_is_before (conv s) x).
Proof. exact link_cs_is_before. Qed.
Print Assumptions C11g_link_cs_is_before.

Theorem C11g_link_new :
  option_map convp M_CharPartition_new = Some pnew.
Proof. exact link_new. Qed.
Print Assumptions C11g_link_new.

Theorem C11g_link_from_set :
  forall c : CharSet,
       CharSet_end c <= MAX_CHAR ->
       option_map convp (M_CharPartition_from_set c) = Some (pfrom_set (conv c)).
Proof. exact link_from_set. Qed.
Print Assumptions C11g_link_from_set.

Theorem C11g_link_push :
  forall (p : CharPartition) (a b : N),
       b <= MAX_CHAR -> option_map convp (M_CharPartition_push p a b) = Some (ppush (convp p) a b).
Proof. exact link_push. Qed.
Print Assumptions C11g_link_push.

Theorem C11g_link_len :
  forall p : CharPartition, M_CharPartition_len p = Some (plen (convp p)).
Proof. exact link_len. Qed.
Print Assumptions C11g_link_len.

Theorem C11g_link_is_empty :
  forall p : CharPartition, M_CharPartition_is_empty p = Some (plen (convp p) =? 0)%nat.
Proof. exact link_is_empty. Qed.
Print Assumptions C11g_link_is_empty.

Theorem C11g_link_get :
  forall (p : CharPartition) (i : nat), M_CharPartition_get p i = Some (pget (convp p) i).
Proof. exact link_get. Qed.
Print Assumptions C11g_link_get.

Theorem C11g_link_interval :
  forall (p : CharPartition) (i : nat),
       option_map conv (M_CharPartition_interval p i) = pinterval (convp p) i.
Proof. exact link_interval. Qed.
Print Assumptions C11g_link_interval.

Theorem C11g_link_start :
  forall (p : CharPartition) (i : nat), M_CharPartition_start p i = Some (pstart (convp p) i).
Proof. exact link_start. Qed.
Print Assumptions C11g_link_start.

Theorem C11g_link_end :
  forall (p : CharPartition) (i : nat), M_CharPartition_end p i = Some (pend (convp p) i).
Proof. exact link_end. Qed.
Print Assumptions C11g_link_end.

Theorem C11g_link_pick :
  forall (p : CharPartition) (i : nat), M_CharPartition_pick p i = ppick_iv (convp p) i.
Proof. exact link_pick. Qed.
Print Assumptions C11g_link_pick.

Theorem C11g_link_empty_complement :
  forall p : CharPartition,
       M_CharPartition_empty_complement p = Some (pempty_complement (convp p)).
Proof. exact link_empty_complement. Qed.
Print Assumptions C11g_link_empty_complement.

Theorem C11g_link_pick_complement :
  forall p : CharPartition,
       M_CharPartition_pick_complement p = Some (ppick_complement (convp p)).
Proof. exact link_pick_complement. Qed.
Print Assumptions C11g_link_pick_complement.

Theorem C11g_link_valid_class_id :
  forall (p : CharPartition) (c : ClassId),
       M_CharPartition_valid_class_id p c = Some (pvalid (convp p) (convc c)).
Proof. exact link_valid_class_id. Qed.
Print Assumptions C11g_link_valid_class_id.

Theorem C11g_link_num_classes :
  forall p : CharPartition, M_CharPartition_num_classes p = Some (pnum_classes (convp p)).
Proof. exact link_num_classes. Qed.
Print Assumptions C11g_link_num_classes.

Theorem C11g_link_pick_in_class :
  forall (p : CharPartition) (c : ClassId),
       M_CharPartition_pick_in_class p c = ppick (convp p) (convc c).
Proof. exact link_pick_in_class. Qed.
Print Assumptions C11g_link_pick_in_class.

Theorem C11g_link_bs_char :
  forall (fuel : nat) (l : list CharSet) (x : N) (i j : nat),
       char_res (CharPartition_class_of_char_binary_search_loop1 fuel l x i j) =
       bs_char fuel (map conv l) x i j.
Proof. exact link_bs_char. Qed.
Print Assumptions C11g_link_bs_char.

Theorem C11g_link_class_of_char :
  forall (p : CharPartition) (x : N),
       option_map convc (M_CharPartition_class_of_char (S (length (CharPartition_list p))) p x) =
       pclass_of_char (convp p) x.
Proof. exact link_class_of_char. Qed.
Print Assumptions C11g_link_class_of_char.

Theorem C11g_link_bs_cover :
  forall (fuel : nat) (l : list CharSet) (x : N) (i j : nat),
       cover_res (CharPartition_interval_cover_binary_search_loop1 fuel l x i j) =
       bs_cover fuel (map conv l) x i j.
Proof. exact link_bs_cover. Qed.
Print Assumptions C11g_link_bs_cover.

Theorem C11g_link_interval_cover :
  forall (p : CharPartition) (s : CharSet),
       option_map convr (M_CharPartition_interval_cover (S (length (CharPartition_list p))) p s) =
       pinterval_cover (convp p) (conv s).
Proof. exact link_interval_cover. Qed.
Print Assumptions C11g_link_interval_cover.

Theorem C11g_link_class_of_set :
  forall (p : CharPartition) (s : CharSet),
       option_map convres (M_CharPartition_class_of_set (S (length (CharPartition_list p))) p s) =
       pclass_of_set (convp p) (conv s).
Proof. exact link_class_of_set. Qed.
Print Assumptions C11g_link_class_of_set.

Theorem C11g_link_class_of_set_err :
  forall (fuel : nat) (p : CharPartition) (s : CharSet) (e : Error),
       M_CharPartition_class_of_set fuel p s = Some (Err e) -> e = Error_AmbiguousCharSet.
Proof. exact link_class_of_set_err. Qed.
Print Assumptions C11g_link_class_of_set_err.

Theorem C11g_link_good_char_set :
  forall (p : CharPartition) (s : CharSet),
       M_CharPartition_good_char_set (S (length (CharPartition_list p))) p s =
       pgood_char_set (convp p) (conv s).
Proof. exact link_good_char_set. Qed.
Print Assumptions C11g_link_good_char_set.

Theorem C11g_link_class_ids :
  forall (p : CharPartition) (fuel : nat),
       (plen (convp p) + 2 <= fuel)%nat ->
       option_map (map convc) (drain_ids fuel (CharPartition_class_ids p)) =
       Some (pclass_ids (convp p)).
Proof. exact link_class_ids. Qed.
Print Assumptions C11g_link_class_ids.

Theorem C11g_link_picks :
  forall (p : CharPartition) (fuel : nat),
       (plen (convp p) + 2 <= fuel)%nat ->
       drain_picks fuel (CharPartition_picks p) = Some (ppicks (convp p)).
Proof. exact link_picks. Qed.
Print Assumptions C11g_link_picks.

Theorem C11g_link_insert :
  forall (x : CharSet) (l : list CharSet),
       map conv (insert_by_key_N (fun c : CharSet => CharSet_start c) x l) =
       insert_by_start (conv x) (map conv l).
Proof. exact link_insert. Qed.
Print Assumptions C11g_link_insert.

Theorem C11g_link_sort :
  forall l : list CharSet,
       map conv (sort_by_key_N (fun c : CharSet => CharSet_start c) l) = sort_by_start (map conv l).
Proof. exact link_sort. Qed.
Print Assumptions C11g_link_sort.

Theorem C11g_link_scan1 :
  forall (l : list CharSet) (w : N) (prev : CharSet),
       Forall valid_end l ->
       scan_res (CharPartition_try_from_iter_loop1 l w prev) =
       Some (scan_sorted (conv prev) w (map conv l)).
Proof. exact link_scan1. Qed.
Print Assumptions C11g_link_scan1.

Theorem C11g_link_scan2 :
  forall (l : list CharSet) (w : N) (prev : CharSet),
       Forall valid_end l ->
       scan_res (CharPartition_try_from_iter_loop2 l w prev) =
       Some (scan_sorted (conv prev) w (map conv l)).
Proof. exact link_scan2. Qed.
Print Assumptions C11g_link_scan2.

Theorem C11g_link_try_from_iter :
  forall l : list CharSet,
       Forall valid_end l ->
       try_res (M_CharPartition_try_from_iter l) = Some (ptry_from_list (map conv l)).
Proof. exact link_try_from_iter. Qed.
Print Assumptions C11g_link_try_from_iter.

Theorem C11g_link_try_from_list :
  forall l : list CharSet,
       Forall valid_end l ->
       try_res (M_CharPartition_try_from_list l) = Some (ptry_from_list (map conv l)).
Proof. exact link_try_from_list. Qed.
Print Assumptions C11g_link_try_from_list.

(* ---- the C11 statements on the translated code ---- *)

Theorem C11g_new_wf :
  exists p : CharPartition, M_CharPartition_new = Some p /\ gwf p.
Proof. exact g_new_wf. Qed.
Print Assumptions C11g_new_wf.

Theorem C11g_from_set_wf :
  forall c : CharSet,
       gvalid c ->
       exists p : CharPartition,
         M_CharPartition_from_set c = Some p /\ gwf p /\ map conv (CharPartition_list p) = [conv c].
Proof. exact g_from_set_wf. Qed.
Print Assumptions C11g_from_set_wf.

Theorem C11g_push_wf :
  forall (p : CharPartition) (a b : N),
       gwf p ->
       cs_valid (a, b) ->
       (ivs (convp p) <> [] -> snd (last (ivs (convp p)) (0, 0)) < a) ->
       exists q : CharPartition,
         M_CharPartition_push p a b = Some q /\ gwf q /\ ivs (convp q) = ivs (convp p) ++ [(a, b)].
Proof. exact g_push_wf. Qed.
Print Assumptions C11g_push_wf.

Theorem C11g_class_of_char :
  forall (p : CharPartition) (x : N),
       gwf p ->
       good x ->
       exists c : ClassId,
         M_CharPartition_class_of_char (S (plen_of p)) p x = Some c /\
         (forall c' : classid, convc c = c' <-> in_class (convp p) x c').
Proof. exact g_class_of_char. Qed.
Print Assumptions C11g_class_of_char.

Theorem C11g_interval_cover :
  forall (p : CharPartition) (s : CharSet),
       gwf p ->
       gvalid s ->
       exists c : CoverResult,
         M_CharPartition_interval_cover (S (plen_of p)) p s = Some c /\
         (forall i : nat, c = CoverResult_CoveredBy i <-> set_inside (convp p) (conv s) i) /\
         (c = CoverResult_DisjointFromAll <-> set_disjoint (convp p) (conv s)) /\
         (c = CoverResult_Overlaps <->
          (forall i : nat, ~ set_inside (convp p) (conv s) i) /\ ~ set_disjoint (convp p) (conv s)).
Proof. exact g_interval_cover. Qed.
Print Assumptions C11g_interval_cover.

Theorem C11g_class_of_set :
  forall (p : CharPartition) (s : CharSet),
       gwf p ->
       gvalid s ->
       exists r : result ClassId Error,
         M_CharPartition_class_of_set (S (plen_of p)) p s = Some r /\
         (forall c : ClassId,
          r = Ok c <-> (forall x : N, mem x (conv s) -> in_class (convp p) x (convc c))) /\
         (forall e : Error, r = Err e -> e = Error_AmbiguousCharSet).
Proof. exact g_class_of_set. Qed.
Print Assumptions C11g_class_of_set.

Theorem C11g_good_char_set :
  forall (p : CharPartition) (s : CharSet),
       gwf p ->
       gvalid s ->
       exists b : bool,
         M_CharPartition_good_char_set (S (plen_of p)) p s = Some b /\
         (b = true <->
          (exists i : nat, set_inside (convp p) (conv s) i) \/ set_disjoint (convp p) (conv s)).
Proof. exact g_good_char_set. Qed.
Print Assumptions C11g_good_char_set.

Theorem C11g_pick_in_class :
  forall (p : CharPartition) (c : ClassId),
       gwf p ->
       (M_CharPartition_valid_class_id p c = Some true ->
        exists x : N,
          M_CharPartition_pick_in_class p c = Some x /\ good x /\ in_class (convp p) x (convc c)) /\
       (M_CharPartition_valid_class_id p c = Some false -> M_CharPartition_pick_in_class p c = None).
Proof. exact g_pick_in_class. Qed.
Print Assumptions C11g_pick_in_class.

Theorem C11g_valid_class_id :
  forall (p : CharPartition) (c : ClassId),
       gwf p ->
       M_CharPartition_valid_class_id p c = Some true <->
       (exists x : N, good x /\ in_class (convp p) x (convc c)).
Proof. exact g_valid_class_id. Qed.
Print Assumptions C11g_valid_class_id.

Theorem C11g_empty_complement :
  forall p : CharPartition,
       gwf p ->
       M_CharPartition_empty_complement p = Some true <->
       (forall x : N, good x -> covered (ivs (convp p)) x).
Proof. exact g_empty_complement. Qed.
Print Assumptions C11g_empty_complement.

Theorem C11g_class_ids :
  forall (p : CharPartition) (fuel : nat),
       gwf p ->
       (plen_of p + 2 <= fuel)%nat ->
       exists l : list ClassId,
         drain_ids fuel (CharPartition_class_ids p) = Some l /\
         NoDup (map convc l) /\
         (forall c : classid,
          In c (map convc l) <-> (exists x : N, good x /\ in_class (convp p) x c)).
Proof. exact g_class_ids. Qed.
Print Assumptions C11g_class_ids.

Theorem C11g_picks :
  forall (p : CharPartition) (fuel : nat),
       gwf p ->
       (plen_of p + 2 <= fuel)%nat ->
       exists (l : list ClassId) (xs : list N),
         drain_ids fuel (CharPartition_class_ids p) = Some l /\
         drain_picks fuel (CharPartition_picks p) = Some xs /\
         Forall2 (fun (c : ClassId) (x : N) => good x /\ in_class (convp p) x (convc c)) l xs.
Proof. exact g_picks. Qed.
Print Assumptions C11g_picks.

Theorem C11g_try_from_iter_ok :
  forall l : list CharSet,
       Forall gvalid l ->
       pairwise_disjoint (map conv l) ->
       exists p : CharPartition,
         M_CharPartition_try_from_iter l = Some (Ok p) /\
         gwf p /\ Permutation.Permutation (map conv l) (ivs (convp p)).
Proof. exact g_try_from_iter_ok. Qed.
Print Assumptions C11g_try_from_iter_ok.

Theorem C11g_try_from_iter_err :
  forall l : list CharSet,
       Forall gvalid l ->
       ~ pairwise_disjoint (map conv l) ->
       M_CharPartition_try_from_iter l = Some (Err Error_NonDisjointCharSets).
Proof. exact g_try_from_iter_err. Qed.
Print Assumptions C11g_try_from_iter_err.

Theorem C11g_try_from_list_same :
  forall l : list CharSet, M_CharPartition_try_from_list l = M_CharPartition_try_from_iter l.
Proof. exact g_try_from_list_same. Qed.
Print Assumptions C11g_try_from_list_same.

Theorem C11g_example :
  let p :=
         {|
           CharPartition_list :=
             [{| CharSet_start := 10; CharSet_end := 20 |};
              {| CharSet_start := 30; CharSet_end := 40 |}];
           CharPartition_comp_witness := 0
         |} in
       gwf p /\
       M_CharPartition_class_of_char 3 p 35 = Some (ClassId_Interval 1) /\
       M_CharPartition_interval_cover 3 p {| CharSet_start := 25; CharSet_end := 35 |} =
       Some CoverResult_Overlaps /\
       M_CharPartition_interval_cover 3 p {| CharSet_start := 21; CharSet_end := 29 |} =
       Some CoverResult_DisjointFromAll /\
       M_fn_merge_partitions 10 p
         {|
           CharPartition_list := [{| CharSet_start := 15; CharSet_end := 35 |}];
           CharPartition_comp_witness := 0
         |} =
       Some
         {|
           CharPartition_list :=
             [{| CharSet_start := 10; CharSet_end := 14 |};
              {| CharSet_start := 15; CharSet_end := 20 |};
              {| CharSet_start := 21; CharSet_end := 29 |};
              {| CharSet_start := 30; CharSet_end := 35 |};
              {| CharSet_start := 36; CharSet_end := 40 |}];
           CharPartition_comp_witness := 0
         |}.
Proof. exact g_example. Qed.
Print Assumptions C11g_example.
