(* GenLinkFastSet.v -- fast_sets.rs (the sparse set used by the minimizer) regenerated on every run
   (SVG.FastSetGen) refines the model's FastSet of Minimizer.v: an insertion-ordered duplicate-free
   list with swap-remove (fs_insert / fs_remove).  Representation invariant: pos and elem have max
   cells, size <= max, and for every i < size, elem[i] < max and pos[elem[i]] = i. *)
Require Import Base GenBase Automaton Minimizer.
From SVG Require Import FastSetGen.
Require Import ZifyBool ZifyN ZifyNat.
From Coq Require FinFun.
Open Scope N_scope.

(* ---- canonical forms (generic proofs: the shape of the Rust functions does not matter) ---- *)
Ltac gcase :=
  match goal with
  | |- context [match ?x with _ => _ end] =>
      lazymatch x with
      | context [match _ with _ => _ end] => fail
      | _ => first [ is_var x; destruct x | destruct x eqn:? ]
      end
  end.
Ltac gnorm := cbv [bind option_map negb andb orb u32_add u32_sub U32MAX];
  cbn [fst snd FastSet_max FastSet_size FastSet_pos FastSet_elem FastSetIterator_elem FastSetIterator_index FastSetIterator_size].
Ltac gfin := first [ reflexivity | congruence | (exfalso; lia) | solve [repeat (f_equal; try lia)] ].
Ltac gauto := gnorm; repeat (gcase; gnorm); gfin.

Definition contains_c (s : FastSet) (x : N) : option bool :=
  match nth_error (FastSet_pos s) (N.to_nat x) with
  | None => None
  | Some i => if i <? FastSet_size s
              then match nth_error (FastSet_elem s) (N.to_nat i) with Some y => Some (y =? x) | None => None end
              else Some false
  end.
Definition insert_c (s : FastSet) (x : N) : option FastSet :=
  match contains_c s x with
  | None => None
  | Some true => Some s
  | Some false =>
      match list_upd (FastSet_pos s) (N.to_nat x) (FastSet_size s) with
      | None => None
      | Some p' =>
          match list_upd (FastSet_elem s) (N.to_nat (FastSet_size s)) x with
          | None => None
          | Some e' => if FastSet_size s + 1 <=? 4294967295
                       then Some (FastSet_mk (FastSet_max s) (FastSet_size s + 1) p' e') else None
          end
      end
  end.
Definition remove_c (s : FastSet) (x : N) : option FastSet :=
  match contains_c s x with
  | None => None
  | Some false => Some s
  | Some true =>
      match nth_error (FastSet_pos s) (N.to_nat x) with
      | None => None
      | Some i =>
          if 1 <=? FastSet_size s then
            match nth_error (FastSet_elem s) (N.to_nat (FastSet_size s - 1)) with
            | None => None
            | Some y =>
                match list_upd (FastSet_pos s) (N.to_nat y) i with
                | None => None
                | Some p' =>
                    match list_upd (FastSet_elem s) (N.to_nat i) y with
                    | None => None
                    | Some e' => Some (FastSet_mk (FastSet_max s) (FastSet_size s - 1) p' e')
                    end
                end
            end
          else None
      end
  end.

Lemma canon_new m : M_FastSet_new m = Some (FastSet_mk m 0 (repeat 0 (N.to_nat m)) (repeat 0 (N.to_nat m))).
Proof. unfold M_FastSet_new, FastSet_new. gauto. Qed.
Lemma canon_card s : M_FastSet_card s = Some (FastSet_size s).
Proof. unfold M_FastSet_card, FastSet_card. gauto. Qed.
Lemma canon_contains s x : M_FastSet_contains s x = contains_c s x.
Proof. unfold M_FastSet_contains, FastSet_contains, contains_c. gauto. Qed.
Lemma canon_insert s x : M_FastSet_insert s x = insert_c s x.
Proof. unfold M_FastSet_insert, FastSet_insert, insert_c, contains_c. destruct s as [m sz p e]. gauto. Qed.
Lemma canon_remove s x : M_FastSet_remove s x = remove_c s x.
Proof. unfold M_FastSet_remove, FastSet_remove, remove_c, contains_c. destruct s as [m sz p e]. gauto. Qed.
Lemma canon_reset s : M_FastSet_reset s = Some (FastSet_mk (FastSet_max s) 0 (FastSet_pos s) (FastSet_elem s)).
Proof. unfold M_FastSet_reset, FastSet_reset. gauto. Qed.
Lemma canon_iter s : M_FastSet_iter s = Some (FastSetIterator_mk (FastSet_elem s) 0 (N.to_nat (FastSet_size s))).
Proof. unfold M_FastSet_iter, FastSet_iter. gauto. Qed.
Lemma canon_next e i n : M_FastSetIterator_next (FastSetIterator_mk e i n) =
  if Nat.ltb i n then match nth_error e i with Some y => Some (FastSetIterator_mk e (i + 1) n, Some y) | None => None end
  else Some (FastSetIterator_mk e i n, None).
Proof. unfold M_FastSetIterator_next, FastSetIterator_next. gauto. Qed.

(* ---- lists ---- *)
Lemma list_upd_some {A} (l : list A) : forall i x, (i < length l)%nat -> exists l', list_upd l i x = Some l'.
Proof.
  induction l as [|y l IH]; intros i x Hi; cbn [length] in Hi; [lia|].
  destruct i as [|i]; cbn [list_upd]; [eauto|]. destruct (IH i x ltac:(lia)) as [l' ->]. cbn [bind]. eauto.
Qed.
Lemma list_upd_none {A} (l : list A) : forall i x, (length l <= i)%nat -> list_upd l i x = None.
Proof.
  induction l as [|y l IH]; intros i x Hi; [destruct i; reflexivity|].
  cbn [length] in Hi. destruct i as [|i]; [lia|]. cbn [list_upd]. rewrite IH by lia. reflexivity.
Qed.
Lemma list_upd_length {A} (l : list A) : forall i x l', list_upd l i x = Some l' -> length l' = length l.
Proof.
  induction l as [|y l IH]; intros i x l' H; [destruct i; discriminate|].
  destruct i as [|i]; cbn [list_upd] in H.
  - injection H as <-. reflexivity.
  - destruct (list_upd l i x) as [r|] eqn:E; [|discriminate]. cbn [bind] in H. injection H as <-.
    cbn [length]. f_equal. eapply IH; eauto.
Qed.
Lemma list_upd_nth_eq {A} (l : list A) : forall i x l', list_upd l i x = Some l' -> nth_error l' i = Some x.
Proof.
  induction l as [|y l IH]; intros i x l' H; [destruct i; discriminate|].
  destruct i as [|i]; cbn [list_upd] in H.
  - injection H as <-. reflexivity.
  - destruct (list_upd l i x) as [r|] eqn:E; [|discriminate]. cbn [bind] in H. injection H as <-.
    cbn [nth_error]. eapply IH; eauto.
Qed.
Lemma list_upd_nth_neq {A} (l : list A) : forall i x l' j, list_upd l i x = Some l' -> j <> i -> nth_error l' j = nth_error l j.
Proof.
  induction l as [|y l IH]; intros i x l' j H Hj; [destruct i; discriminate|].
  destruct i as [|i]; cbn [list_upd] in H.
  - injection H as <-. destruct j; [lia|reflexivity].
  - destruct (list_upd l i x) as [r|] eqn:E; [|discriminate]. cbn [bind] in H. injection H as <-.
    destruct j as [|j]; [reflexivity|]. cbn [nth_error]. eapply IH; eauto.
Qed.
Lemma nth_error_firstn {A} (l : list A) : forall n i, nth_error (firstn n l) i = if Nat.ltb i n then nth_error l i else None.
Proof.
  induction l as [|y l IH]; intros n i.
  - rewrite firstn_nil. destruct (Nat.ltb i n); destruct i; reflexivity.
  - destruct n as [|n]; [destruct i; reflexivity|]. destruct i as [|i]; [reflexivity|].
    cbn [firstn nth_error]. rewrite IH. reflexivity.
Qed.
Lemma list_ext {A} (l1 : list A) : forall l2, (forall i, nth_error l1 i = nth_error l2 i) -> l1 = l2.
Proof.
  induction l1 as [|a l1 IH]; intros [|b l2] H; auto.
  - specialize (H 0%nat). discriminate.
  - specialize (H 0%nat). discriminate.
  - f_equal. specialize (H 0%nat). cbn in H. congruence. apply IH. intros i. exact (H (S i)).
Qed.

(* ---- the representation invariant and the abstraction ---- *)
Definition elems (s : FastSet) : list N := firstn (N.to_nat (FastSet_size s)) (FastSet_elem s).
Definition abs (s : FastSet) : list nat := map N.to_nat (elems s).

Record inv (s : FastSet) : Prop := {
  inv_u32 : FastSet_max s <= 4294967295;
  inv_lp : length (FastSet_pos s) = N.to_nat (FastSet_max s);
  inv_le : length (FastSet_elem s) = N.to_nat (FastSet_max s);
  inv_sz : FastSet_size s <= FastSet_max s;
  inv_el : forall i y, (i < N.to_nat (FastSet_size s))%nat -> nth_error (FastSet_elem s) i = Some y ->
           y < FastSet_max s /\ nth_error (FastSet_pos s) (N.to_nat y) = Some (N.of_nat i)
}.

Lemma elems_nth s i : nth_error (elems s) i = if Nat.ltb i (N.to_nat (FastSet_size s)) then nth_error (FastSet_elem s) i else None.
Proof. unfold elems. apply nth_error_firstn. Qed.
Lemma elems_length s : inv s -> length (elems s) = N.to_nat (FastSet_size s).
Proof. intros I. unfold elems. rewrite firstn_length. pose proof (inv_le s I). pose proof (inv_sz s I). lia. Qed.

Lemma in_elems s x : In x (elems s) <-> exists i, (i < N.to_nat (FastSet_size s))%nat /\ nth_error (FastSet_elem s) i = Some x.
Proof.
  split.
  - intros H. apply In_nth_error in H. destruct H as [i Hi]. rewrite elems_nth in Hi.
    destruct (Nat.ltb i (N.to_nat (FastSet_size s))) eqn:E; [|discriminate]. exists i. split; [lia|exact Hi].
  - intros (i & Hi & Hn). apply (nth_error_In _ i). rewrite elems_nth.
    replace (Nat.ltb i (N.to_nat (FastSet_size s))) with true by lia. exact Hn.
Qed.

(* membership test: exact, and no panic for x < max *)
Lemma contains_spec s x : inv s -> x < FastSet_max s ->
  exists b, contains_c s x = Some b /\ (b = true <-> In x (elems s)).
Proof.
  intros I Hx. unfold contains_c.
  destruct (nth_error (FastSet_pos s) (N.to_nat x)) as [i|] eqn:Ep.
  2:{ apply nth_error_None in Ep. pose proof (inv_lp s I). lia. }
  destruct (i <? FastSet_size s) eqn:Ei.
  - destruct (nth_error (FastSet_elem s) (N.to_nat i)) as [y|] eqn:Ee.
    2:{ apply nth_error_None in Ee. pose proof (inv_le s I). pose proof (inv_sz s I). lia. }
    exists (y =? x). split; [reflexivity|]. rewrite in_elems. split.
    + intros H. exists (N.to_nat i). split; [lia|]. rewrite Ee. f_equal. lia.
    + intros (j & Hj & Hn). destruct (inv_el s I j x Hj Hn) as [_ Hp]. rewrite Ep in Hp.
      assert (i = N.of_nat j) by congruence. subst i. rewrite Nat2N.id in Ee. rewrite Ee in Hn.
      injection Hn as ->. apply N.eqb_refl.
  - exists false. split; [reflexivity|]. rewrite in_elems. split; [discriminate|].
    intros (j & Hj & Hn). destruct (inv_el s I j x Hj Hn) as [_ Hp]. rewrite Ep in Hp.
    assert (i = N.of_nat j) by congruence. lia.
Qed.

(* the elements are pairwise distinct and below max: at most max of them *)
Lemma elems_nodup s : inv s -> NoDup (elems s).
Proof.
  intros I. apply NoDup_nth_error. intros i j Hi Hij.
  rewrite (elems_length s I) in Hi. rewrite !elems_nth in Hij.
  replace (Nat.ltb i (N.to_nat (FastSet_size s))) with true in Hij by lia.
  destruct (nth_error (FastSet_elem s) i) as [y|] eqn:Ei.
  2:{ apply nth_error_None in Ei. pose proof (inv_le s I). pose proof (inv_sz s I). lia. }
  destruct (Nat.ltb j (N.to_nat (FastSet_size s))) eqn:Ej; [|discriminate].
  symmetry in Hij. destruct (inv_el s I i y ltac:(lia) Ei) as [_ H1]. destruct (inv_el s I j y ltac:(lia) Hij) as [_ H2].
  rewrite H1 in H2. injection H2 as H2. lia.
Qed.
Lemma elems_below s x : inv s -> In x (elems s) -> x < FastSet_max s.
Proof. intros I H. apply in_elems in H. destruct H as (i & Hi & Hn). apply (inv_el s I i x Hi Hn). Qed.

Lemma room s x : inv s -> x < FastSet_max s -> ~ In x (elems s) -> FastSet_size s < FastSet_max s.
Proof.
  intros I Hx Hn.
  assert (Hinc : incl (map N.to_nat (x :: elems s)) (seq 0 (N.to_nat (FastSet_max s)))).
  { intros k Hk. apply in_map_iff in Hk. destruct Hk as (y & <- & Hy). apply in_seq.
    destruct Hy as [<-|Hy]; [lia|]. pose proof (elems_below s y I Hy). lia. }
  assert (Hnd : NoDup (map N.to_nat (x :: elems s))).
  { apply FinFun.Injective_map_NoDup; [intros a b Hab; lia|]. constructor; [exact Hn|apply elems_nodup; exact I]. }
  pose proof (NoDup_incl_length Hnd Hinc) as Hlen.
  rewrite map_length, seq_length in Hlen. cbn [length] in Hlen. rewrite (elems_length s I) in Hlen. lia.
Qed.

(* ---- new / reset ---- *)
Lemma new_spec m : m <= 4294967295 -> inv (FastSet_mk m 0 (repeat 0 (N.to_nat m)) (repeat 0 (N.to_nat m))) /\
  elems (FastSet_mk m 0 (repeat 0 (N.to_nat m)) (repeat 0 (N.to_nat m))) = [].
Proof.
  intros Hm. split; [|reflexivity].
  constructor; cbn [FastSet_max FastSet_size FastSet_pos FastSet_elem]; rewrite ?repeat_length; try lia.
  all: try (intros i y Hi; cbn in Hi; lia).
Qed.
Lemma reset_spec s : inv s -> inv (FastSet_mk (FastSet_max s) 0 (FastSet_pos s) (FastSet_elem s)) /\
  elems (FastSet_mk (FastSet_max s) 0 (FastSet_pos s) (FastSet_elem s)) = [].
Proof.
  intros I. split; [|reflexivity].
  constructor; cbn [FastSet_max FastSet_size FastSet_pos FastSet_elem]; try apply I; try lia.
  all: try (intros i y Hi; cbn in Hi; lia).
Qed.

(* ---- insert ---- *)
Lemma insert_spec s x : inv s -> x < FastSet_max s ->
  exists s', insert_c s x = Some s' /\ inv s' /\ FastSet_max s' = FastSet_max s /\
             elems s' = if existsb (N.eqb x) (elems s) then elems s else elems s ++ [x].
Proof.
  intros I Hx. unfold insert_c. destruct (contains_spec s x I Hx) as (b & -> & Hb).
  destruct b.
  - exists s. split; [reflexivity|]. split; [exact I|]. split; [reflexivity|].
    replace (existsb (N.eqb x) (elems s)) with true; [reflexivity|].
    symmetry. apply existsb_exists. exists x. split; [apply Hb; reflexivity|apply N.eqb_refl].
  - assert (Hn : ~ In x (elems s)) by (intros H; apply Hb in H; discriminate).
    pose proof (room s x I Hx Hn) as Hroom.
    pose proof (inv_lp s I) as Hlp. pose proof (inv_le s I) as Hle. pose proof (inv_u32 s I) as Hu.
    destruct (list_upd_some (FastSet_pos s) (N.to_nat x) (FastSet_size s) ltac:(lia)) as [p' Hp'].
    destruct (list_upd_some (FastSet_elem s) (N.to_nat (FastSet_size s)) x ltac:(lia)) as [e' He'].
    rewrite Hp', He'. replace (FastSet_size s + 1 <=? 4294967295) with true by lia.
    eexists. split; [reflexivity|].
    assert (Hel : elems (FastSet_mk (FastSet_max s) (FastSet_size s + 1) p' e') = elems s ++ [x]).
    { apply list_ext. intros i. rewrite elems_nth. cbn [FastSet_size FastSet_elem].
      destruct (Nat.lt_total i (N.to_nat (FastSet_size s))) as [Hlt|[Heq|Hgt]].
      - rewrite nth_error_app1 by (rewrite (elems_length s I); lia).
        rewrite elems_nth. replace (Nat.ltb i (N.to_nat (FastSet_size s + 1))) with true by lia.
        replace (Nat.ltb i (N.to_nat (FastSet_size s))) with true by lia.
        apply (list_upd_nth_neq _ _ _ _ i He'). lia.
      - subst i. rewrite nth_error_app2 by (rewrite (elems_length s I); lia).
        rewrite (elems_length s I), Nat.sub_diag. cbn [nth_error].
        replace (Nat.ltb (N.to_nat (FastSet_size s)) (N.to_nat (FastSet_size s + 1))) with true by lia.
        apply (list_upd_nth_eq _ _ _ _ He').
      - rewrite nth_error_app2 by (rewrite (elems_length s I); lia). rewrite (elems_length s I).
        replace (Nat.ltb i (N.to_nat (FastSet_size s + 1))) with false by lia.
        destruct (i - N.to_nat (FastSet_size s))%nat as [|k] eqn:Ek; [lia|]. destruct k; reflexivity. }
    split; [|split; [reflexivity|]].
    + constructor; cbn [FastSet_max FastSet_size FastSet_pos FastSet_elem].
      * exact Hu.
      * rewrite (list_upd_length _ _ _ _ Hp'). exact Hlp.
      * rewrite (list_upd_length _ _ _ _ He'). exact Hle.
      * lia.
      * intros i y Hi Hy.
        destruct (Nat.eq_dec i (N.to_nat (FastSet_size s))) as [->|Hne].
        -- rewrite (list_upd_nth_eq _ _ _ _ He') in Hy. injection Hy as <-. split; [exact Hx|].
           rewrite (list_upd_nth_eq _ _ _ _ Hp'). f_equal. lia.
        -- rewrite (list_upd_nth_neq _ _ _ _ i He' Hne) in Hy.
           destruct (inv_el s I i y ltac:(lia) Hy) as [Hy1 Hy2]. split; [exact Hy1|].
           assert (y <> x). { intros ->. apply Hn. apply in_elems. exists i. split; [lia|exact Hy]. }
           rewrite (list_upd_nth_neq _ _ _ _ (N.to_nat y) Hp') by lia. exact Hy2.
    + rewrite Hel. replace (existsb (N.eqb x) (elems s)) with false; [reflexivity|].
      symmetry. apply Bool.not_true_is_false. intros H. apply existsb_exists in H. destruct H as (y & Hy & E).
      apply N.eqb_eq in E. subst y. exact (Hn Hy).
Qed.

(* ---- remove (swap with the last element) ---- *)
Lemma upd_nth_eq {A} (l : list A) : forall i x, (i < length l)%nat -> nth_error (upd l i x) i = Some x.
Proof. induction l as [|y l IH]; intros [|i] x Hi; cbn [length] in Hi; try lia; cbn [upd nth_error]; [reflexivity|apply IH; lia]. Qed.
Lemma upd_nth_neq {A} (l : list A) : forall i j x, i <> j -> nth_error (upd l i x) j = nth_error l j.
Proof. induction l as [|y l IH]; intros [|i] [|j] x Hij; cbn [upd nth_error]; try reflexivity; try lia. apply IH. lia. Qed.
Lemma upd_length {A} (l : list A) : forall i x, length (upd l i x) = length l.
Proof. induction l as [|y l IH]; intros [|i] x; cbn [upd length]; auto. Qed.
Lemma nth_error_removelast {A} (l : list A) j : nth_error (removelast l) j = if Nat.ltb j (length l - 1) then nth_error l j else None.
Proof. rewrite removelast_firstn_len. rewrite <- Nat.sub_1_r. apply nth_error_firstn. Qed.

Lemma index_of_nth : forall l k i v, NoDup l -> nth_error l i = Some v -> index_of v l k = Some (k + i)%nat.
Proof.
  induction l as [|y l IH]; intros k i v Hnd Hi; [destruct i; discriminate|].
  inversion Hnd as [|? ? Hny Hnd']; subst. cbn [index_of]. destruct i as [|i]; cbn [nth_error] in Hi.
  - injection Hi as ->. rewrite Nat.eqb_refl. f_equal. lia.
  - destruct (Nat.eqb v y) eqn:E.
    + apply Nat.eqb_eq in E. subst y. exfalso. apply Hny. eapply nth_error_In; eauto.
    + rewrite (IH (S k) i v Hnd' Hi). f_equal. lia.
Qed.
Lemma index_of_none : forall l k v, ~ In v l -> index_of v l k = None.
Proof.
  induction l as [|y l IH]; intros k v Hn; [reflexivity|]. cbn [index_of].
  destruct (Nat.eqb v y) eqn:E; [apply Nat.eqb_eq in E; subst; exfalso; apply Hn; left; reflexivity|].
  apply IH. intros H. apply Hn. right. exact H.
Qed.

Lemma abs_nth s j : nth_error (abs s) j = option_map N.to_nat (nth_error (elems s) j).
Proof. unfold abs. apply nth_error_map. Qed.
Lemma abs_nodup s : inv s -> NoDup (abs s).
Proof. intros I. unfold abs. apply FinFun.Injective_map_NoDup; [intros a b Hab; lia|apply elems_nodup; exact I]. Qed.
Lemma abs_in s x : In (N.to_nat x) (abs s) <-> In x (elems s).
Proof.
  unfold abs. rewrite in_map_iff. split.
  - intros (y & Hy & Hin). assert (y = x) by lia. subst. exact Hin.
  - intros H. exists x. split; [reflexivity|exact H].
Qed.

Lemma remove_spec s x : inv s -> x < FastSet_max s ->
  exists s', remove_c s x = Some s' /\ inv s' /\ FastSet_max s' = FastSet_max s /\
             abs s' = fs_remove (abs s) (N.to_nat x).
Proof.
  intros I Hx. unfold remove_c. destruct (contains_spec s x I Hx) as (b & Hc & Hb). rewrite Hc.
  destruct b.
  2:{ exists s. split; [reflexivity|]. split; [exact I|]. split; [reflexivity|].
      unfold fs_remove. rewrite index_of_none; [reflexivity|].
      intros H. apply abs_in in H. apply Hb in H. discriminate. }
  assert (Hin : In x (elems s)) by (apply Hb; reflexivity).
  apply in_elems in Hin. destruct Hin as (i & Hi & Hei).
  destruct (inv_el s I i x Hi Hei) as [_ Hpi]. rewrite Hpi.
  pose proof (inv_lp s I) as Hlp. pose proof (inv_le s I) as Hle. pose proof (inv_sz s I) as Hsz.
  replace (1 <=? FastSet_size s) with true by lia.
  set (l := N.to_nat (FastSet_size s - 1)).
  destruct (nth_error (FastSet_elem s) l) as [y|] eqn:Ey.
  2:{ apply nth_error_None in Ey. subst l. lia. }
  destruct (inv_el s I l y ltac:(subst l; lia) Ey) as [Hy Hpy].
  destruct (list_upd_some (FastSet_pos s) (N.to_nat y) (N.of_nat i) ltac:(lia)) as [p' Hp'].
  destruct (list_upd_some (FastSet_elem s) (N.to_nat (N.of_nat i)) y ltac:(lia)) as [e' He'].
  rewrite Hp', He'. eexists. split; [reflexivity|]. rewrite Nat2N.id in He'.
  assert (Hdist : forall j z, (j < N.to_nat (FastSet_size s))%nat -> nth_error (FastSet_elem s) j = Some z -> z = y -> j = l).
  { intros j z Hj Hz ->. destruct (inv_el s I j y Hj Hz) as [_ H1]. rewrite Hpy in H1. injection H1 as H1. lia. }
  split; [|split; [reflexivity|]].
  - constructor; cbn [FastSet_max FastSet_size FastSet_pos FastSet_elem].
    + apply I.
    + rewrite (list_upd_length _ _ _ _ Hp'). exact Hlp.
    + rewrite (list_upd_length _ _ _ _ He'). exact Hle.
    + lia.
    + intros j z Hj Hz.
      destruct (Nat.eq_dec j i) as [->|Hne].
      * rewrite (list_upd_nth_eq _ _ _ _ He') in Hz. injection Hz as <-. split; [exact Hy|].
        apply (list_upd_nth_eq _ _ _ _ Hp').
      * rewrite (list_upd_nth_neq _ _ _ _ j He' Hne) in Hz.
        destruct (inv_el s I j z ltac:(lia) Hz) as [Hz1 Hz2]. split; [exact Hz1|].
        assert (z <> y). { intros E. pose proof (Hdist j z ltac:(lia) Hz E). subst l. lia. }
        rewrite (list_upd_nth_neq _ _ _ _ (N.to_nat z) Hp') by lia. exact Hz2.
  - (* the abstract list: swap-remove at the (unique) index of x *)
    assert (Hax : nth_error (abs s) i = Some (N.to_nat x)).
    { rewrite abs_nth, elems_nth. replace (Nat.ltb i (N.to_nat (FastSet_size s))) with true by lia. rewrite Hei. reflexivity. }
    unfold fs_remove. rewrite (index_of_nth (abs s) 0 i (N.to_nat x) (abs_nodup s I) Hax). cbn [Nat.add].
    assert (Hlen : length (abs s) = N.to_nat (FastSet_size s)) by (unfold abs; rewrite map_length; apply elems_length; exact I).
    assert (Hlast : nth (length (abs s) - 1) (abs s) 0%nat = N.to_nat y).
    { apply nth_error_nth. rewrite abs_nth, elems_nth, Hlen.
      replace (N.to_nat (FastSet_size s) - 1)%nat with l by (subst l; lia).
      replace (Nat.ltb l (N.to_nat (FastSet_size s))) with true by (subst l; lia). rewrite Ey. reflexivity. }
    rewrite Hlast. apply list_ext. intros j.
    rewrite nth_error_removelast, upd_length, Hlen, abs_nth, elems_nth.
    cbn [FastSet_size FastSet_elem].
    replace (N.to_nat (FastSet_size s - 1)) with l by reflexivity.
    replace (N.to_nat (FastSet_size s) - 1)%nat with l by (subst l; lia).
    destruct (Nat.ltb j l) eqn:Ej; [|reflexivity].
    destruct (Nat.eq_dec j i) as [->|Hne].
    + rewrite (list_upd_nth_eq _ _ _ _ He'). rewrite upd_nth_eq by lia. reflexivity.
    + rewrite (list_upd_nth_neq _ _ _ _ j He' Hne). rewrite upd_nth_neq by lia.
      rewrite abs_nth, elems_nth. replace (Nat.ltb j (N.to_nat (FastSet_size s))) with true by (subst l; lia). reflexivity.
Qed.

(* ---- insert at the abstract level ---- *)
Lemma existsb_to_nat x l : existsb (Nat.eqb (N.to_nat x)) (map N.to_nat l) = existsb (N.eqb x) l.
Proof.
  induction l as [|y l IH]; [reflexivity|]. cbn [map existsb]. rewrite IH. f_equal.
  destruct (N.eqb x y) eqn:E1; destruct (Nat.eqb (N.to_nat x) (N.to_nat y)) eqn:E2; try reflexivity; exfalso; lia.
Qed.
Lemma insert_abs s x : inv s -> x < FastSet_max s ->
  exists s', insert_c s x = Some s' /\ inv s' /\ FastSet_max s' = FastSet_max s /\
             abs s' = fs_insert (abs s) (N.to_nat x).
Proof.
  intros I Hx. destruct (insert_spec s x I Hx) as (s' & H1 & H2 & H3 & H4). exists s'.
  split; [exact H1|]. split; [exact H2|]. split; [exact H3|].
  unfold abs, fs_insert. rewrite H4.
  rewrite existsb_to_nat.
  destruct (existsb (N.eqb x) (elems s)); [reflexivity|]. rewrite map_app. reflexivity.
Qed.
