(* GenLinkLiteral.v -- the literal parser regenerated from /repo/src/smt_strings.rs on every run
   (SVG.LiteralGen: SmtString::make, new_automaton, the seven ParsingAutomaton methods and
   parse_smt_literal) coincides with the hand-written model Literal.v, about which the C08 theorems
   are proved.  The automaton methods are linked in the strong form  M_f p x = unconv (model (conv p) x)
   so that callers can be rewritten; accept is linked under the bound escape_code < 2^28 (then the
   32-bit shift loses no bit), which the coherence invariant of LiteralProofs.v provides along any run. *)
Require Import Base GenBase Literal LiteralProofs.
From SVG Require Import LiteralGen.
Require Import ZifyBool ZifyN ZifyNat.
Open Scope N_scope.

Definition convst (s : State) : lstate :=
  match s with
  | State_Init => LInit | State_AfterSlash => LAfterSlash | State_AfterSlashU => LAfterSlashU
  | State_AfterSlashUHex => LAfterSlashUHex | State_AfterSlashUBrace => LAfterSlashUBrace
  end.
Definition unconvst (s : lstate) : State :=
  match s with
  | LInit => State_Init | LAfterSlash => State_AfterSlash | LAfterSlashU => State_AfterSlashU
  | LAfterSlashUHex => State_AfterSlashUHex | LAfterSlashUBrace => State_AfterSlashUBrace
  end.
Definition convpa (p : ParsingAutomaton) : pa :=
  mkpa (convst (ParsingAutomaton_state p)) (ParsingAutomaton_string_so_far p) (ParsingAutomaton_pending p)
       (ParsingAutomaton_pending_idx p) (ParsingAutomaton_escape_code p).
Definition unconvpa (p : pa) : ParsingAutomaton :=
  ParsingAutomaton_mk (unconvst (pa_state p)) (pa_so_far p) (pa_buf p) (pa_idx p) (pa_code p).

Lemma convst_unconvst s : convst (unconvst s) = s.       Proof. destruct s; reflexivity. Qed.
Lemma unconvst_convst s : unconvst (convst s) = s.       Proof. destruct s; reflexivity. Qed.
Lemma convpa_unconvpa p : convpa (unconvpa p) = p.
Proof. destruct p as [a b c d e]. cbv [convpa unconvpa ParsingAutomaton_state ParsingAutomaton_string_so_far ParsingAutomaton_pending
  ParsingAutomaton_pending_idx ParsingAutomaton_escape_code pa_state pa_so_far pa_buf pa_idx pa_code]. rewrite convst_unconvst. reflexivity. Qed.
Lemma unconvpa_convpa p : unconvpa (convpa p) = p.
Proof. destruct p as [a b c d e]. cbv [convpa unconvpa ParsingAutomaton_state ParsingAutomaton_string_so_far ParsingAutomaton_pending
  ParsingAutomaton_pending_idx ParsingAutomaton_escape_code pa_state pa_so_far pa_buf pa_idx pa_code]. rewrite unconvst_convst. reflexivity. Qed.

(* the primitives of GenBase are the model's *)
Lemma upd_eq l i x : list_upd l i x = lit_upd l i x.
Proof. revert i; induction l as [|y r IH]; intros [|k]; cbn; try reflexivity. rewrite IH. reflexivity. Qed.
Lemma digit_eq x : char_to_digit16 x = hexval x.         Proof. reflexivity. Qed.
Lemma hexdigit_eq x : char_is_hexdigit x = is_hex x.     Proof. reflexivity. Qed.
Lemma slice0 {A} (l : list A) n :
  slice_range l 0 n = if Nat.leb n (length l) then Some (firstn n l) else None.
Proof. unfold slice_range. cbn [Nat.leb andb skipn]. rewrite Nat.sub_0_r. reflexivity. Qed.
Lemma shl4 c : c < 268435456 -> u32_shl c 4 = N.shiftl c 4.
Proof.
  intros H. unfold u32_shl. apply N.mod_small. rewrite N.shiftl_mul_pow2. change (2 ^ 4) with 16. lia.
Qed.

Ltac gunfold :=
  autounfold with rs2v in *;
  cbv [convpa unconvpa convst unconvst option_map bind
       ParsingAutomaton_state ParsingAutomaton_string_so_far ParsingAutomaton_pending ParsingAutomaton_pending_idx
       ParsingAutomaton_escape_code SmtString_s pa_state pa_so_far pa_buf pa_idx pa_code
       new_parsing_automaton pa_set_state pa_push pa_pending pa_consume pa_flush_pending pa_close_escape_seq
       pa_add_hex clampc MAXC REPLC orb andb negb] in *.

Ltac gcases :=
  repeat match goal with
         | |- context [match ?x with _ => _ end] =>
             lazymatch x with
             | context [match _ with _ => _ end] => fail
             | _ => first [ is_var x; destruct x | destruct x eqn:? ]
             end
         end.

Ltac ctor_eq :=
  repeat match goal with
         | |- ?x = ?x => reflexivity
         | |- @eq N _ _ => lia
         | |- @eq nat _ _ => lia
         | |- ?f ?a = ?f ?b => apply (f_equal f)
         | |- ?f ?a ?c = ?f ?b ?d => apply (f_equal2 f)
         end.
Ltac gfinish := first [ reflexivity | congruence | (exfalso; lia) | solve [ctor_eq] ].

Ltac glit := intros; repeat match goal with p : ParsingAutomaton |- _ => destruct p as [[] ? ? ? ?] end;
             gunfold; rewrite ?upd_eq, ?slice0, ?digit_eq, ?hexdigit_eq; gunfold; gcases; gfinish.

(* i32::MAX as a length (never written as a nat numeral) *)
Definition MAXLEN : nat := Z.to_nat 2147483647.

Lemma link_make a : option_map SmtString_s (M_SmtString_make a) =
  if Nat.ltb MAXLEN (length a) then None else Some a.
Proof.
  unfold M_SmtString_make, SmtString_make, MAX_LENGTH, MAXLEN, bind.
  rewrite ?Nat.ltb_antisym. destruct (Nat.leb (length a) (Z.to_nat 2147483647)); reflexivity.
Qed.

Lemma link_new : M_fn_new_automaton = Some (unconvpa new_parsing_automaton).
Proof. reflexivity. Qed.

Lemma link_push p x : M_ParsingAutomaton_push p x = Some (unconvpa (pa_push (convpa p) x)).
Proof. glit. Qed.

Lemma link_pending p x : M_ParsingAutomaton_pending_fn p x = option_map unconvpa (pa_pending (convpa p) x).
Proof. glit. Qed.

Lemma link_flush_pending p : M_ParsingAutomaton_flush_pending p = option_map unconvpa (pa_flush_pending (convpa p)).
Proof. glit. Qed.

Lemma link_close_escape_seq p :
  M_ParsingAutomaton_close_escape_seq p = Some (unconvpa (pa_close_escape_seq (convpa p))).
Proof. glit. Qed.

(* callers are linked through the lemmas of their callees *)
Ltac lrew :=
  repeat first [ rewrite link_push | rewrite link_pending | rewrite link_flush_pending | rewrite link_close_escape_seq ].
Ltac lcase :=
  repeat (match goal with
          | |- context [match ?x with _ => _ end] =>
              lazymatch x with
              | context [match _ with _ => _ end] => fail
              | _ => destruct x eqn:?
              end
          end; cbn [bind option_map]; rewrite ?convpa_unconvpa).

Lemma link_consume p x : M_ParsingAutomaton_consume p x = option_map unconvpa (pa_consume (convpa p) x).
Proof.
  unfold M_ParsingAutomaton_consume, ParsingAutomaton_consume, pa_consume. lrew.
  change 92 with 92. destruct (x =? 92); cbn [bind option_map].
  - destruct (pa_pending (convpa p) x) as [q|]; cbn [bind option_map]; [|reflexivity].
    destruct q. reflexivity.
  - reflexivity.
Qed.

Lemma link_add_hex p x : ParsingAutomaton_escape_code p < 268435456 ->
  M_ParsingAutomaton_add_hex p x = option_map unconvpa (pa_add_hex (convpa p) x).
Proof.
  intros Hc. unfold M_ParsingAutomaton_add_hex, ParsingAutomaton_add_hex, pa_add_hex.
  rewrite digit_eq. destruct (hexval x) as [h|]; cbn [bind]; [|reflexivity].
  rewrite (shl4 _ Hc). lrew. destruct p as [st sf pe ix ec].
  cbv [convpa ParsingAutomaton_state ParsingAutomaton_string_so_far ParsingAutomaton_pending ParsingAutomaton_pending_idx
       ParsingAutomaton_escape_code pa_state pa_so_far pa_buf pa_idx pa_code].
  match goal with |- context [pa_pending ?a x] => destruct (pa_pending a x) as [q|] end; [destruct q|]; reflexivity.
Qed.

Ltac anorm :=
  cbv [bind option_map];
  cbn [convpa convst unconvst pa_set_state pa_close_escape_seq
       ParsingAutomaton_state ParsingAutomaton_string_so_far ParsingAutomaton_pending ParsingAutomaton_pending_idx
       ParsingAutomaton_escape_code pa_state pa_so_far pa_buf pa_idx pa_code].
Ltac astep :=
  match goal with
  | |- context [M_ParsingAutomaton_consume ?p ?x] => rewrite (link_consume p x)
  | |- context [M_ParsingAutomaton_pending_fn ?p ?x] => rewrite (link_pending p x)
  | |- context [M_ParsingAutomaton_flush_pending ?p] => rewrite (link_flush_pending p)
  | |- context [M_ParsingAutomaton_close_escape_seq ?p] => rewrite (link_close_escape_seq p)
  | |- context [convpa (unconvpa ?q)] => rewrite (convpa_unconvpa q)
  | |- context [convst (unconvst ?s)] => rewrite (convst_unconvst s)
  | |- context [ParsingAutomaton_pending_idx (unconvpa ?q)] =>
      change (ParsingAutomaton_pending_idx (unconvpa q)) with (pa_idx q)
  | |- context [ParsingAutomaton_escape_code (unconvpa ?q)] =>
      change (ParsingAutomaton_escape_code (unconvpa q)) with (pa_code q)
  | |- context [ParsingAutomaton_state (unconvpa ?q)] =>
      change (ParsingAutomaton_state (unconvpa q)) with (unconvst (pa_state q))
  | |- context [match ?x with _ => _ end] =>
      lazymatch x with
      | context [match _ with _ => _ end] => fail
      | _ => first [ is_var x; destruct x | destruct x eqn:? ]
      end
  end; anorm.

Lemma link_accept p x : ParsingAutomaton_escape_code p < 268435456 ->
  M_ParsingAutomaton_accept p x = option_map unconvpa (pa_accept (convpa p) x).
Proof.
  intros Hc. unfold M_ParsingAutomaton_accept, ParsingAutomaton_accept, pa_accept.
  rewrite ?hexdigit_eq, ?(link_add_hex _ _ Hc). change MAX_CHAR with MAXC.
  destruct p as [st sf pe ix ec]. anorm.
  repeat astep; gfinish.
Qed.

(* ---- the loop over the characters of the text, along a coherent run ---- *)
Lemma hexfold_bound h : all_hex h -> forall acc, hexfold acc h < (acc + 1) * 16 ^ N.of_nat (length h).
Proof.
  intros H. induction H as [|x r Hx Hr IH]; intros acc.
  - cbn. lia.
  - unfold hexfold in *. cbn [fold_left length]. destruct (is_hex_val x Hx) as [d [Hd Hlt]]. rewrite Hd.
    specialize (IH (16 * acc + d)). rewrite Nat2N.inj_succ, N.pow_succ_r'. nia.
Qed.

Lemma coh_code_bound p used : coh p used -> pa_code p < 268435456.
Proof.
  intros [_ H]. destruct (pa_state p).
  - destruct H as [_ ->]. lia.
  - destruct H as [_ ->]. lia.
  - destruct H as [_ ->]. lia.
  - destruct H as (h & _ & Hh & Hl & ->). pose proof (hexfold_bound h Hh 0) as B. unfold hexvalue.
    assert (16 ^ N.of_nat (length h) <= 16 ^ 3) by (apply N.pow_le_mono_r; lia).
    change (16 ^ 3) with 4096 in *. lia.
  - destruct H as (h & _ & Hh & Hl & ->). pose proof (hexfold_bound h Hh 0) as B. unfold hexvalue.
    assert (16 ^ N.of_nat (length h) <= 16 ^ 5) by (apply N.pow_le_mono_r; lia).
    change (16 ^ 5) with 1048576 in *. lia.
Qed.

Lemma link_run t : forall p used, coh (convpa p) used ->
  match fn_parse_smt_literal_loop1 t p with
  | Some (LoopDone q) => pa_run (convpa p) t = Some (convpa q)
  | Some (LoopReturn _) => False
  | None => pa_run (convpa p) t = None
  end.
Proof.
  induction t as [|x r IH]; intros p used Hc; cbn [fn_parse_smt_literal_loop1 pa_run]; [reflexivity|].
  assert (Hb : ParsingAutomaton_escape_code p < 268435456) by exact (coh_code_bound _ _ Hc).
  rewrite (link_accept p x Hb).
  destruct (accept_step (convpa p) used x Hc) as (q & used' & Hq & Hcq & _).
  rewrite Hq. cbn [option_map bind].
  specialize (IH (unconvpa q) used'). rewrite convpa_unconvpa in IH. apply IH. exact Hcq.
Qed.

Lemma link_parse text :
  option_map SmtString_s (M_fn_parse_smt_literal text) =
  match parse_smt_literal text with
  | Some w => if Nat.ltb MAXLEN (length w) then None else Some w
  | None => None
  end.
Proof.
  unfold M_fn_parse_smt_literal, fn_parse_smt_literal, parse_smt_literal.
  rewrite link_new. cbn [bind].
  pose proof (link_run text (unconvpa new_parsing_automaton) []) as H.
  rewrite convpa_unconvpa in H. specialize (H coh_init).
  destruct (fn_parse_smt_literal_loop1 text (unconvpa new_parsing_automaton)) as [[s|q]|]; cbn [bind].
  - contradiction.
  - rewrite H. cbn [bind]. rewrite link_flush_pending.
    destruct (pa_flush_pending (convpa q)) as [q'|]; cbn [bind option_map]; [|reflexivity].
    rewrite <- link_make. destruct q'. reflexivity.
  - rewrite H. reflexivity.
Qed.
