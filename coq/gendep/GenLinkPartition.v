(* GenLinkPartition.v -- the CharPartition functions and merge_partitions regenerated from
   /repo/src/character_sets.rs on every run (SVG.PartitionGen) coincide with the hand-written model
   Partition.v, about which the C11 / C12 theorems are proved.  Loops of the Rust code are translated
   to fixpoints on an explicit fuel; the link lemmas for them are inductions on that fuel. *)
Require Import Base GenBase CharSet Partition.
From SVG Require Import PartitionGen.
Require Import ZifyBool ZifyN ZifyNat.
Open Scope N_scope.

Definition conv (s : CharSet) : cs := (CharSet_start s, CharSet_end s).
Definition convp (p : CharPartition) : part :=
  {| ivs := map conv (CharPartition_list p); wit := CharPartition_comp_witness p |}.
Definition convc (c : ClassId) : classid :=
  match c with ClassId_Interval i => CInt i | ClassId_Complement => CComp end.
Definition convr (c : CoverResult) : cover :=
  match c with CoverResult_CoveredBy i => CoveredBy i | CoverResult_DisjointFromAll => DisjointFromAll
             | CoverResult_Overlaps => Overlaps end.

Lemma conv_inj s o : conv s = conv o -> s = o.
Proof. destruct s as [a b], o as [c d]. cbv [conv CharSet_start CharSet_end]. congruence. Qed.

Ltac gunfold :=
  autounfold with rs2v in *;
  cbv [conv convp convc convr option_map bind fst snd CharSet_start CharSet_end
       CharPartition_list CharPartition_comp_witness ivs wit
       u32_add u32_mul u32_sub U32MAX usize_add usize_sub usize_div
       cs_contains cs_is_before pnew plen pfrom_set ppush pget pstart pend pinterval ppick_iv
       pempty_complement ppick_complement pvalid pnum_classes ppick SENT MAXC
       orb andb negb] in *.

Ltac gcases :=
  repeat match goal with
         | |- context [match ?x with _ => _ end] =>
             lazymatch x with
             | context [match _ with _ => _ end] => fail
             | _ => first [ is_var x; destruct x | destruct x eqn:? ]
             end
         end.

Ltac gbools :=
  repeat match goal with
         | |- context [N.leb ?a ?b] => destruct (N.leb a b) eqn:?
         | |- context [N.ltb ?a ?b] => destruct (N.ltb a b) eqn:?
         | |- context [N.eqb ?a ?b] => destruct (N.eqb a b) eqn:?
         | |- context [Nat.leb ?a ?b] => destruct (Nat.leb a b) eqn:?
         | |- context [Nat.ltb ?a ?b] => destruct (Nat.ltb a b) eqn:?
         | |- context [Nat.eqb ?a ?b] => destruct (Nat.eqb a b) eqn:?
         end.

Ltac ctor_eq :=
  repeat match goal with
         | |- ?x = ?x => reflexivity
         | |- @eq N _ _ => lia
         | |- @eq nat _ _ => lia
         | |- ?f ?a = ?f ?b => apply (f_equal f)
         | |- ?f ?a ?c = ?f ?b ?d => apply (f_equal2 f)
         end.

Ltac gfinish :=
  first [ reflexivity | congruence | (exfalso; lia) | solve [ctor_eq] ].

Ltac glink := intros; gunfold; gcases; gbools; gfinish.

(* ---- the element functions used by the searches ---- *)
Lemma link_cs_contains s x : M_CharSet_contains s x = Some (cs_contains (conv s) x).
Proof. destruct s. glink. Qed.
Lemma link_cs_is_before s x : M_CharSet_is_before s x = Some (cs_is_before (conv s) x).
Proof. destruct s. glink. Qed.

(* ---- constructors ---- *)
Lemma link_new : option_map convp M_CharPartition_new = Some pnew.
Proof. reflexivity. Qed.

Lemma link_from_set c : CharSet_end c <= MAX_CHAR ->
  option_map convp (M_CharPartition_from_set c) = Some (pfrom_set (conv c)).
Proof. destruct c. glink. Qed.

Lemma link_push p a b : b <= MAX_CHAR ->
  option_map convp (M_CharPartition_push p a b) = Some (ppush (convp p) a b).
Proof.
  destruct p as [l w]. intros Hb. gunfold.
  destruct (a <=? w) eqn:E.
  - destruct (b + 1 <=? 4294967295) eqn:E2; [|exfalso; lia].
    gunfold. rewrite map_app. reflexivity.
  - gunfold. rewrite map_app. reflexivity.
Qed.

(* ---- accessors ---- *)

Lemma nth_error_map_conv l i : nth_error (map conv l) i = option_map conv (nth_error l i).
Proof. revert i; induction l as [|x l IH]; intros [|i]; cbn; auto. Qed.

Lemma nth_conv l i : nth i (map conv l) (SENT, SENT) =
  match nth_error l i with Some s => conv s | None => (SENT, SENT) end.
Proof. revert i; induction l as [|x l IH]; intros [|i]; cbn; auto. Qed.

Lemma nth_error_lt {A} (l : list A) i : Nat.ltb i (length l) = true -> exists x, nth_error l i = Some x.
Proof.
  intros H. apply Nat.ltb_lt in H. destruct (nth_error l i) eqn:E; [eauto|].
  apply nth_error_None in E. lia.
Qed.
Lemma nth_error_ge {A} (l : list A) i : Nat.ltb i (length l) = false -> nth_error l i = None.
Proof. intros H. apply Nat.ltb_ge in H. apply nth_error_None. exact H. Qed.

(* generic proof of the accessor links: unfold, express the model's nth / nth_error on the mapped list
   by nth_error on the list, case analysis innermost first, then arithmetic with the length facts *)
Ltac nth_facts :=
  repeat match goal with
         | H : nth_error ?l ?i = Some _ |- _ =>
             lazymatch goal with
             | _ : (i < length l)%nat |- _ => fail
             | _ => assert (i < length l)%nat by (apply nth_error_Some; rewrite H; discriminate)
             end
         | H : nth_error ?l ?i = None |- _ =>
             lazymatch goal with
             | _ : (length l <= i)%nat |- _ => fail
             | _ => assert (length l <= i)%nat by (apply nth_error_None; exact H)
             end
         end.
Ltac glist :=
  intros;
  repeat match goal with p : CharPartition |- _ => destruct p as [? ?] end;
  repeat match goal with c : ClassId |- _ => destruct c end;
  gunfold; rewrite ?nth_conv, ?nth_error_map_conv, ?map_length; gunfold;
  repeat (match goal with
          | |- context [match ?x with _ => _ end] =>
              lazymatch x with
              | context [match _ with _ => _ end] => fail
              | _ => first [ is_var x; destruct x | destruct x eqn:? ]
              end
          end; gunfold);
  gbools; nth_facts; cbn [length] in *;
  first [ reflexivity | congruence | (exfalso; lia) | solve [ctor_eq] ].

Lemma link_len p : M_CharPartition_len p = Some (plen (convp p)).
Proof. glist. Qed.

Lemma link_is_empty p : M_CharPartition_is_empty p = Some (Nat.eqb (plen (convp p)) 0).
Proof. glist. Qed.

Lemma link_get p i : M_CharPartition_get p i = Some (pget (convp p) i).
Proof. glist. Qed.

Lemma link_interval p i : option_map conv (M_CharPartition_interval p i) = pinterval (convp p) i.
Proof. glist. Qed.

Lemma link_start p i : M_CharPartition_start p i = Some (pstart (convp p) i).
Proof. glist. Qed.

Lemma link_end p i : M_CharPartition_end p i = Some (pend (convp p) i).
Proof. glist. Qed.

(* pick(i) panics exactly when i is out of range *)
Lemma link_pick p i : M_CharPartition_pick p i = ppick_iv (convp p) i.
Proof. glist. Qed.

Lemma link_empty_complement p : M_CharPartition_empty_complement p = Some (pempty_complement (convp p)).
Proof. glist. Qed.

Lemma link_pick_complement p : M_CharPartition_pick_complement p = Some (ppick_complement (convp p)).
Proof. glist. Qed.

Lemma link_valid_class_id p c : M_CharPartition_valid_class_id p c = Some (pvalid (convp p) (convc c)).
Proof. glist. Qed.

Lemma link_num_classes p : M_CharPartition_num_classes p = Some (pnum_classes (convp p)).
Proof. glist. Qed.

(* pick_in_class panics exactly where the model does: interval index out of range, or the
   complementary class of a partition that covers the alphabet (assert!) *)
Lemma link_pick_in_class p c : M_CharPartition_pick_in_class p c = ppick (convp p) (convc c).
Proof. glist. Qed.

(* ---- loops: one step = rewrite a call of a translated function by its link lemma, or case
   analysis on the innermost scrutinee; leaves are closed by reflexivity, arithmetic contradiction or
   the induction hypothesis ---- *)
Ltac lnorm := cbv [bind option_map cs_contains cs_is_before]; cbn [fst snd conv CharSet_start CharSet_end].
Ltac Zify.zify_post_hook ::= Z.div_mod_to_equations.
Ltac lstep :=
  match goal with
  | |- context [nth_error ?l ?a] =>
      match goal with
      | |- context [nth_error l ?b] =>
          tryif constr_eq a b then fail else (replace a with b by lia)
      end
  | |- context [M_CharSet_contains ?s ?x] => rewrite (link_cs_contains s x)
  | |- context [M_CharSet_is_before ?s ?x] => rewrite (link_cs_is_before s x)
  | |- context [nth_error (map conv ?l) ?i] => rewrite (nth_error_map_conv l i)
  | |- context [match ?x with _ => _ end] =>
      lazymatch x with
      | context [match _ with _ => _ end] => fail
      | _ => destruct x eqn:?
      end
  end; lnorm.
Ltac lleaf IH :=
  first [ reflexivity | discriminate | (exfalso; lia) | congruence
        | (rewrite IH; first [ reflexivity | (f_equal; lia) ]) | (f_equal; lia) ].

(* ---- class_of_char: the binary search, same fuel on both sides ---- *)
Definition char_res (r : option (loopres ClassId (nat * nat))) : option classid :=
  match r with
  | Some (LoopReturn c) => Some (convc c)
  | Some (LoopDone _) => Some CComp
  | None => None
  end.

Lemma link_bs_char fuel l x i j :
  char_res (CharPartition_class_of_char_binary_search_loop1 fuel l x i j) = bs_char fuel (map conv l) x i j.
Proof.
  revert i j; induction fuel as [|fuel IH]; intros i j; [reflexivity|].
  cbn [CharPartition_class_of_char_binary_search_loop1 bs_char].
  cbv [usize_sub usize_div usize_add cs_contains cs_is_before]. lnorm.
  repeat lstep; lleaf IH.
Qed.

Lemma link_class_of_char p x :
  option_map convc (M_CharPartition_class_of_char (S (length (CharPartition_list p))) p x)
  = pclass_of_char (convp p) x.
Proof.
  destruct p as [l w]. autounfold with rs2v. unfold pclass_of_char, convp, plen, ivs, CharPartition_list.
  rewrite map_length, <- link_bs_char. unfold bind.
  destruct (CharPartition_class_of_char_binary_search_loop1 _ l x 0 (length l)) as [[c|[a b]]|]; reflexivity.
Qed.

(* ---- interval_cover ---- *)
Definition cover_res (r : option (loopres nat (nat * nat))) : option nat :=
  match r with
  | Some (LoopReturn i) => Some i
  | Some (LoopDone (i, _)) => Some i
  | None => None
  end.

Lemma link_bs_cover fuel l x i j :
  cover_res (CharPartition_interval_cover_binary_search_loop1 fuel l x i j) = bs_cover fuel (map conv l) x i j.
Proof.
  revert i j; induction fuel as [|fuel IH]; intros i j; [reflexivity|].
  cbn [CharPartition_interval_cover_binary_search_loop1 bs_cover].
  replace (i + 1)%nat with (S i) by lia.
  cbv [usize_sub usize_div usize_add]. lnorm.
  repeat lstep; lleaf IH.
Qed.

Lemma link_interval_cover p s :
  option_map convr (M_CharPartition_interval_cover (S (length (CharPartition_list p))) p s)
  = pinterval_cover (convp p) (conv s).
Proof.
  pose proof (link_get p) as G. pose proof (link_start p) as S1.
  unfold M_CharPartition_interval_cover, CharPartition_interval_cover, M_CharPartition_interval_cover_binary_search,
    CharPartition_interval_cover_binary_search, pinterval_cover.
  pose proof (link_bs_cover (S (length (CharPartition_list p))) (CharPartition_list p) (CharSet_start s) 0
                            (length (CharPartition_list p))) as H.
  replace (plen (convp p)) with (length (CharPartition_list p)) by (destruct p; cbn; rewrite map_length; reflexivity).
  change (ivs (convp p)) with (map conv (CharPartition_list p)).
  change (fst (conv s)) with (CharSet_start s). change (snd (conv s)) with (CharSet_end s).
  rewrite <- H. unfold bind at 1 3.
  destruct (CharPartition_interval_cover_binary_search_loop1 _ _ _ _ _) as [[i|[i j]]|]; cbn [cover_res]; try reflexivity.
  all: cbn [bind]; rewrite G; unfold bind;
    destruct (pget (convp p) i) as [ai bi]; cbn [fst snd];
    rewrite S1;
    replace (i + 1)%nat with (S i) by lia;
    destruct (CharSet_start s <? ai), (CharSet_end s <? ai), (CharSet_start s <=? bi), (CharSet_end s <=? bi),
             (CharSet_end s <? pstart (convp p) (S i)); reflexivity.
Qed.

Definition convres (r : result ClassId Error) : option classid :=
  match r with Ok c => Some (convc c) | Err _ => None end.

Lemma link_class_of_set p s :
  option_map convres (M_CharPartition_class_of_set (S (length (CharPartition_list p))) p s)
  = pclass_of_set (convp p) (conv s).
Proof.
  unfold M_CharPartition_class_of_set, CharPartition_class_of_set, pclass_of_set.
  rewrite <- link_interval_cover. unfold bind.
  destruct (M_CharPartition_interval_cover _ p s) as [[i| |]|]; reflexivity.
Qed.

(* an Err result is always AmbiguousCharSet *)
Lemma link_class_of_set_err fuel p s e :
  M_CharPartition_class_of_set fuel p s = Some (Err e) -> e = Error_AmbiguousCharSet.
Proof.
  unfold M_CharPartition_class_of_set, CharPartition_class_of_set, bind.
  destruct (M_CharPartition_interval_cover fuel p s) as [[i| |]|]; congruence.
Qed.

Lemma link_good_char_set p s :
  M_CharPartition_good_char_set (S (length (CharPartition_list p))) p s = pgood_char_set (convp p) (conv s).
Proof.
  unfold M_CharPartition_good_char_set, CharPartition_good_char_set, pgood_char_set.
  rewrite <- link_interval_cover. unfold bind.
  destruct (M_CharPartition_interval_cover _ p s) as [[i| |]|]; reflexivity.
Qed.

(* ---- merge_partitions: the two-pointer sweep, same fuel on both sides ---- *)
Definition bounded (p : CharPartition) : Prop :=
  Forall (fun s => CharSet_start s <= MAX_CHAR /\ CharSet_end s <= MAX_CHAR) (CharPartition_list p).

Lemma pget_bounded p i : bounded p -> fst (pget (convp p) i) <= SENT /\ snd (pget (convp p) i) <= SENT.
Proof.
  intros Hb. unfold pget, convp, ivs. rewrite nth_conv.
  destruct (nth_error (CharPartition_list p) i) as [s|] eqn:E.
  - apply nth_error_In in E. unfold bounded in Hb. rewrite Forall_forall in Hb.
    destruct (Hb s E) as [H1 H2]. unfold conv, SENT, MAXC, MAX_CHAR in *. cbn [fst snd]. lia.
  - cbn [fst snd]. lia.
Qed.

Lemma link_next_interval p i :
  M_fn_merge_partitions_next_interval p i = Some (S i, fst (pget (convp p) i), snd (pget (convp p) i)).
Proof.
  unfold M_fn_merge_partitions_next_interval, fn_merge_partitions_next_interval. pose proof (link_get p i) as G.
  rewrite G. unfold bind. destruct (pget (convp p) i) as [x y]. cbn [fst snd].
  replace (i + 1)%nat with (S i) by lia. reflexivity.
Qed.

Lemma push_some res a b : b <= MAX_CHAR ->
  exists res', M_CharPartition_push res a b = Some res' /\ convp res' = ppush (convp res) a b.
Proof.
  intros Hb. pose proof (link_push res a b Hb) as H.
  destruct (M_CharPartition_push res a b) as [r|]; [|discriminate H].
  exists r. split; [reflexivity|]. cbn [option_map] in H. congruence.
Qed.

Definition merge_res (r : option (loopres CharPartition ((nat * N * N) * (nat * N * N) * CharPartition))) : option part :=
  match r with
  | Some (LoopReturn q) => Some (convp q)
  | Some (LoopDone (_, _, q)) => Some (convp q)
  | None => None
  end.

Lemma link_merge_loop fuel p1 p2 : bounded p1 -> bounded p2 ->
  forall res i a b j c d, a <= SENT -> b <= SENT -> c <= SENT -> d <= SENT ->
  merge_res (fn_merge_partitions_loop1 fuel p1 p2 (i, a, b) (j, c, d) res)
  = merge_loop fuel (convp p1) (convp p2) i a b j c d (convp res).
Proof.
  intros B1 B2. induction fuel as [|fuel IH]; intros res i a b j c d Ha Hb Hc Hd; [reflexivity|].
  cbn [fn_merge_partitions_loop1 merge_loop snd].
  change MAX_CHAR with MAXC.
  (* the loop guard, in whatever form the source writes it *)
  match goal with
  | |- merge_res (if ?g then _ else _) = _ =>
      replace g with ((b <=? MAXC) || (d <=? MAXC)) by (unfold MAXC; gbools; cbn [negb andb orb]; first [reflexivity | (exfalso; lia)])
  end.
  destruct ((b <=? MAXC) || (d <=? MAXC)) eqn:Econd; cbn [negb]; [|reflexivity].
  pose proof (pget_bounded p1 i B1) as [G1a G1b]. pose proof (pget_bounded p2 j B2) as [G2a G2b].
  unfold SENT, MAXC in *.
  destruct (b <? c) eqn:E1.
  { destruct (push_some res a b) as [r [Hr Er]]; [unfold MAX_CHAR; lia|].
    rewrite Hr. unfold bind at 1. rewrite link_next_interval. unfold bind at 1.
    destruct (pget (convp p1) i) as [x y] eqn:Eg. cbn [fst snd] in *.
    rewrite IH by lia. rewrite Er. reflexivity. }
  destruct (d <? a) eqn:E2.
  { destruct (push_some res c d) as [r [Hr Er]]; [unfold MAX_CHAR; lia|].
    rewrite Hr. unfold bind at 1. rewrite link_next_interval. unfold bind at 1.
    destruct (pget (convp p2) j) as [x y] eqn:Eg. cbn [fst snd] in *.
    rewrite IH by lia. rewrite Er. reflexivity. }
  destruct (c <? a) eqn:E3.
  { unfold u32_sub. destruct (1 <=? a) eqn:E1a; [|exfalso; lia]. unfold bind at 1.
    destruct (push_some res c (a - 1)) as [r [Hr Er]]; [unfold MAX_CHAR; lia|].
    rewrite Hr. unfold bind at 1. cbn [fst snd].
    rewrite IH by lia. rewrite Er. reflexivity. }
  destruct (a <? c) eqn:E4.
  { unfold u32_sub. destruct (1 <=? c) eqn:E1c; [|exfalso; lia]. unfold bind at 1.
    destruct (push_some res a (c - 1)) as [r [Hr Er]]; [unfold MAX_CHAR; lia|].
    rewrite Hr. unfold bind at 1. cbn [fst snd].
    rewrite IH by lia. rewrite Er. reflexivity. }
  destruct (b <? d) eqn:E5.
  { destruct (push_some res a b) as [r [Hr Er]]; [unfold MAX_CHAR; lia|].
    rewrite Hr. unfold bind at 1. rewrite link_next_interval. unfold bind at 1.
    unfold u32_add, U32MAX. destruct (b + 1 <=? 4294967295) eqn:E6; [|exfalso; lia]. unfold bind at 1.
    destruct (pget (convp p1) i) as [x y] eqn:Eg. cbn [fst snd] in *.
    rewrite IH by lia. rewrite Er. reflexivity. }
  destruct (d <? b) eqn:E6.
  { destruct (push_some res c d) as [r [Hr Er]]; [unfold MAX_CHAR; lia|].
    rewrite Hr. unfold bind at 1.
    unfold u32_add, U32MAX. destruct (d + 1 <=? 4294967295) eqn:E7; [|exfalso; lia]. unfold bind at 1.
    rewrite link_next_interval. unfold bind at 1.
    destruct (pget (convp p2) j) as [x y] eqn:Eg. cbn [fst snd] in *.
    rewrite IH by lia. rewrite Er. reflexivity. }
  destruct (push_some res a b) as [r [Hr Er]]; [unfold MAX_CHAR; lia|].
  rewrite Hr. unfold bind at 1. rewrite link_next_interval. unfold bind at 1.
  rewrite link_next_interval. unfold bind at 1.
  destruct (pget (convp p1) i) as [x y] eqn:Eg. destruct (pget (convp p2) j) as [x' y'] eqn:Eg'. cbn [fst snd] in *.
  rewrite IH by lia. rewrite Er. reflexivity.
Qed.

Lemma link_merge_partitions p1 p2 : bounded p1 -> bounded p2 ->
  option_map convp (M_fn_merge_partitions (merge_fuel (convp p1) (convp p2)) p1 p2)
  = pmerge_opt (convp p1) (convp p2).
Proof.
  intros B1 B2. unfold M_fn_merge_partitions, fn_merge_partitions, pmerge_opt.
  rewrite !link_next_interval. unfold bind at 1 2.
  change M_CharPartition_new with (Some CharPartition_new). unfold bind at 1.
  pose proof (pget_bounded p1 0 B1) as [G1a G1b]. pose proof (pget_bounded p2 0 B2) as [G2a G2b].
  destruct (pget (convp p1) 0) as [a b] eqn:E1. destruct (pget (convp p2) 0) as [c d] eqn:E2. cbn [fst snd] in *.
  rewrite <- (link_merge_loop _ p1 p2 B1 B2 CharPartition_new 1%nat a b 1%nat c d) by assumption.
  unfold bind.
  destruct (fn_merge_partitions_loop1 _ p1 p2 (1%nat, a, b) (1%nat, c, d) CharPartition_new) as [[q|[[t1 t2] q]]|]; reflexivity.
Qed.

(* ---- the iterators class_ids() and picks(): draining them yields the model's lists ---- *)
Fixpoint drain_ids (fuel : nat) (it : ClassIdIterator) : option (list ClassId) :=
  match fuel with
  | O => None
  | S f => match M_ClassIdIterator_next it with
           | Some (it', Some c) => match drain_ids f it' with Some r => Some (c :: r) | None => None end
           | Some (_, None) => Some []
           | None => None
           end
  end.
Fixpoint drain_picks (fuel : nat) (it : PickIterator) : option (list N) :=
  match fuel with
  | O => None
  | S f => match M_PickIterator_next it with
           | Some (it', Some c) => match drain_picks f it' with Some r => Some (c :: r) | None => None end
           | Some (_, None) => Some []
           | None => None
           end
  end.

Lemma next_ids p k :
  M_ClassIdIterator_next (ClassIdIterator_mk p k) =
  Some (ClassIdIterator_mk p (k + 1),
        if Nat.ltb k (plen (convp p)) then Some (ClassId_Interval k)
        else if Nat.eqb k (plen (convp p)) && negb (pempty_complement (convp p)) then Some ClassId_Complement
        else None).
Proof.
  unfold M_ClassIdIterator_next, ClassIdIterator_next.
  cbn [ClassIdIterator_counter ClassIdIterator_partition]. rewrite !link_len. cbv [bind].
  destruct (Nat.ltb k (plen (convp p))); [reflexivity|].
  destruct (Nat.eqb k (plen (convp p))); cbn [andb]; [|reflexivity].
  rewrite link_empty_complement. destruct (pempty_complement (convp p)); reflexivity.
Qed.

Lemma drain_ids_from p : forall d k fuel, (k + d = plen (convp p))%nat -> (d + 2 <= fuel)%nat ->
  option_map (map convc) (drain_ids fuel (ClassIdIterator_mk p k)) =
  Some (map CInt (seq k d) ++ (if pempty_complement (convp p) then [] else [CComp])).
Proof.
  induction d as [|d IH]; intros k fuel Hk Hf.
  - destruct fuel as [|[|fuel]]; try lia. cbn [drain_ids]. rewrite next_ids.
    assert (E1 : Nat.ltb k (plen (convp p)) = false) by (apply Nat.ltb_ge; lia).
    assert (E2 : Nat.eqb k (plen (convp p)) = true) by (apply Nat.eqb_eq; lia).
    rewrite E1, E2. cbn [andb seq map app].
    destruct (pempty_complement (convp p)) eqn:Ec; cbn [negb]; [reflexivity|].
    rewrite next_ids.
    assert (E3 : Nat.ltb (k + 1) (plen (convp p)) = false) by (apply Nat.ltb_ge; lia).
    assert (E4 : Nat.eqb (k + 1) (plen (convp p)) = false) by (apply Nat.eqb_neq; lia).
    rewrite E3, E4. reflexivity.
  - destruct fuel as [|fuel]; [lia|]. cbn [drain_ids]. rewrite next_ids.
    assert (E1 : Nat.ltb k (plen (convp p)) = true) by (apply Nat.ltb_lt; lia). rewrite E1.
    specialize (IH (k + 1)%nat fuel ltac:(lia) ltac:(lia)).
    destruct (drain_ids fuel (ClassIdIterator_mk p (k + 1))) as [r|]; cbn [option_map] in IH |- *; [|discriminate IH].
    injection IH as IH. cbn [seq map app convc]. rewrite IH. replace (k + 1)%nat with (S k) by lia. reflexivity.
Qed.

Lemma link_class_ids p fuel : (plen (convp p) + 2 <= fuel)%nat ->
  option_map (map convc) (drain_ids fuel (CharPartition_class_ids p)) = Some (pclass_ids (convp p)).
Proof. intros Hf. unfold CharPartition_class_ids, pclass_ids. apply drain_ids_from; lia. Qed.

Lemma next_picks p k :
  M_PickIterator_next (PickIterator_mk p k) =
  if Nat.ltb k (plen (convp p)) then
    option_map (fun x => (PickIterator_mk p (k + 1), Some x)) (ppick_iv (convp p) k)
  else Some (PickIterator_mk p (k + 1),
             if Nat.eqb k (plen (convp p)) && negb (pempty_complement (convp p)) then Some (wit (convp p)) else None).
Proof.
  unfold M_PickIterator_next, PickIterator_next.
  cbn [PickIterator_counter PickIterator_partition]. rewrite !link_len. cbv [bind].
  destruct (Nat.ltb k (plen (convp p))).
  - rewrite link_pick. destruct (ppick_iv (convp p) k); reflexivity.
  - destruct (Nat.eqb k (plen (convp p))); cbn [andb]; [|reflexivity].
    rewrite link_empty_complement. destruct (pempty_complement (convp p)); cbn [negb]; [reflexivity|].
    rewrite link_pick_complement. reflexivity.
Qed.

Lemma drain_picks_from p : forall d k fuel, (k + d = plen (convp p))%nat -> (d + 2 <= fuel)%nat ->
  drain_picks fuel (PickIterator_mk p k) =
  Some (map fst (skipn k (ivs (convp p))) ++ (if pempty_complement (convp p) then [] else [wit (convp p)])).
Proof.
  induction d as [|d IH]; intros k fuel Hk Hf.
  - destruct fuel as [|[|fuel]]; try lia. cbn [drain_picks]. rewrite next_picks.
    assert (E1 : Nat.ltb k (plen (convp p)) = false) by (apply Nat.ltb_ge; lia).
    assert (E2 : Nat.eqb k (plen (convp p)) = true) by (apply Nat.eqb_eq; lia).
    rewrite E1, E2. cbn [andb].
    rewrite (skipn_all2 (ivs (convp p))) by (unfold plen in Hk; lia). cbn [map app].
    destruct (pempty_complement (convp p)) eqn:Ec; cbn [negb]; [reflexivity|].
    rewrite next_picks.
    assert (E3 : Nat.ltb (k + 1) (plen (convp p)) = false) by (apply Nat.ltb_ge; lia).
    assert (E4 : Nat.eqb (k + 1) (plen (convp p)) = false) by (apply Nat.eqb_neq; lia).
    rewrite E3, E4. reflexivity.
  - destruct fuel as [|fuel]; [lia|]. cbn [drain_picks]. rewrite next_picks.
    assert (E1 : Nat.ltb k (plen (convp p)) = true) by (apply Nat.ltb_lt; lia). rewrite E1.
    unfold ppick_iv. destruct (nth_error (ivs (convp p)) k) as [c|] eqn:En;
      [|apply nth_error_None in En; unfold plen in Hk; lia].
    cbn [option_map]. rewrite (IH (k + 1)%nat fuel ltac:(lia) ltac:(lia)).
    assert (Esk : skipn k (ivs (convp p)) = c :: skipn (k + 1) (ivs (convp p))).
    { clear -En. revert k En. induction (ivs (convp p)) as [|y l IHl]; intros [|k] En; cbn in *; try discriminate.
      - congruence.
      - apply IHl. exact En. }
    rewrite Esk. reflexivity.
Qed.

Lemma link_picks p fuel : (plen (convp p) + 2 <= fuel)%nat ->
  drain_picks fuel (CharPartition_picks p) = Some (ppicks (convp p)).
Proof. intros Hf. unfold CharPartition_picks, ppicks. rewrite (drain_picks_from p (plen (convp p)) 0 fuel); [reflexivity | lia | lia]. Qed.

(* ---- CharPartition::try_from_iter: stable sort by start, then one scan ---- *)
Definition valid_end (c : CharSet) : Prop := CharSet_end c <= MAX_CHAR.

Lemma link_insert x l :
  map conv (insert_by_key_N (fun c => CharSet_start c) x l) = insert_by_start (conv x) (map conv l).
Proof.
  induction l as [|y l IH]; [reflexivity|].
  cbn [insert_by_key_N insert_by_start map]. cbn [conv fst].
  destruct (CharSet_start x <=? CharSet_start y); cbn [map]; [reflexivity|]. rewrite IH. reflexivity.
Qed.
Lemma link_sort l : map conv (sort_by_key_N (fun c => CharSet_start c) l) = sort_by_start (map conv l).
Proof.
  unfold sort_by_key_N, sort_by_start. induction l as [|x l IH]; [reflexivity|].
  cbn [fold_right map]. rewrite link_insert, IH. reflexivity.
Qed.
Lemma insert_valid x l : valid_end x -> Forall valid_end l ->
  Forall valid_end (insert_by_key_N (fun c => CharSet_start c) x l).
Proof.
  intros Hx Hl. induction Hl as [|y l Hy Hl IH]; cbn [insert_by_key_N]; [repeat constructor; auto|].
  destruct (_ <=? _); repeat constructor; auto.
Qed.
Lemma sort_valid l : Forall valid_end l -> Forall valid_end (sort_by_key_N (fun c => CharSet_start c) l).
Proof.
  unfold sort_by_key_N. induction 1 as [|x l Hx Hl IH]; cbn [fold_right]; [constructor|].
  apply insert_valid; auto.
Qed.

Definition scan_res (r : option (loopres (result CharPartition Error) (N * CharSet))) : option (option N) :=
  match r with
  | Some (LoopDone (w, _)) => Some (Some w)
  | Some (LoopReturn (Err Error_NonDisjointCharSets)) => Some None
  | _ => None
  end.

Ltac scan_tac loop :=
  let l := fresh "l" in let c := fresh "c" in let Hc := fresh "Hc" in let Hl := fresh "Hl" in
  let IH := fresh "IH" in let w := fresh "w" in let prev := fresh "prev" in
  intros l; induction l as [|c l IH]; intros w prev Hl; [reflexivity|];
  inversion Hl as [|? ? Hc Hl']; subst;
  cbn [loop scan_sorted map]; cbn [conv fst snd];
  unfold valid_end, MAX_CHAR in Hc;
  destruct (CharSet_start c <=? CharSet_end prev); [reflexivity|];
  destruct (CharSet_start c <=? w);
  [ cbv [u32_add U32MAX bind]; destruct (CharSet_end c + 1 <=? 4294967295) eqn:?; [|exfalso; lia] | ];
  rewrite IH by assumption; reflexivity.

Lemma link_scan1 : forall l w prev, Forall valid_end l ->
  scan_res (CharPartition_try_from_iter_loop1 l w prev) = Some (scan_sorted (conv prev) w (map conv l)).
Proof. scan_tac CharPartition_try_from_iter_loop1. Qed.
Lemma link_scan2 : forall l w prev, Forall valid_end l ->
  scan_res (CharPartition_try_from_iter_loop2 l w prev) = Some (scan_sorted (conv prev) w (map conv l)).
Proof. scan_tac CharPartition_try_from_iter_loop2. Qed.

Definition try_res (r : option (result CharPartition Error)) : option (option part) :=
  match r with
  | Some (Ok p) => Some (Some (convp p))
  | Some (Err Error_NonDisjointCharSets) => Some None
  | _ => None
  end.

(* on legal character sets try_from_iter never panics, fails only with NonDisjointCharSets, and is
   the model's ptry_from_list *)
Lemma link_try_from_iter l : Forall valid_end l ->
  try_res (M_CharPartition_try_from_iter l) = Some (ptry_from_list (map conv l)).
Proof.
  intros Hl. unfold M_CharPartition_try_from_iter, CharPartition_try_from_iter, ptry_from_list.
  destruct l as [|x0 l0]; [reflexivity|]. cbv [negb].
  pose proof (sort_valid _ Hl) as Hs. rewrite <- link_sort.
  destruct (sort_by_key_N (fun c => CharSet_start c) (x0 :: l0)) as [|c0 t] eqn:Es.
  { exfalso. apply (f_equal (@length _)) in Es. revert Es. clear.
    unfold sort_by_key_N. cbn [fold_right]. generalize (fold_right (insert_by_key_N (fun c => CharSet_start c)) [] l0).
    intros l. destruct l; cbn [insert_by_key_N]; [discriminate|]. destruct (_ <=? _); discriminate. }
  inversion Hs as [|? ? Hc0 Ht]; subst.
  cbn [nth_error bind map length skipn Nat.leb]. cbn [conv fst snd].
  unfold valid_end, MAX_CHAR in Hc0.
  destruct (CharSet_start c0 <=? 0).
  - cbv [u32_add U32MAX bind]. destruct (CharSet_end c0 + 1 <=? 4294967295) eqn:?; [|exfalso; lia].
    pose proof (link_scan1 t (CharSet_end c0 + 1) c0 Ht) as H.
    destruct (CharPartition_try_from_iter_loop1 t (CharSet_end c0 + 1) c0) as [[[p|[]]|[w pr]]|];
      cbn [scan_res] in H; try discriminate; injection H as <-; reflexivity.
  - pose proof (link_scan2 t 0 c0 Ht) as H. cbv [bind].
    destruct (CharPartition_try_from_iter_loop2 t 0 c0) as [[[p|[]]|[w pr]]|];
      cbn [scan_res] in H; try discriminate; injection H as <-; reflexivity.
Qed.


Lemma link_try_from_list l : Forall valid_end l ->
  try_res (M_CharPartition_try_from_list l) = Some (ptry_from_list (map conv l)).
Proof.
  intros Hl. assert (E : M_CharPartition_try_from_list l = M_CharPartition_try_from_iter l).
  { unfold M_CharPartition_try_from_list, CharPartition_try_from_list. cbv [bind].
    destruct (M_CharPartition_try_from_iter l) as [[?|?]|]; reflexivity. }
  rewrite E. apply link_try_from_iter. exact Hl.
Qed.
