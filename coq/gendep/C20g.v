(* C20g -- CharSet: the regenerated translation of character_sets.rs meets the C20 statements.
   Statements only; every proof is [exact <lemma>].  The statements are about the definitions that
   gen/rs2v.py regenerates from /repo/src on every run (namespace SVG; M_f is the monadic view of
   the Rust function f: None = f panics).  Written by bin/mkgenprops from the lemma statements. *)
Require Import Base GenBase.
Require Import CharSet CharSetProofs.
From SVG Require Import CharSetGen GenLinkCharSet GenPropsCharSet.
Open Scope N_scope.

(* ---- the translated functions are the model's functions ---- *)

Theorem C20g_link_MAX_CHAR :
  MAX_CHAR = MAXC.
Proof. exact link_MAX_CHAR. Qed.
Print Assumptions C20g_link_MAX_CHAR.

Theorem C20g_link_singleton :
  forall x : N, option_map conv (M_CharSet_singleton x) = Some (cs_singleton x).
Proof. exact link_singleton. Qed.
Print Assumptions C20g_link_singleton.

Theorem C20g_link_range :
  forall x y : N, option_map conv (M_CharSet_range x y) = Some (cs_range x y).
Proof. exact link_range. Qed.
Print Assumptions C20g_link_range.

Theorem C20g_link_all_chars :
  option_map conv M_CharSet_all_chars = Some cs_all.
Proof. exact link_all_chars. Qed.
Print Assumptions C20g_link_all_chars.

Theorem C20g_link_contains :
  forall (s : CharSet) (x : N), M_CharSet_contains s x = Some (cs_contains (conv s) x).
Proof. exact link_contains. Qed.
Print Assumptions C20g_link_contains.

Theorem C20g_link_covers :
  forall s o : CharSet, M_CharSet_covers s o = Some (cs_covers (conv s) (conv o)).
Proof. exact link_covers. Qed.
Print Assumptions C20g_link_covers.

Theorem C20g_link_is_before :
  forall (s : CharSet) (x : N), M_CharSet_is_before s x = Some (cs_is_before (conv s) x).
Proof. exact link_is_before. Qed.
Print Assumptions C20g_link_is_before.

Theorem C20g_link_is_after :
  forall (s : CharSet) (x : N), M_CharSet_is_after s x = Some (cs_is_after (conv s) x).
Proof. exact link_is_after. Qed.
Print Assumptions C20g_link_is_after.

Theorem C20g_link_size :
  forall s : CharSet, M_CharSet_size s = cs_size (conv s).
Proof. exact link_size. Qed.
Print Assumptions C20g_link_size.

Theorem C20g_link_is_singleton :
  forall s : CharSet, M_CharSet_is_singleton s = Some (cs_is_singleton (conv s)).
Proof. exact link_is_singleton. Qed.
Print Assumptions C20g_link_is_singleton.

Theorem C20g_link_is_alphabet :
  forall s : CharSet, M_CharSet_is_alphabet s = Some (cs_is_alphabet (conv s)).
Proof. exact link_is_alphabet. Qed.
Print Assumptions C20g_link_is_alphabet.

Theorem C20g_link_pick :
  forall s : CharSet, M_CharSet_pick s = Some (cs_pick (conv s)).
Proof. exact link_pick. Qed.
Print Assumptions C20g_link_pick.

Theorem C20g_link_eqb :
  forall s o : CharSet, CharSet_eqb s o = cs_eqb (conv s) (conv o).
Proof. exact link_eqb. Qed.
Print Assumptions C20g_link_eqb.

Theorem C20g_link_inter :
  forall s o : CharSet,
       option_map (option_map conv) (M_CharSet_inter s o) = Some (cs_inter (conv s) (conv o)).
Proof. exact link_inter. Qed.
Print Assumptions C20g_link_inter.

Theorem C20g_link_union :
  forall s o : CharSet,
       option_map (option_map conv) (M_CharSet_union s o) = cs_union (conv s) (conv o).
Proof. exact link_union. Qed.
Print Assumptions C20g_link_union.

Theorem C20g_link_partial_cmp :
  forall s o : CharSet,
       option_map pord_of (M_CharSet_partial_cmp s o) = Some (cs_pcmp (conv s) (conv o)).
Proof. exact link_partial_cmp. Qed.
Print Assumptions C20g_link_partial_cmp.

Theorem C20g_link_inter_cases :
  forall s o : CharSet,
       (exists q : CharSet,
          M_CharSet_inter s o = Some (Some q) /\ cs_inter (conv s) (conv o) = Some (conv q)) \/
       M_CharSet_inter s o = Some None /\ cs_inter (conv s) (conv o) = None.
Proof. exact link_inter_cases. Qed.
Print Assumptions C20g_link_inter_cases.

Theorem C20g_link_inter_fold :
  forall (l : list CharSet) (r : CharSet),
       match CharSet_inter_list_loop1 l r with
       | Some (LoopReturn x) => x = None /\ cs_inter_fold (conv r) (map conv l) = None
       | Some (LoopDone q) => cs_inter_fold (conv r) (map conv l) = Some (conv q)
       | None => False
       end.
Proof. exact link_inter_fold. Qed.
Print Assumptions C20g_link_inter_fold.

Theorem C20g_link_inter_list :
  forall a : list CharSet,
       option_map (option_map conv) (M_CharSet_inter_list a) = Some (cs_inter_list (map conv a)).
Proof. exact link_inter_list. Qed.
Print Assumptions C20g_link_inter_list.

(* ---- the C20 statements on the translated code ---- *)

Theorem C20g_contains :
  forall (s : CharSet) (x : N), M_CharSet_contains s x = Some true <-> gmem x s.
Proof. exact g_contains. Qed.
Print Assumptions C20g_contains.

Theorem C20g_covers :
  forall s o : CharSet,
       gvalid o -> M_CharSet_covers s o = Some true <-> (forall x : N, gmem x o -> gmem x s).
Proof. exact g_covers. Qed.
Print Assumptions C20g_covers.

Theorem C20g_is_before :
  forall (s : CharSet) (x : N),
       gvalid s -> M_CharSet_is_before s x = Some true <-> (forall y : N, gmem y s -> y < x).
Proof. exact g_is_before. Qed.
Print Assumptions C20g_is_before.

Theorem C20g_is_after :
  forall (s : CharSet) (x : N),
       gvalid s -> M_CharSet_is_after s x = Some true <-> (forall y : N, gmem y s -> x < y).
Proof. exact g_is_after. Qed.
Print Assumptions C20g_is_after.

Theorem C20g_size_value :
  forall s : CharSet,
       gvalid s -> M_CharSet_size s = Some (CharSet_end s - CharSet_start s + 1).
Proof. exact g_size_value. Qed.
Print Assumptions C20g_size_value.

Theorem C20g_size_card :
  forall (s : CharSet) (n : N),
       gvalid s ->
       M_CharSet_size s = Some n ->
       forall x : N, gmem x s <-> (exists k : N, k < n /\ x = CharSet_start s + k).
Proof. exact g_size_card. Qed.
Print Assumptions C20g_size_card.

Theorem C20g_is_singleton :
  forall s : CharSet,
       gvalid s ->
       M_CharSet_is_singleton s = Some true <-> (forall x y : N, gmem x s -> gmem y s -> x = y).
Proof. exact g_is_singleton. Qed.
Print Assumptions C20g_is_singleton.

Theorem C20g_is_alphabet :
  forall s : CharSet,
       gvalid s ->
       M_CharSet_is_alphabet s = Some true <-> (forall x : N, x <= MAX_CHAR -> gmem x s).
Proof. exact g_is_alphabet. Qed.
Print Assumptions C20g_is_alphabet.

Theorem C20g_pick :
  forall s : CharSet, gvalid s -> exists x : N, M_CharSet_pick s = Some x /\ gmem x s.
Proof. exact g_pick. Qed.
Print Assumptions C20g_pick.

Theorem C20g_inter_total :
  forall s o : CharSet, exists r : option CharSet, M_CharSet_inter s o = Some r.
Proof. exact g_inter_total. Qed.
Print Assumptions C20g_inter_total.

Theorem C20g_inter_some :
  forall s o r : CharSet,
       M_CharSet_inter s o = Some (Some r) -> forall x : N, gmem x r <-> gmem x s /\ gmem x o.
Proof. exact g_inter_some. Qed.
Print Assumptions C20g_inter_some.

Theorem C20g_inter_valid :
  forall s o r : CharSet,
       gvalid s -> gvalid o -> M_CharSet_inter s o = Some (Some r) -> gvalid r.
Proof. exact g_inter_valid. Qed.
Print Assumptions C20g_inter_valid.

Theorem C20g_inter_none :
  forall s o : CharSet,
       M_CharSet_inter s o = Some None <-> (forall x : N, ~ (gmem x s /\ gmem x o)).
Proof. exact g_inter_none. Qed.
Print Assumptions C20g_inter_none.

Theorem C20g_union_total :
  forall s o : CharSet, exists r : option CharSet, M_CharSet_union s o = Some r.
Proof. exact g_union_total. Qed.
Print Assumptions C20g_union_total.

Theorem C20g_union_some_iff :
  forall s o : CharSet,
       gvalid s ->
       gvalid o ->
       forall r : CharSet, gvalid r -> M_CharSet_union s o = Some (Some r) <-> g_is_union s o r.
Proof. exact g_union_some_iff. Qed.
Print Assumptions C20g_union_some_iff.

Theorem C20g_union_none :
  forall s o : CharSet,
       gvalid s ->
       gvalid o -> M_CharSet_union s o = Some None -> forall r : CharSet, ~ g_is_union s o r.
Proof. exact g_union_none. Qed.
Print Assumptions C20g_union_none.

Theorem C20g_partial_cmp :
  forall s o : CharSet,
       gvalid s ->
       gvalid o ->
       exists c : option comparison,
         M_CharSet_partial_cmp s o = Some c /\
         match c with
         | Some Eq => s = o
         | Some Lt => s <> o /\ (forall x y : N, gmem x s -> gmem y o -> x < y)
         | Some Gt => s <> o /\ (forall x y : N, gmem x s -> gmem y o -> y < x)
         | None =>
             s <> o /\
             (exists x y x' y' : N,
                gmem x s /\ gmem y o /\ gmem x' s /\ gmem y' o /\ x <= y /\ y' <= x')
         end.
Proof. exact g_partial_cmp. Qed.
Print Assumptions C20g_partial_cmp.

Theorem C20g_example :
  gvalid {| CharSet_start := 97; CharSet_end := 122 |} /\
       M_CharSet_union {| CharSet_start := 97; CharSet_end := 122 |}
         {| CharSet_start := 123; CharSet_end := 127 |} =
       Some (Some {| CharSet_start := 97; CharSet_end := 127 |}) /\
       M_CharSet_union {| CharSet_start := 1; CharSet_end := 5 |}
         {| CharSet_start := 0; CharSet_end := 0 |} =
       Some (Some {| CharSet_start := 0; CharSet_end := 5 |}) /\
       M_CharSet_union {| CharSet_start := 0; CharSet_end := 3 |}
         {| CharSet_start := 5; CharSet_end := 9 |} = Some None /\
       M_CharSet_size {| CharSet_start := 0; CharSet_end := MAX_CHAR |} = Some 196608.
Proof. exact g_example. Qed.
Print Assumptions C20g_example.

Theorem C20g_inter_list_total :
  forall a : list CharSet, exists r : option CharSet, M_CharSet_inter_list a = Some r.
Proof. exact g_inter_list_total. Qed.
Print Assumptions C20g_inter_list_total.

Theorem C20g_inter_list_some :
  forall (a : list CharSet) (q : CharSet),
       M_CharSet_inter_list a = Some (Some q) ->
       forall x : N, x <= MAX_CHAR -> gmem x q <-> Forall (gmem x) a.
Proof. exact g_inter_list_some. Qed.
Print Assumptions C20g_inter_list_some.

Theorem C20g_inter_list_none :
  forall a : list CharSet,
       M_CharSet_inter_list a = Some None -> forall x : N, ~ Forall (gmem x) a.
Proof. exact g_inter_list_none. Qed.
Print Assumptions C20g_inter_list_none.
