(* GenPropsStrConv.v -- C09 (orders, int / code conversions) and the constructor part of C17
   transported to the functions regenerated from /repo/src/smt_strings.rs (SVG.StrConvGen).
   [w s] is the vector of an SmtString; [fuel_of s1 s2] = 1 + min(len s1, len s2) loop tests. *)
Require Import Base GenBase StrConv StrConvProofs Literal StrSearch StrMisc StrMiscProofs.
From SVG Require Import StrConvGen GenLinkStrConv.
Open Scope N_scope.

Notation w := SmtString_s.
Definition fuel_of (s1 s2 : SmtString) : nat := lt_fuel (w s1) (w s2).

(* ---- lexicographic orders: never panic, decide the inductive order ---- *)
Lemma g_lt_lex s1 s2 : exists b, M_fn_str_lt (fuel_of s1 s2) s1 s2 = Some b /\ (b = true <-> lex_lt (w s1) (w s2)).
Proof. unfold fuel_of. rewrite link_str_lt. apply lt_lex. Qed.

Lemma g_le_lex s1 s2 : exists b, M_fn_str_le (fuel_of s1 s2) s1 s2 = Some b /\ (b = true <-> lex_le (w s1) (w s2)).
Proof. unfold fuel_of. rewrite link_str_le. apply le_lex. Qed.

Lemma g_lt_iff_not_ge s1 s2 :
  M_fn_str_lt (fuel_of s1 s2) s1 s2 = Some true <-> M_fn_str_le (fuel_of s2 s1) s2 s1 = Some false.
Proof. unfold fuel_of. rewrite link_str_lt, link_str_le. apply lt_iff_not_ge. Qed.

Lemma g_le_antisym s1 s2 :
  M_fn_str_le (fuel_of s1 s2) s1 s2 = Some true -> M_fn_str_le (fuel_of s2 s1) s2 s1 = Some true -> w s1 = w s2.
Proof. unfold fuel_of. rewrite !link_str_le. apply le_antisym. Qed.

Lemma g_le_total s1 s2 :
  M_fn_str_le (fuel_of s1 s2) s1 s2 = Some true \/ M_fn_str_le (fuel_of s2 s1) s2 s1 = Some true.
Proof. unfold fuel_of. rewrite !link_str_le. apply le_total. Qed.

(* ---- str_to_int: the decimal value, -1, or the documented panic; never a wrong number, in any
   build profile (every operator of the Rust code is translated as a checked operator) ---- *)
Lemma g_to_int_spec s :
  (w s <> [] -> all_digits (w s) ->
     M_fn_str_to_int s = if (dec_value (w s) <=? I32MAX)%Z then Some (dec_value (w s)) else None) /\
  (w s = [] \/ ~ all_digits (w s) -> M_fn_str_to_int s = Some (-1)%Z).
Proof. rewrite link_str_to_int. apply to_int_spec. Qed.

Lemma g_to_int_never_wrong s r : M_fn_str_to_int s = Some r ->
  (w s <> [] /\ all_digits (w s) /\ r = dec_value (w s) /\ (0 <= r <= I32MAX)%Z) \/
  ((w s = [] \/ ~ all_digits (w s)) /\ r = (-1)%Z).
Proof. rewrite link_str_to_int. apply to_int_never_wrong. Qed.

Lemma g_to_int_panic_iff s :
  M_fn_str_to_int s = None <-> (w s <> [] /\ all_digits (w s) /\ (I32MAX < dec_value (w s))%Z).
Proof. rewrite link_str_to_int. apply to_int_panic_iff. Qed.

(* ---- to_code / from_code / is_digit ---- *)
Lemma g_to_code_spec s :
  (forall c, w s = [c] -> c < 2147483648 -> M_fn_str_to_code s = Some (Z.of_N c)) /\
  (length (w s) <> 1%nat -> M_fn_str_to_code s = Some (-1)%Z).
Proof. rewrite link_str_to_code. apply to_code_spec. Qed.

Lemma g_from_code_range x :
  ((0 <= x <= Z.of_N MAXC)%Z -> option_map w (M_fn_str_from_code x) = Some [Z.to_N x]) /\
  ((x < 0 \/ Z.of_N MAXC < x)%Z -> option_map w (M_fn_str_from_code x) = Some []).
Proof.
  rewrite link_str_from_code. destruct (from_code_range x) as [A B].
  split; intros H; f_equal; auto.
Qed.

Lemma g_is_digit_spec s : exists b, M_fn_str_is_digit s = Some b /\
  (b = true <-> exists c, w s = [c] /\ 48 <= c <= 57).
Proof. rewrite link_str_is_digit. apply is_digit_spec. Qed.

(* ---- constructors (C17): only SMT characters, clamping exactly the integers above MAX_CHAR ---- *)
Lemma clamp_good a : goodw (map clampc a).
Proof.
  unfold goodw. apply Forall_forall. intros y Hy. apply in_map_iff in Hy. destruct Hy as [x [<- _]].
  unfold clampc, good, MAXC, REPLC. destruct (x <=? 196607) eqn:E; lia.
Qed.

Lemma made_some a v : made a = Some v -> v = a.
Proof. rewrite made_spec. destruct (Z.of_nat (length a) <=? 2147483647)%Z; congruence. Qed.

Lemma g_from_slice_good a s : M_SmtString_from_slice_u32 a = Some s -> w s = map clampc a /\ goodw (w s).
Proof.
  intros H. pose proof (link_from_slice a) as L. rewrite H in L. cbn [option_map] in L.
  symmetry in L. apply made_some in L. rewrite L. split; [reflexivity | apply clamp_good].
Qed.

Lemma g_from_str_good t s : M_SmtString_from_str t = Some s -> w s = map clampc t /\ goodw (w s).
Proof.
  intros H. pose proof (link_from_str t) as L. rewrite H in L. cbn [option_map] in L.
  symmetry in L. apply made_some in L. rewrite L. split; [reflexivity | apply clamp_good].
Qed.

Lemma g_from_vec_good a s : M_SmtString_from_Vec_u32 a = Some s ->
  goodw (w s) /\ (goodw a -> w s = a) /\ w s = map clampc a.
Proof.
  intros H. pose proof (link_from_vec a) as L. rewrite H in L. cbn [option_map] in L.
  symmetry in L. apply made_some in L. rewrite L.
  assert (E : from_vec a = map clampc a).
  { unfold from_vec, from_slice. destruct (forallb (fun x => x <=? MAXC) a) eqn:F; [|reflexivity].
    rewrite forallb_forall in F. symmetry. rewrite <- (map_id a) at 2. apply map_ext_in.
    intros x Hx. unfold clampc. rewrite (F x Hx). reflexivity. }
  rewrite E. split; [apply clamp_good|]. split; [|reflexivity].
  intros Hg. rewrite <- (map_id a) at 2. apply map_ext_in. intros x Hx.
  unfold clampc. unfold goodw in Hg. rewrite Forall_forall in Hg. specialize (Hg x Hx). unfold good in Hg.
  destruct (x <=? MAXC) eqn:F; [reflexivity | lia].
Qed.

Lemma g_from_u32_good x : exists s, M_SmtString_from_u32 x = Some s /\ w s = [clampc x] /\ goodw (w s).
Proof.
  pose proof (link_from_u32 x) as L. destruct (M_SmtString_from_u32 x) as [s|]; [|discriminate L].
  exists s. split; [reflexivity|]. cbn [option_map] in L. injection L as L. rewrite L.
  split; [reflexivity | exact (clamp_good [x])].
Qed.

Lemma g_from_char_good x : exists s, M_SmtString_from_char x = Some s /\ w s = [clampc x] /\ goodw (w s).
Proof.
  pose proof (link_from_char x) as L. destruct (M_SmtString_from_char x) as [s|]; [|discriminate L].
  exists s. split; [reflexivity|]. cbn [option_map] in L. injection L as L. rewrite L.
  split; [reflexivity | exact (clamp_good [x])].
Qed.

(* ---- is_good: exactly the strings of SMT characters not longer than i32::MAX, the bound of make ---- *)
Lemma g_is_good_iff s : M_SmtString_is_good s = Some true <->
  goodw (w s) /\ (Z.of_nat (length (w s)) <= StrSearch.MAX_LENGTH)%Z.
Proof. rewrite link_is_good, <- is_good_iff. split; congruence. Qed.

Lemma g_is_good_total s : exists b, M_SmtString_is_good s = Some b.
Proof. rewrite link_is_good. eauto. Qed.

Lemma g_made_is_good a s : M_SmtString_make a = Some s -> goodw a -> M_SmtString_is_good s = Some true.
Proof.
  intros H G. pose proof (link_make a) as L. rewrite H, made_spec in L. cbn [option_map] in L.
  apply g_is_good_iff.
  destruct (Z.of_nat (length a) <=? 2147483647)%Z eqn:E; [|discriminate L].
  injection L as L. rewrite L. split; [exact G|]. apply Z.leb_le in E. exact E.
Qed.

Lemma g_char s i : M_SmtString_char s i = nth_error (w s) i.
Proof. reflexivity. Qed.

(* ---- str_from_int (C09): for every i32, no panic; the unique numeral of x, "" for x < 0; round trips ---- *)
Lemma g_from_int_spec x : (x <= I32MAX)%Z ->
  exists s, M_fn_str_from_int x = Some s /\
    ((0 <= x)%Z -> numeral (w s) /\ dec_value (w s) = x) /\ ((x < 0)%Z -> w s = []).
Proof.
  intros Hx. pose proof (link_str_from_int x Hx) as L. destruct (from_int_spec x) as [S1 S2].
  destruct (M_fn_str_from_int x) as [s|]; cbn [option_map] in L.
  - exists s. split; [reflexivity|]. split; intros H.
    + destruct (S1 H) as (w0 & E & Hn & Hv). rewrite E in L. injection L as L. rewrite L. split; assumption.
    + rewrite (S2 H) in L. injection L as L. exact L.
  - destruct (Z_lt_le_dec x 0) as [H|H]; [rewrite (S2 H) in L | destruct (S1 H) as (w0 & E & _); rewrite E in L]; discriminate L.
Qed.
Lemma g_to_int_from_int x : (0 <= x <= I32MAX)%Z ->
  (do s <- M_fn_str_from_int x; M_fn_str_to_int s) = Some x.
Proof.
  intros Hx. pose proof (link_str_from_int x ltac:(unfold I32MAX in *; lia)) as L. pose proof (to_int_from_int x Hx) as R.
  destruct (M_fn_str_from_int x) as [s|]; cbn [option_map] in L; rewrite <- L in R; cbn [bind] in *; [|discriminate R].
  rewrite link_str_to_int. exact R.
Qed.
Lemma g_from_int_unique x s : (0 <= x <= I32MAX)%Z -> numeral (w s) -> dec_value (w s) = x ->
  option_map w (M_fn_str_from_int x) = Some (w s).
Proof.
  intros Hx Hn Hv. pose proof (link_str_from_int x ltac:(unfold I32MAX in *; lia)) as L. rewrite L.
  apply from_int_unique; [lia|exact Hn|exact Hv].
Qed.

Example g_example :
  M_fn_str_lt 3 (SmtString_mk [97; 98]) (SmtString_mk [97; 99]) = Some true /\
  M_fn_str_to_int (SmtString_mk [52; 50]) = Some 42%Z /\
  M_fn_str_to_int (SmtString_mk [53; 48; 48; 48; 48; 48; 48; 48; 48; 48]) = None /\
  M_fn_str_to_int (SmtString_mk [57; 57; 57; 57; 57; 57; 57; 57; 57; 57; 57; 97]) = Some (-1)%Z /\
  M_fn_str_to_code (SmtString_mk [196607]) = Some 196607%Z /\
  option_map SmtString_s (M_fn_str_from_int 1907%Z) = Some [49; 57; 48; 55] /\
  option_map SmtString_s (M_fn_str_from_int (-3)%Z) = Some [].
Proof. repeat split; vm_compute; reflexivity. Qed.
