(* GenPropsPartition.v -- C11 and C12 theorems transported to the definitions regenerated from
   /repo/src/character_sets.rs (SVG.PartitionGen), through their monadic views M_f (None = panic or
   fuel exhausted; the fuel given is the number of loop iterations the Rust code can need).
   [convp] reads a generated CharPartition value as the model's partition. *)
Require Import Base GenBase CharSet Partition PartitionSpec PartitionProofs MergeProofs.
From SVG Require Import PartitionGen GenLinkPartition.
Open Scope N_scope.

Definition gwf (p : CharPartition) : Prop := pwf (convp p).
Definition gvalid (s : CharSet) : Prop := cs_valid (conv s).
Definition plen_of (p : CharPartition) : nat := length (CharPartition_list p).

Lemma some_inj {A} (a b : A) : Some a = Some b -> a = b.  Proof. congruence. Qed.

Lemma gwf_bounded p : gwf p -> bounded p.
Proof.
  intros [Hs _]. unfold bounded. apply Forall_forall. intros s Hin.
  assert (Hv : cs_valid (conv s)).
  { apply (sorted_valid _ Hs). unfold convp, ivs. apply in_map. exact Hin. }
  destruct Hv as [H1 H2]. unfold conv, MAX_CHAR, MAXC in *. cbn [fst snd] in *. lia.
Qed.

(* ---- constructors keep the invariant ---- *)
Lemma g_new_wf : exists p, M_CharPartition_new = Some p /\ gwf p.
Proof. eexists; split; [reflexivity|]. exact pnew_wf. Qed.

Lemma g_from_set_wf c : gvalid c -> exists p, M_CharPartition_from_set c = Some p /\ gwf p /\
  map conv (CharPartition_list p) = [conv c].
Proof.
  intros Hc. assert (Hb : CharSet_end c <= MAX_CHAR) by (destruct Hc as [_ H]; exact H).
  pose proof (link_from_set c Hb) as L.
  destruct (M_CharPartition_from_set c) as [p|]; [|discriminate L].
  exists p. split; [reflexivity|]. apply some_inj in L.
  unfold gwf. rewrite L. split; [apply pfrom_set_wf; exact Hc|].
  change (map conv (CharPartition_list p)) with (ivs (convp p)). rewrite L. reflexivity.
Qed.

Lemma g_push_wf p a b : gwf p -> cs_valid (a, b) ->
  (ivs (convp p) <> [] -> snd (last (ivs (convp p)) (0, 0)) < a) ->
  exists q, M_CharPartition_push p a b = Some q /\ gwf q /\ ivs (convp q) = ivs (convp p) ++ [(a, b)].
Proof.
  intros Hp Hv Hl. assert (Hb : b <= MAX_CHAR) by (destruct Hv as [_ H]; exact H).
  pose proof (link_push p a b Hb) as L.
  destruct (M_CharPartition_push p a b) as [q|]; [|discriminate L].
  exists q. split; [reflexivity|]. apply some_inj in L. unfold gwf. rewrite L.
  split; [apply ppush_wf; assumption | reflexivity].
Qed.

(* ---- class_of_char: never panics, returns the unique class of the character ---- *)
Lemma g_class_of_char p x : gwf p -> good x ->
  exists c, M_CharPartition_class_of_char (S (plen_of p)) p x = Some c /\
            forall c', convc c = c' <-> in_class (convp p) x c'.
Proof.
  intros Hp Hx. destruct (c11_class_of_char (convp p) x Hp Hx) as [[c0 Hc0] Hiff].
  pose proof (link_class_of_char p x) as L. unfold plen_of.
  destruct (M_CharPartition_class_of_char _ p x) as [c|]; cbn [option_map] in L; [|congruence].
  exists c. split; [reflexivity|]. intros c'. rewrite <- Hiff, <- L. split; congruence.
Qed.

(* ---- interval_cover: exact three-way answer ---- *)
Lemma g_interval_cover p s : gwf p -> gvalid s ->
  exists c, M_CharPartition_interval_cover (S (plen_of p)) p s = Some c /\
    (forall i, c = CoverResult_CoveredBy i <-> set_inside (convp p) (conv s) i) /\
    (c = CoverResult_DisjointFromAll <-> set_disjoint (convp p) (conv s)) /\
    (c = CoverResult_Overlaps <-> (forall i, ~ set_inside (convp p) (conv s) i) /\ ~ set_disjoint (convp p) (conv s)).
Proof.
  intros Hp Hs. destruct (c11_interval_cover (convp p) (conv s) Hp Hs) as [c0 [Hc0 [H1 [H2 H3]]]].
  pose proof (link_interval_cover p s) as L. unfold plen_of.
  destruct (M_CharPartition_interval_cover _ p s) as [c|]; cbn [option_map] in L; [|congruence].
  exists c. split; [reflexivity|].
  assert (E : convr c = c0) by congruence.
  split; [|split].
  - intros i. rewrite <- H1, <- E. destruct c; cbn; split; congruence.
  - rewrite <- H2, <- E. destruct c; cbn; split; congruence.
  - rewrite <- H3, <- E. destruct c; cbn; split; congruence.
Qed.

Lemma g_class_of_set p s : gwf p -> gvalid s ->
  exists r, M_CharPartition_class_of_set (S (plen_of p)) p s = Some r /\
    (forall c, r = Ok c <-> forall x, mem x (conv s) -> in_class (convp p) x (convc c)) /\
    (forall e, r = Err e -> e = Error_AmbiguousCharSet).
Proof.
  intros Hp Hs. destruct (c11_class_of_set (convp p) (conv s) Hp Hs) as [r0 [Hr0 _]].
  pose proof (link_class_of_set p s) as L. unfold plen_of.
  destruct (M_CharPartition_class_of_set _ p s) as [r|] eqn:E; cbn [option_map] in L; [|congruence].
  exists r. split; [reflexivity|]. split.
  - intros c. rewrite <- (c11_class_of_set_classes (convp p) (conv s) (convc c) Hp Hs), <- L.
    destruct r as [c1|e]; cbn [convres]; split; intros H; try discriminate; try congruence.
    apply some_inj, some_inj in H. f_equal. destruct c1, c; cbn in H; congruence.
  - intros e He. subst r. exact (link_class_of_set_err _ p s e E).
Qed.

Lemma g_good_char_set p s : gwf p -> gvalid s ->
  exists b, M_CharPartition_good_char_set (S (plen_of p)) p s = Some b /\
    (b = true <-> (exists i, set_inside (convp p) (conv s) i) \/ set_disjoint (convp p) (conv s)).
Proof.
  intros Hp Hs. unfold plen_of. rewrite link_good_char_set. exact (c11_good_char_set (convp p) (conv s) Hp Hs).
Qed.

Lemma g_pick_in_class p c : gwf p ->
  (M_CharPartition_valid_class_id p c = Some true ->
     exists x, M_CharPartition_pick_in_class p c = Some x /\ good x /\ in_class (convp p) x (convc c)) /\
  (M_CharPartition_valid_class_id p c = Some false -> M_CharPartition_pick_in_class p c = None).
Proof.
  intros Hp. rewrite link_valid_class_id, link_pick_in_class.
  destruct (c11_pick_in_class (convp p) (convc c) Hp) as [H1 H2].
  split; intros H; apply some_inj in H; auto.
Qed.

Lemma g_valid_class_id p c : gwf p ->
  (M_CharPartition_valid_class_id p c = Some true <-> exists x, good x /\ in_class (convp p) x (convc c)).
Proof.
  intros Hp. rewrite link_valid_class_id, <- (pvalid_iff (convp p) (convc c) Hp). split; congruence.
Qed.

Lemma g_empty_complement p : gwf p ->
  (M_CharPartition_empty_complement p = Some true <-> forall x, good x -> covered (ivs (convp p)) x).
Proof.
  intros Hp. rewrite link_empty_complement, <- (pempty_complement_iff (convp p) Hp). split; congruence.
Qed.

(* ---- merge_partitions (C12): never panics, the fuel 2(n1+n2)+2 suffices, and the result is the
   model's merge, i.e. the coarsest common refinement ---- *)
Lemma g_merge p1 p2 : gwf p1 -> gwf p2 ->
  exists q, M_fn_merge_partitions (merge_fuel (convp p1) (convp p2)) p1 p2 = Some q /\
            convp q = pmerge (convp p1) (convp p2).
Proof.
  intros H1 H2. pose proof (link_merge_partitions p1 p2 (gwf_bounded _ H1) (gwf_bounded _ H2)) as L.
  rewrite (merge_fuel_sufficient _ _ H1 H2) in L.
  destruct (M_fn_merge_partitions _ p1 p2) as [q|]; [|discriminate L].
  exists q. split; [reflexivity|]. apply some_inj in L. exact L.
Qed.

Lemma g_merge_wf p1 p2 q : gwf p1 -> gwf p2 ->
  M_fn_merge_partitions (merge_fuel (convp p1) (convp p2)) p1 p2 = Some q -> gwf q.
Proof.
  intros H1 H2 Hq. destruct (g_merge p1 p2 H1 H2) as [q' [Hq' E]].
  assert (q = q') by congruence. subst q'. unfold gwf. rewrite E. apply merge_wf; assumption.
Qed.

Lemma g_merge_refines p1 p2 q x y : gwf p1 -> gwf p2 ->
  M_fn_merge_partitions (merge_fuel (convp p1) (convp p2)) p1 p2 = Some q ->
  same_class (convp q) x y -> same_class (convp p1) x y /\ same_class (convp p2) x y.
Proof.
  intros H1 H2 Hq. destruct (g_merge p1 p2 H1 H2) as [q' [Hq' E]].
  assert (q = q') by congruence. subst q'. rewrite E. apply merge_refines; assumption.
Qed.

Lemma g_merge_class_exact p1 p2 q x y : gwf p1 -> gwf p2 -> x <= y -> good y ->
  M_fn_merge_partitions (merge_fuel (convp p1) (convp p2)) p1 p2 = Some q ->
  (same_class (convp q) x y <->
   (~ covered (ivs (convp p1)) x /\ ~ covered (ivs (convp p2)) x /\ ~ covered (ivs (convp p1)) y /\ ~ covered (ivs (convp p2)) y)
   \/ (forall z, x <= z <= y -> same_class (convp p1) x z /\ same_class (convp p2) x z)).
Proof.
  intros H1 H2 Hxy Hy Hq. destruct (g_merge p1 p2 H1 H2) as [q' [Hq' E]].
  assert (q = q') by congruence. subst q'. rewrite E. apply merge_class_exact; assumption.
Qed.

Lemma g_merge_coarsest p1 p2 q r : gwf p1 -> gwf p2 -> pwf r ->
  M_fn_merge_partitions (merge_fuel (convp p1) (convp p2)) p1 p2 = Some q ->
  (forall x, covered (ivs r) x <-> covered (ivs (convp p1)) x \/ covered (ivs (convp p2)) x) ->
  (forall x y, same_class r x y -> same_class (convp p1) x y /\ same_class (convp p2) x y) ->
  forall x y, same_class r x y -> same_class (convp q) x y.
Proof.
  intros H1 H2 Hr Hq. destruct (g_merge p1 p2 H1 H2) as [q' [Hq' E]].
  assert (q = q') by congruence. subst q'. rewrite E. apply merge_coarsest; assumption.
Qed.

(* ---- the iterators: class_ids() yields every non-empty class exactly once, picks() one member of
   each, in the same order ---- *)
Lemma g_class_ids p fuel : gwf p -> (plen_of p + 2 <= fuel)%nat ->
  exists l, drain_ids fuel (CharPartition_class_ids p) = Some l /\
            NoDup (map convc l) /\
            (forall c, In c (map convc l) <-> exists x, good x /\ in_class (convp p) x c).
Proof.
  intros Hp Hf. assert (Hf' : (plen (convp p) + 2 <= fuel)%nat).
  { unfold plen_of in Hf. unfold plen, convp, ivs. rewrite map_length. exact Hf. }
  pose proof (link_class_ids p fuel Hf') as L.
  destruct (drain_ids fuel (CharPartition_class_ids p)) as [l|]; [|discriminate L].
  exists l. split; [reflexivity|]. cbn [option_map] in L. injection L as L. rewrite L.
  destruct (c11_class_ids (convp p) Hp) as [A [B _]]. split; assumption.
Qed.

Lemma g_picks p fuel : gwf p -> (plen_of p + 2 <= fuel)%nat ->
  exists l xs, drain_ids fuel (CharPartition_class_ids p) = Some l /\
               drain_picks fuel (CharPartition_picks p) = Some xs /\
               Forall2 (fun c x => good x /\ in_class (convp p) x (convc c)) l xs.
Proof.
  intros Hp Hf. assert (Hf' : (plen (convp p) + 2 <= fuel)%nat).
  { unfold plen_of in Hf. unfold plen, convp, ivs. rewrite map_length. exact Hf. }
  pose proof (link_class_ids p fuel Hf') as L.
  destruct (drain_ids fuel (CharPartition_class_ids p)) as [l|]; [|discriminate L].
  exists l, (ppicks (convp p)). split; [reflexivity|]. split; [apply link_picks; exact Hf'|].
  cbn [option_map] in L. injection L as L.
  destruct (c11_picks (convp p) Hp) as [_ F]. rewrite <- L in F.
  clear -F. remember (ppicks (convp p)) as xs. clear Heqxs. revert xs F.
  induction l as [|c l IH]; intros xs F; inversion F; subst; constructor; auto.
Qed.

(* ---- merge_partition_list: the left fold of merge_partitions, with any sufficient fuel ---- *)
Lemma merge_loop_S f p1 p2 i a b j c d res :
  merge_loop (S f) p1 p2 i a b j c d res =
    if negb ((b <=? MAXC) || (d <=? MAXC)) then Some res else
    if b <? c then let '(x, y) := pget p1 i in merge_loop f p1 p2 (S i) x y j c d (ppush res a b)
    else if d <? a then let '(x, y) := pget p2 j in merge_loop f p1 p2 i a b (S j) x y (ppush res c d)
    else if c <? a then merge_loop f p1 p2 i a b j a d (ppush res c (a - 1))
    else if a <? c then merge_loop f p1 p2 i c b j c d (ppush res a (c - 1))
    else if b <? d then let '(x, y) := pget p1 i in merge_loop f p1 p2 (S i) x y j (b + 1) d (ppush res a b)
    else if d <? b then let '(x, y) := pget p2 j in merge_loop f p1 p2 i (d + 1) b (S j) x y (ppush res c d)
    else let '(x, y) := pget p1 i in let '(x', y') := pget p2 j in
         merge_loop f p1 p2 (S i) x y (S j) x' y' (ppush res a b).
Proof. reflexivity. Qed.
Lemma merge_loop_more : forall f p1 p2 i a b j c d res r,
  merge_loop f p1 p2 i a b j c d res = Some r -> merge_loop (S f) p1 p2 i a b j c d res = Some r.
Proof.
  induction f as [|f IH]; intros p1 p2 i a b j c d res r H; [discriminate|].
  rewrite merge_loop_S in H. rewrite (merge_loop_S (S f)).
  destruct (negb ((b <=? MAXC) || (d <=? MAXC))); [exact H|].
  destruct (b <? c); [destruct (pget p1 i); apply IH; exact H|].
  destruct (d <? a); [destruct (pget p2 j); apply IH; exact H|].
  destruct (c <? a); [apply IH; exact H|].
  destruct (a <? c); [apply IH; exact H|].
  destruct (b <? d); [destruct (pget p1 i); apply IH; exact H|].
  destruct (d <? b); [destruct (pget p2 j); apply IH; exact H|].
  destruct (pget p1 i); destruct (pget p2 j); apply IH; exact H.
Qed.
Lemma merge_loop_ge f p1 p2 i a b j c d res r : merge_loop f p1 p2 i a b j c d res = Some r ->
  forall f', (f <= f')%nat -> merge_loop f' p1 p2 i a b j c d res = Some r.
Proof.
  intros H f' Hle. induction Hle as [|f' Hle IH]; [exact H|]. apply merge_loop_more. exact IH.
Qed.

(* merge_partitions returns the model's merge for every fuel that is at least the proved-sufficient
   bound merge_fuel *)
Lemma g_merge_fuel fuel p1 p2 : gwf p1 -> gwf p2 -> (merge_fuel (convp p1) (convp p2) <= fuel)%nat ->
  option_map convp (M_fn_merge_partitions fuel p1 p2) = Some (pmerge (convp p1) (convp p2)).
Proof.
  intros W1 W2 Hf. pose proof (gwf_bounded _ W1) as B1. pose proof (gwf_bounded _ W2) as B2.
  pose proof (merge_fuel_sufficient _ _ W1 W2) as Hm. unfold pmerge_opt in Hm.
  unfold M_fn_merge_partitions, fn_merge_partitions.
  rewrite !link_next_interval. unfold bind at 1 2.
  change M_CharPartition_new with (Some CharPartition_new). unfold bind at 1.
  pose proof (pget_bounded p1 0 B1) as [G1a G1b]. pose proof (pget_bounded p2 0 B2) as [G2a G2b].
  destruct (pget (convp p1) 0) as [a b] eqn:E1. destruct (pget (convp p2) 0) as [c d] eqn:E2. cbn [fst snd] in *.
  pose proof (merge_loop_ge _ _ _ _ _ _ _ _ _ _ _ Hm fuel Hf) as Hm'.
  change pnew with (convp CharPartition_new) in Hm'.
  rewrite <- (link_merge_loop fuel p1 p2 B1 B2 CharPartition_new 1%nat a b 1%nat c d) in Hm' by assumption.
  unfold bind.
  destruct (fn_merge_partitions_loop1 fuel p1 p2 (1%nat, a, b) (1%nat, c, d) CharPartition_new) as [[q|[[t1 t2] q]]|];
    cbn [merge_res] in Hm'; try discriminate; exact Hm'.
Qed.

(* the fuel is at least merge_fuel at every step of the fold *)
Fixpoint list_fuel_ok (fuel : nat) (l : list CharPartition) (acc : part) : Prop :=
  match l with
  | [] => True
  | p :: t => (merge_fuel acc (convp p) <= fuel)%nat /\ list_fuel_ok fuel t (pmerge acc (convp p))
  end.

Definition list_res (r : option (loopres CharPartition CharPartition)) : option part :=
  match r with Some (LoopDone q) => Some (convp q) | Some (LoopReturn q) => Some (convp q) | None => None end.

Lemma g_merge_list_loop fuel : forall l acc, gwf acc -> Forall gwf l -> list_fuel_ok fuel l (convp acc) ->
  list_res (fn_merge_partition_list_loop1 fuel l acc) = Some (fold_left pmerge (map convp l) (convp acc)).
Proof.
  induction l as [|p l IH]; intros acc Hacc Hl Hok; [reflexivity|].
  inversion Hl as [|? ? Hp Hl']; subst. destruct Hok as (Hf & Hrest).
  cbn [fn_merge_partition_list_loop1 map fold_left].
  pose proof (g_merge_fuel fuel acc p Hacc Hp Hf) as Hm.
  destruct (M_fn_merge_partitions fuel acc p) as [q|]; [|discriminate Hm].
  cbn [option_map] in Hm. injection Hm as Hm. cbn [bind]. rewrite <- Hm. apply IH.
  - unfold gwf. rewrite Hm. apply merge_wf; assumption.
  - exact Hl'.
  - rewrite Hm. exact Hrest.
Qed.

(* C12 (list form): merge_partition_list is the model's fold pmerge_list, hence (MergeProofs) the
   coarsest common refinement of the whole list, independent of the order of the list *)
Lemma g_merge_partition_list fuel l : Forall gwf l -> list_fuel_ok fuel l pnew ->
  option_map convp (M_fn_merge_partition_list fuel l) = Some (pmerge_list (map convp l)).
Proof.
  intros Hl Hok. unfold M_fn_merge_partition_list, fn_merge_partition_list, pmerge_list.
  change M_CharPartition_new with (Some CharPartition_new). cbn [bind].
  pose proof (g_merge_list_loop fuel l CharPartition_new pnew_wf Hl Hok) as H.
  change (convp CharPartition_new) with pnew in H.
  destruct (fn_merge_partition_list_loop1 fuel l CharPartition_new) as [[q|q]|]; cbn [list_res] in H; try discriminate;
    cbn [bind option_map]; exact H.
Qed.

Lemma g_merge_partition_list_wf fuel l q : Forall gwf l -> list_fuel_ok fuel l pnew ->
  M_fn_merge_partition_list fuel l = Some q -> gwf q.
Proof.
  intros Hl Hok Hq. pose proof (g_merge_partition_list fuel l Hl Hok) as H. rewrite Hq in H. cbn [option_map] in H.
  injection H as H. unfold gwf. rewrite H. apply merge_list_wf. rewrite Forall_map. exact Hl.
Qed.

Lemma list_fuel_ok_more fuel fuel' : (fuel <= fuel')%nat -> forall l acc, list_fuel_ok fuel l acc -> list_fuel_ok fuel' l acc.
Proof.
  intros Hle. induction l as [|x l IH]; intros acc H; [exact I|].
  destruct H as (Hf & Hr). split; [lia|]. apply IH. exact Hr.
Qed.
Lemma g_merge_list_fuel_exists : forall l acc, exists fuel, list_fuel_ok fuel l acc.
Proof.
  induction l as [|x l IH]; intros acc; [exists 0%nat; exact I|].
  destruct (IH (pmerge acc (convp x))) as [f Hf].
  exists (Nat.max f (merge_fuel acc (convp x))). split; [lia|]. apply (list_fuel_ok_more f); [lia|exact Hf].
Qed.

(* ---- try_from_iter / try_from_list (C11): total on legal sets; Ok exactly on pairwise disjoint inputs,
   and then a well-formed partition whose intervals are the input sets; order-independent ---- *)
Lemma gvalid_end l : Forall gvalid l -> Forall valid_end l.
Proof.
  intros H. rewrite Forall_forall in *. intros c Hc. destruct (H c Hc) as [_ H2].
  unfold valid_end. destruct c as [a b]. cbv [conv snd CharSet_end MAXC MAX_CHAR] in *. exact H2.
Qed.
Lemma gvalid_map l : Forall gvalid l -> Forall cs_valid (map conv l).
Proof. intros H. rewrite Forall_map. exact H. Qed.

Lemma g_try_from_iter_ok l : Forall gvalid l -> pairwise_disjoint (map conv l) ->
  exists p, M_CharPartition_try_from_iter l = Some (Ok p) /\ gwf p /\ Permutation.Permutation (map conv l) (ivs (convp p)).
Proof.
  intros Hv Hd. pose proof (link_try_from_iter l (gvalid_end l Hv)) as H.
  destruct (proj2 (ptry_from_list_ok_iff _ (gvalid_map l Hv)) Hd) as [p0 Hp0]. rewrite Hp0 in H.
  destruct (M_CharPartition_try_from_iter l) as [[p|[]]|]; cbn [try_res] in H; try discriminate.
  exists p. split; [reflexivity|]. injection H as H. unfold gwf. rewrite H.
  apply (ptry_from_list_wf _ _ (gvalid_map l Hv) Hp0).
Qed.
Lemma g_try_from_iter_err l : Forall gvalid l -> ~ pairwise_disjoint (map conv l) ->
  M_CharPartition_try_from_iter l = Some (Err Error_NonDisjointCharSets).
Proof.
  intros Hv Hd. pose proof (link_try_from_iter l (gvalid_end l Hv)) as H.
  rewrite (proj2 (ptry_from_list_none_iff _ (gvalid_map l Hv)) Hd) in H.
  destruct (M_CharPartition_try_from_iter l) as [[p|[]]|]; cbn [try_res] in H; try discriminate. reflexivity.
Qed.
Lemma g_try_from_list_same l : M_CharPartition_try_from_list l = M_CharPartition_try_from_iter l.
Proof.
  unfold M_CharPartition_try_from_list, CharPartition_try_from_list. cbv [bind].
  destruct (M_CharPartition_try_from_iter l) as [[?|?]|]; reflexivity.
Qed.

Example g_example :
  let p := CharPartition_mk [CharSet_mk 10 20; CharSet_mk 30 40] 0 in
  gwf p /\
  M_CharPartition_class_of_char 3 p 35 = Some (ClassId_Interval 1) /\
  M_CharPartition_interval_cover 3 p (CharSet_mk 25 35) = Some CoverResult_Overlaps /\
  M_CharPartition_interval_cover 3 p (CharSet_mk 21 29) = Some CoverResult_DisjointFromAll /\
  M_fn_merge_partitions 10 p (CharPartition_mk [CharSet_mk 15 35] 0)
    = Some (CharPartition_mk [CharSet_mk 10 14; CharSet_mk 15 20; CharSet_mk 21 29; CharSet_mk 30 35; CharSet_mk 36 40] 0).
Proof.
  cbv zeta. split; [|vm_compute; repeat split; reflexivity].
  apply pwfb_iff. vm_compute. reflexivity.
Qed.
