(* GenPropsBasePart.v -- the representation invariant of the model's array partition (HopPart.bp_wf: the segment is a
   permutation of 0..n-1, the block headers are disjoint non-empty ranges that cover it) transported to the
   definitions regenerated from partitions.rs. *)
Require Import Base GenBase CharSet Partition Automaton Minimizer HopPart.
From SVG Require Import BasePartGen GenLinkBasePart.
Require Import ZifyBool ZifyN ZifyNat.
Open Scope nat_scope.

(* BasePartition::new(n), 1 <= n < 2^32: no panic; the result is a well-formed partition of 0..n-1 whose block 1 holds
   every element *)
Lemma g_new_wf n : (1 <= n < 4294967296)%N ->
  exists p, M_BasePartition_new n = Some p /\ bp_wf (N.to_nat n) (convbp p) /\
            forall x, in_blk (convbp p) 1 x <-> x < N.to_nat n.
Proof.
  intros Hn. destruct (link_new n ltac:(lia)) as (p & E & C). exists p. split; [exact E|]. rewrite C. split.
  - apply bp_new_wf. lia.
  - intros x. apply bp_new_in. lia.
Qed.

(* a block of a well-formed partition: block_size never panics and counts the elements that slice returns; the
   elements are those of the model's block; pick_element returns one of them *)
Lemma g_block_read n p i : bp_wf n (convbp p) -> (N.of_nat n < 4294967296)%N -> 1 <= N.to_nat i < nblk (convbp p) ->
  exists sz els x, M_BasePartition_block_size p i = Some sz /\ M_BasePartition_slice p i = Some els /\
    M_BasePartition_pick_element p i = Some x /\
    N.to_nat sz = length els /\ (forall y, In y els <-> in_blk (convbp p) (N.to_nat i) (N.to_nat y)) /\ In x els.
Proof.
  intros W Hn Hi.
  assert (Hlen : nblk (convbp p) = length (BasePartition_block p)) by (unfold nblk, convbp; cbn [bp_block]; apply map_length).
  destruct (nth_error (BasePartition_block p) (N.to_nat i)) as [h|] eqn:Hh; [|apply nth_error_None in Hh; lia].
  pose proof (bw_rng _ _ W (N.to_nat i) Hi) as Hr. unfold blk in Hr. unfold convbp in Hr at 1 2 3. cbn [bp_block] in Hr.
  rewrite (nth_convh _ _ _ Hh) in Hr. cbn [convh fst snd] in Hr.
  pose proof (bw_len _ _ W) as Hl. unfold convbp in Hl. cbn [bp_seg] in Hl. rewrite map_length in Hl.
  pose proof (link_block_size p i h Hh ltac:(lia) ltac:(unfold fits; lia)) as Lb.
  pose proof (link_slice p i h Hh ltac:(lia)) as Ls.
  pose proof (link_pick_element p i h ltac:(lia) Hh ltac:(lia)) as Lp.
  destruct (M_BasePartition_slice p i) as [els|]; [|discriminate Ls]. cbn [option_map] in Ls. injection Ls as Ls.
  destruct (M_BasePartition_pick_element p i) as [x|] eqn:Ep; [|discriminate Lp]. cbn [option_map] in Lp. injection Lp as Lp.
  exists (N.of_nat (bp_block_size (convbp p) (N.to_nat i))), els, x.
  split; [exact Lb|]. split; [reflexivity|]. split; [reflexivity|].
  assert (Hin : forall y, In y els <-> in_blk (convbp p) (N.to_nat i) (N.to_nat y)).
  { intros y. unfold in_blk. rewrite <- Ls. split; [apply in_map|].
    intros Hy. apply in_map_iff in Hy as (z & Ez & Hz). apply N2Nat.inj in Ez. subst z. exact Hz. }
  split; [|split; [exact Hin|]].
  - rewrite Nat2N.id, (bp_size_elements n _ _ W), <- Ls, map_length. reflexivity.
  - apply Hin. rewrite Lp.
    pose proof (blk_first_in n _ (N.to_nat i) W Hi) as Hf. unfold blk in Hf. unfold convbp in Hf at 2. cbn [bp_block] in Hf.
    rewrite (nth_convh _ _ _ Hh) in Hf. cbn [convh fst] in Hf. exact Hf.
Qed.

(* block_elements of a well-formed partition (either type): never panics on a block of the table, yields as many
   elements as block_size reports, and exactly the members of the model's block *)
Lemma g_block_elements n p i : bp_wf n (convbp p) -> (N.of_nat n < 4294967296)%N -> 1 <= N.to_nat i < nblk (convbp p) ->
  exists sz els, M_BasePartition_block_size p i = Some sz /\ M_BasePartition_block_elements p i = Some els /\
    N.to_nat sz = length els /\ (forall y, In y els <-> in_blk (convbp p) (N.to_nat i) (N.to_nat y)).
Proof.
  intros W Hn Hi. destruct (g_block_read n p i W Hn Hi) as (sz & els & x & E1 & E2 & _ & E4 & E5 & _).
  exists sz, els. rewrite canon_block_elements. repeat split; try assumption; apply E5.
Qed.
Lemma g_fp_block_elements n p i : bp_wf n (convbp (Partition_base p)) -> (N.of_nat n < 4294967296)%N ->
  1 <= N.to_nat i < nblk (convbp (Partition_base p)) ->
  exists sz els, M_Partition_block_size p i = Some sz /\ M_Partition_block_elements p i = Some els /\
    N.to_nat sz = length els /\ (forall y, In y els <-> in_blk (convbp (Partition_base p)) (N.to_nat i) (N.to_nat y)).
Proof.
  intros W Hn Hi. destruct (g_block_read n (Partition_base p) i W Hn Hi) as (sz & els & x & E1 & E2 & _ & E4 & E5 & _).
  exists sz, els. rewrite canon_fp_block_size, canon_fp_block_elements. repeat split; try assumption; apply E5.
Qed.

(* split_block / add_block never panic on a block of the table and append the new block at index num_blocks *)
Lemma g_split_block_total p i n h : nth_error (BasePartition_block p) (N.to_nat i) = Some h ->
  (N.of_nat (length (BasePartition_block p)) < 4294967296)%N ->
  exists p' k, M_BasePartition_split_block p i n = Some (p', k) /\ M_BasePartition_num_blocks p = Some k /\
    length (BasePartition_block p') = S (length (BasePartition_block p)) /\ BasePartition_segment p' = BasePartition_segment p.
Proof.
  intros Hh Hf. destruct (link_split_block p i n h Hh Hf) as (p' & E & C).
  exists p', (N.of_nat (length (BasePartition_block p))). split; [exact E|]. split.
  - rewrite link_num_blocks by exact Hf. unfold bp_num_blocks, convbp. cbn [bp_block]. rewrite map_length. reflexivity.
  - unfold M_BasePartition_split_block, BasePartition_split_block in E. rewrite Hh in E. cbn [bind] in E. unfold usize_add in E. cbn [bind] in E.
    assert (Hi : N.to_nat i < length (BasePartition_block p)) by (apply nth_error_Some; rewrite Hh; discriminate).
    rewrite list_upd_spec in E by exact Hi. cbn [bind] in E.
    unfold M_BasePartition_add_block, BasePartition_add_block, M_BasePartition_num_blocks in E. cbn [bind] in E.
    injection E as E _. subst p'. cbn [BasePartition_block BasePartition_segment]. rewrite app_length, upd_len. cbn [length]. split; [lia|reflexivity].
Qed.

(* Partition::new(n), 1 <= n < 2^32: no panic; a well-formed partition with its block index (HopPart.fp_wf) *)
Lemma g_fp_new_wf n : (1 <= n < 4294967296)%N ->
  exists p, M_Partition_new n = Some p /\ fp_wf (N.to_nat n) (convfp p).
Proof.
  intros Hn. destruct (link_fp_new n ltac:(lia)) as (p & E & C). exists p. split; [exact E|]. rewrite C. apply fp_new_wf. lia.
Qed.
(* on a well-formed partition block_id never panics on an element and names the block that holds it *)
Lemma g_fp_block_id n p x : fp_wf n (convfp p) -> N.to_nat x < n ->
  exists b, M_Partition_block_id_fn p x = Some b /\ in_blk (fp_base (convfp p)) (N.to_nat b) (N.to_nat x).
Proof.
  intros W Hx.
  assert (Hl : length (Partition_block_id p) = n).
  { pose proof (fw_len _ _ W) as H. unfold convfp in H. cbn [fp_bid] in H. rewrite map_length in H. exact H. }
  pose proof (link_fp_block_id_in p x ltac:(lia)) as L.
  destruct (M_Partition_block_id_fn p x) as [b|]; [|discriminate L]. cbn [option_map] in L. injection L as L.
  exists b. split; [reflexivity|]. rewrite L. apply (fp_in_blk_iff n _ _ _ W). split; [exact Hx|reflexivity].
Qed.

Example g_example_basepart :
  option_map convbp (M_BasePartition_new 3%N) = Some {| bp_block := [(0, 0); (0, 3)]; bp_seg := [0; 1; 2] |} /\
  (do p <- M_BasePartition_new 3%N; do r <- M_BasePartition_split_block p 1%N 2; M_BasePartition_slice (fst r) 2%N) = Some [2%N] /\
  (do p <- M_BasePartition_new 3%N; M_BasePartition_pick_element p 0%N) = None.
Proof. repeat split; vm_compute; reflexivity. Qed.

(* impl Display for BasePartition: the inner loop prints " x" for every element and cannot fail; on a well-formed
   partition the whole printer never panics, returns Ok and only appends to the formatter's buffer *)
Lemma g_fmt_block els f :
  BasePartition_fmt_loop2 els f = Some (LoopDone (f ++ flat_map (fun x => 32%N :: i32_to_string (Z.of_N x)) els)).
Proof.
  revert f. induction els as [|x els IH]; intros f; cbn [BasePartition_fmt_loop2 flat_map].
  - rewrite app_nil_r. reflexivity.
  - rewrite IH. cbn [app]. rewrite <- ?app_assoc. reflexivity.
Qed.
Lemma g_fmt_blocks n p l f : bp_wf n (convbp p) -> (N.of_nat n < 4294967296)%N ->
  (forall i, In i l -> 1 <= N.to_nat i < nblk (convbp p)) ->
  exists out, BasePartition_fmt_loop1 l p f = Some (LoopDone (f ++ out)).
Proof.
  intros W Hn. revert f. induction l as [|i l IH]; intros f Hl; cbn [BasePartition_fmt_loop1].
  - exists []. rewrite app_nil_r. reflexivity.
  - destruct (g_block_elements n p i W Hn (Hl i (or_introl eq_refl))) as (sz & els & _ & E & _).
    rewrite E. cbn [bind]. rewrite g_fmt_block. cbn [bind].
    destruct (IH ((f ++ [98; 108; 111; 99; 107; 91]%N ++ i32_to_string (Z.of_N i) ++ [93; 58; 32]%N)
                    ++ flat_map (fun x => 32%N :: i32_to_string (Z.of_N x)) els ++ [10%N])) as (out & Eo).
    { intros j Hj. apply Hl. right. exact Hj. }
    rewrite <- ?app_assoc in Eo. rewrite <- ?app_assoc. rewrite Eo. eexists. rewrite <- ?app_assoc. reflexivity.
Qed.
Lemma g_fmt_total n p f : bp_wf n (convbp p) -> (N.of_nat n < 4294967296)%N ->
  (N.of_nat (length (BasePartition_block p)) < 4294967296)%N ->
  exists out, M_BasePartition_fmt p f = Some (f ++ out, Ok tt).
Proof.
  intros W Hn Hb. unfold M_BasePartition_fmt, BasePartition_fmt.
  rewrite link_num_blocks by (unfold fits; lia). cbn [bind].
  destruct (g_fmt_blocks n p (map N.of_nat (seq (N.to_nat 1) (N.to_nat (N.of_nat (bp_num_blocks (convbp p))) - N.to_nat 1))) f W Hn) as (out & E).
  { intros i Hi. apply in_map_iff in Hi as (k & Ek & Hk). apply in_seq in Hk. subst i. rewrite !Nat2N.id in *.
    unfold nblk, bp_num_blocks in *. change (N.to_nat 1) with 1 in Hk. lia. }
  rewrite E. cbn [bind]. exists out. reflexivity.
Qed.
(* impl Display for Partition prints the base partition *)
Lemma g_fp_fmt p f : M_Partition_fmt p f = M_BasePartition_fmt (Partition_base p) f.
Proof.
  unfold M_Partition_fmt, Partition_fmt. cbv [bind].
  destruct (M_BasePartition_fmt (Partition_base p) f) as [[f' r]|]; reflexivity.
Qed.
Lemma g_fp_fmt_total n p f : bp_wf n (convbp (Partition_base p)) -> (N.of_nat n < 4294967296)%N ->
  (N.of_nat (length (BasePartition_block (Partition_base p))) < 4294967296)%N ->
  exists out, M_Partition_fmt p f = Some (f ++ out, Ok tt).
Proof. intros W Hn Hb. rewrite g_fp_fmt. apply (g_fmt_total n); assumption. Qed.
