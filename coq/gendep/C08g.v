(* C08g -- string literals: the regenerated translation of the literal parser meets the parsing half of C08; the two regenerated character printers meet the printing half.
   Statements only; every proof is [exact <lemma>].  The statements are about the definitions that
   gen/rs2v.py regenerates from /repo/src on every run (namespace SVG; M_f is the monadic view of
   the Rust function f: None = f panics).  Written by bin/mkgenprops from the lemma statements. *)
Require Import Base GenBase.
Require Import Literal LiteralProofs.
From SVG Require Import LiteralGen GenLinkLiteral GenPropsLiteral StrPrintGen GenLinkStrPrint GenPropsStrPrint.
Open Scope N_scope.

(* ---- the translated automaton methods are the model's (strong form: M_f p x = unconvpa (model (convpa p) x)) ---- *)

Theorem C08g_link_make :
  forall a : list N,
       option_map LiteralGen.SmtString_s (M_SmtString_make a) =
       (if (MAXLEN <? length a)%nat then None else Some a).
Proof. exact link_make. Qed.
Print Assumptions C08g_link_make.

Theorem C08g_link_new :
  M_fn_new_automaton = Some (unconvpa new_parsing_automaton).
Proof. exact link_new. Qed.
Print Assumptions C08g_link_new.

Theorem C08g_link_push :
  forall (p : ParsingAutomaton) (x : N),
       M_ParsingAutomaton_push p x = Some (unconvpa (pa_push (convpa p) x)).
Proof. exact link_push. Qed.
Print Assumptions C08g_link_push.

Theorem C08g_link_pending :
  forall (p : ParsingAutomaton) (x : N),
       M_ParsingAutomaton_pending_fn p x = option_map unconvpa (pa_pending (convpa p) x).
Proof. exact link_pending. Qed.
Print Assumptions C08g_link_pending.

Theorem C08g_link_flush_pending :
  forall p : ParsingAutomaton,
       M_ParsingAutomaton_flush_pending p = option_map unconvpa (pa_flush_pending (convpa p)).
Proof. exact link_flush_pending. Qed.
Print Assumptions C08g_link_flush_pending.

Theorem C08g_link_close_escape_seq :
  forall p : ParsingAutomaton,
       M_ParsingAutomaton_close_escape_seq p = Some (unconvpa (pa_close_escape_seq (convpa p))).
Proof. exact link_close_escape_seq. Qed.
Print Assumptions C08g_link_close_escape_seq.

Theorem C08g_link_consume :
  forall (p : ParsingAutomaton) (x : N),
       M_ParsingAutomaton_consume p x = option_map unconvpa (pa_consume (convpa p) x).
Proof. exact link_consume. Qed.
Print Assumptions C08g_link_consume.

Theorem C08g_link_add_hex :
  forall (p : ParsingAutomaton) (x : N),
       ParsingAutomaton_escape_code p < 268435456 ->
       M_ParsingAutomaton_add_hex p x = option_map unconvpa (pa_add_hex (convpa p) x).
Proof. exact link_add_hex. Qed.
Print Assumptions C08g_link_add_hex.

Theorem C08g_link_accept :
  forall (p : ParsingAutomaton) (x : N),
       ParsingAutomaton_escape_code p < 268435456 ->
       M_ParsingAutomaton_accept p x = option_map unconvpa (pa_accept (convpa p) x).
Proof. exact link_accept. Qed.
Print Assumptions C08g_link_accept.

Theorem C08g_link_run :
  forall (t : list N) (p : ParsingAutomaton) (used : list N),
       coh (convpa p) used ->
       match fn_parse_smt_literal_loop1 t p with
       | Some (LoopReturn _) => False
       | Some (LoopDone q) => pa_run (convpa p) t = Some (convpa q)
       | None => pa_run (convpa p) t = None
       end.
Proof. exact link_run. Qed.
Print Assumptions C08g_link_run.

Theorem C08g_link_parse :
  forall text : list N,
       option_map LiteralGen.SmtString_s (M_fn_parse_smt_literal text) =
       match parse_smt_literal text with
       | Some w => if (MAXLEN <? length w)%nat then None else Some w
       | None => None
       end.
Proof. exact link_parse. Qed.
Print Assumptions C08g_link_parse.

(* ---- the C08 parsing statements on the translated code ---- *)

Theorem C08g_parse_is_ref :
  forall text : list N,
       (length (lit_parse_ref text) <= MAXLEN)%nat ->
       option_map LiteralGen.SmtString_s (M_fn_parse_smt_literal text) = Some (lit_parse_ref text).
Proof. exact g_parse_is_ref. Qed.
Print Assumptions C08g_parse_is_ref.

Theorem C08g_parse_panics_iff :
  forall text : list N,
       M_fn_parse_smt_literal text = None <-> (MAXLEN < length (lit_parse_ref text))%nat.
Proof. exact g_parse_panics_iff. Qed.
Print Assumptions C08g_parse_panics_iff.

Theorem C08g_parse_denotes :
  forall (text : list N) (s : LiteralGen.SmtString),
       M_fn_parse_smt_literal text = Some s -> LitDenote text (LiteralGen.SmtString_s s).
Proof. exact g_parse_denotes. Qed.
Print Assumptions C08g_parse_denotes.

Theorem C08g_parse_good :
  forall (text : list N) (s : LiteralGen.SmtString),
       M_fn_parse_smt_literal text = Some s -> goodw (LiteralGen.SmtString_s s).
Proof. exact g_parse_good. Qed.
Print Assumptions C08g_parse_good.

Theorem C08g_accept_never_panics :
  forall (p : ParsingAutomaton) (used : list N) (x : N),
       coh (convpa p) used ->
       exists (q : ParsingAutomaton) (used' : list N),
         M_ParsingAutomaton_accept p x = Some q /\ coh (convpa q) used'.
Proof. exact g_accept_never_panics. Qed.
Print Assumptions C08g_accept_never_panics.

Theorem C08g_example :
  run_text [97; 92; 117; 123; 52; 49; 125; 92; 117; 50; 67; 65] =
       Some [97; 65; 92; 117; 50; 67; 65] /\
       run_text [92; 50; 117; 50; 50; 50; 50; 50] = Some [92; 50; 117; 50; 50; 50; 50; 50] /\
       coh (convpa fn_new_automaton) [].
Proof. exact g_example. Qed.
Print Assumptions C08g_example.

(* ---- the translated character printers are the model's (format! with {:x} as the hexadecimal printer) ---- *)

Theorem C08g_link_smt_char_as_string :
  forall x : N, M_fn_smt_char_as_string x = Some (smt_char_as_string x).
Proof. exact link_smt_char_as_string. Qed.
Print Assumptions C08g_link_smt_char_as_string.

Theorem C08g_link_char_to_smt :
  forall x : N, M_fn_char_to_smt x = Some (char_to_smt x).
Proof. exact link_char_to_smt. Qed.
Print Assumptions C08g_link_char_to_smt.

Theorem C08g_link_fmt_loop :
  forall l f : list N, disp_res (SmtString_fmt_loop1 l f) = Some (f ++ fmt_loop l).
Proof. exact link_fmt_loop. Qed.
Print Assumptions C08g_link_fmt_loop.

Theorem C08g_link_display :
  forall (s : SmtString) (f : list N),
       M_SmtString_fmt s f = Some (f ++ smt_display (SmtString_s s), Ok tt).
Proof. exact link_display. Qed.
Print Assumptions C08g_link_display.

(* ---- the C08 printing statements on the translated character printers ---- *)

Theorem C08g_char_printers_total :
  forall x : N, M_fn_char_to_smt x <> None /\ M_fn_smt_char_as_string x <> None.
Proof. exact g_char_printers_total. Qed.
Print Assumptions C08g_char_printers_total.

Theorem C08g_char_printers_ascii :
  forall x : N,
       x <= MAXC ->
       exists l1 l2 : list N,
         M_fn_char_to_smt x = Some l1 /\
         M_fn_smt_char_as_string x = Some l2 /\
         Forall (fun c : N => 32 <= c <= 126) l1 /\ Forall (fun c : N => 32 <= c <= 126) l2.
Proof. exact g_char_printers_ascii. Qed.
Print Assumptions C08g_char_printers_ascii.

Theorem C08g_char_roundtrip :
  forall x : N,
       x <= MAXC ->
       exists l1 l2 : list N,
         M_fn_char_to_smt x = Some l1 /\
         M_fn_smt_char_as_string x = Some l2 /\
         parse_smt_literal (lit_undouble l1) = Some [x] /\
         parse_smt_literal (lit_undouble l2) = Some [x].
Proof. exact g_char_roundtrip. Qed.
Print Assumptions C08g_char_roundtrip.

Theorem C08g_example_printers :
  M_fn_char_to_smt 34 = Some [34; 34] /\
       M_fn_char_to_smt 10 = Some [92; 117; 123; 48; 97; 125] /\
       M_fn_char_to_smt 233 = Some [92; 117; 48; 48; 101; 57] /\
       M_fn_smt_char_as_string 196607 = Some [92; 117; 123; 50; 102; 102; 102; 102; 125].
Proof. exact g_example_printers. Qed.
Print Assumptions C08g_example_printers.

Theorem C08g_display_total :
  forall (s : SmtString) (f : list N),
       exists t : list N,
         M_SmtString_fmt s f = Some (f ++ t, Ok tt) /\ t = smt_display (SmtString_s s).
Proof. exact g_display_total. Qed.
Print Assumptions C08g_display_total.

Theorem C08g_display_ascii :
  forall s : SmtString,
       goodw (SmtString_s s) ->
       exists t : list N,
         M_SmtString_fmt s [] = Some (t, Ok tt) /\ Forall (fun c : N => 32 <= c <= 126) t.
Proof. exact g_display_ascii. Qed.
Print Assumptions C08g_display_ascii.

Theorem C08g_display_injective :
  forall (s1 s2 : SmtString) (t : list N),
       goodw (SmtString_s s1) ->
       goodw (SmtString_s s2) ->
       M_SmtString_fmt s1 [] = Some (t, Ok tt) ->
       M_SmtString_fmt s2 [] = Some (t, Ok tt) -> SmtString_s s1 = SmtString_s s2.
Proof. exact g_display_injective. Qed.
Print Assumptions C08g_display_injective.

Theorem C08g_display_roundtrip :
  forall s : SmtString,
       goodw (SmtString_s s) ->
       exists t : list N,
         M_SmtString_fmt s [] = Some (t, Ok tt) /\
         parse_smt_literal (lit_undouble (lit_body t)) = Some (SmtString_s s).
Proof. exact g_display_roundtrip. Qed.
Print Assumptions C08g_display_roundtrip.
