(* C04g -- fast_sets.rs (the sparse set of the minimizer): the regenerated translation is a correct finite set and refines the model's insertion-ordered list with swap-remove, for every sequence of operations.
   Statements only; every proof is [exact <lemma>].  The statements are about the definitions that
   gen/rs2v.py regenerates from /repo/src on every run (namespace SVG; M_f is the monadic view of
   the Rust function f: None = f panics).  Written by bin/mkgenprops from the lemma statements. *)
Require Import Base GenBase.
Require Import Automaton Minimizer.
From SVG Require Import FastSetGen GenLinkFastSet GenPropsFastSet.
Open Scope N_scope.

(* ---- refinement of the model's FastSet (representation invariant inv, abstraction abs) ---- *)

Theorem C04g_new :
  forall m : N,
       m <= 4294967295 ->
       exists s : FastSet, M_FastSet_new m = Some s /\ inv s /\ FastSet_max s = m /\ abs s = [].
Proof. exact g_new. Qed.
Print Assumptions C04g_new.

Theorem C04g_contains :
  forall (s : FastSet) (x : N),
       inv s ->
       x < FastSet_max s -> M_FastSet_contains s x = Some (existsb (Nat.eqb (N.to_nat x)) (abs s)).
Proof. exact g_contains. Qed.
Print Assumptions C04g_contains.

Theorem C04g_insert :
  forall (s : FastSet) (x : N),
       inv s ->
       x < FastSet_max s ->
       exists s' : FastSet,
         M_FastSet_insert s x = Some s' /\
         inv s' /\ FastSet_max s' = FastSet_max s /\ abs s' = fs_insert (abs s) (N.to_nat x).
Proof. exact g_insert. Qed.
Print Assumptions C04g_insert.

Theorem C04g_remove :
  forall (s : FastSet) (x : N),
       inv s ->
       x < FastSet_max s ->
       exists s' : FastSet,
         M_FastSet_remove s x = Some s' /\
         inv s' /\ FastSet_max s' = FastSet_max s /\ abs s' = fs_remove (abs s) (N.to_nat x).
Proof. exact g_remove. Qed.
Print Assumptions C04g_remove.

Theorem C04g_reset :
  forall s : FastSet,
       inv s ->
       exists s' : FastSet,
         M_FastSet_reset s = Some s' /\ inv s' /\ FastSet_max s' = FastSet_max s /\ abs s' = [].
Proof. exact g_reset. Qed.
Print Assumptions C04g_reset.

Theorem C04g_card :
  forall s : FastSet,
       inv s -> exists n : N, M_FastSet_card s = Some n /\ N.to_nat n = length (abs s).
Proof. exact g_card. Qed.
Print Assumptions C04g_card.

Theorem C04g_iter :
  forall (s : FastSet) (fuel : nat),
       inv s ->
       (N.to_nat (FastSet_size s) < fuel)%nat ->
       option_map (map N.to_nat)
         match M_FastSet_iter s with
         | Some it => drain fuel it
         | None => None
         end = Some (abs s).
Proof. exact g_iter. Qed.
Print Assumptions C04g_iter.

Theorem C04g_history :
  forall (m : N) (ops : list op),
       m <= 4294967295 ->
       Forall (op_ok m) ops ->
       exists s : FastSet,
         fold_left step_gen ops (M_FastSet_new m) = Some s /\
         inv s /\ FastSet_max s = m /\ abs s = fold_left step_model ops [].
Proof. exact g_history. Qed.
Print Assumptions C04g_history.

Theorem C04g_example :
  option_map abs
         (fold_left step_gen [Ins 10; Ins 20; Ins 10; Ins 40; Rem 30; Rem 10; Ins 7]
            (M_FastSet_new 100)) = Some [40%nat; 20%nat; 7%nat].
Proof. exact g_example. Qed.
Print Assumptions C04g_example.
