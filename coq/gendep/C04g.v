(* C04g -- fast_sets.rs (the sparse set of the minimizer): the regenerated translation is a correct finite set and refines the model's insertion-ordered list with swap-remove, for every sequence of operations; partitions.rs (BasePartition below refine_block): the regenerated translation is the model's array partition.
   Statements only; every proof is [exact <lemma>].  The statements are about the definitions that
   gen/rs2v.py regenerates from /repo/src on every run (namespace SVG; M_f is the monadic view of
   the Rust function f: None = f panics).  Written by bin/mkgenprops from the lemma statements. *)
Require Import Base GenBase.
Require Import Automaton Minimizer HopPart.
From SVG Require Import FastSetGen GenLinkFastSet GenPropsFastSet BasePartGen GenLinkBasePart GenPropsBasePart.
Open Scope N_scope.

(* ---- refinement of the model's FastSet (representation invariant inv, abstraction abs) ---- *)

Theorem C04g_new :
  forall m : N,
       m <= 4294967295 ->
       exists s : FastSet, M_FastSet_new m = Some s /\ inv s /\ FastSet_max s = m /\ abs s = [].
Proof. exact g_new. Qed.
Print Assumptions C04g_new.

Theorem C04g_contains :
  forall (s : FastSet) (x : N),
       inv s ->
       x < FastSet_max s -> M_FastSet_contains s x = Some (existsb (Nat.eqb (N.to_nat x)) (abs s)).
Proof. exact g_contains. Qed.
Print Assumptions C04g_contains.

Theorem C04g_insert :
  forall (s : FastSet) (x : N),
       inv s ->
       x < FastSet_max s ->
       exists s' : FastSet,
         M_FastSet_insert s x = Some s' /\
         inv s' /\ FastSet_max s' = FastSet_max s /\ abs s' = fs_insert (abs s) (N.to_nat x).
Proof. exact g_insert. Qed.
Print Assumptions C04g_insert.

Theorem C04g_remove :
  forall (s : FastSet) (x : N),
       inv s ->
       x < FastSet_max s ->
       exists s' : FastSet,
         M_FastSet_remove s x = Some s' /\
         inv s' /\ FastSet_max s' = FastSet_max s /\ abs s' = fs_remove (abs s) (N.to_nat x).
Proof. exact g_remove. Qed.
Print Assumptions C04g_remove.

Theorem C04g_reset :
  forall s : FastSet,
       inv s ->
       exists s' : FastSet,
         M_FastSet_reset s = Some s' /\ inv s' /\ FastSet_max s' = FastSet_max s /\ abs s' = [].
Proof. exact g_reset. Qed.
Print Assumptions C04g_reset.

Theorem C04g_card :
  forall s : FastSet,
       inv s -> exists n : N, M_FastSet_card s = Some n /\ N.to_nat n = length (abs s).
Proof. exact g_card. Qed.
Print Assumptions C04g_card.

Theorem C04g_iter :
  forall (s : FastSet) (fuel : nat),
       inv s ->
       (N.to_nat (FastSet_size s) < fuel)%nat ->
       option_map (map N.to_nat)
         match M_FastSet_iter s with
         | Some it => drain fuel it
         | None => None
         end = Some (abs s).
Proof. exact g_iter. Qed.
Print Assumptions C04g_iter.

Theorem C04g_history :
  forall (m : N) (ops : list op),
       m <= 4294967295 ->
       Forall (op_ok m) ops ->
       exists s : FastSet,
         fold_left step_gen ops (M_FastSet_new m) = Some s /\
         inv s /\ FastSet_max s = m /\ abs s = fold_left step_model ops [].
Proof. exact g_history. Qed.
Print Assumptions C04g_history.

Theorem C04g_example :
  option_map abs
         (fold_left step_gen [Ins 10; Ins 20; Ins 10; Ins 40; Rem 30; Rem 10; Ins 7]
            (M_FastSet_new 100)) = Some [40%nat; 20%nat; 7%nat].
Proof. exact g_example. Qed.
Print Assumptions C04g_example.

Theorem C04g_fs_fmt_loop :
  forall (s : FastSet) (l f : list N),
       (forall i : N, In i l -> (N.to_nat i < length (FastSet_elem s))%nat) ->
       exists out : list N, FastSet_fmt_loop1 l s f = Some (LoopDone (f ++ out)).
Proof. exact g_fs_fmt_loop. Qed.
Print Assumptions C04g_fs_fmt_loop.

Theorem C04g_fs_fmt_total :
  forall (s : FastSet) (f : list N),
       (N.to_nat (FastSet_size s) <= length (FastSet_elem s))%nat ->
       exists out : list N, M_FastSet_fmt s f = Some (f ++ out, Ok tt).
Proof. exact g_fs_fmt_total. Qed.
Print Assumptions C04g_fs_fmt_total.

(* ---- BasePartition: constructor, accessors and the header update of refine_block are the model's bpart (convbp) ---- *)

Theorem C04g_link_new_loop :
  forall m k : nat,
       fits (k + m) ->
       BasePartition_new_loop1 (seq k m) (map N.of_nat (seq 0 k) ++ repeat 0 m) =
       Some (LoopDone (map N.of_nat (seq 0 (k + m)))).
Proof. exact link_new_loop. Qed.
Print Assumptions C04g_link_new_loop.

Theorem C04g_link_new :
  forall n : N,
       n < 4294967296 ->
       exists p : BasePartition, M_BasePartition_new n = Some p /\ convbp p = bp_new (N.to_nat n).
Proof. exact link_new. Qed.
Print Assumptions C04g_link_new.

Theorem C04g_link_num_blocks :
  forall p : BasePartition,
       fits (length (BasePartition_block p)) ->
       M_BasePartition_num_blocks p = Some (N.of_nat (bp_num_blocks (convbp p))).
Proof. exact link_num_blocks. Qed.
Print Assumptions C04g_link_num_blocks.

Theorem C04g_link_size :
  forall p : BasePartition,
       fits (BasePartition_size p) ->
       M_BasePartition_size_fn p = Some (N.of_nat (BasePartition_size p)).
Proof. exact link_size. Qed.
Print Assumptions C04g_link_size.

Theorem C04g_link_index :
  forall p : BasePartition,
       fits (length (BasePartition_block p)) ->
       (1 <= length (BasePartition_block p))%nat ->
       M_BasePartition_index p = Some (N.of_nat (bp_num_blocks (convbp p) - 1)).
Proof. exact link_index. Qed.
Print Assumptions C04g_link_index.

Theorem C04g_link_block_size :
  forall (p : BasePartition) (i : N) (h : BlockHeader),
       nth_error (BasePartition_block p) (N.to_nat i) = Some h ->
       (BlockHeader_start h <= BlockHeader_end h)%nat ->
       fits (BlockHeader_end h - BlockHeader_start h) ->
       M_BasePartition_block_size p i = Some (N.of_nat (bp_block_size (convbp p) (N.to_nat i))).
Proof. exact link_block_size. Qed.
Print Assumptions C04g_link_block_size.

Theorem C04g_link_smaller_block :
  forall (p : BasePartition) (i j : N) (hi hj : BlockHeader),
       nth_error (BasePartition_block p) (N.to_nat i) = Some hi ->
       nth_error (BasePartition_block p) (N.to_nat j) = Some hj ->
       (BlockHeader_start hi <= BlockHeader_end hi)%nat ->
       fits (BlockHeader_end hi - BlockHeader_start hi) ->
       (BlockHeader_start hj <= BlockHeader_end hj)%nat ->
       fits (BlockHeader_end hj - BlockHeader_start hj) ->
       M_BasePartition_smaller_block p i j =
       Some (bp_block_size (convbp p) (N.to_nat i) <=? bp_block_size (convbp p) (N.to_nat j))%nat.
Proof. exact link_smaller_block. Qed.
Print Assumptions C04g_link_smaller_block.

Theorem C04g_link_block_size_oob :
  forall (p : BasePartition) (i : N),
       (length (BasePartition_block p) <= N.to_nat i)%nat -> M_BasePartition_block_size p i = None.
Proof. exact link_block_size_oob. Qed.
Print Assumptions C04g_link_block_size_oob.

Theorem C04g_link_slice :
  forall (p : BasePartition) (i : N) (h : BlockHeader),
       nth_error (BasePartition_block p) (N.to_nat i) = Some h ->
       (BlockHeader_start h <= BlockHeader_end h <= length (BasePartition_segment p))%nat ->
       option_map (map N.to_nat) (M_BasePartition_slice p i) =
       Some (bp_elements (convbp p) (N.to_nat i)).
Proof. exact link_slice. Qed.
Print Assumptions C04g_link_slice.

Theorem C04g_link_pick_element :
  forall (p : BasePartition) (i : N) (h : BlockHeader),
       0 < i ->
       nth_error (BasePartition_block p) (N.to_nat i) = Some h ->
       (BlockHeader_start h < length (BasePartition_segment p))%nat ->
       option_map N.to_nat (M_BasePartition_pick_element p i) =
       Some (nth (BlockHeader_start h) (bp_seg (convbp p)) 0%nat).
Proof. exact link_pick_element. Qed.
Print Assumptions C04g_link_pick_element.

Theorem C04g_link_pick_element_zero :
  forall p : BasePartition, M_BasePartition_pick_element p 0 = None.
Proof. exact link_pick_element_zero. Qed.
Print Assumptions C04g_link_pick_element_zero.

Theorem C04g_link_add_block :
  forall (p : BasePartition) (s e : nat),
       fits (length (BasePartition_block p)) ->
       exists p' : BasePartition,
         M_BasePartition_add_block p s e = Some (p', N.of_nat (length (BasePartition_block p))) /\
         convbp p' = {| bp_block := bp_block (convbp p) ++ [(s, e)]; bp_seg := bp_seg (convbp p) |}.
Proof. exact link_add_block. Qed.
Print Assumptions C04g_link_add_block.

Theorem C04g_link_split_block :
  forall (p : BasePartition) (i : N) (n : nat) (h : BlockHeader),
       nth_error (BasePartition_block p) (N.to_nat i) = Some h ->
       fits (length (BasePartition_block p)) ->
       exists p' : BasePartition,
         M_BasePartition_split_block p i n = Some (p', N.of_nat (length (BasePartition_block p))) /\
         convbp p' =
         {|
           bp_block :=
             upd (bp_block (convbp p)) (N.to_nat i)
               (BlockHeader_start h, (BlockHeader_start h + n)%nat) ++
             [((BlockHeader_start h + n)%nat, BlockHeader_end h)];
           bp_seg := bp_seg (convbp p)
         |}.
Proof. exact link_split_block. Qed.
Print Assumptions C04g_link_split_block.

Theorem C04g_link_block_elements :
  forall (p : BasePartition) (i : N) (h : BlockHeader),
       nth_error (BasePartition_block p) (N.to_nat i) = Some h ->
       (BlockHeader_start h <= BlockHeader_end h <= length (BasePartition_segment p))%nat ->
       option_map (map N.to_nat) (M_BasePartition_block_elements p i) =
       Some (bp_elements (convbp p) (N.to_nat i)).
Proof. exact link_block_elements. Qed.
Print Assumptions C04g_link_block_elements.

Theorem C04g_link_fp_block_elements :
  forall (p : Partition) (i : N) (h : BlockHeader),
       nth_error (BasePartition_block (Partition_base p)) (N.to_nat i) = Some h ->
       (BlockHeader_start h <= BlockHeader_end h <=
        length (BasePartition_segment (Partition_base p)))%nat ->
       option_map (map N.to_nat) (M_Partition_block_elements p i) =
       Some (bp_elements (fp_base (convfp p)) (N.to_nat i)).
Proof. exact link_fp_block_elements. Qed.
Print Assumptions C04g_link_fp_block_elements.

Theorem C04g_link_block_elements_out :
  forall (p : BasePartition) (i : N),
       (length (BasePartition_block p) <= N.to_nat i)%nat ->
       M_BasePartition_block_elements p i = None.
Proof. exact link_block_elements_out. Qed.
Print Assumptions C04g_link_block_elements_out.

Theorem C04g_link_fp_num_blocks :
  forall p : Partition,
       fits (length (BasePartition_block (Partition_base p))) ->
       M_Partition_num_blocks p = Some (N.of_nat (bp_num_blocks (fp_base (convfp p)))).
Proof. exact link_fp_num_blocks. Qed.
Print Assumptions C04g_link_fp_num_blocks.

Theorem C04g_link_fp_block_size :
  forall (p : Partition) (i : N) (h : BlockHeader),
       nth_error (BasePartition_block (Partition_base p)) (N.to_nat i) = Some h ->
       (BlockHeader_start h <= BlockHeader_end h)%nat ->
       fits (BlockHeader_end h - BlockHeader_start h) ->
       M_Partition_block_size p i =
       Some (N.of_nat (bp_block_size (fp_base (convfp p)) (N.to_nat i))).
Proof. exact link_fp_block_size. Qed.
Print Assumptions C04g_link_fp_block_size.

Theorem C04g_link_fp_new :
  forall n : N,
       n < 4294967296 ->
       exists p : Partition, M_Partition_new n = Some p /\ convfp p = fp_new (N.to_nat n).
Proof. exact link_fp_new. Qed.
Print Assumptions C04g_link_fp_new.

Theorem C04g_link_fp_block_id :
  forall (p : Partition) (x : N),
       option_map N.to_nat (M_Partition_block_id_fn p x) =
       nth_error (fp_bid (convfp p)) (N.to_nat x).
Proof. exact link_fp_block_id. Qed.
Print Assumptions C04g_link_fp_block_id.

Theorem C04g_link_fp_block_id_in :
  forall (p : Partition) (x : N),
       (N.to_nat x < length (Partition_block_id p))%nat ->
       option_map N.to_nat (M_Partition_block_id_fn p x) =
       Some (fp_block_id (convfp p) (N.to_nat x)).
Proof. exact link_fp_block_id_in. Qed.
Print Assumptions C04g_link_fp_block_id_in.

(* ---- the representation invariant bp_wf of the model's proofs, on the translated code ---- *)

Theorem C04g_new_wf :
  forall n : N,
       1 <= n < 4294967296 ->
       exists p : BasePartition,
         M_BasePartition_new n = Some p /\
         bp_wf (N.to_nat n) (convbp p) /\
         (forall x : nat, in_blk (convbp p) 1 x <-> (x < N.to_nat n)%nat).
Proof. exact g_new_wf. Qed.
Print Assumptions C04g_new_wf.

Theorem C04g_block_read :
  forall (n : nat) (p : BasePartition) (i : N),
       bp_wf n (convbp p) ->
       N.of_nat n < 4294967296 ->
       (1 <= N.to_nat i < nblk (convbp p))%nat ->
       exists (sz : N) (els : list N) (x : N),
         M_BasePartition_block_size p i = Some sz /\
         M_BasePartition_slice p i = Some els /\
         M_BasePartition_pick_element p i = Some x /\
         N.to_nat sz = length els /\
         (forall y : N, In y els <-> in_blk (convbp p) (N.to_nat i) (N.to_nat y)) /\ In x els.
Proof. exact g_block_read. Qed.
Print Assumptions C04g_block_read.

Theorem C04g_block_elements :
  forall (n : nat) (p : BasePartition) (i : N),
       bp_wf n (convbp p) ->
       N.of_nat n < 4294967296 ->
       (1 <= N.to_nat i < nblk (convbp p))%nat ->
       exists (sz : N) (els : list N),
         M_BasePartition_block_size p i = Some sz /\
         M_BasePartition_block_elements p i = Some els /\
         N.to_nat sz = length els /\
         (forall y : N, In y els <-> in_blk (convbp p) (N.to_nat i) (N.to_nat y)).
Proof. exact g_block_elements. Qed.
Print Assumptions C04g_block_elements.

Theorem C04g_fp_block_elements :
  forall (n : nat) (p : Partition) (i : N),
       bp_wf n (convbp (Partition_base p)) ->
       N.of_nat n < 4294967296 ->
       (1 <= N.to_nat i < nblk (convbp (Partition_base p)))%nat ->
       exists (sz : N) (els : list N),
         M_Partition_block_size p i = Some sz /\
         M_Partition_block_elements p i = Some els /\
         N.to_nat sz = length els /\
         (forall y : N, In y els <-> in_blk (convbp (Partition_base p)) (N.to_nat i) (N.to_nat y)).
Proof. exact g_fp_block_elements. Qed.
Print Assumptions C04g_fp_block_elements.

Theorem C04g_split_block_total :
  forall (p : BasePartition) (i : N) (n : nat) (h : BlockHeader),
       nth_error (BasePartition_block p) (N.to_nat i) = Some h ->
       N.of_nat (length (BasePartition_block p)) < 4294967296 ->
       exists (p' : BasePartition) (k : N),
         M_BasePartition_split_block p i n = Some (p', k) /\
         M_BasePartition_num_blocks p = Some k /\
         length (BasePartition_block p') = S (length (BasePartition_block p)) /\
         BasePartition_segment p' = BasePartition_segment p.
Proof. exact g_split_block_total. Qed.
Print Assumptions C04g_split_block_total.

Theorem C04g_fp_new_wf :
  forall n : N,
       1 <= n < 4294967296 ->
       exists p : Partition, M_Partition_new n = Some p /\ fp_wf (N.to_nat n) (convfp p).
Proof. exact g_fp_new_wf. Qed.
Print Assumptions C04g_fp_new_wf.

Theorem C04g_fp_block_id :
  forall (n : nat) (p : Partition) (x : N),
       fp_wf n (convfp p) ->
       (N.to_nat x < n)%nat ->
       exists b : N,
         M_Partition_block_id_fn p x = Some b /\
         in_blk (fp_base (convfp p)) (N.to_nat b) (N.to_nat x).
Proof. exact g_fp_block_id. Qed.
Print Assumptions C04g_fp_block_id.

Theorem C04g_example_basepart :
  option_map convbp (M_BasePartition_new 3) =
       Some {| bp_block := [(0%nat, 0%nat); (0%nat, 3%nat)]; bp_seg := [0%nat; 1%nat; 2%nat] |} /\
       (do p <- M_BasePartition_new 3;
        do r <- M_BasePartition_split_block p 1 2; M_BasePartition_slice (fst r) 2) = 
       Some [2] /\ (do p <- M_BasePartition_new 3; M_BasePartition_pick_element p 0) = None.
Proof. exact g_example_basepart. Qed.
Print Assumptions C04g_example_basepart.

Theorem C04g_fmt_block :
  forall els f : list N,
       BasePartition_fmt_loop2 els f =
       Some (LoopDone (f ++ flat_map (fun x : N => 32 :: i32_to_string (Z.of_N x)) els)).
Proof. exact g_fmt_block. Qed.
Print Assumptions C04g_fmt_block.

Theorem C04g_fmt_blocks :
  forall (n : nat) (p : BasePartition) (l f : list N),
       bp_wf n (convbp p) ->
       N.of_nat n < 4294967296 ->
       (forall i : N, In i l -> (1 <= N.to_nat i < nblk (convbp p))%nat) ->
       exists out : list N, BasePartition_fmt_loop1 l p f = Some (LoopDone (f ++ out)).
Proof. exact g_fmt_blocks. Qed.
Print Assumptions C04g_fmt_blocks.

Theorem C04g_fmt_total :
  forall (n : nat) (p : BasePartition) (f : list N),
       bp_wf n (convbp p) ->
       N.of_nat n < 4294967296 ->
       N.of_nat (length (BasePartition_block p)) < 4294967296 ->
       exists out : list N, M_BasePartition_fmt p f = Some (f ++ out, Ok tt).
Proof. exact g_fmt_total. Qed.
Print Assumptions C04g_fmt_total.

Theorem C04g_fp_fmt :
  forall (p : Partition) (f : list N),
       M_Partition_fmt p f = M_BasePartition_fmt (Partition_base p) f.
Proof. exact g_fp_fmt. Qed.
Print Assumptions C04g_fp_fmt.

Theorem C04g_fp_fmt_total :
  forall (n : nat) (p : Partition) (f : list N),
       bp_wf n (convbp (Partition_base p)) ->
       N.of_nat n < 4294967296 ->
       N.of_nat (length (BasePartition_block (Partition_base p))) < 4294967296 ->
       exists out : list N, M_Partition_fmt p f = Some (f ++ out, Ok tt).
Proof. exact g_fp_fmt_total. Qed.
Print Assumptions C04g_fp_fmt_total.
