(* C15g -- LoopRange: the regenerated translation of loop_ranges.rs meets the C15 statements.
   Statements only; every proof is [exact <lemma>].  The statements are about the definitions that
   gen/rs2v.py regenerates from /repo/src on every run (namespace SVG; M_f is the monadic view of
   the Rust function f: None = f panics).  Written by bin/mkgenprops from the lemma statements. *)
Require Import Base GenBase.
Require Import LoopRange LoopRangeProofs.
From SVG Require Import LoopRangeGen GenLinkLoopRange GenPropsLoopRange.
Open Scope N_scope.

(* ---- the translated functions are the model's functions (conv reads a generated value as a model range) ---- *)

Theorem C15g_link_finite :
  forall i j : N, option_map conv (M_LoopRange_finite i j) = Some (lr_finite i j).
Proof. exact link_finite. Qed.
Print Assumptions C15g_link_finite.

Theorem C15g_link_infinite :
  forall i : N, option_map conv (M_LoopRange_infinite i) = Some (lr_infinite i).
Proof. exact link_infinite. Qed.
Print Assumptions C15g_link_infinite.

Theorem C15g_link_opt :
  option_map conv M_LoopRange_opt = Some lr_opt.
Proof. exact link_opt. Qed.
Print Assumptions C15g_link_opt.

Theorem C15g_link_star :
  option_map conv M_LoopRange_star = Some lr_star.
Proof. exact link_star. Qed.
Print Assumptions C15g_link_star.

Theorem C15g_link_plus :
  option_map conv M_LoopRange_plus = Some lr_plus.
Proof. exact link_plus. Qed.
Print Assumptions C15g_link_plus.

Theorem C15g_link_point :
  forall k : N, option_map conv (M_LoopRange_point k) = Some (lr_point k).
Proof. exact link_point. Qed.
Print Assumptions C15g_link_point.

Theorem C15g_link_is_finite :
  forall r : LoopRange, M_LoopRange_is_finite r = Some (lr_is_finite (conv r)).
Proof. exact link_is_finite. Qed.
Print Assumptions C15g_link_is_finite.

Theorem C15g_link_is_infinite :
  forall r : LoopRange, M_LoopRange_is_infinite r = Some (lr_is_infinite (conv r)).
Proof. exact link_is_infinite. Qed.
Print Assumptions C15g_link_is_infinite.

Theorem C15g_link_is_point :
  forall r : LoopRange, M_LoopRange_is_point r = Some (lr_is_point (conv r)).
Proof. exact link_is_point. Qed.
Print Assumptions C15g_link_is_point.

Theorem C15g_link_is_zero :
  forall r : LoopRange, M_LoopRange_is_zero r = Some (lr_is_zero (conv r)).
Proof. exact link_is_zero. Qed.
Print Assumptions C15g_link_is_zero.

Theorem C15g_link_is_one :
  forall r : LoopRange, M_LoopRange_is_one r = Some (lr_is_one (conv r)).
Proof. exact link_is_one. Qed.
Print Assumptions C15g_link_is_one.

Theorem C15g_link_is_all :
  forall r : LoopRange, M_LoopRange_is_all r = Some (lr_is_all (conv r)).
Proof. exact link_is_all. Qed.
Print Assumptions C15g_link_is_all.

Theorem C15g_link_start :
  forall r : LoopRange, M_LoopRange_start r = Some (lr_start (conv r)).
Proof. exact link_start. Qed.
Print Assumptions C15g_link_start.

Theorem C15g_link_end :
  forall r : LoopRange, M_LoopRange_end r = match conv r with
                                                 | LR _ h => h
                                                 end.
Proof. exact link_end. Qed.
Print Assumptions C15g_link_end.

Theorem C15g_link_eqb :
  forall r s : LoopRange, LoopRange_eqb r s = lr_eqb (conv r) (conv s).
Proof. exact link_eqb. Qed.
Print Assumptions C15g_link_eqb.

Theorem C15g_link_contains :
  forall (r : LoopRange) (i : N), M_LoopRange_contains r i = Some (lr_contains (conv r) i).
Proof. exact link_contains. Qed.
Print Assumptions C15g_link_contains.

Theorem C15g_link_includes :
  forall r s : LoopRange, M_LoopRange_includes r s = Some (lr_includes (conv r) (conv s)).
Proof. exact link_includes. Qed.
Print Assumptions C15g_link_includes.

Theorem C15g_link_add :
  forall r s : LoopRange, option_map conv (M_LoopRange_add r s) = lr_add (conv r) (conv s).
Proof. exact link_add. Qed.
Print Assumptions C15g_link_add.

Theorem C15g_link_add_point :
  forall (r : LoopRange) (x : N),
       option_map conv (M_LoopRange_add_point r x) = lr_add_point (conv r) x.
Proof. exact link_add_point. Qed.
Print Assumptions C15g_link_add_point.

Theorem C15g_link_scale :
  forall (r : LoopRange) (k : N),
       option_map conv (M_LoopRange_scale r k) = lr_scale (conv r) k.
Proof. exact link_scale. Qed.
Print Assumptions C15g_link_scale.

Theorem C15g_link_mul :
  forall r s : LoopRange, option_map conv (M_LoopRange_mul r s) = lr_mul (conv r) (conv s).
Proof. exact link_mul. Qed.
Print Assumptions C15g_link_mul.

Theorem C15g_link_shift :
  forall r : LoopRange,
       lr_valid (conv r) -> option_map conv (M_LoopRange_shift r) = Some (lr_shift (conv r)).
Proof. exact link_shift. Qed.
Print Assumptions C15g_link_shift.

Theorem C15g_link_rmie :
  forall r s : LoopRange,
       lr_valid (conv r) -> M_LoopRange_right_mul_is_exact r s = lr_rmie (conv r) (conv s).
Proof. exact link_rmie. Qed.
Print Assumptions C15g_link_rmie.

Theorem C15g_link_checked_add :
  forall r s : LoopRange,
       option_map (option_map conv) (M_LoopRange_checked_add r s) = Some (lr_add (conv r) (conv s)).
Proof. exact link_checked_add. Qed.
Print Assumptions C15g_link_checked_add.

Theorem C15g_link_checked_mul :
  forall r s : LoopRange,
       option_map (option_map conv) (M_LoopRange_checked_mul r s) = Some (lr_mul (conv r) (conv s)).
Proof. exact link_checked_mul. Qed.
Print Assumptions C15g_link_checked_mul.

Theorem C15g_link_checked_rmie :
  forall r s : LoopRange,
       lr_valid (conv r) ->
       M_LoopRange_checked_right_mul_is_exact r s = Some (lr_rmie (conv r) (conv s)).
Proof. exact link_checked_rmie. Qed.
Print Assumptions C15g_link_checked_rmie.

(* ---- the C15 statements on the translated code ---- *)

Theorem C15g_contains :
  forall (r : LoopRange) (i : N), M_LoopRange_contains r i = Some true <-> ginr i r.
Proof. exact g_contains. Qed.
Print Assumptions C15g_contains.

Theorem C15g_contains_total :
  forall (r : LoopRange) (i : N), exists b : bool, M_LoopRange_contains r i = Some b.
Proof. exact g_contains_total. Qed.
Print Assumptions C15g_contains_total.

Theorem C15g_includes :
  forall r o : LoopRange,
       gvalid o -> M_LoopRange_includes r o = Some true <-> (forall n : N, ginr n o -> ginr n r).
Proof. exact g_includes. Qed.
Print Assumptions C15g_includes.

Theorem C15g_add_sumset :
  forall r s t : LoopRange,
       gvalid r ->
       gvalid s ->
       M_LoopRange_add r s = Some t ->
       forall n : N, ginr n t <-> (exists x y : N, ginr x r /\ ginr y s /\ n = x + y).
Proof. exact g_add_sumset. Qed.
Print Assumptions C15g_add_sumset.

Theorem C15g_add_valid :
  forall r s t : LoopRange, gvalid r -> gvalid s -> M_LoopRange_add r s = Some t -> gvalid t.
Proof. exact g_add_valid. Qed.
Print Assumptions C15g_add_valid.

Theorem C15g_add_panics_iff :
  forall r s : LoopRange,
       gvalid r ->
       gvalid s ->
       M_LoopRange_add r s = None <->
       ~
       (exists t : LoopRange,
          gvalid t /\
          (forall n : N, ginr n t <-> (exists x y : N, ginr x r /\ ginr y s /\ n = x + y))).
Proof. exact g_add_panics_iff. Qed.
Print Assumptions C15g_add_panics_iff.

Theorem C15g_scale_ksum :
  forall (r : LoopRange) (k : N) (t : LoopRange),
       gvalid r -> M_LoopRange_scale r k = Some t -> forall n : N, ginr n t <-> ksum (conv r) k n.
Proof. exact g_scale_ksum. Qed.
Print Assumptions C15g_scale_ksum.

Theorem C15g_scale_valid :
  forall (r : LoopRange) (k : N) (t : LoopRange),
       gvalid r -> M_LoopRange_scale r k = Some t -> gvalid t.
Proof. exact g_scale_valid. Qed.
Print Assumptions C15g_scale_valid.

Theorem C15g_scale_panics_iff :
  forall (r : LoopRange) (k : N),
       gvalid r ->
       M_LoopRange_scale r k = None <->
       ~ (exists t : LoopRange, gvalid t /\ (forall n : N, ginr n t <-> ksum (conv r) k n)).
Proof. exact g_scale_panics_iff. Qed.
Print Assumptions C15g_scale_panics_iff.

Theorem C15g_mul_contains_products :
  forall (r s t : LoopRange) (x y : N),
       M_LoopRange_mul r s = Some t -> ginr x r -> ginr y s -> ginr (x * y) t.
Proof. exact g_mul_contains_products. Qed.
Print Assumptions C15g_mul_contains_products.

Theorem C15g_mul_hull :
  forall r s t : LoopRange,
       gvalid r ->
       gvalid s ->
       M_LoopRange_mul r s = Some t ->
       gvalid t /\
       hull_of (fun n : N => exists x y : N, ginr x r /\ ginr y s /\ n = x * y) (conv t).
Proof. exact g_mul_hull. Qed.
Print Assumptions C15g_mul_hull.

Theorem C15g_mul_panics_iff :
  forall r s : LoopRange,
       gvalid r ->
       gvalid s ->
       M_LoopRange_mul r s = None <->
       ~
       (exists t : LoopRange,
          gvalid t /\
          hull_of (fun n : N => exists x y : N, ginr x r /\ ginr y s /\ n = x * y) (conv t)).
Proof. exact g_mul_panics_iff. Qed.
Print Assumptions C15g_mul_panics_iff.

Theorem C15g_shift :
  forall r : LoopRange,
       gvalid r ->
       exists t : LoopRange,
         M_LoopRange_shift r = Some t /\
         gvalid t /\ (forall n : N, ginr n t <-> (exists x : N, ginr x r /\ n = x - 1)).
Proof. exact g_shift. Qed.
Print Assumptions C15g_shift.

Theorem C15g_rmie_iff :
  forall (r s : LoopRange) (b : bool) (t : LoopRange),
       gvalid r ->
       gvalid s ->
       M_LoopRange_right_mul_is_exact r s = Some b ->
       M_LoopRange_mul r s = Some t ->
       b = true <-> (forall n : N, (exists y : N, ginr y s /\ ksum (conv r) y n) <-> ginr n t).
Proof. exact g_rmie_iff. Qed.
Print Assumptions C15g_rmie_iff.

Theorem C15g_rmie_iff_interval :
  forall (r s : LoopRange) (b : bool),
       gvalid r ->
       gvalid s ->
       M_LoopRange_right_mul_is_exact r s = Some b ->
       b = true <->
       (exists t : lr, forall n : N, (exists y : N, ginr y s /\ ksum (conv r) y n) <-> inr n t).
Proof. exact g_rmie_iff_interval. Qed.
Print Assumptions C15g_rmie_iff_interval.

Theorem C15g_checked_add :
  forall r s : LoopRange, M_LoopRange_checked_add r s = Some (M_LoopRange_add r s).
Proof. exact g_checked_add. Qed.
Print Assumptions C15g_checked_add.

Theorem C15g_checked_mul :
  forall r s : LoopRange, M_LoopRange_checked_mul r s = Some (M_LoopRange_mul r s).
Proof. exact g_checked_mul. Qed.
Print Assumptions C15g_checked_mul.

Theorem C15g_checked_rmie :
  forall r s : LoopRange,
       gvalid r ->
       M_LoopRange_checked_right_mul_is_exact r s = Some (M_LoopRange_right_mul_is_exact r s).
Proof. exact g_checked_rmie. Qed.
Print Assumptions C15g_checked_rmie.

Theorem C15g_example :
  gvalid {| LoopRange_f0 := 2; LoopRange_f1 := Some 3 |} /\
       gvalid {| LoopRange_f0 := 1; LoopRange_f1 := None |} /\
       M_LoopRange_add {| LoopRange_f0 := 2; LoopRange_f1 := Some 3 |}
         {| LoopRange_f0 := 4; LoopRange_f1 := Some 9 |} =
       Some {| LoopRange_f0 := 6; LoopRange_f1 := Some 12 |} /\
       M_LoopRange_scale {| LoopRange_f0 := 2; LoopRange_f1 := None |} 3 =
       Some {| LoopRange_f0 := 6; LoopRange_f1 := None |} /\
       M_LoopRange_mul {| LoopRange_f0 := 65536; LoopRange_f1 := Some 65536 |}
         {| LoopRange_f0 := 65536; LoopRange_f1 := Some 65536 |} = None /\
       M_LoopRange_checked_mul {| LoopRange_f0 := 65536; LoopRange_f1 := Some 65536 |}
         {| LoopRange_f0 := 65536; LoopRange_f1 := Some 65536 |} = Some None /\
       M_LoopRange_shift {| LoopRange_f0 := 0; LoopRange_f1 := Some 5 |} =
       Some {| LoopRange_f0 := 0; LoopRange_f1 := Some 4 |} /\
       M_LoopRange_right_mul_is_exact {| LoopRange_f0 := 3; LoopRange_f1 := Some 4 |}
         {| LoopRange_f0 := 1; LoopRange_f1 := Some 2 |} = Some false.
Proof. exact g_example. Qed.
Print Assumptions C15g_example.

Theorem C15g_fmt_total :
  forall (r : LoopRange) (f : list N),
       exists out : list N, M_LoopRange_fmt r f = Some (f ++ out, Ok tt).
Proof. exact g_fmt_total. Qed.
Print Assumptions C15g_fmt_total.

Theorem C15g_fmt_abbrev :
  forall f : list N,
       M_LoopRange_fmt {| LoopRange_f0 := 0; LoopRange_f1 := Some 1 |} f = Some (f ++ [63], Ok tt) /\
       M_LoopRange_fmt {| LoopRange_f0 := 0; LoopRange_f1 := None |} f = Some (f ++ [42], Ok tt) /\
       M_LoopRange_fmt {| LoopRange_f0 := 1; LoopRange_f1 := None |} f = Some (f ++ [43], Ok tt).
Proof. exact g_fmt_abbrev. Qed.
Print Assumptions C15g_fmt_abbrev.

Theorem C15g_fmt_example :
  M_LoopRange_fmt {| LoopRange_f0 := 2; LoopRange_f1 := Some 15 |} [] =
       Some ([91; 50; 46; 46; 49; 53; 93], Ok tt) /\
       M_LoopRange_fmt {| LoopRange_f0 := 7; LoopRange_f1 := Some 7 |} [] = Some ([55], Ok tt) /\
       M_LoopRange_fmt {| LoopRange_f0 := 3; LoopRange_f1 := None |} [] =
       Some ([91; 51; 46; 46; 105; 110; 102; 41], Ok tt).
Proof. exact g_fmt_example. Qed.
Print Assumptions C15g_fmt_example.
