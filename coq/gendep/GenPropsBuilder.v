(* GenPropsBuilder.v -- the per-state C13 statements on the code regenerated from /repo/src/automata.rs
   (SVG.BuilderGen): cleanup() keeps the successor of every character, make_partition() fails exactly
   on overlapping labels, and the state that build() constructs (cleanup, make_partition,
   make_successor) never panics and has exactly the specified successor function. *)
Require Import Base GenBase CharSet CharSetProofs Partition PartitionSpec PartitionProofs Automaton BuilderSpec BuilderProofs.
From SVG Require Import BuilderGen GenLinkBuilder.
Require Import ZifyBool ZifyN ZifyNat.
Open Scope N_scope.

(* the labels of a state in construction, read as model character sets *)
Definition glabels (s : StateInConstruction) : list cs := lbls (convs s).
Definition small (s : StateInConstruction) : Prop :=
  (Z.of_nat (length (StateInConstruction_transitions s)) < 2147483647)%Z.

Lemma glabels_valid s : Forall cs_valid (glabels s) -> labels_valid s.
Proof.
  unfold glabels, lbls, labels_valid, convs. cbn [s_trans]. rewrite <- map_fst_convt.
  intros H. rewrite Forall_map in H. rewrite Forall_forall in *. intros c Hc. specialize (H c Hc).
  destruct H as [_ H]. unfold valid_end. destruct c as [a b]. cbv [conv snd CharSet_end CharSet_start MAXC MAX_CHAR] in *. exact H.
Qed.

(* cleanup never panics on a state with fewer than 2^31 - 1 transitions *)
Lemma g_cleanup_total s : small s -> exists s', M_StateInConstruction_cleanup s = Some s' /\ convs s' = cleanup (convs s).
Proof.
  intros Hs. pose proof (link_cleanup s Hs) as H.
  destruct (M_StateInConstruction_cleanup s) as [s'|]; [|discriminate]. exists s'. split; auto.
  cbn [option_map] in H. congruence.
Qed.

(* KEY (C13 "keeps delta"): promoting the majority successor to default and dropping the transitions
   into the default changes the successor of no character *)
Lemma g_cleanup_preserves_delta s s' c : small s -> pairwise_disjoint (glabels s) ->
  (StateInConstruction_default_successor s = None -> covered (glabels s) c) ->
  M_StateInConstruction_cleanup s = Some s' -> sic_delta (convs s') c = sic_delta (convs s) c.
Proof.
  intros Hs Hpd Hcov H. destruct (g_cleanup_total s Hs) as (s2 & H2 & E). rewrite H in H2. injection H2 as <-.
  rewrite E. apply cleanup_preserves_delta; auto.
Qed.

Lemma g_cleanup_final s s' : small s -> M_StateInConstruction_cleanup s = Some s' ->
  StateInConstruction_is_final s' = StateInConstruction_is_final s.
Proof.
  intros Hs H. destruct (g_cleanup_total s Hs) as (s2 & H2 & E). rewrite H in H2. injection H2 as <-.
  pose proof (cleanup_final (convs s)) as F. rewrite <- E in F. exact F.
Qed.

(* make_partition: total on legal labels, and Err(NonDisjointCharSets) exactly on overlapping labels *)
Lemma g_make_partition_cases s : Forall cs_valid (glabels s) ->
  (exists p, M_StateInConstruction_make_partition s = Some (Ok p) /\ ptry_from_list (glabels s) = Some (convp p)
             /\ labels_disjoint (glabels s) = true) \/
  (M_StateInConstruction_make_partition s = Some (Err Error_NonDisjointCharSets) /\ labels_disjoint (glabels s) = false).
Proof.
  intros Hv. pose proof (link_make_partition s (glabels_valid s Hv)) as H.
  pose proof (ptry_none_labels (glabels s) Hv) as Hn. unfold glabels, lbls in *.
  destruct (M_StateInConstruction_make_partition s) as [[p|[]]|]; cbn [try_res] in H; try discriminate;
    injection H as H.
  - left. exists p. split; [reflexivity|]. split; [symmetry; exact H|].
    destruct (labels_disjoint _) eqn:Ed; auto. exfalso. destruct Hn as [_ Hn]. assert (Hx := Hn eq_refl).
    change (s_trans (convs s)) with (map convt (StateInConstruction_transitions s)) in Hx. congruence.
  - right. split; [reflexivity|]. apply Hn. symmetry. exact H.
Qed.

(* the state built from legal, conflict-free labels: make_partition and make_successor succeed and
   the automaton state has exactly the successors of the state in construction *)
Lemma g_state_next s i : Forall cs_valid (glabels s) -> pairwise_disjoint (glabels s) ->
  exists p suc, M_StateInConstruction_make_partition s = Some (Ok p) /\
    M_StateInConstruction_make_successor (S (length (CharPartition_list p))) s p = Some suc /\
    forall A c, good c -> a_next A (mk_astate i (convs s) (convp p) suc) c = sic_delta (convs s) c.
Proof.
  intros Hv Hpd. destruct (state_next (convs s) i Hv Hpd) as (p0 & suc & Hp0 & Hsuc & Hnext).
  destruct (g_make_partition_cases s Hv) as [(p & Hp & Hpm & _)|[_ Hd]].
  - exists p, suc. split; auto. unfold glabels in Hpm. rewrite Hp0 in Hpm. injection Hpm as ->.
    split; [rewrite link_make_successor; exact Hsuc|exact Hnext].
  - exfalso. apply labels_disjoint_iff in Hpd. unfold glabels in *. congruence.
Qed.

(* the whole per-state pipeline of build(): cleanup, then make_partition, then make_successor *)
Lemma g_build_state s i : small s -> Forall cs_valid (glabels s) -> pairwise_disjoint (glabels s) ->
  (StateInConstruction_default_successor s = None -> forall c, good c -> covered (glabels s) c) ->
  exists s1 p suc, M_StateInConstruction_cleanup s = Some s1 /\
    M_StateInConstruction_make_partition s1 = Some (Ok p) /\
    M_StateInConstruction_make_successor (S (length (CharPartition_list p))) s1 p = Some suc /\
    forall A c, good c -> a_next A (mk_astate i (convs s1) (convp p) suc) c = sic_delta (convs s) c.
Proof.
  intros Hs Hv Hpd Hcov. destruct (g_cleanup_total s Hs) as (s1 & H1 & E1).
  destruct (cleanup_sub (convs s)) as [Q HQ].
  assert (Hv1 : Forall cs_valid (glabels s1)).
  { unfold glabels, lbls. rewrite E1, HQ. apply valid_filter. exact Hv. }
  assert (Hpd1 : pairwise_disjoint (glabels s1)).
  { unfold glabels, lbls. rewrite E1, HQ. apply pd_filter. exact Hpd. }
  destruct (g_state_next s1 i Hv1 Hpd1) as (p & suc & Hp & Hsuc & Hnext).
  exists s1, p, suc. repeat split; auto. intros A c Hc. rewrite Hnext by exact Hc.
  apply (g_cleanup_preserves_delta s s1 c Hs Hpd); auto.
Qed.

(* non-vacuity: a state with three transitions, two of them into state 7 (promoted to default) *)
Example g_example :
  let s := StateInConstruction_mk true None [(CharSet_mk 0 9, 7%nat); (CharSet_mk 10 20, 3%nat); (CharSet_mk 21 196607, 7%nat)] in
  M_StateInConstruction_cleanup s = Some (StateInConstruction_mk true (Some 7%nat) [(CharSet_mk 10 20, 3%nat)])
  /\ option_map (fun r => match r with Ok p => Some (CharPartition_list p, CharPartition_comp_witness p) | Err _ => None end)
       (M_StateInConstruction_make_partition s) = Some (Some ([CharSet_mk 0 9; CharSet_mk 10 20; CharSet_mk 21 196607], 196608)).
Proof. vm_compute. split; reflexivity. Qed.

(* ---- the whole of build(), on any builder value whose size field counts its states ---- *)
Definition builder_ok (fuel : nat) (b : AutomatonBuilder) : Prop :=
  AutomatonBuilder_size b = length (AutomatonBuilder_states b) /\
  Forall (fun s => small s /\ Forall cs_valid (glabels s) /\ (length (StateInConstruction_transitions s) < fuel)%nat)
         (AutomatonBuilder_states b).

Lemma builder_ok_states fuel b : builder_ok fuel b -> Forall (state_ok fuel) (AutomatonBuilder_states b).
Proof.
  intros [_ H]. rewrite Forall_forall in *. intros s Hs. destruct (H s Hs) as (Hsm & Hv & Hf).
  split; [exact Hsm|]. split; [apply glabels_valid; exact Hv|exact Hf].
Qed.
Lemma builder_ok_valid fuel b : builder_ok fuel b -> Forall (fun s => Forall cs_valid (lbls s)) (convb_states b).
Proof.
  intros [_ H]. unfold convb_states. rewrite Forall_map. rewrite Forall_forall in *. intros s Hs.
  destruct (H s Hs) as (_ & Hv & _). exact Hv.
Qed.

(* build never panics; it fails with the irregularity of the first irregular state (labels that
   overlap, a default on a fully covered state, no default on a partially covered one) and otherwise
   returns an automaton whose k-th state has exactly the successors the k-th state in construction
   specifies (st_ok: finality kept, next = the covering transition, else the declared default) *)
Lemma g_build_spec fuel b : builder_ok fuel b ->
  match first_some sic_err (convb_states b) with
  | Some e => exists b' e', M_AutomatonBuilder_build fuel b = Some (b', Err e') /\ conve e' = Some e
  | None => exists b' A, M_AutomatonBuilder_build fuel b = Some (b', Ok A) /\
                         Forall2 st_ok (convb_states b) (astates (conva A)) /\
                         num_states (conva A) = length (AutomatonBuilder_states b) /\ initial (conva A) = 0%nat /\
                         num_final (conva A) = length (filter a_final (astates (conva A)))
  end.
Proof.
  intros Hb. pose proof (link_build fuel b (proj1 Hb) (builder_ok_states fuel b Hb)) as H.
  pose proof (bsc_spec (convb_states b) 0%nat (builder_ok_valid fuel b Hb)) as Hm.
  unfold build in H. cbn [bstates] in H.
  destruct (first_some sic_err (convb_states b)) as [e|].
  - rewrite Hm in H. cbn [bind] in H.
    destruct (M_AutomatonBuilder_build fuel b) as [[b' [A|e']]|]; cbn [build_res] in H; try discriminate.
    exists b', e'. split; [reflexivity|]. destruct (conve e'); cbn [option_map] in H; congruence.
  - destruct Hm as (sts & Hs & Hall). rewrite Hs in H. cbn [bind] in H.
    destruct (M_AutomatonBuilder_build fuel b) as [[b' [A|e']]|]; cbn [build_res] in H; try discriminate.
    + exists b', A. split; [reflexivity|]. assert (HA : conva A = {| num_states := length sts; num_final := length (filter a_final sts); initial := 0%nat; astates := sts |}) by congruence.
      rewrite HA. cbn [astates num_states initial num_final].
      split; [exact Hall|]. split; [|split; reflexivity].
      apply Forall2_len in Hall. unfold convb_states in Hall. rewrite map_length in Hall. congruence.
    + destruct (conve e'); discriminate.
Qed.

Lemma g_build_never_panics fuel b : builder_ok fuel b -> M_AutomatonBuilder_build fuel b <> None.
Proof.
  intros Hb. pose proof (g_build_spec fuel b Hb) as H.
  destruct (first_some sic_err (convb_states b)); [destruct H as (? & ? & -> & _)|destruct H as (? & ? & -> & _)]; discriminate.
Qed.

Example g_example_build :
  let s0 := StateInConstruction_mk false None [(CharSet_mk 0 96, 1%nat); (CharSet_mk 97 97, 0%nat); (CharSet_mk 98 196607, 1%nat)] in
  let s1 := StateInConstruction_mk true (Some 1%nat) [] in
  option_map (fun r => match snd r with
                       | Ok a => Some (Automaton_num_states a, Automaton_num_final_states a,
                                       map (fun st => (State_successor st, State_default_successor st)) (Automaton_states a))
                       | Err _ => None end)
             (M_AutomatonBuilder_build 5 (AutomatonBuilder_mk 2 tt [s0; s1]))
  = Some (Some (2%nat, 1%nat, [([0%nat], Some 1%nat); ([], Some 1%nat)])).
Proof. vm_compute. reflexivity. Qed.
