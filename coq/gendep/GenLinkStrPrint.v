(* GenLinkStrPrint.v -- the two character printers of smt_strings.rs regenerated on every run
   (SVG.StrPrintGen: smt_char_as_string, char_to_smt; format! with {:x} / {:02x} / {:04x} is the
   hexadecimal printer of GenBase, char::from_u32 rejects surrogates and values above 0x10FFFF)
   coincide with the hand-written printers of Literal.v, about which the C08 theorems are proved. *)
Require Import Base GenBase Literal.
From SVG Require Import StrPrintGen.
Require Import ZifyBool ZifyN.
Open Scope N_scope.

Ltac gcase :=
  match goal with
  | |- context [match ?x with _ => _ end] =>
      lazymatch x with
      | context [match _ with _ => _ end] => fail
      | _ => first [ is_var x; destruct x | destruct x eqn:? ]
      end
  end.
Ltac gnorm := cbv [bind option_map negb andb orb char_from_u32]; cbn [fst snd].
Ltac gfin := first [ reflexivity | congruence | (exfalso; lia) | solve [repeat (f_equal; try lia)] ].
Ltac gauto := gnorm; repeat (gcase; gnorm); gfin.

(* the format! model of GenBase is the hexadecimal printer of Literal.v *)
Lemma fmt_hex_0 x : fmt_hex 0 x = fmt_x x.
Proof. reflexivity. Qed.
Lemma fmt_hex_2 x : fmt_hex 2 x = fmt_02x x.
Proof. reflexivity. Qed.
Lemma fmt_hex_4 x : fmt_hex 4 x = fmt_04x x.
Proof. reflexivity. Qed.

Lemma link_smt_char_as_string x : M_fn_smt_char_as_string x = Some (smt_char_as_string x).
Proof.
  unfold M_fn_smt_char_as_string, fn_smt_char_as_string, smt_char_as_string.
  rewrite ?fmt_hex_0, ?fmt_hex_2, ?fmt_hex_4. gauto.
Qed.
Lemma link_char_to_smt x : M_fn_char_to_smt x = Some (char_to_smt x).
Proof.
  unfold M_fn_char_to_smt, fn_char_to_smt, char_to_smt.
  rewrite ?fmt_hex_0, ?fmt_hex_2, ?fmt_hex_4. gauto.
Qed.
