(* GenLinkStrPrint.v -- the two character printers of smt_strings.rs regenerated on every run
   (SVG.StrPrintGen: smt_char_as_string, char_to_smt; format! with {:x} / {:02x} / {:04x} is the
   hexadecimal printer of GenBase, char::from_u32 rejects surrogates and values above 0x10FFFF)
   coincide with the hand-written printers of Literal.v, about which the C08 theorems are proved. *)
Require Import Base GenBase Literal.
From SVG Require Import StrPrintGen.
Require Import ZifyBool ZifyN.
Open Scope N_scope.

Ltac gcase :=
  match goal with
  | |- context [match ?x with _ => _ end] =>
      lazymatch x with
      | context [match _ with _ => _ end] => fail
      | _ => first [ is_var x; destruct x | destruct x eqn:? ]
      end
  end.
Ltac gnorm := cbv [bind option_map negb andb orb char_from_u32]; cbn [fst snd].
Ltac gfin := first [ reflexivity | congruence | (exfalso; lia) | solve [repeat (f_equal; try lia)] ].
Ltac gauto := gnorm; repeat (gcase; gnorm); gfin.

(* the format! model of GenBase is the hexadecimal printer of Literal.v *)
Lemma fmt_hex_0 x : fmt_hex 0 x = fmt_x x.
Proof. reflexivity. Qed.
Lemma fmt_hex_2 x : fmt_hex 2 x = fmt_02x x.
Proof. reflexivity. Qed.
Lemma fmt_hex_4 x : fmt_hex 4 x = fmt_04x x.
Proof. reflexivity. Qed.

Lemma link_smt_char_as_string x : M_fn_smt_char_as_string x = Some (smt_char_as_string x).
Proof.
  unfold M_fn_smt_char_as_string, fn_smt_char_as_string, smt_char_as_string.
  rewrite ?fmt_hex_0, ?fmt_hex_2, ?fmt_hex_4. gauto.
Qed.
Lemma link_char_to_smt x : M_fn_char_to_smt x = Some (char_to_smt x).
Proof.
  unfold M_fn_char_to_smt, fn_char_to_smt, char_to_smt.
  rewrite ?fmt_hex_0, ?fmt_hex_2, ?fmt_hex_4. gauto.
Qed.

(* ---- impl Display for SmtString: the Formatter is the text written so far ---- *)
Definition disp_res (r : option (loopres (list N * result unit unit) (list N))) : option (list N) :=
  match r with Some (LoopDone f) => Some f | _ => None end.

Lemma char_from_u32_ascii x : (32 <=? x) && (x <? 127) = true -> char_from_u32 x = Some x.
Proof. intros H. unfold char_from_u32. replace ((x <? 55296) || ((57343 <? x) && (x <=? 1114111))) with true by lia. reflexivity. Qed.

Lemma link_fmt_loop : forall l f, disp_res (SmtString_fmt_loop1 l f) = Some (f ++ fmt_loop l).
Proof.
  induction l as [|x l IH]; intros f; [cbn; rewrite app_nil_r; reflexivity|].
  cbn [SmtString_fmt_loop1 fmt_loop]. unfold fmt_char.
  rewrite ?fmt_hex_0, ?fmt_hex_2, ?fmt_hex_4.
  destruct (x =? 34) eqn:E1; [rewrite IH, <- app_assoc; reflexivity|].
  destruct (x =? 92) eqn:E2; [rewrite IH, <- app_assoc; reflexivity|].
  destruct ((32 <=? x) && (x <? 127)) eqn:E3.
  { rewrite (char_from_u32_ascii x E3). cbn [bind]. rewrite IH, <- app_assoc. reflexivity. }
  destruct ((x <? 32) || (x =? 127)) eqn:E4; [rewrite IH, <- app_assoc; reflexivity|].
  destruct (x <? 65536) eqn:E5; rewrite IH, <- app_assoc; reflexivity.
Qed.

(* Display never fails or panics and appends the model's smt_display to the text written so far *)
Lemma link_display s f : M_SmtString_fmt s f = Some (f ++ smt_display (SmtString_s s), Ok tt).
Proof.
  unfold M_SmtString_fmt, SmtString_fmt, smt_display.
  pose proof (link_fmt_loop (SmtString_s s) (f ++ [34])) as H.
  destruct (SmtString_fmt_loop1 (SmtString_s s) (f ++ [34])) as [[r|f']|]; cbn [disp_res] in H; try discriminate.
  injection H as ->. cbn [bind]. rewrite <- !app_assoc. reflexivity.
Qed.
