(* GenPropsFastSet.v -- the sparse set of fast_sets.rs, regenerated on every run (SVG.FastSetGen), is a
   correct finite set: under the representation invariant no operation panics on an element below max,
   membership is exact, and insert / remove / reset are the model's list operations (Minimizer.v:
   insertion order, swap-remove), for every sequence of operations. *)
Require Import Base GenBase Automaton Minimizer.
From SVG Require Import FastSetGen GenLinkFastSet.
Require Import ZifyBool ZifyN ZifyNat.
Open Scope N_scope.

Lemma g_new m : m <= 4294967295 -> exists s, M_FastSet_new m = Some s /\ inv s /\ FastSet_max s = m /\ abs s = [].
Proof.
  intros Hm. rewrite canon_new. eexists. split; [reflexivity|]. destruct (new_spec m Hm) as [I E].
  split; [exact I|]. split; [reflexivity|]. unfold abs. rewrite E. reflexivity.
Qed.

Lemma g_contains s x : inv s -> x < FastSet_max s ->
  M_FastSet_contains s x = Some (existsb (Nat.eqb (N.to_nat x)) (abs s)).
Proof.
  intros I Hx. rewrite canon_contains. destruct (contains_spec s x I Hx) as (b & -> & Hb). f_equal.
  unfold abs. rewrite existsb_to_nat. destruct b.
  - symmetry. apply existsb_exists. exists x. split; [apply Hb; reflexivity|apply N.eqb_refl].
  - symmetry. apply Bool.not_true_is_false. intros H. apply existsb_exists in H. destruct H as (y & Hy & E).
    apply N.eqb_eq in E. subst y. apply Hb in Hy. discriminate.
Qed.

Lemma g_insert s x : inv s -> x < FastSet_max s ->
  exists s', M_FastSet_insert s x = Some s' /\ inv s' /\ FastSet_max s' = FastSet_max s /\
             abs s' = fs_insert (abs s) (N.to_nat x).
Proof. intros I Hx. rewrite canon_insert. apply insert_abs; assumption. Qed.

Lemma g_remove s x : inv s -> x < FastSet_max s ->
  exists s', M_FastSet_remove s x = Some s' /\ inv s' /\ FastSet_max s' = FastSet_max s /\
             abs s' = fs_remove (abs s) (N.to_nat x).
Proof. intros I Hx. rewrite canon_remove. apply remove_spec; assumption. Qed.

Lemma g_reset s : inv s -> exists s', M_FastSet_reset s = Some s' /\ inv s' /\ FastSet_max s' = FastSet_max s /\ abs s' = [].
Proof.
  intros I. rewrite canon_reset. eexists. split; [reflexivity|]. destruct (reset_spec s I) as [I' E].
  split; [exact I'|]. split; [reflexivity|]. unfold abs. rewrite E. reflexivity.
Qed.

Lemma g_card s : inv s -> exists n, M_FastSet_card s = Some n /\ N.to_nat n = length (abs s).
Proof.
  intros I. rewrite canon_card. eexists. split; [reflexivity|]. unfold abs. rewrite map_length, (elems_length s I). reflexivity.
Qed.

(* iter(): draining the iterator yields the elements in insertion order *)
Fixpoint drain (fuel : nat) (it : FastSetIterator) : option (list N) :=
  match fuel with
  | O => None
  | S f => match M_FastSetIterator_next it with
           | Some (it', Some y) => match drain f it' with Some r => Some (y :: r) | None => None end
           | Some (_, None) => Some []
           | None => None
           end
  end.
Lemma drain_from e n : (n <= length e)%nat -> forall d i fuel, (i + d = n)%nat -> (d < fuel)%nat ->
  drain fuel (FastSetIterator_mk e i n) = Some (firstn d (skipn i e)).
Proof.
  intros Hn. induction d as [|d IH]; intros i fuel Hi Hf; (destruct fuel as [|fuel]; [lia|]); cbn [drain]; rewrite canon_next.
  - replace (Nat.ltb i n) with false by lia. reflexivity.
  - replace (Nat.ltb i n) with true by lia.
    destruct (nth_error e i) as [y|] eqn:Ey; [|apply nth_error_None in Ey; lia].
    rewrite (IH (i + 1)%nat fuel ltac:(lia) ltac:(lia)).
    assert (Hs : skipn i e = y :: skipn (i + 1) e).
    { clear -Ey. revert i Ey. induction e as [|z e IHe]; intros [|i] Ey; try discriminate.
      - cbn in Ey. injection Ey as ->. reflexivity.
      - cbn [nth_error] in Ey. cbn [skipn Nat.add]. apply IHe. exact Ey. }
    rewrite Hs. reflexivity.
Qed.
Lemma g_iter s fuel : inv s -> (N.to_nat (FastSet_size s) < fuel)%nat ->
  option_map (map N.to_nat) (match M_FastSet_iter s with Some it => drain fuel it | None => None end) = Some (abs s).
Proof.
  intros I Hf. rewrite canon_iter.
  rewrite (drain_from (FastSet_elem s) (N.to_nat (FastSet_size s))
             ltac:(pose proof (inv_le s I); pose proof (inv_sz s I); lia) (N.to_nat (FastSet_size s)) 0%nat fuel eq_refl Hf).
  reflexivity.
Qed.

(* ---- every sequence of operations ---- *)
Inductive op := Ins (x : N) | Rem (x : N) | Reset.
Definition op_ok (m : N) (o : op) : Prop := match o with Ins x | Rem x => x < m | Reset => True end.
Definition step_gen (os : option FastSet) (o : op) : option FastSet :=
  match os with
  | None => None
  | Some s => match o with Ins x => M_FastSet_insert s x | Rem x => M_FastSet_remove s x | Reset => M_FastSet_reset s end
  end.
Definition step_model (l : list nat) (o : op) : list nat :=
  match o with Ins x => fs_insert l (N.to_nat x) | Rem x => fs_remove l (N.to_nat x) | Reset => [] end.

Lemma g_history m ops : m <= 4294967295 -> Forall (op_ok m) ops ->
  exists s, fold_left step_gen ops (M_FastSet_new m) = Some s /\ inv s /\ FastSet_max s = m /\
            abs s = fold_left step_model ops [].
Proof.
  intros Hm Hops. destruct (g_new m Hm) as (s0 & -> & I0 & M0 & A0). rewrite <- A0. clear A0.
  revert s0 I0 M0. induction Hops as [|o ops Ho Hops IH]; intros s I M.
  - exists s. split; [reflexivity|]. split; [exact I|]. split; [exact M|reflexivity].
  - cbn [fold_left step_gen]. destruct o as [x|x|]; cbn [op_ok] in Ho.
    + destruct (g_insert s x I ltac:(lia)) as (s' & -> & I' & M' & A'). cbn [step_model]. rewrite <- A'. apply IH; [exact I'|congruence].
    + destruct (g_remove s x I ltac:(lia)) as (s' & -> & I' & M' & A'). cbn [step_model]. rewrite <- A'. apply IH; [exact I'|congruence].
    + destruct (g_reset s I) as (s' & -> & I' & M' & A'). cbn [step_model]. rewrite <- A'. apply IH; [exact I'|congruence].
Qed.

(* the model's list is a set: membership after any history is membership in the abstract list *)
Example g_example :
  option_map abs (fold_left step_gen [Ins 10; Ins 20; Ins 10; Ins 40; Rem 30; Rem 10; Ins 7] (M_FastSet_new 100))
  = Some [40; 20; 7]%nat.
Proof. vm_compute. reflexivity. Qed.

(* impl Display for FastSet: when the first `size` cells of `elem` exist (the representation invariant), the printer
   never panics, never fails and only appends to the formatter's buffer *)
Lemma g_fs_fmt_loop s l f : (forall i, In i l -> (N.to_nat i < length (FastSet_elem s))%nat) ->
  exists out, FastSet_fmt_loop1 l s f = Some (LoopDone (f ++ out)).
Proof.
  revert f. induction l as [|i l IH]; intros f Hl; cbn [FastSet_fmt_loop1].
  - exists []. rewrite app_nil_r. reflexivity.
  - destruct (nth_error (FastSet_elem s) (N.to_nat i)) as [x|] eqn:E.
    + cbn [bind]. destruct (IH (f ++ [32%N] ++ i32_to_string (Z.of_N x))) as (out & Eo).
      { intros j Hj. apply Hl. right. exact Hj. }
      rewrite Eo. rewrite <- ?app_assoc. eexists. reflexivity.
    + apply nth_error_None in E. specialize (Hl i (or_introl eq_refl)). exfalso. apply (Nat.lt_irrefl (N.to_nat i)).
      eapply Nat.lt_le_trans; [exact Hl|exact E].
Qed.
Lemma g_fs_fmt_total s f : (N.to_nat (FastSet_size s) <= length (FastSet_elem s))%nat ->
  exists out, M_FastSet_fmt s f = Some (f ++ out, Ok tt).
Proof.
  intros H. unfold M_FastSet_fmt, FastSet_fmt.
  destruct (g_fs_fmt_loop s (map N.of_nat (seq (N.to_nat 0) (N.to_nat (FastSet_size s) - N.to_nat 0))) (f ++ [123%N])) as (out & E).
  { intros i Hi. apply in_map_iff in Hi as (k & Ek & Hk). apply in_seq in Hk. subst i. rewrite Nat2N.id.
    change (N.to_nat 0) with 0%nat in Hk. rewrite Nat.sub_0_r in Hk. eapply Nat.lt_le_trans; [apply Hk|exact H]. }
  rewrite E. cbn [bind]. rewrite <- ?app_assoc. eexists. reflexivity.
Qed.
