(* GenPropsStrPrint.v -- the printing half of C08 on the character printers regenerated from
   /repo/src/smt_strings.rs (SVG.StrPrintGen): they never panic (for any u32), print ASCII only, and
   their output reads back as the character. *)
Require Import Base GenBase Literal LiteralProofs.
From SVG Require Import StrPrintGen GenLinkStrPrint.
Open Scope N_scope.

Lemma g_char_printers_total x : M_fn_char_to_smt x <> None /\ M_fn_smt_char_as_string x <> None.
Proof. rewrite link_char_to_smt, link_smt_char_as_string. split; discriminate. Qed.

Lemma g_char_printers_ascii x : x <= MAXC ->
  exists l1 l2, M_fn_char_to_smt x = Some l1 /\ M_fn_smt_char_as_string x = Some l2 /\
                Forall (fun c => 32 <= c <= 126) l1 /\ Forall (fun c => 32 <= c <= 126) l2.
Proof.
  intros Hx. rewrite link_char_to_smt, link_smt_char_as_string. eexists. eexists.
  split; [reflexivity|]. split; [reflexivity|]. apply char_printers_ascii. exact Hx.
Qed.

Lemma g_char_roundtrip x : x <= MAXC ->
  exists l1 l2, M_fn_char_to_smt x = Some l1 /\ M_fn_smt_char_as_string x = Some l2 /\
                parse_smt_literal (lit_undouble l1) = Some [x] /\ parse_smt_literal (lit_undouble l2) = Some [x].
Proof.
  intros Hx. rewrite link_char_to_smt, link_smt_char_as_string. eexists. eexists.
  split; [reflexivity|]. split; [reflexivity|]. apply char_roundtrip. exact Hx.
Qed.

Example g_example_printers :
  M_fn_char_to_smt 34 = Some [34; 34] /\ M_fn_char_to_smt 10 = Some [92; 117; 123; 48; 97; 125] /\
  M_fn_char_to_smt 233 = Some [92; 117; 48; 48; 101; 57] /\ M_fn_smt_char_as_string 196607 = Some [92; 117; 123; 50; 102; 102; 102; 102; 125].
Proof. vm_compute. repeat split; reflexivity. Qed.
