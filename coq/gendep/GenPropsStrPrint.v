(* GenPropsStrPrint.v -- the printing half of C08 on the character printers regenerated from
   /repo/src/smt_strings.rs (SVG.StrPrintGen): they never panic (for any u32), print ASCII only, and
   their output reads back as the character. *)
Require Import Base GenBase Literal LiteralProofs.
From SVG Require Import StrPrintGen GenLinkStrPrint.
Open Scope N_scope.

Lemma g_char_printers_total x : M_fn_char_to_smt x <> None /\ M_fn_smt_char_as_string x <> None.
Proof. rewrite link_char_to_smt, link_smt_char_as_string. split; discriminate. Qed.

Lemma g_char_printers_ascii x : x <= MAXC ->
  exists l1 l2, M_fn_char_to_smt x = Some l1 /\ M_fn_smt_char_as_string x = Some l2 /\
                Forall (fun c => 32 <= c <= 126) l1 /\ Forall (fun c => 32 <= c <= 126) l2.
Proof.
  intros Hx. rewrite link_char_to_smt, link_smt_char_as_string. eexists. eexists.
  split; [reflexivity|]. split; [reflexivity|]. apply char_printers_ascii. exact Hx.
Qed.

Lemma g_char_roundtrip x : x <= MAXC ->
  exists l1 l2, M_fn_char_to_smt x = Some l1 /\ M_fn_smt_char_as_string x = Some l2 /\
                parse_smt_literal (lit_undouble l1) = Some [x] /\ parse_smt_literal (lit_undouble l2) = Some [x].
Proof.
  intros Hx. rewrite link_char_to_smt, link_smt_char_as_string. eexists. eexists.
  split; [reflexivity|]. split; [reflexivity|]. apply char_roundtrip. exact Hx.
Qed.

Example g_example_printers :
  M_fn_char_to_smt 34 = Some [34; 34] /\ M_fn_char_to_smt 10 = Some [92; 117; 123; 48; 97; 125] /\
  M_fn_char_to_smt 233 = Some [92; 117; 48; 48; 101; 57] /\ M_fn_smt_char_as_string 196607 = Some [92; 117; 123; 50; 102; 102; 102; 102; 125].
Proof. vm_compute. repeat split; reflexivity. Qed.

(* ---- Display for SmtString on the regenerated code ---- *)
Lemma g_display_total s f : exists t, M_SmtString_fmt s f = Some (f ++ t, Ok tt) /\ t = smt_display (SmtString_s s).
Proof. eexists. split; [apply link_display|reflexivity]. Qed.

(* to_string() = fmt into an empty Formatter: ASCII, and it reads back as the string (C08 round trip) *)
Lemma g_display_ascii s : goodw (SmtString_s s) ->
  exists t, M_SmtString_fmt s [] = Some (t, Ok tt) /\ Forall (fun c => 32 <= c <= 126) t.
Proof.
  intros Hs. rewrite link_display. cbn [app]. eexists. split; [reflexivity|]. apply display_ascii. exact Hs.
Qed.
Lemma g_display_injective s1 s2 t : goodw (SmtString_s s1) -> goodw (SmtString_s s2) ->
  M_SmtString_fmt s1 [] = Some (t, Ok tt) -> M_SmtString_fmt s2 [] = Some (t, Ok tt) -> SmtString_s s1 = SmtString_s s2.
Proof.
  intros H1 H2. rewrite !link_display. cbn [app]. intros E1 E2.
  apply (display_injective _ _ H1 H2). congruence.
Qed.
Lemma g_display_roundtrip s : goodw (SmtString_s s) ->
  exists t, M_SmtString_fmt s [] = Some (t, Ok tt) /\
            parse_smt_literal (lit_undouble (lit_body t)) = Some (SmtString_s s).
Proof.
  intros Hs. rewrite link_display. cbn [app]. eexists. split; [reflexivity|]. apply roundtrip. exact Hs.
Qed.
