(* GenLinkAutomaton.v -- the read side of automata.rs regenerated on every run (SVG.AutomatonGen):
   State / Automaton accessors, class_next, next, str_next, accepts, and StateMapping::from_array
   coincide with the hand-written model Automaton.v.  `&State` values are the state records; the
   model's a_str_next walks state indices, the code walks state references: the two agree on
   well-formed automata (aut_wf: every successor index is in range). *)
Require Import Base GenBase CharSet Partition PartitionSpec PartitionProofs MergeProofs Automaton AutomatonProofs.
From SVG Require Import AutomatonGen.
Require Import ZifyBool ZifyN ZifyNat.
Open Scope N_scope.

Definition conv (s : CharSet) : cs := (CharSet_start s, CharSet_end s).
Definition convp (p : CharPartition) : part :=
  {| ivs := map conv (CharPartition_list p); wit := CharPartition_comp_witness p |}.
Definition convc (c : ClassId) : classid :=
  match c with ClassId_Interval i => CInt i | ClassId_Complement => CComp end.
Definition convr (c : CoverResult) : cover :=
  match c with CoverResult_CoveredBy i => CoveredBy i | CoverResult_DisjointFromAll => DisjointFromAll
             | CoverResult_Overlaps => Overlaps end.

Lemma conv_inj s o : conv s = conv o -> s = o.
Proof. destruct s as [a b], o as [c d]. cbv [conv CharSet_start CharSet_end]. congruence. Qed.

Ltac gunfold :=
  autounfold with rs2v in *;
  cbv [conv convp convc convr option_map bind fst snd CharSet_start CharSet_end
       CharPartition_list CharPartition_comp_witness ivs wit
       u32_add u32_mul u32_sub U32MAX usize_add usize_sub usize_div
       cs_contains cs_is_before pnew plen pfrom_set ppush pget pstart pend pinterval ppick_iv
       pempty_complement ppick_complement pvalid pnum_classes ppick SENT MAXC
       orb andb negb] in *.

Ltac gcases :=
  repeat match goal with
         | |- context [match ?x with _ => _ end] =>
             lazymatch x with
             | context [match _ with _ => _ end] => fail
             | _ => first [ is_var x; destruct x | destruct x eqn:? ]
             end
         end.

Ltac gbools :=
  repeat match goal with
         | |- context [N.leb ?a ?b] => destruct (N.leb a b) eqn:?
         | |- context [N.ltb ?a ?b] => destruct (N.ltb a b) eqn:?
         | |- context [N.eqb ?a ?b] => destruct (N.eqb a b) eqn:?
         | |- context [Nat.leb ?a ?b] => destruct (Nat.leb a b) eqn:?
         | |- context [Nat.ltb ?a ?b] => destruct (Nat.ltb a b) eqn:?
         | |- context [Nat.eqb ?a ?b] => destruct (Nat.eqb a b) eqn:?
         end.

Ltac ctor_eq :=
  repeat match goal with
         | |- ?x = ?x => reflexivity
         | |- @eq N _ _ => lia
         | |- @eq nat _ _ => lia
         | |- ?f ?a = ?f ?b => apply (f_equal f)
         | |- ?f ?a ?c = ?f ?b ?d => apply (f_equal2 f)
         end.

Ltac gfinish :=
  first [ reflexivity | congruence | (exfalso; lia) | solve [ctor_eq] ].

Ltac glink := intros; gunfold; gcases; gbools; gfinish.

(* ---- the element functions used by the searches ---- *)
Lemma link_cs_contains s x : M_CharSet_contains s x = Some (cs_contains (conv s) x).
Proof. destruct s. glink. Qed.
Lemma link_cs_is_before s x : M_CharSet_is_before s x = Some (cs_is_before (conv s) x).
Proof. destruct s. glink. Qed.

(* ---- constructors ---- *)
Lemma link_new : option_map convp M_CharPartition_new = Some pnew.
Proof. reflexivity. Qed.


Lemma link_push p a b : b <= MAX_CHAR ->
  option_map convp (M_CharPartition_push p a b) = Some (ppush (convp p) a b).
Proof.
  destruct p as [l w]. intros Hb. gunfold.
  destruct (a <=? w) eqn:E.
  - destruct (b + 1 <=? 4294967295) eqn:E2; [|exfalso; lia].
    gunfold. rewrite map_app. reflexivity.
  - gunfold. rewrite map_app. reflexivity.
Qed.

(* ---- accessors ---- *)

Lemma nth_error_map_conv l i : nth_error (map conv l) i = option_map conv (nth_error l i).
Proof. revert i; induction l as [|x l IH]; intros [|i]; cbn; auto. Qed.

Lemma nth_conv l i : nth i (map conv l) (SENT, SENT) =
  match nth_error l i with Some s => conv s | None => (SENT, SENT) end.
Proof. revert i; induction l as [|x l IH]; intros [|i]; cbn; auto. Qed.

Lemma nth_error_lt {A} (l : list A) i : Nat.ltb i (length l) = true -> exists x, nth_error l i = Some x.
Proof.
  intros H. apply Nat.ltb_lt in H. destruct (nth_error l i) eqn:E; [eauto|].
  apply nth_error_None in E. lia.
Qed.
Lemma nth_error_ge {A} (l : list A) i : Nat.ltb i (length l) = false -> nth_error l i = None.
Proof. intros H. apply Nat.ltb_ge in H. apply nth_error_None. exact H. Qed.

(* generic proof of the accessor links: unfold, express the model's nth / nth_error on the mapped list
   by nth_error on the list, case analysis innermost first, then arithmetic with the length facts *)
Ltac nth_facts :=
  repeat match goal with
         | H : nth_error ?l ?i = Some _ |- _ =>
             lazymatch goal with
             | _ : (i < length l)%nat |- _ => fail
             | _ => assert (i < length l)%nat by (apply nth_error_Some; rewrite H; discriminate)
             end
         | H : nth_error ?l ?i = None |- _ =>
             lazymatch goal with
             | _ : (length l <= i)%nat |- _ => fail
             | _ => assert (length l <= i)%nat by (apply nth_error_None; exact H)
             end
         end.
Ltac glist :=
  intros;
  repeat match goal with p : CharPartition |- _ => destruct p as [? ?] end;
  repeat match goal with c : ClassId |- _ => destruct c end;
  gunfold; rewrite ?nth_conv, ?nth_error_map_conv, ?map_length; gunfold;
  repeat (match goal with
          | |- context [match ?x with _ => _ end] =>
              lazymatch x with
              | context [match _ with _ => _ end] => fail
              | _ => first [ is_var x; destruct x | destruct x eqn:? ]
              end
          end; gunfold);
  gbools; nth_facts; cbn [length] in *;
  first [ reflexivity | congruence | (exfalso; lia) | solve [ctor_eq] ].

Lemma link_len p : M_CharPartition_len p = Some (plen (convp p)).
Proof. glist. Qed.


Lemma link_get p i : M_CharPartition_get p i = Some (pget (convp p) i).
Proof. glist. Qed.


Lemma link_start p i : M_CharPartition_start p i = Some (pstart (convp p) i).
Proof. glist. Qed.

Lemma link_end p i : M_CharPartition_end p i = Some (pend (convp p) i).
Proof. glist. Qed.


Lemma link_empty_complement p : M_CharPartition_empty_complement p = Some (pempty_complement (convp p)).
Proof. glist. Qed.


Lemma link_valid_class_id p c : M_CharPartition_valid_class_id p c = Some (pvalid (convp p) (convc c)).
Proof. glist. Qed.



(* ---- loops: one step = rewrite a call of a translated function by its link lemma, or case
   analysis on the innermost scrutinee; leaves are closed by reflexivity, arithmetic contradiction or
   the induction hypothesis ---- *)
Ltac lnorm := cbv [bind option_map cs_contains cs_is_before]; cbn [fst snd conv CharSet_start CharSet_end].
Ltac Zify.zify_post_hook ::= Z.div_mod_to_equations.
Ltac lstep :=
  match goal with
  | |- context [nth_error ?l ?a] =>
      match goal with
      | |- context [nth_error l ?b] =>
          tryif constr_eq a b then fail else (replace a with b by lia)
      end
  | |- context [M_CharSet_contains ?s ?x] => rewrite (link_cs_contains s x)
  | |- context [M_CharSet_is_before ?s ?x] => rewrite (link_cs_is_before s x)
  | |- context [nth_error (map conv ?l) ?i] => rewrite (nth_error_map_conv l i)
  | |- context [match ?x with _ => _ end] =>
      lazymatch x with
      | context [match _ with _ => _ end] => fail
      | _ => destruct x eqn:?
      end
  end; lnorm.
Ltac lleaf IH :=
  first [ reflexivity | discriminate | (exfalso; lia) | congruence
        | (rewrite IH; first [ reflexivity | (f_equal; lia) ]) | (f_equal; lia) ].

(* ---- class_of_char: the binary search, same fuel on both sides ---- *)
Definition char_res (r : option (loopres ClassId (nat * nat))) : option classid :=
  match r with
  | Some (LoopReturn c) => Some (convc c)
  | Some (LoopDone _) => Some CComp
  | None => None
  end.

Lemma link_bs_char fuel l x i j :
  char_res (CharPartition_class_of_char_binary_search_loop1 fuel l x i j) = bs_char fuel (map conv l) x i j.
Proof.
  revert i j; induction fuel as [|fuel IH]; intros i j; [reflexivity|].
  cbn [CharPartition_class_of_char_binary_search_loop1 bs_char].
  cbv [usize_sub usize_div usize_add cs_contains cs_is_before]. lnorm.
  repeat lstep; lleaf IH.
Qed.

Lemma link_class_of_char p x :
  option_map convc (M_CharPartition_class_of_char (S (length (CharPartition_list p))) p x)
  = pclass_of_char (convp p) x.
Proof.
  destruct p as [l w]. autounfold with rs2v. unfold pclass_of_char, convp, plen, ivs, CharPartition_list.
  rewrite map_length, <- link_bs_char. unfold bind.
  destruct (CharPartition_class_of_char_binary_search_loop1 _ l x 0 (length l)) as [[c|[a b]]|]; reflexivity.
Qed.

(* ---- interval_cover ---- *)
Definition cover_res (r : option (loopres nat (nat * nat))) : option nat :=
  match r with
  | Some (LoopReturn i) => Some i
  | Some (LoopDone (i, _)) => Some i
  | None => None
  end.

Lemma link_bs_cover fuel l x i j :
  cover_res (CharPartition_interval_cover_binary_search_loop1 fuel l x i j) = bs_cover fuel (map conv l) x i j.
Proof.
  revert i j; induction fuel as [|fuel IH]; intros i j; [reflexivity|].
  cbn [CharPartition_interval_cover_binary_search_loop1 bs_cover].
  replace (i + 1)%nat with (S i) by lia.
  cbv [usize_sub usize_div usize_add]. lnorm.
  repeat lstep; lleaf IH.
Qed.

Lemma link_interval_cover p s :
  option_map convr (M_CharPartition_interval_cover (S (length (CharPartition_list p))) p s)
  = pinterval_cover (convp p) (conv s).
Proof.
  pose proof (link_get p) as G. pose proof (link_start p) as S1.
  unfold M_CharPartition_interval_cover, CharPartition_interval_cover, M_CharPartition_interval_cover_binary_search,
    CharPartition_interval_cover_binary_search, pinterval_cover.
  pose proof (link_bs_cover (S (length (CharPartition_list p))) (CharPartition_list p) (CharSet_start s) 0
                            (length (CharPartition_list p))) as H.
  replace (plen (convp p)) with (length (CharPartition_list p)) by (destruct p; cbn; rewrite map_length; reflexivity).
  change (ivs (convp p)) with (map conv (CharPartition_list p)).
  change (fst (conv s)) with (CharSet_start s). change (snd (conv s)) with (CharSet_end s).
  rewrite <- H. unfold bind at 1 3.
  destruct (CharPartition_interval_cover_binary_search_loop1 _ _ _ _ _) as [[i|[i j]]|]; cbn [cover_res]; try reflexivity.
  all: cbn [bind]; rewrite G; unfold bind;
    destruct (pget (convp p) i) as [ai bi]; cbn [fst snd];
    rewrite S1;
    replace (i + 1)%nat with (S i) by lia;
    destruct (CharSet_start s <? ai), (CharSet_end s <? ai), (CharSet_start s <=? bi), (CharSet_end s <=? bi),
             (CharSet_end s <? pstart (convp p) (S i)); reflexivity.
Qed.

Definition convres (r : result ClassId Error) : option classid :=
  match r with Ok c => Some (convc c) | Err _ => None end.

Lemma link_class_of_set p s :
  option_map convres (M_CharPartition_class_of_set (S (length (CharPartition_list p))) p s)
  = pclass_of_set (convp p) (conv s).
Proof.
  unfold M_CharPartition_class_of_set, CharPartition_class_of_set, pclass_of_set.
  rewrite <- link_interval_cover. unfold bind.
  destruct (M_CharPartition_interval_cover _ p s) as [[i| |]|]; reflexivity.
Qed.

(* an Err result is always AmbiguousCharSet *)
Lemma link_class_of_set_err fuel p s e :
  M_CharPartition_class_of_set fuel p s = Some (Err e) -> e = Error_AmbiguousCharSet.
Proof.
  unfold M_CharPartition_class_of_set, CharPartition_class_of_set, bind.
  destruct (M_CharPartition_interval_cover fuel p s) as [[i| |]|]; congruence.
Qed.


(* ---- merge_partitions: the two-pointer sweep, same fuel on both sides ---- *)
Definition bounded (p : CharPartition) : Prop :=
  Forall (fun s => CharSet_start s <= MAX_CHAR /\ CharSet_end s <= MAX_CHAR) (CharPartition_list p).

Lemma pget_bounded p i : bounded p -> fst (pget (convp p) i) <= SENT /\ snd (pget (convp p) i) <= SENT.
Proof.
  intros Hb. unfold pget, convp, ivs. rewrite nth_conv.
  destruct (nth_error (CharPartition_list p) i) as [s|] eqn:E.
  - apply nth_error_In in E. unfold bounded in Hb. rewrite Forall_forall in Hb.
    destruct (Hb s E) as [H1 H2]. unfold conv, SENT, MAXC, MAX_CHAR in *. cbn [fst snd]. lia.
  - cbn [fst snd]. lia.
Qed.

Lemma link_next_interval p i :
  M_fn_merge_partitions_next_interval p i = Some (S i, fst (pget (convp p) i), snd (pget (convp p) i)).
Proof.
  unfold M_fn_merge_partitions_next_interval, fn_merge_partitions_next_interval. pose proof (link_get p i) as G.
  rewrite G. unfold bind. destruct (pget (convp p) i) as [x y]. cbn [fst snd].
  replace (i + 1)%nat with (S i) by lia. reflexivity.
Qed.

Lemma push_some res a b : b <= MAX_CHAR ->
  exists res', M_CharPartition_push res a b = Some res' /\ convp res' = ppush (convp res) a b.
Proof.
  intros Hb. pose proof (link_push res a b Hb) as H.
  destruct (M_CharPartition_push res a b) as [r|]; [|discriminate H].
  exists r. split; [reflexivity|]. cbn [option_map] in H. congruence.
Qed.

Definition merge_res (r : option (loopres CharPartition ((nat * N * N) * (nat * N * N) * CharPartition))) : option part :=
  match r with
  | Some (LoopReturn q) => Some (convp q)
  | Some (LoopDone (_, _, q)) => Some (convp q)
  | None => None
  end.

Lemma link_merge_loop fuel p1 p2 : bounded p1 -> bounded p2 ->
  forall res i a b j c d, a <= SENT -> b <= SENT -> c <= SENT -> d <= SENT ->
  merge_res (fn_merge_partitions_loop1 fuel p1 p2 (i, a, b) (j, c, d) res)
  = merge_loop fuel (convp p1) (convp p2) i a b j c d (convp res).
Proof.
  intros B1 B2. induction fuel as [|fuel IH]; intros res i a b j c d Ha Hb Hc Hd; [reflexivity|].
  cbn [fn_merge_partitions_loop1 merge_loop snd].
  change MAX_CHAR with MAXC.
  (* the loop guard, in whatever form the source writes it *)
  match goal with
  | |- merge_res (if ?g then _ else _) = _ =>
      replace g with ((b <=? MAXC) || (d <=? MAXC)) by (unfold MAXC; gbools; cbn [negb andb orb]; first [reflexivity | (exfalso; lia)])
  end.
  destruct ((b <=? MAXC) || (d <=? MAXC)) eqn:Econd; cbn [negb]; [|reflexivity].
  pose proof (pget_bounded p1 i B1) as [G1a G1b]. pose proof (pget_bounded p2 j B2) as [G2a G2b].
  unfold SENT, MAXC in *.
  destruct (b <? c) eqn:E1.
  { destruct (push_some res a b) as [r [Hr Er]]; [unfold MAX_CHAR; lia|].
    rewrite Hr. unfold bind at 1. rewrite link_next_interval. unfold bind at 1.
    destruct (pget (convp p1) i) as [x y] eqn:Eg. cbn [fst snd] in *.
    rewrite IH by lia. rewrite Er. reflexivity. }
  destruct (d <? a) eqn:E2.
  { destruct (push_some res c d) as [r [Hr Er]]; [unfold MAX_CHAR; lia|].
    rewrite Hr. unfold bind at 1. rewrite link_next_interval. unfold bind at 1.
    destruct (pget (convp p2) j) as [x y] eqn:Eg. cbn [fst snd] in *.
    rewrite IH by lia. rewrite Er. reflexivity. }
  destruct (c <? a) eqn:E3.
  { unfold u32_sub. destruct (1 <=? a) eqn:E1a; [|exfalso; lia]. unfold bind at 1.
    destruct (push_some res c (a - 1)) as [r [Hr Er]]; [unfold MAX_CHAR; lia|].
    rewrite Hr. unfold bind at 1. cbn [fst snd].
    rewrite IH by lia. rewrite Er. reflexivity. }
  destruct (a <? c) eqn:E4.
  { unfold u32_sub. destruct (1 <=? c) eqn:E1c; [|exfalso; lia]. unfold bind at 1.
    destruct (push_some res a (c - 1)) as [r [Hr Er]]; [unfold MAX_CHAR; lia|].
    rewrite Hr. unfold bind at 1. cbn [fst snd].
    rewrite IH by lia. rewrite Er. reflexivity. }
  destruct (b <? d) eqn:E5.
  { destruct (push_some res a b) as [r [Hr Er]]; [unfold MAX_CHAR; lia|].
    rewrite Hr. unfold bind at 1. rewrite link_next_interval. unfold bind at 1.
    unfold u32_add, U32MAX. destruct (b + 1 <=? 4294967295) eqn:E6; [|exfalso; lia]. unfold bind at 1.
    destruct (pget (convp p1) i) as [x y] eqn:Eg. cbn [fst snd] in *.
    rewrite IH by lia. rewrite Er. reflexivity. }
  destruct (d <? b) eqn:E6.
  { destruct (push_some res c d) as [r [Hr Er]]; [unfold MAX_CHAR; lia|].
    rewrite Hr. unfold bind at 1.
    unfold u32_add, U32MAX. destruct (d + 1 <=? 4294967295) eqn:E7; [|exfalso; lia]. unfold bind at 1.
    rewrite link_next_interval. unfold bind at 1.
    destruct (pget (convp p2) j) as [x y] eqn:Eg. cbn [fst snd] in *.
    rewrite IH by lia. rewrite Er. reflexivity. }
  destruct (push_some res a b) as [r [Hr Er]]; [unfold MAX_CHAR; lia|].
  rewrite Hr. unfold bind at 1. rewrite link_next_interval. unfold bind at 1.
  rewrite link_next_interval. unfold bind at 1.
  destruct (pget (convp p1) i) as [x y] eqn:Eg. destruct (pget (convp p2) j) as [x' y'] eqn:Eg'. cbn [fst snd] in *.
  rewrite IH by lia. rewrite Er. reflexivity.
Qed.

Lemma link_merge_partitions p1 p2 : bounded p1 -> bounded p2 ->
  option_map convp (M_fn_merge_partitions (merge_fuel (convp p1) (convp p2)) p1 p2)
  = pmerge_opt (convp p1) (convp p2).
Proof.
  intros B1 B2. unfold M_fn_merge_partitions, fn_merge_partitions, pmerge_opt.
  rewrite !link_next_interval. unfold bind at 1 2.
  change M_CharPartition_new with (Some CharPartition_new). unfold bind at 1.
  pose proof (pget_bounded p1 0 B1) as [G1a G1b]. pose proof (pget_bounded p2 0 B2) as [G2a G2b].
  destruct (pget (convp p1) 0) as [a b] eqn:E1. destruct (pget (convp p2) 0) as [c d] eqn:E2. cbn [fst snd] in *.
  rewrite <- (link_merge_loop _ p1 p2 B1 B2 CharPartition_new 1%nat a b 1%nat c d) by assumption.
  unfold bind.
  destruct (fn_merge_partitions_loop1 _ p1 p2 (1%nat, a, b) (1%nat, c, d) CharPartition_new) as [[q|[[t1 t2] q]]|]; reflexivity.
Qed.


Definition convst (s : State) : astate :=
  {| a_id := State_id s; a_final := State_is_final s; a_classes := convp (State_classes s);
     a_succ := State_successor s; a_default := State_default_successor s |}.
Definition conva (a : Automaton) : automaton :=
  {| num_states := Automaton_num_states a; num_final := Automaton_num_final_states a;
     initial := Automaton_initial_state a; astates := map convst (Automaton_states a) |}.

(* the binary search needs at most j - i + 1 rounds: any larger fuel gives the same answer *)
Lemma bs_char_fuel : forall f1 f2 l x i j, (j - i < f1)%nat -> (j - i < f2)%nat ->
  bs_char f1 l x i j = bs_char f2 l x i j.
Proof.
  induction f1 as [|f1 IH]; intros f2 l x i j H1 H2; [lia|].
  destruct f2 as [|f2]; [lia|]. cbn [bs_char].
  destruct (Nat.ltb i j) eqn:Eij; [|reflexivity]. apply Nat.ltb_lt in Eij.
  cbv [bind]. destruct (nth_error l (i + (j - i) / 2)) as [s|]; [|reflexivity].
  destruct (cs_contains s x); [reflexivity|].
  destruct (cs_is_before s x); apply IH; lia.
Qed.

Lemma link_class_of_char_fuel fuel p x : (length (CharPartition_list p) < fuel)%nat ->
  option_map convc (M_CharPartition_class_of_char fuel p x) = pclass_of_char (convp p) x.
Proof.
  intros Hf. destruct p as [l w]. autounfold with rs2v. unfold pclass_of_char, convp, plen, ivs, CharPartition_list in *.
  rewrite map_length. rewrite (bs_char_fuel (S (length l)) fuel) by (rewrite ?map_length; lia).
  rewrite <- link_bs_char. unfold bind.
  destruct (CharPartition_class_of_char_binary_search_loop1 _ l x 0 (length l)) as [[c|[a b]]|]; reflexivity.
Qed.

(* ---- canonical forms.  For every translated function without a loop: M_f args = <a fixed expression
   over the generated data>, proved by a generic tactic (unfold f, rewrite the canonical forms of its
   callees, case analysis innermost first, arithmetic at the leaves).  A behaviour-preserving rewrite of
   the Rust function changes the shape of f but not its canonical form; the links to the model below are
   derived from the canonical forms only. ---- *)
Ltac gcase :=
  match goal with
  | |- context [match ?x with _ => _ end] =>
      lazymatch x with
      | context [match _ with _ => _ end] => fail
      | _ => first [ is_var x; destruct x | destruct x eqn:? ]
      end
  end.
Ltac gnorm := cbv [bind option_map negb andb orb]; cbn [fst snd].
Ltac gfin := first [ reflexivity | congruence | (exfalso; lia) | solve [repeat (f_equal; try lia)] ].
Ltac gauto := gnorm; repeat (gcase; gnorm); gfin.

Definition unconvc (c : classid) : ClassId :=
  match c with CInt i => ClassId_Interval i | CComp => ClassId_Complement end.
Lemma unconvc_convc c : unconvc (convc c) = c.
Proof. destruct c; reflexivity. Qed.
Lemma convc_unconvc c : convc (unconvc c) = c.
Proof. destruct c; reflexivity. Qed.

Lemma canon_class_of_char fuel p x : (length (CharPartition_list p) < fuel)%nat ->
  M_CharPartition_class_of_char fuel p x = option_map unconvc (pclass_of_char (convp p) x).
Proof.
  intros Hf. rewrite <- (link_class_of_char_fuel fuel p x Hf).
  destruct (M_CharPartition_class_of_char fuel p x) as [c|]; cbn [option_map]; [rewrite unconvc_convc|]; reflexivity.
Qed.
Lemma canon_len p : M_CharPartition_len p = Some (length (CharPartition_list p)).
Proof. unfold M_CharPartition_len, CharPartition_len. gauto. Qed.
Lemma canon_empty_complement p :
  M_CharPartition_empty_complement p = Some (MAX_CHAR <? CharPartition_comp_witness p).
Proof. unfold M_CharPartition_empty_complement, CharPartition_empty_complement. gauto. Qed.
Lemma canon_valid_class_id p c :
  M_CharPartition_valid_class_id p c =
  Some (match c with
        | ClassId_Interval i => Nat.ltb i (length (CharPartition_list p))
        | ClassId_Complement => negb (MAX_CHAR <? CharPartition_comp_witness p)
        end).
Proof.
  unfold M_CharPartition_valid_class_id, CharPartition_valid_class_id.
  rewrite ?canon_len, ?canon_empty_complement. gauto.
Qed.

Lemma canon_state_id s : M_State_id_fn s = Some (State_id s).
Proof. unfold M_State_id_fn, State_id_fn. gauto. Qed.
Lemma canon_state_is_final s : M_State_is_final_fn s = Some (State_is_final s).
Proof. unfold M_State_is_final_fn, State_is_final_fn. gauto. Qed.
Lemma canon_num_successors s : M_State_num_successors s = Some (length (CharPartition_list (State_classes s))).
Proof. unfold M_State_num_successors, State_num_successors. rewrite ?canon_len. gauto. Qed.
Lemma canon_has_default_successor s :
  M_State_has_default_successor s = Some (match State_default_successor s with Some _ => true | None => false end).
Proof. unfold M_State_has_default_successor, State_has_default_successor. gauto. Qed.
Lemma canon_state_default_successor s : M_State_default_successor_fn s = Some (State_default_successor s).
Proof. unfold M_State_default_successor_fn, State_default_successor_fn. gauto. Qed.
Lemma canon_state_valid_class_id s c :
  M_State_valid_class_id s c =
  Some (match c with
        | ClassId_Interval i => Nat.ltb i (length (CharPartition_list (State_classes s)))
        | ClassId_Complement => negb (MAX_CHAR <? CharPartition_comp_witness (State_classes s))
        end).
Proof. unfold M_State_valid_class_id, State_valid_class_id. rewrite ?canon_valid_class_id. gauto. Qed.
Lemma canon_state_class_of_char fuel s x : (length (CharPartition_list (State_classes s)) < fuel)%nat ->
  M_State_class_of_char fuel s x = option_map unconvc (pclass_of_char (convp (State_classes s)) x).
Proof.
  intros Hf. unfold M_State_class_of_char, State_class_of_char. rewrite ?(canon_class_of_char fuel _ x Hf). gauto.
Qed.
Lemma canon_char_maps_to_default fuel s x : (length (CharPartition_list (State_classes s)) < fuel)%nat ->
  M_State_char_maps_to_default fuel s x =
  match State_default_successor s with
  | Some _ => option_map (fun c => classid_eqb c CComp) (pclass_of_char (convp (State_classes s)) x)
  | None => Some false
  end.
Proof.
  intros Hf. unfold M_State_char_maps_to_default, State_char_maps_to_default.
  rewrite ?canon_has_default_successor, ?(canon_class_of_char fuel _ x Hf).
  gnorm. repeat (gcase; gnorm); try gfin; try (match goal with c : classid |- _ => destruct c end; gfin).
Qed.

Lemma canon_state a i : M_Automaton_state a i = nth_error (Automaton_states a) i.
Proof. unfold M_Automaton_state, Automaton_state. gauto. Qed.
Lemma canon_initial_state a : M_Automaton_initial_state_fn a = nth_error (Automaton_states a) (Automaton_initial_state a).
Proof. unfold M_Automaton_initial_state_fn, Automaton_initial_state_fn. gauto. Qed.
Lemma canon_num_states a : M_Automaton_num_states_fn a = Some (Automaton_num_states a).
Proof. unfold M_Automaton_num_states_fn, Automaton_num_states_fn. gauto. Qed.
Lemma canon_num_final_states a : M_Automaton_num_final_states_fn a = Some (Automaton_num_final_states a).
Proof. unfold M_Automaton_num_final_states_fn, Automaton_num_final_states_fn. gauto. Qed.
Lemma canon_default_successor a s :
  M_Automaton_default_successor a s =
  match State_default_successor s with
  | Some i => option_map Some (nth_error (Automaton_states a) i)
  | None => Some None
  end.
Proof. unfold M_Automaton_default_successor, Automaton_default_successor. gauto. Qed.
Lemma canon_class_next a s c :
  M_Automaton_class_next a s c =
  match (match c with
         | ClassId_Interval k => nth_error (State_successor s) k
         | ClassId_Complement => State_default_successor s
         end) with
  | Some i => nth_error (Automaton_states a) i
  | None => None
  end.
Proof. unfold M_Automaton_class_next, Automaton_class_next. gauto. Qed.
Lemma canon_next fuel a s x : (length (CharPartition_list (State_classes s)) < fuel)%nat ->
  M_Automaton_next fuel a s x =
  match pclass_of_char (convp (State_classes s)) x with
  | Some c => M_Automaton_class_next a s (unconvc c)
  | None => None
  end.
Proof.
  intros Hf. unfold M_Automaton_next, Automaton_next. rewrite ?(canon_class_of_char fuel _ x Hf). gauto.
Qed.

(* ---- State accessors ---- *)
Lemma link_state_id s : M_State_id_fn s = Some (a_id (convst s)).
Proof. apply canon_state_id. Qed.
Lemma link_state_is_final s : M_State_is_final_fn s = Some (a_final (convst s)).
Proof. apply canon_state_is_final. Qed.
Lemma link_num_successors s : M_State_num_successors s = Some (s_num_successors (convst s)).
Proof.
  rewrite canon_num_successors. cbv [s_num_successors plen convst a_classes convp ivs]. rewrite map_length. reflexivity.
Qed.
Lemma link_has_default_successor s : M_State_has_default_successor s = Some (s_has_default_successor (convst s)).
Proof. apply canon_has_default_successor. Qed.
Lemma link_state_default_successor s : M_State_default_successor_fn s = Some (s_default_successor (convst s)).
Proof. apply canon_state_default_successor. Qed.
Lemma link_state_valid_class_id s c : M_State_valid_class_id s c = Some (s_valid_class_id (convst s) (convc c)).
Proof.
  rewrite canon_state_valid_class_id.
  cbv [s_valid_class_id pvalid plen pempty_complement convst a_classes convp ivs wit MAXC MAX_CHAR].
  rewrite map_length. destruct c; reflexivity.
Qed.
Lemma link_state_class_of_char fuel s x : (length (CharPartition_list (State_classes s)) < fuel)%nat ->
  option_map convc (M_State_class_of_char fuel s x) = pclass_of_char (a_classes (convst s)) x.
Proof.
  intros Hf. rewrite (canon_state_class_of_char fuel s x Hf). cbn [convst a_classes].
  destruct (pclass_of_char (convp (State_classes s)) x) as [c|]; cbn [option_map]; [rewrite convc_unconvc|]; reflexivity.
Qed.
Lemma link_char_maps_to_default fuel s x : (length (CharPartition_list (State_classes s)) < fuel)%nat ->
  M_State_char_maps_to_default fuel s x = s_char_maps_to_default (convst s) x.
Proof.
  intros Hf. rewrite (canon_char_maps_to_default fuel s x Hf).
  unfold s_char_maps_to_default, s_has_default_successor, convst. cbn [a_default a_classes].
  destruct (State_default_successor s); [|reflexivity].
  destruct (pclass_of_char (convp (State_classes s)) x); reflexivity.
Qed.

(* ---- Automaton accessors ---- *)
Lemma nth_error_map_convst l i : nth_error (map convst l) i = option_map convst (nth_error l i).
Proof. revert i; induction l as [|x l IH]; intros [|i]; cbn; auto. Qed.

Lemma link_state a i : option_map convst (M_Automaton_state a i) = a_state_at (conva a) i.
Proof. rewrite canon_state. unfold a_state_at, conva. cbn [astates]. rewrite nth_error_map_convst. reflexivity. Qed.
Lemma link_initial_state a : option_map convst (M_Automaton_initial_state_fn a) = a_initial_state (conva a).
Proof.
  rewrite canon_initial_state. unfold a_initial_state, a_state_at, conva. cbn [astates initial].
  rewrite nth_error_map_convst. reflexivity.
Qed.
Lemma link_num_states a : M_Automaton_num_states_fn a = Some (a_num_states (conva a)).
Proof. apply canon_num_states. Qed.
Lemma link_num_final_states a : M_Automaton_num_final_states_fn a = Some (a_num_final_states (conva a)).
Proof. apply canon_num_final_states. Qed.

Lemma link_default_successor a s :
  option_map (option_map convst) (M_Automaton_default_successor a s) = a_default_successor (conva a) (convst s).
Proof.
  rewrite canon_default_successor. unfold a_default_successor, a_state_at, conva.
  cbn [astates convst a_default]. destruct (State_default_successor s) as [d|]; [|reflexivity].
  rewrite nth_error_map_convst. cbv [bind]. destruct (nth_error (Automaton_states a) d); reflexivity.
Qed.

(* class_next panics exactly where the model's does: successor index or state index out of range,
   unwrap() of a missing default *)
Lemma link_class_next a s c :
  option_map convst (M_Automaton_class_next a s c) = a_class_next (conva a) (convst s) (convc c).
Proof.
  rewrite canon_class_next. unfold a_class_next, a_state_at, conva.
  cbn [astates convst a_succ a_default]. cbv [bind].
  destruct c as [k|]; cbn [convc].
  - destruct (nth_error (State_successor s) k) as [i|]; [|reflexivity]. rewrite nth_error_map_convst. reflexivity.
  - destruct (State_default_successor s) as [i|]; [|reflexivity]. rewrite nth_error_map_convst. reflexivity.
Qed.

(* next(s, c) as a state: the class of c, then class_next *)
Definition a_next_state (a : automaton) (s : astate) (c : N) : option astate :=
  do cid <- pclass_of_char (a_classes s) c; a_class_next a s cid.
Lemma a_next_state_id a s c : a_next_state a s c = do i <- a_next a s c; a_state_at a i.
Proof.
  unfold a_next_state, a_next, a_class_next. cbv [bind].
  destruct (pclass_of_char (a_classes s) c) as [[k|]|]; reflexivity.
Qed.

Lemma link_next fuel a s c : (length (CharPartition_list (State_classes s)) < fuel)%nat ->
  option_map convst (M_Automaton_next fuel a s c) = a_next_state (conva a) (convst s) c.
Proof.
  intros Hf. rewrite (canon_next fuel a s c Hf). unfold a_next_state. cbn [convst a_classes]. cbv [bind].
  destruct (pclass_of_char (convp (State_classes s)) c) as [cid|]; [|reflexivity].
  rewrite link_class_next, convc_unconvc. reflexivity.
Qed.

(* ---- str_next / accepts: a left fold over the characters of the string ---- *)
Fixpoint str_next_state (a : automaton) (s : astate) (w : list N) : option astate :=
  match w with
  | [] => Some s
  | c :: t => do s' <- a_next_state a s c; str_next_state a s' t
  end.
(* a fuel that suffices for the class search of every state of the automaton *)
Definition fuel_ok (fuel : nat) (a : Automaton) : Prop :=
  Forall (fun s => (length (CharPartition_list (State_classes s)) < fuel)%nat) (Automaton_states a).

Lemma class_next_in a s c s' : M_Automaton_class_next a s c = Some s' -> In s' (Automaton_states a).
Proof.
  rewrite canon_class_next.
  destruct (match c with ClassId_Interval k => nth_error (State_successor s) k | ClassId_Complement => State_default_successor s end) as [i|];
    [|discriminate].
  apply nth_error_In.
Qed.
Lemma next_in fuel a s c s' : (length (CharPartition_list (State_classes s)) < fuel)%nat ->
  M_Automaton_next fuel a s c = Some s' -> In s' (Automaton_states a).
Proof.
  intros Hf. rewrite (canon_next fuel a s c Hf).
  destruct (pclass_of_char (convp (State_classes s)) c) as [cid|]; [|discriminate].
  apply class_next_in.
Qed.

Lemma link_fold_next fuel a : fuel_ok fuel a -> forall w s,
  (length (CharPartition_list (State_classes s)) < fuel)%nat ->
  option_map convst (fold_m (fun s1 c => M_Automaton_next fuel a s1 c) w s) = str_next_state (conva a) (convst s) w.
Proof.
  intros Hok. induction w as [|c w IH]; intros s Hs; [reflexivity|].
  cbn [fold_m str_next_state]. rewrite <- (link_next fuel a s c Hs). cbv [bind].
  destruct (M_Automaton_next fuel a s c) as [s'|] eqn:E; [|reflexivity].
  cbn [option_map]. apply IH.
  apply (next_in fuel a s c s' Hs) in E. unfold fuel_ok in Hok. rewrite Forall_forall in Hok. apply Hok. exact E.
Qed.

Lemma link_str_next fuel a s w : fuel_ok fuel a -> (length (CharPartition_list (State_classes s)) < fuel)%nat ->
  option_map convst (M_Automaton_str_next fuel a s w) = str_next_state (conva a) (convst s) (SmtString_s w).
Proof.
  intros Hok Hs. unfold M_Automaton_str_next, Automaton_str_next, M_SmtString_iter, SmtString_iter. cbn [bind].
  rewrite <- (link_fold_next fuel a Hok (SmtString_s w) s Hs).
  destruct (fold_m _ (SmtString_s w) s); reflexivity.
Qed.

Lemma canon_accepts fuel a w :
  M_Automaton_accepts fuel a w =
  match nth_error (Automaton_states a) (Automaton_initial_state a) with
  | Some s0 => option_map State_is_final (M_Automaton_str_next fuel a s0 w)
  | None => None
  end.
Proof. unfold M_Automaton_accepts, Automaton_accepts. rewrite ?canon_initial_state. gauto. Qed.

Lemma link_accepts fuel a w : fuel_ok fuel a ->
  M_Automaton_accepts fuel a w =
  do s0 <- a_initial_state (conva a); option_map a_final (str_next_state (conva a) s0 (SmtString_s w)).
Proof.
  intros Hok. rewrite canon_accepts. rewrite <- link_initial_state, canon_initial_state.
  destruct (nth_error (Automaton_states a) (Automaton_initial_state a)) as [s0|] eqn:E0; [|reflexivity].
  cbn [bind option_map].
  assert (Hs0 : (length (CharPartition_list (State_classes s0)) < fuel)%nat).
  { apply nth_error_In in E0. unfold fuel_ok in Hok. rewrite Forall_forall in Hok. apply Hok. exact E0. }
  rewrite <- (link_str_next fuel a s0 w Hok Hs0).
  destruct (M_Automaton_str_next fuel a s0 w); reflexivity.
Qed.

(* ---- iterators are created at position 0 over the state array ---- *)
Lemma link_edges a s : M_Automaton_edges a s = Some (EdgeIterator_mk (Automaton_states a) s 0).
Proof. unfold M_Automaton_edges, Automaton_edges. gauto. Qed.
Lemma link_final_states a : M_Automaton_final_states a = Some (FinalStateIterator_mk (Automaton_states a) 0).
Proof. unfold M_Automaton_final_states, Automaton_final_states. gauto. Qed.

(* ---- StateMapping ---- *)
Lemma link_num_new_states m : M_StateMapping_num_new_states m = Some (length (StateMapping_old_id m)).
Proof. unfold M_StateMapping_num_new_states, StateMapping_num_new_states. gauto. Qed.
Lemma link_is_class_rep m i :
  M_StateMapping_is_class_rep m i =
  do n <- nth_error (StateMapping_new_id m) i; do o <- nth_error (StateMapping_old_id m) n; Some (Nat.eqb o i).
Proof. unfold M_StateMapping_is_class_rep, StateMapping_is_class_rep. gauto. Qed.

Lemma list_upd_upd {A} (l : list A) : forall i x, (i < length l)%nat -> list_upd l i x = Some (upd l i x).
Proof.
  induction l as [|y l IH]; intros i x Hi; cbn [length] in Hi; [lia|].
  destruct i as [|i]; cbn [list_upd upd]; [reflexivity|]. rewrite IH by lia. reflexivity.
Qed.
Lemma upd_len {A} (l : list A) : forall i x, length (upd l i x) = length l.
Proof. induction l as [|y l IH]; intros [|i] x; cbn [upd length]; auto. Qed.
Lemma upd_app_r {A} (l1 : list A) : forall l2 i x, upd (l1 ++ l2) (length l1 + i) x = l1 ++ upd l2 i x.
Proof. induction l1 as [|y l1 IH]; intros l2 i x; cbn [app length Nat.add upd]; [reflexivity|]. rewrite IH. reflexivity. Qed.

(* from_array(n, keep) with every kept node below n: new_id is the model's fold of upd over the
   enumeration (remove_unreachable in Automaton.v), old_id is keep itself *)
Definition map_res (r : option (loopres StateMapping (list nat * list nat))) : option (list nat * list nat) :=
  match r with Some (LoopDone p) => Some p | _ => None end.

Lemma link_from_array_loop n : forall keep b done new_id,
  Forall (fun x => (x < n)%nat) keep -> length new_id = n -> length done = b ->
  map_res (StateMapping_from_array_loop1 (combine (seq b (length keep)) keep) new_id (done ++ repeat 0%nat (length keep)))
  = Some (fold_left (fun acc ix => upd acc (snd ix) (fst ix)) (combine (seq b (length keep)) keep) new_id, done ++ keep).
Proof.
  induction keep as [|x keep IH]; intros b done new_id Hk Hn Hd.
  - cbn. rewrite app_nil_r. reflexivity.
  - inversion Hk as [|? ? Hx Hk']; subst.
    cbn [length seq combine StateMapping_from_array_loop1 fold_left fst snd].
    rewrite (list_upd_upd new_id x (length done)) by lia. cbn [bind].
    replace (list_upd (done ++ repeat 0%nat (S (length keep))) (length done) x)
      with (Some ((done ++ [x]) ++ repeat 0%nat (length keep))).
    2:{ symmetry. rewrite list_upd_upd by (rewrite app_length, repeat_length; cbn; lia).
        f_equal. replace (length done) with (length done + 0)%nat at 1 by lia. rewrite upd_app_r.
        cbn [repeat upd]. rewrite <- app_assoc. reflexivity. }
    cbn [bind]. specialize (IH (S (length done)) (done ++ [x]) (upd new_id x (length done)) Hk').
    rewrite IH.
    + rewrite <- app_assoc. reflexivity.
    + rewrite upd_len. reflexivity.
    + rewrite app_length. cbn. lia.
Qed.

Lemma link_from_array n keep : Forall (fun x => (x < n)%nat) keep ->
  M_StateMapping_from_array n keep =
  Some (StateMapping_mk (fold_left (fun acc ix => upd acc (snd ix) (fst ix)) (combine (seq 0 (length keep)) keep) (repeat 0%nat n)) keep).
Proof.
  intros Hk. unfold M_StateMapping_from_array, StateMapping_from_array, enumerate.
  pose proof (link_from_array_loop n keep 0%nat [] (repeat 0%nat n) Hk (repeat_length _ _) eq_refl) as H.
  cbn [app] in H.
  destruct (StateMapping_from_array_loop1 _ _ _) as [[m|[a b]]|]; cbn [map_res] in H; try discriminate.
  injection H as -> ->. reflexivity.
Qed.

(* ---- the iterators edges(s) and final_states(): draining them yields the model's lists ---- *)
Fixpoint drain_edges (fuel : nat) (it : EdgeIterator) : option (list (ClassId * State)) :=
  match fuel with
  | O => None
  | S f => match M_EdgeIterator_next it with
           | Some (it', Some e) => match drain_edges f it' with Some r => Some (e :: r) | None => None end
           | Some (_, None) => Some []
           | None => None
           end
  end.

Lemma next_edge arr s k :
  M_EdgeIterator_next (EdgeIterator_mk arr s k) =
  let n := length (CharPartition_list (State_classes s)) in
  if Nat.ltb k n then
    do nid <- nth_error (State_successor s) k; do t <- nth_error arr nid;
    Some (EdgeIterator_mk arr s (k + 1), Some (ClassId_Interval k, t))
  else if Nat.eqb k n && match State_default_successor s with Some _ => true | None => false end then
    do d <- State_default_successor s; do t <- nth_error arr d;
    Some (EdgeIterator_mk arr s (k + 1), Some (ClassId_Complement, t))
  else Some (EdgeIterator_mk arr s k, None).
Proof.
  unfold M_EdgeIterator_next, EdgeIterator_next.
  cbn [EdgeIterator_index EdgeIterator_state EdgeIterator_state_array].
  rewrite ?canon_num_successors, ?canon_has_default_successor. cbv zeta.
  gnorm. repeat (gcase; gnorm; cbn [EdgeIterator_index EdgeIterator_state EdgeIterator_state_array]); gfin.
Qed.

Definition edge_target (arr : list State) (ci : ClassId * nat) : option (ClassId * State) :=
  do t <- nth_error arr (snd ci); Some (fst ci, t).
Definition default_list (s : State) : list nat :=
  match State_default_successor s with Some d => [d] | None => [] end.

Lemma drain_edges_from arr s : length (State_successor s) = length (CharPartition_list (State_classes s)) ->
  forall rest pre fuel, State_successor s = pre ++ rest -> (length rest + 2 <= fuel)%nat ->
  drain_edges fuel (EdgeIterator_mk arr s (length pre)) =
  map_m (edge_target arr) (combine (map ClassId_Interval (seq (length pre) (length rest)) ++ [ClassId_Complement])
                                   (rest ++ default_list s)).
Proof.
  intros Hlen. induction rest as [|x rest IH]; intros pre fuel Hs Hf.
  - rewrite app_nil_r in Hs. destruct fuel as [|[|fuel]]; cbn [length] in Hf; try lia.
    cbn [drain_edges]. rewrite next_edge. cbv zeta. rewrite <- Hlen, Hs.
    rewrite Nat.ltb_irrefl, Nat.eqb_refl. cbn [andb length seq map app].
    unfold default_list.
    destruct (State_default_successor s) as [d|]; [|reflexivity].
    cbn [bind combine map_m]. unfold edge_target. cbn [fst snd].
    destruct (nth_error arr d) as [t|]; [|reflexivity]. cbn [bind].
    rewrite next_edge. cbv zeta. rewrite <- Hlen, Hs.
    replace (Nat.ltb (length pre + 1) (length pre)) with false by (symmetry; apply Nat.ltb_ge; lia).
    replace (Nat.eqb (length pre + 1) (length pre)) with false by (symmetry; apply Nat.eqb_neq; lia).
    reflexivity.
  - destruct fuel as [|fuel]; cbn [length] in Hf; [lia|].
    cbn [drain_edges]. rewrite next_edge. cbv zeta. rewrite <- Hlen, Hs at 1. rewrite app_length. cbn [length].
    replace (Nat.ltb (length pre) (length pre + S (length rest))) with true by (symmetry; apply Nat.ltb_lt; lia).
    rewrite Hs. rewrite nth_error_app2 by lia. rewrite Nat.sub_diag. cbn [nth_error bind].
    cbn [seq map app combine map_m]. unfold edge_target at 1. cbn [fst snd].
    destruct (nth_error arr x) as [t|]; [|reflexivity]. cbn [bind].
    specialize (IH (pre ++ [x]) fuel). rewrite app_length in IH. cbn [length] in IH.
    replace (length pre + 1)%nat with (S (length pre)) in * by lia.
    rewrite IH; [reflexivity| rewrite <- app_assoc; exact Hs | lia].
Qed.

(* edges(s) yields (Interval(i), states[successor[i]]) for every interval, then (Complement,
   states[default]) when there is a default: the model's edges (successor indices, then the default) *)
Lemma link_edges_drain a s fuel : length (State_successor s) = length (CharPartition_list (State_classes s)) ->
  (length (State_successor s) + 2 <= fuel)%nat ->
  (do it <- M_Automaton_edges a s; drain_edges fuel it) =
  map_m (edge_target (Automaton_states a))
        (combine (map ClassId_Interval (seq 0 (length (State_successor s))) ++ [ClassId_Complement]) (edges (convst s))).
Proof.
  intros Hlen Hf. rewrite link_edges. cbn [bind].
  pose proof (drain_edges_from (Automaton_states a) s Hlen (State_successor s) [] fuel eq_refl Hf) as H.
  cbn [length] in H. rewrite H.
  unfold edges, default_list, convst. cbn [a_succ a_default]. reflexivity.
Qed.

Fixpoint drain_finals (fuel : nat) (it : FinalStateIterator) : option (list State) :=
  match fuel with
  | O => None
  | S f => match M_FinalStateIterator_next (S (length (FinalStateIterator_state_array it))) it with
           | Some (it', Some e) => match drain_finals f it' with Some r => Some (e :: r) | None => None end
           | Some (_, None) => Some []
           | None => None
           end
  end.

(* the first final state of a list, with its offset *)
Fixpoint first_final (l : list State) : option (nat * State) :=
  match l with
  | [] => None
  | x :: r => if State_is_final x then Some (0%nat, x)
              else match first_final r with Some (k, t) => Some (S k, t) | None => None end
  end.

(* one call of next(): skip the non-final states from the current position on *)
Lemma nth_error_mid {A} (pre : list A) x rest : nth_error (pre ++ x :: rest) (length pre) = Some x.
Proof. rewrite nth_error_app2 by lia. rewrite Nat.sub_diag. reflexivity. Qed.

Lemma final_loop : forall rest pre fuel i0, (length rest < fuel)%nat ->
  FinalStateIterator_next_loop1 fuel (pre ++ rest) (FinalStateIterator_mk (pre ++ rest) i0) (length pre) =
  Some (match first_final rest with
        | Some (k, t) => LoopReturn (FinalStateIterator_mk (pre ++ rest) (length pre + k + 1), Some t)
        | None => LoopDone (FinalStateIterator_mk (pre ++ rest) i0, length (pre ++ rest))
        end).
Proof.
  induction rest as [|x rest IH]; intros pre fuel i0 Hf; (destruct fuel as [|fuel]; [cbn in Hf; lia|]).
  - cbn [FinalStateIterator_next_loop1 first_final]. rewrite ?app_nil_r.
    gnorm. repeat (gcase; gnorm); gfin.
  - assert (IH' : forall i1, FinalStateIterator_next_loop1 fuel (pre ++ x :: rest) (FinalStateIterator_mk (pre ++ x :: rest) i1) (length pre + 1) =
                  Some (match first_final rest with
                        | Some (k, t) => LoopReturn (FinalStateIterator_mk (pre ++ x :: rest) (length pre + 1 + k + 1), Some t)
                        | None => LoopDone (FinalStateIterator_mk (pre ++ x :: rest) i1, length (pre ++ x :: rest))
                        end)).
    { intros i1. specialize (IH (pre ++ [x]) fuel i1). rewrite app_length in IH. cbn [length] in IH.
      rewrite <- app_assoc in IH. cbn [app] in IH. apply IH. cbn [length] in Hf. lia. }
    cbn [FinalStateIterator_next_loop1 first_final].
    assert (Hlen : length (pre ++ x :: rest) = (length pre + S (length rest))%nat) by (rewrite app_length; reflexivity).
    rewrite ?nth_error_mid. rewrite ?Hlen.
    replace (S (length pre)) with (length pre + 1)%nat in * by lia.
    gnorm. cbn [FinalStateIterator_state_array FinalStateIterator_index].
    repeat (first [ rewrite IH' | gcase ]; gnorm; cbn [FinalStateIterator_state_array FinalStateIterator_index]);
      rewrite <- ?Hlen; try gfin.
Qed.

Lemma next_final arr pre rest : arr = pre ++ rest ->
  M_FinalStateIterator_next (S (length arr)) (FinalStateIterator_mk arr (length pre)) =
  Some (match first_final rest with
        | Some (k, t) => (FinalStateIterator_mk arr (length pre + k + 1), Some t)
        | None => (FinalStateIterator_mk arr (length arr), None)
        end).
Proof.
  intros ->. unfold M_FinalStateIterator_next, FinalStateIterator_next. cbn [FinalStateIterator_index FinalStateIterator_state_array].
  rewrite final_loop by (rewrite app_length; lia). cbn [bind].
  destruct (first_final rest) as [[k t]|]; reflexivity.
Qed.

Lemma drain_finals_from arr : forall rest pre fuel, arr = pre ++ rest -> (length rest + 1 <= fuel)%nat ->
  drain_finals fuel (FinalStateIterator_mk arr (length pre)) = Some (filter State_is_final rest).
Proof.
  induction rest as [|x rest IH]; intros pre fuel Harr Hf.
  - destruct fuel as [|fuel]; [cbn in Hf; lia|]. cbn [drain_finals FinalStateIterator_state_array].
    rewrite (next_final arr pre [] Harr). reflexivity.
  - destruct fuel as [|fuel]; [cbn in Hf; lia|]. cbn [drain_finals FinalStateIterator_state_array].
    rewrite (next_final arr pre (x :: rest) Harr). cbn [first_final filter].
    assert (Harr' : arr = (pre ++ [x]) ++ rest) by (rewrite <- app_assoc; exact Harr).
    assert (Hlen : length (pre ++ [x]) = (length pre + 1)%nat) by (rewrite app_length; reflexivity).
    destruct (State_is_final x) eqn:Ex.
    + replace (length pre + 0 + 1)%nat with (length (pre ++ [x])) by lia.
      rewrite (IH (pre ++ [x]) fuel Harr') by (cbn [length] in Hf; lia). reflexivity.
    + (* x is skipped: the same answer as the call from the next position *)
      pose proof (IH (pre ++ [x]) (S fuel) Harr' ltac:(cbn [length] in Hf; lia)) as H.
      cbn [drain_finals FinalStateIterator_state_array] in H.
      rewrite (next_final arr (pre ++ [x]) rest Harr') in H. rewrite Hlen in H.
      destruct (first_final rest) as [[k t]|].
      * replace (length pre + S k + 1)%nat with (length pre + 1 + k + 1)%nat by lia. exact H.
      * exact H.
Qed.

(* final_states() yields the final states in index order: the model's a_final_states *)
Lemma link_final_states_drain a fuel : (length (Automaton_states a) + 1 <= fuel)%nat ->
  option_map (map convst) (do it <- M_Automaton_final_states a; drain_finals fuel it) = Some (a_final_states (conva a)).
Proof.
  intros Hf. rewrite link_final_states. cbn [bind].
  pose proof (drain_finals_from (Automaton_states a) (Automaton_states a) [] fuel eq_refl Hf) as H.
  cbn [length] in H. rewrite H. cbn [option_map]. f_equal.
  unfold a_final_states, conva. cbn [astates]. clear H Hf.
  induction (Automaton_states a) as [|x l IH]; [reflexivity|].
  cbn [filter map]. unfold convst at 2. cbn [a_final]. destruct (State_is_final x); cbn [map]; rewrite IH; reflexivity.
Qed.

(* ================= char_set_next and combined_char_partition ================= *)
Lemma bs_cover_fuel : forall f1 f2 l x i j, (j - i < f1)%nat -> (j - i < f2)%nat ->
  bs_cover f1 l x i j = bs_cover f2 l x i j.
Proof.
  induction f1 as [|f1 IH]; intros f2 l x i j H1 H2; [lia|].
  destruct f2 as [|f2]; [lia|]. cbn [bs_cover].
  destruct (Nat.ltb (S i) j) eqn:Eij; [|reflexivity]. apply Nat.ltb_lt in Eij.
  cbv [bind]. destruct (nth_error l (i + (j - i) / 2)) as [s|]; [|reflexivity].
  destruct (fst s <=? x); apply IH; lia.
Qed.

Lemma link_interval_cover_fuel fuel p s : (length (CharPartition_list p) < fuel)%nat ->
  option_map convr (M_CharPartition_interval_cover fuel p s) = pinterval_cover (convp p) (conv s).
Proof.
  intros Hf. pose proof (link_get p) as G. pose proof (link_start p) as S1.
  unfold M_CharPartition_interval_cover, CharPartition_interval_cover, M_CharPartition_interval_cover_binary_search,
    CharPartition_interval_cover_binary_search, pinterval_cover.
  pose proof (link_bs_cover fuel (CharPartition_list p) (CharSet_start s) 0 (length (CharPartition_list p))) as H.
  replace (plen (convp p)) with (length (CharPartition_list p)) by (destruct p; cbn; rewrite map_length; reflexivity).
  change (ivs (convp p)) with (map conv (CharPartition_list p)).
  change (fst (conv s)) with (CharSet_start s). change (snd (conv s)) with (CharSet_end s).
  rewrite (bs_cover_fuel (S (length (CharPartition_list p))) fuel) by lia.
  rewrite <- H. unfold bind at 1 3.
  destruct (CharPartition_interval_cover_binary_search_loop1 _ _ _ _ _) as [[i|[i j]]|]; cbn [cover_res]; try reflexivity.
  all: cbn [bind]; rewrite G; unfold bind;
    destruct (pget (convp p) i) as [ai bi]; cbn [fst snd];
    rewrite S1;
    replace (i + 1)%nat with (S i) by lia;
    destruct (CharSet_start s <? ai), (CharSet_end s <? ai), (CharSet_start s <=? bi), (CharSet_end s <=? bi),
             (CharSet_end s <? pstart (convp p) (S i)); reflexivity.
Qed.

Lemma link_class_of_set_fuel fuel p s : (length (CharPartition_list p) < fuel)%nat ->
  option_map convres (M_CharPartition_class_of_set fuel p s) = pclass_of_set (convp p) (conv s).
Proof.
  intros Hf. unfold M_CharPartition_class_of_set, CharPartition_class_of_set, pclass_of_set.
  rewrite <- (link_interval_cover_fuel fuel p s Hf). unfold bind.
  destruct (M_CharPartition_interval_cover _ p s) as [[i| |]|]; reflexivity.
Qed.

Definition cs_next_res (r : option (result State Error)) : option (option astate) :=
  match r with
  | Some (Ok t) => Some (Some (convst t))
  | Some (Err Error_AmbiguousCharSet) => Some None
  | _ => None
  end.

(* char_set_next: Err(AmbiguousCharSet) exactly when the set overlaps two classes of the state,
   otherwise the successor for the class of the set; panics where the model's does *)
Lemma link_char_set_next fuel a s set : (length (CharPartition_list (State_classes s)) < fuel)%nat ->
  cs_next_res (M_Automaton_char_set_next fuel a s set) = a_char_set_next (conva a) (convst s) (conv set).
Proof.
  intros Hf. unfold M_Automaton_char_set_next, Automaton_char_set_next, a_char_set_next.
  cbn [convst a_classes]. rewrite <- (link_class_of_set_fuel fuel _ set Hf).
  pose proof (link_class_of_set_err fuel (State_classes s) set) as He. cbv [bind].
  destruct (M_CharPartition_class_of_set fuel (State_classes s) set) as [[c|e]|]; cbn [option_map convres].
  - rewrite <- link_class_next. destruct (M_Automaton_class_next a s c); reflexivity.
  - rewrite (He e eq_refl). reflexivity.
  - reflexivity.
Qed.

(* ---- merge with any sufficient fuel, the list fold, and the combined partition ---- *)
Lemma merge_loop_S f p1 p2 i a b j c d res :
  merge_loop (S f) p1 p2 i a b j c d res =
    if negb ((b <=? MAXC) || (d <=? MAXC)) then Some res else
    if b <? c then let '(x, y) := pget p1 i in merge_loop f p1 p2 (S i) x y j c d (ppush res a b)
    else if d <? a then let '(x, y) := pget p2 j in merge_loop f p1 p2 i a b (S j) x y (ppush res c d)
    else if c <? a then merge_loop f p1 p2 i a b j a d (ppush res c (a - 1))
    else if a <? c then merge_loop f p1 p2 i c b j c d (ppush res a (c - 1))
    else if b <? d then let '(x, y) := pget p1 i in merge_loop f p1 p2 (S i) x y j (b + 1) d (ppush res a b)
    else if d <? b then let '(x, y) := pget p2 j in merge_loop f p1 p2 i (d + 1) b (S j) x y (ppush res c d)
    else let '(x, y) := pget p1 i in let '(x', y') := pget p2 j in
         merge_loop f p1 p2 (S i) x y (S j) x' y' (ppush res a b).
Proof. reflexivity. Qed.
Lemma merge_loop_more : forall f p1 p2 i a b j c d res r,
  merge_loop f p1 p2 i a b j c d res = Some r -> merge_loop (S f) p1 p2 i a b j c d res = Some r.
Proof.
  induction f as [|f IH]; intros p1 p2 i a b j c d res r H; [discriminate|].
  rewrite merge_loop_S in H. rewrite (merge_loop_S (S f)).
  destruct (negb ((b <=? MAXC) || (d <=? MAXC))); [exact H|].
  destruct (b <? c); [destruct (pget p1 i); apply IH; exact H|].
  destruct (d <? a); [destruct (pget p2 j); apply IH; exact H|].
  destruct (c <? a); [apply IH; exact H|].
  destruct (a <? c); [apply IH; exact H|].
  destruct (b <? d); [destruct (pget p1 i); apply IH; exact H|].
  destruct (d <? b); [destruct (pget p2 j); apply IH; exact H|].
  destruct (pget p1 i); destruct (pget p2 j); apply IH; exact H.
Qed.
Lemma merge_loop_ge f p1 p2 i a b j c d res r : merge_loop f p1 p2 i a b j c d res = Some r ->
  forall f', (f <= f')%nat -> merge_loop f' p1 p2 i a b j c d res = Some r.
Proof.
  intros H f' Hle. induction Hle as [|f' Hle IH]; [exact H|]. apply merge_loop_more. exact IH.
Qed.

Definition gwf (p : CharPartition) : Prop := pwf (convp p).
Lemma gwf_bounded p : gwf p -> bounded p.
Proof.
  intros [Hs _]. unfold bounded. apply Forall_forall. intros s Hin.
  assert (Hv : cs_valid (conv s)).
  { apply (sorted_valid _ Hs). unfold convp, ivs. apply in_map. exact Hin. }
  destruct Hv as [H1 H2]. unfold conv, MAX_CHAR, MAXC in *. cbn [fst snd] in *. lia.
Qed.
Lemma link_merge_fuel fuel p1 p2 : gwf p1 -> gwf p2 -> (merge_fuel (convp p1) (convp p2) <= fuel)%nat ->
  option_map convp (M_fn_merge_partitions fuel p1 p2) = Some (pmerge (convp p1) (convp p2)).
Proof.
  intros W1 W2 Hf. pose proof (gwf_bounded _ W1) as B1. pose proof (gwf_bounded _ W2) as B2.
  pose proof (merge_fuel_sufficient _ _ W1 W2) as Hm. unfold pmerge_opt in Hm.
  unfold M_fn_merge_partitions, fn_merge_partitions.
  rewrite !link_next_interval. unfold bind at 1 2.
  change M_CharPartition_new with (Some CharPartition_new). unfold bind at 1.
  pose proof (pget_bounded p1 0 B1) as [G1a G1b]. pose proof (pget_bounded p2 0 B2) as [G2a G2b].
  destruct (pget (convp p1) 0) as [a b] eqn:E1. destruct (pget (convp p2) 0) as [c d] eqn:E2. cbn [fst snd] in *.
  pose proof (merge_loop_ge _ _ _ _ _ _ _ _ _ _ _ Hm fuel Hf) as Hm'.
  change pnew with (convp CharPartition_new) in Hm'.
  rewrite <- (link_merge_loop fuel p1 p2 B1 B2 CharPartition_new 1%nat a b 1%nat c d) in Hm' by assumption.
  unfold bind.
  destruct (fn_merge_partitions_loop1 fuel p1 p2 (1%nat, a, b) (1%nat, c, d) CharPartition_new) as [[q|[[t1 t2] q]]|];
    cbn [merge_res] in Hm'; try discriminate; exact Hm'.
Qed.

Fixpoint list_fuel_ok (fuel : nat) (l : list CharPartition) (acc : part) : Prop :=
  match l with
  | [] => True
  | p :: t => (merge_fuel acc (convp p) <= fuel)%nat /\ list_fuel_ok fuel t (pmerge acc (convp p))
  end.
Definition list_res (r : option (loopres CharPartition CharPartition)) : option part :=
  match r with Some (LoopDone q) => Some (convp q) | Some (LoopReturn q) => Some (convp q) | None => None end.
Lemma link_merge_list_loop fuel : forall l acc, gwf acc -> Forall gwf l -> list_fuel_ok fuel l (convp acc) ->
  list_res (fn_merge_partition_list_loop1 fuel l acc) = Some (fold_left pmerge (map convp l) (convp acc)).
Proof.
  induction l as [|p l IH]; intros acc Hacc Hl Hok; [reflexivity|].
  inversion Hl as [|? ? Hp Hl']; subst. destruct Hok as (Hf & Hrest).
  cbn [fn_merge_partition_list_loop1 map fold_left].
  pose proof (link_merge_fuel fuel acc p Hacc Hp Hf) as Hm.
  destruct (M_fn_merge_partitions fuel acc p) as [q|]; [|discriminate Hm].
  cbn [option_map] in Hm. injection Hm as Hm. cbn [bind]. rewrite <- Hm. apply IH.
  - unfold gwf. rewrite Hm. apply merge_wf; assumption.
  - exact Hl'.
  - rewrite Hm. exact Hrest.
Qed.
Lemma link_merge_partition_list fuel l : Forall gwf l -> list_fuel_ok fuel l pnew ->
  option_map convp (M_fn_merge_partition_list fuel l) = Some (pmerge_list (map convp l)).
Proof.
  intros Hl Hok. unfold M_fn_merge_partition_list, fn_merge_partition_list, pmerge_list.
  change M_CharPartition_new with (Some CharPartition_new). cbn [bind].
  pose proof (link_merge_list_loop fuel l CharPartition_new pnew_wf Hl Hok) as H.
  change (convp CharPartition_new) with pnew in H.
  destruct (fn_merge_partition_list_loop1 fuel l CharPartition_new) as [[q|q]|]; cbn [list_res] in H; try discriminate;
    cbn [bind option_map]; exact H.
Qed.

Lemma map_m_some {A B} (f : A -> B) l : map_m (fun x => Some (f x)) l = Some (map f l).
Proof. induction l as [|x l IH]; [reflexivity|]. cbn [map_m map]. rewrite IH. reflexivity. Qed.

(* combined_char_partition: the fold of merge_partitions over the states' class partitions *)
Lemma link_combined_char_partition fuel a :
  Forall (fun s => gwf (State_classes s)) (Automaton_states a) ->
  list_fuel_ok fuel (map State_classes (Automaton_states a)) pnew ->
  option_map convp (M_Automaton_combined_char_partition fuel a) = Some (combined_partition (conva a)).
Proof.
  intros Hw Hok. unfold M_Automaton_combined_char_partition, Automaton_combined_char_partition, M_Automaton_states_fn, Automaton_states_fn.
  cbn [bind]. rewrite (map_m_some State_classes). cbn [bind].
  assert (Hw' : Forall gwf (map State_classes (Automaton_states a))) by (rewrite Forall_map; exact Hw).
  rewrite (link_merge_partition_list fuel _ Hw' Hok). f_equal.
  unfold pmerge_list, combined_partition, conva. cbn [astates]. rewrite map_map.
  clear Hw Hok Hw'. generalize pnew as acc. induction (Automaton_states a) as [|s l IH]; intros acc; [reflexivity|].
  cbn [map fold_left]. unfold convst at 2. cbn [a_classes]. apply IH.
Qed.
