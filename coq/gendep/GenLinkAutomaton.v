(* GenLinkAutomaton.v -- the read side of automata.rs regenerated on every run (SVG.AutomatonGen):
   State / Automaton accessors, class_next, next, str_next, accepts, and StateMapping::from_array
   coincide with the hand-written model Automaton.v.  `&State` values are the state records; the
   model's a_str_next walks state indices, the code walks state references: the two agree on
   well-formed automata (aut_wf: every successor index is in range). *)
Require Import Base GenBase CharSet Partition Automaton AutomatonProofs.
From SVG Require Import AutomatonGen.
Require Import ZifyBool ZifyN ZifyNat.
Open Scope N_scope.

Definition conv (s : CharSet) : cs := (CharSet_start s, CharSet_end s).
Definition convp (p : CharPartition) : part :=
  {| ivs := map conv (CharPartition_list p); wit := CharPartition_comp_witness p |}.
Definition convc (c : ClassId) : classid :=
  match c with ClassId_Interval i => CInt i | ClassId_Complement => CComp end.
Definition convst (s : State) : astate :=
  {| a_id := State_id s; a_final := State_is_final s; a_classes := convp (State_classes s);
     a_succ := State_successor s; a_default := State_default_successor s |}.
Definition conva (a : Automaton) : automaton :=
  {| num_states := Automaton_num_states a; num_final := Automaton_num_final_states a;
     initial := Automaton_initial_state a; astates := map convst (Automaton_states a) |}.

(* ---- element functions, class_of_char (as in GenLinkPartition.v) ---- *)
Lemma link_cs_contains s x : M_CharSet_contains s x = Some (cs_contains (conv s) x).
Proof. destruct s. reflexivity. Qed.
Lemma link_cs_is_before s x : M_CharSet_is_before s x = Some (cs_is_before (conv s) x).
Proof. destruct s. reflexivity. Qed.
Lemma nth_error_map_conv l i : nth_error (map conv l) i = option_map conv (nth_error l i).
Proof. revert i; induction l as [|x l IH]; intros [|i]; cbn; auto. Qed.

Ltac lnorm := cbv [bind option_map cs_contains cs_is_before]; cbn [fst snd conv CharSet_start CharSet_end].
Ltac Zify.zify_post_hook ::= Z.div_mod_to_equations.
Ltac lstep :=
  match goal with
  | |- context [nth_error ?l ?a] =>
      match goal with
      | |- context [nth_error l ?b] =>
          tryif constr_eq a b then fail else (replace a with b by lia)
      end
  | |- context [M_CharSet_contains ?s ?x] => rewrite (link_cs_contains s x)
  | |- context [M_CharSet_is_before ?s ?x] => rewrite (link_cs_is_before s x)
  | |- context [nth_error (map conv ?l) ?i] => rewrite (nth_error_map_conv l i)
  | |- context [match ?x with _ => _ end] =>
      lazymatch x with
      | context [match _ with _ => _ end] => fail
      | _ => destruct x eqn:?
      end
  end; lnorm.
Ltac lleaf IH :=
  first [ reflexivity | discriminate | (exfalso; lia) | congruence
        | (rewrite IH; first [ reflexivity | (f_equal; lia) ]) | (f_equal; lia) ].

Definition char_res (r : option (loopres ClassId (nat * nat))) : option classid :=
  match r with
  | Some (LoopReturn c) => Some (convc c)
  | Some (LoopDone _) => Some CComp
  | None => None
  end.

Lemma link_bs_char fuel l x i j :
  char_res (CharPartition_class_of_char_binary_search_loop1 fuel l x i j) = bs_char fuel (map conv l) x i j.
Proof.
  revert i j; induction fuel as [|fuel IH]; intros i j; [reflexivity|].
  cbn [CharPartition_class_of_char_binary_search_loop1 bs_char].
  cbv [usize_sub usize_div usize_add cs_contains cs_is_before]. lnorm.
  repeat lstep; lleaf IH.
Qed.

(* the binary search needs at most j - i + 1 rounds: any larger fuel gives the same answer *)
Lemma bs_char_fuel : forall f1 f2 l x i j, (j - i < f1)%nat -> (j - i < f2)%nat ->
  bs_char f1 l x i j = bs_char f2 l x i j.
Proof.
  induction f1 as [|f1 IH]; intros f2 l x i j H1 H2; [lia|].
  destruct f2 as [|f2]; [lia|]. cbn [bs_char].
  destruct (Nat.ltb i j) eqn:Eij; [|reflexivity]. apply Nat.ltb_lt in Eij.
  cbv [bind]. destruct (nth_error l (i + (j - i) / 2)) as [s|]; [|reflexivity].
  destruct (cs_contains s x); [reflexivity|].
  destruct (cs_is_before s x); apply IH; lia.
Qed.

Lemma link_class_of_char fuel p x : (length (CharPartition_list p) < fuel)%nat ->
  option_map convc (M_CharPartition_class_of_char fuel p x) = pclass_of_char (convp p) x.
Proof.
  intros Hf. destruct p as [l w]. autounfold with rs2v. unfold pclass_of_char, convp, plen, ivs, CharPartition_list in *.
  rewrite map_length. rewrite (bs_char_fuel (S (length l)) fuel) by (rewrite ?map_length; lia).
  rewrite <- link_bs_char. unfold bind.
  destruct (CharPartition_class_of_char_binary_search_loop1 _ l x 0 (length l)) as [[c|[a b]]|]; reflexivity.
Qed.

(* ---- canonical forms.  For every translated function without a loop: M_f args = <a fixed expression
   over the generated data>, proved by a generic tactic (unfold f, rewrite the canonical forms of its
   callees, case analysis innermost first, arithmetic at the leaves).  A behaviour-preserving rewrite of
   the Rust function changes the shape of f but not its canonical form; the links to the model below are
   derived from the canonical forms only. ---- *)
Ltac gcase :=
  match goal with
  | |- context [match ?x with _ => _ end] =>
      lazymatch x with
      | context [match _ with _ => _ end] => fail
      | _ => first [ is_var x; destruct x | destruct x eqn:? ]
      end
  end.
Ltac gnorm := cbv [bind option_map negb andb orb]; cbn [fst snd].
Ltac gfin := first [ reflexivity | congruence | (exfalso; lia) | solve [repeat (f_equal; try lia)] ].
Ltac gauto := gnorm; repeat (gcase; gnorm); gfin.

Definition unconvc (c : classid) : ClassId :=
  match c with CInt i => ClassId_Interval i | CComp => ClassId_Complement end.
Lemma unconvc_convc c : unconvc (convc c) = c.
Proof. destruct c; reflexivity. Qed.
Lemma convc_unconvc c : convc (unconvc c) = c.
Proof. destruct c; reflexivity. Qed.

Lemma canon_class_of_char fuel p x : (length (CharPartition_list p) < fuel)%nat ->
  M_CharPartition_class_of_char fuel p x = option_map unconvc (pclass_of_char (convp p) x).
Proof.
  intros Hf. rewrite <- (link_class_of_char fuel p x Hf).
  destruct (M_CharPartition_class_of_char fuel p x) as [c|]; cbn [option_map]; [rewrite unconvc_convc|]; reflexivity.
Qed.
Lemma canon_len p : M_CharPartition_len p = Some (length (CharPartition_list p)).
Proof. unfold M_CharPartition_len, CharPartition_len. gauto. Qed.
Lemma canon_empty_complement p :
  M_CharPartition_empty_complement p = Some (MAX_CHAR <? CharPartition_comp_witness p).
Proof. unfold M_CharPartition_empty_complement, CharPartition_empty_complement. gauto. Qed.
Lemma canon_valid_class_id p c :
  M_CharPartition_valid_class_id p c =
  Some (match c with
        | ClassId_Interval i => Nat.ltb i (length (CharPartition_list p))
        | ClassId_Complement => negb (MAX_CHAR <? CharPartition_comp_witness p)
        end).
Proof.
  unfold M_CharPartition_valid_class_id, CharPartition_valid_class_id.
  rewrite ?canon_len, ?canon_empty_complement. gauto.
Qed.

Lemma canon_state_id s : M_State_id_fn s = Some (State_id s).
Proof. unfold M_State_id_fn, State_id_fn. gauto. Qed.
Lemma canon_state_is_final s : M_State_is_final_fn s = Some (State_is_final s).
Proof. unfold M_State_is_final_fn, State_is_final_fn. gauto. Qed.
Lemma canon_num_successors s : M_State_num_successors s = Some (length (CharPartition_list (State_classes s))).
Proof. unfold M_State_num_successors, State_num_successors. rewrite ?canon_len. gauto. Qed.
Lemma canon_has_default_successor s :
  M_State_has_default_successor s = Some (match State_default_successor s with Some _ => true | None => false end).
Proof. unfold M_State_has_default_successor, State_has_default_successor. gauto. Qed.
Lemma canon_state_default_successor s : M_State_default_successor_fn s = Some (State_default_successor s).
Proof. unfold M_State_default_successor_fn, State_default_successor_fn. gauto. Qed.
Lemma canon_state_valid_class_id s c :
  M_State_valid_class_id s c =
  Some (match c with
        | ClassId_Interval i => Nat.ltb i (length (CharPartition_list (State_classes s)))
        | ClassId_Complement => negb (MAX_CHAR <? CharPartition_comp_witness (State_classes s))
        end).
Proof. unfold M_State_valid_class_id, State_valid_class_id. rewrite ?canon_valid_class_id. gauto. Qed.
Lemma canon_state_class_of_char fuel s x : (length (CharPartition_list (State_classes s)) < fuel)%nat ->
  M_State_class_of_char fuel s x = option_map unconvc (pclass_of_char (convp (State_classes s)) x).
Proof.
  intros Hf. unfold M_State_class_of_char, State_class_of_char. rewrite ?(canon_class_of_char fuel _ x Hf). gauto.
Qed.
Lemma canon_char_maps_to_default fuel s x : (length (CharPartition_list (State_classes s)) < fuel)%nat ->
  M_State_char_maps_to_default fuel s x =
  match State_default_successor s with
  | Some _ => option_map (fun c => classid_eqb c CComp) (pclass_of_char (convp (State_classes s)) x)
  | None => Some false
  end.
Proof.
  intros Hf. unfold M_State_char_maps_to_default, State_char_maps_to_default.
  rewrite ?canon_has_default_successor, ?(canon_class_of_char fuel _ x Hf).
  gnorm. repeat (gcase; gnorm); try gfin; try (match goal with c : classid |- _ => destruct c end; gfin).
Qed.

Lemma canon_state a i : M_Automaton_state a i = nth_error (Automaton_states a) i.
Proof. unfold M_Automaton_state, Automaton_state. gauto. Qed.
Lemma canon_initial_state a : M_Automaton_initial_state_fn a = nth_error (Automaton_states a) (Automaton_initial_state a).
Proof. unfold M_Automaton_initial_state_fn, Automaton_initial_state_fn. gauto. Qed.
Lemma canon_num_states a : M_Automaton_num_states_fn a = Some (Automaton_num_states a).
Proof. unfold M_Automaton_num_states_fn, Automaton_num_states_fn. gauto. Qed.
Lemma canon_num_final_states a : M_Automaton_num_final_states_fn a = Some (Automaton_num_final_states a).
Proof. unfold M_Automaton_num_final_states_fn, Automaton_num_final_states_fn. gauto. Qed.
Lemma canon_default_successor a s :
  M_Automaton_default_successor a s =
  match State_default_successor s with
  | Some i => option_map Some (nth_error (Automaton_states a) i)
  | None => Some None
  end.
Proof. unfold M_Automaton_default_successor, Automaton_default_successor. gauto. Qed.
Lemma canon_class_next a s c :
  M_Automaton_class_next a s c =
  match (match c with
         | ClassId_Interval k => nth_error (State_successor s) k
         | ClassId_Complement => State_default_successor s
         end) with
  | Some i => nth_error (Automaton_states a) i
  | None => None
  end.
Proof. unfold M_Automaton_class_next, Automaton_class_next. gauto. Qed.
Lemma canon_next fuel a s x : (length (CharPartition_list (State_classes s)) < fuel)%nat ->
  M_Automaton_next fuel a s x =
  match pclass_of_char (convp (State_classes s)) x with
  | Some c => M_Automaton_class_next a s (unconvc c)
  | None => None
  end.
Proof.
  intros Hf. unfold M_Automaton_next, Automaton_next. rewrite ?(canon_class_of_char fuel _ x Hf). gauto.
Qed.

(* ---- State accessors ---- *)
Lemma link_state_id s : M_State_id_fn s = Some (a_id (convst s)).
Proof. apply canon_state_id. Qed.
Lemma link_state_is_final s : M_State_is_final_fn s = Some (a_final (convst s)).
Proof. apply canon_state_is_final. Qed.
Lemma link_num_successors s : M_State_num_successors s = Some (s_num_successors (convst s)).
Proof.
  rewrite canon_num_successors. cbv [s_num_successors plen convst a_classes convp ivs]. rewrite map_length. reflexivity.
Qed.
Lemma link_has_default_successor s : M_State_has_default_successor s = Some (s_has_default_successor (convst s)).
Proof. apply canon_has_default_successor. Qed.
Lemma link_state_default_successor s : M_State_default_successor_fn s = Some (s_default_successor (convst s)).
Proof. apply canon_state_default_successor. Qed.
Lemma link_state_valid_class_id s c : M_State_valid_class_id s c = Some (s_valid_class_id (convst s) (convc c)).
Proof.
  rewrite canon_state_valid_class_id.
  cbv [s_valid_class_id pvalid plen pempty_complement convst a_classes convp ivs wit MAXC MAX_CHAR].
  rewrite map_length. destruct c; reflexivity.
Qed.
Lemma link_state_class_of_char fuel s x : (length (CharPartition_list (State_classes s)) < fuel)%nat ->
  option_map convc (M_State_class_of_char fuel s x) = pclass_of_char (a_classes (convst s)) x.
Proof.
  intros Hf. rewrite (canon_state_class_of_char fuel s x Hf). cbn [convst a_classes].
  destruct (pclass_of_char (convp (State_classes s)) x) as [c|]; cbn [option_map]; [rewrite convc_unconvc|]; reflexivity.
Qed.
Lemma link_char_maps_to_default fuel s x : (length (CharPartition_list (State_classes s)) < fuel)%nat ->
  M_State_char_maps_to_default fuel s x = s_char_maps_to_default (convst s) x.
Proof.
  intros Hf. rewrite (canon_char_maps_to_default fuel s x Hf).
  unfold s_char_maps_to_default, s_has_default_successor, convst. cbn [a_default a_classes].
  destruct (State_default_successor s); [|reflexivity].
  destruct (pclass_of_char (convp (State_classes s)) x); reflexivity.
Qed.

(* ---- Automaton accessors ---- *)
Lemma nth_error_map_convst l i : nth_error (map convst l) i = option_map convst (nth_error l i).
Proof. revert i; induction l as [|x l IH]; intros [|i]; cbn; auto. Qed.

Lemma link_state a i : option_map convst (M_Automaton_state a i) = a_state_at (conva a) i.
Proof. rewrite canon_state. unfold a_state_at, conva. cbn [astates]. rewrite nth_error_map_convst. reflexivity. Qed.
Lemma link_initial_state a : option_map convst (M_Automaton_initial_state_fn a) = a_initial_state (conva a).
Proof.
  rewrite canon_initial_state. unfold a_initial_state, a_state_at, conva. cbn [astates initial].
  rewrite nth_error_map_convst. reflexivity.
Qed.
Lemma link_num_states a : M_Automaton_num_states_fn a = Some (a_num_states (conva a)).
Proof. apply canon_num_states. Qed.
Lemma link_num_final_states a : M_Automaton_num_final_states_fn a = Some (a_num_final_states (conva a)).
Proof. apply canon_num_final_states. Qed.

Lemma link_default_successor a s :
  option_map (option_map convst) (M_Automaton_default_successor a s) = a_default_successor (conva a) (convst s).
Proof.
  rewrite canon_default_successor. unfold a_default_successor, a_state_at, conva.
  cbn [astates convst a_default]. destruct (State_default_successor s) as [d|]; [|reflexivity].
  rewrite nth_error_map_convst. cbv [bind]. destruct (nth_error (Automaton_states a) d); reflexivity.
Qed.

(* class_next panics exactly where the model's does: successor index or state index out of range,
   unwrap() of a missing default *)
Lemma link_class_next a s c :
  option_map convst (M_Automaton_class_next a s c) = a_class_next (conva a) (convst s) (convc c).
Proof.
  rewrite canon_class_next. unfold a_class_next, a_state_at, conva.
  cbn [astates convst a_succ a_default]. cbv [bind].
  destruct c as [k|]; cbn [convc].
  - destruct (nth_error (State_successor s) k) as [i|]; [|reflexivity]. rewrite nth_error_map_convst. reflexivity.
  - destruct (State_default_successor s) as [i|]; [|reflexivity]. rewrite nth_error_map_convst. reflexivity.
Qed.

(* next(s, c) as a state: the class of c, then class_next *)
Definition a_next_state (a : automaton) (s : astate) (c : N) : option astate :=
  do cid <- pclass_of_char (a_classes s) c; a_class_next a s cid.
Lemma a_next_state_id a s c : a_next_state a s c = do i <- a_next a s c; a_state_at a i.
Proof.
  unfold a_next_state, a_next, a_class_next. cbv [bind].
  destruct (pclass_of_char (a_classes s) c) as [[k|]|]; reflexivity.
Qed.

Lemma link_next fuel a s c : (length (CharPartition_list (State_classes s)) < fuel)%nat ->
  option_map convst (M_Automaton_next fuel a s c) = a_next_state (conva a) (convst s) c.
Proof.
  intros Hf. rewrite (canon_next fuel a s c Hf). unfold a_next_state. cbn [convst a_classes]. cbv [bind].
  destruct (pclass_of_char (convp (State_classes s)) c) as [cid|]; [|reflexivity].
  rewrite link_class_next, convc_unconvc. reflexivity.
Qed.

(* ---- str_next / accepts: a left fold over the characters of the string ---- *)
Fixpoint str_next_state (a : automaton) (s : astate) (w : list N) : option astate :=
  match w with
  | [] => Some s
  | c :: t => do s' <- a_next_state a s c; str_next_state a s' t
  end.
(* a fuel that suffices for the class search of every state of the automaton *)
Definition fuel_ok (fuel : nat) (a : Automaton) : Prop :=
  Forall (fun s => (length (CharPartition_list (State_classes s)) < fuel)%nat) (Automaton_states a).

Lemma class_next_in a s c s' : M_Automaton_class_next a s c = Some s' -> In s' (Automaton_states a).
Proof.
  rewrite canon_class_next.
  destruct (match c with ClassId_Interval k => nth_error (State_successor s) k | ClassId_Complement => State_default_successor s end) as [i|];
    [|discriminate].
  apply nth_error_In.
Qed.
Lemma next_in fuel a s c s' : (length (CharPartition_list (State_classes s)) < fuel)%nat ->
  M_Automaton_next fuel a s c = Some s' -> In s' (Automaton_states a).
Proof.
  intros Hf. rewrite (canon_next fuel a s c Hf).
  destruct (pclass_of_char (convp (State_classes s)) c) as [cid|]; [|discriminate].
  apply class_next_in.
Qed.

Lemma link_fold_next fuel a : fuel_ok fuel a -> forall w s,
  (length (CharPartition_list (State_classes s)) < fuel)%nat ->
  option_map convst (fold_m (fun s1 c => M_Automaton_next fuel a s1 c) w s) = str_next_state (conva a) (convst s) w.
Proof.
  intros Hok. induction w as [|c w IH]; intros s Hs; [reflexivity|].
  cbn [fold_m str_next_state]. rewrite <- (link_next fuel a s c Hs). cbv [bind].
  destruct (M_Automaton_next fuel a s c) as [s'|] eqn:E; [|reflexivity].
  cbn [option_map]. apply IH.
  apply (next_in fuel a s c s' Hs) in E. unfold fuel_ok in Hok. rewrite Forall_forall in Hok. apply Hok. exact E.
Qed.

Lemma link_str_next fuel a s w : fuel_ok fuel a -> (length (CharPartition_list (State_classes s)) < fuel)%nat ->
  option_map convst (M_Automaton_str_next fuel a s w) = str_next_state (conva a) (convst s) (SmtString_s w).
Proof.
  intros Hok Hs. unfold M_Automaton_str_next, Automaton_str_next, M_SmtString_iter, SmtString_iter. cbn [bind].
  rewrite <- (link_fold_next fuel a Hok (SmtString_s w) s Hs).
  destruct (fold_m _ (SmtString_s w) s); reflexivity.
Qed.

Lemma canon_accepts fuel a w :
  M_Automaton_accepts fuel a w =
  match nth_error (Automaton_states a) (Automaton_initial_state a) with
  | Some s0 => option_map State_is_final (M_Automaton_str_next fuel a s0 w)
  | None => None
  end.
Proof. unfold M_Automaton_accepts, Automaton_accepts. rewrite ?canon_initial_state. gauto. Qed.

Lemma link_accepts fuel a w : fuel_ok fuel a ->
  M_Automaton_accepts fuel a w =
  do s0 <- a_initial_state (conva a); option_map a_final (str_next_state (conva a) s0 (SmtString_s w)).
Proof.
  intros Hok. rewrite canon_accepts. rewrite <- link_initial_state, canon_initial_state.
  destruct (nth_error (Automaton_states a) (Automaton_initial_state a)) as [s0|] eqn:E0; [|reflexivity].
  cbn [bind option_map].
  assert (Hs0 : (length (CharPartition_list (State_classes s0)) < fuel)%nat).
  { apply nth_error_In in E0. unfold fuel_ok in Hok. rewrite Forall_forall in Hok. apply Hok. exact E0. }
  rewrite <- (link_str_next fuel a s0 w Hok Hs0).
  destruct (M_Automaton_str_next fuel a s0 w); reflexivity.
Qed.

(* ---- iterators are created at position 0 over the state array ---- *)
Lemma link_edges a s : M_Automaton_edges a s = Some (EdgeIterator_mk (Automaton_states a) s 0).
Proof. unfold M_Automaton_edges, Automaton_edges. gauto. Qed.
Lemma link_final_states a : M_Automaton_final_states a = Some (FinalStateIterator_mk (Automaton_states a) 0).
Proof. unfold M_Automaton_final_states, Automaton_final_states. gauto. Qed.

(* ---- StateMapping ---- *)
Lemma link_num_new_states m : M_StateMapping_num_new_states m = Some (length (StateMapping_old_id m)).
Proof. unfold M_StateMapping_num_new_states, StateMapping_num_new_states. gauto. Qed.
Lemma link_is_class_rep m i :
  M_StateMapping_is_class_rep m i =
  do n <- nth_error (StateMapping_new_id m) i; do o <- nth_error (StateMapping_old_id m) n; Some (Nat.eqb o i).
Proof. unfold M_StateMapping_is_class_rep, StateMapping_is_class_rep. gauto. Qed.

Lemma list_upd_upd {A} (l : list A) : forall i x, (i < length l)%nat -> list_upd l i x = Some (upd l i x).
Proof.
  induction l as [|y l IH]; intros i x Hi; cbn [length] in Hi; [lia|].
  destruct i as [|i]; cbn [list_upd upd]; [reflexivity|]. rewrite IH by lia. reflexivity.
Qed.
Lemma upd_len {A} (l : list A) : forall i x, length (upd l i x) = length l.
Proof. induction l as [|y l IH]; intros [|i] x; cbn [upd length]; auto. Qed.
Lemma upd_app_r {A} (l1 : list A) : forall l2 i x, upd (l1 ++ l2) (length l1 + i) x = l1 ++ upd l2 i x.
Proof. induction l1 as [|y l1 IH]; intros l2 i x; cbn [app length Nat.add upd]; [reflexivity|]. rewrite IH. reflexivity. Qed.

(* from_array(n, keep) with every kept node below n: new_id is the model's fold of upd over the
   enumeration (remove_unreachable in Automaton.v), old_id is keep itself *)
Definition map_res (r : option (loopres StateMapping (list nat * list nat))) : option (list nat * list nat) :=
  match r with Some (LoopDone p) => Some p | _ => None end.

Lemma link_from_array_loop n : forall keep b done new_id,
  Forall (fun x => (x < n)%nat) keep -> length new_id = n -> length done = b ->
  map_res (StateMapping_from_array_loop1 (combine (seq b (length keep)) keep) new_id (done ++ repeat 0%nat (length keep)))
  = Some (fold_left (fun acc ix => upd acc (snd ix) (fst ix)) (combine (seq b (length keep)) keep) new_id, done ++ keep).
Proof.
  induction keep as [|x keep IH]; intros b done new_id Hk Hn Hd.
  - cbn. rewrite app_nil_r. reflexivity.
  - inversion Hk as [|? ? Hx Hk']; subst.
    cbn [length seq combine StateMapping_from_array_loop1 fold_left fst snd].
    rewrite (list_upd_upd new_id x (length done)) by lia. cbn [bind].
    replace (list_upd (done ++ repeat 0%nat (S (length keep))) (length done) x)
      with (Some ((done ++ [x]) ++ repeat 0%nat (length keep))).
    2:{ symmetry. rewrite list_upd_upd by (rewrite app_length, repeat_length; cbn; lia).
        f_equal. replace (length done) with (length done + 0)%nat at 1 by lia. rewrite upd_app_r.
        cbn [repeat upd]. rewrite <- app_assoc. reflexivity. }
    cbn [bind]. specialize (IH (S (length done)) (done ++ [x]) (upd new_id x (length done)) Hk').
    rewrite IH.
    + rewrite <- app_assoc. reflexivity.
    + rewrite upd_len. reflexivity.
    + rewrite app_length. cbn. lia.
Qed.

Lemma link_from_array n keep : Forall (fun x => (x < n)%nat) keep ->
  M_StateMapping_from_array n keep =
  Some (StateMapping_mk (fold_left (fun acc ix => upd acc (snd ix) (fst ix)) (combine (seq 0 (length keep)) keep) (repeat 0%nat n)) keep).
Proof.
  intros Hk. unfold M_StateMapping_from_array, StateMapping_from_array, enumerate.
  pose proof (link_from_array_loop n keep 0%nat [] (repeat 0%nat n) Hk (repeat_length _ _) eq_refl) as H.
  cbn [app] in H.
  destruct (StateMapping_from_array_loop1 _ _ _) as [[m|[a b]]|]; cbn [map_res] in H; try discriminate.
  injection H as -> ->. reflexivity.
Qed.

(* ---- the iterators edges(s) and final_states(): draining them yields the model's lists ---- *)
Fixpoint drain_edges (fuel : nat) (it : EdgeIterator) : option (list (ClassId * State)) :=
  match fuel with
  | O => None
  | S f => match M_EdgeIterator_next it with
           | Some (it', Some e) => match drain_edges f it' with Some r => Some (e :: r) | None => None end
           | Some (_, None) => Some []
           | None => None
           end
  end.

Lemma next_edge arr s k :
  M_EdgeIterator_next (EdgeIterator_mk arr s k) =
  let n := length (CharPartition_list (State_classes s)) in
  if Nat.ltb k n then
    do nid <- nth_error (State_successor s) k; do t <- nth_error arr nid;
    Some (EdgeIterator_mk arr s (k + 1), Some (ClassId_Interval k, t))
  else if Nat.eqb k n && match State_default_successor s with Some _ => true | None => false end then
    do d <- State_default_successor s; do t <- nth_error arr d;
    Some (EdgeIterator_mk arr s (k + 1), Some (ClassId_Complement, t))
  else Some (EdgeIterator_mk arr s k, None).
Proof.
  unfold M_EdgeIterator_next, EdgeIterator_next.
  cbn [EdgeIterator_index EdgeIterator_state EdgeIterator_state_array].
  rewrite ?canon_num_successors, ?canon_has_default_successor. cbv zeta.
  gnorm. repeat (gcase; gnorm; cbn [EdgeIterator_index EdgeIterator_state EdgeIterator_state_array]); gfin.
Qed.

Definition edge_target (arr : list State) (ci : ClassId * nat) : option (ClassId * State) :=
  do t <- nth_error arr (snd ci); Some (fst ci, t).
Definition default_list (s : State) : list nat :=
  match State_default_successor s with Some d => [d] | None => [] end.

Lemma drain_edges_from arr s : length (State_successor s) = length (CharPartition_list (State_classes s)) ->
  forall rest pre fuel, State_successor s = pre ++ rest -> (length rest + 2 <= fuel)%nat ->
  drain_edges fuel (EdgeIterator_mk arr s (length pre)) =
  map_m (edge_target arr) (combine (map ClassId_Interval (seq (length pre) (length rest)) ++ [ClassId_Complement])
                                   (rest ++ default_list s)).
Proof.
  intros Hlen. induction rest as [|x rest IH]; intros pre fuel Hs Hf.
  - rewrite app_nil_r in Hs. destruct fuel as [|[|fuel]]; cbn [length] in Hf; try lia.
    cbn [drain_edges]. rewrite next_edge. cbv zeta. rewrite <- Hlen, Hs.
    rewrite Nat.ltb_irrefl, Nat.eqb_refl. cbn [andb length seq map app].
    unfold default_list.
    destruct (State_default_successor s) as [d|]; [|reflexivity].
    cbn [bind combine map_m]. unfold edge_target. cbn [fst snd].
    destruct (nth_error arr d) as [t|]; [|reflexivity]. cbn [bind].
    rewrite next_edge. cbv zeta. rewrite <- Hlen, Hs.
    replace (Nat.ltb (length pre + 1) (length pre)) with false by (symmetry; apply Nat.ltb_ge; lia).
    replace (Nat.eqb (length pre + 1) (length pre)) with false by (symmetry; apply Nat.eqb_neq; lia).
    reflexivity.
  - destruct fuel as [|fuel]; cbn [length] in Hf; [lia|].
    cbn [drain_edges]. rewrite next_edge. cbv zeta. rewrite <- Hlen, Hs at 1. rewrite app_length. cbn [length].
    replace (Nat.ltb (length pre) (length pre + S (length rest))) with true by (symmetry; apply Nat.ltb_lt; lia).
    rewrite Hs. rewrite nth_error_app2 by lia. rewrite Nat.sub_diag. cbn [nth_error bind].
    cbn [seq map app combine map_m]. unfold edge_target at 1. cbn [fst snd].
    destruct (nth_error arr x) as [t|]; [|reflexivity]. cbn [bind].
    specialize (IH (pre ++ [x]) fuel). rewrite app_length in IH. cbn [length] in IH.
    replace (length pre + 1)%nat with (S (length pre)) in * by lia.
    rewrite IH; [reflexivity| rewrite <- app_assoc; exact Hs | lia].
Qed.

(* edges(s) yields (Interval(i), states[successor[i]]) for every interval, then (Complement,
   states[default]) when there is a default: the model's edges (successor indices, then the default) *)
Lemma link_edges_drain a s fuel : length (State_successor s) = length (CharPartition_list (State_classes s)) ->
  (length (State_successor s) + 2 <= fuel)%nat ->
  (do it <- M_Automaton_edges a s; drain_edges fuel it) =
  map_m (edge_target (Automaton_states a))
        (combine (map ClassId_Interval (seq 0 (length (State_successor s))) ++ [ClassId_Complement]) (edges (convst s))).
Proof.
  intros Hlen Hf. rewrite link_edges. cbn [bind].
  pose proof (drain_edges_from (Automaton_states a) s Hlen (State_successor s) [] fuel eq_refl Hf) as H.
  cbn [length] in H. rewrite H.
  unfold edges, default_list, convst. cbn [a_succ a_default]. reflexivity.
Qed.

Fixpoint drain_finals (fuel : nat) (it : FinalStateIterator) : option (list State) :=
  match fuel with
  | O => None
  | S f => match M_FinalStateIterator_next (S (length (FinalStateIterator_state_array it))) it with
           | Some (it', Some e) => match drain_finals f it' with Some r => Some (e :: r) | None => None end
           | Some (_, None) => Some []
           | None => None
           end
  end.

(* the first final state of a list, with its offset *)
Fixpoint first_final (l : list State) : option (nat * State) :=
  match l with
  | [] => None
  | x :: r => if State_is_final x then Some (0%nat, x)
              else match first_final r with Some (k, t) => Some (S k, t) | None => None end
  end.

(* one call of next(): skip the non-final states from the current position on *)
Lemma nth_error_mid {A} (pre : list A) x rest : nth_error (pre ++ x :: rest) (length pre) = Some x.
Proof. rewrite nth_error_app2 by lia. rewrite Nat.sub_diag. reflexivity. Qed.

Lemma final_loop : forall rest pre fuel i0, (length rest < fuel)%nat ->
  FinalStateIterator_next_loop1 fuel (pre ++ rest) (FinalStateIterator_mk (pre ++ rest) i0) (length pre) =
  Some (match first_final rest with
        | Some (k, t) => LoopReturn (FinalStateIterator_mk (pre ++ rest) (length pre + k + 1), Some t)
        | None => LoopDone (FinalStateIterator_mk (pre ++ rest) i0, length (pre ++ rest))
        end).
Proof.
  induction rest as [|x rest IH]; intros pre fuel i0 Hf; (destruct fuel as [|fuel]; [cbn in Hf; lia|]).
  - cbn [FinalStateIterator_next_loop1 first_final]. rewrite ?app_nil_r.
    gnorm. repeat (gcase; gnorm); gfin.
  - assert (IH' : forall i1, FinalStateIterator_next_loop1 fuel (pre ++ x :: rest) (FinalStateIterator_mk (pre ++ x :: rest) i1) (length pre + 1) =
                  Some (match first_final rest with
                        | Some (k, t) => LoopReturn (FinalStateIterator_mk (pre ++ x :: rest) (length pre + 1 + k + 1), Some t)
                        | None => LoopDone (FinalStateIterator_mk (pre ++ x :: rest) i1, length (pre ++ x :: rest))
                        end)).
    { intros i1. specialize (IH (pre ++ [x]) fuel i1). rewrite app_length in IH. cbn [length] in IH.
      rewrite <- app_assoc in IH. cbn [app] in IH. apply IH. cbn [length] in Hf. lia. }
    cbn [FinalStateIterator_next_loop1 first_final].
    assert (Hlen : length (pre ++ x :: rest) = (length pre + S (length rest))%nat) by (rewrite app_length; reflexivity).
    rewrite ?nth_error_mid. rewrite ?Hlen.
    replace (S (length pre)) with (length pre + 1)%nat in * by lia.
    gnorm. cbn [FinalStateIterator_state_array FinalStateIterator_index].
    repeat (first [ rewrite IH' | gcase ]; gnorm; cbn [FinalStateIterator_state_array FinalStateIterator_index]);
      rewrite <- ?Hlen; try gfin.
Qed.

Lemma next_final arr pre rest : arr = pre ++ rest ->
  M_FinalStateIterator_next (S (length arr)) (FinalStateIterator_mk arr (length pre)) =
  Some (match first_final rest with
        | Some (k, t) => (FinalStateIterator_mk arr (length pre + k + 1), Some t)
        | None => (FinalStateIterator_mk arr (length arr), None)
        end).
Proof.
  intros ->. unfold M_FinalStateIterator_next, FinalStateIterator_next. cbn [FinalStateIterator_index FinalStateIterator_state_array].
  rewrite final_loop by (rewrite app_length; lia). cbn [bind].
  destruct (first_final rest) as [[k t]|]; reflexivity.
Qed.

Lemma drain_finals_from arr : forall rest pre fuel, arr = pre ++ rest -> (length rest + 1 <= fuel)%nat ->
  drain_finals fuel (FinalStateIterator_mk arr (length pre)) = Some (filter State_is_final rest).
Proof.
  induction rest as [|x rest IH]; intros pre fuel Harr Hf.
  - destruct fuel as [|fuel]; [cbn in Hf; lia|]. cbn [drain_finals FinalStateIterator_state_array].
    rewrite (next_final arr pre [] Harr). reflexivity.
  - destruct fuel as [|fuel]; [cbn in Hf; lia|]. cbn [drain_finals FinalStateIterator_state_array].
    rewrite (next_final arr pre (x :: rest) Harr). cbn [first_final filter].
    assert (Harr' : arr = (pre ++ [x]) ++ rest) by (rewrite <- app_assoc; exact Harr).
    assert (Hlen : length (pre ++ [x]) = (length pre + 1)%nat) by (rewrite app_length; reflexivity).
    destruct (State_is_final x) eqn:Ex.
    + replace (length pre + 0 + 1)%nat with (length (pre ++ [x])) by lia.
      rewrite (IH (pre ++ [x]) fuel Harr') by (cbn [length] in Hf; lia). reflexivity.
    + (* x is skipped: the same answer as the call from the next position *)
      pose proof (IH (pre ++ [x]) (S fuel) Harr' ltac:(cbn [length] in Hf; lia)) as H.
      cbn [drain_finals FinalStateIterator_state_array] in H.
      rewrite (next_final arr (pre ++ [x]) rest Harr') in H. rewrite Hlen in H.
      destruct (first_final rest) as [[k t]|].
      * replace (length pre + S k + 1)%nat with (length pre + 1 + k + 1)%nat by lia. exact H.
      * exact H.
Qed.

(* final_states() yields the final states in index order: the model's a_final_states *)
Lemma link_final_states_drain a fuel : (length (Automaton_states a) + 1 <= fuel)%nat ->
  option_map (map convst) (do it <- M_Automaton_final_states a; drain_finals fuel it) = Some (a_final_states (conva a)).
Proof.
  intros Hf. rewrite link_final_states. cbn [bind].
  pose proof (drain_finals_from (Automaton_states a) (Automaton_states a) [] fuel eq_refl Hf) as H.
  cbn [length] in H. rewrite H. cbn [option_map]. f_equal.
  unfold a_final_states, conva. cbn [astates]. clear H Hf.
  induction (Automaton_states a) as [|x l IH]; [reflexivity|].
  cbn [filter map]. unfold convst at 2. cbn [a_final]. destruct (State_is_final x); cbn [map]; rewrite IH; reflexivity.
Qed.
