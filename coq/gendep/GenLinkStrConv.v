(* GenLinkStrConv.v -- the constructors of SmtString (From<..>), the lexicographic orders and the
   int / code conversions regenerated from /repo/src/smt_strings.rs on every run (SVG.StrConvGen)
   coincide with the hand-written models StrConv.v (C09) and Literal.v (constructors, C17).
   All raw arithmetic of the Rust code is translated as *checked* arithmetic; the links show that it
   returns the model's value, so no operator can overflow: the functions do not depend on the build
   profile.  The only panics are the documented ones (str_to_int above i32::MAX, SmtString::make
   above i32::MAX characters). *)
Require Import Base GenBase StrConv Literal.
From SVG Require Import StrConvGen.
Require Import ZifyBool ZifyN ZifyNat.
Open Scope N_scope.

Definition MAXLEN : nat := Z.to_nat 2147483647.
(* the result of a constructor: the vector, unless it is longer than i32::MAX (then make panics) *)
Definition made (w : list N) : option (list N) := if Nat.ltb MAXLEN (length w) then None else Some w.

(* case analysis on every comparison that occurs in the goal, whatever its orientation *)
Ltac gbools :=
  repeat match goal with
         | |- context [N.leb ?a ?b] => destruct (N.leb a b) eqn:?
         | |- context [N.ltb ?a ?b] => destruct (N.ltb a b) eqn:?
         | |- context [N.eqb ?a ?b] => destruct (N.eqb a b) eqn:?
         | |- context [Z.leb ?a ?b] => destruct (Z.leb a b) eqn:?
         | |- context [Z.ltb ?a ?b] => destruct (Z.ltb a b) eqn:?
         | |- context [Z.eqb ?a ?b] => destruct (Z.eqb a b) eqn:?
         | |- context [Nat.leb ?a ?b] => destruct (Nat.leb a b) eqn:?
         | |- context [Nat.ltb ?a ?b] => destruct (Nat.ltb a b) eqn:?
         | |- context [Nat.eqb ?a ?b] => destruct (Nat.eqb a b) eqn:?
         end.
Ltac gfin := cbn [negb andb orb]; first [ reflexivity | congruence | (exfalso; lia) | (f_equal; lia) | (f_equal; f_equal; lia) ].

(* i32::MAX as a unary nat is never computed: every comparison with it is turned into a comparison in Z *)
Lemma leb_maxlen n : Nat.leb n (Z.to_nat 2147483647) = (Z.of_nat n <=? 2147483647)%Z.
Proof.
  destruct (Nat.leb n (Z.to_nat 2147483647)) eqn:E; symmetry.
  - apply Nat.leb_le, Nat2Z.inj_le in E. rewrite Z2Nat.id in E by (intro Hc; discriminate Hc). apply Z.leb_le. exact E.
  - apply Nat.leb_gt, Nat2Z.inj_lt in E. rewrite Z2Nat.id in E by (intro Hc; discriminate Hc). apply Z.leb_gt. exact E.
Qed.

Lemma made_spec a : made a = if (Z.of_nat (length a) <=? 2147483647)%Z then Some a else None.
Proof.
  unfold made, MAXLEN. rewrite Nat.ltb_antisym, leb_maxlen.
  destruct (Z.of_nat (length a) <=? 2147483647)%Z; reflexivity.
Qed.

(* the length test of make, in either orientation (the bound is never unfolded to a numeral) *)
Lemma link_make a : option_map SmtString_s (M_SmtString_make a) = made a.
Proof.
  unfold M_SmtString_make, SmtString_make, MAX_LENGTH, made, MAXLEN, bind.
  rewrite ?Nat.ltb_antisym. destruct (Nat.leb (length a) (Z.to_nat 2147483647)); reflexivity.
Qed.

Lemma link_len s : M_SmtString_len s = Some (length (SmtString_s s)).        Proof. reflexivity. Qed.
Lemma link_is_empty s : M_SmtString_is_empty s = Some (match SmtString_s s with [] => true | _ => false end).
Proof. destruct s as [[|x l]]; reflexivity. Qed.
Lemma link_EMPTY : SmtString_s EMPTY = [].                                    Proof. reflexivity. Qed.

(* ---- constructors (C17): clamp exactly the integers above MAX_CHAR ---- *)
Lemma bind_ret {A} (o : option A) : bind o (fun t => Some t) = o.
Proof. destruct o; reflexivity. Qed.

(* pointwise facts about the clamp, whichever comparison the code uses *)
Ltac pointwise := intros; cbv [clampc MAX_CHAR REPLACEMENT_CHAR MAXC REPLC]; gbools; gfin.

Lemma link_from_slice a : option_map SmtString_s (M_SmtString_from_slice_u32 a) = made (from_slice a).
Proof.
  unfold M_SmtString_from_slice_u32, SmtString_from_slice_u32, from_slice. rewrite ?bind_ret, link_make, ?map_map.
  first [ reflexivity | (f_equal; apply map_ext; pointwise) ].
Qed.

Lemma forallb_ext {A} (f g : A -> bool) l : (forall x, f x = g x) -> forallb f l = forallb g l.
Proof. intros H. induction l as [|x l IH]; [reflexivity|]. cbn. rewrite H, IH. reflexivity. Qed.

Lemma link_from_vec a : option_map SmtString_s (M_SmtString_from_Vec_u32 a) = made (from_vec a).
Proof.
  unfold M_SmtString_from_Vec_u32, SmtString_from_Vec_u32, from_vec.
  match goal with |- context [forallb ?f a] =>
    replace (forallb f a) with (forallb (fun x => x <=? MAXC) a) by (apply forallb_ext; pointwise) end.
  destruct (forallb (fun x => x <=? MAXC) a); cbn [negb]; first [apply link_make | apply link_from_slice].
Qed.

Lemma link_from_u32 x : option_map SmtString_s (M_SmtString_from_u32 x) = Some (from_u32 x).
Proof.
  unfold M_SmtString_from_u32, SmtString_from_u32, from_u32. rewrite ?bind_ret, link_make.
  rewrite made_spec. cbn [length Z.of_nat Z.leb Z.compare Pos.of_succ_nat Pos.compare Pos.compare_cont].
  first [ reflexivity | (f_equal; f_equal; pointwise) ].
Qed.

Lemma link_from_char x : option_map SmtString_s (M_SmtString_from_char x) = Some (from_char x).
Proof. unfold M_SmtString_from_char, SmtString_from_char. apply link_from_u32. Qed.

Lemma link_from_str t : option_map SmtString_s (M_SmtString_from_str t) = made (from_str t).
Proof.
  unfold M_SmtString_from_str, SmtString_from_str, from_str. rewrite ?bind_ret, link_make, ?map_map.
  first [ reflexivity | (f_equal; apply map_ext; pointwise) ].
Qed.

(* ---- char_is_digit ---- *)
Lemma link_char_is_digit x : M_fn_char_is_digit x = Some (char_is_digit x).   Proof. reflexivity. Qed.

(* ---- vector_lt / vector_le: the scan loop, same fuel on both sides ---- *)
Definition scan_ok (r : option (loopres bool nat)) (m : option nat) : Prop :=
  match r with
  | Some (LoopDone i) => m = Some i
  | Some (LoopReturn _) => False          (* the scan loop contains no return *)
  | None => m = None
  end.

Ltac lnorm := cbv [bind option_map].
Ltac lstep :=
  match goal with
  | |- context [match ?x with _ => _ end] =>
      lazymatch x with
      | context [match _ with _ => _ end] => fail
      | _ => destruct x eqn:?
      end
  end; lnorm.
Ltac lleaf IH :=
  first [ reflexivity | discriminate | (exfalso; lia) | congruence | apply IH
        | (rewrite IH; first [ reflexivity | (f_equal; lia) ]) | (f_equal; lia) ].

Ltac sstep :=
  match goal with
  | |- context [N.eqb ?a ?b] =>
      match goal with |- context [N.eqb b a] => tryif constr_eq a b then fail else rewrite (N.eqb_sym b a) end
  | |- context [match ?x with _ => _ end] =>
      lazymatch x with
      | context [match _ with _ => _ end] => fail
      | _ => destruct x eqn:?
      end
  end; cbv [bind option_map]; cbn [scan_ok].
Ltac sleaf IH := first [ reflexivity | discriminate | congruence | (exfalso; lia) | apply IH ].

Lemma link_scan_lt fuel v w mx i :
  scan_ok (fn_vector_lt_loop1 fuel v w mx i) (skip_equal fuel v w mx i).
Proof.
  revert i; induction fuel as [|fuel IH]; intros i; [reflexivity|].
  cbn [fn_vector_lt_loop1 skip_equal]. replace (i + 1)%nat with (S i) by lia. lnorm.
  repeat sstep; sleaf IH.
Qed.

Lemma link_scan_le fuel v w mx i :
  scan_ok (fn_vector_le_loop1 fuel v w mx i) (skip_equal fuel v w mx i).
Proof.
  revert i; induction fuel as [|fuel IH]; intros i; [reflexivity|].
  cbn [fn_vector_le_loop1 skip_equal]. replace (i + 1)%nat with (S i) by lia. lnorm.
  repeat sstep; sleaf IH.
Qed.

Definition lt_fuel (v w : list N) : nat := S (Nat.min (length v) (length w)).

Lemma link_vector_lt v w : M_fn_vector_lt (lt_fuel v w) v w = vector_lt v w.
Proof.
  unfold M_fn_vector_lt, fn_vector_lt, vector_lt, lt_fuel.
  pose proof (link_scan_lt (S (Nat.min (length v) (length w))) v w (Nat.min (length v) (length w)) 0) as H.
  destruct (fn_vector_lt_loop1 _ v w _ 0) as [[b|i]|]; cbn [scan_ok] in H; [contradiction | |]; rewrite H; lnorm;
    [|reflexivity]. gbools; repeat sstep; gfin.
Qed.

Lemma link_vector_le v w : M_fn_vector_le (lt_fuel v w) v w = vector_le v w.
Proof.
  unfold M_fn_vector_le, fn_vector_le, vector_le, lt_fuel.
  pose proof (link_scan_le (S (Nat.min (length v) (length w))) v w (Nat.min (length v) (length w)) 0) as H.
  destruct (fn_vector_le_loop1 _ v w _ 0) as [[b|i]|]; cbn [scan_ok] in H; [contradiction | |]; rewrite H; lnorm;
    [|reflexivity]. gbools; repeat sstep; gfin.
Qed.

Lemma link_str_lt s1 s2 :
  M_fn_str_lt (lt_fuel (SmtString_s s1) (SmtString_s s2)) s1 s2 = str_lt (SmtString_s s1) (SmtString_s s2).
Proof. apply link_vector_lt. Qed.
Lemma link_str_le s1 s2 :
  M_fn_str_le (lt_fuel (SmtString_s s1) (SmtString_s s2)) s1 s2 = str_le (SmtString_s s1) (SmtString_s s2).
Proof. apply link_vector_le. Qed.

(* ---- is_digit / to_code / from_code ---- *)
Lemma link_str_is_digit s : M_fn_str_is_digit s = str_is_digit (SmtString_s s).
Proof.
  unfold M_fn_str_is_digit, fn_str_is_digit, str_is_digit. rewrite link_len. lnorm.
  destruct (Nat.eqb (length (SmtString_s s)) 1); [|reflexivity].
  destruct (nth_error (SmtString_s s) 0); reflexivity.
Qed.

Lemma as_i32_eq x : GenBase.u32_as_i32 x = StrConv.u32_as_i32 x.             Proof. reflexivity. Qed.

Lemma link_str_to_code s : M_fn_str_to_code s = str_to_code (SmtString_s s).
Proof.
  unfold M_fn_str_to_code, fn_str_to_code, str_to_code. rewrite link_len. lnorm.
  destruct (Nat.eqb (length (SmtString_s s)) 1); [|reflexivity].
  destruct (nth_error (SmtString_s s) 0); reflexivity.
Qed.

Lemma link_str_from_code x : option_map SmtString_s (M_fn_str_from_code x) = Some (str_from_code x).
Proof.
  unfold M_fn_str_from_code, fn_str_from_code, str_from_code.
  change (GenBase.u32_as_i32 MAX_CHAR) with 196607%Z. change (Z.of_N MAXC) with 196607%Z.
  assert (F : (0 <= x <= 196607)%Z -> option_map SmtString_s (M_SmtString_from_u32 (i32_as_u32 x)) = Some (smt_of_u32 (Z.to_N x))).
  { intros Hx. rewrite link_from_u32. unfold from_u32, smt_of_u32, i32_as_u32. rewrite Z.mod_small by lia. reflexivity. }
  gbools; cbn [negb andb orb]; first [ reflexivity | (apply F; lia) | (exfalso; lia) ].
Qed.

(* ---- str_to_int (after repair D5) ---- *)
Lemma digit_sub d : char_is_digit d = true ->
  i32_sub (GenBase.u32_as_i32 d) (GenBase.u32_as_i32 48) = Some (Z.of_N d - 48)%Z.
Proof.
  unfold char_is_digit. intros H.
  assert (48 <= d <= 57) by lia.
  unfold i32_sub, GenBase.u32_as_i32, i32_wrap, i32_in.
  rewrite !Z.mod_small by lia.
  replace (Z.of_N d + 2147483648 - 2147483648)%Z with (Z.of_N d) by lia.
  change (Z.of_N 48 + 2147483648 - 2147483648)%Z with 48%Z.
  destruct ((-2147483648 <=? Z.of_N d - 48)%Z && (Z.of_N d - 48 <=? 2147483647)%Z) eqn:E; [reflexivity | lia].
Qed.

Definition int_res (r : option (loopres Z Z)) : option Z :=
  match r with Some (LoopDone x) => Some x | Some (LoopReturn x) => Some x | None => None end.

Lemma link_to_int_loop ds : forallb char_is_digit ds = true -> forall x,
  int_res (fn_str_to_int_loop1 ds x) = to_int_loop ds x.
Proof.
  induction ds as [|d ds IH]; intros Hd x; [reflexivity|].
  cbn [forallb] in Hd. apply andb_true_iff in Hd. destruct Hd as [Hd Hds].
  cbn [fn_str_to_int_loop1 to_int_loop]. rewrite (digit_sub d Hd). lnorm.
  unfold checked_mul_i32, checked_add_i32, i32_mul, i32_add.
  change (in_i32 ?r) with (i32_in r).
  destruct (i32_in (x * 10)); [|reflexivity].
  destruct (i32_in (x * 10 + (Z.of_N d - 48))); [|reflexivity].
  apply IH. exact Hds.
Qed.

Lemma all_m_digits l : all_m (fun d => M_fn_char_is_digit d) l = Some (forallb char_is_digit l).
Proof.
  induction l as [|d l IH]; [reflexivity|].
  cbn [all_m forallb]. rewrite link_char_is_digit. lnorm.
  destruct (char_is_digit d); [exact IH | reflexivity].
Qed.

Lemma link_str_to_int s : M_fn_str_to_int s = str_to_int (SmtString_s s).
Proof.
  unfold M_fn_str_to_int, fn_str_to_int, str_to_int. rewrite link_is_empty. lnorm.
  destruct (SmtString_s s) as [|c l] eqn:E; [reflexivity|].
  rewrite all_m_digits. lnorm. cbn [orb].
  destruct (forallb char_is_digit (c :: l)) eqn:F; cbn [negb]; [|reflexivity].
  rewrite <- (link_to_int_loop (c :: l) F 0%Z).
  destruct (fn_str_to_int_loop1 (c :: l) 0) as [[x|x]|]; reflexivity.
Qed.

(* ---- accessors of SmtString (C17): is_good uses the bound that make enforces (after repair D12);
   the comparison is on lengths no test can build, so this link is the only check of it ---- *)
Require Import StrSearch StrMisc.

Lemma link_good_char x : M_fn_good_char x = Some (good_char x).              Proof. reflexivity. Qed.
Lemma link_good_string a : M_fn_good_string a = Some (good_string a).        Proof. reflexivity. Qed.

Lemma link_is_good s : M_SmtString_is_good s = Some (smt_is_good (SmtString_s s)).
Proof.
  unfold M_SmtString_is_good, SmtString_is_good, smt_is_good, StrConvGen.MAX_LENGTH, StrSearch.MAX_LENGTH.
  rewrite link_good_string.
  rewrite ?Nat.ltb_antisym, ?leb_maxlen.
  destruct (Z.of_nat (length (SmtString_s s)) <=? 2147483647)%Z; reflexivity.
Qed.

Lemma link_char s i : M_SmtString_char s i = smt_char (SmtString_s s) i.     Proof. reflexivity. Qed.

(* ---- is_unicode / to_unicode_string (char::from_u32 accepts exactly the Rust chars) ---- *)
Lemma char_from_u32_spec x : char_from_u32 x = if is_rust_char x then Some x else None.
Proof.
  unfold char_from_u32, is_rust_char.
  destruct (x <? 55296) eqn:E1; destruct (57343 <? x) eqn:E2; destruct (x <=? 1114111) eqn:E3; cbn [andb orb]; try reflexivity; exfalso; lia.
Qed.
Lemma link_all_unicode v : M_fn_all_unicode v = Some (all_unicode v).
Proof.
  unfold M_fn_all_unicode, fn_all_unicode, all_unicode. f_equal.
  induction v as [|x v IH]; [reflexivity|]. cbn [forallb]. rewrite IH, char_from_u32_spec.
  destruct (is_rust_char x); reflexivity.
Qed.
Lemma link_map_to_unicode v : M_fn_map_to_unicode v = Some (map_to_unicode v).
Proof.
  unfold M_fn_map_to_unicode, fn_map_to_unicode, map_to_unicode. f_equal.
  induction v as [|x v IH]; [reflexivity|]. cbn [map]. rewrite IH, char_from_u32_spec.
  destruct (is_rust_char x); reflexivity.
Qed.
Lemma link_is_unicode s : M_SmtString_is_unicode s = Some (smt_is_unicode (SmtString_s s)).
Proof.
  assert (E : M_SmtString_is_unicode s = M_fn_all_unicode (SmtString_s s)).
  { unfold M_SmtString_is_unicode, SmtString_is_unicode. cbv [bind]. destruct (M_fn_all_unicode (SmtString_s s)); reflexivity. }
  rewrite E. apply link_all_unicode.
Qed.
Lemma link_to_unicode_string s : M_SmtString_to_unicode_string s = Some (smt_to_unicode_string (SmtString_s s)).
Proof.
  assert (E : M_SmtString_to_unicode_string s = M_fn_map_to_unicode (SmtString_s s)).
  { unfold M_SmtString_to_unicode_string, SmtString_to_unicode_string. cbv [bind]. destruct (M_fn_map_to_unicode (SmtString_s s)); reflexivity. }
  rewrite E. apply link_map_to_unicode.
Qed.

(* ---- str_from_int: i32::to_string is the model's own decimal printer ---- *)
Require StrConvProofs.
Lemma dec_digits_link f : forall n acc w, dec_digits f n acc = Some w -> dec_digits_ f n acc = w.
Proof.
  induction f as [|f IH]; intros n acc w H; [discriminate H|].
  cbn [dec_digits dec_digits_] in *. destruct (n <? 10)%Z; [congruence|]. apply IH. exact H.
Qed.
Lemma dec_digits_len k : forall f n acc, (1 <= k)%nat -> (0 <= n < 10 ^ Z.of_nat k)%Z ->
  (length (dec_digits_ f n acc) <= length acc + k)%nat.
Proof.
  induction k as [|k IH]; intros f n acc Hk Hn; [lia|].
  destruct f as [|f]; cbn [dec_digits_]; [lia|].
  destruct (n <? 10)%Z eqn:E; [cbn [length]; lia|].
  destruct k as [|k']; [change (10 ^ Z.of_nat 1)%Z with 10%Z in Hn; lia|].
  assert (Hd : (0 <= n / 10 < 10 ^ Z.of_nat (S k'))%Z).
  { rewrite Nat2Z.inj_succ, Z.pow_succ_r in Hn by lia. split; [apply Z.div_pos; lia|].
    apply Z.div_lt_upper_bound; lia. }
  pose proof (IH f (n / 10)%Z (Z.to_N (48 + n mod 10) :: acc) ltac:(lia) Hd) as Hl. cbn [length] in Hl. lia.
Qed.
Lemma dec_digits_clamp f : forall n acc, map clampc acc = acc -> map clampc (dec_digits_ f n acc) = dec_digits_ f n acc.
Proof.
  induction f as [|f IH]; intros n acc Ha; [exact Ha|]. cbn [dec_digits_].
  assert (Hc : map clampc (Z.to_N (48 + n mod 10) :: acc) = Z.to_N (48 + n mod 10) :: acc).
  { cbn [map]. rewrite Ha. f_equal. unfold clampc, MAXC.
    pose proof (Z.mod_pos_bound n 10 ltac:(lia)) as Hm.
    destruct (Z.to_N (48 + n mod 10) <=? 196607) eqn:E; [reflexivity|exfalso; lia]. }
  destruct (n <? 10)%Z; [exact Hc|]. apply IH. exact Hc.
Qed.

Lemma from_int_nonneg x w0 : (0 <= x <= 2147483647)%Z -> str_from_int x = Some w0 ->
  option_map SmtString_s (M_SmtString_from_str (i32_to_string x)) = Some w0.
Proof.
  intros Hx Hw. unfold str_from_int in Hw. replace (0 <=? x)%Z with true in Hw by lia.
  rewrite link_from_str. unfold from_str, i32_to_string. replace (x <? 0)%Z with false by lia.
  change (dec_fuel_ x) with (dec_fuel x). apply dec_digits_link in Hw.
  rewrite dec_digits_clamp by reflexivity. rewrite Hw, made_spec.
  assert (Hl : (length w0 <= 10)%nat).
  { rewrite <- Hw. apply (dec_digits_len 10 (dec_fuel x) x []); [lia|]. change (10 ^ Z.of_nat 10)%Z with 10000000000%Z. lia. }
  replace (Z.of_nat (length w0) <=? 2147483647)%Z with true by lia. reflexivity.
Qed.
(* for every i32 x: str_from_int never panics and returns the model's numeral ("" for x < 0); the sign test
   may be written in either orientation *)
Lemma link_str_from_int x : (x <= 2147483647)%Z -> option_map SmtString_s (M_fn_str_from_int x) = str_from_int x.
Proof.
  intros Hx. unfold M_fn_str_from_int, fn_str_from_int. destruct (StrConvProofs.from_int_spec x) as [S1 S2].
  destruct (Z_lt_le_dec x 0) as [H|H].
  - rewrite (S2 H). gbools; first [ reflexivity | (exfalso; lia) ].
  - destruct (S1 H) as (w0 & Hw & _). rewrite Hw.
    gbools; first [ (apply from_int_nonneg; [lia | exact Hw]) | (exfalso; lia) ].
Qed.
Lemma link_from_String t : option_map SmtString_s (M_SmtString_from_String t) = made (from_str t).
Proof. exact (link_from_str t). Qed.
