(* C12g -- merge_partitions: the regenerated translation meets the C12 statements.
   Statements only; every proof is [exact <lemma>].  The statements are about the definitions that
   gen/rs2v.py regenerates from /repo/src on every run (namespace SVG; M_f is the monadic view of
   the Rust function f: None = f panics).  Written by bin/mkgenprops from the lemma statements. *)
Require Import Base GenBase.
Require Import CharSet Partition PartitionSpec PartitionProofs MergeProofs.
From SVG Require Import PartitionGen GenLinkPartition GenPropsPartition.
Open Scope N_scope.

(* ---- the translated two-pointer sweep is the model's merge_loop (same fuel) ---- *)

Theorem C12g_link_next_interval :
  forall (p : CharPartition) (i : nat),
       M_fn_merge_partitions_next_interval p i =
       Some (S i, fst (pget (convp p) i), snd (pget (convp p) i)).
Proof. exact link_next_interval. Qed.
Print Assumptions C12g_link_next_interval.

Theorem C12g_link_merge_loop :
  forall (fuel : nat) (p1 p2 : CharPartition),
       bounded p1 ->
       bounded p2 ->
       forall (res : CharPartition) (i : nat) (a b : N) (j : nat) (c d : N),
       a <= SENT ->
       b <= SENT ->
       c <= SENT ->
       d <= SENT ->
       merge_res (fn_merge_partitions_loop1 fuel p1 p2 (i, a, b) (j, c, d) res) =
       merge_loop fuel (convp p1) (convp p2) i a b j c d (convp res).
Proof. exact link_merge_loop. Qed.
Print Assumptions C12g_link_merge_loop.

Theorem C12g_link_merge_partitions :
  forall p1 p2 : CharPartition,
       bounded p1 ->
       bounded p2 ->
       option_map convp (M_fn_merge_partitions (merge_fuel (convp p1) (convp p2)) p1 p2) =
       pmerge_opt (convp p1) (convp p2).
Proof. exact link_merge_partitions. Qed.
Print Assumptions C12g_link_merge_partitions.

(* ---- the C12 statements on the translated code ---- *)

Theorem C12g_merge :
  forall p1 p2 : CharPartition,
       gwf p1 ->
       gwf p2 ->
       exists q : CharPartition,
         M_fn_merge_partitions (merge_fuel (convp p1) (convp p2)) p1 p2 = Some q /\
         convp q = pmerge (convp p1) (convp p2).
Proof. exact g_merge. Qed.
Print Assumptions C12g_merge.

Theorem C12g_merge_wf :
  forall p1 p2 q : CharPartition,
       gwf p1 ->
       gwf p2 -> M_fn_merge_partitions (merge_fuel (convp p1) (convp p2)) p1 p2 = Some q -> gwf q.
Proof. exact g_merge_wf. Qed.
Print Assumptions C12g_merge_wf.

Theorem C12g_merge_refines :
  forall (p1 p2 q : CharPartition) (x y : N),
       gwf p1 ->
       gwf p2 ->
       M_fn_merge_partitions (merge_fuel (convp p1) (convp p2)) p1 p2 = Some q ->
       same_class (convp q) x y -> same_class (convp p1) x y /\ same_class (convp p2) x y.
Proof. exact g_merge_refines. Qed.
Print Assumptions C12g_merge_refines.

Theorem C12g_merge_class_exact :
  forall (p1 p2 q : CharPartition) (x y : N),
       gwf p1 ->
       gwf p2 ->
       x <= y ->
       good y ->
       M_fn_merge_partitions (merge_fuel (convp p1) (convp p2)) p1 p2 = Some q ->
       same_class (convp q) x y <->
       ~ covered (ivs (convp p1)) x /\
       ~ covered (ivs (convp p2)) x /\ ~ covered (ivs (convp p1)) y /\ ~ covered (ivs (convp p2)) y \/
       (forall z : N, x <= z <= y -> same_class (convp p1) x z /\ same_class (convp p2) x z).
Proof. exact g_merge_class_exact. Qed.
Print Assumptions C12g_merge_class_exact.

Theorem C12g_merge_coarsest :
  forall (p1 p2 q : CharPartition) (r : part),
       gwf p1 ->
       gwf p2 ->
       pwf r ->
       M_fn_merge_partitions (merge_fuel (convp p1) (convp p2)) p1 p2 = Some q ->
       (forall x : N,
        covered (ivs r) x <-> covered (ivs (convp p1)) x \/ covered (ivs (convp p2)) x) ->
       (forall x y : N, same_class r x y -> same_class (convp p1) x y /\ same_class (convp p2) x y) ->
       forall x y : N, same_class r x y -> same_class (convp q) x y.
Proof. exact g_merge_coarsest. Qed.
Print Assumptions C12g_merge_coarsest.

Theorem C12g_merge_fuel :
  forall (fuel : nat) (p1 p2 : CharPartition),
       gwf p1 ->
       gwf p2 ->
       (merge_fuel (convp p1) (convp p2) <= fuel)%nat ->
       option_map convp (M_fn_merge_partitions fuel p1 p2) = Some (pmerge (convp p1) (convp p2)).
Proof. exact g_merge_fuel. Qed.
Print Assumptions C12g_merge_fuel.

Theorem C12g_merge_list_loop :
  forall (fuel : nat) (l : list CharPartition) (acc : CharPartition),
       gwf acc ->
       Forall gwf l ->
       list_fuel_ok fuel l (convp acc) ->
       list_res (fn_merge_partition_list_loop1 fuel l acc) =
       Some (fold_left pmerge (map convp l) (convp acc)).
Proof. exact g_merge_list_loop. Qed.
Print Assumptions C12g_merge_list_loop.

Theorem C12g_merge_partition_list :
  forall (fuel : nat) (l : list CharPartition),
       Forall gwf l ->
       list_fuel_ok fuel l pnew ->
       option_map convp (M_fn_merge_partition_list fuel l) = Some (pmerge_list (map convp l)).
Proof. exact g_merge_partition_list. Qed.
Print Assumptions C12g_merge_partition_list.

Theorem C12g_merge_partition_list_wf :
  forall (fuel : nat) (l : list CharPartition) (q : CharPartition),
       Forall gwf l ->
       list_fuel_ok fuel l pnew -> M_fn_merge_partition_list fuel l = Some q -> gwf q.
Proof. exact g_merge_partition_list_wf. Qed.
Print Assumptions C12g_merge_partition_list_wf.

Theorem C12g_merge_list_fuel_exists :
  forall (l : list CharPartition) (acc : part), exists fuel : nat, list_fuel_ok fuel l acc.
Proof. exact g_merge_list_fuel_exists. Qed.
Print Assumptions C12g_merge_list_fuel_exists.
