(* GenLinkBasePart.v -- the array partition of the minimizer (partitions.rs: BasePartition::new, num_blocks, index,
   size, block_size, smaller_block, pick_element, slice, add_block, split_block), regenerated from /repo/src on every
   run (SVG.BasePartGen), coincides with the model's bpart of Minimizer.v (C04).  The `as u32` casts of the Rust code
   are translated as reductions modulo 2^32; the links hold whenever the sizes fit in a u32 (the type of every size
   the code hands out), stated as comparisons in N so that 2^32 is never a unary numeral. *)
Require Import Base GenBase CharSet Partition Automaton Minimizer.
From SVG Require Import BasePartGen.
Require Import ZifyBool ZifyN ZifyNat.
Open Scope nat_scope.

Definition convh (h : BlockHeader) : nat * nat := (BlockHeader_start h, BlockHeader_end h).
Definition convbp (p : BasePartition) : bpart :=
  {| bp_block := map convh (BasePartition_block p); bp_seg := map N.to_nat (BasePartition_segment p) |}.
Definition fits (n : nat) : Prop := (N.of_nat n < 4294967296)%N.

Lemma mod32_small n : fits n -> (N.of_nat n mod 4294967296)%N = N.of_nat n.
Proof. intros H. apply N.mod_small. exact H. Qed.

Lemma list_upd_spec {A} (l : list A) i x : i < length l -> list_upd l i x = Some (upd l i x).
Proof.
  revert i. induction l as [|y l IH]; intros [|i] H; cbn [length] in H; try lia; cbn [list_upd upd]; [reflexivity|].
  rewrite IH by lia. reflexivity.
Qed.
Lemma list_upd_none {A} (l : list A) i x : length l <= i -> list_upd l i x = None.
Proof.
  revert i. induction l as [|y l IH]; intros [|i] H; cbn [length] in H; try lia; cbn [list_upd]; try reflexivity.
  rewrite IH by lia. reflexivity.
Qed.

(* ---- new: the identity permutation and the one or two block headers ---- *)
Lemma upd_mid {A} (a : list A) x b y k : k = length a -> upd (a ++ x :: b) k y = a ++ y :: b.
Proof. intros ->. induction a as [|z a IH]; cbn [app length upd]; [reflexivity|]. rewrite IH. reflexivity. Qed.

Lemma link_new_loop : forall m k, fits (k + m) ->
  BasePartition_new_loop1 (seq k m) (map N.of_nat (seq 0 k) ++ repeat 0%N m)
  = Some (LoopDone (map N.of_nat (seq 0 (k + m)))).
Proof.
  induction m as [|m IH]; intros k Hf.
  - cbn [seq repeat BasePartition_new_loop1]. rewrite app_nil_r, Nat.add_0_r. reflexivity.
  - cbn [seq repeat BasePartition_new_loop1].
    assert (Hl : length (map N.of_nat (seq 0 k)) = k) by (rewrite map_length, seq_length; reflexivity).
    rewrite list_upd_spec by (rewrite app_length, Hl; cbn [length]; lia). cbn [bind].
    rewrite upd_mid by (symmetry; exact Hl). rewrite mod32_small by (unfold fits in *; lia).
    replace (map N.of_nat (seq 0 k) ++ N.of_nat k :: repeat 0%N m) with (map N.of_nat (seq 0 (S k)) ++ repeat 0%N m).
    + rewrite IH by (replace (S k + m) with (k + S m) by lia; exact Hf). replace (S k + m) with (k + S m) by lia. reflexivity.
    + rewrite seq_S, map_app, <- app_assoc. reflexivity.
Qed.

Lemma link_new n : (n < 4294967296)%N ->
  exists p, M_BasePartition_new n = Some p /\ convbp p = bp_new (N.to_nat n).
Proof.
  intros Hn. unfold M_BasePartition_new, BasePartition_new. rewrite Nat.sub_0_r.
  pose proof (link_new_loop (N.to_nat n) 0 ltac:(unfold fits; lia)) as H. cbn [seq map app Nat.add] in H. rewrite H. cbn [bind].
  eexists. split; [reflexivity|]. unfold convbp, bp_new. cbn [BasePartition_block BasePartition_segment]. f_equal.
  - destruct (N.eqb_spec n 0) as [->|Hz]; [reflexivity|].
    destruct (Nat.eqb_spec (N.to_nat n) 0) as [E|E]; [exfalso; lia|reflexivity].
  - rewrite map_map. erewrite map_ext; [apply map_id|]. intros a. apply Nat2N.id.
Qed.

(* ---- read side ---- *)
Lemma link_num_blocks p : fits (length (BasePartition_block p)) ->
  M_BasePartition_num_blocks p = Some (N.of_nat (bp_num_blocks (convbp p))).
Proof.
  intros H. unfold M_BasePartition_num_blocks, BasePartition_num_blocks, bp_num_blocks, convbp. cbn [bp_block].
  rewrite map_length, mod32_small by exact H. reflexivity.
Qed.
Lemma link_size p : fits (BasePartition_size p) -> M_BasePartition_size_fn p = Some (N.of_nat (BasePartition_size p)).
Proof. intros H. unfold M_BasePartition_size_fn, BasePartition_size_fn. rewrite mod32_small by exact H. reflexivity. Qed.
Lemma link_index p : fits (length (BasePartition_block p)) -> 1 <= length (BasePartition_block p) ->
  M_BasePartition_index p = Some (N.of_nat (bp_num_blocks (convbp p) - 1)).
Proof.
  intros H H1. unfold M_BasePartition_index, BasePartition_index. rewrite link_num_blocks by exact H. cbn [bind].
  unfold u32_sub, bp_num_blocks, convbp. cbn [bp_block]. rewrite map_length.
  destruct (N.leb_spec 1 (N.of_nat (length (BasePartition_block p)))) as [C|C]; [|exfalso; lia]. f_equal. lia.
Qed.

Lemma nth_convh l i h : nth_error l i = Some h -> nth i (map convh l) (0, 0) = convh h.
Proof. revert i. induction l as [|x l IH]; intros [|i] H; cbn in *; try discriminate; [congruence|]. apply IH. exact H. Qed.

(* block_size: for a block inside the table, well oriented, whose size fits *)
Lemma link_block_size p i h : nth_error (BasePartition_block p) (N.to_nat i) = Some h ->
  BlockHeader_start h <= BlockHeader_end h -> fits (BlockHeader_end h - BlockHeader_start h) ->
  M_BasePartition_block_size p i = Some (N.of_nat (bp_block_size (convbp p) (N.to_nat i))).
Proof.
  intros Hh Ho Hf. unfold M_BasePartition_block_size, BasePartition_block_size, bp_block_size, convbp. cbn [bp_block].
  rewrite Hh, (nth_convh _ _ _ Hh). cbn [bind]. destruct h as [s e]. cbn [convh BlockHeader_start BlockHeader_end] in *.
  unfold usize_sub. destruct (Nat.leb_spec s e) as [C|C]; [|exfalso; lia]. cbn [bind].
  rewrite mod32_small by exact Hf. reflexivity.
Qed.
Lemma link_smaller_block p i j hi hj :
  nth_error (BasePartition_block p) (N.to_nat i) = Some hi -> nth_error (BasePartition_block p) (N.to_nat j) = Some hj ->
  BlockHeader_start hi <= BlockHeader_end hi -> fits (BlockHeader_end hi - BlockHeader_start hi) ->
  BlockHeader_start hj <= BlockHeader_end hj -> fits (BlockHeader_end hj - BlockHeader_start hj) ->
  M_BasePartition_smaller_block p i j
  = Some (Nat.leb (bp_block_size (convbp p) (N.to_nat i)) (bp_block_size (convbp p) (N.to_nat j))).
Proof.
  intros Hi Hj Oi Fi Oj Fj. unfold M_BasePartition_smaller_block, BasePartition_smaller_block.
  rewrite (link_block_size p i hi Hi Oi Fi), (link_block_size p j hj Hj Oj Fj). cbn [bind]. f_equal.
  (* either orientation of the comparison *)
  rewrite ?N.ltb_antisym.
  destruct (Nat.leb_spec (bp_block_size (convbp p) (N.to_nat i)) (bp_block_size (convbp p) (N.to_nat j)));
    repeat match goal with |- context [N.leb ?a ?b] => destruct (N.leb_spec a b) end; cbn [negb]; first [reflexivity | exfalso; lia].
Qed.
(* outside the table the code panics *)
Lemma link_block_size_oob p i : length (BasePartition_block p) <= N.to_nat i -> M_BasePartition_block_size p i = None.
Proof.
  intros H. unfold M_BasePartition_block_size, BasePartition_block_size.
  apply nth_error_None in H. rewrite H. reflexivity.
Qed.

Lemma slice_range_spec {A} (l : list A) s e : s <= e <= length l -> slice_range l s e = Some (firstn (e - s) (skipn s l)).
Proof.
  intros H. unfold slice_range. replace (Nat.leb s e && Nat.leb e (length l)) with true by lia. reflexivity.
Qed.
Lemma link_slice p i h : nth_error (BasePartition_block p) (N.to_nat i) = Some h ->
  BlockHeader_start h <= BlockHeader_end h <= length (BasePartition_segment p) ->
  option_map (map N.to_nat) (M_BasePartition_slice p i) = Some (bp_elements (convbp p) (N.to_nat i)).
Proof.
  intros Hh Ho. unfold M_BasePartition_slice, BasePartition_slice, bp_elements, convbp. cbn [bp_block bp_seg].
  rewrite Hh, (nth_convh _ _ _ Hh). cbn [bind]. destruct h as [s e]. cbn [convh BlockHeader_start BlockHeader_end] in *.
  rewrite slice_range_spec by exact Ho. cbn [option_map]. rewrite skipn_map, firstn_map. reflexivity.
Qed.
Lemma link_pick_element p i h : (0 < i)%N -> nth_error (BasePartition_block p) (N.to_nat i) = Some h ->
  BlockHeader_start h < length (BasePartition_segment p) ->
  option_map N.to_nat (M_BasePartition_pick_element p i) = Some (nth (BlockHeader_start h) (bp_seg (convbp p)) 0).
Proof.
  intros Hi Hh Hs. unfold M_BasePartition_pick_element, BasePartition_pick_element, convbp. cbn [bp_seg].
  destruct (N.ltb_spec 0 i) as [C|C]; [|exfalso; lia]. rewrite Hh. cbn [bind].
  destruct h as [s0 e0]. cbn [BlockHeader_start BlockHeader_end] in *.      (* field access or a struct pattern *)
  destruct (nth_error (BasePartition_segment p) s0) as [x|] eqn:E.
  - cbn [option_map]. f_equal. symmetry. apply nth_error_nth. rewrite nth_error_map, E. reflexivity.
  - apply nth_error_None in E. lia.
Qed.
Lemma link_pick_element_zero p : M_BasePartition_pick_element p 0 = None.
Proof. reflexivity. Qed.

(* ---- split_block: the header update of refine_block (bp_refine's third branch) ---- *)
Lemma upd_len {A} (l : list A) i x : length (upd l i x) = length l.
Proof. revert i. induction l as [|y l IH]; intros [|i]; cbn [upd length]; try reflexivity. rewrite IH. reflexivity. Qed.
Lemma map_upd {A B} (f : A -> B) l i x : map f (upd l i x) = upd (map f l) i (f x).
Proof. revert i. induction l as [|y l IH]; intros [|i]; cbn [upd map]; try reflexivity. rewrite IH. reflexivity. Qed.

Lemma link_add_block p s e : fits (length (BasePartition_block p)) ->
  exists p', M_BasePartition_add_block p s e = Some (p', N.of_nat (length (BasePartition_block p))) /\
    convbp p' = {| bp_block := bp_block (convbp p) ++ [(s, e)]; bp_seg := bp_seg (convbp p) |}.
Proof.
  intros Hf. unfold M_BasePartition_add_block, BasePartition_add_block.
  rewrite link_num_blocks by exact Hf. cbn [bind]. eexists. split.
  - unfold bp_num_blocks, convbp. cbn [bp_block]. rewrite map_length. reflexivity.
  - unfold convbp. cbn [BasePartition_block BasePartition_segment bp_block bp_seg]. rewrite map_app. reflexivity.
Qed.

Lemma link_split_block p i n h : nth_error (BasePartition_block p) (N.to_nat i) = Some h ->
  fits (length (BasePartition_block p)) ->
  exists p', M_BasePartition_split_block p i n = Some (p', N.of_nat (length (BasePartition_block p))) /\
    convbp p' = {| bp_block := upd (bp_block (convbp p)) (N.to_nat i) (BlockHeader_start h, BlockHeader_start h + n)
                               ++ [(BlockHeader_start h + n, BlockHeader_end h)];
                   bp_seg := bp_seg (convbp p) |}.
Proof.
  intros Hh Hf. unfold M_BasePartition_split_block, BasePartition_split_block. rewrite Hh. cbn [bind].
  unfold usize_add. cbn [bind].
  assert (Hi : N.to_nat i < length (BasePartition_block p)) by (apply nth_error_Some; rewrite Hh; discriminate).
  rewrite list_upd_spec by exact Hi. cbn [bind].
  set (p1 := BasePartition_mk _ _ _).
  destruct (link_add_block p1 (BlockHeader_start h + n) (BlockHeader_end h)) as (p' & E & C).
  { subst p1. cbn [BasePartition_block]. rewrite upd_len. exact Hf. }
  rewrite E. cbn [bind]. subst p1. cbn [BasePartition_block] in *. rewrite upd_len in *.
  exists p'. split; [reflexivity|]. rewrite C. unfold convbp. cbn [BasePartition_block BasePartition_segment bp_block bp_seg].
  rewrite map_upd. reflexivity.
Qed.

(* ================= Partition: the wrapper that also records the block of every element ================= *)
Definition convfp (p : Partition) : fpart :=
  {| fp_base := convbp (Partition_base p); fp_bid := map N.to_nat (Partition_block_id p) |}.

(* the forwarders are the functions of the base partition, whatever their source form *)
Lemma canon_fp_num_blocks p : M_Partition_num_blocks p = M_BasePartition_num_blocks (Partition_base p).
Proof. unfold M_Partition_num_blocks, Partition_num_blocks. cbv [bind]. destruct (M_BasePartition_num_blocks (Partition_base p)); reflexivity. Qed.
Lemma canon_fp_index p : M_Partition_index p = M_BasePartition_index (Partition_base p).
Proof. unfold M_Partition_index, Partition_index. cbv [bind]. destruct (M_BasePartition_index (Partition_base p)); reflexivity. Qed.
Lemma canon_fp_size p : M_Partition_size p = M_BasePartition_size_fn (Partition_base p).
Proof. unfold M_Partition_size, Partition_size. cbv [bind]. destruct (M_BasePartition_size_fn (Partition_base p)); reflexivity. Qed.
Lemma canon_fp_block_size p i : M_Partition_block_size p i = M_BasePartition_block_size (Partition_base p) i.
Proof. unfold M_Partition_block_size, Partition_block_size. cbv [bind]. destruct (M_BasePartition_block_size (Partition_base p) i); reflexivity. Qed.
Lemma canon_fp_smaller_block p i j : M_Partition_smaller_block p i j = M_BasePartition_smaller_block (Partition_base p) i j.
Proof. unfold M_Partition_smaller_block, Partition_smaller_block. cbv [bind]. destruct (M_BasePartition_smaller_block (Partition_base p) i j); reflexivity. Qed.
Lemma canon_fp_pick_element p i : M_Partition_pick_element p i = M_BasePartition_pick_element (Partition_base p) i.
Proof. unfold M_Partition_pick_element, Partition_pick_element. cbv [bind]. destruct (M_BasePartition_pick_element (Partition_base p) i); reflexivity. Qed.

(* block_elements: the iterator yields exactly the slice of the block, in both partition types *)
Lemma canon_block_elements p i : M_BasePartition_block_elements p i = M_BasePartition_slice p i.
Proof. unfold M_BasePartition_block_elements, BasePartition_block_elements. cbv [bind]. destruct (M_BasePartition_slice p i); reflexivity. Qed.
Lemma canon_fp_block_elements p i : M_Partition_block_elements p i = M_BasePartition_slice (Partition_base p) i.
Proof.
  unfold M_Partition_block_elements, Partition_block_elements. cbv [bind]. rewrite canon_block_elements.
  destruct (M_BasePartition_slice (Partition_base p) i); reflexivity.
Qed.
Lemma link_block_elements p i h : nth_error (BasePartition_block p) (N.to_nat i) = Some h ->
  BlockHeader_start h <= BlockHeader_end h <= length (BasePartition_segment p) ->
  option_map (map N.to_nat) (M_BasePartition_block_elements p i) = Some (bp_elements (convbp p) (N.to_nat i)).
Proof. intros H1 H2. rewrite canon_block_elements. apply (link_slice _ _ h); assumption. Qed.
Lemma link_fp_block_elements p i h : nth_error (BasePartition_block (Partition_base p)) (N.to_nat i) = Some h ->
  BlockHeader_start h <= BlockHeader_end h <= length (BasePartition_segment (Partition_base p)) ->
  option_map (map N.to_nat) (M_Partition_block_elements p i) = Some (bp_elements (fp_base (convfp p)) (N.to_nat i)).
Proof. intros H1 H2. rewrite canon_fp_block_elements. apply (link_slice _ _ h); assumption. Qed.
(* an index outside the block table is a panic, never an empty iterator *)
Lemma link_block_elements_out p i : length (BasePartition_block p) <= N.to_nat i -> M_BasePartition_block_elements p i = None.
Proof.
  intros H. rewrite canon_block_elements. unfold M_BasePartition_slice, BasePartition_slice.
  replace (nth_error (BasePartition_block p) (N.to_nat i)) with (@None BlockHeader) by (symmetry; apply nth_error_None; exact H).
  reflexivity.
Qed.

Lemma link_fp_num_blocks p : fits (length (BasePartition_block (Partition_base p))) ->
  M_Partition_num_blocks p = Some (N.of_nat (bp_num_blocks (fp_base (convfp p)))).
Proof. intros H. rewrite canon_fp_num_blocks. apply link_num_blocks. exact H. Qed.
Lemma link_fp_block_size p i h : nth_error (BasePartition_block (Partition_base p)) (N.to_nat i) = Some h ->
  BlockHeader_start h <= BlockHeader_end h -> fits (BlockHeader_end h - BlockHeader_start h) ->
  M_Partition_block_size p i = Some (N.of_nat (bp_block_size (fp_base (convfp p)) (N.to_nat i))).
Proof. intros H1 H2 H3. rewrite canon_fp_block_size. apply (link_block_size _ _ h); assumption. Qed.

Lemma map_repeat {A B} (f : A -> B) x n : map f (repeat x n) = repeat (f x) n.
Proof. induction n as [|n IH]; cbn [repeat map]; [reflexivity|]. rewrite IH. reflexivity. Qed.

(* new(n): the base partition and every element in block 1 *)
Lemma link_fp_new n : (n < 4294967296)%N ->
  exists p, M_Partition_new n = Some p /\ convfp p = fp_new (N.to_nat n).
Proof.
  intros Hn. unfold M_Partition_new, Partition_new. destruct (link_new n Hn) as (b & E & C). rewrite E. cbn [bind].
  eexists. split; [reflexivity|]. unfold convfp, fp_new. cbn [Partition_base Partition_block_id]. rewrite C, map_repeat. reflexivity.
Qed.
(* block_id(x): the recorded block; a panic exactly when x is not an element *)
Lemma link_fp_block_id p x : option_map N.to_nat (M_Partition_block_id_fn p x) = nth_error (fp_bid (convfp p)) (N.to_nat x).
Proof. unfold M_Partition_block_id_fn, Partition_block_id_fn, convfp. cbn [fp_bid]. rewrite nth_error_map. reflexivity. Qed.
Lemma link_fp_block_id_in p x : N.to_nat x < length (Partition_block_id p) ->
  option_map N.to_nat (M_Partition_block_id_fn p x) = Some (fp_block_id (convfp p) (N.to_nat x)).
Proof.
  intros H. rewrite link_fp_block_id. unfold fp_block_id. apply nth_error_nth'. unfold convfp. cbn [fp_bid]. rewrite map_length. exact H.
Qed.
